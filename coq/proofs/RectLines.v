(* Lemmas about the RectClipLines64 model (model/RectLines.v): provenance / containment, order, identity on
   inside paths, absence of out-of-bounds accesses and fuel exhaustion.  The segment intersection function is
   abstract (Section variable) throughout. *)
From Clip Require Import base.Geom base.FloatModel model.RectLeaf model.RectLines.
From Coq Require Import ZArith List Bool Lia Arith Sorted.
Local Open Scope Z_scope.

(* ---------- rectangle membership ---------- *)
Definition in_rect (r : rect) (v : pt) : Prop :=
  r_left r <= px v <= r_right r /\ r_top r <= py v <= r_bottom r.
Definition strictly_in_rect (r : rect) (v : pt) : Prop :=
  r_left r < px v < r_right r /\ r_top r < py v < r_bottom r.
Definition on_boundary (r : rect) (v : pt) : Prop :=
  in_rect r v /\ (px v = r_left r \/ px v = r_right r \/ py v = r_top r \/ py v = r_bottom r).
(* inside the rectangle grown by s on every side *)
Definition within (r : rect) (s : Z) (v : pt) : Prop :=
  r_left r - s <= px v <= r_right r + s /\ r_top r - s <= py v <= r_bottom r + s.

Lemma in_rect_within0 r v : in_rect r v <-> within r 0 v.
Proof. unfold in_rect, within; lia. Qed.

Lemma within_mono r s s' v : s <= s' -> within r s v -> within r s' v.
Proof. unfold within; lia. Qed.

Ltac bool_hyps :=
  repeat match goal with
         | H : _ && _ = true |- _ => apply andb_true_iff in H; destruct H
         | H : _ && _ = false |- _ => apply andb_false_iff in H
         | H : _ || _ = true |- _ => apply orb_true_iff in H
         | H : _ || _ = false |- _ => apply orb_false_iff in H; destruct H
         | H : negb _ = true |- _ => apply negb_true_iff in H
         | H : negb _ = false |- _ => apply negb_false_iff in H
         | H : (_ =? _) = true |- _ => apply Z.eqb_eq in H
         | H : (_ =? _) = false |- _ => apply Z.eqb_neq in H
         | H : (_ <=? _) = true |- _ => apply Z.leb_le in H
         | H : (_ <=? _) = false |- _ => apply Z.leb_gt in H
         | H : (_ <? _) = true |- _ => apply Z.ltb_lt in H
         | H : (_ <? _) = false |- _ => apply Z.ltb_ge in H
         | H : (_ >? _) = true |- _ => rewrite Z.gtb_ltb in H
         | H : (_ >? _) = false |- _ => rewrite Z.gtb_ltb in H
         | H : (_ >=? _) = true |- _ => rewrite Z.geb_leb in H
         | H : (_ >=? _) = false |- _ => rewrite Z.geb_leb in H
         end.

(* left <= right and top <= bottom (RectClip is only ever run on non-empty rectangles) *)
Definition rect_ok (r : rect) : Prop := r_left r <= r_right r /\ r_top r <= r_bottom r.

Lemma rect_nonempty_ok r : rect_is_empty r = false -> r_left r < r_right r /\ r_top r < r_bottom r.
Proof. unfold rect_is_empty. intros H. bool_hyps. lia. Qed.

(* GetLocation: exact characterisation *)
Lemma get_location_spec r p : rect_ok r ->
  let '(b, l) := get_location r p in
  (b = false <-> on_boundary r p) /\
  match l with
  | Inside => strictly_in_rect r p
  | Left => px p < r_left r \/ (px p = r_left r /\ r_top r <= py p <= r_bottom r)
  | Right => r_left r <= px p /\ (r_right r < px p \/ (px p = r_right r /\ r_top r <= py p <= r_bottom r))
             /\ ~ (px p = r_left r /\ r_top r <= py p <= r_bottom r)
  | Top => r_left r <= px p <= r_right r /\ (py p < r_top r \/ py p = r_top r)
           /\ ~ (px p = r_left r /\ r_top r <= py p <= r_bottom r) /\ ~ (px p = r_right r /\ r_top r <= py p <= r_bottom r)
  | Bottom => r_left r <= px p <= r_right r /\ r_top r <= py p /\ (r_bottom r < py p \/ py p = r_bottom r)
           /\ ~ (px p = r_left r /\ r_top r <= py p <= r_bottom r) /\ ~ (px p = r_right r /\ r_top r <= py p <= r_bottom r)
           /\ py p <> r_top r
  end.
Proof.
  unfold rect_ok, get_location, on_boundary, in_rect, strictly_in_rect. intros Hok. cbv zeta.
  repeat match goal with
         | |- context [if ?c then _ else _] => let E := fresh "E" in destruct c eqn:E
         end; bool_hyps; (split; [split; [intros; try discriminate|intros; try reflexivity]|]); try lia.
Qed.

Lemma get_location_false r p l : rect_ok r -> get_location r p = (false, l) -> in_rect r p.
Proof.
  intros Hok H. pose proof (get_location_spec r p Hok) as S. rewrite H in S. destruct S as [[S _] _].
  destruct (S eq_refl) as [I _]. exact I.
Qed.

Lemma get_location_inside r p b : rect_ok r -> get_location r p = (b, Inside) -> strictly_in_rect r p.
Proof. intros Hok H. pose proof (get_location_spec r p Hok) as S. rewrite H in S. apply S. Qed.

Lemma strictly_in_rect_in r p : strictly_in_rect r p -> in_rect r p.
Proof. unfold strictly_in_rect, in_rect; lia. Qed.

(* ---------- generic facts about Add and the ring lists ---------- *)
Definition all_pts (P : tpt -> Prop) (rs : list (list tpt)) : Prop := Forall (Forall P) rs.

Lemma add_all_pts (P : tpt -> Prop) v b rs : P v -> all_pts P rs -> all_pts P (add v b rs).
Proof.
  intros Hv H. unfold add. destruct rs as [|cur rest]; [repeat constructor; exact Hv|].
  destruct b; [constructor; [repeat constructor; exact Hv|exact H]|].
  inversion H as [|? ? Hc Hr]; subst.
  destruct cur as [|last cur']; [constructor; [repeat constructor; exact Hv|exact Hr]|].
  destruct (pt_eqb (fst last) (fst v)); [exact H|].
  constructor; [constructor; [exact Hv|exact Hc]|exact Hr].
Qed.

Lemma all_pts_rings_out (P : tpt -> Prop) rs : all_pts P rs -> all_pts P (rings_out rs).
Proof.
  intros H. unfold rings_out, all_pts in *. rewrite Forall_forall in *. intros p Hp.
  apply filter_In in Hp. destruct Hp as [Hp _]. apply in_map_iff in Hp. destruct Hp as [q [<- Hq]].
  apply in_rev in Hq. specialize (H q Hq). rewrite Forall_forall in *. intros x Hx. apply H. apply in_rev. exact Hx.
Qed.

Section Prov.
  Variable gsi : pt -> pt -> pt -> pt -> pt -> bool * pt.
  Variable r : rect.
  Variable path : list pt.

  (* a and b are the consecutive input vertices path[i-1], path[i] *)
  Definition seg_at (i : nat) (a b : pt) : Prop :=
    exists j, i = S j /\ nth_error path j = Some a /\ nth_error path i = Some b.

  (* v was returned (with result true) by GetIntersection called on (x, y) *)
  Definition gi_result (x y v : pt) : Prop :=
    exists loc ip0 l', get_intersection_g gsi r x y loc ip0 = (true, l', v).

  (* where an output point comes from *)
  Definition prov (tv : tpt) : Prop :=
    match snd tv with
    | SV i => nth_error path i = Some (fst tv) /\ in_rect r (fst tv)
    | SI i => exists a b, seg_at i a b /\ (gi_result b a (fst tv) \/ gi_result a b (fst tv))
    | SX _ => False      (* only the legacy (pre-fix) mode produces it *)
    | SC _ => False
    end.

  Lemma scan_inside_prov fuel : forall i rs l i' rs',
    all_pts prov rs -> scan_inside r path fuel i rs = Ok (l, i', rs') -> all_pts prov rs'.
  Proof.
    induction fuel as [|f IH]; intros i rs l i' rs' H E; cbn [scan_inside] in E; [discriminate|].
    destruct (i <=? highI path)%nat; [|inversion E; subst; exact H].
    destruct (nth_error path i) as [p|] eqn:Ep; [|discriminate].
    destruct (px p <? r_left r) eqn:E1; [inversion E; subst; exact H|].
    destruct (px p >? r_right r) eqn:E2; [inversion E; subst; exact H|].
    destruct (py p >? r_bottom r) eqn:E3; [inversion E; subst; exact H|].
    destruct (py p <? r_top r) eqn:E4; [inversion E; subst; exact H|].
    eapply IH; [|exact E]. apply add_all_pts; [|exact H].
    unfold prov; cbn [fst snd]. split; [exact Ep|]. unfold in_rect. bool_hyps. lia.
  Qed.

  Lemma get_next_location_rs loc i rs l i' rs' :
    get_next_location r path loc i rs = Ok (l, i', rs') ->
    (loc <> Inside /\ rs' = rs) \/ (loc = Inside /\ scan_inside r path (inner_fuel path) i rs = Ok (l, i', rs')).
  Proof.
    unfold get_next_location. intros E.
    destruct loc; try (left; split; [discriminate|];
      match type of E with match ?s with _ => _ end = _ => destruct s as [i0|]; [|discriminate] end;
      match type of E with match ?s with _ => _ end = _ => destruct s as [[l0 i1]|]; [|discriminate] end;
      inversion E; reflexivity).
    right. split; [reflexivity|exact E].
  Qed.

  Lemma get_next_location_prov loc i rs l i' rs' :
    all_pts prov rs -> get_next_location r path loc i rs = Ok (l, i', rs') -> all_pts prov rs'.
  Proof.
    intros H E. apply get_next_location_rs in E. destruct E as [[_ ->]|[_ E]]; [exact H|].
    eapply scan_inside_prov; eassumption.
  Qed.

  Lemma lines_loop_prov fuel : forall i loc rs out,
    all_pts prov rs -> lines_loop gsi false r path fuel i loc rs = Ok out -> all_pts prov out.
  Proof.
    induction fuel as [|f IH]; intros i loc rs out H E; cbn [lines_loop] in E; [discriminate|].
    destruct (i <=? highI path)%nat; [|inversion E; subst; exact H].
    destruct (get_next_location r path loc i rs) as [[[l1 i1] rs1]|] eqn:En; [|discriminate].
    pose proof (get_next_location_prov _ _ _ _ _ _ H En) as H1.
    destruct (highI path <? i1)%nat; [inversion E; subst; exact H1|].
    destruct (nth_error path i1) as [pi|] eqn:Epi; [|discriminate].
    destruct i1 as [|j]; [discriminate|].
    destruct (nth_error path j) as [pp|] eqn:Epp; [|discriminate].
    assert (Hseg : seg_at (S j) pp pi) by (exists j; auto).
    destruct (get_intersection_g gsi r pi pp l1 default_pt) as [[ok lx] ip] eqn:Eg.
    destruct ok; cbn [negb] in E; [|eapply IH; eassumption].
    assert (Hip : prov (ip, SI (S j))).
    { unfold prov; cbn [fst snd]. exists pp, pi. split; [exact Hseg|]. left. exists l1, default_pt, lx. exact Eg. }
    destruct (is_inside l1).
    { eapply IH; [|exact E]. apply add_all_pts; assumption. }
    destruct (negb (is_inside loc)).
    - destruct (get_intersection_g gsi r pp pi loc default_pt) as [[ok2 lx2] ip2] eqn:Eg2.
      destruct ok2; [|eapply IH; eassumption].
      eapply IH; [|exact E]. apply add_all_pts; [exact Hip|]. apply add_all_pts; [|exact H1].
      unfold prov; cbn [fst snd]; exists pp, pi; (split; [exact Hseg|]).
      right. exists loc, default_pt, lx2. exact Eg2.
    - eapply IH; [|exact E]. apply add_all_pts; assumption.
  Qed.

  Lemma add_all_prov : forall l i rs,
    (forall k p, nth_error l k = Some p -> nth_error path (i + k) = Some p /\ in_rect r p) ->
    all_pts prov rs -> all_pts prov (add_all i l rs).
  Proof.
    induction l as [|p t IH]; intros i rs Hl H; cbn [add_all]; [exact H|].
    apply IH.
    - intros k q Hk. specialize (Hl (S k) q Hk). replace (S i + k)%nat with (i + S k)%nat by lia. exact Hl.
    - apply add_all_pts; [|exact H]. unfold prov; cbn [fst snd]. specialize (Hl 0%nat p eq_refl).
      rewrite Nat.add_0_r in Hl. exact Hl.
  Qed.

  (* while (i <= highI && !GetLocation(...)) ++i : everything skipped is on the boundary *)
  Lemma skip_boundary_spec fuel : rect_ok r -> forall i prev i' l,
    skip_boundary r path fuel i prev = Ok (i', l) ->
    (i <= i')%nat /\ (forall k p, (i <= k < i')%nat -> nth_error path k = Some p -> in_rect r p) /\
    ((highI path < i')%nat \/ exists p, nth_error path i' = Some p /\ get_location r p = (true, l)).
  Proof.
    intros Hok. induction fuel as [|f IH]; intros i prev i' l E; cbn [skip_boundary] in E; [discriminate|].
    destruct (i <=? highI path)%nat eqn:Ei.
    - destruct (nth_error path i) as [p|] eqn:Ep; [|discriminate].
      destruct (get_location r p) as [b lp] eqn:El. destruct b; cbn [negb] in E.
      + inversion E; subst. split; [lia|]. split; [intros; lia|]. right. exists p. auto.
      + apply IH in E. destruct E as [E1 [E2 E3]]. split; [lia|]. split; [|exact E3].
        intros k q Hk Hq. destruct (Nat.eq_dec k i) as [->|Hne].
        * try rewrite Ep in Hq; inversion Hq; subst; eapply get_location_false; eassumption.
        * apply (E2 k q); [lia|exact Hq].
    - inversion E; subst. apply Nat.leb_gt in Ei. split; [lia|]. split; [intros; lia|]. left. exact Ei.
  Qed.

  Lemma lines_internal_prov out : lines_internal gsi false r path = Ok out -> all_pts prov out.
  Proof.
    unfold lines_internal. intros E.
    destruct (rect_is_empty r || (length path <? 2)%nat) eqn:Ee; [inversion E; constructor|].
    apply orb_false_iff in Ee. destruct Ee as [Ee _]. apply rect_nonempty_ok in Ee.
    assert (Hok : rect_ok r) by (unfold rect_ok; lia).
    destruct (nth_error path 0) as [p0|] eqn:Ep0; [|discriminate].
    destruct (get_location r p0) as [b0 loc0] eqn:El0.
    assert (Hstart : forall loc, (is_inside loc = true -> in_rect r p0) ->
              lines_loop gsi false r path (main_fuel path) 1 loc (if is_inside loc then add (p0, SV 0) false [] else []) = Ok out ->
              all_pts prov out).
    { intros loc Hin EL. eapply lines_loop_prov; [|exact EL].
      destruct (is_inside loc); [|constructor]. apply add_all_pts; [|constructor].
      unfold prov; cbn [fst snd]. split; [exact Ep0|]. apply Hin. reflexivity. }
    destruct b0; cbn [negb] in E.
    - apply (Hstart loc0); [|exact E]. intros Hi. destruct loc0; try discriminate.
      apply strictly_in_rect_in. eapply get_location_inside; [exact Hok|exact El0].
    - pose proof (get_location_false _ _ _ Hok El0) as Hp0.
      destruct (skip_boundary r path (inner_fuel path) 1 Inside) as [[i prev]|] eqn:Es; [|discriminate].
      apply (skip_boundary_spec _ Hok) in Es. destruct Es as [Es1 [Es2 Es3]].
      destruct (highI path <? i)%nat eqn:Ehi.
      + inversion E; subst. apply add_all_prov; [|constructor].
        intros k p Hk. cbn [Nat.add]. split; [exact Hk|].
        destruct k as [|k]; [rewrite Ep0 in Hk; inversion Hk; subst; exact Hp0|].
        apply (Es2 (S k) p); [|exact Hk]. apply Nat.ltb_lt in Ehi.
        assert (S k < length path)%nat by (apply nth_error_Some; congruence). unfold highI in Ehi. lia.
      + apply (Hstart _ (fun _ => Hp0) E).
  Qed.

  Theorem lines_provenance out :
    rect_clip_lines_g gsi r path = Ok out -> all_pts prov out.
  Proof.
    unfold rect_clip_lines_g, lines_one_t. intros E.
    destruct (rect_is_empty r); [inversion E; constructor|].
    destruct (negb (rect_intersects r (get_bounds path))); [inversion E; constructor|].
    destruct (lines_internal gsi false r path) as [rs|] eqn:Ei; [|discriminate].
    inversion E; subst. apply all_pts_rings_out. apply lines_internal_prov. exact Ei.
  Qed.

  (* GetIntersection only ever returns what the segment intersection function returned for one of the four sides *)
  Definition is_side (a b : pt) : Prop :=
    (a = rp0 r /\ b = rp3 r) \/ (a = rp0 r /\ b = rp1 r) \/ (a = rp1 r /\ b = rp2 r) \/ (a = rp2 r /\ b = rp3 r).

  Lemma get_intersection_from_gsi x y loc ip0 l' v :
    get_intersection_g gsi r x y loc ip0 = (true, l', v) ->
    exists a b ip, is_side a b /\ gsi x y a b ip = (true, v).
  Proof.
    unfold get_intersection_g, gi_try, is_side. intros E.
    destruct loc;
    repeat match type of E with
           | (let '(ok, ip) := (if ?g then _ else _) in _) = _ => destruct g
           | (let '(ok, ip) := ?c in _) = _ =>
             let ok := fresh "ok" in let q := fresh "q" in let Ec := fresh "Ec" in
             destruct c as [ok q] eqn:Ec; destruct ok;
             [inversion E; subst; do 3 eexists; split; [|exact Ec]; tauto|]
           end; try discriminate.
  Qed.
End Prov.

(* ---------- containment (partial: modulo the intersection function and the ignored result) ---------- *)
Definition pt_ok (r : rect) (tv : tpt) : Prop :=
  match snd tv with
  | SV _ => within r 0 (fst tv)
  | SI _ => within r 1 (fst tv)
  | SX _ => False
  | SC _ => False
  end.

(* what the containment clause needs from GetSegmentIntersection: a point returned with result true for a
   side of the rectangle is within one unit of the rectangle *)
Definition gsi_sound (gsi : pt -> pt -> pt -> pt -> pt -> bool * pt) (r : rect) : Prop :=
  forall x y a b ip v, is_side r a b -> gsi x y a b ip = (true, v) -> within r 1 v.

Theorem lines_inside_partial gsi r path out :
  gsi_sound gsi r -> rect_clip_lines_g gsi r path = Ok out -> all_pts (pt_ok r) out.
Proof.
  intros Hs E. apply lines_provenance in E. unfold all_pts in *.
  eapply Forall_impl; [|exact E]. intros ring. apply Forall_impl. intros [v s]. unfold prov, pt_ok; cbn [fst snd].
  destruct s as [i|i|i|k]; [|  |trivial|trivial].
  - intros [_ H]. apply in_rect_within0. exact H.
  - intros [a [b [_ [[loc [ip0 [l' H]]]|[loc [ip0 [l' H]]]]]]];
    apply get_intersection_from_gsi in H; destruct H as [sa [sb [ip [Hside Hg]]]]; eapply Hs; eassumption.
Qed.

(* ---------- order ---------- *)
(* position of a point along the input polyline: vertex i -> 2i+1, a point on the segment ending at vertex i -> 2i *)
Definition pos (s : src) : nat :=
  match s with SV i => (2 * i + 1)%nat | SI i => (2 * i)%nat | SX i => (2 * i)%nat | SC _ => 0%nat end.

Definition posl (rs : list (list tpt)) : list nat := map (fun tv => pos (snd tv)) (concat rs).

(* newest first: non-increasing, and everything <= B *)
Definition ub (B : nat) (rs : results) : Prop :=
  StronglySorted (fun a b => (b <= a)%nat) (posl rs) /\ Forall (fun x => (x <= B)%nat) (posl rs).

Lemma ub_mono B B' rs : (B <= B')%nat -> ub B rs -> ub B' rs.
Proof. intros HB [H1 H2]. split; [exact H1|]. eapply Forall_impl; [|exact H2]. cbv beta. intros; lia. Qed.

Lemma posl_add v b rs : posl (add v b rs) = posl rs \/ posl (add v b rs) = pos (snd v) :: posl rs.
Proof.
  unfold add, posl. destruct rs as [|cur rest]; [right; reflexivity|].
  destruct b; [right; reflexivity|].
  destruct cur as [|last cur']; [right; reflexivity|].
  destruct (pt_eqb (fst last) (fst v)); [left; reflexivity|right; reflexivity].
Qed.

Lemma add_ub B B' v b rs : ub B rs -> (B <= pos (snd v))%nat -> (pos (snd v) <= B')%nat -> ub B' (add v b rs).
Proof.
  intros [H1 H2] Hv Hv'. destruct (posl_add v b rs) as [E|E]; unfold ub; rewrite E.
  - split; [exact H1|]. eapply Forall_impl; [|exact H2]. cbv beta. intros; lia.
  - split.
    + constructor; [exact H1|]. eapply Forall_impl; [|exact H2]. cbv beta. intros; lia.
    + constructor; [exact Hv'|]. eapply Forall_impl; [|exact H2]. cbv beta. intros; lia.
Qed.

Section Order.
  Variable gsi : pt -> pt -> pt -> pt -> pt -> bool * pt.
  Variable r : rect.
  Variable path : list pt.

  Lemma skip_while_ge c fuel : forall i i', skip_while path c fuel i = Ok i' -> (i <= i')%nat.
  Proof.
    induction fuel as [|f IH]; intros i i' E; cbn [skip_while] in E; [discriminate|].
    destruct (i <=? highI path)%nat; [|inversion E; lia].
    destruct (nth_error path i) as [p|]; [|discriminate].
    destruct (c p); [apply IH in E; lia|inversion E; lia].
  Qed.

  Lemma scan_inside_ub fuel : forall i rs l i' rs',
    ub (2 * i) rs -> scan_inside r path fuel i rs = Ok (l, i', rs') -> ub (2 * i') rs' /\ (i <= i')%nat.
  Proof.
    induction fuel as [|f IH]; intros i rs l i' rs' H E; cbn [scan_inside] in E; [discriminate|].
    destruct (i <=? highI path)%nat; [|inversion E; subst; split; [exact H|lia]].
    destruct (nth_error path i) as [p|] eqn:Ep; [|discriminate].
    destruct (px p <? r_left r); [inversion E; subst; split; [exact H|lia]|].
    destruct (px p >? r_right r); [inversion E; subst; split; [exact H|lia]|].
    destruct (py p >? r_bottom r); [inversion E; subst; split; [exact H|lia]|].
    destruct (py p <? r_top r); [inversion E; subst; split; [exact H|lia]|].
    apply IH in E; [destruct E; split; [assumption|lia]|].
    eapply add_ub; [exact H| |]; cbn [snd pos]; lia.
  Qed.

  Lemma get_next_location_ub loc i rs l i' rs' :
    ub (2 * i) rs -> get_next_location r path loc i rs = Ok (l, i', rs') -> ub (2 * i') rs' /\ (i <= i')%nat.
  Proof.
    intros H E. destruct loc; try (eapply scan_inside_ub; eassumption);
    unfold get_next_location in E;
    match type of E with match ?s with _ => _ end = _ => destruct s as [i0|] eqn:Es; [|discriminate] end;
    apply skip_while_ge in Es; unfold after_skip in E;
    (destruct (highI path <? i0)%nat; [inversion E; subst; split; [eapply ub_mono; [|exact H]; lia|lia]|]);
    (destruct (nth_error path i0); [|discriminate]); inversion E; subst; (split; [eapply ub_mono; [|exact H]; lia|lia]).
  Qed.

  Lemma lines_loop_ub fuel : forall i loc rs out,
    ub (2 * i) rs -> lines_loop gsi false r path fuel i loc rs = Ok out -> exists B, ub B out.
  Proof.
    induction fuel as [|f IH]; intros i loc rs out H E; cbn [lines_loop] in E; [discriminate|].
    destruct (i <=? highI path)%nat; [|inversion E; subst; eexists; exact H].
    destruct (get_next_location r path loc i rs) as [[[l1 i1] rs1]|] eqn:En; [|discriminate].
    destruct (get_next_location_ub _ _ _ _ _ _ H En) as [H1 Hi].
    destruct (highI path <? i1)%nat; [inversion E; subst; eexists; exact H1|].
    destruct (nth_error path i1) as [pi|]; [|discriminate].
    destruct i1 as [|j]; [discriminate|].
    destruct (nth_error path j) as [pp|]; [|discriminate].
    destruct (get_intersection_g gsi r pi pp l1 default_pt) as [[ok lx] ip].
    destruct ok; cbn [negb] in E; [|eapply IH; [|exact E]; eapply ub_mono; [|exact H1]; lia].
    destruct (is_inside l1).
    { eapply IH; [|exact E]. eapply add_ub; [exact H1| |]; cbn [snd pos]; lia. }
    destruct (negb (is_inside loc)).
    - destruct (get_intersection_g gsi r pp pi loc default_pt) as [[ok2 lx2] ip2].
      destruct ok2; [|eapply IH; eassumption].
      eapply IH; [|exact E].
      apply (add_ub (2 * S j) (2 * S j)); [apply (add_ub (2 * S j) (2 * S j)); [exact H1| |]| |];
        cbn [snd pos]; lia.
    - eapply IH; [|exact E]. eapply add_ub; [exact H1| |]; cbn [snd pos]; lia.
  Qed.

  Lemma add_all_ub : forall l i rs, ub (2 * i) rs -> exists B, ub B (add_all i l rs).
  Proof.
    induction l as [|p t IH]; intros i rs H; cbn [add_all]; [eexists; exact H|].
    apply IH. eapply add_ub; [exact H| |]; cbn [snd pos]; lia.
  Qed.

  Lemma lines_internal_ub out : lines_internal gsi false r path = Ok out -> exists B, ub B out.
  Proof.
    unfold lines_internal. intros E.
    assert (Hnil : ub 0 []) by (split; constructor).
    destruct (rect_is_empty r || (length path <? 2)%nat); [inversion E; eexists; exact Hnil|].
    destruct (nth_error path 0) as [p0|]; [|discriminate].
    destruct (get_location r p0) as [b0 loc0].
    assert (Hstart : forall loc,
              lines_loop gsi false r path (main_fuel path) 1 loc (if is_inside loc then add (p0, SV 0) false [] else []) = Ok out ->
              exists B, ub B out).
    { intros loc EL. eapply lines_loop_ub; [|exact EL].
      destruct (is_inside loc); [|eapply ub_mono; [|exact Hnil]; lia].
      eapply add_ub; [exact Hnil| |]; cbn [snd pos]; lia. }
    destruct b0; cbn [negb] in E; [apply (Hstart _ E)|].
    destruct (skip_boundary r path (inner_fuel path) 1 Inside) as [[i prev]|]; [|discriminate].
    destruct (highI path <? i)%nat; [|apply (Hstart _ E)].
    inversion E; subst. apply add_all_ub. exact Hnil.
  Qed.
End Order.

Lemma concat_map_rev_rev {A} (l : list (list A)) : concat (map (@rev A) (rev l)) = rev (concat l).
Proof.
  induction l as [|a l IH]; [reflexivity|].
  cbn [rev concat]. rewrite map_app, concat_app, IH, rev_app_distr. cbn [map concat]. rewrite app_nil_r. reflexivity.
Qed.

Lemma ss_app_inv {A} (R : A -> A -> Prop) (a b : list A) :
  StronglySorted R (a ++ b) -> StronglySorted R a /\ StronglySorted R b /\ (forall x y, In x a -> In y b -> R x y).
Proof.
  induction a as [|x a IH]; cbn [app]; intros H.
  - split; [constructor|]. split; [exact H|]. intros ? ? [].
  - inversion H as [|? ? Hs Hf]; subst. destruct (IH Hs) as [I1 [I2 I3]].
    rewrite Forall_app in Hf. destruct Hf as [Hfa Hfb]. split; [constructor; assumption|]. split; [exact I2|].
    intros u v [<-|Hu] Hv; [rewrite Forall_forall in Hfb; apply Hfb; exact Hv|apply I3; assumption].
Qed.

Lemma ss_app {A} (R : A -> A -> Prop) (a b : list A) :
  StronglySorted R a -> StronglySorted R b -> (forall x y, In x a -> In y b -> R x y) -> StronglySorted R (a ++ b).
Proof.
  induction a as [|x a IH]; cbn [app]; intros Ha Hb Hab; [exact Hb|].
  inversion Ha as [|? ? Hs Hf]; subst. constructor.
  - apply IH; [exact Hs|exact Hb|]. intros u v Hu Hv. apply Hab; [right; exact Hu|exact Hv].
  - apply Forall_app. split; [exact Hf|]. apply Forall_forall. intros v Hv. apply Hab; [left; reflexivity|exact Hv].
Qed.

Lemma ss_concat_filter {A} (R : A -> A -> Prop) (f : list A -> bool) (L : list (list A)) :
  StronglySorted R (concat L) -> StronglySorted R (concat (filter f L)).
Proof.
  induction L as [|a L IH]; cbn [concat filter]; intros H; [constructor|].
  apply ss_app_inv in H. destruct H as [Ha [HL Hal]]. destruct (f a); [|apply IH; exact HL].
  cbn [concat]. apply ss_app; [exact Ha|apply IH; exact HL|].
  intros x y Hx Hy. apply Hal; [exact Hx|]. apply in_concat in Hy. destruct Hy as [l [Hl Hy]].
  apply filter_In in Hl. apply in_concat. exists l. tauto.
Qed.

Lemma ss_rev_flip {A} (R : A -> A -> Prop) (l : list A) :
  StronglySorted (fun a b => R b a) l -> StronglySorted R (rev l).
Proof.
  induction l as [|x l IH]; cbn [rev]; intros H; [constructor|].
  inversion H as [|? ? Hs Hf]; subst. apply ss_app; [apply IH; exact Hs|repeat constructor|].
  intros u v Hu [<-|[]]. apply in_rev in Hu. rewrite Forall_forall in Hf. apply Hf. exact Hu.
Qed.

Lemma ss_map_concat_filter {A B} (R : B -> B -> Prop) (g : A -> B) (f : list A -> bool) (L : list (list A)) :
  StronglySorted R (map g (concat L)) -> StronglySorted R (map g (concat (filter f L))).
Proof.
  induction L as [|a L IH]; cbn [concat filter]; intros H; [constructor|].
  rewrite map_app in H. apply ss_app_inv in H. destruct H as [Ha [HL Hal]]. destruct (f a); [|apply IH; exact HL].
  cbn [concat]. rewrite map_app. apply ss_app; [exact Ha|apply IH; exact HL|].
  intros x y Hx Hy. apply Hal; [exact Hx|]. apply in_map_iff in Hy. destruct Hy as [z [<- Hz]].
  apply in_map. apply in_concat in Hz. destruct Hz as [l [Hl Hz]].
  apply filter_In in Hl. apply in_concat. exists l. tauto.
Qed.

(* the concatenated output visits the input in non-decreasing position *)
Theorem lines_order gsi r path out :
  rect_clip_lines_g gsi r path = Ok out -> StronglySorted le (posl out).
Proof.
  unfold rect_clip_lines_g, lines_one_t. intros E.
  destruct (rect_is_empty r); [inversion E; constructor|].
  destruct (negb (rect_intersects r (get_bounds path))); [inversion E; constructor|].
  destruct (lines_internal gsi false r path) as [rs|] eqn:Ei; [|discriminate].
  inversion E; subst. apply lines_internal_ub in Ei. destruct Ei as [B [Hs _]].
  unfold posl, rings_out in *. apply ss_map_concat_filter.
  change (concat (map (rev (A:=tpt)) (rev rs))) with (concat (map (rev (A:=tpt)) (@rev (list tpt) rs))).
  rewrite concat_map_rev_rev, map_rev. apply ss_rev_flip. exact Hs.
Qed.

(* ---------- safety: no out-of-bounds access, no fuel exhaustion ---------- *)
Section Safety.
  Variable gsi : pt -> pt -> pt -> pt -> pt -> bool * pt.
  Variable r : rect.
  Variable path : list pt.
  Hypothesis Hn : (1 <= length path)%nat.

  (* folded so that rewriting with a lookup equation does not touch statements *)
  Definition at_ (i : nat) (p : pt) : Prop := nth_error path i = Some p.

  Lemma le_highI i : (i <=? highI path)%nat = true <-> (i < length path)%nat.
  Proof. unfold highI. rewrite Nat.leb_le. lia. Qed.

  Lemma nth_in i : (i < length path)%nat -> exists p, nth_error path i = Some p.
  Proof. intros H. destruct (nth_error path i) eqn:E; [eauto|]. apply nth_error_None in E. lia. Qed.

  Lemma skip_while_ok c fuel : forall i, (length path - i < fuel)%nat -> (i <= length path)%nat ->
    exists i', skip_while path c fuel i = Ok i' /\ (i <= i' <= length path)%nat /\
      ((i' < length path)%nat -> exists p, nth_error path i' = Some p /\ c p = false) /\
      (forall p, at_ i p -> c p = true -> (i < i')%nat).
  Proof.
    induction fuel as [|f IH]; intros i Hf Hi; [lia|]. cbn [skip_while].
    destruct (i <=? highI path)%nat eqn:Ei.
    - apply le_highI in Ei. destruct (nth_in i Ei) as [p Ep]. rewrite Ep.
      destruct (c p) eqn:Ec.
      + destruct (IH (S i)) as [i' [E [Hb [Hc Hd]]]]; [lia|lia|].
        exists i'. split; [exact E|]. split; [lia|]. split; [exact Hc|]. intros; lia.
      + exists i. split; [reflexivity|]. split; [lia|]. split; [intros _; exists p; auto|].
        intros q Hq Hcq. unfold at_ in Hq. rewrite Ep in Hq; inversion Hq; subst; congruence.
    - exists i. split; [reflexivity|]. split; [lia|].
      assert (~ (i < length path)%nat) by (rewrite <- le_highI; congruence).
      split; [intros; lia|]. intros p Hp. unfold at_ in Hp. assert (i < length path)%nat by (apply nth_error_Some; congruence). lia.
  Qed.

  (* the condition under which GetNextLocation, started in [l] at a vertex p, moves past p *)
  Definition adv (l : location) (p : pt) : bool :=
    match l with
    | Left => px p <=? r_left r
    | Top => py p <=? r_top r
    | Right => px p >=? r_right r
    | Bottom => py p >=? r_bottom r
    | Inside => negb (px p <? r_left r) && negb (px p >? r_right r) && negb (py p >? r_bottom r) && negb (py p <? r_top r)
    end.

  Lemma scan_inside_ok fuel : forall i rs, (length path - i < fuel)%nat -> (i <= length path)%nat ->
    exists l i' rs', scan_inside r path fuel i rs = Ok (l, i', rs') /\ (i <= i' <= length path)%nat /\
      ((i' < length path)%nat -> exists p, nth_error path i' = Some p /\ adv l p = true) /\
      (forall p, at_ i p -> adv Inside p = true -> (i < i')%nat).
  Proof.
    induction fuel as [|f IH]; intros i rs Hf Hi; [lia|]. cbn [scan_inside].
    destruct (i <=? highI path)%nat eqn:Ei.
    - apply le_highI in Ei. destruct (nth_in i Ei) as [p Ep]. rewrite Ep.
      assert (Hstop : forall l, adv l p = true -> adv Inside p = false ->
                exists l0 i' rs', Ok (l, i, rs) = Ok (l0, i', rs') /\ (i <= i' <= length path)%nat /\
                  ((i' < length path)%nat -> exists q, nth_error path i' = Some q /\ adv l0 q = true) /\
                  (forall q, at_ i q -> adv Inside q = true -> (i < i')%nat)).
      { intros l Hl Hins. exists l, i, rs. split; [reflexivity|]. split; [lia|]. split; [intros _; exists p; auto|].
        intros q Hq Hq'. unfold at_ in Hq. rewrite Ep in Hq; inversion Hq; subst; congruence. }
      destruct (px p <? r_left r) eqn:E1.
      { apply (Hstop Left); cbn [adv]; [bool_hyps; apply Z.leb_le; lia|rewrite E1; reflexivity]. }
      destruct (px p >? r_right r) eqn:E2.
      { apply (Hstop Right); cbn [adv]; [bool_hyps; rewrite Z.geb_leb; apply Z.leb_le; lia|rewrite E1, E2; reflexivity]. }
      destruct (py p >? r_bottom r) eqn:E3.
      { apply (Hstop Bottom); cbn [adv]; [bool_hyps; rewrite Z.geb_leb; apply Z.leb_le; lia|rewrite E1, E2, E3; reflexivity]. }
      destruct (py p <? r_top r) eqn:E4.
      { apply (Hstop Top); cbn [adv]; [bool_hyps; apply Z.leb_le; lia|rewrite E1, E2, E3, E4; reflexivity]. }
      destruct (IH (S i) (add (p, SV i) false rs)) as [l [i' [rs' [E [Hb [Hc Hd]]]]]]; [lia|lia|].
      exists l, i', rs'. split; [exact E|]. split; [lia|]. split; [exact Hc|]. intros; lia.
    - exists Inside, i, rs. split; [reflexivity|]. split; [lia|].
      assert (~ (i < length path)%nat) by (rewrite <- le_highI; congruence).
      split; [intros; lia|]. intros p Hp. unfold at_ in Hp. assert (i < length path)%nat by (apply nth_error_Some; congruence). lia.
  Qed.

  Lemma get_next_location_ok loc i rs : (i <= length path)%nat ->
    exists l i' rs', get_next_location r path loc i rs = Ok (l, i', rs') /\ (i <= i' <= length path)%nat /\
      ((i' < length path)%nat -> exists p, nth_error path i' = Some p /\ adv l p = true) /\
      (forall p, at_ i p -> adv loc p = true -> (i < i')%nat).
  Proof.
    intros Hi.
    assert (Hside : forall (c : pt -> bool) (classify : pt -> location),
              (forall p, c p = false -> adv (classify p) p = true) ->
              (forall p, adv loc p = true -> c p = true) ->
              exists l i' rs',
                match skip_while path c (inner_fuel path) i with
                | Err e => Err e
                | Ok i' => match after_skip path loc i' classify with Err e => Err e | Ok (l, i'') => Ok (l, i'', rs) end
                end = Ok (l, i', rs') /\ (i <= i' <= length path)%nat /\
                ((i' < length path)%nat -> exists p, nth_error path i' = Some p /\ adv l p = true) /\
                (forall p, at_ i p -> adv loc p = true -> (i < i')%nat)).
    { intros c classify Hcl Hadv.
      destruct (skip_while_ok c (inner_fuel path) i) as [i' [E [Hb [Hc Hd]]]]; [unfold inner_fuel; lia|exact Hi|].
      rewrite E. unfold after_skip. destruct (highI path <? i')%nat eqn:Eh.
      - exists loc, i', rs. split; [reflexivity|]. split; [exact Hb|].
        apply Nat.ltb_lt in Eh. unfold highI in Eh. split; [intros; lia|]. intros p Hp Ha. apply (Hd p Hp). auto.
      - apply Nat.ltb_ge in Eh. unfold highI in Eh. assert (Hlt : (i' < length path)%nat) by lia.
        destruct (Hc Hlt) as [p [Ep Ecp]]. rewrite Ep. exists (classify p), i', rs. split; [reflexivity|].
        split; [exact Hb|]. split; [intros _; exists p; auto|]. intros q Hq Ha. apply (Hd q Hq). auto. }
    destruct loc; cbn [get_next_location];
      try (apply Hside; [intros p Hp; cbn [adv];
             repeat match goal with |- context [if ?c then _ else _] => let E := fresh "E" in destruct c eqn:E end;
             cbn [adv]; rewrite ?Z.geb_leb in *; rewrite ?Z.gtb_ltb in *; bool_hyps;
             rewrite ?andb_true_iff, ?negb_true_iff, ?Z.leb_le, ?Z.ltb_ge; lia
           |intros p Hp; exact Hp]).
    apply scan_inside_ok; [unfold inner_fuel; lia|exact Hi].
  Qed.

  Definition al (loc : location) (i : nat) : bool :=
    match nth_error path i with Some p => adv loc p | None => true end.
  Definition phi (i : nat) (loc : location) : nat := (2 * (length path - i) + (if al loc i then 0 else 1))%nat.

  Lemma lines_loop_ok fuel : forall i loc rs, (1 <= i <= length path)%nat -> (phi i loc < fuel)%nat ->
    exists out, lines_loop gsi false r path fuel i loc rs = Ok out.
  Proof.
    induction fuel as [|f IH]; intros i loc rs Hi Hf; [lia|]. cbn [lines_loop].
    destruct (i <=? highI path)%nat eqn:Ei; [|eexists; reflexivity].
    apply le_highI in Ei.
    destruct (get_next_location_ok loc i rs) as [l1 [i1 [rs1 [En [Hb [Hc Hd]]]]]]; [lia|]. rewrite En.
    destruct (highI path <? i1)%nat eqn:Eh; [eexists; reflexivity|].
    apply Nat.ltb_ge in Eh. unfold highI in Eh. assert (Hlt : (i1 < length path)%nat) by lia.
    destruct (Hc Hlt) as [pi [Epi Hadv]]. rewrite Epi.
    destruct i1 as [|j]; [lia|]. destruct (nth_in j) as [pp Epp]; [lia|]. rewrite Epp.
    assert (Hphi1 : phi (S j) l1 = (2 * (length path - S j))%nat).
    { unfold phi, al. rewrite Epi, Hadv. lia. }
    assert (Hlow : (2 * (length path - S j) < f)%nat).
    { unfold phi in Hf. destruct (al loc i) eqn:Eal.
      - unfold al in Eal. destruct (nth_in i Ei) as [p Ep]. rewrite Ep in Eal. specialize (Hd p Ep Eal). lia.
      - lia. }
    assert (Hnext : (phi (S (S j)) l1 < f)%nat).
    { unfold phi. destruct (al l1 (S (S j))); lia. }
    destruct (get_intersection_g gsi r pi pp l1 default_pt) as [[ok lx] ip].
    destruct ok; cbn [negb]; [|apply IH; [lia|exact Hnext]].
    destruct (is_inside l1); [apply IH; [lia|rewrite Hphi1; exact Hlow]|].
    destruct (negb (is_inside loc)).
    - destruct (get_intersection_g gsi r pp pi loc default_pt) as [[ok2 lx2] ip2].
      destruct ok2; apply IH; try lia; rewrite Hphi1; exact Hlow.
    - apply IH; [lia|rewrite Hphi1; exact Hlow].
  Qed.

  Lemma skip_boundary_ok fuel : forall i prev, (length path - i < fuel)%nat -> (i <= length path)%nat ->
    exists i' l, skip_boundary r path fuel i prev = Ok (i', l) /\ (i <= i' <= length path)%nat.
  Proof.
    induction fuel as [|f IH]; intros i prev Hf Hi; [lia|]. cbn [skip_boundary].
    destruct (i <=? highI path)%nat eqn:Ei; [|do 2 eexists; split; [reflexivity|lia]].
    apply le_highI in Ei. destruct (nth_in i Ei) as [p Ep]. rewrite Ep.
    destruct (get_location r p) as [b l]. destruct b; cbn [negb]; [do 2 eexists; split; [reflexivity|lia]|].
    destruct (IH (S i) l) as [i' [l' [E Hb]]]; [lia|lia|]. exists i', l'. split; [exact E|lia].
  Qed.
End Safety.

Theorem lines_internal_no_error gsi r path : exists rs, lines_internal gsi false r path = Ok rs.
Proof.
  unfold lines_internal.
  destruct (rect_is_empty r || (length path <? 2)%nat) eqn:Ee; [eexists; reflexivity|].
  apply orb_false_iff in Ee. destruct Ee as [_ Ee]. apply Nat.ltb_ge in Ee.
  assert (Hn : (1 <= length path)%nat) by lia.
  destruct (nth_in path Hn 0%nat) as [p0 Ep0]; [lia|]. rewrite Ep0.
  destruct (get_location r p0) as [b0 loc0].
  assert (Hstart : forall loc rs, exists out, lines_loop gsi false r path (main_fuel path) 1 loc rs = Ok out).
  { intros loc rs. apply lines_loop_ok; [exact Hn|lia|]. unfold phi, main_fuel. destruct (al r path loc 1); lia. }
  destruct b0; cbn [negb]; [apply Hstart|].
  destruct (skip_boundary_ok r path Hn (inner_fuel path) 1%nat Inside) as [i [prev [E Hb]]]; [unfold inner_fuel; lia|lia|].
  rewrite E. destruct (highI path <? i)%nat; [eexists; reflexivity|apply Hstart].
Qed.

(* the model never reads out of bounds and never runs out of fuel: the main loop needs at most 2*len+2 iterations *)
Theorem lines_no_error gsi r path : exists out, rect_clip_lines_g gsi r path = Ok out.
Proof.
  unfold rect_clip_lines_g, lines_one_t.
  destruct (rect_is_empty r); [eexists; reflexivity|].
  destruct (negb (rect_intersects r (get_bounds path))); [eexists; reflexivity|].
  destruct (lines_internal_no_error gsi r path) as [rs ->]. eexists; reflexivity.
Qed.

(* ---------- identity on paths inside the rectangle ---------- *)
(* Add drops a point equal to the one added last: consecutive duplicates collapse *)
Fixpoint dedup (l : list pt) : list pt :=
  match l with
  | a :: t => match t with b :: _ => if pt_eqb a b then dedup t else a :: dedup t | [] => [a] end
  | [] => []
  end.

Fixpoint no_consec_dup (l : list pt) : Prop :=
  match l with
  | a :: t => match t with b :: _ => a <> b /\ no_consec_dup t | [] => True end
  | [] => True
  end.

Lemma dedup_id l : no_consec_dup l -> dedup l = l.
Proof.
  induction l as [|a t IH]; [reflexivity|]. destruct t as [|b t']; [reflexivity|].
  intros [Hab Ht]. cbn [dedup]. apply pt_eqb_neq in Hab. rewrite Hab.
  change (a :: dedup (b :: t') = a :: b :: t'). rewrite (IH Ht). reflexivity.
Qed.

Definition addp (acc : list pt) (p : pt) : list pt :=
  match acc with last :: _ => if pt_eqb last p then acc else p :: acc | [] => [p] end.

Lemma fold_addp l : forall a acc, fold_left addp l (a :: acc) = rev (dedup (a :: l)) ++ acc.
Proof.
  induction l as [|b t IH]; intros a acc; [reflexivity|].
  cbn [fold_left addp]. change (dedup (a :: b :: t)) with (if pt_eqb a b then dedup (b :: t) else a :: dedup (b :: t)).
  destruct (pt_eqb a b) eqn:E.
  - apply pt_eqb_eq in E. subst b. rewrite IH.
    destruct t as [|c t']; [reflexivity|].
    (* dedup (a :: a :: c ..) unfolds the same way on both sides *) reflexivity.
  - rewrite IH. cbn [rev]. rewrite <- app_assoc. reflexivity.
Qed.

Lemma add_all_single l : forall i ring, ring <> [] ->
  exists ring', add_all i l [ring] = [ring'] /\ map fst ring' = fold_left addp l (map fst ring).
Proof.
  induction l as [|p t IH]; intros i ring Hne; [exists ring; split; reflexivity|].
  cbn [add_all fold_left]. destruct ring as [|last ring0]; [congruence|].
  cbn [add map addp fst]. destruct (pt_eqb (fst last) p) eqn:E.
  - apply (IH (S i) (last :: ring0)). discriminate.
  - destruct (IH (S i) ((p, SV i) :: last :: ring0)) as [ring' [E1 E2]]; [discriminate|].
    exists ring'. split; [exact E1|]. rewrite E2. reflexivity.
Qed.

Lemma add_all_dedup p0 t : exists ring, add_all 0 (p0 :: t) [] = [ring] /\ map fst ring = rev (dedup (p0 :: t)).
Proof.
  cbn [add_all add]. destruct (add_all_single t 1 [(p0, SV 0)]) as [ring [E1 E2]]; [discriminate|].
  exists ring. split; [exact E1|]. rewrite E2. cbn [map fst]. rewrite fold_addp, app_nil_r. reflexivity.
Qed.

Lemma skipn_nth {A} (l : list A) : forall i p, nth_error l i = Some p -> skipn i l = p :: skipn (S i) l.
Proof.
  induction l as [|a l IH]; intros [|i] p H; cbn in H; try discriminate.
  - inversion H; reflexivity.
  - cbn [skipn]. rewrite (IH i p H). reflexivity.
Qed.

Section Identity.
  Variable gsi : pt -> pt -> pt -> pt -> pt -> bool * pt.
  Variable r : rect.
  Variable path : list pt.
  Hypothesis Hn : (2 <= length path)%nat.
  Hypothesis Hin : forall v, In v path -> in_rect r v.

  Lemma scan_inside_all fuel : forall i rs, (length path - i < fuel)%nat -> (i <= length path)%nat ->
    scan_inside r path fuel i rs = Ok (Inside, length path, add_all i (skipn i path) rs).
  Proof.
    induction fuel as [|f IH]; intros i rs Hf Hi; [lia|]. cbn [scan_inside].
    destruct (i <=? highI path)%nat eqn:Ei.
    - apply le_highI in Ei; [|lia]. destruct (nth_error path i) as [p|] eqn:Ep; [|apply nth_error_None in Ep; lia].
      pose proof (Hin p (nth_error_In _ _ Ep)) as [Hx Hy].
      replace (px p <? r_left r) with false by (symmetry; apply Z.ltb_ge; lia).
      replace (px p >? r_right r) with false by (symmetry; rewrite Z.gtb_ltb; apply Z.ltb_ge; lia).
      replace (py p >? r_bottom r) with false by (symmetry; rewrite Z.gtb_ltb; apply Z.ltb_ge; lia).
      replace (py p <? r_top r) with false by (symmetry; apply Z.ltb_ge; lia).
      rewrite (skipn_nth _ _ _ Ep). cbn [add_all]. apply IH; lia.
    - assert (~ (i < length path)%nat) by (rewrite <- le_highI; [congruence|lia]).
      replace i with (length path) by lia. rewrite skipn_all. reflexivity.
  Qed.

  Lemma lines_loop_all rs :
    lines_loop gsi false r path (main_fuel path) 1 Inside rs = Ok (add_all 1 (skipn 1 path) rs).
  Proof.
    unfold main_fuel. cbn [Nat.add Nat.mul]. rewrite Nat.add_succ_r. cbn [lines_loop].
    replace (1 <=? highI path)%nat with true by (symmetry; apply le_highI; lia).
    cbn [get_next_location]. rewrite scan_inside_all; [|unfold inner_fuel; lia|lia].
    replace (highI path <? length path)%nat with true by (symmetry; apply Nat.ltb_lt; unfold highI; lia).
    reflexivity.
  Qed.

  Lemma lines_internal_all : rect_is_empty r = false ->
    lines_internal gsi false r path = Ok (add_all 0 path []).
  Proof.
    intros He. unfold lines_internal. rewrite He.
    replace (length path <? 2)%nat with false by (symmetry; apply Nat.ltb_ge; lia). cbn [orb].
    apply rect_nonempty_ok in He. assert (Hok : rect_ok r) by (unfold rect_ok; lia).
    destruct path as [|p0 t] eqn:Epath; [cbn in Hn; lia|]. rewrite <- Epath in *.
    assert (Ep0 : nth_error path 0 = Some p0) by (rewrite Epath; reflexivity). rewrite Ep0.
    assert (Hsk : skipn 1 path = t) by (rewrite Epath; reflexivity).
    assert (Hall : add_all 0 path [] = add_all 1 t [[(p0, SV 0)]]) by (rewrite Epath; reflexivity).
    (* a vertex of the path for which GetLocation returns true is Inside *)
    assert (Hloc : forall p l, In p path -> get_location r p = (true, l) -> l = Inside).
    { intros p l Hp El. pose proof (get_location_spec r p Hok) as S. rewrite El in S. destruct S as [[_ Sb] S].
      assert (Hnb : ~ on_boundary r p) by (intros Hb; specialize (Sb Hb); discriminate).
      destruct (Hin p Hp) as [Hx Hy]. unfold on_boundary, in_rect in Hnb.
      destruct l; try reflexivity; exfalso; lia. }
    destruct (get_location r p0) as [b0 loc0] eqn:El0. destruct b0; cbn [negb].
    - rewrite (Hloc p0 loc0 (nth_error_In _ _ Ep0) El0). cbn [is_inside]. rewrite lines_loop_all, Hsk, Hall. reflexivity.
    - destruct (skip_boundary r path (inner_fuel path) 1 Inside) as [[i prev]|] eqn:Es.
      + destruct (highI path <? i)%nat eqn:Eh; [reflexivity|].
        apply (skip_boundary_spec _ _ _ Hok) in Es. destruct Es as [_ [_ [Es|[p [Ep El]]]]].
        * apply Nat.ltb_ge in Eh. lia.
        * rewrite (Hloc p prev (nth_error_In _ _ Ep) El). cbn [is_inside]. rewrite lines_loop_all, Hsk, Hall. reflexivity.
      + destruct (skip_boundary_ok r path) with (fuel := inner_fuel path) (i := 1%nat) (prev := Inside) as [i' [l' [E' _]]];
          [lia|unfold inner_fuel; lia|lia|congruence].
  Qed.
End Identity.

(* bounds of the path contain every vertex *)
Lemma get_bounds_fold l : forall b0,
  let B := fold_left (fun b v =>
      mkRect (if px v <? r_left b then px v else r_left b)
             (if py v <? r_top b then py v else r_top b)
             (if px v >? r_right b then px v else r_right b)
             (if py v >? r_bottom b then py v else r_bottom b)) l b0 in
  (r_left B <= r_left b0 /\ r_top B <= r_top b0 /\ r_right b0 <= r_right B /\ r_bottom b0 <= r_bottom B) /\
  (forall v, In v l -> in_rect B v).
Proof.
  induction l as [|a l IH]; intros b0; cbn [fold_left]; [split; [lia|intros ? []]|].
  cbv zeta in *. match goal with |- context [fold_left ?f l ?b1] => specialize (IH b1); set (b1' := b1) in * end.
  destruct IH as [IH1 IH2].
  assert (Hb1 : r_left b1' <= r_left b0 /\ r_top b1' <= r_top b0 /\ r_right b0 <= r_right b1' /\ r_bottom b0 <= r_bottom b1'
                /\ in_rect b1' a).
  { unfold b1', in_rect; cbn [r_left r_top r_right r_bottom].
    destruct (px a <? r_left b0) eqn:E1, (py a <? r_top b0) eqn:E2, (px a >? r_right b0) eqn:E3, (py a >? r_bottom b0) eqn:E4;
      bool_hyps; lia. }
  split; [lia|]. intros v [<-|Hv]; [|apply IH2; exact Hv].
  unfold in_rect in *. lia.
Qed.

Lemma rect_intersects_bounds r path v : In v path -> in_rect r v -> rect_intersects r (get_bounds path) = true.
Proof.
  intros Hv [Hx Hy]. unfold get_bounds. pose proof (get_bounds_fold path (mkRect i64_max i64_max i64_lowest i64_lowest)) as H.
  cbv zeta in H. destruct H as [_ H]. specialize (H v Hv). destruct H as [Bx By].
  unfold rect_intersects. apply andb_true_iff. split; apply Z.leb_le; lia.
Qed.

Theorem lines_identity gsi r path :
  rect_is_empty r = false -> (2 <= length path)%nat -> (forall v, In v path -> in_rect r v) ->
  exists out, rect_clip_lines_g gsi r path = Ok out /\
              untag out = if (2 <=? length (dedup path))%nat then [dedup path] else [].
Proof.
  intros He Hn Hin. unfold rect_clip_lines_g, lines_one_t. rewrite He.
  destruct path as [|p0 t] eqn:Epath; [cbn in Hn; lia|]. rewrite <- Epath in *.
  rewrite (rect_intersects_bounds r path p0); [|rewrite Epath; left; reflexivity|apply Hin; rewrite Epath; left; reflexivity].
  cbn [negb]. rewrite (lines_internal_all gsi r path Hn Hin He).
  eexists. split; [reflexivity|].
  destruct (add_all_dedup p0 t) as [ring [E1 E2]]. rewrite Epath at 1. rewrite E1.
  unfold rings_out, untag. cbn [rev app map filter].
  assert (Hlen : length (rev ring) = length (dedup path)).
  { rewrite rev_length. pose proof (f_equal (@length pt) E2) as HL. rewrite map_length, rev_length, <- Epath in HL. exact HL. }
  rewrite Hlen.
  destruct (2 <=? length (dedup path))%nat; [|reflexivity].
  cbn [map]. f_equal. transitivity (rev (map fst ring)); [apply map_rev|].
  rewrite E2, rev_involutive, <- Epath. reflexivity.
Qed.

Corollary lines_identity_nodup gsi r path :
  rect_is_empty r = false -> (2 <= length path)%nat -> (forall v, In v path -> in_rect r v) -> no_consec_dup path ->
  exists out, rect_clip_lines_g gsi r path = Ok out /\ untag out = [path].
Proof.
  intros He Hn Hin Hd. destruct (lines_identity gsi r path He Hn Hin) as [out [E U]].
  exists out. split; [exact E|]. rewrite (dedup_id _ Hd) in U.
  replace (2 <=? length path)%nat with true in U by (symmetry; apply Nat.leb_le; exact Hn). exact U.
Qed.

(* shorter paths (0 or 1 point) produce nothing *)
Theorem lines_short gsi r path : (length path < 2)%nat -> rect_clip_lines_g gsi r path = Ok [].
Proof.
  intros Hn. unfold rect_clip_lines_g, lines_one_t, lines_internal.
  destruct (rect_is_empty r); [reflexivity|].
  destruct (negb (rect_intersects r (get_bounds path))); [reflexivity|].
  replace (length path <? 2)%nat with true by (symmetry; apply Nat.ltb_lt; exact Hn).
  cbn [orb]. reflexivity.
Qed.

(* ---------- statements in the form used by props/Properties_C09.v ---------- *)
Lemma lines_provenance_pointwise gsi r path out piece v s :
  rect_clip_lines_g gsi r path = Ok out -> In piece out -> In (v, s) piece ->
  match s with
  | SV i => nth_error path i = Some v /\ in_rect r v
  | SI i => exists a b, seg_at path i a b /\ (gi_result gsi r b a v \/ gi_result gsi r a b v)
  | SX _ => False
  | SC _ => False
  end.
Proof.
  intros E Hp Hv. apply lines_provenance in E. unfold all_pts in E. rewrite Forall_forall in E.
  specialize (E piece Hp). rewrite Forall_forall in E. exact (E (v, s) Hv).
Qed.

Lemma lines_inside_pointwise gsi r path out piece v s :
  gsi_sound gsi r -> rect_clip_lines_g gsi r path = Ok out -> In piece out -> In (v, s) piece ->
  match s with SV _ => within r 0 v | SI _ => within r 1 v | SX _ => False | SC _ => False end.
Proof.
  intros Hs E Hp Hv. apply (lines_inside_partial _ _ _ _ Hs) in E. unfold all_pts in E. rewrite Forall_forall in E.
  specialize (E piece Hp). rewrite Forall_forall in E. exact (E (v, s) Hv).
Qed.

(* hypotheses are satisfiable *)
Example gsi_sound_sat : forall r, gsi_sound (fun _ _ _ _ ip => (false, ip)) r.
Proof. intros r x y a b ip v _ H. discriminate. Qed.

Example lines_identity_sat :
  let r := mkRect 0 0 10 10 in let p := [(1, 1); (10, 5); (3, 0)] in
  rect_is_empty r = false /\ (2 <= length p)%nat /\ (forall v, In v p -> in_rect r v) /\ no_consec_dup p
  /\ rect_clip_lines r p = [p].
Proof.
  cbv zeta. split; [reflexivity|]. split; [cbn; lia|]. split.
  - intros v [<-|[<-|[<-|[]]]]; unfold in_rect; cbn; lia.
  - split; [cbn; repeat split; discriminate|vm_compute; reflexivity].
Qed.

(* the real model (binary64 GetSegmentIntersection) *)
Corollary rect_clip_lines_total r p : exists out, rect_clip_lines_t r p = Ok out /\ rect_clip_lines r p = untag out.
Proof.
  destruct (lines_no_error get_segment_intersection r p) as [out E]. exists out. split; [exact E|].
  unfold rect_clip_lines. fold (rect_clip_lines_t r p) in E. rewrite E. reflexivity.
Qed.

(* containment on the untagged output *)
Lemma lines_inside_untagged gsi r path out piece v :
  gsi_sound gsi r -> rect_clip_lines_g gsi r path = Ok out -> In piece (untag out) -> In v piece -> within r 1 v.
Proof.
  intros Hs E Hp Hv. unfold untag in Hp. apply in_map_iff in Hp. destruct Hp as [tp [<- Htp]].
  apply in_map_iff in Hv. destruct Hv as [[v' s] [<- Hv]]. cbn [fst].
  pose proof (lines_inside_pointwise gsi r path out tp v' s Hs E Htp Hv) as H.
  destruct s; try contradiction; [eapply within_mono; [|exact H]; lia|exact H].
Qed.
