(* TreeContains.v -- the library's own nesting test (CheckPolytreeFullyContainsChildren, model/TreeCheck.fully_contains)
   accepts every tree in which the exact checker finds no child outside its parent (clause 32). *)
From Clip Require Import base.Geom base.Winding model.TreeCheck.
From Coq Require Import ZArith List Bool Lia.
Import ListNotations.
Local Open Scope Z_scope.

Lemma inside_or_on_nil v : inside_or_on [] v = false.
Proof. reflexivity. Qed.

Lemma outside_scan_all_inside parent vs : forall cnt,
  (3 <= length parent)%nat -> cnt <= 0 -> forallb (inside_or_on parent) vs = true -> outside_scan parent cnt vs = true.
Proof.
  induction vs as [|v t IH]; intros cnt L C F; [reflexivity|].
  cbn [forallb] in F. apply andb_true_iff in F. destruct F as [Fv Ft].
  cbn [outside_scan]. unfold pip_lib.
  destruct (length parent <? 3)%nat eqn:E3; [apply Nat.ltb_lt in E3; lia|].
  unfold inside_or_on in Fv.
  destruct (on_path parent v) eqn:Eo.
  - destruct (1 <? cnt) eqn:E1; [apply Z.ltb_lt in E1; lia|].
    destruct (cnt <? -1); [reflexivity|]. apply IH; assumption.
  - cbn [orb] in Fv. rewrite Fv.
    destruct (1 <? cnt - 1) eqn:E1; [apply Z.ltb_lt in E1; lia|].
    destruct (cnt - 1 <? -1); [reflexivity|]. apply IH; [assumption|lia|assumption].
Qed.

Lemma annotate_in : forall l idx st i par n, In (i, par, n) (annotate idx st l) -> In n l.
Proof.
  induction l as [|a t IH]; intros idx st i par n H; [destruct H|].
  cbn [annotate] in H. destruct H as [H|H].
  - inversion H; subst. left; reflexivity.
  - right. eapply IH; exact H.
Qed.

Lemma child_ok_scan ann nodes j child :
  (forall e, In e ann -> In (snd e) nodes) ->
  (forall n, In n nodes -> (3 <= length (tn_path n))%nat) ->
  child_ok (node_path ann j) child = true -> outside_scan (node_path ann j) 0 child = true.
Proof.
  intros Hin Hlen Hok. unfold child_ok in Hok. apply andb_true_iff in Hok. destruct Hok as [Hall _].
  unfold node_path in *.
  destruct (find (fun e : Z * option Z * tnode => fst (fst e) =? j) ann) as [e|] eqn:Ef.
  - apply find_some in Ef. destruct Ef as [Ein _].
    apply outside_scan_all_inside; [apply Hlen, Hin, Ein | lia | exact Hall].
  - destruct child as [|v t]; [reflexivity|].
    cbn [forallb] in Hall. rewrite inside_or_on_nil in Hall. discriminate Hall.
Qed.

Theorem fully_contains_of_tree_check : forall rv nodes closed opened topen,
  (forall i, ~ In (code_child_outside, i) (tree_check rv nodes closed opened topen)) ->
  (forall n, In n nodes -> (3 <= length (tn_path n))%nat) ->
  fully_contains nodes = true.
Proof.
  intros rv nodes closed opened topen Hno Hlen.
  unfold fully_contains. apply forallb_forall. intros [[i par] n] Hin. cbn [fst snd].
  destruct par as [j|]; [|reflexivity].
  assert (Hann : forall e, In e (annotate 0 [] nodes) -> In (snd e) nodes).
  { intros [[i' p'] n'] H. cbn [snd]. eapply annotate_in; exact H. }
  apply (child_ok_scan _ nodes); [exact Hann | exact Hlen |].
  destruct (child_ok (node_path (annotate 0 [] nodes) j) (tn_path n)) eqn:Ec; [reflexivity|].
  exfalso. apply (Hno i). unfold tree_check.
  apply in_or_app. right. apply in_or_app. left.
  apply in_flat_map. exists (i, Some j, n). split; [exact Hin|].
  unfold node_checks. rewrite Ec. apply in_or_app. left. left. reflexivity.
Qed.

(* the hypotheses are satisfiable, and the converse fails (the library's test tolerates one vertex outside) *)
Example fully_contains_of_tree_check_nonvacuous :
  tree_check false [mkTnode 0 false (sq 0 100); mkTnode 1 true (rev (sq 20 80))] [sq 0 100; rev (sq 20 80)] [] [] = [].
Proof. vm_compute. reflexivity. Qed.

Example fully_contains_weaker_than_clause_32 :
  let nodes := [mkTnode 0 false (sq 0 100); mkTnode 1 true [(20, 20); (20, 80); (80, 80); (120, 20)]] in
  fully_contains nodes = true /\ In (code_child_outside, 1) (tree_check false nodes [] [] []).
Proof. vm_compute. split; [reflexivity|]. tauto. Qed.
