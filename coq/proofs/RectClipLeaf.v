(* C08 -- theorems about the TRANSLATED leaf functions of clipper.rectclip.cpp (coq/gen/Gen_rect.v, regenerated from
   the source on every run; nothing here mentions a hand model of them):
     location_partition   GetLocation: result false <-> the point lies on the boundary, on the side that loc names;
                          result true -> loc is the correct outside region / Inside
     loc_group            the Z/4 facts about HeadingClockwise / GetAdjacentLocation / AreOpposites on the four side
                          codes that the state machine of RectClip64::ExecuteInternal relies on
     gi_true_side         GetIntersection returning true sets loc to a side and the point is what
                          GetSegmentIntersection returned (true) for exactly that side
     gsi_on_rect_partial  GetSegmentIntersection against an axis-parallel side, |coordinates| <= 2^25: the cross
                          products are exact, so a `true` result is either an end point lying EXACTLY on both closed
                          segments, or the segments cross properly and the point is GetSegmentIntersectPt's *)
From Clip Require Import base.Geom base.FloatModel base.Winding base.CSem gen.Gen_core gen.Gen_rect.
From Clip Require model.RectLeaf proofs.RectFloat.
From Coq Require Import ZArith List Bool Lia Floats.
Local Open Scope Z_scope.

Ltac b2p := repeat match goal with
  | H : _ && _ = true |- _ => apply andb_true_iff in H; destruct H
  | H : (_ =? _) = true |- _ => apply Z.eqb_eq in H
  | H : (_ =? _) = false |- _ => apply Z.eqb_neq in H
  | H : (_ <=? _) = true |- _ => apply Z.leb_le in H
  | H : (_ <=? _) = false |- _ => apply Z.leb_gt in H
  | H : (_ <? _) = true |- _ => apply Z.ltb_lt in H
  | H : (_ <? _) = false |- _ => apply Z.ltb_ge in H
  end.

(* ====================================================================== GetLocation *)
Definition sides : list Z := [Location_Left; Location_Top; Location_Right; Location_Bottom].

(* p lies on the closed side of r that loc names *)
Definition on_side (r : Rect64) (p : pt) (loc : Z) : Prop :=
  (loc = Location_Left /\ px p = r_left r /\ r_top r <= py p <= r_bottom r) \/
  (loc = Location_Right /\ px p = r_right r /\ r_top r <= py p <= r_bottom r) \/
  (loc = Location_Top /\ py p = r_top r /\ r_left r <= px p <= r_right r) \/
  (loc = Location_Bottom /\ py p = r_bottom r /\ r_left r <= px p <= r_right r).

Definition on_boundary (r : Rect64) (p : pt) : Prop := exists loc, on_side r p loc.

(* p is not on the boundary and loc is its region: strictly left of the rectangle; else strictly right; else (within the
   x-range) strictly above; else strictly below; else strictly inside *)
Definition off_region (r : Rect64) (p : pt) (loc : Z) : Prop :=
  (loc = Location_Left /\ px p < r_left r) \/
  (loc = Location_Right /\ r_left r <= px p /\ r_right r < px p) \/
  (loc = Location_Top /\ r_left r <= px p <= r_right r /\ py p < r_top r) \/
  (loc = Location_Bottom /\ r_left r <= px p <= r_right r /\ r_top r <= py p /\ r_bottom r < py p) \/
  (loc = Location_Inside /\ r_left r < px p < r_right r /\ r_top r < py p < r_bottom r).

(* The proof does not depend on the order of the tests or of the operands of && in the source: it splits on whatever
   conditions the translated definition contains and leaves linear arithmetic. *)
Ltac split_false := repeat match goal with
  | H : _ && _ = false |- _ => apply andb_false_iff in H; destruct H as [H|H]
  | H : _ || _ = true |- _ => apply orb_true_iff in H; destruct H as [H|H]
  | H : _ || _ = false |- _ => apply orb_false_iff in H; destruct H
  | H : negb _ = true |- _ => apply negb_true_iff in H
  | H : negb _ = false |- _ => apply negb_false_iff in H
  end.

Ltac on_side_tac :=
  first [left; split; [reflexivity|lia] | right; left; split; [reflexivity|lia]
        | right; right; left; split; [reflexivity|lia] | right; right; right; split; [reflexivity|lia]].
Ltac off_region_tac :=
  first [left; split; [reflexivity|lia] | right; left; split; [reflexivity|lia] | right; right; left; split; [reflexivity|lia]
        | right; right; right; left; split; [reflexivity|lia] | right; right; right; right; split; [reflexivity|lia]].

Theorem location_partition r p l0 onb loc :
  GetLocation r p l0 = (onb, loc) ->
  (onb = false <-> on_boundary r p) /\ (onb = false -> on_side r p loc) /\ (onb = true -> off_region r p loc).
Proof.
  unfold GetLocation. intros H.
  repeat match type of H with
         | (if ?c then _ else _) = _ => let E := fresh "E" in destruct c eqn:E
         | (let _ := _ in _) = _ => cbv zeta in H
         end;
  inversion H; subst; clear H; b2p; split_false; b2p;
  unfold on_boundary, on_side, off_region, Location_Left, Location_Top, Location_Right, Location_Bottom, Location_Inside;
  (split; [split; [intros Hb; try discriminate Hb; eexists; on_side_tac
                  |intros [l [S|[S|[S|S]]]]; try reflexivity; exfalso; lia]
          |split; [intros Hb; try discriminate Hb; on_side_tac|intros Hb; try discriminate Hb; off_region_tac]]).
Qed.

(* every point gets one of the five codes *)
Corollary location_code r p l0 onb loc :
  GetLocation r p l0 = (onb, loc) -> In loc sides \/ loc = Location_Inside.
Proof.
  intros H. destruct (location_partition _ _ _ _ _ H) as (_ & S & R). destruct onb.
  - destruct (R eq_refl) as [[-> _]|[[-> _]|[[-> _]|[[-> _]|[-> _]]]]]; unfold sides; cbn [In]; auto 8.
  - destruct (S eq_refl) as [[-> _]|[[-> _]|[[-> _]|[-> _]]]]; unfold sides; cbn [In]; auto 8.
Qed.

Example location_partition_sat :
  GetLocation (mkRect64 0 0 10 10) (0, 5) 4 = (false, Location_Left) /\ GetLocation (mkRect64 0 0 10 10) (3, 11) 4 = (true, Location_Bottom).
Proof. split; reflexivity. Qed.

(* ====================================================================== the Z/4 facts *)
Definition adjz (a : Z) (cw : bool) : Z := GetAdjacentLocation a cw.

Fixpoint iter_adj (k : nat) (a : Z) (cw : bool) : Z := match k with O => a | S j => iter_adj j (adjz a cw) cw end.

Lemma in_sides a : In a sides -> a = 0 \/ a = 1 \/ a = 2 \/ a = 3.
Proof. unfold sides. cbn [In]. intros [<-|[<-|[<-|[<-|[]]]]]; vm_compute; tauto. Qed.

(* the finite part, decided by computation over the 4 x 4 side codes *)
Definition loc_group_b (a b : Z) : bool :=
  forallb (fun cw => existsb (Z.eqb (adjz a cw)) sides) [true; false]
  && (adjz (adjz a true) false =? a) && (adjz (adjz a false) true =? a)
  && (iter_adj 4 a true =? a) && (iter_adj 4 a false =? a)
  && Bool.eqb (HeadingClockwise a b) (b =? adjz a true)
  && Bool.eqb (HeadingClockwise b a) (b =? adjz a false)
  && Bool.eqb (AreOpposites a b) (b =? adjz (adjz a true) true)
  && Bool.eqb (AreOpposites a b) (b =? adjz (adjz a false) false)
  && Bool.eqb (AreOpposites a b) (AreOpposites b a)
  && (Z.b2z (a =? b) + Z.b2z (HeadingClockwise a b) + Z.b2z (HeadingClockwise b a) + Z.b2z (AreOpposites a b) =? 1)
  && forallb (fun cw => existsb (fun k => iter_adj k a cw =? b) [0; 1; 2; 3]%nat) [true; false]
  && (AreOpposites a b || (a =? b) || ((adjz a (HeadingClockwise a b)) =? b)).

Lemma loc_group_all : forallb (fun a => forallb (loc_group_b a) sides) sides = true.
Proof. vm_compute. reflexivity. Qed.

Lemma loc_group_ab a b : In a sides -> In b sides -> loc_group_b a b = true.
Proof.
  intros Ha Hb. pose proof loc_group_all as H. rewrite forallb_forall in H. specialize (H a Ha).
  rewrite forallb_forall in H. apply H, Hb.
Qed.

Theorem loc_group a b :
  In a sides -> In b sides ->
  (* adjacent locations are sides, the two directions are inverse, four steps close the cycle *)
  (forall cw, In (adjz a cw) sides) /\ adjz (adjz a true) false = a /\ adjz (adjz a false) true = a
  /\ (forall cw, iter_adj 4 a cw = a)
  (* HeadingClockwise / AreOpposites are "one step clockwise" / "two steps" *)
  /\ (HeadingClockwise a b = true <-> b = adjz a true)
  /\ (HeadingClockwise b a = true <-> b = adjz a false)
  /\ (AreOpposites a b = true <-> b = adjz (adjz a true) true)
  /\ (AreOpposites a b = true <-> b = adjz (adjz a false) false)
  /\ AreOpposites a b = AreOpposites b a
  (* exactly one of: equal, one step clockwise, one step counter-clockwise, opposite *)
  /\ Z.b2z (a =? b) + Z.b2z (HeadingClockwise a b) + Z.b2z (HeadingClockwise b a) + Z.b2z (AreOpposites a b) = 1
  (* walking from a in either direction reaches b after at most 3 steps: the loops `do { .. } while (prev != loc)` end *)
  /\ (forall cw, exists k, (k <= 3)%nat /\ iter_adj k a cw = b)
  (* when IsClockwise does not look at the points (prev, curr not opposite) it walks the short way round *)
  /\ (forall p q m, AreOpposites a b = false -> a <> b -> adjz a (IsClockwise a b p q m) = b).
Proof.
  intros Ha Hb. pose proof (loc_group_ab a b Ha Hb) as H. unfold loc_group_b in H.
  repeat (apply andb_true_iff in H; let H' := fresh "H" in destruct H as [H H']).
  repeat match goal with X : Bool.eqb _ _ = true |- _ => apply Bool.eqb_prop in X end.
  repeat match goal with X : (_ =? _) = true |- _ => apply Z.eqb_eq in X end.
  split; [|split; [assumption|split; [assumption|split; [|split; [|split; [|split; [|split; [|split; [assumption|split; [assumption|split]]]]]]]]]].
  - assert (Hin : forall x, existsb (Z.eqb x) sides = true -> In x sides).
    { intros x Hx. apply existsb_exists in Hx. destruct Hx as (y & Hy & E). apply Z.eqb_eq in E. rewrite E. exact Hy. }
    intros cw. destruct cw; apply Hin; [assumption|].
    match goal with X : existsb _ sides && true = true |- _ => rewrite andb_true_r in X; exact X end.
  - intros cw. destruct cw; assumption.
  - match goal with X : HeadingClockwise a b = _ |- _ => rewrite X end. apply Z.eqb_eq.
  - match goal with X : HeadingClockwise b a = _ |- _ => rewrite X end. apply Z.eqb_eq.
  - match goal with X : AreOpposites a b = (b =? adjz (adjz a true) true) |- _ => rewrite X end. apply Z.eqb_eq.
  - match goal with X : AreOpposites a b = (b =? adjz (adjz a false) false) |- _ => rewrite X end. apply Z.eqb_eq.
  - intros cw. match goal with X : forallb _ [true; false] = true |- _ => rewrite forallb_forall in X; specialize (X cw ltac:(destruct cw; cbn; auto));
      apply existsb_exists in X; destruct X as (k & Hk & E) end.
    apply Z.eqb_eq in E. exists k. split; [cbn [In] in Hk; lia|exact E].
  - intros p q m Ho Hn. unfold IsClockwise. rewrite Ho.
    match goal with X : AreOpposites a b || (a =? b) || _ = true |- _ => rewrite Ho in X; cbn [orb] in X;
      apply orb_true_iff in X; destruct X as [X|X]; apply Z.eqb_eq in X; [contradiction|exact X] end.
Qed.

(* from Inside (the value start_locs_/prev can hold) one step leads onto the cycle of sides *)
Lemma adj_inside cw : In (adjz Location_Inside cw) sides.
Proof. destruct cw; vm_compute; tauto. Qed.

(* ====================================================================== GetIntersection *)
(* the side of rectPath that a location code names: Left 0-3, Top 0-1, Right 1-2, Bottom 2-3 *)
Definition side_of (rp : rectpath) (loc : Z) : pt * pt :=
  if loc =? Location_Left then (rp0 rp, rp3 rp)
  else if loc =? Location_Top then (rp0 rp, rp1 rp)
  else if loc =? Location_Right then (rp1 rp, rp2 rp)
  else (rp2 rp, rp3 rp).

Theorem gi_true_side rp p p2 loc ip loc' q :
  GetIntersection rp p p2 loc ip = (true, loc', q) ->
  In loc' sides /\ exists ip0, GetSegmentIntersection p p2 (fst (side_of rp loc')) (snd (side_of rp loc')) ip0 = (true, q).
Proof.
  unfold GetIntersection. intros H.
  repeat match type of H with
  | context [GetSegmentIntersection ?a ?b ?c ?d ?e] =>
    let bb := fresh "b" in let qq := fresh "q" in let E := fresh "E" in
    destruct (GetSegmentIntersection a b c d e) as [bb qq] eqn:E; destruct bb
  | context [if ?c then _ else _] => destruct c eqn:?
  end;
  try discriminate;
  inversion H; subst;
  repeat match goal with E : (_ =? _) = true |- _ => apply Z.eqb_eq in E; subst end;
  (split; [vm_compute; tauto|]);
  lazy [side_of fst snd Z.eqb Pos.eqb Location_Left Location_Top Location_Right Location_Bottom];
  match goal with
  | E : GetSegmentIntersection _ _ ?a ?b ?i = (true, ?x) |- exists _, GetSegmentIntersection _ _ ?a ?b _ = (true, ?x) => exists i; exact E
  end.
Qed.

(* ====================================================================== GetSegmentIntersection against a side *)
Definition small_pt := RectFloat.small_pt.

(* p3-p4 is a (non-degenerate) axis-parallel segment, as every side of a non-empty rectangle is *)
Definition axis_side (p3 p4 : pt) : Prop :=
  (px p3 = px p4 /\ py p3 <> py p4) \/ (py p3 = py p4 /\ px p3 <> px p4).

(* q moved onto the axis-parallel segment a-b: the perpendicular coordinate becomes the segment's, the other one is clamped to
   the segment's extent *)
Definition project_on_side (a b q : pt) : pt :=
  if px a =? px b then (px a, Z.max (Z.min (py a) (py b)) (Z.min (Z.max (py a) (py b)) (py q)))
  else if py a =? py b then (Z.max (Z.min (px a) (px b)) (Z.min (Z.max (px a) (px b)) (px q)), py a)
  else q.

Definition proper_cross (p1 p2 p3 p4 : pt) : Prop :=
  cross p1 p3 p4 * cross p2 p3 p4 < 0 /\ cross p3 p1 p2 * cross p4 p1 p2 < 0.

Lemma cross_as_crossF a b c : CrossProduct a b c = RectLeaf.crossF a b c.
Proof. reflexivity. Qed.

Lemma feq0_exact a b c : small_pt a -> small_pt b -> small_pt c ->
  PrimFloat.eqb (CrossProduct a b c) 0%float = (cross a b c =? 0).
Proof. intros A B C. destruct (RectFloat.crossF_sign_exact a b c A B C) as [E _]. exact E. Qed.

Lemma fgt0_exact a b c : small_pt a -> small_pt b -> small_pt c ->
  PrimFloat.ltb 0%float (CrossProduct a b c) = (0 <? cross a b c).
Proof. intros A B C. destruct (RectFloat.crossF_sign_exact a b c A B C) as [_ [E _]]. exact E. Qed.

(* a point collinear with an axis-parallel side, and between its end points in the coordinate the code tests, lies on it *)
Lemma on_axis_side q a b :
  axis_side a b -> cross q a b = 0 ->
  (q = a \/ q = b \/ (if IsHorizontal a b then Bool.eqb (px a <? px q) (px q <? px b) else Bool.eqb (py a <? py q) (py q <? py b)) = true) ->
  on_seg q (a, b) = true.
Proof.
  intros Hs Hc Hb. unfold on_seg.
  assert (cross a b q = 0) as -> by (rewrite (cross_rot q a b); exact Hc). cbn [Z.eqb andb].
  unfold IsHorizontal in Hb. unfold cross in Hc.
  destruct Hb as [->|[->|Hb]]; [repeat (apply andb_true_iff; split); apply Z.leb_le; lia
                               |repeat (apply andb_true_iff; split); apply Z.leb_le; lia|].
  destruct Hs as [[Hx Hy]|[Hy Hx]].
  - (* vertical side *)
    assert ((py a =? py b) = false) as E by (apply Z.eqb_neq; exact Hy). rewrite E in Hb.
    assert (px q = px a) by nia.
    destruct (py a <? py q) eqn:E1, (py q <? py b) eqn:E2; cbn in Hb; try discriminate; b2p;
      repeat (apply andb_true_iff; split); apply Z.leb_le; lia.
  - assert ((py a =? py b) = true) as E by (apply Z.eqb_eq; exact Hy). rewrite E in Hb.
    assert (py q = py a) by nia.
    destruct (px a <? px q) eqn:E1, (px q <? px b) eqn:E2; cbn in Hb; try discriminate; b2p;
      repeat (apply andb_true_iff; split); apply Z.leb_le; lia.
Qed.

(* the same for a general segment a-b (a <> b): collinear and between in x (horizontal) resp. y (otherwise) *)
Lemma on_general_seg q a b :
  a <> b -> cross q a b = 0 ->
  (q = a \/ q = b \/ (if IsHorizontal a b then Bool.eqb (px a <? px q) (px q <? px b) else Bool.eqb (py a <? py q) (py q <? py b)) = true) ->
  on_seg q (a, b) = true.
Proof.
  intros Hne Hc Hb. unfold on_seg.
  assert (cross a b q = 0) as -> by (rewrite (cross_rot q a b); exact Hc). cbn [Z.eqb andb].
  unfold IsHorizontal in Hb. unfold cross in Hc.
  destruct Hb as [->|[->|Hb]]; [repeat (apply andb_true_iff; split); apply Z.leb_le; lia
                               |repeat (apply andb_true_iff; split); apply Z.leb_le; lia|].
  destruct (py a =? py b) eqn:E.
  - apply Z.eqb_eq in E.
    assert (px a <> px b) as Hx.
    { intros Hx. apply Hne. destruct a, b; unfold px, py in *; cbn [fst snd] in *; congruence. }
    assert (py q = py a) by nia.
    destruct (px a <? px q) eqn:E1, (px q <? px b) eqn:E2; cbn in Hb; try discriminate; b2p;
      repeat (apply andb_true_iff; split); apply Z.leb_le; lia.
  - apply Z.eqb_neq in E.
    destruct (py a <? py q) eqn:E1, (py q <? py b) eqn:E2; cbn in Hb; try discriminate; b2p;
      repeat (apply andb_true_iff; split); apply Z.leb_le; try lia; nia.
Qed.

Lemma pt_eq_dec_b a b : Point64_eq a b = true <-> a = b.
Proof. unfold Point64_eq. apply pt_eqb_eq. Qed.

Theorem gsi_on_rect_partial p1 p2 p3 p4 ip q :
  small_pt p1 -> small_pt p2 -> small_pt p3 -> small_pt p4 -> axis_side p3 p4 ->
  GetSegmentIntersection p1 p2 p3 p4 ip = (true, q) ->
  (on_seg q (p3, p4) = true /\ on_seg q (p1, p2) = true /\ (q = p1 \/ q = p2 \/ q = p3 \/ q = p4))
  \/ (proper_cross p1 p2 p3 p4
      /\ exists q0, GetSegmentIntersectPt_lo p1 p2 p3 p4 ip = (true, q0) /\ (q = q0 \/ q = project_on_side p3 p4 q0)).
Proof.
  intros S1 S2 S3 S4 Hax. unfold GetSegmentIntersection. cbv zeta.
  rewrite !feq0_exact, !fgt0_exact by assumption.
  intros H.
  assert (Hself : forall a b, on_seg a (a, b) = true /\ on_seg b (a, b) = true).
  { intros a b. unfold on_seg, cross. split; repeat (apply andb_true_iff; split); try (apply Z.leb_le; lia); apply Z.eqb_eq; ring. }
  destruct (cross p1 p3 p4 =? 0) eqn:R1.
  { (* p1 on the line of the side *)
    apply Z.eqb_eq in R1.
    destruct (cross p2 p3 p4 =? 0) eqn:R2; [discriminate|].
    left. assert (q = p1) as ->.
    { destruct (Point64_eq p1 p3 || Point64_eq p1 p4); [inversion H; reflexivity|]. destruct (IsHorizontal p3 p4); inversion H; reflexivity. }
    split; [|split; [apply Hself|auto]].
    apply on_axis_side; [exact Hax|exact R1|].
    destruct (Point64_eq p1 p3) eqn:A; [left; apply pt_eq_dec_b, A|].
    destruct (Point64_eq p1 p4) eqn:B; [right; left; apply pt_eq_dec_b, B|].
    right; right. cbn [orb] in H. destruct (IsHorizontal p3 p4); inversion H; subst; first [assumption|reflexivity]. }
  destruct (cross p2 p3 p4 =? 0) eqn:R2.
  { apply Z.eqb_eq in R2.
    left. assert (q = p2) as ->.
    { destruct (Point64_eq p2 p3 || Point64_eq p2 p4); [inversion H; reflexivity|]. destruct (IsHorizontal p3 p4); inversion H; reflexivity. }
    split; [|split; [apply Hself|auto]].
    apply on_axis_side; [exact Hax|exact R2|].
    destruct (Point64_eq p2 p3) eqn:A; [left; apply pt_eq_dec_b, A|].
    destruct (Point64_eq p2 p4) eqn:B; [right; left; apply pt_eq_dec_b, B|].
    right; right. cbn [orb] in H. destruct (IsHorizontal p3 p4); inversion H; subst; first [assumption|reflexivity]. }
  apply Z.eqb_neq in R1. apply Z.eqb_neq in R2.
  destruct (Bool.eqb (0 <? cross p1 p3 p4) (0 <? cross p2 p3 p4)) eqn:Sg; [discriminate|].
  assert (X12 : cross p1 p3 p4 * cross p2 p3 p4 < 0).
  { destruct (0 <? cross p1 p3 p4) eqn:A, (0 <? cross p2 p3 p4) eqn:B; cbn in Sg; try discriminate; b2p; nia. }
  assert (Hne : p1 <> p2) by (intros ->; nia).
  destruct (cross p3 p1 p2 =? 0) eqn:R3.
  { apply Z.eqb_eq in R3.
    left. assert (q = p3) as ->.
    { destruct (Point64_eq p3 p1 || Point64_eq p3 p2); [inversion H; reflexivity|]. destruct (IsHorizontal p1 p2); inversion H; reflexivity. }
    split; [apply Hself|split; [|auto]].
    apply on_general_seg; [exact Hne|exact R3|].
    destruct (Point64_eq p3 p1) eqn:A; [left; apply pt_eq_dec_b, A|].
    destruct (Point64_eq p3 p2) eqn:B; [right; left; apply pt_eq_dec_b, B|].
    right; right. cbn [orb] in H. destruct (IsHorizontal p1 p2); inversion H; subst; first [assumption|reflexivity]. }
  destruct (cross p4 p1 p2 =? 0) eqn:R4.
  { apply Z.eqb_eq in R4.
    left. assert (q = p4) as ->.
    { destruct (Point64_eq p4 p1 || Point64_eq p4 p2); [inversion H; reflexivity|]. destruct (IsHorizontal p1 p2); inversion H; reflexivity. }
    split; [apply Hself|split; [|auto]].
    apply on_general_seg; [exact Hne|exact R4|].
    destruct (Point64_eq p4 p1) eqn:A; [left; apply pt_eq_dec_b, A|].
    destruct (Point64_eq p4 p2) eqn:B; [right; left; apply pt_eq_dec_b, B|].
    right; right. cbn [orb] in H. destruct (IsHorizontal p1 p2); inversion H; subst; first [assumption|reflexivity]. }
  apply Z.eqb_neq in R3. apply Z.eqb_neq in R4.
  destruct (Bool.eqb (0 <? cross p3 p1 p2) (0 <? cross p4 p1 p2)) eqn:Sg2; [discriminate|].
  right. split.
  - split; [exact X12|].
    destruct (0 <? cross p3 p1 p2) eqn:A, (0 <? cross p4 p1 p2) eqn:B; cbn in Sg2; try discriminate; b2p; nia.
  - (* the computed point: returned as it is (the code as of this writing), or projected onto the side (the repair proposed
       in triage/C08-ip-onto-side.patch); the script accepts either form of the translated definition *)
    destruct (GetSegmentIntersectPt_lo p1 p2 p3 p4 ip) as [b q0] eqn:G.
    first
    [ inversion H; subst; exists q; split; [reflexivity|left; reflexivity]
    | destruct b; cbn [negb] in H; [|discriminate H]; exists q0; split; [reflexivity|right];
      cbv zeta in H;
      repeat match type of H with (if ?c then _ else _) = _ => let E := fresh "E" in destruct c eqn:E end;
      inversion H; subst; clear H; b2p;
      unfold project_on_side, px, py in *; cbn [fst snd] in *;
      repeat match goal with
             | |- context [if ?c then _ else _] => let E := fresh "E" in destruct c eqn:E
             | X : context [if ?c then _ else _] |- _ => let E := fresh "E" in destruct c eqn:E
             end; b2p;
      solve [f_equal; lia | exfalso; destruct Hax as [[? ?]|[? ?]]; unfold px, py in *; lia] ].
Qed.

(* the hypotheses are satisfiable: a proper crossing with the left side of [0,10]^2 and a touching end point *)
Example gsi_on_rect_sat :
  small_pt (-5, 3) /\ axis_side (0, 0) (0, 10)
  /\ GetSegmentIntersection (-5, 3) (5, 7) (0, 0) (0, 10) (0, 0) = (true, (0, 5))
  /\ GetSegmentIntersection (0, 4) (5, 7) (0, 0) (0, 10) (0, 0) = (true, (0, 4)).
Proof. split; [unfold small_pt, RectFloat.small_pt; cbn; lia|]. split; [left; cbn; lia|]. split; vm_compute; reflexivity. Qed.
