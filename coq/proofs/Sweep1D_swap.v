(* IntersectEdges on two adjacent closed edges preserves the sweep invariant (counts, hot flags, sides). *)
From Clip Require Import base.Geom base.Region model.Sweep1D
     proofs.Sweep1D_contrib proofs.Sweep1D_arith proofs.Sweep1D_bool.
From Coq Require Import ZifyBool Lia.
Local Open Scope Z_scope.

Definition own_w (pt : ptype) (ws wcl : Z) : Z := match pt with Subj => ws | Clp => wcl end.
Definition oth_w (pt : ptype) (ws wcl : Z) : Z := match pt with Subj => wcl | Clp => ws end.
Definition issub (pt : ptype) : bool := ptype_eqb pt Subj.

Lemma gin_gsel ct fr pt ws wcl :
  in_result ct fr ws wcl = gsel ct (issub pt) (inside fr (own_w pt ws wcl)) (inside fr (oth_w pt ws wcl)).
Proof. destruct pt; reflexivity. Qed.

Lemma opt_side_eqb_eq a b : opt_side_eqb a b = true <-> a = b.
Proof. destruct a as [[|]|], b as [[|]|]; cbn; split; congruence. Qed.

(* what edge_ok says about a closed edge, in own/other terms *)
Record closed_spec (ct : clip_type) (fr : fill_rule) (ws wcl : Z) (e : edge) : Prop := {
  cs_d : pm1 (wdx e);
  cs_wc : wc_ok fr (wc e) (own_w (ep e) ws wcl) (wdx e) = true;
  cs_wc2 : wc2_ok fr (wc2 e) (oth_w (ep e) ws wcl) = true;
  cs_hot : hot e = boundary_side
                     (gsel ct (issub (ep e)) (inside fr (own_w (ep e) ws wcl)) (inside fr (oth_w (ep e) ws wcl)))
                     (gsel ct (issub (ep e)) (inside fr (own_w (ep e) ws wcl + wdx e)) (inside fr (oth_w (ep e) ws wcl)))
}.

Lemma edge_ok_closed ct fr ws wcl e : eopen e = false ->
  (edge_ok ct fr ws wcl e = true <-> closed_spec ct fr ws wcl e).
Proof.
  intros Ho. unfold edge_ok. rewrite Ho. unfold contrib. rewrite Ho.
  destruct e as [pt d w w2 h o]; cbn [ep wdx wc wc2 hot eopen] in *.
  rewrite !Bool.andb_true_iff, opt_side_eqb_eq.
  split.
  - intros [[Hd Hw] Hh]. destruct pt; cbn [ptype_eqb] in *; apply Bool.andb_true_iff in Hw; destruct Hw as [Hw Hw2];
    constructor; cbn [ep wdx wc wc2 hot own_w oth_w issub ptype_eqb gsel]; try assumption; try (unfold pm1; lia);
    rewrite ?Z.add_0_r in Hh; exact Hh.
  - intros [Hd Hw Hw2 Hh]. cbn [ep wdx wc wc2 hot] in *. unfold pm1 in Hd.
    destruct pt; cbn [ptype_eqb own_w oth_w issub gsel] in *; rewrite ?Z.add_0_r;
    repeat split; try assumption; try lia; rewrite Hw, Hw2; reflexivity.
Qed.

Lemma contrib_closed pt e : eopen e = false -> contrib pt e = if ptype_eqb (ep e) pt then wdx e else 0.
Proof. intros H. unfold contrib. rewrite H. reflexivity. Qed.

Definition st_s (ws : Z) (e : edge) : Z := ws + contrib Subj e.
Definition st_c (wcl : Z) (e : edge) : Z := wcl + contrib Clp e.

Lemma own_after pt ws wcl e : eopen e = false -> ep e = pt ->
  own_w pt (st_s ws e) (st_c wcl e) = own_w pt ws wcl + wdx e /\
  oth_w pt (st_s ws e) (st_c wcl e) = oth_w pt ws wcl.
Proof.
  intros Ho Hp. unfold st_s, st_c. rewrite !contrib_closed by exact Ho. rewrite Hp.
  destruct pt; cbn [ptype_eqb own_w oth_w]; lia.
Qed.

Lemma own_after_other pt ws wcl e : eopen e = false -> ep e <> pt ->
  own_w pt (st_s ws e) (st_c wcl e) = own_w pt ws wcl /\
  oth_w pt (st_s ws e) (st_c wcl e) = oth_w pt ws wcl + wdx e.
Proof.
  intros Ho Hp. unfold st_s, st_c. rewrite !contrib_closed by exact Ho.
  destruct pt, (ep e); try congruence; cbn [ptype_eqb own_w oth_w]; lia.
Qed.

(* the result of a swap: same path data, invariant re-established at the exchanged positions *)
Definition swap_post (ct : clip_type) (fr : fill_rule) (ws wcl : Z) (e1 e2 e1' e2' : edge) : Prop :=
  ep e1' = ep e1 /\ wdx e1' = wdx e1 /\ eopen e1' = eopen e1 /\
  ep e2' = ep e2 /\ wdx e2' = wdx e2 /\ eopen e2' = eopen e2 /\
  edge_ok ct fr ws wcl e2' = true /\
  edge_ok ct fr (st_s ws e2') (st_c wcl e2') e1' = true.

Lemma inside_pm_eq fr O d1 d2 : pm1 d1 -> pm1 d2 ->
  (if d1 =? d2 then Bool.eqb (inside fr (O + d1)) (inside fr (O + d2))
   else Bool.eqb (inside fr (O + d1 + d2)) (inside fr O)) = true.
Proof.
  intros [-> | ->] [-> | ->]; cbn [Z.eqb Pos.eqb]; try apply Bool.eqb_reflx.
  - replace (O + 1 + -1) with O by lia. apply Bool.eqb_reflx.
  - replace (O + -1 + 1) with O by lia. apply Bool.eqb_reflx.
Qed.

Definition new1 (fr : fill_rule) (w1 w2 d2 : Z) : Z :=
  match fr with EvenOdd => w2 | _ => if w1 + d2 =? 0 then - w1 else w1 + d2 end.
Definition new2 (fr : fill_rule) (w1 w2 d1 : Z) : Z :=
  match fr with EvenOdd => w1 | _ => if w2 - d1 =? 0 then - w2 else w2 - d1 end.

Lemma update_counts_same fr e1 e2 : ptype_eqb (ep e1) (ep e2) = true ->
  update_counts fr e1 e2 =
  (set_wc e1 (new1 fr (wc e1) (wc e2) (wdx e2)), set_wc e2 (new2 fr (wc e1) (wc e2) (wdx e1))).
Proof.
  intros H. unfold update_counts, new1, new2. rewrite H.
  destruct fr; try reflexivity;
  destruct (wc e1 + wdx e2 =? 0), (wc e2 - wdx e1 =? 0); reflexivity.
Qed.

Definition nv1 (fr : fill_rule) (v1 d2 : Z) : Z :=
  match fr with EvenOdd => (if v1 =? 0 then 1 else 0) | _ => v1 + d2 end.
Definition nv2 (fr : fill_rule) (v2 d1 : Z) : Z :=
  match fr with EvenOdd => (if v2 =? 0 then 1 else 0) | _ => v2 - d1 end.

Lemma update_counts_diff fr e1 e2 : ptype_eqb (ep e1) (ep e2) = false ->
  update_counts fr e1 e2 =
  (set_wc2 e1 (nv1 fr (wc2 e1) (wdx e2)), set_wc2 e2 (nv2 fr (wc2 e2) (wdx e1))).
Proof.
  intros H. unfold update_counts, nv1, nv2. rewrite H. destruct fr; reflexivity.
Qed.

Lemma swap_closed_same ct fr ph same ws wcl e1 e2 :
  ct <> NoClip -> eopen e1 = false -> eopen e2 = false -> ep e1 = ep e2 ->
  closed_spec ct fr ws wcl e1 -> closed_spec ct fr (st_s ws e1) (st_c wcl e1) e2 ->
  ph_ok ph (in_result ct fr ws wcl) = true ->
  exists e1' e2', intersect_edges ct fr ph same e1 e2 = Some (e1', e2') /\
                  swap_post ct fr ws wcl e1 e2 e1' e2'.
Proof.
  intros Hct Ho1 Ho2 Hpt S1 S2 Hph.
  destruct S2 as [Hd2 Hw2 Hv2 Hh2].
  destruct (own_after (ep e1) ws wcl e1 Ho1 eq_refl) as [Eo Ex].
  rewrite <- Hpt in Hw2, Hv2, Hh2. rewrite Eo in Hw2, Hh2. rewrite Ex in Hv2, Hh2.
  destruct S1 as [Hd1 Hw1 Hv1 Hh1].
  rewrite (gin_gsel ct fr (ep e1)) in Hph.
  destruct e1 as [pt d1 w1 v1 h1 o1], e2 as [pt2 d2 w2 v2 h2 o2].
  cbn [ep wdx wc wc2 hot eopen] in *. subst o1 o2 pt2.
  set (O := own_w pt ws wcl) in *. set (X := oth_w pt ws wcl) in *.
  assert (ptype_eqb pt pt = true) as Epp by (destruct pt; reflexivity).
  unfold intersect_edges; cbn [eopen orb].
  rewrite update_counts_same by exact Epp. unfold set_wc. cbn [ep wdx wc wc2 hot eopen].
  set (w1' := new1 fr w1 w2 d2). set (w2' := new2 fr w1 w2 d1).
  assert (wc_ok fr w1' (O + d2) d1 = true) as Hw1'.
  { subst w1'. unfold new1. destruct fr; cbn [wc_ok] in *; try exact Hw2;
    apply Z.eqb_eq in Hw1; subst w1; rewrite (hi_shift O d1 d2 Hd1 Hd2); apply Z.eqb_refl. }
  assert (wc_ok fr w2' O d2 = true) as Hw2'.
  { subst w2'. unfold new2. destruct fr; cbn [wc_ok] in *; try exact Hw1;
    apply Z.eqb_eq in Hw2; subst w2; unfold Z.sub;
    assert (pm1 (- d1)) as Hnd by (unfold pm1 in *; lia);
    rewrite (hi_shift (O + d1) d2 (- d1) Hd2 Hnd); replace (O + d1 + - d1) with O by lia; apply Z.eqb_refl. }
  clearbody w1' w2'.
  rewrite select_action_abs; cbn [ep wdx wc wc2 hot eopen].
  2:{ eapply wc_ok_nz; [exact Hd1 | exact Hw1']. }
  2:{ eapply wc_ok_nz; [exact Hd2 | exact Hw2']. }
  rewrite (pass_spec fr w1' (O + d2) d1 Hd1 Hw1'), (pass_spec fr w2' O d2 Hd2 Hw2').
  rewrite (cin_spec fr v1 X Hv1), (cin_spec fr v2 X Hv2).
  rewrite apply_action_abs; cbn [hot].
  fold (issub pt). rewrite Hh1, Hh2.
  replace (O + d2 + d1) with (O + d1 + d2) by lia.
  pose proof (swap_same_bool ct (issub pt) same (d1 =? d2) (inside fr O) (inside fr (O + d1)) (inside fr (O + d2))
                             (inside fr (O + d1 + d2)) (inside fr X) ph Hct (inside_pm_eq fr O d1 d2 Hd1 Hd2) Hph) as HB.
  cbv zeta in HB. rewrite HB.
  eexists; eexists; split; [reflexivity|].
  unfold swap_post, set_hot; cbn [ep wdx wc wc2 hot eopen].
  repeat split; try reflexivity.
  - apply edge_ok_closed; [reflexivity|]. constructor; cbn [ep wdx wc wc2 hot eopen]; fold O X; try assumption. reflexivity.
  - apply edge_ok_closed; [reflexivity|].
    match goal with |- closed_spec _ _ (st_s ws ?e) (st_c wcl ?e) _ =>
      destruct (own_after pt ws wcl e eq_refl eq_refl) as [Eo' Ex'] end.
    cbn [wdx] in Eo'. fold O in Eo'. fold X in Ex'.
    constructor; cbn [ep wdx wc wc2 hot eopen]; rewrite ?Eo', ?Ex'; try assumption.
    replace (O + d2 + d1) with (O + d1 + d2) by lia. reflexivity.
Qed.

Lemma gsel_flip ct s a b : gsel ct (negb s) a b = gsel ct s b a.
Proof. destruct s; reflexivity. Qed.

Lemma issub_other pt pt2 : pt2 <> pt -> issub pt2 = negb (issub pt).
Proof. destruct pt, pt2; cbn; congruence. Qed.

Lemma own_other pt pt2 ws wcl : pt2 <> pt -> own_w pt2 ws wcl = oth_w pt ws wcl /\ oth_w pt2 ws wcl = own_w pt ws wcl.
Proof. destruct pt, pt2; cbn; try congruence; split; reflexivity. Qed.

Lemma swap_closed_diff ct fr ph same ws wcl e1 e2 :
  ct <> NoClip -> eopen e1 = false -> eopen e2 = false -> ep e2 <> ep e1 ->
  closed_spec ct fr ws wcl e1 -> closed_spec ct fr (st_s ws e1) (st_c wcl e1) e2 ->
  ph_ok ph (in_result ct fr ws wcl) = true ->
  exists e1' e2', intersect_edges ct fr ph same e1 e2 = Some (e1', e2') /\
                  swap_post ct fr ws wcl e1 e2 e1' e2'.
Proof.
  intros Hct Ho1 Ho2 Hpt S1 S2 Hph.
  destruct S2 as [Hd2 Hw2 Hv2 Hh2].
  destruct (own_after (ep e1) ws wcl e1 Ho1 eq_refl) as [Eo Ex].
  destruct (own_other (ep e1) (ep e2) (st_s ws e1) (st_c wcl e1) Hpt) as [Eoo Exx].
  rewrite Eoo, Ex in Hw2, Hh2. rewrite Exx, Eo in Hv2, Hh2.
  rewrite (issub_other _ _ Hpt), !gsel_flip in Hh2.
  destruct S1 as [Hd1 Hw1 Hv1 Hh1].
  rewrite (gin_gsel ct fr (ep e1)) in Hph.
  assert (ptype_eqb (ep e1) (ep e2) = false) as Epp by (destruct (ep e1), (ep e2); cbn; congruence).
  assert (issub (ep e2) = negb (issub (ep e1))) as Esub by (apply issub_other, Hpt).
  destruct (own_other (ep e1) (ep e2) ws wcl Hpt) as [Eoo0 Exx0].
  destruct e1 as [pt d1 w1 v1 h1 o1], e2 as [pt2 d2 w2 v2 h2 o2].
  cbn [ep wdx wc wc2 hot eopen] in *. subst o1 o2.
  set (O := own_w pt ws wcl) in *. set (X := oth_w pt ws wcl) in *.
  unfold intersect_edges; cbn [eopen orb].
  rewrite update_counts_diff by exact Epp. unfold set_wc2. cbn [ep wdx wc wc2 hot eopen].
  set (v1' := nv1 fr v1 d2). set (v2' := nv2 fr v2 d1).
  assert (wc2_ok fr v1' (X + d2) = true) as Hv1'.
  { subst v1'. unfold nv1. pose proof (wc2_shift fr v1 X d2 Hd2 Hv1) as H. destruct fr; exact H. }
  assert (wc2_ok fr v2' O = true) as Hv2'.
  { subst v2'. unfold nv2. assert (pm1 (- d1)) as Hnd by (unfold pm1 in *; lia).
    pose proof (wc2_shift fr v2 (O + d1) (- d1) Hnd Hv2) as H.
    replace (O + d1 + - d1) with O in H by lia. unfold Z.sub. destruct fr; exact H. }
  clearbody v1' v2'.
  rewrite select_action_abs; cbn [ep wdx wc wc2 hot eopen].
  2:{ eapply wc_ok_nz; [exact Hd1 | exact Hw1]. }
  2:{ eapply wc_ok_nz; [exact Hd2 | exact Hw2]. }
  rewrite (pass_spec fr w1 O d1 Hd1 Hw1), (pass_spec fr w2 X d2 Hd2 Hw2).
  rewrite (cin_spec fr v1' (X + d2) Hv1'), (cin_spec fr v2' O Hv2').
  rewrite apply_action_abs; cbn [hot].
  fold (issub pt). fold (issub pt2). rewrite Esub, Hh1, Hh2.
  pose proof (swap_diff_bool ct (issub pt) same (inside fr O) (inside fr (O + d1)) (inside fr X) (inside fr (X + d2))
                             ph Hct Hph) as HB.
  cbv zeta in HB. rewrite HB.
  eexists; eexists; split; [reflexivity|].
  unfold swap_post, set_hot; cbn [ep wdx wc wc2 hot eopen].
  repeat split; try reflexivity.
  - apply edge_ok_closed; [reflexivity|].
    constructor; cbn [ep wdx wc wc2 hot eopen]; rewrite ?Eoo0, ?Exx0, ?Esub, ?gsel_flip; fold O X; try assumption. reflexivity.
  - apply edge_ok_closed; [reflexivity|].
    match goal with |- closed_spec _ _ (st_s ws ?e) (st_c wcl ?e) _ =>
      assert (ep e <> pt) as Hne by (cbn [ep]; exact Hpt);
      destruct (own_after_other pt ws wcl e eq_refl Hne) as [Eo' Ex'] end.
    cbn [wdx] in Ex'. fold O in Eo'. fold X in Ex'.
    constructor; cbn [ep wdx wc wc2 hot eopen]; rewrite ?Eo', ?Ex'; try assumption. reflexivity.
Qed.
