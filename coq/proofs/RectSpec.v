(* Specification side of C08/C09 (exact integer/rational arithmetic only, no floats):
   what "the part of a polyline inside a rectangle" is (Liang-Barsky in Q, lengths in 2^-20 fixed point by
   integer square roots), and the executable checkers the SPEC+O comparisons run on the implementation's output.
   Extracted into bin/oracle_rect. *)
From Clip Require Import base.Geom base.Dist base.Winding model.RectLeaf.
From Coq Require Import ZArith List Bool Lia.
Local Open Scope Z_scope.

(* ---------- fractions n/d with d > 0 ---------- *)
Definition frac := (Z * Z)%type.
Definition fr_le (a b : frac) : bool := fst a * snd b <=? fst b * snd a.
Definition fr_lt (a b : frac) : bool := fst a * snd b <? fst b * snd a.
Definition fr_max (a b : frac) : frac := if fr_le a b then b else a.
Definition fr_min (a b : frac) : frac := if fr_le a b then a else b.
Definition fr_norm (n d : Z) : frac := if d <? 0 then (- n, - d) else (n, d).

(* one Liang-Barsky constraint  p * t <= q  applied to the interval [t0, t1]; None = empty *)
Definition lb_clip (p q : Z) (iv : option (frac * frac)) : option (frac * frac) :=
  match iv with
  | None => None
  | Some (t0, t1) =>
    if p =? 0 then (if q <? 0 then None else iv)
    else if p <? 0 then Some (fr_max t0 (fr_norm q p), t1)
    else Some (t0, fr_min t1 (fr_norm q p))
  end.

(* parameters [t0, t1] (subset of [0,1]) of the part of segment a + t (b - a) inside the closed rectangle *)
Definition seg_clip (r : rect) (e : pt * pt) : option (frac * frac) :=
  let (a, b) := e in
  let dx := px b - px a in let dy := py b - py a in
  let iv := lb_clip (- dx) (px a - r_left r)
           (lb_clip dx (r_right r - px a)
           (lb_clip (- dy) (py a - r_top r)
           (lb_clip dy (r_bottom r - py a) (Some ((0, 1), (1, 1)))))) in
  match iv with
  | Some (t0, t1) => if fr_le t0 t1 then iv else None
  | None => None
  end.

(* fixed point length: floor (2^20 * |ab|) *)
Definition FX : Z := 2 ^ 20.
Definition seg_len_fx (e : pt * pt) : Z := let (a, b) := e in Z.sqrt (dist2_pp a b * (FX * FX)).

(* the segment lies on the line of one of the rectangle's sides *)
Definition along_side (r : rect) (e : pt * pt) : bool :=
  let (a, b) := e in
  ((px a =? px b) && ((px a =? r_left r) || (px a =? r_right r)))
  || ((py a =? py b) && ((py a =? r_top r) || (py a =? r_bottom r))).

(* per input segment: (inside length not along a side, inside length along a side, crossings), fixed point *)
Definition seg_inside_fx (r : rect) (e : pt * pt) : Z * Z * Z :=
  match seg_clip r e with
  | None => (0, 0, 0)
  | Some (t0, t1) =>
    (* (t1 - t0) * len, t1 - t0 = (n1 d0 - n0 d1) / (d0 d1) *)
    let n := fst t1 * snd t0 - fst t0 * snd t1 in
    let d := snd t0 * snd t1 in
    let l := n * seg_len_fx e / d in
    let c := (if fr_lt (0, 1) t0 then 1 else 0) + (if fr_lt t1 (1, 1) then 1 else 0) in
    if along_side r e then (0, l, c) else (l, 0, c)
  end.

Definition sum3 (l : list (Z * Z * Z)) : Z * Z * Z :=
  fold_left (fun '(a, b, c) '(x, y, z) => (a + x, b + y, c + z)) l (0, 0, 0).

Definition lines_inside_fx (r : rect) (p : path) : Z * Z * Z :=
  sum3 (map (seg_inside_fx r) (open_edges p)).

Definition out_len_fx (o : paths) : Z := zsum (map seg_len_fx (flat_map open_edges o)).

(* total output length = exact inside length within 2 units per crossing; the part running along a side may
   be kept or dropped; 2 fixed point units of rounding per segment involved *)
Definition lines_length_ok (r : rect) (p : path) (o : paths) : bool :=
  let '(ls, le, c) := lines_inside_fx r p in
  let lo := out_len_fx o in
  let eps := 2 * (Z.of_nat (length p) + Z.of_nat (length (flat_map open_edges o)) + 1) in
  let slack := 2 * c * FX + eps in
  (ls - slack <=? lo) && (lo <=? ls + le + slack).

(* every output vertex inside the rectangle grown by s *)
Definition in_rect_slack (r : rect) (s : Z) (v : pt) : bool :=
  (r_left r - s <=? px v) && (px v <=? r_right r + s) && (r_top r - s <=? py v) && (py v <=? r_bottom r + s).

Definition lines_within_rect (r : rect) (o : paths) : bool :=
  forallb (forallb (in_rect_slack r 1)) o.

(* v is not more than 3 units behind u in the direction of a->b:  (v-u).(b-a) >= -3 |ab| *)
Definition dir_ok (u v a b : pt) : bool :=
  let d := (px v - px u) * (px b - px a) + (py v - py u) * (py b - py a) in
  (0 <=? d) || (d * d <=? 9 * dist2_pp a b).

(* output segment (u,v) lies on input segment e within 1.5 units and follows its direction *)
Definition seg_fits (uv e : pt * pt) : bool :=
  let (u, v) := uv in
  seg_near 3 2 u e && seg_near 3 2 v e && dir_ok u v (fst e) (snd e).

(* one DP step: [reach] = for each input segment k, can the previous output segment (ending in w) be assigned to k
   with a non-decreasing assignment of everything before it *)
Fixpoint order_step (es : list (pt * pt)) (reach : list bool) (earlier : bool) (w : pt) (uv : pt * pt) : list bool :=
  match es, reach with
  | e :: es', rk :: reach' =>
    (seg_fits uv e && (earlier || (rk && dir_ok w (fst uv) (fst e) (snd e))))
      :: order_step es' reach' (earlier || rk) w uv
  | _, _ => []
  end.

Fixpoint order_dp (es : list (pt * pt)) (reach : list bool) (w : pt) (os : list (pt * pt)) : bool :=
  match os with
  | [] => existsb (fun b => b) reach
  | uv :: os' => order_dp es (order_step es reach false w uv) (snd uv) os'
  end.

(* pieces lie on the input polyline within 1.5 units, in input order and direction *)
Definition lines_order_ok (p : path) (o : paths) : bool :=
  let es := open_edges p in
  match flat_map open_edges o with
  | [] => true
  | uv :: os => order_dp es (map (seg_fits uv) es) (snd uv) os
  end.

Definition lines_shape_ok (o : paths) : bool := forallb (fun q => (2 <=? length q)%nat) o.

(* the C09 verdict as a bit vector: shape, within-rect, on-polyline/order/direction, length *)
Definition lines_spec (r : rect) (p : path) (o : paths) : bool * bool * bool * bool :=
  (lines_shape_ok o, lines_within_rect r o, lines_order_ok p o, lines_length_ok r p o).

(* sanity *)
Example seg_clip_ex : seg_clip (mkRect 0 0 10 10) ((-5, 5), (15, 5)) = Some ((5, 20), (15, 20)).
Proof. reflexivity. Qed.
Example lines_spec_ex :
  lines_spec (mkRect 0 0 10 10) [(-5, 5); (5, 5); (15, 5)] [[(0, 5); (5, 5); (10, 5)]] = (true, true, true, true).
Proof. vm_compute. reflexivity. Qed.
Example lines_spec_ex_rev :
  lines_spec (mkRect 0 0 10 10) [(-5, 5); (5, 5); (15, 5)] [[(10, 5); (5, 5); (0, 5)]] = (true, true, false, true).
Proof. vm_compute. reflexivity. Qed.
Example lines_spec_ex_missing :
  lines_spec (mkRect 0 0 10 10) [(-5, 5); (5, 5); (15, 5)] [[(0, 5); (5, 5)]] = (true, true, true, false).
Proof. vm_compute. reflexivity. Qed.

(* ====================================================================================================
   C08: RectClip = intersection with the rectangle, path by path
   ==================================================================================================== *)
From Coq Require Import QArith Qreduction.
Local Open Scope Z_scope.

(* ---------- exact simplicity test for a closed path ---------- *)
Definition seg_meet (e1 e2 : pt * pt) : bool :=
  let (a, b) := e1 in let (c, d) := e2 in
  let o1 := Z.sgn (cross a b c) in let o2 := Z.sgn (cross a b d) in
  let o3 := Z.sgn (cross c d a) in let o4 := Z.sgn (cross c d b) in
  ((o1 * o2 <? 0) && (o3 * o4 <? 0))
  || on_seg c e1 || on_seg d e1 || on_seg a e2 || on_seg b e2.

(* consecutive edges (a,b) (b,c) only share b *)
Definition adjacent_ok (e1 e2 : pt * pt) : bool :=
  negb (pt_eqb (fst e1) (snd e1)) && negb (pt_eqb (fst e2) (snd e2))
  && negb (on_seg (fst e1) e2) && negb (on_seg (snd e2) e1).

Fixpoint simple_rest (e : pt * pt) (rest : list (pt * pt)) : bool :=
  (* e against the edges after its successor *)
  match rest with
  | [] => true
  | f :: rest' => negb (seg_meet e f) && simple_rest e rest'
  end.

(* [first] = is e_0 still to be excluded as the cyclic neighbour of the last edge *)
Fixpoint simple_edges (es : list (pt * pt)) : bool :=
  match es with
  | e :: ((f :: rest) as t) => adjacent_ok e f && simple_rest e rest && simple_edges t
  | _ => true
  end.

Definition path_simple (p : path) : bool :=
  match cyc_edges p with
  | e0 :: ((e1 :: rest) as t) =>
    (3 <=? length p)%nat &&
    (* e0 against e2 .. e_{n-2} (its cyclic neighbours are e1 and e_{n-1}), then the rest linearly *)
    adjacent_ok e0 e1 && simple_rest e0 (removelast rest) && adjacent_ok (last t e0) e0 && simple_edges t
  | _ => false
  end.

(* ---------- exact area of (polygon intersected with rectangle), Sutherland-Hodgman over Q ---------- *)
Definition qpt := (Q * Q)%type.
Definition qc (axis : bool) (p : qpt) : Q := if axis then fst p else snd p.   (* axis = true: x *)
Definition hp_inside (axis lower : bool) (c : Q) (p : qpt) : bool :=
  if lower then Qle_bool c (qc axis p) else Qle_bool (qc axis p) c.
(* the point of segment pq whose [axis] coordinate is c (only called when the coordinates differ) *)
Definition hp_isect (axis : bool) (c : Q) (p q : qpt) : qpt :=
  let '(x1, y1) := p in let '(x2, y2) := q in
  if axis then (c, Qred (y1 + (y2 - y1) * (c - x1) / (x2 - x1)))%Q
  else (Qred (x1 + (x2 - x1) * (c - y1) / (y2 - y1)), c)%Q.

Fixpoint sh_walk (axis lower : bool) (c : Q) (prev : qpt) (l : list qpt) : list qpt :=
  match l with
  | [] => []
  | cur :: t =>
    let ic := hp_inside axis lower c cur in
    let ip := hp_inside axis lower c prev in
    (if ic then (if ip then [cur] else [hp_isect axis c prev cur; cur])
     else (if ip then [hp_isect axis c prev cur] else []))
    ++ sh_walk axis lower c cur t
  end.

Definition sh_clip (axis lower : bool) (c : Q) (p : list qpt) : list qpt :=
  match p with [] => [] | _ => sh_walk axis lower c (last p (0, 0)%Q) p end.

Definition z2q (z : Z) : Q := inject_Z z.
Definition clip_to_rect (r : rect) (p : path) : list qpt :=
  sh_clip false false (z2q (r_bottom r))
 (sh_clip false true (z2q (r_top r))
 (sh_clip true false (z2q (r_right r))
 (sh_clip true true (z2q (r_left r)) (map (fun v => (z2q (px v), z2q (py v))) p)))).

Fixpoint qarea_walk (prev : qpt) (l : list qpt) : Q :=
  match l with
  | [] => 0%Q
  | cur :: t => ((snd prev + snd cur) * (fst prev - fst cur) + qarea_walk cur t)%Q
  end.
(* same convention as Geom.area2 *)
Definition qarea2 (p : list qpt) : Q := match p with [] => 0%Q | _ => Qred (qarea_walk (last p (0, 0)%Q) p) end.

(* twice the integral of the winding number of p over the rectangle, as a reduced fraction *)
Definition clip_area2 (r : rect) (p : path) : Z * Z :=
  let a := Qred (qarea2 (clip_to_rect r p)) in (Qnum a, Zpos (Qden a)).

(* ---------- sample points (doubled coordinates) ---------- *)
Fixpoint insert_uniq (x : Z) (l : list Z) : list Z :=
  match l with
  | [] => [x]
  | y :: t => if x <? y then x :: l else if x =? y then l else y :: insert_uniq x t
  end.
Definition sort_uniq (l : list Z) : list Z := fold_right insert_uniq [] l.

(* between consecutive distinct coordinates a < b: the midpoint, and 2.5 units (5 doubled) inside either end *)
Fixpoint gaps (l : list Z) : list Z :=
  match l with
  | a :: ((b :: _) as t) =>
    (if 2 <=? b - a then [(a + b) / 2] else []) ++ (if 10 <? b - a then [a + 5; b - 5] else []) ++ gaps t
  | _ => []
  end.

Definition axis_samples (vals : list Z) (lo hi : Z) : list Z :=
  sort_uniq (gaps (sort_uniq (lo :: hi :: filter (fun v => (lo <? v) && (v <? hi)) vals))).

(* every k-th element *)
Fixpoint every (k i : nat) (l : list pt) : list pt :=
  match l with
  | [] => []
  | x :: t => match i with O => x :: every k (k - 1) t | S i' => every k i' t end
  end.

Definition grid (xs ys : list Z) : list pt := flat_map (fun x => map (fun y => (x, y)) ys) xs.

Definition dbl (p : pt) : pt := (2 * px p, 2 * py p).
Definition dbl_path (p : path) : path := map dbl p.

Definition inside_samples (r : rect) (p : path) (o : paths) (cap : nat) : list pt :=
  let vs := p ++ concat o in
  let xs := axis_samples (map (fun v => 2 * px v) vs) (2 * r_left r) (2 * r_right r) in
  let ys := axis_samples (map (fun v => 2 * py v) vs) (2 * r_top r) (2 * r_bottom r) in
  let g := grid xs ys in
  let n := length g in
  if (n <=? cap)%nat then g else every ((n + cap - 1) / cap) 0 g.

Definition outside_samples (r : rect) (o : paths) : list pt :=
  let l := 2 * r_left r in let rr := 2 * r_right r in let t := 2 * r_top r in let b := 2 * r_bottom r in
  let xs := sort_uniq ([l - 3; rr + 3; (l + rr) / 2] ++ map (fun v => 2 * px v) (concat o)) in
  let ys := sort_uniq ([t - 3; b + 3; (t + b) / 2] ++ map (fun v => 2 * py v) (concat o)) in
  filter (fun q => (px q <? l - 2) || (rr + 2 <? px q) || (py q <? t - 2) || (b + 2 <? py q))
         (grid [l - 3; rr + 3] ys ++ grid xs [t - 3; b + 3]).

(* q (doubled) is strictly inside the rectangle and farther than 2 units (4 doubled) from the doubled path edges *)
Definition qualifies (r : rect) (es2 : list (pt * pt)) (q : pt) : bool :=
  (2 * r_left r <? px q) && (px q <? 2 * r_right r) && (2 * r_top r <? py q) && (py q <? 2 * r_bottom r)
  && forallb (fun e => negb (seg_near 4 1 q e)) es2.

(* an edge of p lies along a side of the rectangle (on its line, touching the closed rectangle) *)
Definition has_edge_along_side (r : rect) (p : path) : bool :=
  existsb (fun e => along_side r e && negb (pt_eqb (fst e) (snd e)) && match seg_clip r e with Some _ => true | None => false end) (cyc_edges p).

(* no part of p's boundary meets the closed rectangle *)
Definition no_edge_meets (r : rect) (p : path) : bool :=
  forallb (fun e => match seg_clip r e with Some _ => false | None => true end) (cyc_edges p).

Definition near_boundary (r : rect) (v : pt) : bool :=
  in_rect_slack r 1 v &&
  negb ((r_left r + 1 <? px v) && (px v <? r_right r - 1) && (r_top r + 1 <? py v) && (py v <? r_bottom r - 1)).

Definition paths_eqb (a b : paths) : bool :=
  (length a =? length b)%nat &&
  forallb (fun '(p, q) => (length p =? length q)%nat && forallb (fun '(u, v) => pt_eqb u v) (combine p q)) (combine a b).

Definition l1_perimeter (p : path) : Z :=
  zsum (map (fun '(a, b) => Z.abs (px a - px b) + Z.abs (py a - py b)) (cyc_edges p)).

Record clip_verdict := {
  cv_shape : bool;          (* every output path has >= 3 vertices *)
  cv_within : bool;         (* every output vertex within the rectangle grown by 1 *)
  cv_newv : bool;           (* every output vertex that is not an input vertex is within 1 unit of the boundary *)
  cv_simple : bool;         (* the input is a simple polygon *)
  cv_along : bool;          (* an input edge lies along a side *)
  cv_checked : nat;         (* sample points that qualified (strictly inside, > 2 from the input) *)
  cv_wn_bad : list pt;      (* qualified sample points (doubled) violating the winding clause *)
  cv_out_bad : list pt;     (* sample points (doubled) > 1 unit outside the rectangle that the output covers *)
  cv_inside_ok : bool;      (* input inside the rectangle  =>  output = [input] *)
  cv_outside_ok : bool;     (* input entirely outside  =>  output = [] *)
  cv_orient_ok : bool;      (* simple input: output paths of significant area have the input's orientation *)
  cv_area_in : Z;           (* area2 of the input *)
  cv_area_out : Z;          (* sum of area2 of the output *)
  cv_area_exact : Z * Z;    (* 2 * integral over the rectangle of the input's winding number *)
  cv_area_slack : Z         (* 2 * l1 perimeter of the output + 8 : rounding allowance used to pre-filter *)
}.

Definition wn_clause (simple along : bool) (wi wo : Z) : bool :=
  if simple then wi =? wo
  else if along then true
  else Z.even (wi - wo).

Definition clip_spec (r : rect) (p : path) (o : paths) (cap : nat) (extra : list pt) : clip_verdict :=
  let simple := path_simple p in
  let along := has_edge_along_side r p in
  let p2 := dbl_path p in
  let o2 := map dbl_path o in
  let es2 := cyc_edges p2 in
  let qs := filter (qualifies r es2) (inside_samples r p o cap ++ extra) in
  let bad := filter (fun q => negb (wn_clause simple along (wn p2 q) (wn_paths o2 q))) qs in
  let obad := filter (fun q => negb (wn_paths o2 q =? 0)) (outside_samples r o) in
  let inside := rect_contains_rect r (get_bounds p) && (3 <=? length p)%nat in
  let rc2 := (r_left r + r_right r, r_top r + r_bottom r) in      (* centre, doubled *)
  let outside := no_edge_meets r p && (wn p2 rc2 =? 0) in
  let ain := area2 p in
  let aouts := map area2 o in
  {| cv_shape := forallb (fun q => (3 <=? length q)%nat) o;
     cv_within := forallb (forallb (in_rect_slack r 1)) o;
     cv_newv := forallb (forallb (fun v => existsb (pt_eqb v) p || near_boundary r v)) o;
     cv_simple := simple;
     cv_along := along;
     cv_checked := length qs;
     cv_wn_bad := bad;
     cv_out_bad := obad;
     cv_inside_ok := if inside then paths_eqb o [p] else true;
     cv_outside_ok := if outside then match o with [] => true | _ => false end else true;
     cv_orient_ok :=
       if simple then
         forallb (fun q => let a := area2 q in
                           (Z.abs a <=? 2 * l1_perimeter q + 8) || (Z.sgn a =? Z.sgn ain)) o
       else true;
     cv_area_in := ain;
     cv_area_out := zsum aouts;
     cv_area_exact := clip_area2 r p;
     cv_area_slack := 2 * zsum (map l1_perimeter o) + 8 |}.

(* sanity *)
Example path_simple_ex : path_simple [(0,0); (4,0); (4,4); (0,4)] = true
  /\ path_simple [(0,0); (4,4); (4,0); (0,4)] = false /\ path_simple [(0,0); (4,0); (2,0)] = false
  /\ path_simple [(0,0); (4,0); (4,4); (2,0); (0,4)] = false.
Proof. vm_compute. repeat split; reflexivity. Qed.
Example clip_area2_ex : clip_area2 (mkRect 0 0 10 10) [(-5, 5); (5, -5); (5, 15)] = (100, 1) /\ area2 [(-5, 5); (5, -5); (5, 15)] = 200.
Proof. vm_compute. repeat split; reflexivity. Qed.
