(* Specification side of C08/C09 (exact integer/rational arithmetic only, no floats):
   what "the part of a polyline inside a rectangle" is (Liang-Barsky in Q, lengths in 2^-20 fixed point by
   integer square roots), and the executable checkers the SPEC+O comparisons run on the implementation's output.
   Extracted into bin/oracle_rect. *)
From Clip Require Import base.Geom base.Dist base.Winding model.RectLeaf.
From Coq Require Import ZArith List Bool Lia.
Local Open Scope Z_scope.

(* ---------- fractions n/d with d > 0 ---------- *)
Definition frac := (Z * Z)%type.
Definition fr_le (a b : frac) : bool := fst a * snd b <=? fst b * snd a.
Definition fr_lt (a b : frac) : bool := fst a * snd b <? fst b * snd a.
Definition fr_max (a b : frac) : frac := if fr_le a b then b else a.
Definition fr_min (a b : frac) : frac := if fr_le a b then a else b.
Definition fr_norm (n d : Z) : frac := if d <? 0 then (- n, - d) else (n, d).

(* one Liang-Barsky constraint  p * t <= q  applied to the interval [t0, t1]; None = empty *)
Definition lb_clip (p q : Z) (iv : option (frac * frac)) : option (frac * frac) :=
  match iv with
  | None => None
  | Some (t0, t1) =>
    if p =? 0 then (if q <? 0 then None else iv)
    else if p <? 0 then Some (fr_max t0 (fr_norm q p), t1)
    else Some (t0, fr_min t1 (fr_norm q p))
  end.

(* parameters [t0, t1] (subset of [0,1]) of the part of segment a + t (b - a) inside the closed rectangle *)
Definition seg_clip (r : rect) (e : pt * pt) : option (frac * frac) :=
  let (a, b) := e in
  let dx := px b - px a in let dy := py b - py a in
  let iv := lb_clip (- dx) (px a - r_left r)
           (lb_clip dx (r_right r - px a)
           (lb_clip (- dy) (py a - r_top r)
           (lb_clip dy (r_bottom r - py a) (Some ((0, 1), (1, 1)))))) in
  match iv with
  | Some (t0, t1) => if fr_le t0 t1 then iv else None
  | None => None
  end.

(* fixed point length: floor (2^20 * |ab|) *)
Definition FX : Z := 2 ^ 20.
Definition seg_len_fx (e : pt * pt) : Z := let (a, b) := e in Z.sqrt (dist2_pp a b * (FX * FX)).

(* the segment lies on the line of one of the rectangle's sides *)
Definition along_side (r : rect) (e : pt * pt) : bool :=
  let (a, b) := e in
  ((px a =? px b) && ((px a =? r_left r) || (px a =? r_right r)))
  || ((py a =? py b) && ((py a =? r_top r) || (py a =? r_bottom r))).

(* per input segment: (inside length not along a side, inside length along a side, crossings), fixed point *)
Definition seg_inside_fx (r : rect) (e : pt * pt) : Z * Z * Z :=
  match seg_clip r e with
  | None => (0, 0, 0)
  | Some (t0, t1) =>
    (* (t1 - t0) * len, t1 - t0 = (n1 d0 - n0 d1) / (d0 d1) *)
    let n := fst t1 * snd t0 - fst t0 * snd t1 in
    let d := snd t0 * snd t1 in
    let l := n * seg_len_fx e / d in
    let c := (if fr_lt (0, 1) t0 then 1 else 0) + (if fr_lt t1 (1, 1) then 1 else 0) in
    if along_side r e then (0, l, c) else (l, 0, c)
  end.

Definition sum3 (l : list (Z * Z * Z)) : Z * Z * Z :=
  fold_left (fun '(a, b, c) '(x, y, z) => (a + x, b + y, c + z)) l (0, 0, 0).

Definition lines_inside_fx (r : rect) (p : path) : Z * Z * Z :=
  sum3 (map (seg_inside_fx r) (open_edges p)).

Definition out_len_fx (o : paths) : Z := zsum (map seg_len_fx (flat_map open_edges o)).

(* total output length = exact inside length within 2 units per crossing; the part running along a side may
   be kept or dropped; 2 fixed point units of rounding per segment involved *)
Definition lines_length_ok (r : rect) (p : path) (o : paths) : bool :=
  let '(ls, le, c) := lines_inside_fx r p in
  let lo := out_len_fx o in
  let eps := 2 * (Z.of_nat (length p) + Z.of_nat (length (flat_map open_edges o)) + 1) in
  let slack := 2 * c * FX + eps in
  (ls - slack <=? lo) && (lo <=? ls + le + slack).

(* every output vertex inside the rectangle grown by s *)
Definition in_rect_slack (r : rect) (s : Z) (v : pt) : bool :=
  (r_left r - s <=? px v) && (px v <=? r_right r + s) && (r_top r - s <=? py v) && (py v <=? r_bottom r + s).

Definition lines_within_rect (r : rect) (o : paths) : bool :=
  forallb (forallb (in_rect_slack r 1)) o.

(* v is not more than 3 units behind u in the direction of a->b:  (v-u).(b-a) >= -3 |ab| *)
Definition dir_ok (u v a b : pt) : bool :=
  let d := (px v - px u) * (px b - px a) + (py v - py u) * (py b - py a) in
  (0 <=? d) || (d * d <=? 9 * dist2_pp a b).

(* output segment (u,v) lies on input segment e within 1.5 units and follows its direction *)
Definition seg_fits (uv e : pt * pt) : bool :=
  let (u, v) := uv in
  seg_near 3 2 u e && seg_near 3 2 v e && dir_ok u v (fst e) (snd e).

(* one DP step: [reach] = for each input segment k, can the previous output segment (ending in w) be assigned to k
   with a non-decreasing assignment of everything before it *)
Fixpoint order_step (es : list (pt * pt)) (reach : list bool) (earlier : bool) (w : pt) (uv : pt * pt) : list bool :=
  match es, reach with
  | e :: es', rk :: reach' =>
    (seg_fits uv e && (earlier || (rk && dir_ok w (fst uv) (fst e) (snd e))))
      :: order_step es' reach' (earlier || rk) w uv
  | _, _ => []
  end.

Fixpoint order_dp (es : list (pt * pt)) (reach : list bool) (w : pt) (os : list (pt * pt)) : bool :=
  match os with
  | [] => existsb (fun b => b) reach
  | uv :: os' => order_dp es (order_step es reach false w uv) (snd uv) os'
  end.

(* pieces lie on the input polyline within 1.5 units, in input order and direction *)
Definition lines_order_ok (p : path) (o : paths) : bool :=
  let es := open_edges p in
  match flat_map open_edges o with
  | [] => true
  | uv :: os => order_dp es (map (seg_fits uv) es) (snd uv) os
  end.

Definition lines_shape_ok (o : paths) : bool := forallb (fun q => (2 <=? length q)%nat) o.

(* the C09 verdict as a bit vector: shape, within-rect, on-polyline/order/direction, length *)
Definition lines_spec (r : rect) (p : path) (o : paths) : bool * bool * bool * bool :=
  (lines_shape_ok o, lines_within_rect r o, lines_order_ok p o, lines_length_ok r p o).

(* sanity *)
Example seg_clip_ex : seg_clip (mkRect 0 0 10 10) ((-5, 5), (15, 5)) = Some ((5, 20), (15, 20)).
Proof. reflexivity. Qed.
Example lines_spec_ex :
  lines_spec (mkRect 0 0 10 10) [(-5, 5); (5, 5); (15, 5)] [[(0, 5); (5, 5); (10, 5)]] = (true, true, true, true).
Proof. vm_compute. reflexivity. Qed.
Example lines_spec_ex_rev :
  lines_spec (mkRect 0 0 10 10) [(-5, 5); (5, 5); (15, 5)] [[(10, 5); (5, 5); (0, 5)]] = (true, true, false, true).
Proof. vm_compute. reflexivity. Qed.
Example lines_spec_ex_missing :
  lines_spec (mkRect 0 0 10 10) [(-5, 5); (5, 5); (15, 5)] [[(0, 5); (5, 5)]] = (true, true, true, false).
Proof. vm_compute. reflexivity. Qed.
