(* C05, last sentence ("adding open subjects does not change the region of the closed solution") at the level of
   sweep state: in an AEL satisfying the invariant the wind counts, hot flags and sides of the closed edges are
   functions of the closed edges alone -- deleting every open edge leaves an AEL that satisfies the invariant with
   the closed edges unchanged. *)
From Coq Require Import ZArith List Bool Lia.
From Clip Require Import base.Geom base.Region model.Sweep1D.
Import ListNotations.
Local Open Scope Z_scope.

Definition closed_only (a : ael) : ael := filter (fun e => negb (eopen e)) a.

Lemma contrib_open_zero pt e : eopen e = true -> contrib pt e = 0.
Proof. intros H. unfold contrib. rewrite H. reflexivity. Qed.

Lemma inv_from_closed_only ct fr : forall a ws wcl,
  inv_from ct fr ws wcl a = true -> inv_from ct fr ws wcl (closed_only a) = true.
Proof.
  induction a as [|e a IH]; intros ws wcl H; [reflexivity|].
  cbn [inv_from] in H. apply andb_prop in H. destruct H as [He Ha].
  cbn [closed_only filter]. destruct (eopen e) eqn:Ho; cbn [negb].
  - rewrite !contrib_open_zero, !Z.add_0_r in Ha by exact Ho. apply IH, Ha.
  - cbn [inv_from]. rewrite He. cbn [andb]. apply IH, Ha.
Qed.

Theorem closed_state_ignores_open ct fr a :
  inv_b ct fr a = true -> inv_b ct fr (closed_only a) = true.
Proof. apply inv_from_closed_only. Qed.

(* and the winding sums every clause of the invariant refers to do not see open edges *)
Lemma Wsum_closed_only pt a : Wsum pt (closed_only a) = Wsum pt a.
Proof.
  unfold Wsum. induction a as [|e a IH]; [reflexivity|]. cbn [closed_only filter].
  destruct (eopen e) eqn:Ho; cbn [negb map zsum].
  - rewrite contrib_open_zero by exact Ho. fold (closed_only a). lia.
  - fold (closed_only a). rewrite IH. reflexivity.
Qed.
