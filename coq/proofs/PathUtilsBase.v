(* Shared lemmas for the C20 proofs: sublist, the result monad, bounds-checked reads/writes, collect. *)
From Coq Require Import ZArith List Bool Lia Arith.
From Clip Require Import base.Geom model.PathUtils.
Import ListNotations.
Local Open Scope nat_scope.

(* ------------------------------------------------------------------ sublist *)
Inductive sublist {A : Type} : list A -> list A -> Prop :=
| sl_nil : sublist [] []
| sl_skip x l1 l2 : sublist l1 l2 -> sublist l1 (x :: l2)
| sl_keep x l1 l2 : sublist l1 l2 -> sublist (x :: l1) (x :: l2).
#[export] Hint Constructors sublist : core.

Lemma sublist_nil_l {A} (l : list A) : sublist [] l.
Proof. induction l; auto. Qed.

Lemma sublist_refl {A} (l : list A) : sublist l l.
Proof. induction l; auto. Qed.

Lemma sublist_app {A} (a b c d : list A) : sublist a b -> sublist c d -> sublist (a ++ c) (b ++ d).
Proof. induction 1; intros H2; cbn [app]; auto. Qed.

Lemma sublist_app_r {A} (a b c : list A) : sublist a c -> sublist a (b ++ c).
Proof. intros H. induction b; cbn [app]; auto. Qed.

Lemma sublist_app_l {A} (a b c : list A) : sublist a b -> sublist a (b ++ c).
Proof. intros H. rewrite <- (app_nil_r a). apply sublist_app; [exact H|apply sublist_nil_l]. Qed.

Lemma sublist_trans {A} (a b c : list A) : sublist a b -> sublist b c -> sublist a c.
Proof.
  intros H1 H2. revert a H1. induction H2; intros a H1.
  - exact H1.
  - auto.
  - inversion H1; subst; auto.
Qed.

Lemma sublist_length {A} (a b : list A) : sublist a b -> length a <= length b.
Proof. induction 1; cbn [length]; lia. Qed.

Lemma sublist_In {A} (a b : list A) x : sublist a b -> In x a -> In x b.
Proof. induction 1; cbn [In]; intuition. Qed.

Lemma sublist_skipn {A} n (l : list A) : sublist (skipn n l) l.
Proof. revert l; induction n; intros [|x l]; cbn [skipn]; auto using sublist_refl. Qed.

Lemma sublist_firstn {A} n (l : list A) : sublist (firstn n l) l.
Proof. revert l; induction n; intros [|x l]; cbn [firstn]; auto using sublist_nil_l. Qed.

Lemma sublist_removelast {A} (l : list A) : sublist (removelast l) l.
Proof.
  induction l as [|x l IH]; [apply sl_nil|]. cbn [removelast]. destruct l; [apply sl_skip, sl_nil|]. apply sl_keep, IH.
Qed.

Lemma sublist_rev {A} (a b : list A) : sublist a b -> sublist (rev a) (rev b).
Proof.
  induction 1; cbn [rev]; auto.
  - apply sublist_app_l; assumption.
  - apply sublist_app; auto.
Qed.

Lemma sublistb_sound s l : sublistb s l = true -> sublist s l.
Proof.
  revert s; induction l as [|y l IH]; intros [|x s] H; cbn [sublistb] in H; auto using sublist_nil_l; try discriminate.
  destruct (pt_eqb x y) eqn:E.
  - apply pt_eqb_eq in E; subst. auto.
  - auto.
Qed.

Lemma sublistb_complete s l : sublist s l -> sublistb s l = true.
Proof.
  intros H. induction H as [|y s l H IH|y s l H IH]; [reflexivity| |].
  - destruct s as [|x s]; [reflexivity|]. cbn [sublistb].
    destruct (pt_eqb x y) eqn:E; [|exact IH].
    apply pt_eqb_eq in E; subst.
    (* x :: s is a sublist of l, hence so is s *)
    clear IH. assert (Hs : sublist s l).
    { eapply sublist_trans; [|exact H]. auto using sublist_refl. }
    clear H. revert s Hs. induction l as [|z l IHl]; intros s Hs.
    + inversion Hs; reflexivity.
    + destruct s as [|x s]; [reflexivity|]. cbn [sublistb]. inversion Hs; subst.
      * destruct (pt_eqb x z) eqn:E; [|auto]. apply pt_eqb_eq in E; subst.
        apply IHl. eapply sublist_trans; [|eassumption]. auto using sublist_refl.
      * rewrite pt_eqb_refl. auto.
  - cbn [sublistb]. rewrite pt_eqb_refl. exact IH.
Qed.

(* ------------------------------------------------------------------ monad, rd, upd *)
Lemma bind_Ok {A B} (r : res A) (f : A -> res B) b :
  bind r f = Ok b -> exists a, r = Ok a /\ f a = Ok b.
Proof. destruct r; cbn [bind]; intros H; try discriminate. eauto. Qed.

Lemma rd_Ok {A} (l : list A) i a : rd l i = Ok a <-> nth_error l i = Some a.
Proof. unfold rd. destruct (nth_error l i); split; intros H; inversion H; reflexivity. Qed.

Lemma rd_lt {A} (l : list A) i : i < length l -> exists a, rd l i = Ok a.
Proof.
  intros H. unfold rd. destruct (nth_error l i) eqn:E; [eauto|].
  apply nth_error_None in E. lia.
Qed.

Lemma rd_nth {A} (l : list A) i d : i < length l -> rd l i = Ok (nth i l d).
Proof. intros H. unfold rd. rewrite (nth_error_nth' l d H). reflexivity. Qed.

Lemma upd_lt {A} (l : list A) i v : i < length l -> exists l', upd l i v = Ok l'.
Proof.
  revert i; induction l as [|x l IH]; intros i H; cbn [length] in H; [lia|].
  destruct i; cbn [upd]; [eauto|]. destruct (IH i ltac:(lia)) as [l' ->]. cbn [bind]. eauto.
Qed.

Lemma upd_length {A} (l : list A) i v l' : upd l i v = Ok l' -> length l' = length l.
Proof.
  revert i l'; induction l as [|x l IH]; intros i l' H; cbn [upd] in H; [discriminate|].
  destruct i; [inversion H; reflexivity|].
  apply bind_Ok in H as (t' & Ht & H). inversion H; subst. cbn [length]. f_equal. eauto.
Qed.

Lemma upd_lt_idx {A} (l : list A) i v l' : upd l i v = Ok l' -> i < length l.
Proof.
  revert i l'; induction l as [|x l IH]; intros i l' H; cbn [upd] in H; [discriminate|].
  destruct i; cbn [length]; [lia|].
  apply bind_Ok in H as (t' & Ht & H). apply IH in Ht. lia.
Qed.

Lemma upd_nth_same {A} (l : list A) i v l' : upd l i v = Ok l' -> nth_error l' i = Some v.
Proof.
  revert i l'; induction l as [|x l IH]; intros i l' H; cbn [upd] in H; [discriminate|].
  destruct i; [inversion H; reflexivity|].
  apply bind_Ok in H as (t' & Ht & H). inversion H; subst. cbn [nth_error]. eauto.
Qed.

Lemma upd_nth_other {A} (l : list A) i j v l' : upd l i v = Ok l' -> j <> i -> nth_error l' j = nth_error l j.
Proof.
  revert i j l'; induction l as [|x l IH]; intros i j l' H Hn; cbn [upd] in H; [discriminate|].
  destruct i.
  - inversion H; subst. destruct j; [lia|reflexivity].
  - apply bind_Ok in H as (t' & Ht & H). inversion H; subst.
    destruct j; [reflexivity|]. cbn [nth_error]. eapply IH; [eassumption|lia].
Qed.

(* ------------------------------------------------------------------ skipn / nth_error *)
Lemma skipn_nth_cons {A} (l : list A) i a : nth_error l i = Some a -> skipn i l = a :: skipn (S i) l.
Proof.
  revert i; induction l as [|x l IH]; intros [|i] H; cbn [nth_error] in H; try discriminate.
  - inversion H; reflexivity.
  - cbn [skipn]. rewrite (IH i H). reflexivity.
Qed.

Lemma nth_error_firstn_lt {A} (l : list A) n i : i < n -> nth_error (firstn n l) i = nth_error l i.
Proof.
  revert l i; induction n; intros l i H; [lia|].
  destruct l as [|x l]; [destruct i; reflexivity|]. cbn [firstn].
  destruct i; [reflexivity|]. cbn [nth_error]. apply IHn. lia.
Qed.

Lemma nth_error_skipn {A} (l : list A) n i : nth_error (skipn n l) i = nth_error l (n + i).
Proof.
  revert l; induction n; intros l; [reflexivity|].
  destruct l as [|x l]; [destruct i; reflexivity|]. cbn [skipn plus nth_error]. apply IHn.
Qed.

(* ------------------------------------------------------------------ collect *)
Definition select (want : bool) (p : path) (fl : list bool) : path :=
  map fst (filter (fun x => Bool.eqb (snd x) want) (combine p fl)).

Lemma select_sublist want p fl : sublist (select want p fl) p.
Proof.
  unfold select. revert fl; induction p as [|a p IH]; intros fl; [cbn; auto|].
  destruct fl as [|f fl]; [cbn; apply sublist_nil_l|].
  cbn [combine filter snd]. destruct (Bool.eqb f want); cbn [map fst]; auto.
Qed.

Lemma collect_select want n : forall i p fl,
  i + n = length p -> length fl = length p ->
  collect want n i p fl = Ok (select want (skipn i p) (skipn i fl)).
Proof.
  induction n as [|n IH]; intros i p fl Hn Hl; cbn [collect].
  - rewrite (skipn_all2 p) by lia. reflexivity.
  - destruct (rd_lt fl i ltac:(lia)) as [f Hf]. destruct (rd_lt p i ltac:(lia)) as [a Ha].
    rewrite Hf; cbn [bind].
    apply rd_Ok in Hf, Ha.
    rewrite (skipn_nth_cons _ _ _ Hf), (skipn_nth_cons _ _ _ Ha).
    unfold select; cbn [combine filter snd].
    destruct (Bool.eqb f want).
    + unfold rd; rewrite Ha; cbn [bind]. rewrite (IH (S i) p fl) by lia. reflexivity.
    + rewrite (IH (S i) p fl) by lia. reflexivity.
Qed.

Lemma collect_full want p fl :
  length fl = length p -> collect want (length p) 0 p fl = Ok (select want p fl).
Proof. intros H. rewrite collect_select by lia. reflexivity. Qed.

(* ------------------------------------------------------------------ misc list facts *)
Lemma last_app_single {A} (l : list A) x d : last (l ++ [x]) d = x.
Proof. apply last_last. Qed.

Lemma hd_error_app {A} (l m : list A) a : hd_error l = Some a -> hd_error (l ++ m) = Some a.
Proof. destruct l; cbn; congruence. Qed.
