(* C18, Area(const Path64&) and Area(const Paths64&) (hand model in model/Pip.v):
   if all coordinates are bounded by B and  n * B^2 < 2^51  (n = number of vertices), every term and every
   partial sum of the double accumulation is an integer below 2^53, so the accumulation is exact and the
   result is exactly half the integer shoelace sum [area2].  The loop visits the cyclic edges in the order
   (p[n-1],p[0]), (p[0],p[1]), (p[1],p[2]), ... -- closing edge first -- which is a rotation of [cyc_edges]. *)
From Coq Require Import ZArith Reals List Bool Floats Lia Lra.
From Clip Require Import base.Geom base.FloatModel model.CoreSpec model.Pip proofs.Core_float proofs.Core_isect.
From Flocq Require Import Core.Core IEEE754.BinarySingleNaN IEEE754.PrimFloat.
Import ListNotations.
Local Open Scope Z_scope.

(* ------------------------------------------------------------------ halves of integers *)
(* f is finite and its real value is z / 2 *)
Definition fhalf (f : PrimFloat.float) (z : Z) : Prop :=
  BinarySingleNaN.is_finite (Prim2B f) = true /\ (B2R (Prim2B f) = IZR z / 2)%R.

Lemma half_generic z : Z.abs z < 2 ^ 53 -> generic_format radix2 (fexp prec emax) (IZR z / 2)%R.
Proof.
  intros H. apply generic_format_FLT.
  exists (Float radix2 z (-1)).
  - unfold F2R; cbn [Fnum Fexp bpow Z.pow_pos Pos.iter radix_val radix2 Z.mul Pos.mul]. lra.
  - cbn [Fnum]. change (radix2 ^ prec) with (2 ^ 53). exact H.
  - cbn [Fexp]. unfold emin, prec, emax. lia.
Qed.

Lemma round_half z : Z.abs z < 2 ^ 53 ->
  round radix2 (fexp prec emax) (round_mode mode_NE) (IZR z / 2)%R = (IZR z / 2)%R.
Proof. intros H. apply round_generic; [apply valid_rnd_round_mode|apply half_generic; exact H]. Qed.

Lemma half_lt_emax z : Z.abs z < 2 ^ 53 -> Rlt_bool (Rabs (IZR z / 2)) (bpow radix2 emax) = true.
Proof.
  intros H. apply Rlt_bool_true.
  apply Rle_lt_trans with (IZR (2 ^ 53)).
  - assert (A : (Rabs (IZR z) <= IZR (2 ^ 53))%R) by (rewrite <- abs_IZR; apply IZR_le; lia).
    unfold Rdiv. rewrite Rabs_mult. rewrite (Rabs_pos_eq (/ 2)) by lra.
    pose proof (Rabs_pos (IZR z)). lra.
  - rewrite <- bpow53. apply bpow_lt. unfold emax. lia.
Qed.

Lemma half_B2R : B2R (Prim2B 0.5%float) = (/ 2)%R.
Proof.
  unfold Prim2B. rewrite B2R_SF2B.
  replace (Prim2SF 0.5%float) with (S754_finite false 4503599627370496 (-53)) by (vm_compute; reflexivity).
  unfold SF2R, F2R. cbn [Fnum Fexp cond_Zopp bpow].
  replace (Z.pow_pos radix2 53) with (2 * 4503599627370496) by (vm_compute; reflexivity).
  rewrite mult_IZR. field.
Qed.

Lemma half_finite : BinarySingleNaN.is_finite (Prim2B 0.5%float) = true.
Proof. unfold Prim2B. rewrite is_finite_SF2B. vm_compute. reflexivity. Qed.

(* the final  a * 0.5  *)
Lemma fint_half f z : fint f z -> Z.abs z < 2 ^ 53 -> fhalf (f * 0.5)%float z.
Proof.
  intros [Ff Rf] Hs. unfold fhalf. rewrite mul_equiv.
  pose proof (Bmult_correct prec emax Hprec Hmax mode_NE (Prim2B f) (Prim2B 0.5%float)) as C.
  rewrite Rf, half_B2R in C. change (IZR z * / 2)%R with (IZR z / 2)%R in C.
  rewrite (round_half _ Hs), (half_lt_emax _ Hs) in C.
  destruct C as (C1 & C2 & _). rewrite Ff, half_finite in C2. split; assumption.
Qed.

Lemma fhalf_zero : fhalf 0%float 0.
Proof. destruct fint_zero as [F R]. split; [exact F|]. rewrite R. lra. Qed.

(* sums of halves *)
Lemma fhalf_add f g x y : fhalf f x -> fhalf g y -> Z.abs (x + y) < 2 ^ 53 -> fhalf (f + g)%float (x + y).
Proof.
  intros [Ff Rf] [Fg Rg] Hs. unfold fhalf. rewrite add_equiv.
  pose proof (Bplus_correct prec emax Hprec Hmax mode_NE (Prim2B f) (Prim2B g) Ff Fg) as C.
  rewrite Rf, Rg in C.
  replace (IZR x / 2 + IZR y / 2)%R with (IZR (x + y) / 2)%R in C by (rewrite plus_IZR; lra).
  rewrite (round_half _ Hs), (half_lt_emax _ Hs) in C.
  destruct C as (C1 & C2 & _). split; assumption.
Qed.

(* ------------------------------------------------------------------ one term *)
Lemma edge_bound B v2 v1 : pt_le B v2 -> pt_le B v1 -> Z.abs (edge_area2 (v2, v1)) <= 4 * (B * B).
Proof.
  intros [X2 Y2] [X1 Y1]. unfold edge_area2.
  eapply Z.le_trans; [abs_bound|]. lia.
Qed.

Lemma area_term_fint B v2 v1 :
  0 <= B -> 4 * (B * B) <= 2 ^ 53 -> pt_le B v2 -> pt_le B v1 ->
  fint (area_term v2 v1) (edge_area2 (v2, v1)).
Proof.
  intros HB Hs [X2 Y2] [X1 Y1]. unfold area_term, edge_area2.
  assert (HB2 : B + B <= 2 ^ 53) by nia.
  fint_prove; unfold small.
  - eapply Z.le_trans; [abs_bound|]. exact HB2.
  - eapply Z.le_trans; [abs_bound|]. exact HB2.
  - eapply Z.le_trans; [abs_bound|]. lia.
Qed.

(* ------------------------------------------------------------------ the visited edges *)
Definition nthd (p : path) (i : nat) : pt := nth i p (0, 0).

(* sum over the first k edges (p[0],p[1]) ... (p[k-1],p[k]) *)
Fixpoint osum (p : path) (k : nat) : Z :=
  match k with
  | O => 0
  | S k' => osum p k' + edge_area2 (nthd p k', nthd p k)
  end.

Definition prev (n i : nat) : nat := if Nat.eqb i 0 then (n - 1)%nat else (i - 1)%nat.

Lemma osum_pred p k : (1 <= k)%nat -> osum p k = osum p (k - 1) + edge_area2 (nthd p (k - 1), nthd p k).
Proof. intros H. destruct k as [|k]; [lia|]. cbn [osum]. replace (S k - 1)%nat with k by lia. reflexivity. Qed.

Lemma nthd_error p i : (i < length p)%nat -> nth_error p i = Some (nthd p i).
Proof. intros H. apply nth_error_nth'. exact H. Qed.

Lemma nthd_le B p i : (forall v, In v p -> pt_le B v) -> (i < length p)%nat -> pt_le B (nthd p i).
Proof. intros H Hi. apply H. apply nth_In. exact Hi. Qed.

Lemma osum_app p q k : (k < length p)%nat -> osum (p ++ q) k = osum p k.
Proof.
  induction k as [|k IH]; intros H; [reflexivity|].
  cbn [osum]. rewrite IH by lia. unfold nthd. rewrite !app_nth1 by lia. reflexivity.
Qed.

Lemma osum_cons a p k : osum (a :: p) (S k) = edge_area2 (a, nthd p 0) + osum p k.
Proof.
  induction k as [|k IH].
  - cbn [osum nthd nth]. unfold nthd. cbn [nth]. lia.
  - change (osum (a :: p) (S (S k))) with (osum (a :: p) (S k) + edge_area2 (nthd (a :: p) (S k), nthd (a :: p) (S (S k)))).
    rewrite IH. cbn [osum]. unfold nthd. cbn [nth]. lia.
Qed.

Lemma osum_open_edges l : zsum (map edge_area2 (open_edges l)) = osum l (length l - 1).
Proof.
  induction l as [|a l IH]; [reflexivity|].
  destruct l as [|b l]; [reflexivity|].
  rewrite open_edges_cons2. cbn [map zsum]. rewrite IH.
  cbn [length]. replace (S (S (length l)) - 1)%nat with (S (S (length l) - 1)) by lia.
  rewrite osum_cons. unfold nthd. cbn [nth length]. reflexivity.
Qed.

(* the shoelace sum, closing edge first *)
Lemma area2_osum p : (1 <= length p)%nat ->
  area2 p = edge_area2 (nthd p (length p - 1), nthd p 0) + osum p (length p - 1).
Proof.
  intros H. unfold area2, cyc_edges. destruct p as [|a p]; [cbn [length] in H; lia|].
  rewrite osum_open_edges. rewrite app_length. cbn [length].
  replace (S (length p) + 1 - 1)%nat with (S (S (length p) - 1)) by lia.
  cbn [osum]. rewrite osum_app by (cbn [length]; lia).
  unfold nthd at 1 2. rewrite app_nth1 by (cbn [length]; lia).
  replace (S (S (length p) - 1)) with (length (a :: p)) by (cbn [length]; lia).
  rewrite app_nth2 by lia. rewrite Nat.sub_diag.
  unfold nthd. cbn [nth length]. replace (S (length p) - 1)%nat with (length p) by lia. lia.
Qed.

Lemma area2_short p : (length p < 3)%nat -> area2 p = 0.
Proof.
  intros H. destruct p as [|a [|b [|c p]]]; [reflexivity| | |cbn [length] in H; lia].
  - unfold area2, cyc_edges, edge_area2. cbn [app open_edges map zsum]. lia.
  - unfold area2, cyc_edges, edge_area2. cbn [app open_edges map zsum]. lia.
Qed.

(* ------------------------------------------------------------------ the loop *)
Section Loop.
  Variables (p : path) (B : Z).
  Let n := length p.
  Hypothesis HB : 0 <= B.
  Hypothesis Hp : forall v, In v p -> pt_le B v.
  Hypothesis Hn : Z.of_nat n * (B * B) < 2 ^ 51.

  Let E0 := edge_area2 (nthd p (n - 1), nthd p 0).

  Lemma term_small : (1 <= n)%nat -> 4 * (B * B) <= 2 ^ 53.
  Proof. intros H. nia. Qed.

  Lemma sum_small sm k : (k <= n)%nat -> Z.abs sm <= 4 * (B * B) * Z.of_nat k -> small sm.
  Proof. intros Hk HS. unfold small. nia. Qed.

  Lemma loop_inv m : forall fuel stop it1 a sm,
    (it1 + 2 * m = stop)%nat -> (m <= fuel)%nat -> (stop <= n)%nat -> (1 <= n)%nat ->
    fint a sm -> Z.abs sm <= 4 * (B * B) * Z.of_nat it1 ->
    sm + edge_area2 (nthd p (prev n it1), nthd p it1) = E0 + osum p it1 ->
    exists a' sm',
      area_loop fuel p stop it1 (prev n it1) a = Some (a', stop, prev n stop) /\
      fint a' sm' /\ Z.abs sm' <= 4 * (B * B) * Z.of_nat stop /\
      sm' + edge_area2 (nthd p (prev n stop), nthd p stop) = E0 + osum p stop.
  Proof.
    induction m as [|m IH]; intros fuel stop it1 a sm Hstop Hfuel Hle Hn1 Ha HS HI.
    - assert (it1 = stop) as -> by lia.
      exists a, sm. split; [|auto].
      destruct fuel; cbn [area_loop]; rewrite Nat.eqb_refl; reflexivity.
    - destruct fuel as [|fuel]; [lia|].
      cbn [area_loop].
      destruct (Nat.eqb it1 stop) eqn:E; [apply Nat.eqb_eq in E; lia|].
      assert (Hprev : (prev n it1 < n)%nat) by (unfold prev; destruct (Nat.eqb it1 0); lia).
      rewrite (nthd_error p it1) by (fold n; lia).
      rewrite (nthd_error p (prev n it1)) by exact Hprev.
      rewrite (nthd_error p (S it1)) by (fold n; lia).
      pose proof (term_small Hn1) as Hts.
      assert (L1 : pt_le B (nthd p it1)) by (apply nthd_le; [exact Hp|fold n; lia]).
      assert (L2 : pt_le B (nthd p (prev n it1))) by (apply nthd_le; [exact Hp|exact Hprev]).
      assert (L3 : pt_le B (nthd p (S it1))) by (apply nthd_le; [exact Hp|fold n; lia]).
      pose proof (edge_bound _ _ _ L2 L1) as B1.
      pose proof (edge_bound _ _ _ L1 L3) as B2.
      pose proof (area_term_fint _ _ _ HB Hts L2 L1) as T1.
      pose proof (area_term_fint _ _ _ HB Hts L1 L3) as T2.
      set (e1 := edge_area2 (nthd p (prev n it1), nthd p it1)) in *.
      set (e2 := edge_area2 (nthd p it1, nthd p (S it1))) in *.
      assert (A1 : fint (a + area_term (nthd p (prev n it1)) (nthd p it1))%float (sm + e1)).
      { apply fint_add; [exact Ha|exact T1|]. apply (sum_small _ (S it1)); lia. }
      assert (A2 : fint (a + area_term (nthd p (prev n it1)) (nthd p it1)
                           + area_term (nthd p it1) (nthd p (S it1)))%float (sm + e1 + e2)).
      { apply fint_add; [exact A1|exact T2|]. apply (sum_small _ (S (S it1))); lia. }
      replace (S it1) with (prev n (S (S it1))) at 3 by (unfold prev; cbn [Nat.eqb]; lia).
      apply (IH fuel stop (S (S it1)) _ (sm + e1 + e2)); try lia; [exact A2| ].
      replace (prev n (S (S it1))) with (S it1) by (unfold prev; cbn [Nat.eqb]; lia).
      change (osum p (S (S it1))) with (osum p it1 + e2 + edge_area2 (nthd p (S it1), nthd p (S (S it1)))).
      lia.
  Qed.

  Lemma Area_exact_aux :
    exists f, Area p = Some f /\ fhalf f (area2 p) /\ Z.abs (area2 p) <= 4 * (B * B) * Z.of_nat n.
  Proof.
    unfold Area. fold n.
    destruct (n <? 3)%nat eqn:E3.
    - apply Nat.ltb_lt in E3. rewrite (area2_short p E3).
      exists 0%float. split; [reflexivity|]. split; [exact fhalf_zero|]. nia.
    - apply Nat.ltb_ge in E3.
      assert (Hn1 : (1 <= n)%nat) by lia.
      rewrite (area2_osum p) by (fold n; lia). fold n. fold E0.
      destruct (Nat.even n) eqn:Ev.
      + (* even: stop = n *)
        rewrite <- Nat.negb_even, Ev. cbn [negb].
        apply Nat.even_spec in Ev. destruct Ev as [m Hm].
        destruct (loop_inv m n n 0%nat 0%float 0) as (a' & sm' & EQ & Fa & Bd & Inv); try lia.
        * exact fint_zero.
        * cbn [osum]. unfold prev. cbn [Nat.eqb]. fold E0. lia.
        * change (prev n 0) with (n - 1)%nat in EQ.
          replace (S (n - 1)) with n by lia.
          rewrite EQ.
          assert (Pn : prev n n = (n - 1)%nat) by (unfold prev; destruct (Nat.eqb n 0) eqn:Z0; [apply Nat.eqb_eq in Z0; lia|reflexivity]).
          rewrite Pn in Inv.
          rewrite (osum_pred p n) in Inv by lia.
          assert (ES : sm' = E0 + osum p (n - 1)) by lia. rewrite <- ES.
          exists (a' * 0.5)%float. split; [reflexivity|]. split; [|exact Bd].
          apply fint_half; [exact Fa|]. nia.
      + (* odd: stop = n - 1, one more term *)
        rewrite <- Nat.negb_even, Ev. cbn [negb].
        assert (Od : Nat.odd n = true) by (rewrite <- Nat.negb_even, Ev; reflexivity).
        apply Nat.odd_spec in Od. destruct Od as [m Hm].
        destruct (loop_inv m n (n - 1)%nat 0%nat 0%float 0) as (a' & sm' & EQ & Fa & Bd & Inv); try lia.
        * exact fint_zero.
        * cbn [osum]. unfold prev. cbn [Nat.eqb]. fold E0. lia.
        * change (prev n 0) with (n - 1)%nat in EQ.
          rewrite EQ.
          assert (Pn : (prev n (n - 1) < n)%nat) by (unfold prev; destruct (Nat.eqb (n - 1) 0); lia).
          rewrite (nthd_error p (n - 1)) by (fold n; lia).
          rewrite (nthd_error p (prev n (n - 1))) by exact Pn.
          pose proof (term_small Hn1) as Hts.
          assert (L1 : pt_le B (nthd p (n - 1))) by (apply nthd_le; [exact Hp|fold n; lia]).
          assert (L2 : pt_le B (nthd p (prev n (n - 1)))) by (apply nthd_le; [exact Hp|exact Pn]).
          pose proof (edge_bound _ _ _ L2 L1) as B1.
          pose proof (area_term_fint _ _ _ HB Hts L2 L1) as T1.
          set (e1 := edge_area2 (nthd p (prev n (n - 1)), nthd p (n - 1))) in *.
          assert (Bd' : Z.abs (sm' + e1) <= 4 * (B * B) * Z.of_nat n) by lia.
          assert (A1 : fint (a' + area_term (nthd p (prev n (n - 1))) (nthd p (n - 1)))%float (sm' + e1)).
          { apply fint_add; [exact Fa|exact T1|]. apply (sum_small _ n); lia. }
          rewrite <- Inv.
          eexists. split; [reflexivity|]. split; [|exact Bd'].
          apply fint_half; [exact A1|]. nia.
  Qed.
End Loop.

(* ------------------------------------------------------------------ Area *)
(* all coordinates bounded by B and n * B^2 < 2^51: every term and every partial sum is an integer below 2^53,
   so the double accumulation is exact and Area is exactly half the shoelace sum *)
Theorem area_exact (p : path) (B : Z) :
  0 <= B -> (forall v, In v p -> pt_le B v) -> Z.of_nat (length p) * (B * B) < 2 ^ 51 ->
  exists f, Area p = Some f /\
            BinarySingleNaN.is_finite (Prim2B f) = true /\
            (B2R (Prim2B f) = IZR (area2 p) / 2)%R.
Proof.
  intros HB Hp Hn.
  destruct (Area_exact_aux p B HB Hp Hn) as (f & EQ & [F R] & _).
  exists f. auto.
Qed.

Definition tri_ex : path := [(0, 0); (10, 0); (0, -10)].

Example area_exact_sat :
  0 <= 10 /\ (forall v, In v tri_ex -> pt_le 10 v) /\ Z.of_nat (length tri_ex) * (10 * 10) < 2 ^ 51 /\
  exists f, Area tri_ex = Some f /\
            BinarySingleNaN.is_finite (Prim2B f) = true /\
            (B2R (Prim2B f) = IZR (area2 tri_ex) / 2)%R.
Proof.
  assert (H1 : forall v, In v tri_ex -> pt_le 10 v).
  { intros v Hv. unfold tri_ex in Hv. cbn [In] in Hv.
    destruct Hv as [<-|[<-|[<-|[]]]]; unfold pt_le, px, py; cbn [fst snd]; lia. }
  assert (H2 : Z.of_nat (length tri_ex) * (10 * 10) < 2 ^ 51) by (vm_compute; reflexivity).
  split; [lia|]. split; [exact H1|]. split; [exact H2|].
  apply (area_exact tri_ex 10); [lia|exact H1|exact H2].
Qed.

(* ------------------------------------------------------------------ Area of Paths *)
Definition total_len (ps : paths) : nat := length (concat ps).

Lemma AreaPaths_from_exact (B : Z) : 0 <= B -> forall ps a A,
  (forall p, In p ps -> forall v, In v p -> pt_le B v) ->
  fhalf a A ->
  Z.abs A + 4 * (B * B) * Z.of_nat (total_len ps) < 2 ^ 53 ->
  exists f, AreaPaths_from a ps = Some f /\ fhalf f (A + area2_paths ps).
Proof.
  intros HB. induction ps as [|p ps IH]; intros a A Hps Ha Hb.
  - exists a. split; [reflexivity|]. unfold area2_paths. cbn [map zsum].
    replace (A + 0) with A by lia. exact Ha.
  - unfold total_len in Hb. cbn [concat] in Hb. rewrite app_length, Nat2Z.inj_add in Hb.
    fold (total_len ps) in Hb.
    assert (Hp : forall v, In v p -> pt_le B v) by (apply Hps; left; reflexivity).
    assert (Hn : Z.of_nat (length p) * (B * B) < 2 ^ 51) by nia.
    destruct (Area_exact_aux p B HB Hp Hn) as (x & EQ & Hx & Bx).
    cbn [AreaPaths_from]. rewrite EQ.
    destruct (IH (a + x)%float (A + area2 p)) as (f & EQf & Hf).
    + intros q Hq. apply Hps. right. exact Hq.
    + apply fhalf_add; [exact Ha|exact Hx|]. nia.
    + nia.
    + exists f. split; [exact EQf|].
      unfold area2_paths in *. cbn [map zsum].
      replace (A + (area2 p + zsum (map area2 ps))) with (A + area2 p + zsum (map area2 ps)) by lia.
      exact Hf.
Qed.

(* common coordinate bound B and (total number of vertices) * B^2 < 2^51: the sum of the (exact) half-integer
   areas is exact as well *)
Theorem area_paths_exact (ps : paths) (B : Z) :
  0 <= B -> (forall p, In p ps -> forall v, In v p -> pt_le B v) ->
  Z.of_nat (total_len ps) * (B * B) < 2 ^ 51 ->
  exists f, AreaPaths ps = Some f /\
            BinarySingleNaN.is_finite (Prim2B f) = true /\
            (B2R (Prim2B f) = IZR (area2_paths ps) / 2)%R.
Proof.
  intros HB Hps Hn. unfold AreaPaths.
  destruct (AreaPaths_from_exact B HB ps 0%float 0 Hps fhalf_zero) as (f & EQ & [F R]).
  - cbn [Z.abs]. lia.
  - exists f. cbn [Z.add] in R. auto.
Qed.

Example area_paths_exact_sat :
  let ps := [tri_ex; [(1, 1); (1, 3); (3, 3); (3, 1)]] in
  0 <= 10 /\ (forall p, In p ps -> forall v, In v p -> pt_le 10 v) /\
  Z.of_nat (total_len ps) * (10 * 10) < 2 ^ 51 /\
  exists f, AreaPaths ps = Some f /\
            BinarySingleNaN.is_finite (Prim2B f) = true /\
            (B2R (Prim2B f) = IZR (area2_paths ps) / 2)%R.
Proof.
  intros ps.
  assert (H1 : forall p, In p ps -> forall v, In v p -> pt_le 10 v).
  { intros q Hq v Hv. unfold ps, tri_ex in Hq. cbn [In] in Hq.
    destruct Hq as [<-|[<-|[]]]; cbn [In] in Hv;
      repeat (destruct Hv as [<-|Hv]; [unfold pt_le, px, py; cbn [fst snd]; lia|]); destruct Hv. }
  assert (H2 : Z.of_nat (total_len ps) * (10 * 10) < 2 ^ 51) by (vm_compute; reflexivity).
  split; [lia|]. split; [exact H1|]. split; [exact H2|].
  apply (area_paths_exact ps 10); [lia|exact H1|exact H2].
Qed.
