(* Arithmetic facts about wind counts used by the sweep invariant. *)
From Clip Require Import base.Geom base.Region model.Sweep1D proofs.Sweep1D_contrib.
From Coq Require Import ZifyBool Lia.
Local Open Scope Z_scope.

Definition pm1 (d : Z) : Prop := d = 1 \/ d = -1.

(* moving an edge across a neighbour of the same path type shifts both adjacent regions by s;
   the code's "negate when the sum is zero, otherwise add" keeps wind_cnt = the count farther from zero *)
Lemma hi_shift W d s : pm1 d -> pm1 s ->
  (if hi W d + s =? 0 then - hi W d else hi W d + s) = hi (W + s) d.
Proof.
  intros Hd Hs.
  destruct (hi_cases W d Hd) as [[-> Ha] | [-> Ha]];
  destruct (hi_cases (W + s) d Hd) as [[-> Hb] | [-> Hb]];
  destruct Hd as [-> | ->]; destruct Hs as [-> | ->];
  match goal with |- context [if ?c then _ else _] => destruct c eqn:E end; lia.
Qed.

(* the value the code calls old_e?_windcnt and the tests made on it *)
Definition wc_nz (fr : fill_rule) (w : Z) : Prop :=
  match fr with EvenOdd => w = 1 \/ w = -1 | _ => w <> 0 end.

Lemma wc_ok_nz fr w W d : pm1 d -> wc_ok fr w W d = true -> wc_nz fr w.
Proof.
  intros Hd H. destruct fr; cbn [wc_ok wc_nz] in *; try lia;
  apply Z.eqb_eq in H; subst w; apply hi_nonzero, Hd.
Qed.

Lemma in01_pass fr w : wc_nz fr w ->
  ((wnorm fr w =? 0) || (wnorm fr w =? 1)) = pass fr w /\ (wnorm fr w =? 1) = pass fr w.
Proof.
  intros H. destruct fr; cbn [wc_nz wnorm pass] in *.
  - destruct H as [-> | ->]; split; reflexivity.
  - split; lia.
  - split; lia.
  - split; lia.
Qed.

Lemma cin_pos fr w2 : (0 <? wnorm fr w2) = cin fr w2.
Proof. destruct fr; cbn [wnorm cin]; lia. Qed.

Lemma cin_npos fr w2 : (wnorm fr w2 <=? 0) = negb (cin fr w2).
Proof. destruct fr; cbn [wnorm cin]; lia. Qed.

(* wind_cnt2 bookkeeping when the neighbour is of the other type *)
Lemma wc2_shift fr w2 W s : pm1 s -> wc2_ok fr w2 W = true ->
  wc2_ok fr (match fr with EvenOdd => (if w2 =? 0 then 1 else 0) | _ => w2 + s end) (W + s) = true.
Proof.
  intros Hs H. destruct fr; cbn [wc2_ok] in *; try lia.
  rewrite (odd_succ_pm W s Hs). apply Z.eqb_eq in H. subst w2. destruct (Z.odd W); reflexivity.
Qed.
