(* C10 -- AddPaths_ never leaves its Vertex array (model/VertexAlloc.v). *)
From Clip Require Import base.Geom model.VertexAlloc.
From Coq Require Import Arith Lia.
Local Open Scope nat_scope.

Ltac fin := repeat match goal with |- _ /\ _ => split end; try reflexivity; try assumption; try (cbn [length total_count] in *; lia).

Definition idx_ok (n : nat) (o : option nat) : Prop := match o with Some i => i < n | None => True end.
Definition slot_ok (n : nat) (s : slot) : Prop := idx_ok n (s_next s) /\ idx_ok n (s_prev s).
(* the array has n slots and every stored pointer points into it *)
Definition wf (n : nat) (a : arr) : Prop := length a = n /\ Forall (slot_ok n) a.

Lemma upd_some (a : arr) : forall i f, i < length a ->
  exists a', upd a i f = Some a' /\ length a' = length a /\
    (forall P : slot -> Prop, Forall P a -> (forall s, P s -> P (f s)) -> Forall P a').
Proof.
  induction a as [|s t IH]; intros i f Hi; [cbn [length] in Hi; lia|].
  destruct i as [|i]; cbn [upd].
  - exists (f s :: t). split; [reflexivity|]. split; [reflexivity|].
    intros P HP Hf. inversion HP; subst. constructor; auto.
  - cbn [length] in Hi. destruct (IH i f) as [t' [E [Hl HP]]]; [lia|].
    rewrite E. exists (s :: t'). split; [reflexivity|]. split; [cbn [length]; lia|].
    intros P HPa Hf. inversion HPa; subst. constructor; auto.
Qed.

Lemma upd_wf n a i f : wf n a -> i < n -> (forall s, slot_ok n s -> slot_ok n (f s)) ->
  exists a', upd a i f = Some a' /\ wf n a'.
Proof.
  intros [Hl Ha] Hi Hf. destruct (upd_some a i f) as [a' [E [Hl' HP]]]; [lia|].
  exists a'. split; [exact E|]. split; [lia|]. apply HP; assumption.
Qed.

Lemma rd_some n a i : wf n a -> i < n -> exists s, rd a i = Some s /\ slot_ok n s.
Proof.
  intros [Hl Ha] Hi. unfold rd. destruct (nth_error a i) as [s|] eqn:E.
  - exists s. split; [reflexivity|]. rewrite Forall_forall in Ha. apply Ha. eapply nth_error_In; eassumption.
  - apply nth_error_None in E. lia.
Qed.

Lemma set_next_ok n o s : idx_ok n o -> slot_ok n s -> slot_ok n (set_next o s).
Proof. intros Ho [_ Hp]. split; assumption. Qed.
Lemma set_prev_ok n o s : idx_ok n o -> slot_ok n s -> slot_ok n (set_prev o s).
Proof. intros Ho [Hn _]. split; assumption. Qed.
Lemma set_pt_prev_ok n q o s : idx_ok n o -> slot_ok n s -> slot_ok n (set_pt_prev q o s).
Proof. intros Ho [Hn _]. split; assumption. Qed.

(* the inner loop: with room for the remaining points it never fails, and consumes at most one slot per point *)
Lemma fill_ok n : forall l a curr prev_v cnt,
  wf n a -> curr + length l <= n -> idx_ok curr prev_v ->
  exists a' curr' prev' cnt', fill a curr prev_v cnt l = Some (a', curr', prev', cnt') /\
    wf n a' /\ curr <= curr' /\ curr' <= curr + length l /\ idx_ok curr' prev'.
Proof.
  induction l as [|p t IH]; intros a curr prev_v cnt Hwf Hroom Hpv.
  - cbn [fill]. exists a, curr, prev_v, cnt. cbn [length] in *. fin.
  - cbn [length] in Hroom. cbn [fill]. destruct prev_v as [pv|].
    + cbn [idx_ok] in Hpv.
      destruct (rd_some n a pv Hwf) as [s [Es _]]; [lia|]. rewrite Es.
      destruct (pt_eqb (s_pt s) p).
      * destruct (IH a curr (Some pv) cnt Hwf) as [a' [c' [p' [n' [E [W [H1 [H2 H3]]]]]]]]; [lia|exact Hpv|].
        exists a', c', p', n'. fin.
      * destruct (upd_wf n a pv (set_next (Some curr)) Hwf) as [a1 [E1 W1]]; [lia| |].
        { intros s'. apply set_next_ok. cbn [idx_ok]. lia. }
        rewrite E1.
        destruct (upd_wf n a1 curr (set_pt_prev p (Some pv)) W1) as [a2 [E2 W2]]; [lia| |].
        { intros s'. apply set_pt_prev_ok. cbn [idx_ok]. lia. }
        rewrite E2.
        destruct (IH a2 (S curr) (Some curr) (S cnt) W2) as [a' [c' [p' [n' [E [W [H1 [H2 H3]]]]]]]];
          [lia|cbn [idx_ok]; lia|].
        exists a', c', p', n'. fin.
    + destruct (upd_wf n a curr (set_pt_prev p None) Hwf) as [a2 [E2 W2]]; [lia| |].
      { intros s'. apply set_pt_prev_ok. exact I. }
      rewrite E2.
      destruct (IH a2 (S curr) (Some curr) (S cnt) W2) as [a' [c' [p' [n' [E [W [H1 [H2 H3]]]]]]]];
        [lia|cbn [idx_ok]; lia|].
      exists a', c', p', n'. fin.
Qed.

Lemma add_one_ok n is_open a v p : wf n a -> v + length p <= n ->
  exists a' v', add_one is_open a v p = Some (a', v') /\ wf n a' /\ v <= v' /\ v' <= v + length p.
Proof.
  intros Hwf Hroom. destruct p as [|q t].
  - exists a, v. cbn [add_one length]. fin.
  - remember (q :: t) as p eqn:Ep. assert (Hlen : 1 <= length p) by (subst p; cbn [length]; lia).
    assert (E0 : add_one is_open a v p =
      match upd a v (set_prev None) with
      | None => None
      | Some a0 =>
          match fill a0 v None 0 p with
          | None => None
          | Some (a1, curr, prev_v, _) =>
              match prev_v with
              | None => Some (a1, v)
              | Some pv =>
                  match rd a1 pv with
                  | None => None
                  | Some s =>
                      match s_prev s with
                      | None => Some (a1, v)
                      | Some pp =>
                          match rd a1 v with
                          | None => None
                          | Some s0 =>
                              let pv' := if negb is_open && pt_eqb (s_pt s) (s_pt s0) then pp else pv in
                              match upd a1 pv' (set_next (Some v)) with
                              | None => None
                              | Some a2 =>
                                  match upd a2 v (set_prev (Some pv')) with
                                  | None => None
                                  | Some a3 => Some (a3, curr)
                                  end
                              end
                          end
                      end
                  end
              end
          end
      end) by (subst p; reflexivity).
    rewrite E0. clear E0.
    destruct (upd_wf n a v (set_prev None) Hwf) as [a0 [Eu W0]]; [lia| |].
    { intros s'. apply set_prev_ok. exact I. }
    rewrite Eu.
    destruct (fill_ok n p a0 v None 0 W0 Hroom I) as [a1 [curr [prev' [cnt' [Ef [W1 [H1 [H2 H3]]]]]]]].
    rewrite Ef. destruct prev' as [pv|].
    + cbn [idx_ok] in H3.
      destruct (rd_some n a1 pv W1) as [s [Es [_ Hsp]]]; [lia|]. rewrite Es.
      destruct (s_prev s) as [pp|] eqn:Epp.
      * cbn [idx_ok] in Hsp.
        destruct (rd_some n a1 v W1) as [s0 [Es0 _]]; [lia|]. rewrite Es0. cbv zeta.
        set (pv' := if negb is_open && pt_eqb (s_pt s) (s_pt s0) then pp else pv).
        assert (Hpv' : pv' < n) by (unfold pv'; destruct (negb is_open && pt_eqb (s_pt s) (s_pt s0)); lia).
        destruct (upd_wf n a1 pv' (set_next (Some v)) W1 Hpv') as [a2 [E2 W2]].
        { intros s'. apply set_next_ok. cbn [idx_ok]. lia. }
        rewrite E2.
        destruct (upd_wf n a2 v (set_prev (Some pv')) W2) as [a3 [E3 W3]]; [lia| |].
        { intros s'. apply set_prev_ok. cbn [idx_ok]. exact Hpv'. }
        rewrite E3. exists a3, curr. fin.
      * exists a1, v. fin.
    + exists a1, v. fin.
Qed.

Lemma add_all_ok n is_open : forall ps a v, wf n a -> v + total_count ps <= n ->
  exists a' v', add_all is_open a v ps = Some (a', v') /\ wf n a' /\ v <= v' /\ v' <= v + total_count ps.
Proof.
  induction ps as [|p t IH]; intros a v Hwf Hroom.
  - exists a, v. cbn [add_all total_count] in *. fin.
  - cbn [total_count] in Hroom. cbn [add_all].
    destruct (add_one_ok n is_open a v p Hwf) as [a1 [v1 [E1 [W1 [H1 H2]]]]]; [lia|].
    rewrite E1. destruct (IH a1 v1 W1) as [a' [v' [E [W [H3 H4]]]]]; [lia|].
    exists a', v'. cbn [total_count]. fin.
Qed.

Lemma wf_repeat n : wf n (repeat slot0 n).
Proof.
  split; [apply repeat_length|]. apply Forall_forall. intros s Hs. apply repeat_spec in Hs. subst s.
  split; exact I.
Qed.

(* AddPaths_: for every list of paths (empty lists, empty / one-point / all-duplicate paths included) and both values of
   is_open, no read or write of a Vertex slot leaves `new Vertex[total_vertex_count]`; the slots consumed never exceed
   the number allocated; every next/prev pointer left in the array points into the array. *)
Theorem addpaths_fits (is_open : bool) (ps : list (list pt)) :
  exists a v, add_paths_alloc is_open ps = Some (a, v) /\
    length a = total_count ps /\ v <= total_count ps /\ Forall (slot_ok (total_count ps)) a.
Proof.
  unfold add_paths_alloc. cbv zeta. destruct (total_count ps =? 0) eqn:E.
  - apply Nat.eqb_eq in E. rewrite E. exists [], 0. fin. constructor.
  - destruct (add_all_ok (total_count ps) is_open ps (repeat slot0 (total_count ps)) 0 (wf_repeat _))
      as [a [v [Ea [[Hl Hf] [_ Hv]]]]]; [lia|].
    exists a, v. fin.
Qed.

(* the hypothesis of add_all_ok is needed: with one slot fewer than points the model does fail *)
Example addpaths_short_fails : add_all false (repeat slot0 2) 0 [[(0, 0); (4, 0); (4, 4)]]%Z = None.
Proof. reflexivity. Qed.
