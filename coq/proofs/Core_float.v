(* Exactness of binary64 arithmetic on small integers (|z| <= 2^53), for Coq's primitive floats.
   Bridge: Flocq's IEEE754.PrimFloat (Prim2B + *_equiv, which rest on the FloatAxioms of the standard
   library) and BinarySingleNaN (B*_correct).  Everything is stated through the relation

       fint f z  :=  f is finite and its real value is IZR z

   (not through Leibniz equality with [Z2F z]: products such as 0 * (-3) are -0, not +0). *)
From Coq Require Import ZArith Reals Floats Lia Lra Bool.
From Clip Require Import base.FloatModel.
From Flocq Require Import Core.Core IEEE754.BinarySingleNaN IEEE754.PrimFloat.
Local Open Scope Z_scope.

Definition fint (f : PrimFloat.float) (z : Z) : Prop :=
  BinarySingleNaN.is_finite (Prim2B f) = true /\ B2R (Prim2B f) = IZR z.

Definition small (z : Z) : Prop := Z.abs z <= 2 ^ 53.

Lemma fint_inj f x y : fint f x -> fint f y -> x = y.
Proof. intros [_ H1] [_ H2]. apply eq_IZR. congruence. Qed.

(* ------------------------------------------------------------------ representability *)
Lemma bpow53 : bpow radix2 53 = IZR (2 ^ 53).
Proof. rewrite <- IZR_Zpower by lia. reflexivity. Qed.

Lemma int_generic z : small z -> generic_format radix2 (fexp prec emax) (IZR z).
Proof.
  unfold small. intros H.
  destruct (Z.eq_dec (Z.abs z) (2 ^ 53)) as [E|NE].
  - assert (Hb : generic_format radix2 (fexp prec emax) (bpow radix2 53)).
    { apply generic_format_bpow. unfold fexp, emin, FLT_exp, prec, emax. lia. }
    destruct (Z.abs_eq_or_opp z) as [A|A]; rewrite A in E.
    + rewrite E, <- bpow53. exact Hb.
    + assert (z = - 2 ^ 53) as -> by lia.
      rewrite opp_IZR, <- bpow53. apply generic_format_opp. exact Hb.
  - apply generic_format_FLT.
    exists (Float radix2 z 0).
    + unfold F2R; cbn [Fnum Fexp bpow]. lra.
    + cbn [Fnum]. change (radix2 ^ prec) with (2 ^ 53). lia.
    + cbn [Fexp]. unfold emin, prec, emax. lia.
Qed.

Lemma round_int z : small z -> round radix2 (fexp prec emax) (round_mode mode_NE) (IZR z) = IZR z.
Proof. intros H. apply round_generic; [apply valid_rnd_round_mode|apply int_generic; exact H]. Qed.

Lemma small_lt_emax z : small z -> Rlt_bool (Rabs (IZR z)) (bpow radix2 emax) = true.
Proof.
  unfold small. intros H. apply Rlt_bool_true.
  rewrite <- abs_IZR.
  apply Rle_lt_trans with (IZR (2 ^ 53)); [apply IZR_le; exact H|].
  rewrite <- bpow53. apply bpow_lt. unfold emax. lia.
Qed.

(* ------------------------------------------------------------------ constructors *)
Lemma Z2F_B z : Prim2B (Z2F z) = binary_normalize prec emax Hprec Hmax mode_NE z 0 false.
Proof.
  unfold Z2F. rewrite binary_normalize_equiv.
  change (SF2Prim (B2SF ?b)) with (B2Prim b). apply Prim2B_B2Prim.
Qed.

Lemma Z2F_fint z : small z -> fint (Z2F z) z.
Proof.
  intros H. unfold fint. rewrite Z2F_B.
  pose proof (binary_normalize_correct prec emax Hprec Hmax mode_NE z 0 false) as C.
  cbv zeta in C.
  assert (E : F2R (Float radix2 z 0) = IZR z) by (unfold F2R; cbn [Fnum Fexp bpow]; lra).
  rewrite E, (round_int z H), (small_lt_emax z H) in C.
  destruct C as (C1 & C2 & _). split; assumption.
Qed.

Lemma fint_zero : fint 0%float 0.
Proof. apply (Z2F_fint 0). unfold small; cbn; lia. Qed.

Lemma fint_one : fint 1%float 1.
Proof. apply (Z2F_fint 1). unfold small; cbn; lia. Qed.

(* ------------------------------------------------------------------ arithmetic *)
Lemma fint_mul f g x y : fint f x -> fint g y -> small (x * y) -> fint (f * g)%float (x * y).
Proof.
  intros [Ff Rf] [Fg Rg] S. unfold fint. rewrite mul_equiv.
  pose proof (Bmult_correct prec emax Hprec Hmax mode_NE (Prim2B f) (Prim2B g)) as C.
  rewrite Rf, Rg, <- mult_IZR, (round_int _ S), (small_lt_emax _ S) in C.
  destruct C as (C1 & C2 & _). rewrite Ff, Fg in C2. split; assumption.
Qed.

Lemma fint_add f g x y : fint f x -> fint g y -> small (x + y) -> fint (f + g)%float (x + y).
Proof.
  intros [Ff Rf] [Fg Rg] S. unfold fint. rewrite add_equiv.
  pose proof (Bplus_correct prec emax Hprec Hmax mode_NE (Prim2B f) (Prim2B g) Ff Fg) as C.
  rewrite Rf, Rg, <- plus_IZR, (round_int _ S), (small_lt_emax _ S) in C.
  destruct C as (C1 & C2 & _). split; assumption.
Qed.

Lemma fint_sub f g x y : fint f x -> fint g y -> small (x - y) -> fint (f - g)%float (x - y).
Proof.
  intros [Ff Rf] [Fg Rg] S. unfold fint. rewrite sub_equiv.
  pose proof (Bminus_correct prec emax Hprec Hmax mode_NE (Prim2B f) (Prim2B g) Ff Fg) as C.
  rewrite Rf, Rg, <- minus_IZR, (round_int _ S), (small_lt_emax _ S) in C.
  destruct C as (C1 & C2 & _). split; assumption.
Qed.

(* ------------------------------------------------------------------ comparisons *)
Lemma fint_ltb f g x y : fint f x -> fint g y -> (f <? g)%float = (x <? y).
Proof.
  intros [Ff Rf] [Fg Rg]. rewrite ltb_equiv, (Bltb_correct _ _ _ _ Ff Fg), Rf, Rg.
  destruct (x <? y) eqn:E.
  - apply Rlt_bool_true, IZR_lt. lia.
  - apply Rlt_bool_false, IZR_le. lia.
Qed.

Lemma fint_leb f g x y : fint f x -> fint g y -> (f <=? g)%float = (x <=? y).
Proof.
  intros [Ff Rf] [Fg Rg]. rewrite leb_equiv, (Bleb_correct _ _ _ _ Ff Fg), Rf, Rg.
  destruct (x <=? y) eqn:E.
  - apply Rle_bool_true, IZR_le. lia.
  - apply Rle_bool_false, IZR_lt. lia.
Qed.

Lemma fint_eqb f g x y : fint f x -> fint g y -> (f =? g)%float = (x =? y).
Proof.
  intros [Ff Rf] [Fg Rg]. rewrite eqb_equiv, (Beqb_correct _ _ _ _ Ff Fg), Rf, Rg.
  destruct (x =? y) eqn:E.
  - apply Req_bool_true. f_equal. lia.
  - apply Req_bool_false. intros H. apply eq_IZR in H. lia.
Qed.

(* multiplication by 1/2 of an even integer (Area's final [a * 0.5]) is exact as well *)
Lemma small_mono x y : small y -> Z.abs x <= Z.abs y -> small x.
Proof. unfold small. lia. Qed.

Example fint_sat : fint (Z2F 3 * Z2F (-5) - Z2F 7)%float (3 * -5 - 7).
Proof.
  apply fint_sub; [apply fint_mul|..]; try apply Z2F_fint; unfold small; cbn; lia.
Qed.
