(* ScaleFloat.v -- binary64 exactness of the scaling arithmetic, through Flocq's formalisation of IEEE-754
   (Flocq.IEEE754.BinarySingleNaN / PrimFloat, which relate Coq's primitive floats to real numbers).
   Results:
     F2Z_round_nearest    FloatModel.F2Z_round is Flocq's ZnearestA (nearest integer, ties away from zero) of the real value
     mul_pow2_exact       multiplying a double by 2^k is exact when it does not underflow/overflow
     Z2F_exact            an integer of magnitude < 2^53 converts exactly
     scale_pow2_exact / descale_pow2_exact / range_guard_coord   (used by Properties_C16)
   Theorems here depend on the standard axioms of Coq's Reals library (and the FloatAxioms that specify the primitives). *)
From Coq Require Import ZArith Reals Floats SpecFloat Lia Lra Psatz Bool.
From Flocq Require Import Core.Core IEEE754.BinarySingleNaN IEEE754.PrimFloat.
From Clip Require Import base.FloatModel.
From Clip Require Import model.Scale.
From Clip Require Import proofs.ScaleProofs.
Local Open Scope Z_scope.

Local Instance Hprec64 : FLX.Prec_gt_0 prec := eq_refl _.
Local Instance Hmax64 : Prec_lt_emax prec emax := eq_refl _.

Notation fexp64 := (SpecFloat.fexp prec emax).
Notation rnd_A := (Znearest (Z.leb 0)).        (* Flocq's ZnearestA: nearest integer, ties away from zero *)
Notation bfin := (BinarySingleNaN.is_finite).
Notation R_of x := (B2R (Prim2B x)).           (* the real number a finite double denotes *)

(* ---------- decode <-> Flocq ---------- *)
Lemma decode_finite x s m e : F_decode x = Some (s, m, e) ->
  bfin (Prim2B x) = true /\ R_of x = F2R (Float radix2 (cond_Zopp s m) e).
Proof.
  unfold F_decode. rewrite <- B2SF_Prim2B.
  destruct (Prim2B x) as [sx|sx| |sx mx ex Hx]; cbn [B2SF]; intros H; inversion H; subst; split; try reflexivity.
  cbn [B2R]. destruct s; cbn [cond_Zopp]; rewrite ?Z.opp_0, F2R_0; reflexivity.
Qed.

Lemma finite_decode x : bfin (Prim2B x) = true -> exists s m e, F_decode x = Some (s, m, e).
Proof.
  unfold F_decode. rewrite <- B2SF_Prim2B.
  destruct (Prim2B x) as [sx|sx| |sx mx ex Hx]; cbn [B2SF BinarySingleNaN.is_finite]; intros H; try discriminate;
    eexists; eexists; eexists; reflexivity.
Qed.

Lemma decode_nonneg x s m e : F_decode x = Some (s, m, e) -> 0 <= m.
Proof.
  unfold F_decode. destruct (Prim2SF x); intros H; inversion H; subst; lia.
Qed.

(* ---------- round half away from zero ---------- *)

(* nearest integer of m / 2^n for m >= 0, any tie rule that rounds up on non-negative floors *)
Lemma Znearest_dyadic_pos (choice : Z -> bool) m n :
  (forall t, 0 <= t -> choice t = true) -> 0 <= m -> 0 < n ->
  Znearest choice (IZR m / IZR (2 ^ n)) = (m + 2 ^ (n - 1)) / 2 ^ n.
Proof.
  intros Hch Hm Hn.
  set (d := 2 ^ n). set (h := 2 ^ (n - 1)).
  assert (Hd : d = 2 * h). { unfold d, h. replace n with (1 + (n - 1)) at 1 by lia. rewrite Z.pow_add_r by lia. reflexivity. }
  assert (Hh : 0 < h) by (unfold h; apply Z.pow_pos_nonneg; lia).
  assert (Hdpos : 0 < d) by lia.
  pose proof (Z.div_mod m d ltac:(lia)) as Hdm.
  pose proof (Z.mod_pos_bound m d Hdpos) as Hmod.
  set (q := m / d) in *. set (r := m mod d) in *.
  assert (Hq : 0 <= q) by (unfold q; apply Z.div_pos; lia).
  assert (HdR : (0 < IZR d)%R) by (apply IZR_lt; lia).
  assert (Hfloor : Zfloor (IZR m / IZR d) = q) by (unfold q; apply Zfloor_div; lia).
  assert (Hx : (IZR m / IZR d - IZR q = IZR r / IZR d)%R).
  { rewrite Hdm. rewrite plus_IZR, mult_IZR. field. lra. }
  unfold Znearest. rewrite Hfloor, Hx.
  assert (Hres : (m + h) / d = if r <? h then q else q + 1).
  { destruct (r <? h) eqn:E.
    - apply Z.ltb_lt in E. symmetry. apply Z.div_unique with (r + h); lia.
    - apply Z.ltb_ge in E. symmetry. apply Z.div_unique with (r - h); lia. }
  rewrite Hres.
  assert (Hhalf : (/ 2 = IZR h / IZR d)%R).
  { rewrite Hd, mult_IZR. field. apply Rgt_not_eq. apply IZR_lt. lia. }
  rewrite Hhalf.
  assert (Hcmp : Rcompare (IZR r / IZR d) (IZR h / IZR d) = Rcompare (IZR r) (IZR h)).
  { unfold Rdiv. apply Rcompare_mult_r. apply Rinv_0_lt_compat; exact HdR. }
  rewrite Hcmp, Rcompare_IZR.
  assert (Hceil : r <> 0 -> Zceil (IZR m / IZR d) = q + 1).
  { intros Hr. rewrite Zceil_floor_neq; [rewrite Hfloor; reflexivity|].
    rewrite Hfloor. intro E. rewrite E in Hx. replace (IZR q - IZR q)%R with 0%R in Hx by ring.
    assert (IZR r = 0)%R.
    { apply Rmult_eq_reg_r with (/ IZR d)%R; [|apply Rgt_not_eq, Rinv_0_lt_compat; exact HdR].
      unfold Rdiv in Hx. rewrite <- Hx. ring. }
    apply eq_IZR in H. contradiction. }
  destruct (Z.compare_spec r h) as [E|E|E].
  - (* tie *) rewrite (Hch q Hq). replace (r <? h) with false by (symmetry; apply Z.ltb_ge; lia). apply Hceil. lia.
  - replace (r <? h) with true by (symmetry; apply Z.ltb_lt; lia). reflexivity.
  - replace (r <? h) with false by (symmetry; apply Z.ltb_ge; lia). apply Hceil. lia.
Qed.

Lemma Znearest_IZR_id (choice : Z -> bool) n : Znearest choice (IZR n) = n.
Proof. apply Znearest_imp. replace (IZR n - IZR n)%R with 0%R by ring. rewrite Rabs_R0. lra. Qed.

Lemma rnd_A_opp x : rnd_A (- x) = - rnd_A x.
Proof.
  rewrite Znearest_opp. f_equal.
  unfold Znearest. destruct (Rcompare (x - IZR (Zfloor x)) (/ 2)) eqn:E; try reflexivity.
  (* tie: both rules round the same way *)
  destruct (Z.leb_spec 0 (Zfloor x)) as [H|H].
  - replace (0 <=? - (Zfloor x + 1)) with false by (symmetry; apply Z.leb_gt; lia). reflexivity.
  - replace (0 <=? - (Zfloor x + 1)) with true by (symmetry; apply Z.leb_le; lia). reflexivity.
Qed.

(* FloatModel.F2Z_round (std::round followed by the exact cast) is ZnearestA of the real value *)
Theorem F2Z_round_nearest y s m e : F_decode y = Some (s, m, e) -> F2Z_round y = Some (rnd_A (R_of y)).
Proof.
  intros Hd. pose proof (decode_nonneg _ _ _ _ Hd) as Hm.
  destruct (decode_finite _ _ _ _ Hd) as [_ HR]. rewrite HR.
  unfold F2Z_round. rewrite Hd. f_equal.
  assert (Hpos : rnd_A (F2R (Float radix2 m e)) = if 0 <=? e then m * 2 ^ e else (m + 2 ^ (- e - 1)) / 2 ^ (- e)).
  { destruct (Z.leb_spec 0 e) as [He|He].
    - unfold F2R; cbn [Fnum Fexp].
      replace (IZR m * bpow radix2 e)%R with (IZR (m * 2 ^ e)).
      + apply Znearest_IZR_id.
      + rewrite mult_IZR. f_equal. exact (IZR_Zpower radix2 e He).
    - unfold F2R; cbn [Fnum Fexp].
      replace (IZR m * bpow radix2 e)%R with (IZR m / IZR (2 ^ (- e)))%R.
      + rewrite Znearest_dyadic_pos; [reflexivity | intros t Ht; apply Z.leb_le; exact Ht | exact Hm | lia].
      + unfold Rdiv. f_equal. change (2 ^ (- e)) with (radix2 ^ (- e)). rewrite (IZR_Zpower radix2 (- e)) by lia.
        rewrite <- bpow_opp. f_equal. lia. }
  destruct s; cbn [cond_Zopp apply_sign].
  - rewrite F2R_Zopp, rnd_A_opp, Hpos. reflexivity.
  - symmetry. exact Hpos.
Qed.

(* ---------- multiplication by a power of two is exact ---------- *)

Lemma fexp64_eq e : fexp64 e = Z.max (e - 53) (- 1074).
Proof. reflexivity. Qed.

(* X * 2^k is representable as soon as the exponent of X's canonical representation stays >= emin after the shift *)
Lemma generic_format_mult_bpow (v : R) k :
  generic_format radix2 fexp64 v ->
  (v <> 0%R -> - 1074 <= cexp radix2 fexp64 v + k) ->
  generic_format radix2 fexp64 (v * bpow radix2 k).
Proof.
  intros Hg Hk.
  destruct (Req_dec v 0) as [Hz|Hz].
  - rewrite Hz, Rmult_0_l. apply generic_format_0.
  - specialize (Hk Hz).
    unfold generic_format in Hg.
    set (M := Ztrunc (scaled_mantissa radix2 fexp64 v)) in *.
    set (E := cexp radix2 fexp64 v) in *.
    assert (Hv : (v * bpow radix2 k)%R = F2R (Float radix2 M (E + k))).
    { rewrite Hg at 1. unfold F2R; cbn [Fnum Fexp]. rewrite bpow_plus. ring. }
    rewrite Hv. apply generic_format_F2R. intros _.
    rewrite <- Hv. unfold cexp. rewrite mag_mult_bpow by exact Hz.
    unfold E, cexp in *. rewrite !fexp64_eq in *. lia.
Qed.

Lemma Bmult_pow2_exact (X P : binary_float prec emax) k :
  bfin X = true -> bfin P = true -> B2R P = bpow radix2 k ->
  (B2R X <> 0%R -> - 1074 <= cexp radix2 fexp64 (B2R X) + k) ->
  (Rabs (B2R X * bpow radix2 k) < bpow radix2 emax)%R ->
  bfin (Bmult mode_NE X P) = true /\ B2R (Bmult mode_NE X P) = (B2R X * bpow radix2 k)%R.
Proof.
  intros FX FP HP Hk Hov.
  pose proof (Bmult_correct prec emax Hprec64 Hmax64 mode_NE X P) as H.
  rewrite HP in H.
  assert (Hr : round radix2 fexp64 (round_mode mode_NE) (B2R X * bpow radix2 k) = (B2R X * bpow radix2 k)%R).
  { apply round_generic; [apply valid_rnd_round_mode|].
    apply generic_format_mult_bpow; [apply generic_format_B2R|exact Hk]. }
  rewrite Hr in H. rewrite Rlt_bool_true in H by exact Hov.
  destruct H as [H1 [H2 _]]. split; [rewrite H2, FX, FP; reflexivity|exact H1].
Qed.

(* canonical exponent of a decoded double *)
Lemma decode_cexp x s m e : F_decode x = Some (s, m, e) -> R_of x <> 0%R -> cexp radix2 fexp64 (R_of x) = e.
Proof.
  unfold F_decode. rewrite <- B2SF_Prim2B.
  destruct (Prim2B x) as [sx|sx| |sx mx ex Hx]; cbn [B2SF B2R]; intros H Hnz; inversion H; subst;
    try (exfalso; apply Hnz; reflexivity).
  apply andb_prop in Hx. destruct Hx as [Hc _].
  pose proof (canonical_canonical_mantissa prec emax s mx e Hc) as Hcan.
  unfold canonical in Hcan. cbn [Fexp] in Hcan. symmetry. exact Hcan.
Qed.

Lemma pow2f_R k : - 27 <= k <= 28 -> bfin (Prim2B (pow2f k)) = true /\ R_of (pow2f k) = bpow radix2 k.
Proof.
  intros Hk. destruct (decode_finite _ _ _ _ (pow2f_decode k Hk)) as [Hf HR]. split; [exact Hf|].
  rewrite HR. cbn [cond_Zopp]. unfold F2R; cbn [Fnum Fexp].
  change (2 ^ 52) with (radix2 ^ 52). rewrite (IZR_Zpower radix2 52) by lia.
  rewrite <- bpow_plus. f_equal. lia.
Qed.

Theorem mul_pow2_exact x k s m e :
  F_decode x = Some (s, m, e) -> - 27 <= k <= 28 -> - 1074 <= e + k ->
  (Rabs (R_of x * bpow radix2 k) < bpow radix2 emax)%R ->
  bfin (Prim2B (x * pow2f k)) = true /\ R_of (x * pow2f k) = (R_of x * bpow radix2 k)%R.
Proof.
  intros Hd Hk He Hov.
  destruct (decode_finite _ _ _ _ Hd) as [Hf _].
  destruct (pow2f_R k Hk) as [Pf PR].
  rewrite mul_equiv. apply Bmult_pow2_exact; try assumption.
  intros Hnz. rewrite (decode_cexp _ _ _ _ Hd Hnz). exact He.
Qed.

(* ---------- int64 -> double ---------- *)
Lemma Prim2B_Z2F z : Prim2B (Z2F z) = BinarySingleNaN.binary_normalize prec emax Hprec Hmax mode_NE z 0 false.
Proof.
  unfold Z2F. change 53 with prec. change 1024 with emax.
  rewrite binary_normalize_equiv. fold (B2Prim (BinarySingleNaN.binary_normalize prec emax Hprec Hmax mode_NE z 0 false)).
  apply Prim2B_B2Prim.
Qed.

Theorem Z2F_exact z : Z.abs z < 2 ^ 53 -> bfin (Prim2B (Z2F z)) = true /\ R_of (Z2F z) = IZR z.
Proof.
  intros Hz. rewrite Prim2B_Z2F.
  pose proof (BinarySingleNaN.binary_normalize_correct prec emax Hprec Hmax mode_NE z 0 false) as H. cbv zeta in H.
  assert (HF : F2R (Float radix2 z 0) = IZR z) by (unfold F2R; cbn [Fnum Fexp bpow]; ring).
  rewrite HF in H.
  assert (Habs : (Rabs (IZR z) < bpow radix2 53)%R).
  { rewrite <- abs_IZR. change (bpow radix2 53) with (IZR (2 ^ 53)). apply IZR_lt. exact Hz. }
  assert (Hg : generic_format radix2 fexp64 (IZR z)).
  { rewrite <- HF. apply generic_format_F2R. intros Hnz. rewrite HF.
    unfold cexp. rewrite fexp64_eq.
    assert (mag radix2 (IZR z) <= 53)%Z.
    { apply mag_le_bpow; [apply IZR_neq; exact Hnz|exact Habs]. }
    lia. }
  rewrite round_generic in H by (try apply valid_rnd_round_mode; exact Hg).
  rewrite Rlt_bool_true in H.
  - destruct H as [H1 [H2 _]]. split; assumption.
  - eapply Rlt_trans; [exact Habs|]. apply bpow_lt. reflexivity.
Qed.

(* ---------- bounds on the nearest integer ---------- *)
Lemma rnd_A_bounds (v : R) (a b : Z) : (IZR a <= v <= IZR b)%R -> a <= rnd_A v <= b.
Proof.
  intros [Ha Hb]. split.
  - apply Z.le_trans with (Zfloor v); [apply Zfloor_lub; exact Ha|apply Znearest_ge_floor].
  - apply Z.le_trans with (Zceil v); [apply Znearest_le_ceil|apply Zceil_glb; exact Hb].
Qed.

(* ---------- the three results used by Properties_C16 ---------- *)

(* scaling by a power of two: the product is exact, the integer is the real product rounded half away from zero *)
Theorem scale_pow2_exact x k s m e :
  F_decode x = Some (s, m, e) -> - 27 <= k <= 28 -> - 1074 <= e + k ->
  (Rabs (R_of x * bpow radix2 k) <= bpow radix2 52)%R ->
  R_of (x * pow2f k) = (R_of x * bpow radix2 k)%R /\
  scale_coord (pow2f k) x = Some (rnd_A (R_of x * bpow radix2 k)).
Proof.
  intros Hd Hk He Hb.
  assert (Hov : (Rabs (R_of x * bpow radix2 k) < bpow radix2 emax)%R).
  { eapply Rle_lt_trans; [exact Hb|]. apply bpow_lt. reflexivity. }
  destruct (mul_pow2_exact x k s m e Hd Hk He Hov) as [Hf HR].
  split; [exact HR|].
  destruct (finite_decode _ Hf) as [s' [m' [e' Hd']]].
  unfold scale_coord, round_cast. rewrite (F2Z_round_nearest _ _ _ _ Hd'), HR.
  set (v := (R_of x * bpow radix2 k)%R) in *.
  assert (Hrange : - 2 ^ 52 <= rnd_A v <= 2 ^ 52).
  { apply rnd_A_bounds. change (bpow radix2 52) with (IZR (2 ^ 52)) in Hb.
    apply Rabs_le_inv in Hb. rewrite opp_IZR. exact Hb. }
  replace (in_i64 (rnd_A v)) with true; [reflexivity|].
  symmetry. unfold in_i64. apply andb_true_iff. split; [apply Z.leb_le|apply Z.ltb_lt]; lia.
Qed.

(* descaling an integer of magnitude < 2^53 by 2^-k is exact *)
Theorem descale_pow2_exact z k :
  Z.abs z < 2 ^ 53 -> - 28 <= k <= 27 ->
  bfin (Prim2B (descale_coord (pow2f (- k)) z)) = true /\
  R_of (descale_coord (pow2f (- k)) z) = (IZR z * bpow radix2 (- k))%R.
Proof.
  intros Hz Hk. unfold descale_coord.
  destruct (Z2F_exact z Hz) as [Hf HR].
  destruct (finite_decode _ Hf) as [s [m [e Hd]]].
  rewrite <- HR.
  assert (Hcexp : R_of (Z2F z) <> 0%R -> - 52 <= e).
  { intros Hnz. rewrite <- (decode_cexp _ _ _ _ Hd Hnz). unfold cexp. rewrite fexp64_eq.
    assert (1 <= mag radix2 (R_of (Z2F z)))%Z.
    { apply mag_ge_bpow. rewrite HR in *. cbn [bpow Z.sub]. rewrite <- abs_IZR. apply IZR_le.
      assert (z <> 0) by (intro E; apply Hnz; rewrite E; reflexivity). lia. }
    lia. }
  destruct (Req_dec (R_of (Z2F z)) 0) as [Hzero|Hnz].
  - (* zero: any exponent works *)
    rewrite mul_equiv. destruct (pow2f_R (- k) ltac:(lia)) as [Pf PR].
    apply Bmult_pow2_exact; try assumption.
    + intros C; contradiction.
    + rewrite Hzero, Rmult_0_l, Rabs_R0. apply bpow_gt_0.
  - apply (mul_pow2_exact (Z2F z) (- k) s m e Hd); [lia|specialize (Hcexp Hnz); lia|].
    rewrite HR, Rabs_mult. rewrite (Rabs_pos_eq (bpow radix2 (- k))) by apply bpow_ge_0.
    apply Rlt_le_trans with (bpow radix2 53 * bpow radix2 (- k))%R.
    + apply Rmult_lt_compat_r; [apply bpow_gt_0|].
      rewrite <- abs_IZR. change (bpow radix2 53) with (IZR (2 ^ 53)). apply IZR_lt. exact Hz.
    + rewrite <- bpow_plus. apply bpow_le. unfold emax. lia.
Qed.

(* any scale: the integer is the *double* product rounded half away from zero (double rounding made explicit) *)
Theorem scale_any_nearest s x z : scale_coord s x = Some z -> z = rnd_A (R_of (x * s)).
Proof.
  unfold scale_coord, round_cast. destruct (F2Z_round (x * s)) as [w|] eqn:E; [|discriminate].
  destruct (in_i64 w); [|discriminate]. intros H; inversion H; subst.
  unfold F2Z_round in E. destruct (F_decode (x * s)) as [[[s' m'] e']|] eqn:Hd; [|discriminate].
  pose proof (F2Z_round_nearest _ _ _ _ Hd) as H2. unfold F2Z_round in H2. rewrite Hd in H2.
  rewrite H2 in E. inversion E. reflexivity.
Qed.

(* the range test of ScalePaths, coordinate-wise: a scaled double within [min_coord, max_coord] converts without
   undefined behaviour, to an integer within +-2^61 *)
Lemma max_coord_R : bfin (Prim2B max_coord) = true /\ R_of max_coord = IZR (2 ^ 61).
Proof.
  assert (Hd : F_decode max_coord = Some (false, 2 ^ 52, 9)) by (vm_compute; reflexivity).
  destruct (decode_finite _ _ _ _ Hd) as [Hf HR]. split; [exact Hf|]. rewrite HR.
  cbn [cond_Zopp]. unfold F2R; cbn [Fnum Fexp]. change (bpow radix2 9) with (IZR (2 ^ 9)). rewrite <- mult_IZR. reflexivity.
Qed.

Lemma min_coord_R : bfin (Prim2B min_coord) = true /\ R_of min_coord = IZR (- 2 ^ 61).
Proof.
  assert (Hd : F_decode min_coord = Some (true, 2 ^ 52, 9)) by (vm_compute; reflexivity).
  destruct (decode_finite _ _ _ _ Hd) as [Hf HR]. split; [exact Hf|]. rewrite HR.
  cbn [cond_Zopp]. unfold F2R; cbn [Fnum Fexp]. change (bpow radix2 9) with (IZR (2 ^ 9)). rewrite <- mult_IZR. reflexivity.
Qed.

Theorem range_guard_coord s x :
  fleb min_coord (x * s) = true -> fleb (x * s) max_coord = true ->
  exists z, scale_coord s x = Some z /\ - 2 ^ 61 <= z <= 2 ^ 61.
Proof.
  intros Hlo Hhi. set (y := (x * s)%float) in *.
  destruct max_coord_R as [Fmax Rmax]. destruct min_coord_R as [Fmin Rmin].
  assert (Fy : bfin (Prim2B y) = true).
  { unfold fleb in *. rewrite leb_equiv in Hlo, Hhi. unfold Bleb in *.
    destruct (Prim2B y) as [sy|sy| |sy my ey Hy]; try reflexivity.
    - destruct sy.
      + revert Hlo. destruct (Prim2B min_coord) as [sa|sa| |sa ma ea Ha] eqn:E; try discriminate; cbn; try (destruct sa; discriminate).
      + revert Hhi. destruct (Prim2B max_coord) as [sa|sa| |sa ma ea Ha] eqn:E; try discriminate; cbn; try (destruct sa; discriminate).
    - revert Hhi. cbn. discriminate. }
  unfold fleb in *. rewrite leb_equiv in Hlo, Hhi.
  rewrite Bleb_correct in Hlo, Hhi by assumption.
  destruct (finite_decode _ Fy) as [s' [m' [e' Hd]]].
  exists (rnd_A (R_of y)).
  assert (Hb : - 2 ^ 61 <= rnd_A (R_of y) <= 2 ^ 61).
  { apply rnd_A_bounds. rewrite <- Rmin, <- Rmax. split.
    - revert Hlo. case Rle_bool_spec; [tauto|discriminate].
    - revert Hhi. case Rle_bool_spec; [tauto|discriminate]. }
  split; [|exact Hb].
  unfold scale_coord, round_cast. fold y. rewrite (F2Z_round_nearest _ _ _ _ Hd).
  replace (in_i64 (rnd_A (R_of y))) with true; [reflexivity|].
  symmetry. unfold in_i64. apply andb_true_iff. split; [apply Z.leb_le|apply Z.ltb_lt]; lia.
Qed.

(* ---------- ClipperD: both directions are exact ---------- *)
Theorem clipperD_scale_exact p x s m e :
  - 8 <= p <= 8 -> F_decode x = Some (s, m, e) ->
  let k := log2_above_pow10 p in
  - 1074 <= e + k ->
  (Rabs (R_of x * bpow radix2 k) <= bpow radix2 52)%R ->
  scaleD_spec p = pow2f k /\
  R_of (x * scaleD_spec p) = (R_of x * bpow radix2 k)%R /\
  scale_coord (scaleD_spec p) x = Some (rnd_A (R_of x * bpow radix2 k)).
Proof.
  intros Hp Hd k He Hb. pose proof (log2_above_range p Hp) as Hk. fold k in Hk.
  split; [reflexivity|]. unfold scaleD_spec. fold k.
  apply (scale_pow2_exact x k s m e Hd); try assumption; lia.
Qed.

Theorem clipperD_descale_exact p z :
  - 8 <= p <= 8 -> Z.abs z < 2 ^ 53 ->
  let k := log2_above_pow10 p in
  bfin (Prim2B (descale_coord (inv_of (scaleD_spec p)) z)) = true /\
  R_of (descale_coord (inv_of (scaleD_spec p)) z) = (IZR z * bpow radix2 (- k))%R.
Proof.
  intros Hp Hz k. pose proof (log2_above_range p Hp) as Hk. fold k in Hk.
  rewrite (invD_exact p Hp). fold k. apply descale_pow2_exact; [exact Hz|lia].
Qed.

(* hypotheses are satisfiable: 0.00390625 * 2^7 = 0.5 rounds to 1 *)
Example clipperD_scale_exact_sat :
  exists x s m e, F_decode x = Some (s, m, e) /\ - 1074 <= e + log2_above_pow10 2 /\
                  scale_coord (scaleD_spec 2) x = Some 1.
Proof. exists 0.00390625%float. eexists. eexists. eexists. repeat split; vm_compute; try reflexivity. discriminate. Qed.
