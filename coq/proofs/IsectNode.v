(* C03 ("every vertex is within 2 units of an input edge"), the out-of-scanbeam repair of AddNewIntersectNode
   (model/IsectNode.v over the regenerated leaves): whenever the repair fires, the point stored in the IntersectNode is,
   per axis, within 1/2 + 2^-25 of a point of one of the two edges (|coordinates| <= 2^25), whichever of the six repair
   branches is taken; in the clamp branches its y is the top or the bottom of the scanbeam. *)
From Coq Require Import ZArith Reals Floats Lia Lra Bool.
From Clip Require Import base.Geom base.FloatModel base.CSem gen.Gen_core gen.Gen_engine model.CoreSpec model.IsectNode
  proofs.Core_float proofs.Core_isect proofs.Core_isect_acc proofs.Core_bbox proofs.Core_closest.
Local Open Scope Z_scope.

Definition near_edge (e : Active) (r : pt) : Prop :=
  exists t : R, (0 <= t <= 1)%R /\
    (Rabs (IZR (px r) - (IZR (px (bot e)) + t * IZR (px (top e) - px (bot e)))) <= / 2 + / IZR (2 ^ 25))%R /\
    (Rabs (IZR (py r) - (IZR (py (bot e)) + t * IZR (py (top e) - py (bot e)))) <= / 2 + / IZR (2 ^ 25))%R.

Definition edge_ok (e : Active) : Prop :=
  dx e = GetDx (bot e) (top e) /\ pt_le (2 ^ 25) (bot e) /\ pt_le (2 ^ 25) (top e).

Lemma eps_pos : (0 <= / 2 + / IZR (2 ^ 25))%R.
Proof. assert (0 < / IZR (2 ^ 25))%R by (apply Rinv_0_lt_compat, IZR_lt; lia). lra. Qed.

(* a horizontal edge has |dx| = DBL_MAX > 100: the clamp branches only see non-horizontal edges *)
Lemma getdx_horizontal b t : py b = py t -> (hundred <? PrimFloat.abs (GetDx b t))%float = true.
Proof.
  intros E. unfold GetDx. cbv zeta. replace (py t - py b) with 0 by lia.
  change (negb (Z2F 0 =? 0)%float) with false. cbv iota.
  destruct (px b <? px t); vm_compute; reflexivity.
Qed.

Lemma closest_near (e : Active) (ip : pt) :
  edge_ok e -> pt_le (2 ^ 25) ip -> near_edge e (GetClosestPointOnSegment ip (bot e) (top e)).
Proof.
  intros (_ & Bb & Bt) Bi.
  destruct ((px (bot e) =? px (top e)) && (py (bot e) =? py (top e))) eqn:NE.
  - unfold GetClosestPointOnSegment. rewrite NE. exists 0%R. pose proof eps_pos.
    rewrite !Rmult_0_l, !Rplus_0_r, !Rabs_sub_self. repeat split; lra.
  - exact (closest_point_near_segment ip (bot e) (top e) Bi Bb Bt NE).
Qed.

Lemma clamp_near (e : Active) (y : Z) :
  edge_ok e -> (hundred <? PrimFloat.abs (dx e))%float = false ->
  py (top e) <= y <= py (bot e) -> near_edge e (TopX e y, y).
Proof.
  intros (Hdx & Bb & Bt) A Hy.
  assert (NH : py (top e) <> py (bot e)).
  { intros E. rewrite Hdx, getdx_horizontal in A by (symmetry; exact E). discriminate A. }
  pose proof (topx_accuracy_small e y Hdx Bb Bt NH (or_introl Hy)) as T.
  set (D := px (top e) - px (bot e)) in *. set (H := py (top e) - py (bot e)) in *. set (k := y - py (bot e)) in *.
  assert (H0 : H < 0) by (unfold H; lia).
  assert (RH : (IZR H < 0)%R) by (apply IZR_lt; exact H0).
  assert (Hk : H <= k <= 0) by (unfold H, k; lia).
  exists (IZR k / IZR H)%R. split; [|split].
  - destruct Hk as [K1 K2]. apply IZR_le in K1, K2.
    assert (I : (/ IZR H < 0)%R) by (apply Rinv_lt_0_compat; exact RH).
    unfold Rdiv. split; [nra|].
    apply Rmult_le_reg_r with (- IZR H)%R; [lra|].
    replace (IZR k * / IZR H * - IZR H)%R with (- IZR k)%R by (field; lra). lra.
  - unfold px, py in *. cbn [fst snd] in *. fold D.
    replace (IZR k / IZR H * IZR D)%R with (IZR D / IZR H * IZR k)%R by (field; lra). exact T.
  - unfold px, py in *. cbn [fst snd] in *. fold H.
    replace (IZR (snd (bot e)) + IZR k / IZR H * IZR H)%R with (IZR (snd (bot e)) + IZR k)%R by (field; lra).
    unfold k. rewrite minus_IZR.
    replace (IZR y - (IZR (snd (bot e)) + (IZR y - IZR (snd (bot e)))))%R with 0%R by ring.
    rewrite Rabs_R0. exact eps_pos.
Qed.

Theorem repaired_near_edge (e1 e2 : Active) (bot_y top_y : Z) (ip : pt) :
  edge_ok e1 -> edge_ok e2 -> pt_le (2 ^ 25) ip ->
  py (top e1) <= top_y -> py (top e2) <= top_y -> top_y <= bot_y -> bot_y <= py (bot e1) -> bot_y <= py (bot e2) ->
  repair_kind e1 e2 bot_y top_y ip <> NoRepair ->
  let r := apply_repair e1 e2 bot_y top_y ip (repair_kind e1 e2 bot_y top_y ip) in
  near_edge e1 r \/ near_edge e2 r.
Proof.
  intros O1 O2 Bi T1 T2 TB B1 B2 NR. cbv zeta. revert NR. unfold repair_kind. cbv zeta.
  destruct ((bot_y <? py ip) || (py ip <? top_y)); [|intros NR; contradiction NR; reflexivity]. intros _.
  destruct (hundred <? PrimFloat.abs (dx e1))%float eqn:A1; destruct (hundred <? PrimFloat.abs (dx e2))%float eqn:A2;
    cbn [andb apply_repair].
  - destruct (PrimFloat.abs (dx e2) <? PrimFloat.abs (dx e1))%float; [left|right]; apply closest_near; assumption.
  - left. apply closest_near; assumption.
  - right. apply closest_near; assumption.
  - destruct (PrimFloat.abs (dx e1) <? PrimFloat.abs (dx e2))%float; [left|right];
      (apply clamp_near; [assumption|assumption|destruct (py ip <? top_y); lia]).
Qed.

(* in the clamp branches the repaired point lies on the top or the bottom scanline of the scanbeam *)
Theorem repaired_clamp_in_scanbeam (e1 e2 : Active) (bot_y top_y : Z) (ip : pt) to_top first :
  top_y <= bot_y -> repair_kind e1 e2 bot_y top_y ip = Clamp to_top first ->
  top_y <= py (apply_repair e1 e2 bot_y top_y ip (Clamp to_top first)) <= bot_y.
Proof.
  intros TB _. cbn [apply_repair]. unfold py. cbn [snd]. destruct to_top; lia.
Qed.

(* default build: the raw point is bounded (it lies in the bounding box of e1, or is (curr_x, top_y) for parallel edges),
   so the hypothesis on ip of [repaired_near_edge] is met *)
Theorem raw_ip_lo_bounded (e1 e2 : Active) (top_y : Z) :
  edge_ok e1 -> edge_ok e2 -> Z.abs top_y <= 2 ^ 25 -> Z.abs (curr_x e1) <= 2 ^ 25 ->
  pt_le (2 ^ 25) (raw_ip false e1 e2 top_y).
Proof.
  intros (_ & Bb1 & Bt1) (_ & Bb2 & Bt2) BT BC. unfold raw_ip.
  destruct (fst (GetSegmentIntersectPt_lo (bot e1) (top e1) (bot e2) (top e2) (0, 0))) eqn:R.
  - assert (C : coords_le (2 ^ 52) (bot e1) (top e1) (bot e2) (top e2)).
    { destruct Bb1, Bt1, Bb2, Bt2. unfold coords_le, pt_le. repeat split; lia. }
    pose proof (isect_lo_in_box _ _ _ _ (0, 0) C R) as IB.
    unfold in_seg_box in IB. rewrite !andb_true_iff, !Z.leb_le in IB.
    destruct Bb1, Bt1. unfold pt_le. lia.
  - unfold pt_le, px, py. cbn [fst snd]. lia.
Qed.

Corollary ani_lo_repaired_near_edge (e1 e2 : Active) (bot_y top_y : Z) :
  edge_ok e1 -> edge_ok e2 -> Z.abs (curr_x e1) <= 2 ^ 25 ->
  py (top e1) <= top_y -> py (top e2) <= top_y -> top_y <= bot_y -> bot_y <= py (bot e1) -> bot_y <= py (bot e2) ->
  repair_kind e1 e2 bot_y top_y (raw_ip false e1 e2 top_y) <> NoRepair ->
  near_edge e1 (add_new_intersect_node false e1 e2 bot_y top_y) \/
  near_edge e2 (add_new_intersect_node false e1 e2 bot_y top_y).
Proof.
  intros O1 O2 BC T1 T2 TB B1 B2 NR. unfold add_new_intersect_node. cbv zeta.
  apply repaired_near_edge; try assumption.
  apply raw_ip_lo_bounded; try assumption.
  destruct O1 as (_ & [_ Bb] & [_ Bt]). lia.
Qed.

(* non-vacuity: the demonstration input of a seeded change (flat subject edge, steep clip edge crossing a hair before the
   scanline y = -3) takes the closest-point repair on e1 *)
Example ani_repair_fires :
  ani_kind false (600, -2) (-600, -4) (0, -20) (1, 30) (-3) (-4) = 1 /\
  ani false (600, -2) (-600, -4) (0, -20) (1, 30) (-3) (-4) = (0, -3).
Proof. split; vm_compute; reflexivity. Qed.
