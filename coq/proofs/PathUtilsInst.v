(* Instantiation of the generic SimplifyPath / RDP theorems with the code's binary64 functions, and
   satisfiability examples for the hypotheses used in Properties_C20. *)
From Coq Require Import ZArith List Bool Lia Arith Floats.
From Clip Require Import base.Geom base.FloatModel model.PathUtils proofs.PathUtilsBase proofs.PathUtilsFloat
  proofs.PathUtilsTrim proofs.PathUtilsFlags proofs.PathUtilsSimplify proofs.PathUtilsRdp proofs.PathUtilsMisc.
Import ListNotations.
Local Open Scope nat_scope.

(* ---- TrimCollinear ---- *)
Theorem trim_total_subseq p o : exists r, trim_collinear p o = Ok r /\ sublist r p.
Proof. exists (trim_l p o). split; [apply trim_collinear_eq|apply trim_l_sublist]. Qed.

Theorem trim_area p : exists r, trim_collinear p false = Ok r /\ area2 r = area2 p.
Proof. exists (trim_l p false). split; [apply trim_collinear_eq|]. apply trim_closed_area, trim_collinear_eq. Qed.

Example trim_open_hyp_sat : 2 <= length [(0, 0); (1, 0)]%Z /\ forall a, [(0, 0); (1, 0)]%Z <> [a; a].
Proof. split; [cbn; lia|]. intros a H. inversion H; subst. discriminate. Qed.

(* ---- SimplifyPath ---- *)
Theorem simplify_path_subseq p eps c r : simplify_path p eps c = Ok r -> sublist r p.
Proof. apply simplify_subseq. Qed.

Theorem simplify_path_safe p eps c : exists r, simplify_path p eps c = Ok r.
Proof. apply simplify_safe. Qed.

Theorem simplify_path_open_keeps_ends p eps :
  2 <= length p -> (fsqr eps <? MAX_DBL)%float = true ->
  exists r, simplify_path p eps false = Ok r /\ keeps_ends r p = true.
Proof. intros H1 H2. apply simplify_open_keeps_ends; [exact ltb_gt_trans|exact H1|exact H2]. Qed.

Example simplify_open_hyp_sat : (fsqr 1 <? MAX_DBL)%float = true /\ (fsqr 0x1p+500 <? MAX_DBL)%float = true.
Proof. split; reflexivity. Qed.

(* ---- RamerDouglasPeucker ---- *)
Theorem rdp_path_subseq p eps r : rdp_path p eps = Ok r -> sublist r p.
Proof. apply rdp_subseq. Qed.

Theorem rdp_path_safe p eps : (0 <=? fsqr eps)%float = true -> exists r, rdp_path p eps = Ok r.
Proof. intros H. apply rdp_safe. exact H. Qed.

Theorem rdp_path_keeps_first p eps : (0 <=? fsqr eps)%float = true -> 1 <= length p ->
  exists r, rdp_path p eps = Ok r /\ hd_pt r = hd_pt p.
Proof. intros H. apply rdp_keeps_first. exact H. Qed.

Theorem rdp_path_keeps_ends_partial p eps : (0 <=? fsqr eps)%float = true -> 2 <= length p ->
  (forall i a, i < length p - 1 -> nth_error p i = Some a -> nth_error p (length p - 1) <> Some a) ->
  exists r, rdp_path p eps = Ok r /\ keeps_ends r p = true.
Proof. intros H. apply rdp_keeps_ends_partial. exact H. Qed.

Example rdp_hyp_sat :
  (0 <=? fsqr 1)%float = true /\ (0 <=? fsqr 0)%float = true /\
  let p := [(0, 0); (1, 5); (2, 0); (3, 5); (4, 0)]%Z in
  2 <= length p /\ forall i a, i < length p - 1 -> nth_error p i = Some a -> nth_error p (length p - 1) <> Some a.
Proof.
  split; [reflexivity|]. split; [reflexivity|]. split; [cbn; lia|].
  intros i a Hi Ha He. cbn [length] in Hi.
  do 4 (destruct i as [|i]; [cbn in Ha, He; congruence|]). lia.
Qed.

(* ---- defining equations: examples for the hypotheses ---- *)
Example get_bounds_hyp_sat : in_i64 (px (3, -4)%Z) = true /\ in_i64 (py (3, -4)%Z) = true.
Proof. split; reflexivity. Qed.

Example get_bounds_ex : get_bounds [(1, 2); (3, -4)]%Z = (1, -4, 3, 2)%Z.
Proof. reflexivity. Qed.

Example strip_duplicates_ex :
  strip_duplicates [(0, 0); (0, 0); (1, 1); (1, 1); (0, 0)]%Z true = Ok [(0, 0); (1, 1)]%Z.
Proof. reflexivity. Qed.

Example path_length_ex : path_length [(0, 0); (3, 4); (3, 0)]%Z true = Ok 12%float.
Proof. vm_compute. reflexivity. Qed.
