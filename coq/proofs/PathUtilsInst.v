(* Instantiation of the generic SimplifyPath / RDP theorems with the code's binary64 functions, and
   satisfiability examples for the hypotheses used in Properties_C20. *)
From Coq Require Import ZArith List Bool Lia Arith Floats.
From Clip Require Import base.Geom base.FloatModel model.PathUtils proofs.PathUtilsBase proofs.PathUtilsFloat
  proofs.PathUtilsTrim proofs.PathUtilsFlags proofs.PathUtilsSimplify proofs.PathUtilsRdp proofs.PathUtilsMisc
  proofs.PathUtilsNoNan.
Import ListNotations.
Local Open Scope nat_scope.

(* ---- TrimCollinear ---- *)
Theorem trim_total_subseq p o : exists r, trim_collinear p o = Ok r /\ sublist r p.
Proof. exists (trim_l p o). split; [apply trim_collinear_eq|apply trim_l_sublist]. Qed.

Theorem trim_area p : exists r, trim_collinear p false = Ok r /\ area2 r = area2 p.
Proof. exists (trim_l p false). split; [apply trim_collinear_eq|]. apply trim_closed_area, trim_collinear_eq. Qed.

Example trim_open_hyp_sat : 2 <= length [(0, 0); (0, 0)]%Z.
Proof. cbn; lia. Qed.

(* ---- SimplifyPath ---- *)
Theorem simplify_path_subseq p eps c r : simplify_path p eps c = Ok r -> sublist r p.
Proof. apply simplify_subseq. Qed.

Theorem simplify_path_safe p eps c : exists r, simplify_path p eps c = Ok r.
Proof. apply simplify_safe. Qed.

(* epsilon^2 >= 0 holds for every epsilon other than NaN (epsilon = +inf and epsilon^2 = +inf included): the
   tolerance the loop works with is clamped below MAX_DBL, the pseudo distance of the two ends *)
Theorem simplify_path_open_keeps_ends p eps :
  2 <= length p -> (0 <=? fsqr eps)%float = true ->
  exists r, simplify_path p eps false = Ok r /\ keeps_ends r p = true.
Proof.
  intros H1 H2. apply simplify_open_keeps_ends; [exact ltb_gt_trans|exact H1|apply simp_eps_sqr_lt_max; exact H2].
Qed.

Example simplify_open_hyp_sat :
  (0 <=? fsqr 1)%float = true /\ (0 <=? fsqr 0x1p+700)%float = true /\ (0 <=? fsqr infinity)%float = true.
Proof. repeat split; reflexivity. Qed.

(* ---- RamerDouglasPeucker ---- *)
Theorem rdp_path_subseq p eps r : rdp_path p eps = Ok r -> sublist r p.
Proof. apply rdp_subseq. Qed.

Theorem rdp_path_safe p eps : (0 <=? fsqr eps)%float = true -> exists r, rdp_path p eps = Ok r.
Proof. intros H. apply rdp_safe. exact H. Qed.

(* both end vertices are kept, whatever the path (first == last, all points equal, ... included) *)
Theorem rdp_path_keeps_ends p eps : (0 <=? fsqr eps)%float = true ->
  exists r, rdp_path p eps = Ok r /\ keeps_ends r p = true.
Proof. intros H. apply rdp_keeps_ends. exact H. Qed.

(* every removed vertex is within epsilon -- measured and compared as the code does, d2 <= epsilon^2 in binary64 -- of
   the line through the nearest kept vertices before and after it, and it has both.  Hypothesis: no NaN distance
   between vertices of the path (true for int64 coordinates: the products stay below 2^260). *)
Theorem rdp_path_bound p eps fl :
  (0 <=? fsqr eps)%float = true ->
  (forall a b c, In a p -> In b p -> In c p -> not_nan (perp_d2 a b c) = true) ->
  rdp_path_flags p eps = Ok fl -> rdp_bad_f p fl eps = [].
Proof.
  intros Heps Hnn. unfold rdp_path_flags, rdp_bad_f. destruct (length p <? 5) eqn:E.
  - intros H; inversion H. unfold rdp_bad. apply rdp_bad_all_true.
  - apply Nat.ltb_ge in E. intros H.
    apply (rdp_bound_gen float perp_d2 PrimFloat.leb 0%float p (fsqr eps)); try assumption.
    + reflexivity.
    + exact leb_trans.
    + intros a b Ha Hb. apply leb_total; apply leb_refl_inv; assumption.
    + intros a b c Ha Hb Hc. apply leb_refl_not_nan, Hnn; assumption.
    + intros x a Hx Ha. eapply leb_trans; [apply perp_d2_same_end, Hnn; assumption|exact Heps].
Qed.

(* for paths with int64 coordinates (all paths of the real code) the hypothesis is discharged *)
Theorem rdp_path_bound_i64 p eps fl :
  (0 <=? fsqr eps)%float = true -> coords_i64 p ->
  rdp_path_flags p eps = Ok fl -> rdp_bad_f p fl eps = [].
Proof. intros Heps Hp. apply rdp_path_bound; [exact Heps|apply perp_d2_not_nan_i64; exact Hp]. Qed.

Definition rdp_witness : path := [(0, 0); (10, 10); (20, 0); (30, 10); (40, 0); (0, 0)]%Z.

(* the hypotheses are satisfiable, on the path that refuted both clauses before the repair *)
Example rdp_hyp_sat :
  (0 <=? fsqr 1)%float = true /\ (0 <=? fsqr 0)%float = true /\
  forallb (fun a => forallb (fun b => forallb (fun c => not_nan (perp_d2 a b c)) rdp_witness) rdp_witness) rdp_witness = true.
Proof. split; [reflexivity|]. split; [reflexivity|]. vm_compute. reflexivity. Qed.

Example rdp_i64_hyp_sat : coords_i64 rdp_witness /\ coords_i64 [(-9223372036854775808, 9223372036854775807)]%Z.
Proof.
  split; intros q Hq; cbn in Hq; repeat (destruct Hq as [<-|Hq]; [split; reflexivity|]); contradiction.
Qed.

(* (0,0)(10,10)(20,0)(30,10)(40,0)(0,0), epsilon 1: returned (0,0)(10,10)(20,0)(30,10) before the repair *)
Example rdp_witness_repaired :
  rdp_path rdp_witness 1 = Ok rdp_witness /\ rdp_path_flags rdp_witness 1 = Ok [true; true; true; true; true; true] /\
  rdp_bad_f rdp_witness [true; true; true; true; true; true] 1 = [] /\
  rdp_bad_f rdp_witness [true; true; true; true; false; false] 1 = [4; 5].
Proof. repeat split; vm_compute; reflexivity. Qed.

(* ---- defining equations: examples for the hypotheses ---- *)
Example get_bounds_hyp_sat : in_i64 (px (3, -4)%Z) = true /\ in_i64 (py (3, -4)%Z) = true.
Proof. split; reflexivity. Qed.

Example get_bounds_ex : get_bounds [(1, 2); (3, -4)]%Z = (1, -4, 3, 2)%Z.
Proof. reflexivity. Qed.

Example strip_duplicates_ex :
  strip_duplicates [(0, 0); (0, 0); (1, 1); (1, 1); (0, 0)]%Z true = Ok [(0, 0); (1, 1)]%Z.
Proof. reflexivity. Qed.

Example path_length_ex : path_length [(0, 0); (3, 4); (3, 0)]%Z true = Ok 12%float.
Proof. vm_compute. reflexivity. Qed.
