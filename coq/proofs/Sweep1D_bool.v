(* Boolean core of IntersectEdges: with wind counts abstracted to "inside" flags of the regions around the two
   crossing edges, the action the code selects leaves each edge hot exactly when it bounds the result, on the
   correct side.  Finite domain: proved by exhaustive case analysis. *)
From Clip Require Import base.Geom base.Region model.Sweep1D proofs.Sweep1D_contrib proofs.Sweep1D_arith.
From Coq Require Import ZifyBool Lia.
Local Open Scope Z_scope.

Definition hotb (h : option side) : bool := match h with Some _ => true | None => false end.
Definition is_xor (ct : clip_type) : bool := match ct with Xor => true | _ => false end.

Definition select_abs (ct : clip_type) (same : bool) (sub1 sub2 p1 p2 : bool)
           (h1 h2 : option side) (c1 c2 : bool) : action :=
  if (negb (hotb h1) && negb p1) || (negb (hotb h2) && negb p2) then ANone
  else if hotb h1 && hotb h2 then
    if negb p1 || negb p2 || (negb (Bool.eqb sub1 sub2) && negb (is_xor ct)) then AMax
    else if (match h1 with Some Front => true | _ => false end) || same then AMaxMin
    else ASwapBoth
  else if hotb h1 then ASwap1
  else if hotb h2 then ASwap2
  else if negb (Bool.eqb sub1 sub2) then AMin
  else if p1 && p2 then
    match ct with
    | Union => if negb c1 && negb c2 then AMin else ANone
    | Difference => if (negb sub1 && c1 && c2) || (sub1 && negb c1 && negb c2) then AMin else ANone
    | Xor => AMin
    | _ => if c1 && c2 then AMin else ANone
    end
  else ANone.

Definition max_ok_abs (h1 h2 : option side) : bool :=
  match h1, h2 with Some s1, Some s2 => negb (side_eqb s1 s2) | _, _ => false end.

Definition apply_abs (ph : option side) (act : action) (h1 h2 : option side)
  : option (option side * option side) :=
  match act with
  | ANone => Some (h1, h2)
  | AMax => if max_ok_abs h1 h2 then Some (None, None) else None
  | AMaxMin => if max_ok_abs h1 h2
               then let '(s1, s2) := min_poly_sides ph false in Some (Some s1, Some s2) else None
  | ASwapBoth => Some (h2, h1)
  | ASwap1 => Some (None, h1)
  | ASwap2 => Some (h2, None)
  | AMin => let '(s1, s2) := min_poly_sides ph false in Some (Some s1, Some s2)
  end.

Lemma apply_action_abs ph act e1 e2 :
  apply_action ph act e1 e2 =
  match apply_abs ph act (hot e1) (hot e2) with
  | Some (x, y) => Some (set_hot e1 x, set_hot e2 y)
  | None => None
  end.
Proof.
  destruct e1 as [p1 d1 w1 v1 h1 o1], e2 as [p2 d2 w2 v2 h2 o2].
  destruct act; cbn [apply_action apply_abs hot]; unfold max_ok, max_ok_abs, set_hot; cbn [hot ep wdx wc wc2 eopen];
  try reflexivity;
  try (destruct h1 as [s1|], h2 as [s2|]; try destruct (negb (side_eqb s1 s2));
       try destruct (min_poly_sides ph false); reflexivity);
  try (destruct (min_poly_sides ph false); reflexivity).
Qed.

Lemma select_action_abs ct fr same e1 e2 :
  wc_nz fr (wc e1) -> wc_nz fr (wc e2) ->
  select_action ct fr same e1 e2 =
  select_abs ct same (ptype_eqb (ep e1) Subj) (ptype_eqb (ep e2) Subj)
             (pass fr (wc e1)) (pass fr (wc e2)) (hot e1) (hot e2)
             (cin fr (wc2 e1)) (cin fr (wc2 e2)).
Proof.
  intros H1 H2. unfold select_action, select_abs.
  destruct (in01_pass fr (wc e1) H1) as [Ea1 Eb1].
  destruct (in01_pass fr (wc e2) H2) as [Ea2 Eb2].
  rewrite Ea1, Ea2, Eb1, Eb2, !cin_pos, !cin_npos.
  unfold is_hot, hotb, is_xor.
  destruct (ep e1), (ep e2); cbn [ptype_eqb Bool.eqb negb andb orb]; reflexivity.
Qed.

(* consistency of GetPrevHotEdge's side with the region left of e1 *)
Definition ph_ok (ph : option side) (g0 : bool) : bool :=
  match ph with Some Front => g0 | _ => negb g0 end.

Definition gsel (ct : clip_type) (sub : bool) (own other : bool) : bool :=
  if sub then combine_ct ct own other else combine_ct ct other own.

Notation bs := boundary_side.

(* both edges of the same path type *)
Theorem swap_same_bool ct (sub same eqd a0 a1 a1' a2 c : bool) ph :
  ct <> NoClip ->
  (if eqd then Bool.eqb a1 a1' else Bool.eqb a2 a0) = true ->
  ph_ok ph (gsel ct sub a0 c) = true ->
  let g := fun x => gsel ct sub x c in
  apply_abs ph
    (select_abs ct same sub sub (xorb a1' a2) (xorb a0 a1') (bs (g a0) (g a1)) (bs (g a1) (g a2)) c c)
    (bs (g a0) (g a1)) (bs (g a1) (g a2))
  = Some (bs (g a1') (g a2), bs (g a0) (g a1')).
Proof.
  intros Hct. destruct ct; try congruence; clear Hct;
  destruct sub, same, eqd, a0, a1, a1', a2, c; cbn; intros Hc; try discriminate Hc;
  destruct ph as [[|]|]; cbn; intros Hp; try discriminate Hp; reflexivity.
Qed.

(* edges of different path types: A = flags of e1's type, B = flags of e2's type *)
Theorem swap_diff_bool ct (sub1 same A0 A1 B0 B1 : bool) ph :
  ct <> NoClip ->
  let G := fun x y => gsel ct sub1 x y in
  ph_ok ph (G A0 B0) = true ->
  apply_abs ph
    (select_abs ct same sub1 (negb sub1) (xorb A0 A1) (xorb B0 B1)
                (bs (G A0 B0) (G A1 B0)) (bs (G A1 B0) (G A1 B1)) B1 A0)
    (bs (G A0 B0) (G A1 B0)) (bs (G A1 B0) (G A1 B1))
  = Some (bs (G A0 B1) (G A1 B1), bs (G A0 B0) (G A0 B1)).
Proof.
  intros Hct. destruct ct; try congruence; clear Hct;
  destruct sub1, same, A0, A1, B0, B1; cbn;
  destruct ph as [[|]|]; cbn; intros Hp; try discriminate Hp; reflexivity.
Qed.
