(* StripDuplicates, StripNearEqual, TranslatePath, GetBounds, Length: defining equations of the models. *)
From Coq Require Import ZArith List Bool Lia Arith Floats.
From Clip Require Import base.Geom base.FloatModel model.PathUtils proofs.PathUtilsBase proofs.PathUtilsTrim.
Import ListNotations.
Local Open Scope nat_scope.

(* ------------------------------------------------------------------ std::unique *)
Fixpoint no_adj (R : pt -> pt -> Prop) (l : path) : Prop :=
  match l with
  | a :: ((b :: _) as t) => ~ R a b /\ no_adj R t
  | _ => True
  end.

Lemma unique_from_sublist a l : sublist (unique_from a l) l.
Proof.
  revert a; induction l as [|x l IH]; intros a; cbn [unique_from]; [apply sl_nil|].
  destruct (pt_eqb a x); auto.
Qed.

Lemma unique_from_no_adj a l : no_adj eq (a :: unique_from a l).
Proof.
  revert a; induction l as [|x l IH]; intros a; cbn [unique_from]; [exact I|].
  destruct (pt_eqb a x) eqn:E; [apply IH|].
  apply pt_eqb_neq in E. split; [exact E|apply IH].
Qed.

Lemma unique_from_In a l x : In x (a :: l) <-> In x (a :: unique_from a l).
Proof.
  revert a; induction l as [|y l IH]; intros a; cbn [unique_from]; [reflexivity|].
  destruct (pt_eqb a y) eqn:E.
  - apply pt_eqb_eq in E; subst y. rewrite <- IH. cbn [In]. tauto.
  - specialize (IH y). cbn [In] in *. tauto.
Qed.

(* the two equations that define "collapse runs of equal consecutive points" *)
Lemma unique_from_id a l : no_adj eq (a :: l) -> unique_from a l = l.
Proof.
  revert a; induction l as [|x l IH]; intros a H; [reflexivity|].
  destruct H as [Hne H]. cbn [unique_from]. apply pt_eqb_neq in Hne. rewrite Hne. f_equal. apply IH, H.
Qed.

Theorem std_unique_id p : no_adj eq p -> std_unique p = p.
Proof. destruct p as [|a t]; [reflexivity|]. intros H. cbn [std_unique]. f_equal. apply unique_from_id, H. Qed.

Theorem std_unique_collapse l1 a l2 : std_unique (l1 ++ a :: a :: l2) = std_unique (l1 ++ a :: l2).
Proof.
  destruct l1 as [|b l1].
  - cbn [app std_unique unique_from]. rewrite pt_eqb_refl. reflexivity.
  - cbn [app std_unique]. f_equal. revert b; induction l1 as [|c l1 IH]; intros b.
    + cbn [app unique_from]. destruct (pt_eqb b a); rewrite ?pt_eqb_refl; reflexivity.
    + cbn [app unique_from]. destruct (pt_eqb b c); [apply IH|f_equal; apply IH].
Qed.

Theorem std_unique_no_adj p : no_adj eq (std_unique p).
Proof. destruct p as [|a t]; [exact I|]. apply unique_from_no_adj. Qed.

Theorem std_unique_sublist p : sublist (std_unique p) p.
Proof. destruct p as [|a t]; [apply sl_nil|]. cbn [std_unique]. apply sl_keep, unique_from_sublist. Qed.

Theorem std_unique_In p x : In x p <-> In x (std_unique p).
Proof. destruct p as [|a t]; [reflexivity|]. apply unique_from_In. Qed.

(* ------------------------------------------------------------------ the closing pops, generic in the test *)
(* while (size > 1 && test(back)) pop_back  ==  on the reversed list: drop leading elements that pass the test,
   but never the last remaining one *)
Fixpoint pop_r (test : pt -> bool) (r : path) : path :=
  match r with
  | a :: ((_ :: _) as t) => if test a then pop_r test t else r
  | _ => r
  end.

Lemma pop_r_sublist test r : sublist (pop_r test r) r.
Proof.
  induction r as [|a r IH]; [apply sl_nil|]. destruct r as [|b t]; [apply sublist_refl|].
  change (pop_r test (a :: b :: t)) with (if test a then pop_r test (b :: t) else a :: b :: t).
  destruct (test a); [apply sl_skip, IH|apply sublist_refl].
Qed.

Lemma pop_r_nonempty test r : r <> [] -> pop_r test r <> [].
Proof.
  induction r as [|a r IH]; [congruence|]. intros _. destruct r as [|b t]; [discriminate|].
  change (pop_r test (a :: b :: t)) with (if test a then pop_r test (b :: t) else a :: b :: t).
  destruct (test a); [apply IH; discriminate|discriminate].
Qed.

Lemma pop_r_last test r d : last (pop_r test r) d = last r d.
Proof.
  induction r as [|a r IH]; [reflexivity|]. destruct r as [|b t]; [reflexivity|].
  change (pop_r test (a :: b :: t)) with (if test a then pop_r test (b :: t) else a :: b :: t).
  destruct (test a); [rewrite IH; reflexivity|reflexivity].
Qed.

Lemma pop_r_head test r a t : pop_r test r = a :: t -> t <> [] -> test a = false.
Proof.
  induction r as [|x r IH]; [discriminate|]. destruct r as [|b r'].
  - cbn. intros H; inversion H; subst. congruence.
  - change (pop_r test (x :: b :: r')) with (if test x then pop_r test (b :: r') else x :: b :: r').
    destruct (test x) eqn:E; [exact IH|]. intros H _. inversion H; subst. exact E.
Qed.

Lemma pop_r_dropped test r x : In x r -> In x (pop_r test r) \/ test x = true.
Proof.
  induction r as [|a r IH]; [intros []|]. destruct r as [|b t]; [cbn; auto|].
  change (pop_r test (a :: b :: t)) with (if test a then pop_r test (b :: t) else a :: b :: t).
  destruct (test a) eqn:E; [|auto]. intros [->|H]; [auto|apply IH, H].
Qed.

(* ------------------------------------------------------------------ StripDuplicates *)
Lemma pop_back_eq_spec fuel l d : length l < fuel ->
  pop_back_eq fuel l = Ok (rev (pop_r (fun a => pt_eqb a (hd d l)) (rev l))).
Proof.
  intros Hl. destruct l as [|x l]; [destruct fuel; [lia|reflexivity]|]. cbn [hd].
  rewrite <- (rev_involutive (x :: l)) at 1.
  (* pop_back_eq re-reads l[0] in every iteration; it is always x *)
  assert (G : forall fuel r, length r < fuel -> last r x = x ->
              pop_back_eq fuel (rev r) = Ok (rev (pop_r (fun a => pt_eqb a x) r))).
  { clear. induction fuel as [|fuel IH]; intros r Hl Hx; [lia|].
    cbn [pop_back_eq]. rewrite rev_length. destruct r as [|a [|b t]]; try reflexivity.
    replace (1 <? length (a :: b :: t)) with true by (symmetry; apply Nat.ltb_lt; cbn [length]; lia).
    rewrite (rd_rev_0 (b :: t) a x).
    change (rev (a :: b :: t)) with (rev (b :: t) ++ [a]) at 1.
    replace (length (a :: b :: t) - 1) with (length (rev (b :: t) ++ [a]) - 1)
      by (rewrite app_length, rev_length; cbn [length]; lia).
    rewrite rd_snoc_last. cbn [bind]. rewrite Hx.
    change (pop_r (fun a0 => pt_eqb a0 x) (a :: b :: t)) with
      (if pt_eqb a x then pop_r (fun a0 => pt_eqb a0 x) (b :: t) else a :: b :: t).
    destruct (pt_eqb a x); [|reflexivity].
    change (rev (a :: b :: t)) with (rev (b :: t) ++ [a]). rewrite removelast_last.
    apply IH; [cbn [length] in *; lia|exact Hx]. }
  apply G; [rewrite rev_length; exact Hl|].
  change (rev (x :: l)) with (rev l ++ [x]). apply last_last.
Qed.

Theorem strip_duplicates_spec p closed :
  exists r, strip_duplicates p closed = Ok r /\
    sublist r p /\ no_adj eq r /\ (forall x, In x p <-> In x r) /\ hd_pt r = hd_pt p /\
    (closed = false -> r = std_unique p) /\
    (closed = true -> 1 < length r -> last r (0, 0)%Z <> hd (0, 0)%Z r).
Proof.
  unfold strip_duplicates. set (u := std_unique p).
  assert (Hu1 : sublist u p) by apply std_unique_sublist.
  assert (Hu2 : no_adj eq u) by apply std_unique_no_adj.
  assert (Hu3 : forall x, In x p <-> In x u) by apply std_unique_In.
  assert (Hu4 : hd_pt u = hd_pt p) by (destruct p; reflexivity).
  destruct closed.
  - rewrite (pop_back_eq_spec _ u (0, 0)%Z) by lia.
    set (f := hd (0, 0)%Z u). set (r := rev (pop_r (fun a => pt_eqb a f) (rev u))).
    assert (Hsub : sublist r u).
    { unfold r. pose proof (sublist_rev _ _ (pop_r_sublist (fun a => pt_eqb a f) (rev u))) as H.
      rewrite rev_involutive in H. exact H. }
    assert (Hhd : hd (0, 0)%Z r = f /\ (u <> [] -> r <> [])).
    { unfold r. destruct u as [|x u'] eqn:Eu; [cbn; split; [reflexivity|congruence]|].
      assert (Hne : pop_r (fun a => pt_eqb a f) (rev (x :: u')) <> []).
      { apply pop_r_nonempty. cbn [rev]. destruct (rev u'); discriminate. }
      pose proof (pop_r_last (fun a => pt_eqb a f) (rev (x :: u')) (0, 0)%Z) as Hl.
      rewrite last_rev_hd in Hl. cbn [hd] in Hl.
      split.
      - rewrite <- (last_rev_hd (rev (pop_r _ _))), rev_involutive. exact Hl.
      - intros _ H. apply Hne. rewrite <- (rev_involutive (pop_r _ _)), H. reflexivity. }
    exists r. split; [reflexivity|]. split; [eapply sublist_trans; eassumption|].
    split.
    { (* a prefix of a list without adjacent duplicates has none *)
      unfold r. clear -Hu2.
      assert (G : forall t q, no_adj eq (rev q) -> no_adj eq (rev (pop_r t q))).
      { intros t q. induction q as [|a q IH]; [auto|]. destruct q as [|b q']; [auto|].
        change (pop_r t (a :: b :: q')) with (if t a then pop_r t (b :: q') else a :: b :: q').
        destruct (t a); [|auto]. intros H. apply IH.
        change (rev (a :: b :: q')) with (rev (b :: q') ++ [a]) in H.
        clear -H. revert H. generalize (rev (b :: q')). intros l. induction l as [|x l IHl]; [auto|].
        destruct l as [|y l']; [cbn; auto|]. cbn [app no_adj]. intros [H1 H2]. split; [exact H1|apply IHl, H2]. }
      apply G. rewrite rev_involutive. exact Hu2. }
    split.
    { intros x. rewrite Hu3. split.
      - intros Hin. apply in_rev in Hin. destruct (pop_r_dropped (fun a => pt_eqb a f) _ _ Hin) as [H|H].
        + unfold r. apply -> in_rev. exact H.
        + apply pt_eqb_eq in H. subst x. destruct Hhd as [Hh Hne].
          destruct r as [|y r'] eqn:Er.
          * exfalso. apply Hne; [|reflexivity]. intros ->. destruct Hin.
          * cbn [hd] in Hh. subst y. left; reflexivity.
      - intros Hin. eapply sublist_In; eassumption. }
    split.
    { destruct Hhd as [Hh Hne]. rewrite <- Hu4. destruct u as [|x u'] eqn:Eu.
      - inversion Hsub. reflexivity.
      - destruct r as [|y r'] eqn:Er; [exfalso; apply Hne; [discriminate|reflexivity]|].
        cbn [hd] in Hh. unfold f in Hh. cbn [hd] in Hh. subst y. reflexivity. }
    split; [discriminate|].
    intros _ Hlen. destruct Hhd as [Hh _]. rewrite Hh.
    unfold r in Hlen |- *. rewrite rev_length in Hlen. rewrite last_rev_hd.
    destruct (pop_r (fun a => pt_eqb a f) (rev u)) as [|a t] eqn:Ep; [cbn in Hlen; lia|].
    cbn [hd]. intros ->.
    assert (Ht : t <> []) by (destruct t; [cbn in Hlen; lia|discriminate]).
    pose proof (pop_r_head _ _ _ _ Ep Ht) as Hf. cbn in Hf. rewrite pt_eqb_refl in Hf. discriminate.
  - exists u. repeat split; auto; try apply Hu3; discriminate.
Qed.

(* ------------------------------------------------------------------ StripNearEqual *)
Section Near.
  Variable maxd : float.
  Definition near (a b : pt) : Prop := near_equal a b maxd = true.

  Lemma strip_near_from_sublist a l : sublist (strip_near_from a l maxd) l.
  Proof.
    revert a; induction l as [|x l IH]; intros a; cbn [strip_near_from]; [apply sl_nil|].
    destruct (negb (near_equal x a maxd)); auto.
  Qed.

  (* consecutive kept points are not near: NearEqual(next, previous) is false *)
  Lemma strip_near_from_no_adj a l : no_adj (fun x y => near y x) (a :: strip_near_from a l maxd).
  Proof.
    revert a; induction l as [|x l IH]; intros a; cbn [strip_near_from]; [exact I|].
    destruct (near_equal x a maxd) eqn:E; cbn [negb]; [apply IH|].
    split; [unfold near; congruence|apply IH].
  Qed.

  (* every dropped point is near the kept point before it *)
  Lemma strip_near_from_dropped a l x : In x l -> In x (strip_near_from a l maxd) \/ exists k, In k (a :: l) /\ near x k.
  Proof.
    revert a; induction l as [|y l IH]; intros a; [intros []|]. cbn [strip_near_from].
    destruct (near_equal y a maxd) eqn:E; cbn [negb].
    - intros [->|H].
      + right. exists a. split; [left; reflexivity|exact E].
      + destruct (IH a H) as [H1|(k & Hk & Hn)]; [left; exact H1|].
        right. exists k. split; [|exact Hn]. destruct Hk; [left; assumption|right; right; assumption].
    - intros [->|H]; [left; left; reflexivity|].
      destruct (IH y H) as [H1|(k & Hk & Hn)]; [left; right; exact H1|].
      right. exists k. split; [right; exact Hk|exact Hn].
  Qed.

  Lemma pop_back_near_spec first : forall fuel r, length r < fuel ->
    pop_back_near fuel first (rev r) maxd = Ok (rev (pop_r (fun a => near_equal a first maxd) r)).
  Proof.
    induction fuel as [|fuel IH]; intros r Hl; [lia|].
    cbn [pop_back_near]. rewrite rev_length. destruct r as [|a [|b t]]; try reflexivity.
    replace (1 <? length (a :: b :: t)) with true by (symmetry; apply Nat.ltb_lt; cbn [length]; lia).
    change (rev (a :: b :: t)) with (rev (b :: t) ++ [a]).
    replace (length (a :: b :: t) - 1) with (length (rev (b :: t) ++ [a]) - 1)
      by (rewrite app_length, rev_length; cbn [length]; lia).
    rewrite rd_snoc_last. cbn [bind].
    change (pop_r (fun a0 => near_equal a0 first maxd) (a :: b :: t)) with
      (if near_equal a first maxd then pop_r (fun a0 => near_equal a0 first maxd) (b :: t) else a :: b :: t).
    destruct (near_equal a first maxd); [|reflexivity].
    rewrite removelast_last. apply IH. cbn [length] in *. lia.
  Qed.

  Lemma no_adj_prefix (R : pt -> pt -> Prop) l x : no_adj R (l ++ [x]) -> no_adj R l.
  Proof.
    induction l as [|a l IH]; [auto|]. destruct l as [|b l']; [cbn; auto|].
    cbn [app no_adj]. intros [H1 H2]. split; [exact H1|apply IH, H2].
  Qed.

  Lemma no_adj_rev_pop (R : pt -> pt -> Prop) t q : no_adj R (rev q) -> no_adj R (rev (pop_r t q)).
  Proof.
    induction q as [|a q IH]; [auto|]. destruct q as [|b q']; [auto|].
    change (pop_r t (a :: b :: q')) with (if t a then pop_r t (b :: q') else a :: b :: q').
    destruct (t a); [|auto]. intros H. apply IH.
    change (rev (a :: b :: q')) with (rev (b :: q') ++ [a]) in H. eapply no_adj_prefix; exact H.
  Qed.

  Theorem strip_near_equal_spec p closed :
    exists r, strip_near_equal p maxd closed = Ok r /\
      sublist r p /\ no_adj (fun x y => near y x) r /\ hd_pt r = hd_pt p /\
      (closed = false -> forall x, In x p -> In x r \/ exists k, In k p /\ near x k) /\
      (closed = true -> 1 < length r -> ~ near (last r (0, 0)%Z) (hd (0, 0)%Z r)).
  Proof.
    unfold strip_near_equal. destruct p as [|first t].
    - exists []. split; [reflexivity|]. split; [apply sl_nil|]. split; [exact I|]. split; [reflexivity|].
      split; [intros _ x []|]. intros _ H; cbn in H; lia.
    - cbv zeta. set (r0 := first :: strip_near_from first t maxd).
      assert (H1 : sublist r0 (first :: t)) by (apply sl_keep, strip_near_from_sublist).
      assert (H2 : no_adj (fun x y => near y x) r0) by apply strip_near_from_no_adj.
      destruct closed; cbn [negb].
      + assert (Hpb : pop_back_near (S (length r0)) first r0 maxd =
                      Ok (rev (pop_r (fun a => near_equal a first maxd) (rev r0)))).
        { pose proof (pop_back_near_spec first (S (length r0)) (rev r0)) as H. rewrite rev_involutive in H.
          apply H. rewrite rev_length. lia. }
        set (r := rev (pop_r (fun a => near_equal a first maxd) (rev r0))) in *.
        assert (Hsub : sublist r r0).
        { unfold r. pose proof (sublist_rev _ _ (pop_r_sublist (fun a => near_equal a first maxd) (rev r0))) as H.
          rewrite rev_involutive in H. exact H. }
        assert (Hhd : hd (0, 0)%Z r = first /\ r <> []).
        { assert (Hne : pop_r (fun a => near_equal a first maxd) (rev r0) <> []).
          { apply pop_r_nonempty. unfold r0. cbn [rev]. intros H. apply app_eq_nil in H. destruct H as [_ H]. discriminate H. }
          pose proof (pop_r_last (fun a => near_equal a first maxd) (rev r0) (0, 0)%Z) as Hl.
          rewrite last_rev_hd in Hl. unfold r0 in Hl at 2. cbn [hd] in Hl.
          split.
          - unfold r. rewrite <- (last_rev_hd (rev (pop_r _ _))), rev_involutive. exact Hl.
          - unfold r. intros H. apply Hne. rewrite <- (rev_involutive (pop_r _ _)), H. reflexivity. }
        exists r. split; [exact Hpb|]. split; [eapply sublist_trans; eassumption|].
        split; [unfold r; apply no_adj_rev_pop; rewrite rev_involutive; exact H2|].
        split.
        { destruct Hhd as [Hh Hne]. destruct r as [|y r']; [congruence|]. cbn [hd] in Hh. subst y. reflexivity. }
        split; [discriminate|].
        intros _ Hlen. destruct Hhd as [Hh _]. rewrite Hh.
        unfold r in Hlen |- *. rewrite rev_length in Hlen. rewrite last_rev_hd.
        destruct (pop_r (fun a => near_equal a first maxd) (rev r0)) as [|a t'] eqn:Ep; [cbn in Hlen; lia|].
        cbn [hd]. unfold near.
        assert (Ht : t' <> []) by (destruct t'; [cbn in Hlen; lia|discriminate]).
        pose proof (pop_r_head _ _ _ _ Ep Ht) as Hf. cbv beta in Hf. congruence.
      + exists r0. split; [reflexivity|]. split; [exact H1|]. split; [exact H2|]. split; [reflexivity|].
        split; [|discriminate]. intros _ x [->|Hin]; [left; left; reflexivity|].
        destruct (strip_near_from_dropped first t x Hin) as [H|H]; [left; right; exact H|right; exact H].
  Qed.
End Near.

(* ------------------------------------------------------------------ TranslatePath *)
Theorem translate_path_spec p dx dy :
  length (translate_path p dx dy) = length p /\
  forall i, nth_error (translate_path p dx dy) i =
            option_map (fun q => (px q + dx, py q + dy)%Z) (nth_error p i).
Proof.
  unfold translate_path. split; [apply map_length|]. intros i. apply nth_error_map.
Qed.

Theorem translate_path_compose p a b c d :
  translate_path (translate_path p a b) c d = translate_path p (a + c) (b + d).
Proof.
  unfold translate_path. rewrite map_map. apply map_ext. intros q. unfold px, py. cbn [fst snd].
  f_equal; lia.
Qed.

Theorem translate_path_zero p : translate_path p 0 0 = p.
Proof.
  unfold translate_path. rewrite <- (map_id p) at 2. apply map_ext. intros [x y]. unfold px, py. cbn [fst snd].
  f_equal; lia.
Qed.

(* ------------------------------------------------------------------ GetBounds *)
Section Bounds.
  Local Open Scope Z_scope.

  Definition minmax_step (acc : Z * Z * Z * Z) (q : pt) : Z * Z * Z * Z :=
    let '(x0, y0, x1, y1) := acc in (Z.min x0 (px q), Z.min y0 (py q), Z.max x1 (px q), Z.max y1 (py q)).

  Lemma bounds_step_minmax acc q : bounds_step acc q = minmax_step acc q.
  Proof.
    destruct acc as [[[x0 y0] x1] y1]. unfold bounds_step, minmax_step.
    destruct (px q <? x0) eqn:E1, (x1 <? px q) eqn:E2, (py q <? y0) eqn:E3, (y1 <? py q) eqn:E4;
      repeat match goal with
             | H : (_ <? _) = true |- _ => apply Z.ltb_lt in H
             | H : (_ <? _) = false |- _ => apply Z.ltb_ge in H
             end; repeat f_equal; lia.
  Qed.

  (* the result is the fold of min/max (Geom.bbox_of) as soon as the first point is an int64 point;
     the empty path gives the "invalid" rectangle *)
  Theorem get_bounds_empty : get_bounds [] = (I64_MAX, I64_MAX, I64_LOWEST, I64_LOWEST).
  Proof. reflexivity. Qed.

  Theorem get_bounds_bbox a t :
    in_i64 (px a) = true -> in_i64 (py a) = true -> bbox_of (a :: t) = Some (get_bounds (a :: t)).
  Proof.
    intros Hx Hy. unfold bbox_of, get_bounds. cbn [fold_left]. f_equal.
    assert (H0 : bounds_step (I64_MAX, I64_MAX, I64_LOWEST, I64_LOWEST) a = (px a, py a, px a, py a)).
    { rewrite bounds_step_minmax. unfold minmax_step, I64_MAX, I64_LOWEST.
      unfold in_i64 in Hx, Hy. apply andb_true_iff in Hx as [Hx1 Hx2], Hy as [Hy1 Hy2].
      apply Z.leb_le in Hx1, Hy1. apply Z.ltb_lt in Hx2, Hy2. repeat f_equal; lia. }
    rewrite H0. generalize (px a, py a, px a, py a). induction t as [|q t IH]; intros acc; [reflexivity|].
    cbn [fold_left]. rewrite bounds_step_minmax. rewrite <- IH.
    destruct acc as [[[x0 y0] x1] y1]. reflexivity.
  Qed.

  (* every point lies in the returned rectangle (no range assumption) *)
  Lemma fold_bounds_mono t : forall x0 y0 x1 y1 a0 b0 a1 b1,
    fold_left bounds_step t (x0, y0, x1, y1) = (a0, b0, a1, b1) ->
    a0 <= x0 /\ b0 <= y0 /\ x1 <= a1 /\ y1 <= b1 /\
    forall q, In q t -> a0 <= px q <= a1 /\ b0 <= py q <= b1.
  Proof.
    induction t as [|q t IH]; intros x0 y0 x1 y1 a0 b0 a1 b1 H; cbn [fold_left] in H.
    - inversion H; subst. split; [lia|]. split; [lia|]. split; [lia|]. split; [lia|]. intros q' [].
    - rewrite bounds_step_minmax in H. unfold minmax_step in H.
      destruct (IH _ _ _ _ _ _ _ _ H) as (H1 & H2 & H3 & H4 & H5).
      split; [lia|]. split; [lia|]. split; [lia|]. split; [lia|].
      intros q' [->|Hin]; [lia|apply (H5 _ Hin)].
  Qed.

  Theorem get_bounds_contains p l t r b :
    get_bounds p = (l, t, r, b) -> forall q, In q p -> l <= px q <= r /\ t <= py q <= b.
  Proof. unfold get_bounds. intros H. eapply fold_bounds_mono in H. apply H. Qed.
End Bounds.

(* ------------------------------------------------------------------ Length *)
Definition edge_len (acc : float) (e : pt * pt) : float := (acc + distance (fst e) (snd e))%float.

Lemma length_loop_spec (p : path) : forall n i acc, i + n < length p ->
  length_loop n i p acc = Ok (fold_left edge_len (open_edges (firstn (S n) (skipn i p))) acc).
Proof.
  induction n as [|n IH]; intros i acc H; cbn [length_loop].
  - destruct (skipn i p) as [|x l]; reflexivity.
  - destruct (nth_error_lt_Some p i ltac:(lia)) as [a Ha]. destruct (nth_error_lt_Some p (S i) ltac:(lia)) as [b Hb].
    rewrite (rd_Some _ _ _ Ha), (rd_Some _ _ _ Hb). cbn [bind].
    rewrite IH by lia.
    rewrite (skipn_nth_cons _ _ _ Ha). rewrite (skipn_nth_cons _ _ _ Hb).
    cbn [firstn]. rewrite open_edges_cons2. cbn [fold_left]. reflexivity.
Qed.

(* Length = sum of sqrt(dx^2 + dy^2) over the edges, accumulated left to right in binary64 *)
Theorem path_length_spec p closed : 2 <= length p ->
  path_length p closed =
  Ok (fold_left edge_len (if closed then cyc_edges p else open_edges p) 0%float).
Proof.
  intros Hlen. unfold path_length.
  replace (length p <? 2) with false by (symmetry; apply Nat.ltb_ge; exact Hlen).
  rewrite length_loop_spec by lia. cbn [skipn]. replace (S (length p - 1)) with (length p) by lia.
  rewrite firstn_all. cbn [bind]. destruct closed; [|reflexivity].
  destruct p as [|a t]; [cbn in Hlen; lia|].
  replace (length (a :: t) - 1) with (length t) by (cbn [length]; lia).
  rewrite (rd_Some _ _ _ (nth_error_last a t a)). cbn [rd nth_error bind].
  unfold cyc_edges.
  destruct (exists_last (l := a :: t) ltac:(discriminate)) as (m & z & Hz).
  assert (Hl : last (a :: t) a = z) by (rewrite Hz; apply last_last).
  rewrite Hl. rewrite Hz at 2. rewrite <- app_assoc. cbn [app].
  rewrite (open_edges_snoc m z a). rewrite fold_left_app. cbn [fold_left]. rewrite <- Hz. reflexivity.
Qed.

Theorem path_length_short p closed : length p < 2 -> path_length p closed = Ok 0%float.
Proof. intros H. unfold path_length. apply Nat.ltb_lt in H. rewrite H. reflexivity. Qed.
