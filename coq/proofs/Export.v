(* Lemmas for C17: the flat array layouts of clipper.export.h round-trip, state their own length,
   and are written / read inside their bounds.  Generic in the element type (int64 / double). *)
From Coq Require Import ZArith List Bool Lia.
From Clip Require Import model.Export.
Import ListNotations.
Local Open Scope Z_scope.

Section Proofs.
  Variable E : Type.
  Variable ofc : Z -> E.
  Variable toc : E -> option Z.
  Variable ezero : E.
  Variable cmax : Z.
  Hypothesis toc_ofc : forall n, 0 <= n < cmax -> toc (ofc n) = Some n.

  Notation vertex := (vertex E).
  Notation cpath := (cpath E).
  Notation cpaths := (cpaths E).
  Notation ptree := (ptree E).
  Notation dims := (dims E).
  Notation enc_path := (enc_path E ofc ezero).
  Notation enc_body := (enc_body E ofc ezero).
  Notation enc_paths := (enc_paths E ofc ezero).
  Notation enc_paths_buf := (enc_paths_buf E ofc ezero).
  Notation dec_paths := (dec_paths E toc).
  Notation dec_path := (dec_path E toc).
  Notation enc_node := (enc_node E ofc).
  Notation enc_tree := (enc_tree E ofc).
  Notation enc_tree_buf := (enc_tree_buf E ofc ezero).
  Notation dec_tree := (dec_tree E toc).

  (* ------------------------------------------------------------------ lengths *)
  Lemma concat_dims D (p : cpath) : Forall (dims D) p -> length (concat p) = (length p * D)%nat.
  Proof.
    induction 1 as [|v p Hv Hp IH]; [reflexivity|].
    cbn [concat length]. rewrite app_length, IH. unfold Export.dims in Hv. lia.
  Qed.

  Lemma enc_path_len D (p : cpath) : Forall (dims D) p -> length (enc_path p) = (length p * D + 2)%nat.
  Proof. intros H. unfold Export.enc_path. cbn [length]. rewrite (concat_dims D p H). lia. Qed.

  Lemma enc_body_filter (ps : cpaths) : enc_body ps = flat_map enc_path (filter nonempty ps).
  Proof.
    induction ps as [|p ps IH]; [reflexivity|].
    unfold Export.enc_body in *. cbn [flat_map filter].
    destruct (nonempty p); cbn [flat_map]; rewrite IH; reflexivity.
  Qed.

  Lemma count_len_spec D (ps : cpaths) : Forall (Forall (dims D)) ps -> forall c l,
    count_len E D ps c l = ((c + length (filter nonempty ps))%nat, (l + length (enc_body ps))%nat).
  Proof.
    induction 1 as [|p ps Hp Hps IH]; intros c l.
    - cbn. f_equal; lia.
    - cbn [count_len filter]. unfold Export.enc_body in *. cbn [flat_map].
      destruct (nonempty p) eqn:Hne.
      + rewrite IH. cbn [length]. rewrite app_length, (enc_path_len D p Hp). f_equal; lia.
      + rewrite IH. cbn [app]. reflexivity.
  Qed.

  Lemma paths_cnt_spec D (ps : cpaths) : Forall (Forall (dims D)) ps -> paths_cnt E D ps = length (filter nonempty ps).
  Proof. intros H. unfold paths_cnt. rewrite (count_len_spec D ps H). reflexivity. Qed.

  Lemma paths_len_spec D (ps : cpaths) : Forall (Forall (dims D)) ps -> paths_len E D ps = length (enc_paths D ps).
  Proof.
    intros H. unfold paths_len. rewrite (count_len_spec D ps H). unfold Export.enc_paths. cbn [snd length]. lia.
  Qed.

  (* the array's first element is the number of elements written, the second the number of
     non-empty paths *)
  Lemma enc_len D (ps : cpaths) : Forall (Forall (dims D)) ps ->
    nth_error (enc_paths D ps) 0 = Some (ofc (Z.of_nat (length (enc_paths D ps)))) /\
    nth_error (enc_paths D ps) 1 = Some (ofc (Z.of_nat (length (filter nonempty ps)))).
  Proof.
    intros H. split.
    - rewrite <- (paths_len_spec D ps H). reflexivity.
    - rewrite <- (paths_cnt_spec D ps H). reflexivity.
  Qed.

  (* ------------------------------------------------------------------ writing *)
  Lemma wr_app (pre : list E) y post x : wr E (pre ++ y :: post) (length pre) x = Some (pre ++ x :: post).
  Proof. induction pre as [|h pre IH]; cbn [app length wr]; [reflexivity|]. rewrite IH. reflexivity. Qed.

  Lemma wr_none (b : list E) i x : (length b <= i)%nat -> wr E b i x = None.
  Proof.
    revert i; induction b as [|h b IH]; intros i Hi; [destruct i; reflexivity|].
    cbn [length] in Hi. destruct i as [|i]; [lia|]. cbn [wr]. rewrite IH by lia. reflexivity.
  Qed.

  Lemma put_all_spec xs : forall pre junk, (length xs <= length junk)%nat ->
    put_all E (pre ++ junk, length pre) xs = Some (pre ++ xs ++ skipn (length xs) junk, (length pre + length xs)%nat).
  Proof.
    induction xs as [|x xs IH]; intros pre junk Hl.
    - cbn [put_all length skipn app]. f_equal. f_equal. lia.
    - destruct junk as [|y junk]; [cbn [length] in Hl; lia|].
      cbn [put_all]. unfold put. cbn [fst snd]. rewrite wr_app.
      replace (pre ++ x :: junk) with ((pre ++ [x]) ++ junk) by (rewrite <- app_assoc; reflexivity).
      replace (S (length pre)) with (length (pre ++ [x])) by (rewrite app_length; cbn; lia).
      rewrite IH by (cbn [length] in Hl; lia).
      rewrite app_length. cbn [length skipn]. rewrite <- !app_assoc. cbn [app]. f_equal. f_equal. lia.
  Qed.

  (* a write past the allocation is an error in the model *)
  Lemma put_all_overflow xs : forall pre junk, (length junk < length xs)%nat ->
    put_all E (pre ++ junk, length pre) xs = None.
  Proof.
    induction xs as [|x xs IH]; intros pre junk Hl; [cbn [length] in Hl; lia|].
    cbn [put_all]. unfold put. cbn [fst snd].
    destruct junk as [|y junk].
    - rewrite wr_none; [reflexivity|]. rewrite app_nil_r. lia.
    - rewrite wr_app.
      replace (pre ++ x :: junk) with ((pre ++ [x]) ++ junk) by (rewrite <- app_assoc; reflexivity).
      replace (S (length pre)) with (length (pre ++ [x])) by (rewrite app_length; cbn; lia).
      apply IH. cbn [length] in Hl. lia.
  Qed.

  Lemma put_all_app s xs ys :
    put_all E s (xs ++ ys) = match put_all E s xs with Some s' => put_all E s' ys | None => None end.
  Proof.
    revert s; induction xs as [|x xs IH]; intros s; [reflexivity|].
    cbn [app put_all]. destruct (put E s x); [apply IH|reflexivity].
  Qed.

  Lemma put_verts_eq (p : cpath) : forall s, put_verts E s p = put_all E s (concat p).
  Proof.
    induction p as [|v p IH]; intros s; [reflexivity|].
    cbn [put_verts concat]. rewrite put_all_app. destruct (put_all E s v); [apply IH|reflexivity].
  Qed.

  Lemma put_path_eq (p : cpath) s :
    put_path E ofc ezero s p = put_all E s (if nonempty p then enc_path p else []).
  Proof.
    unfold put_path. destruct (nonempty p); [|reflexivity].
    unfold Export.enc_path. cbn [put_all].
    destruct (put E s _) as [s1|]; [|reflexivity].
    destruct (put E s1 ezero) as [s2|]; [|reflexivity]. apply put_verts_eq.
  Qed.

  Lemma put_paths_eq (ps : cpaths) : forall s, put_paths E ofc ezero s ps = put_all E s (enc_body ps).
  Proof.
    induction ps as [|p ps IH]; intros s; [reflexivity|].
    cbn [put_paths]. unfold Export.enc_body in *. cbn [flat_map]. rewrite put_all_app, put_path_eq.
    destruct (put_all E s _); [apply IH|reflexivity].
  Qed.

  Lemma enc_paths_buf_eq D (ps : cpaths) :
    enc_paths_buf D ps = put_all E (repeat ezero (paths_len E D ps), O) (enc_paths D ps).
  Proof.
    unfold Export.enc_paths_buf, Export.enc_paths. cbn [put_all].
    destruct (put E _ _) as [s1|]; [|reflexivity].
    destruct (put E s1 _) as [s2|]; [|reflexivity]. apply put_paths_eq.
  Qed.

  (* no write of CreateCPathsFromPathsT leaves the allocation, every allocated element is written,
     and the array is the documented layout *)
  Lemma enc_paths_buf_ok D (ps : cpaths) : Forall (Forall (dims D)) ps ->
    enc_paths_buf D ps = Some (enc_paths D ps, length (enc_paths D ps)).
  Proof.
    intros H. rewrite enc_paths_buf_eq, (paths_len_spec D ps H).
    pose proof (put_all_spec (enc_paths D ps) [] (repeat ezero (length (enc_paths D ps)))) as P.
    cbn [app length] in P. rewrite P by (rewrite repeat_length; lia).
    rewrite skipn_all2 by (rewrite repeat_length; lia). rewrite app_nil_r. reflexivity.
  Qed.

  (* an allocation shorter than the layout makes the model fail: the bounds check is not vacuous *)
  Lemma enc_paths_short_alloc_fails D (ps : cpaths) n : (n < length (enc_paths D ps))%nat ->
    put_all E (repeat ezero n, O) (enc_paths D ps) = None.
  Proof.
    intros H. pose proof (put_all_overflow (enc_paths D ps) [] (repeat ezero n)) as P.
    cbn [app length] in P. apply P. rewrite repeat_length. exact H.
  Qed.

  (* ------------------------------------------------------------------ reading *)
  Lemma rd_some a lim i x : rd E a lim i = Some x -> (i < lim)%nat /\ nth_error a i = Some x.
  Proof.
    unfold rd. destruct (i <? lim)%nat eqn:Hi; [|discriminate].
    apply Nat.ltb_lt in Hi. auto.
  Qed.

  Lemma rd_mid (pre : list E) x post lim : (length pre < lim)%nat ->
    rd E (pre ++ x :: post) lim (length pre) = Some x.
  Proof.
    intros H. unfold rd. apply Nat.ltb_lt in H. rewrite H.
    rewrite nth_error_app2 by lia. rewrite Nat.sub_diag. reflexivity.
  Qed.

  Lemma rd_vertex_spec (vx : vertex) : forall pre post lim, (length pre + length vx <= lim)%nat ->
    rd_vertex E (pre ++ vx ++ post) lim (length vx) (length pre) = Some vx.
  Proof.
    induction vx as [|x vx IH]; intros pre post lim Hl; [reflexivity|].
    cbn [length] in *. cbn [rd_vertex app]. rewrite rd_mid by lia.
    replace (pre ++ x :: vx ++ post) with ((pre ++ [x]) ++ vx ++ post) by (rewrite <- app_assoc; reflexivity).
    replace (S (length pre)) with (length (pre ++ [x])) by (rewrite app_length; cbn; lia).
    rewrite IH by (rewrite app_length; cbn [length]; lia). reflexivity.
  Qed.

  Lemma rd_verts_spec D (p : cpath) : forall a pre post lim fuel,
    a = pre ++ concat p ++ post ->
    Forall (dims D) p -> (length p <= fuel)%nat -> (length pre + length (concat p) <= lim)%nat ->
    rd_verts E fuel a lim D (Z.of_nat (length p)) (length pre) = Some (p, (length pre + length (concat p))%nat).
  Proof.
    induction p as [|vx p IH]; intros a pre post lim fuel Ha Hd Hf Hl.
    - cbn [length concat]. destruct fuel; cbn [rd_verts Z.of_nat Z.leb Z.compare]; f_equal; f_equal; lia.
    - apply Forall_cons_iff in Hd as [Hvx Hp]. unfold Export.dims in Hvx.
      cbn [length] in Hf. destruct fuel as [|f]; [lia|].
      cbn [rd_verts]. replace (Z.of_nat (length (vx :: p)) <=? 0) with false
        by (symmetry; apply Z.leb_gt; cbn [length]; lia).
      cbn [concat] in *. rewrite app_length in Hl.
      rewrite Ha at 1. rewrite <- app_assoc. rewrite <- Hvx at 1.
      rewrite rd_vertex_spec by lia.
      replace (Z.of_nat (length (vx :: p)) - 1) with (Z.of_nat (length p)) by (cbn [length]; lia).
      replace (length pre + D)%nat with (length (pre ++ vx)) by (rewrite app_length; lia).
      rewrite (IH a (pre ++ vx) post lim f).
      + rewrite !app_length. f_equal. f_equal. lia.
      + rewrite Ha. rewrite <- !app_assoc. reflexivity.
      + exact Hp.
      + lia.
      + rewrite app_length. lia.
  Qed.

  Lemma len_le_concat D (p : cpath) : (0 < D)%nat -> Forall (dims D) p -> (length p <= length (concat p))%nat.
  Proof. intros HD H. rewrite (concat_dims D p H). nia. Qed.

  Lemma dec_loop_spec D (qs : cpaths) : (0 < D)%nat -> forall a pre post lim fuel,
    a = pre ++ flat_map enc_path qs ++ post ->
    Forall (Forall (dims D)) qs -> (length qs <= fuel)%nat ->
    (length pre + length (flat_map enc_path qs) <= lim)%nat ->
    Z.of_nat (length a) < cmax ->
    dec_loop E toc fuel a lim D (Z.of_nat (length qs)) (length pre)
      = Some (qs, (length pre + length (flat_map enc_path qs))%nat).
  Proof.
    intros HD. induction qs as [|q qs IH]; intros a pre post lim fuel Ha Hd Hf Hl Hc.
    - cbn [length flat_map]. destruct fuel; cbn [dec_loop Z.of_nat Z.leb Z.compare]; f_equal; f_equal; lia.
    - apply Forall_cons_iff in Hd as [Hq Hqs].
      cbn [length] in Hf. destruct fuel as [|f]; [lia|].
      cbn [dec_loop]. replace (Z.of_nat (length (q :: qs)) <=? 0) with false
        by (symmetry; apply Z.leb_gt; cbn [length]; lia).
      cbn [flat_map] in *. rewrite app_length in Hl.
      pose proof (enc_path_len D q Hq) as Hql.
      assert (Hla : (length pre + length (enc_path q) + length (flat_map enc_path qs) + length post = length a)%nat).
      { rewrite Ha. rewrite !app_length. lia. }
      (* the vertex count *)
      unfold rd_cnt.
      assert (R1 : rd E a lim (length pre) = Some (ofc (Z.of_nat (length q)))).
      { rewrite Ha. unfold Export.enc_path. rewrite <- app_assoc. cbn [app]. apply rd_mid. lia. }
      rewrite R1. rewrite toc_ofc by (pose proof (len_le_concat D q HD Hq); rewrite (concat_dims D q Hq) in *; nia).
      (* the vertices *)
      replace (length pre + 2)%nat with (length (pre ++ [ofc (Z.of_nat (length q)); ezero]))
        by (rewrite app_length; cbn [length]; lia).
      rewrite (rd_verts_spec D q a (pre ++ [ofc (Z.of_nat (length q)); ezero]) (flat_map enc_path qs ++ post) lim (S (length a))).
      + replace (Z.of_nat (length (q :: qs)) - 1) with (Z.of_nat (length qs)) by (cbn [length]; lia).
        replace (length (pre ++ [ofc (Z.of_nat (length q)); ezero]) + length (concat q))%nat
          with (length (pre ++ enc_path q)) by (unfold Export.enc_path; rewrite !app_length; cbn [length]; lia).
        rewrite (IH a (pre ++ enc_path q) post lim f).
        * rewrite !app_length. f_equal. f_equal. lia.
        * rewrite Ha. rewrite <- !app_assoc. reflexivity.
        * exact Hqs.
        * lia.
        * rewrite app_length. lia.
        * exact Hc.
      + rewrite Ha. unfold Export.enc_path. rewrite <- !app_assoc. reflexivity.
      + exact Hq.
      + pose proof (len_le_concat D q HD Hq). rewrite (concat_dims D q Hq) in *. lia.
      + rewrite app_length. cbn [length]. rewrite (concat_dims D q Hq). lia.
  Qed.

  (* ------------------------------------------------------------------ round trip: paths *)
  Lemma filter_dims D (ps : cpaths) : Forall (Forall (dims D)) ps -> Forall (Forall (dims D)) (filter nonempty ps).
  Proof. intros H. apply Forall_forall. intros p Hp. apply filter_In in Hp as [Hp _]. revert p Hp. apply Forall_forall. exact H. Qed.

  Lemma filter_len_le D (ps : cpaths) : (0 < D)%nat -> Forall (Forall (dims D)) ps ->
    (2 * length (filter nonempty ps) <= length (enc_body ps))%nat.
  Proof.
    intros HD. induction 1 as [|p ps Hp Hps IH]; [cbn; lia|].
    unfold Export.enc_body in *. cbn [filter flat_map]. destruct (nonempty p).
    - cbn [length]. rewrite app_length, (enc_path_len D p Hp). lia.
    - cbn [app]. exact IH.
  Qed.

  Lemma dec_enc_paths D (ps : cpaths) : (0 < D)%nat -> Forall (Forall (dims D)) ps ->
    Z.of_nat (length (enc_paths D ps)) < cmax ->
    dec_paths D (enc_paths D ps) = Some (filter nonempty ps).
  Proof.
    intros HD H Hc.
    pose proof (paths_len_spec D ps H) as HL. pose proof (paths_cnt_spec D ps H) as HC.
    pose proof (filter_len_le D ps HD H) as HF.
    assert (Hlen : length (enc_paths D ps) = (2 + length (enc_body ps))%nat) by reflexivity.
    unfold Export.dec_paths.
    assert (S1 : stated_len E toc (enc_paths D ps) = Some (length (enc_paths D ps))).
    { unfold stated_len, Export.enc_paths at 1. rewrite HL. rewrite toc_ofc by lia. rewrite Nat2Z.id. reflexivity. }
    rewrite S1.
    assert (R1 : rd_cnt E toc (enc_paths D ps) (length (enc_paths D ps)) 1 = Some (Z.of_nat (length (filter nonempty ps)))).
    { unfold rd_cnt, rd. replace (1 <? length (enc_paths D ps))%nat with true by (symmetry; apply Nat.ltb_lt; lia).
      unfold Export.enc_paths at 1. cbn [nth_error]. rewrite HC. apply toc_ofc. lia. }
    rewrite R1.
    pose proof (dec_loop_spec D (filter nonempty ps) HD (enc_paths D ps)
                  [ofc (Z.of_nat (paths_len E D ps)); ofc (Z.of_nat (paths_cnt E D ps))] []
                  (length (enc_paths D ps)) (S (length (enc_paths D ps)))) as P.
    match goal with |- match ?X with _ => _ end = _ =>
      assert (Q : X = Some (filter nonempty ps, (2 + length (flat_map enc_path (filter nonempty ps)))%nat));
      [ | rewrite Q; reflexivity ] end.
    apply P.
    - unfold Export.enc_paths. rewrite enc_body_filter, app_nil_r. reflexivity.
    - apply filter_dims. exact H.
    - unfold Export.cpaths, Export.cpath, Export.vertex in *; lia.
    - rewrite <- enc_body_filter. cbn [length]. unfold Export.cpaths, Export.cpath, Export.vertex in *; lia.
    - exact Hc.
  Qed.

  (* ------------------------------------------------------------------ caller-built arrays *)
  Lemma flat_enc_len_ge (ps : cpaths) : (2 * length ps <= length (flat_map enc_path ps))%nat.
  Proof.
    induction ps as [|p ps IH]; [cbn; lia|].
    cbn [flat_map length]. rewrite app_length. unfold Export.enc_path at 1. cbn [length]. lia.
  Qed.

  (* ConvertCPathsToPathsT on an array built by a caller from the documented layout, every path an entry
     (an empty one as [0; 0]): exactly those paths come back, the empty ones included, in order *)
  Lemma dec_enc_paths_raw D (ps : cpaths) : (0 < D)%nat -> Forall (Forall (dims D)) ps ->
    Z.of_nat (length (enc_paths_raw E ofc ezero ps)) < cmax ->
    dec_paths D (enc_paths_raw E ofc ezero ps) = Some ps.
  Proof.
    intros HD H Hc.
    pose proof (flat_enc_len_ge ps) as HF.
    set (a := enc_paths_raw E ofc ezero ps) in *.
    assert (Hlen : length a = (2 + length (flat_map enc_path ps))%nat) by reflexivity.
    unfold Export.dec_paths.
    assert (S1 : stated_len E toc a = Some (length a)).
    { unfold stated_len, a, Export.enc_paths_raw. cbv zeta. rewrite toc_ofc by (fold a in Hc; lia).
      rewrite Nat2Z.id. reflexivity. }
    rewrite S1.
    assert (R1 : rd_cnt E toc a (length a) 1 = Some (Z.of_nat (length ps))).
    { unfold rd_cnt, rd. replace (1 <? length a)%nat with true by (symmetry; apply Nat.ltb_lt; lia).
      unfold a, Export.enc_paths_raw. cbv zeta. cbn [nth_error]. apply toc_ofc.
      unfold Export.cpaths, Export.cpath, Export.vertex in *; lia. }
    rewrite R1.
    pose proof (dec_loop_spec D ps HD a
                  [ofc (Z.of_nat (2 + length (flat_map enc_path ps))); ofc (Z.of_nat (length ps))] []
                  (length a) (S (length a))) as P.
    match goal with |- match ?X with _ => _ end = _ =>
      assert (Q : X = Some (ps, (2 + length (flat_map enc_path ps))%nat));
      [ | rewrite Q; reflexivity ] end.
    apply P.
    - unfold a, Export.enc_paths_raw. cbv zeta. rewrite app_nil_r. reflexivity.
    - exact H.
    - unfold Export.cpaths, Export.cpath, Export.vertex in *; lia.
    - cbn [length]. lia.
    - exact Hc.
  Qed.

  (* its first element is the number of elements, its second the number of entries *)
  Lemma enc_raw_len (ps : cpaths) :
    nth_error (enc_paths_raw E ofc ezero ps) 0 = Some (ofc (Z.of_nat (length (enc_paths_raw E ofc ezero ps)))) /\
    nth_error (enc_paths_raw E ofc ezero ps) 1 = Some (ofc (Z.of_nat (length ps))).
  Proof. split; reflexivity. Qed.

  (* where no path is empty the caller-built array is the array the library's own creator writes *)
  Lemma enc_raw_eq_enc D (ps : cpaths) : Forall (Forall (dims D)) ps -> filter nonempty ps = ps ->
    enc_paths_raw E ofc ezero ps = enc_paths D ps.
  Proof.
    intros H Hf. unfold Export.enc_paths_raw, Export.enc_paths. cbv zeta.
    rewrite (paths_cnt_spec D ps H). pose proof (paths_len_spec D ps H) as HL. rewrite HL.
    unfold Export.enc_paths. cbn [length]. rewrite enc_body_filter, Hf. reflexivity.
  Qed.

  (* every read of the decoder on an encoder output is inside the stated length: the checked decoder
     does not fail *)
  Lemma dec_enc_paths_in_bounds D (ps : cpaths) : (0 < D)%nat -> Forall (Forall (dims D)) ps ->
    Z.of_nat (length (enc_paths D ps)) < cmax ->
    dec_paths D (enc_paths D ps) <> None.
  Proof. intros HD H Hc. rewrite (dec_enc_paths D ps HD H Hc). discriminate. Qed.

  (* the D creators return nullptr for an empty set; nullptr decodes to the empty set *)
  Lemma dec_enc_paths_d D (ps : cpaths) : (0 < D)%nat -> Forall (Forall (dims D)) ps ->
    Z.of_nat (length (enc_paths D ps)) < cmax ->
    dec_paths_opt E toc D (enc_paths_d E ofc ezero D ps) = Some (filter nonempty ps).
  Proof.
    intros HD H Hc. destruct ps as [|p ps]; [reflexivity|].
    cbn [enc_paths_d dec_paths_opt]. apply dec_enc_paths; assumption.
  Qed.

  (* ------------------------------------------------------------------ single path *)
  Lemma dec_enc_path D (p : cpath) : (0 < D)%nat -> Forall (dims D) p ->
    Z.of_nat (length (enc_path p)) < cmax ->
    dec_path D (enc_path p) = Some p.
  Proof.
    intros HD H Hc. pose proof (enc_path_len D p H) as HL. pose proof (len_le_concat D p HD H) as HP.
    rewrite (concat_dims D p H) in HP.
    unfold Export.dec_path.
    assert (R1 : rd_cnt E toc (enc_path p) (length (enc_path p)) 0 = Some (Z.of_nat (length p))).
    { unfold rd_cnt, rd. replace (0 <? length (enc_path p))%nat with true by (symmetry; apply Nat.ltb_lt; lia).
      unfold Export.enc_path at 1. cbn [nth_error]. apply toc_ofc. lia. }
    rewrite R1.
    pose proof (rd_verts_spec D p (enc_path p) [ofc (Z.of_nat (length p)); ezero] []
                  (length (enc_path p)) (S (length (enc_path p)))) as P.
    match goal with |- match ?X with _ => _ end = _ =>
      assert (Q : X = Some (p, (2 + length (concat p))%nat));
      [ | rewrite Q; reflexivity ] end.
    apply P.
    - unfold Export.enc_path. rewrite app_nil_r. reflexivity.
    - exact H.
    - lia.
    - rewrite (concat_dims D p H). cbn [length]. lia.
  Qed.

  (* ------------------------------------------------------------------ trees *)
  Lemma ptree_ind' (P : ptree -> Prop) :
    (forall poly ch, Forall P ch -> P (PNode poly ch)) -> forall t, P t.
  Proof.
    intros H. fix IH 1. intros [poly ch]. apply H.
    induction ch as [|c ch IHch]; constructor; [apply IH|exact IHch].
  Qed.

  Inductive tdims (D : nat) : ptree -> Prop :=
  | tdims_node poly ch : Forall (dims D) poly -> Forall (tdims D) ch -> tdims D (PNode poly ch).

  Lemma tdims_inv D poly ch : tdims D (PNode poly ch) -> Forall (dims D) poly /\ Forall (tdims D) ch.
  Proof. intros H. inversion H. auto. Qed.

  Definition forest_len (D : nat) (ts : list ptree) : nat := fold_right (fun c acc => node_len E D c + acc)%nat O ts.

  Lemma enc_node_len D : forall t, tdims D t -> length (enc_node t) = node_len E D t.
  Proof.
    induction t as [poly ch IH] using ptree_ind'. intros Ht. apply tdims_inv in Ht as [Hp Hch].
    cbn [Export.enc_node node_len length]. rewrite app_length, (concat_dims D poly Hp).
    assert (length (flat_map enc_node ch) = fold_right (fun c acc => node_len E D c + acc)%nat O ch) as ->.
    { induction ch as [|c ch IHc]; [reflexivity|].
      apply Forall_cons_iff in IH as [IH1 IH2]. apply Forall_cons_iff in Hch as [Hc1 Hc2].
      cbn [flat_map fold_right]. rewrite app_length, IH1, IHc by assumption. reflexivity. }
    lia.
  Qed.

  Lemma forest_enc_len D ts : Forall (tdims D) ts -> length (flat_map enc_node ts) = forest_len D ts.
  Proof.
    induction 1 as [|t ts Ht Hts IH]; [reflexivity|].
    cbn [flat_map]. unfold forest_len in *. cbn [fold_right]. rewrite app_length, (enc_node_len D t Ht), IH. reflexivity.
  Qed.

  (* the stated length A equals the number of elements written whenever the root carries no polygon *)
  Lemma tree_len D ch a : Forall (tdims D) ch -> enc_tree D (PNode [] ch) = Some a ->
    nth_error a 0 = Some (ofc (Z.of_nat (length a))) /\ nth_error a 1 = Some (ofc (Z.of_nat (length ch))).
  Proof.
    intros H Ha. unfold Export.enc_tree in Ha. cbn [t_children] in Ha. destruct ch as [|c ch]; [discriminate|].
    remember (c :: ch) as ts eqn:Ets.
    assert (Ea : a = ofc (Z.of_nat (node_len E D (PNode [] ts))) :: ofc (Z.of_nat (length ts)) :: flat_map enc_node ts)
      by congruence.
    clear Ha. subst a. split; [|reflexivity].
    cbn [nth_error]. do 3 f_equal.
    cbn [length node_len]. rewrite (forest_enc_len D ts H). unfold forest_len. lia.
  Qed.

  Lemma put_nodes_go (ch : list ptree) : forall s,
    (fix go (l : list ptree) (s : wst E) : option (wst E) :=
       match l with
       | [] => Some s
       | c :: r => match put_node E ofc c s with Some s' => go r s' | None => None end
       end) ch s = put_nodes E ofc ch s.
  Proof. induction ch as [|c ch IH]; intros s; [reflexivity|]. cbn [put_nodes]. destruct (put_node E ofc c s); [apply IH|reflexivity]. Qed.

  Lemma put_node_eq : forall t s, put_node E ofc t s = put_all E s (enc_node t).
  Proof.
    induction t as [poly ch IH] using ptree_ind'. intros s.
    cbn [put_node Export.enc_node put_all].
    destruct (put E s _) as [s1|]; [|reflexivity].
    destruct (put E s1 _) as [s2|]; [|reflexivity].
    rewrite put_all_app, <- put_verts_eq.
    destruct (put_verts E s2 poly) as [s3|]; [|reflexivity].
    clear s s1 s2. revert s3. induction ch as [|c ch IHc]; intros s; [reflexivity|].
    apply Forall_cons_iff in IH as [IH1 IH2].
    cbn [flat_map]. rewrite put_all_app, <- IH1. destruct (put_node E ofc c s); [apply IHc; exact IH2|reflexivity].
  Qed.

  Lemma put_nodes_eq ts : forall s, put_nodes E ofc ts s = put_all E s (flat_map enc_node ts).
  Proof.
    induction ts as [|t ts IH]; intros s; [reflexivity|].
    cbn [put_nodes flat_map]. rewrite put_all_app, put_node_eq. destruct (put_all E s _); [apply IH|reflexivity].
  Qed.

  (* CreateCPolyTree64/D writes exactly the allocated elements, in the documented layout *)
  Lemma enc_tree_buf_ok D ch : Forall (tdims D) ch ->
    enc_tree_buf D (PNode [] ch) =
      Some (match enc_tree D (PNode [] ch) with Some a => Some (a, length a) | None => None end).
  Proof.
    intros H. unfold Export.enc_tree_buf, Export.enc_tree. cbn [t_children].
    destruct ch as [|c ch]; [reflexivity|].
    set (a := ofc (Z.of_nat (node_len E D (PNode [] (c :: ch)))) :: ofc (Z.of_nat (length (c :: ch))) :: flat_map enc_node (c :: ch)).
    assert (Hl : node_len E D (PNode [] (c :: ch)) = length a).
    { unfold a. cbn [length node_len]. rewrite (forest_enc_len D (c :: ch) H). unfold forest_len. lia. }
    assert (put_all E (repeat ezero (node_len E D (PNode [] (c :: ch))), O) a = Some (a, length a)) as P.
    { pose proof (put_all_spec a [] (repeat ezero (length a))) as P. cbn [app length] in P.
      rewrite Hl, P by (rewrite repeat_length; lia).
      rewrite skipn_all2 by (rewrite repeat_length; lia). rewrite app_nil_r. reflexivity. }
    unfold a in P at 1. cbn [put_all] in P.
    destruct (put E _ _) as [s1|]; [|discriminate].
    destruct (put E s1 _) as [s2|]; [|discriminate].
    rewrite put_nodes_eq, P. reflexivity.
  Qed.

  (* decoding [length ts] sibling nodes *)
  Definition dec_ok (D : nat) (ts : list ptree) : Prop :=
    forall a pre post lim fuel,
      a = pre ++ flat_map enc_node ts ++ post ->
      Forall (tdims D) ts -> (length (flat_map enc_node ts) <= fuel)%nat ->
      (length pre + length (flat_map enc_node ts) <= lim)%nat ->
      Z.of_nat (length a) < cmax ->
      dec_nodes E toc fuel a lim D (Z.of_nat (length ts)) (length pre)
        = Some (ts, (length pre + length (flat_map enc_node ts))%nat).

  Lemma forest_count_le (ts : list ptree) : (2 * length ts <= length (flat_map enc_node ts))%nat.
  Proof.
    induction ts as [|t ts IH]; [cbn; lia|].
    cbn [flat_map length]. rewrite app_length. destruct t as [poly ch]. cbn [Export.enc_node length]. lia.
  Qed.

  Lemma dec_forest D ts : (0 < D)%nat -> Forall (fun t => dec_ok D (t_children E t)) ts -> dec_ok D ts.
  Proof.
    intros HD. induction ts as [|t ts IH]; intros Hch a pre post lim fuel Ha Hd Hf Hl Hc.
    - cbn [length flat_map]. destruct fuel; cbn [dec_nodes Z.of_nat Z.leb Z.compare]; f_equal; f_equal; lia.
    - apply Forall_cons_iff in Hch as [Hch1 Hch2]. apply Forall_cons_iff in Hd as [Ht Hts].
      destruct t as [poly ch]. cbn [t_children] in Hch1. apply tdims_inv in Ht as [Hp Hchd].
      cbn [flat_map] in *. rewrite app_length in Hf, Hl.
      cbn [Export.enc_node length] in Hf, Hl. rewrite app_length in Hf, Hl.
      pose proof (concat_dims D poly Hp) as Hcp. pose proof (forest_count_le ch) as Hcc.
      assert (Hla : (length pre + (2 + length (concat poly) + length (flat_map enc_node ch))
                     + length (flat_map enc_node ts) + length post = length a)%nat).
      { rewrite Ha. rewrite !app_length. cbn [Export.enc_node length]. rewrite app_length. lia. }
      destruct fuel as [|f]; [lia|].
      cbn [dec_nodes]. replace (Z.of_nat (length (PNode poly ch :: ts)) <=? 0) with false
        by (symmetry; apply Z.leb_gt; cbn [length]; lia).
      unfold rd_cnt.
      assert (R1 : rd E a lim (length pre) = Some (ofc (Z.of_nat (length poly)))).
      { rewrite Ha. cbn [Export.enc_node]. rewrite <- app_assoc. cbn [app]. apply rd_mid. lia. }
      assert (R2 : rd E a lim (S (length pre)) = Some (ofc (Z.of_nat (length ch)))).
      { rewrite Ha. cbn [Export.enc_node]. rewrite <- app_assoc. cbn [app].
        replace (pre ++ ofc (Z.of_nat (length poly)) :: ofc (Z.of_nat (length ch)) :: (concat poly ++ flat_map enc_node ch) ++ flat_map enc_node ts ++ post)
          with ((pre ++ [ofc (Z.of_nat (length poly))]) ++ ofc (Z.of_nat (length ch)) :: (concat poly ++ flat_map enc_node ch) ++ flat_map enc_node ts ++ post)
          by (rewrite <- app_assoc; reflexivity).
        replace (S (length pre)) with (length (pre ++ [ofc (Z.of_nat (length poly))])) by (rewrite app_length; cbn; lia).
        apply rd_mid. rewrite app_length. cbn [length]. lia. }
      rewrite R1, R2.
      rewrite !toc_ofc by nia.
      set (hdr := [ofc (Z.of_nat (length poly)); ofc (Z.of_nat (length ch))]).
      assert (Hhdr : length hdr = 2%nat) by reflexivity.
      replace (length pre + 2)%nat with (length (pre ++ hdr)) by (rewrite app_length; lia).
      rewrite (rd_verts_spec D poly a (pre ++ hdr) (flat_map enc_node ch ++ flat_map enc_node ts ++ post) lim (S (length a))).
      + replace (length (pre ++ hdr) + length (concat poly))%nat with (length (pre ++ hdr ++ concat poly))
          by (rewrite !app_length; lia).
        rewrite (Hch1 a (pre ++ hdr ++ concat poly) (flat_map enc_node ts ++ post) lim f).
        * replace (Z.of_nat (length (PNode poly ch :: ts)) - 1) with (Z.of_nat (length ts)) by (cbn [length]; lia).
          replace (length (pre ++ hdr ++ concat poly) + length (flat_map enc_node ch))%nat
            with (length (pre ++ enc_node (PNode poly ch)))
            by (cbn [Export.enc_node]; rewrite !app_length; cbn [length]; rewrite app_length; lia).
          rewrite (IH Hch2 a (pre ++ enc_node (PNode poly ch)) post lim f).
          -- rewrite !app_length. cbn [Export.enc_node length]. rewrite app_length. f_equal. f_equal. lia.
          -- rewrite Ha. rewrite <- !app_assoc. reflexivity.
          -- exact Hts.
          -- lia.
          -- rewrite app_length. cbn [Export.enc_node length]. rewrite app_length. lia.
          -- exact Hc.
        * rewrite Ha. cbn [Export.enc_node]. unfold hdr. rewrite <- !app_assoc. cbn [app]. rewrite <- !app_assoc. reflexivity.
        * exact Hchd.
        * lia.
        * rewrite !app_length. lia.
        * exact Hc.
      + rewrite Ha. cbn [Export.enc_node]. unfold hdr. rewrite <- !app_assoc. cbn [app]. rewrite <- !app_assoc. reflexivity.
      + exact Hp.
      + nia.
      + rewrite app_length. lia.
  Qed.

  Lemma dec_children D : (0 < D)%nat -> forall t, dec_ok D (t_children E t).
  Proof.
    intros HD. induction t as [poly ch IH] using ptree_ind'. cbn [t_children]. apply dec_forest; assumption.
  Qed.

  Lemma dec_any_forest D ts : (0 < D)%nat -> dec_ok D ts.
  Proof. intros HD. apply dec_forest; [exact HD|]. apply Forall_forall. intros t _. apply dec_children. exact HD. Qed.

  Lemma dec_enc_tree D ch a : (0 < D)%nat -> Forall (tdims D) ch ->
    enc_tree D (PNode [] ch) = Some a -> Z.of_nat (length a) < cmax ->
    dec_tree D a = Some (PNode [] ch).
  Proof.
    intros HD H Ha Hc. pose proof (tree_len D ch a H Ha) as [L0 L1].
    unfold Export.enc_tree in Ha. cbn [t_children] in Ha. destruct ch as [|c ch]; [discriminate|].
    injection Ha as Ha. 
    pose proof (forest_count_le (c :: ch)) as Hcc.
    assert (Hlen : length a = (2 + length (flat_map enc_node (c :: ch)))%nat) by (rewrite <- Ha; reflexivity).
    unfold Export.dec_tree.
    assert (S1 : stated_len E toc a = Some (length a)).
    { unfold stated_len. destruct a as [|x a']; [discriminate|]. cbn [nth_error length] in *. injection L0 as L0.
      rewrite L0. rewrite toc_ofc by lia. f_equal. lia. }
    rewrite S1.
    assert (R1 : rd_cnt E toc a (length a) 1 = Some (Z.of_nat (length (c :: ch)))).
    { unfold rd_cnt, rd. replace (1 <? length a)%nat with true by (symmetry; apply Nat.ltb_lt; lia).
      rewrite L1. apply toc_ofc. lia. }
    rewrite R1.
    pose proof (dec_any_forest D (c :: ch) HD a
                  [ofc (Z.of_nat (node_len E D (PNode [] (c :: ch)))); ofc (Z.of_nat (length (c :: ch)))] []
                  (length a) (S (length a))) as P.
    match goal with |- match ?X with _ => _ end = _ =>
      assert (Q : X = Some (c :: ch, (2 + length (flat_map enc_node (c :: ch)))%nat));
      [ | rewrite Q; reflexivity ] end.
    apply P.
    - rewrite <- Ha. rewrite app_nil_r. reflexivity.
    - exact H.
    - lia.
    - cbn [length] in *. lia.
    - exact Hc.
  Qed.

  Lemma dec_enc_tree_opt D ch : (0 < D)%nat -> Forall (tdims D) ch ->
    (forall a, enc_tree D (PNode [] ch) = Some a -> Z.of_nat (length a) < cmax) ->
    dec_tree_opt E toc D (enc_tree D (PNode [] ch)) = Some (PNode [] ch).
  Proof.
    intros HD H Hc. destruct (enc_tree D (PNode [] ch)) as [a|] eqn:Ea.
    - cbn [dec_tree_opt]. apply (dec_enc_tree D ch a HD H Ea). apply Hc. reflexivity.
    - unfold Export.enc_tree in Ea. cbn [t_children] in Ea. destruct ch; [reflexivity|discriminate].
  Qed.
End Proofs.
