(* proofs/Owner.v -- lemmas about model/Owner.v (property C04).

   Part 1: the owner graph.  For every history of owner edits whose SetOwner calls have two different, existing
           OutRecs (what every call site guarantees), the owner graph stays a forest, every owner-chasing loop
           (GetRealOutRec, IsValidOwner, both loops of SetOwner) terminates, and the fuel the executable model uses
           (number of OutRecs + 1) is enough, so a HANG answer of the oracle is a genuine non-termination.
   Part 2: the owner search of BuildTree64: every parent the tree uses was accepted by the code's own tests
           (Path1InsidePath2 and bounds.Contains), for every shape of RecursiveCheckOwners (see model/Owner.v). *)
From Clip Require Import model.Owner.
From Coq Require Import List Bool Arith Lia.
Import ListNotations.

(* ---------------------------------------------------------------- get / upd *)
Lemma length_upd m i f : length (upd m i f) = length m.
Proof. revert i. induction m as [|r t IH]; intros [|k]; cbn [upd length]; auto. Qed.

Lemma get_upd_same m i f : i < length m -> get (upd m i f) i = f (get m i).
Proof.
  unfold get. revert i. induction m as [|r t IH]; intros [|k] H; cbn [upd length nth] in *; try lia; auto.
  apply IH. lia.
Qed.

Lemma get_upd_other m i k f : i <> k -> get (upd m i f) k = get m k.
Proof.
  unfold get. revert i k. induction m as [|r t IH]; intros [|i] [|k] H; cbn [upd nth]; auto; try congruence.
Qed.

Lemma upd_oob m i f : length m <= i -> upd m i f = m.
Proof.
  revert i. induction m as [|r t IH]; intros [|k] H; cbn [upd length] in *; auto; try lia.
  f_equal. apply IH. lia.
Qed.

Lemma get_oob m i : length m <= i -> get m i = dflt_orec.
Proof. intros H. unfold get. apply nth_overflow. exact H. Qed.

Lemma owner_oob m i : length m <= i -> owner_of m i = None.
Proof. intros H. unfold owner_of. rewrite get_oob by exact H. reflexivity. Qed.

Lemma get_app_l m x i : i < length m -> get (m ++ [x]) i = get m i.
Proof. intros H. unfold get. apply app_nth1. exact H. Qed.

Lemma get_app_new m x : get (m ++ [x]) (length m) = x.
Proof. unfold get. rewrite app_nth2 by lia. rewrite Nat.sub_diag. reflexivity. Qed.

Lemma get_app_oob m x i : length m < i -> get (m ++ [x]) i = dflt_orec.
Proof. intros H. apply get_oob. rewrite app_length. cbn [length]. lia. Qed.

(* owner_of after the four field writes *)
Lemma owner_set_owner_same m i o : i < length m -> owner_of (set_owner_field m i o) i = o.
Proof. intros H. unfold owner_of, set_owner_field. rewrite get_upd_same by exact H. reflexivity. Qed.

Lemma owner_set_owner_other m i k o : i <> k -> owner_of (set_owner_field m i o) k = owner_of m k.
Proof. intros H. unfold owner_of, set_owner_field. rewrite get_upd_other by exact H. reflexivity. Qed.

Lemma length_set_owner m i o : length (set_owner_field m i o) = length m.
Proof. apply length_upd. Qed.

Lemma field_upd_keeps (g : orec -> orec) m i k :
  (forall r, owner (g r) = owner r) -> owner_of (upd m i g) k = owner_of m k.
Proof.
  intros Hg. unfold owner_of. destruct (Nat.eq_dec i k) as [->|Hne].
  - destruct (Nat.lt_ge_cases k (length m)) as [Hlt|Hge].
    + rewrite get_upd_same by exact Hlt. apply Hg.
    + rewrite upd_oob by exact Hge. reflexivity.
  - rewrite get_upd_other by exact Hne. reflexivity.
Qed.

Lemma owner_set_pts m i b k : owner_of (set_pts m i b) k = owner_of m k.
Proof. apply field_upd_keeps. reflexivity. Qed.
Lemma owner_set_splits m i s k : owner_of (set_splits m i s) k = owner_of m k.
Proof. apply field_upd_keeps. reflexivity. Qed.
Lemma owner_set_rsplit m i o k : owner_of (set_rsplit m i o) k = owner_of m k.
Proof. apply field_upd_keeps. reflexivity. Qed.

(* ---------------------------------------------------------------- distance to the root of the owner chain *)
Definition bounded (m : omap) : Prop := forall i o, owner_of m i = Some o -> o < length m.

Inductive dist (m : omap) : nat -> nat -> Prop :=
| dist0 i : owner_of m i = None -> dist m i 0
| distS i o d : owner_of m i = Some o -> dist m o d -> dist m i (S d).

Lemma dist_fun m i a : dist m i a -> forall b, dist m i b -> a = b.
Proof.
  induction 1 as [i H|i o d H Hd IH]; intros b Hb; inversion Hb; subst; try congruence.
  f_equal. apply IH. congruence.
Qed.

Lemma ends_dist m i : ends m i -> exists d, dist m i d.
Proof.
  induction 1 as [i H|i o H _ [d Hd]].
  - exists 0. apply dist0. exact H.
  - exists (S d). eapply distS; eauto.
Qed.

Lemma dist_ends m i d : dist m i d -> ends m i.
Proof. induction 1; [apply ends_none|eapply ends_step]; eauto. Qed.

(* the chain from j ends without visiting a node in P *)
Inductive avoids (m : omap) (P : nat -> Prop) : nat -> Prop :=
| av0 j : ~ P j -> owner_of m j = None -> avoids m P j
| avS j o : ~ P j -> owner_of m j = Some o -> avoids m P o -> avoids m P j.

Lemma avoids_ends m P j : avoids m P j -> ends m j.
Proof. induction 1; [apply ends_none|eapply ends_step]; eauto. Qed.

Lemma avoids_transfer m m' P j :
  (forall k, ~ P k -> owner_of m' k = owner_of m k) -> avoids m P j -> avoids m' P j.
Proof.
  intros Hsame. induction 1 as [j Hj H|j o Hj H _ IH].
  - apply av0; auto. rewrite Hsame; auto.
  - eapply avS; eauto. rewrite Hsame; auto.
Qed.

Lemma avoids_and m P Q j : avoids m P j -> avoids m Q j -> avoids m (fun k => P k \/ Q k) j.
Proof.
  induction 1 as [j Hj H|j o Hj H _ IH]; intros HQ; inversion HQ; subst; try congruence.
  - apply av0; tauto.
  - assert (o0 = o) by congruence. subst o0. eapply avS; [tauto|exact H|]. apply IH. assumption.
Qed.

(* nodes strictly closer to the root than i are not i *)
Lemma dist_lt_avoids m i di : dist m i di -> forall j dj, dist m j dj -> dj < di -> avoids m (fun k => k = i) j.
Proof.
  intros Hi j dj Hj. induction Hj as [j H|j o d H Hd IH]; intros Hlt.
  - apply av0; auto. intros ->. pose proof (dist_fun _ _ _ Hi _ (dist0 _ _ H)). lia.
  - eapply avS; eauto.
    + intros ->. pose proof (dist_fun _ _ _ Hi _ (distS _ _ _ _ H Hd)). lia.
    + apply IH. lia.
Qed.

(* redirecting one owner pointer to a node whose chain avoids the redirected node keeps the forest *)
Lemma redirect_acyclic m m' i t :
  acyclic m ->
  (forall k, k <> i -> owner_of m' k = owner_of m k) ->
  owner_of m' i = t ->
  (match t with None => True | Some j => avoids m (fun k => k = i) j end) ->
  acyclic m'.
Proof.
  intros Hac Hsame Hi Ht k. induction (Hac k) as [k H|k o H _ IH].
  - destruct (Nat.eq_dec k i) as [->|Hne].
    + destruct t as [j|].
      * eapply ends_step; eauto. eapply avoids_ends. eapply avoids_transfer; [|exact Ht]. intros q Hq. apply Hsame. exact Hq.
      * apply ends_none. exact Hi.
    + apply ends_none. rewrite Hsame; auto.
  - destruct (Nat.eq_dec k i) as [->|Hne].
    + destruct t as [j|].
      * eapply ends_step; eauto. eapply avoids_ends. eapply avoids_transfer; [|exact Ht]. intros q Hq. apply Hsame. exact Hq.
      * apply ends_none. exact Hi.
    + eapply ends_step; [rewrite Hsame; eauto|exact IH].
Qed.

Lemma set_owner_field_acyclic m i t :
  acyclic m -> (match t with None => True | Some j => avoids m (fun k => k = i) j end) ->
  acyclic (set_owner_field m i t).
Proof.
  intros Hac Ht. destruct (Nat.lt_ge_cases i (length m)) as [Hlt|Hge].
  - eapply redirect_acyclic with (i := i) (t := t); eauto.
    + intros k Hk. apply owner_set_owner_other. congruence.
    + apply owner_set_owner_same. exact Hlt.
  - unfold set_owner_field. rewrite upd_oob by exact Hge. exact Hac.
Qed.

Lemma set_owner_field_bounded m i t :
  bounded m -> (match t with None => True | Some j => j < length m end) -> bounded (set_owner_field m i t).
Proof.
  intros Hb Ht k o Hk. rewrite length_set_owner. destruct (Nat.eq_dec i k) as [->|Hne].
  - destruct (Nat.lt_ge_cases k (length m)) as [Hlt|Hge].
    + rewrite owner_set_owner_same in Hk by exact Hlt. subst t. exact Ht.
    + unfold set_owner_field in Hk. rewrite upd_oob in Hk by exact Hge. eapply Hb; eauto.
  - rewrite owner_set_owner_other in Hk by exact Hne. eapply Hb; eauto.
Qed.

(* ---------------------------------------------------------------- chains are short (pigeonhole) *)
Fixpoint chain (d : nat) (m : omap) (i : nat) : list nat :=
  match d with
  | O => [i]
  | S d' => i :: match owner_of m i with Some o => chain d' m o | None => [] end
  end.

Lemma chain_spec m i d : dist m i d ->
  length (chain d m i) = S d /\ (forall k, In k (chain d m i) -> exists e, e <= d /\ dist m k e) /\ NoDup (chain d m i).
Proof.
  induction 1 as [i H|i o d H Hd (IHl & IHin & IHnd)].
  - cbn [chain length]. split; [reflexivity|]. split.
    + intros k [<-|[]]. exists 0. split; [lia|]. apply dist0. exact H.
    + constructor; [intros []|constructor].
  - cbn [chain]. rewrite H. cbn [length]. split; [lia|]. split.
    + intros k [<-|Hin].
      * exists (S d). split; [lia|]. eapply distS; eauto.
      * destruct (IHin k Hin) as (e & He & Hke). exists e. split; [lia|exact Hke].
    + constructor; [|exact IHnd]. intros Hin. destruct (IHin i Hin) as (e & He & Hie).
      pose proof (dist_fun _ _ _ Hie _ (distS _ _ _ _ H Hd)). lia.
Qed.

Lemma chain_in_range m : bounded m -> forall d i, i < length m -> forall k, In k (chain d m i) -> k < length m.
Proof.
  intros Hb. induction d as [|d IH]; intros i Hi k; cbn [chain].
  - intros [<-|[]]. exact Hi.
  - intros [<-|Hin]; [exact Hi|]. destruct (owner_of m i) as [o|] eqn:Ho; [|destruct Hin].
    eapply IH; [|exact Hin]. eapply Hb; eauto.
Qed.

Lemma dist_bound m i d : bounded m -> dist m i d -> d <= length m.
Proof.
  intros Hb Hd. destruct (Nat.lt_ge_cases i (length m)) as [Hlt|Hge].
  - destruct (chain_spec _ _ _ Hd) as (Hl & _ & Hnd).
    assert (Hincl : incl (chain d m i) (seq 0 (length m))).
    { intros k Hk. apply in_seq. pose proof (chain_in_range m Hb d i Hlt k Hk). lia. }
    pose proof (NoDup_incl_length Hnd Hincl) as Hle. rewrite seq_length in Hle. lia.
  - inversion Hd; subst; [lia|]. rewrite owner_oob in H by exact Hge. discriminate.
Qed.

(* ---------------------------------------------------------------- the loops terminate within the model's fuel *)
Lemma reaches_total m t : forall fuel j d, dist m j d -> d < fuel -> exists b, reaches fuel m (Some j) t = Some b.
Proof.
  induction fuel as [|f IH]; intros j d Hd Hlt; [lia|].
  cbn [reaches]. destruct (Nat.eqb j t); [eauto|].
  inversion Hd; subst.
  - rewrite H. destruct f; cbn [reaches]; eauto.
  - rewrite H. eapply IH; eauto. lia.
Qed.

Lemma reaches_false_avoids m t : forall fuel x, reaches fuel m x t = Some false ->
  match x with None => True | Some j => avoids m (fun k => k = t) j end.
Proof.
  induction fuel as [|f IH]; intros [j|] H; auto; cbn [reaches] in H.
  - destruct (Nat.eqb j t) eqn:E; [discriminate|discriminate].
  - destruct (Nat.eqb j t) eqn:E; [discriminate|]. apply Nat.eqb_neq in E.
    specialize (IH _ H). destruct (owner_of m j) as [o|] eqn:Ho.
    + eapply avS; eauto.
    + apply av0; auto.
Qed.

(* j reaches t (t <> j): t is strictly closer to the root than j *)
Lemma reaches_true_dist m t : forall fuel j dj dt, reaches fuel m (Some j) t = Some true -> j <> t ->
  dist m j dj -> dist m t dt -> dt < dj.
Proof.
  induction fuel as [|f IH]; intros j dj dt H Hne Hj Ht; cbn [reaches] in H.
  - destruct (Nat.eqb j t) eqn:E; [apply Nat.eqb_eq in E; congruence|discriminate].
  - destruct (Nat.eqb j t) eqn:E; [apply Nat.eqb_eq in E; congruence|].
    inversion Hj; subst.
    + rewrite H0 in H. destruct f; cbn [reaches] in H; discriminate.
    + rewrite H0 in H. destruct (Nat.eq_dec o t) as [->|Hot].
      * pose proof (dist_fun _ _ _ H1 _ Ht). lia.
      * pose proof (IH _ _ _ H Hot H1 Ht). lia.
Qed.

Lemma get_real_total m : forall fuel x,
  (match x with None => True | Some j => exists d, dist m j d /\ d < fuel end) ->
  exists r, get_real fuel m x = Some r.
Proof.
  induction fuel as [|f IH]; intros [j|] Hx; cbn [get_real]; eauto.
  - destruct Hx as (d & _ & Hlt). lia.
  - destruct (pts_of m j); eauto. destruct Hx as (d & Hd & Hlt). apply IH.
    inversion Hd; subst; rewrite H; auto. exists d0. split; auto. lia.
Qed.

(* GetRealOutRec returns the start or one of its ancestors *)
Lemma get_real_anc m : forall fuel x r, get_real fuel m x = Some (Some r) ->
  match x with None => False | Some j => forall dj, dist m j dj -> exists dr, dist m r dr /\ dr <= dj end.
Proof.
  induction fuel as [|f IH]; intros [j|] r H; cbn [get_real] in H; try discriminate.
  - destruct (pts_of m j); [|discriminate]. injection H as <-. intros dj Hd. eauto.
  - destruct (pts_of m j).
    + injection H as <-. intros dj Hd. eauto.
    + specialize (IH _ _ H). intros dj Hd. inversion Hd; subst; rewrite H0 in IH; [destruct IH|].
      destruct (IH _ H1) as (dr & Hr & Hle). exists dr. split; auto.
Qed.

Lemma get_real_bounded m : bounded m -> forall fuel x r, get_real fuel m x = Some (Some r) ->
  (match x with None => True | Some j => j < length m end) -> r < length m.
Proof.
  intros Hb. induction fuel as [|f IH]; intros [j|] r H Hx; cbn [get_real] in H; try discriminate.
  - destruct (pts_of m j); [|discriminate]. injection H as <-. exact Hx.
  - destruct (pts_of m j); [injection H as <-; exact Hx|].
    eapply IH; eauto. destruct (owner_of m j) as [o|] eqn:Ho; auto. eapply Hb; eauto.
Qed.

Definition good (m : omap) : Prop := acyclic m /\ bounded m.

Lemma good_dist m i : good m -> exists d, dist m i d /\ d <= length m.
Proof.
  intros [Hac Hb]. destruct (ends_dist _ _ (Hac i)) as [d Hd]. exists d. split; auto. eapply dist_bound; eauto.
Qed.

(* the compression loop of SetOwner *)
Lemma compress_good : forall fuel m j d, good m -> dist m j d -> d <= fuel ->
  exists m', compress fuel m j = Some m' /\ good m' /\ length m' = length m.
Proof.
  induction fuel as [|f IH]; intros m j d Hg Hd Hle.
  - assert (d = 0) by lia. subst d. inversion Hd; subst. cbn [compress]. rewrite H. eauto.
  - cbn [compress]. inversion Hd; subst.
    + rewrite H. eauto.
    + rewrite H. destruct (pts_of m o); [eauto|].
      destruct Hg as [Hac Hb].
      assert (Hj : j < length m).
      { destruct (Nat.lt_ge_cases j (length m)); auto. rewrite owner_oob in H by assumption. discriminate. }
      remember (owner_of m o) as t eqn:Et.
      assert (Htav : match t with None => True | Some q => avoids m (fun k => k = j) q /\ q < length m /\ dist m q (pred d0) /\ 0 < d0 end).
      { destruct t as [q|]; auto. inversion H0; subst; try congruence.
        assert (o0 = q) by congruence. subst o0. split; [|split; [|split]].
        - eapply dist_lt_avoids; eauto.
        - eapply Hb; eauto.
        - exact H2.
        - lia. }
      assert (Hg' : good (set_owner_field m j t)).
      { split.
        - apply set_owner_field_acyclic; auto. destruct t as [q|]; auto. apply Htav.
        - apply set_owner_field_bounded; auto. destruct t as [q|]; auto. apply Htav. }
      assert (Hd' : dist (set_owner_field m j t) j d0).
      { (* the chain from t is unchanged because it avoids j *)
        assert (Hav : forall q dq, dist m q dq -> dq < S d0 -> dist (set_owner_field m j t) q dq).
        { intros q dq Hq. induction Hq as [q Hq0|q o' dq' Hq1 Hq2 IHq]; intros Hlt.
          - apply dist0. rewrite owner_set_owner_other; auto.
            intros ->. pose proof (dist_fun _ _ _ Hd _ (dist0 _ _ Hq0)). lia.
          - eapply distS; [|apply IHq; lia]. rewrite owner_set_owner_other; auto.
            intros ->. pose proof (dist_fun _ _ _ Hd _ (distS _ _ _ _ Hq1 Hq2)). lia. }
        destruct t as [q|].
        - destruct Htav as (_ & _ & Hq & Hpos). destruct d0 as [|d1]; [lia|]. cbn [pred] in Hq.
          eapply distS; [apply owner_set_owner_same; exact Hj|]. apply Hav; auto.
        - inversion H0; subst; try congruence. apply dist0. apply owner_set_owner_same. exact Hj. }
      destruct (IH _ j d0 Hg' Hd') as (m' & Hc & Hgm & Hl); [lia|].
      exists m'. split; auto. split; auto. rewrite Hl. apply length_set_owner.
Qed.

(* SetOwner(or_i, or_j), i <> j, j an existing OutRec *)
Lemma set_owner_good m i j : good m -> i <> j -> j < length m ->
  exists m', set_owner (fuel_of m) m i j = Some m' /\ good m' /\ length m' = length m.
Proof.
  intros Hg Hne Hj. unfold set_owner, fuel_of.
  destruct (good_dist m j Hg) as (d & Hd & Hle).
  destruct (compress_good (S (length m)) m j d Hg Hd) as (m1 & -> & Hg1 & Hl1); [lia|].
  destruct (good_dist m1 j Hg1) as (dj & Hdj & Hlej).
  destruct (reaches_total m1 i (S (length m)) j dj Hdj) as [b Hb]; [lia|]. rewrite Hb.
  destruct Hg1 as [Hac1 Hb1].
  destruct b.
  - (* j's chain contains i: j is given i's owner first *)
    destruct (good_dist m1 i (conj Hac1 Hb1)) as (di & Hdi & _).
    assert (Hlt : di < dj) by (eapply reaches_true_dist; eauto).
    remember (owner_of m1 i) as t eqn:Et.
    assert (Ht : match t with None => True | Some q => avoids m1 (fun k => k = i) q /\ avoids m1 (fun k => k = j) q /\ q < length m1 end).
    { destruct t as [q|]; auto. inversion Hdi; subst; try congruence.
      assert (o = q) by congruence. subst o. split; [|split].
      - eapply dist_lt_avoids; eauto.
      - eapply dist_lt_avoids; eauto. lia.
      - eapply Hb1; eauto. }
    assert (Hj1 : j < length m1) by lia.
    remember (set_owner_field m1 j t) as m2 eqn:Em2.
    assert (Hac2 : acyclic m2).
    { subst m2. apply set_owner_field_acyclic; auto. destruct t as [q|]; auto. apply Ht. }
    assert (Hb2 : bounded m2).
    { subst m2. apply set_owner_field_bounded; auto. destruct t as [q|]; auto. apply Ht. }
    assert (Hl2 : length m2 = length m1) by (subst m2; apply length_set_owner).
    assert (Hav : avoids m2 (fun k => k = i) j).
    { destruct t as [q|].
      - destruct Ht as (Ht_i & Ht_j & _).
        eapply avS with (o := q); [congruence|subst m2; apply owner_set_owner_same; exact Hj1|].
        pose proof (avoids_and _ _ _ _ Ht_i Ht_j) as Hboth.
        assert (Hboth' : avoids m2 (fun k => k = i \/ k = j) q).
        { eapply avoids_transfer; [|exact Hboth]. intros k Hk. subst m2. apply owner_set_owner_other. intros ->. tauto. }
        clear - Hboth'. induction Hboth' as [q Hq H|q o Hq H _ IH]; [apply av0|eapply avS]; eauto.
      - apply av0; [congruence|]. subst m2. apply owner_set_owner_same. exact Hj1. }
    eexists. split; [reflexivity|]. split; [split|].
    + apply set_owner_field_acyclic; auto.
    + apply set_owner_field_bounded; auto. lia.
    + rewrite length_set_owner. lia.
  - pose proof (reaches_false_avoids _ _ _ _ Hb) as Hav. cbn beta iota in Hav.
    eexists. split; [reflexivity|]. split; [split|].
    + apply set_owner_field_acyclic; auto.
    + apply set_owner_field_bounded; auto. lia.
    + rewrite length_set_owner. exact Hl1.
Qed.

(* ---------------------------------------------------------------- all operations *)
(* what the call sites guarantee: SetOwner gets two different OutRecs, and OutRec arguments that become owners exist *)
Definition op_ok (m : omap) (o : op) : Prop :=
  match o with
  | OpSetOwner i j => i <> j /\ j < length m
  | OpNewOwned j => j < length m
  | OpValidAssign i j => j < length m
  | _ => True
  end.

Lemma app_good m o : good m -> (match o with None => True | Some j => j < length m end) -> good (m ++ [fresh_orec o]).
Proof.
  intros [Hac Hb] Ho.
  assert (Hown : forall k, k <> length m -> owner_of (m ++ [fresh_orec o]) k = owner_of m k).
  { intros k Hk. unfold owner_of. destruct (Nat.lt_ge_cases k (length m)) as [Hlt|Hge].
    - rewrite get_app_l by exact Hlt. reflexivity.
    - rewrite get_app_oob by lia. rewrite get_oob by exact Hge. reflexivity. }
  assert (Hnew : owner_of (m ++ [fresh_orec o]) (length m) = o).
  { unfold owner_of. rewrite get_app_new. reflexivity. }
  split.
  - eapply redirect_acyclic with (i := length m) (t := o); eauto.
    destruct o as [j|]; auto.
    (* no chain of m passes through the index length m: every owner is below it *)
    assert (Hall : forall q, q < length m -> avoids m (fun k => k = length m) q).
    { intros q Hq. induction (Hac q) as [q H|q o' H _ IH].
      - apply av0; [lia|exact H].
      - eapply avS; [lia|exact H|]. apply IH. eapply Hb; eauto. }
    apply Hall. exact Ho.
  - intros k q Hk. rewrite app_length. cbn [length]. destruct (Nat.eq_dec k (length m)) as [->|Hne].
    + rewrite Hnew in Hk. subst o. lia.
    + rewrite Hown in Hk by exact Hne. pose proof (Hb _ _ Hk). lia.
Qed.

Lemma same_owner_good m m' : good m -> length m' = length m -> (forall k, owner_of m' k = owner_of m k) -> good m'.
Proof.
  intros [Hac Hb] Hl Hsame. split.
  - eapply redirect_acyclic with (i := 0) (t := owner_of m 0); eauto.
    destruct (owner_of m 0) as [j|] eqn:Ho; auto.
    destruct (ends_dist _ _ (Hac 0)) as [d Hd]. inversion Hd; subst; try congruence.
    assert (o = j) by congruence. subst o. eapply dist_lt_avoids; eauto.
  - intros k o Hk. rewrite Hl. rewrite Hsame in Hk. eapply Hb; eauto.
Qed.

Lemma apply_op_good m o : good m -> op_ok m o -> exists m', apply_op m o = Some m' /\ good m'.
Proof.
  intros Hg Hok. pose proof Hg as [Hac Hb]. destruct o; cbn [apply_op op_ok] in *.
  - (* OpNew *) eexists. split; [reflexivity|]. apply app_good; auto.
  - (* OpSetOwner *) destruct Hok as [Hne Hj]. destruct (set_owner_good m i j Hg Hne Hj) as (m' & H & Hg' & _). eauto.
  - (* OpClear *) eexists. split; [reflexivity|]. split; [apply set_owner_field_acyclic|apply set_owner_field_bounded]; auto.
  - (* OpReal *)
    destruct (get_real_total m (fuel_of m) (owner_of m i)) as [r Hr].
    { destruct (owner_of m i) as [o|] eqn:Ho; auto. destruct (good_dist m o Hg) as (d & Hd & Hle).
      exists d. split; auto. unfold fuel_of. lia. }
    rewrite Hr. eexists. split; [reflexivity|]. destruct r as [r|].
    + pose proof (get_real_anc _ _ _ _ Hr) as Hanc. destruct (owner_of m i) as [o|] eqn:Ho; [|destruct Hanc].
      destruct (good_dist m i Hg) as (di & Hdi & _). inversion Hdi; subst; try congruence.
      assert (o0 = o) by congruence. subst o0. destruct (Hanc _ H0) as (dr & Hdr & Hle).
      split.
      * apply set_owner_field_acyclic; auto. eapply dist_lt_avoids; eauto. lia.
      * apply set_owner_field_bounded; auto. eapply get_real_bounded; eauto. cbn beta iota. eapply Hb; eauto.
    + split; [apply set_owner_field_acyclic|apply set_owner_field_bounded]; auto.
  - (* OpPts *) eexists. split; [reflexivity|]. eapply same_owner_good; eauto.
    + unfold set_pts. apply length_upd.
    + intros k. apply owner_set_pts.
  - (* OpNewOwned *) eexists. split; [reflexivity|]. apply app_good; auto.
  - (* OpNewSibling *) eexists. split; [reflexivity|]. apply app_good; auto.
    destruct (owner_of m j) as [q|] eqn:Hq; auto. eapply Hb; eauto.
  - (* OpValidAssign *)
    unfold is_valid_owner. destruct (good_dist m j Hg) as (d & Hd & Hle).
    destruct (reaches_total m i (fuel_of m) j d Hd) as [b Hbb]; [unfold fuel_of; lia|]. rewrite Hbb.
    destruct b; cbn [negb]; [eauto|]. eexists. split; [reflexivity|].
    pose proof (reaches_false_avoids _ _ _ _ Hbb) as Hav. cbn beta iota in Hav.
    split; [apply set_owner_field_acyclic|apply set_owner_field_bounded]; auto.
  - (* OpClimb *)
    destruct (owner_of m i) as [o|] eqn:Ho; [|eauto]. eexists. split; [reflexivity|].
    destruct (good_dist m i Hg) as (di & Hdi & _). inversion Hdi; subst; try congruence.
    assert (o0 = o) by congruence. subst o0.
    split.
    + apply set_owner_field_acyclic; auto. destruct (owner_of m o) as [q|] eqn:Hq; auto.
      inversion H0; subst; try congruence. assert (o0 = q) by congruence. subst o0.
      eapply dist_lt_avoids; eauto.
    + apply set_owner_field_bounded; auto. destruct (owner_of m o) as [q|] eqn:Hq; auto. eapply Hb; eauto.
  - (* OpAddSplit *) eexists. split; [reflexivity|]. eapply same_owner_good; eauto.
    + unfold set_splits. apply length_upd.
    + intros k. apply owner_set_splits.
  - (* OpMoveSplits *) eexists. split; [reflexivity|]. unfold move_splits. destruct (splits_of m i); [exact Hg|].
    eapply same_owner_good; eauto.
    + unfold set_splits. rewrite !length_upd. reflexivity.
    + intros k. rewrite !owner_set_splits. reflexivity.
Qed.

(* the call-site guarantees along a whole history *)
Fixpoint run_ok (m : omap) (ops : list op) : Prop :=
  match ops with
  | [] => True
  | o :: t => op_ok m o /\ match apply_op m o with Some m' => run_ok m' t | None => True end
  end.

Lemma run_ops_good : forall ops m, good m -> run_ok m ops -> exists m', run_ops m ops = Some m' /\ good m'.
Proof.
  induction ops as [|o t IH]; intros m Hg Hok; cbn [run_ops run_ok] in *.
  - eauto.
  - destruct Hok as [Ho Hrest]. destruct (apply_op_good m o Hg Ho) as (m1 & H1 & Hg1). rewrite H1 in *. apply IH; auto.
Qed.

Lemma good_nil : good [].
Proof.
  split.
  - intros i. apply ends_none. unfold owner_of, get. destruct i; reflexivity.
  - intros i o H. unfold owner_of, get in H. destruct i; discriminate.
Qed.

Theorem owner_forest : forall ops, run_ok [] ops ->
  exists m, run_ops [] ops = Some m /\ acyclic m /\ (forall i o, owner_of m i = Some o -> o < length m).
Proof.
  intros ops Hok. destruct (run_ops_good ops [] good_nil Hok) as (m & H & Hac & Hb). eauto.
Qed.

(* in a forest every owner-chasing loop of the code terminates within the fuel the executable model uses *)
Theorem owner_loops_terminate : forall m, acyclic m -> (forall i o, owner_of m i = Some o -> o < length m) ->
  forall i j,
    (exists r, get_real (fuel_of m) m (Some i) = Some r) /\
    (exists b, is_valid_owner (fuel_of m) m i j = Some b) /\
    (i <> j -> j < length m -> exists m', set_owner (fuel_of m) m i j = Some m').
Proof.
  intros m Hac Hb i j. assert (Hg : good m) by (split; auto). split; [|split].
  - apply get_real_total. destruct (good_dist m i Hg) as (d & Hd & Hle). exists d. split; auto. unfold fuel_of. lia.
  - unfold is_valid_owner. destruct (good_dist m j Hg) as (d & Hd & Hle).
    destruct (reaches_total m i (fuel_of m) j d Hd) as [b Hbb]; [unfold fuel_of; lia|]. rewrite Hbb. eauto.
  - intros Hne Hj. destruct (set_owner_good m i j Hg Hne Hj) as (m' & H & _). eauto.
Qed.

(* without the call-site guarantee the statement is false: SetOwner(x, x) makes x its own owner *)
Theorem owner_forest_refuted_without_wf : exists ops m, run_ops [] ops = Some m /\ ~ acyclic m.
Proof.
  exists [OpNew; OpSetOwner 0 0]. eexists. split; [reflexivity|].
  intros Hac. destruct (ends_dist _ _ (Hac 0)) as [d Hd].
  assert (Hloop : forall d, ~ dist [mkOrec (Some 0) true [] None] 0 d).
  { induction d0 as [|d0 IH]; intros Hd0; inversion Hd0; subst.
    - discriminate.
    - cbn in H0. injection H0 as <-. auto. }
  exact (Hloop _ Hd).
Qed.

Example run_ok_satisfiable :
  run_ok [] [OpNew; OpNew; OpNew; OpSetOwner 1 0; OpSetOwner 2 1; OpSetOwner 0 2; OpPts 1 false; OpReal 2; OpValidAssign 1 2].
Proof. cbn. repeat split; lia. Qed.

(* ================================================================ Part 2: the owner search of BuildTree64 *)
Section SearchProofs.
  Variables (inside bcontains : nat -> nat -> bool) (bempty is_open : nat -> bool) (own_first mark_owner : bool).

  (* what RecursiveCheckOwners / CheckSplitOwner test before they keep an owner *)
  Definition accepted (i o : nat) : Prop := inside i o = true /\ bcontains o i = true.
  Definition owner_acc (m : omap) (i : nat) : Prop := forall o, owner_of m i = Some o -> accepted i o.

  Notation cso := (check_split_owner inside bcontains).

  Lemma cso_spec : forall fuel m i spl m' b, cso fuel m i spl = Some (m', b) ->
    if b then owner_acc m' i else forall k, owner_of m' k = owner_of m k.
  Proof.
    induction fuel as [|f IH]; intros m i spl m' b H; cbn [check_split_owner] in H; [discriminate|].
    destruct spl as [|s rest].
    { injection H as <- <-. reflexivity. }
    (* the #942 call on the split lists of a point-less split *)
    destruct (if negb (pts_of m s) then cso f m i (splits_of m s) else Some (m, false)) as [[m1 b1]|] eqn:E1; [|discriminate].
    assert (H1 : if b1 then owner_acc m1 i else forall k, owner_of m1 k = owner_of m k).
    { destruct (negb (pts_of m s)).
      - apply (IH _ _ _ _ _ E1).
      - injection E1 as <- <-. reflexivity. }
    destruct b1.
    { injection H as <- <-. exact H1. }
    assert (Hrest : forall mm, (forall k, owner_of mm k = owner_of m k) -> cso f mm i rest = Some (m', b) ->
                    if b then owner_acc m' i else forall k, owner_of m' k = owner_of m k).
    { intros mm Hmm Hc. pose proof (IH _ _ _ _ _ Hc) as Hr. destruct b; auto. intros k. rewrite Hr. apply Hmm. }
    destruct (get_real f m1 (Some s)) as [[s'|]|] eqn:Eg; [| |discriminate].
    2:{ eapply Hrest; eauto. }
    destruct (Nat.eqb s' i || opt_eqb (rsplit_of m1 s') i).
    { eapply Hrest; eauto. }
    set (m2 := set_rsplit m1 s' (Some i)) in *.
    assert (H2 : forall k, owner_of m2 k = owner_of m k).
    { intros k. unfold m2. rewrite owner_set_rsplit. apply H1. }
    destruct (cso f m2 i (splits_of m2 s')) as [[m3 b3]|] eqn:E3; [|discriminate].
    pose proof (IH _ _ _ _ _ E3) as H3.
    destruct b3.
    { injection H as <- <-. exact H3. }
    assert (H3' : forall k, owner_of m3 k = owner_of m k).
    { intros k. rewrite H3. apply H2. }
    destruct (is_valid_owner f m3 i s') as [v|]; [|discriminate].
    destruct (check_bounds m3 s' && v && bcontains s' i && inside i s') eqn:Ec.
    - injection H as <- <-. intros o Ho.
      destruct (Nat.lt_ge_cases i (length m3)) as [Hlt|Hge].
      + rewrite owner_set_owner_same in Ho by exact Hlt. injection Ho as <-.
        apply andb_prop in Ec. destruct Ec as [Ec Hin]. apply andb_prop in Ec. destruct Ec as [_ Hbc]. split; assumption.
      + unfold set_owner_field in Ho. rewrite upd_oob in Ho by exact Hge. rewrite owner_oob in Ho by exact Hge. discriminate.
    - eapply Hrest; eauto.
  Qed.

  Lemma climb_acc : forall fuel m i m', climb inside bcontains mark_owner fuel m i = Some m' -> owner_acc m' i.
  Proof.
    induction fuel as [|f IH]; intros m i m' H; cbn [climb] in H; [discriminate|].
    destruct (owner_of m i) as [o|] eqn:Ho.
    2:{ injection H as <-. intros o Ho'. congruence. }
    set (m0 := if mark_owner then set_rsplit m o (Some i) else m) in *.
    assert (H0 : forall k, owner_of m0 k = owner_of m k).
    { intros k. unfold m0. destruct mark_owner; auto. apply owner_set_rsplit. }
    destruct (cso (S f) m0 i (splits_of m0 o)) as [[m1 b1]|] eqn:E1; [|discriminate].
    pose proof (cso_spec _ _ _ _ _ _ E1) as H1.
    destruct b1.
    { injection H as <-. exact H1. }
    destruct (pts_of m1 o && check_bounds m1 o && bcontains o i && inside i o) eqn:Ec.
    - injection H as <-. intros o' Ho'. rewrite H1, H0, Ho in Ho'. injection Ho' as <-.
      apply andb_prop in Ec. destruct Ec as [Ec Hin]. apply andb_prop in Ec. destruct Ec as [_ Hbc]. split; assumption.
    - eapply IH; eauto.
  Qed.

  Lemma find_owner_acc fuel m i m' :
    find_owner inside bcontains own_first mark_owner fuel m i = Some m' -> owner_acc m' i.
  Proof.
    unfold find_owner. destruct own_first.
    - destruct (cso fuel m i (splits_of m i)) as [[m1 b1]|] eqn:E1; [|discriminate].
      pose proof (cso_spec _ _ _ _ _ _ E1) as H1. destruct b1.
      + intros H. injection H as <-. exact H1.
      + apply climb_acc.
    - apply climb_acc.
  Qed.

  Definition tree_acc (t : tree) : Prop := forall i p, In (i, Some p) t -> accepted i p.

  Notation rc := (rec_check inside bcontains bempty own_first mark_owner).

  Lemma rec_check_acc : forall fuel m t i m' t', rc fuel m t i = Some (Some (m', t')) -> tree_acc t -> tree_acc t'.
  Proof.
    induction fuel as [|f IH]; intros m t i m' t' H Ht; cbn [rec_check] in H; [discriminate|].
    destruct (placed t i || bempty i).
    { injection H as <- <-. exact Ht. }
    destruct (find_owner inside bcontains own_first mark_owner (S f) m i) as [m1|] eqn:Ef; [|discriminate].
    pose proof (find_owner_acc _ _ _ _ Ef) as Hacc.
    destruct (owner_of m1 i) as [o|] eqn:Ho.
    2:{ injection H as <- <-. intros k p Hin. apply in_app_or in Hin. destruct Hin as [Hin|[Hin|[]]]; [eauto|discriminate]. }
    destruct (if placed t o then Some (Some (m1, t)) else rc f m1 t o) as [[[m2 t2]|]|] eqn:Er; try discriminate.
    assert (Ht2 : tree_acc t2).
    { destruct (placed t o).
      - injection Er as <- <-. exact Ht.
      - eapply IH; eauto. }
    destruct (placed t2 o); [|discriminate].
    injection H as <- <-. intros k p Hin. apply in_app_or in Hin. destruct Hin as [Hin|[Hin|[]]]; [eauto|].
    injection Hin as <- <-. apply Hacc. exact Ho.
  Qed.

  Lemma build_from_acc fuel : forall is m t m' t',
    build_from inside bcontains bempty is_open own_first mark_owner fuel m t is = Some (Some (m', t')) -> tree_acc t -> tree_acc t'.
  Proof.
    induction is as [|i rest IH]; intros m t m' t' H Ht; cbn [build_from] in H.
    - injection H as <- <-. exact Ht.
    - destruct (pts_of m i && negb (is_open i) && check_bounds m i).
      + destruct (rc fuel m t i) as [[[m1 t1]|]|] eqn:Er; try discriminate.
        eapply IH; eauto. eapply rec_check_acc; eauto.
      + eapply IH; eauto.
  Qed.

  (* every parent the tree uses passed Path1InsidePath2 and bounds.Contains *)
  Theorem tree_parent_inside : forall fuel m m' t i p,
    build_tree inside bcontains bempty is_open own_first mark_owner fuel m = Some (Some (m', t)) ->
    parent_of t i = Some (Some p) -> inside i p = true /\ bcontains p i = true.
  Proof.
    intros fuel m m' t i p Hb Hp. unfold build_tree in Hb.
    assert (Hacc : tree_acc t) by (eapply build_from_acc; eauto; intros k q []).
    unfold parent_of in Hp. destruct (find (fun e => Nat.eqb (fst e) i) t) as [[k q]|] eqn:Ef; [|discriminate].
    injection Hp as ->. apply find_some in Ef. destruct Ef as [Hin Hk]. cbn [fst] in Hk. apply Nat.eqb_eq in Hk. subst k.
    apply Hacc. exact Hin.
  Qed.
End SearchProofs.

(* the hypothesis of tree_parent_inside is satisfiable, in both shapes: a hole 1 inside an outer 0 *)
Example build_tree_example : forall own_first mark_owner, exists m',
  build_tree (fun i j => Nat.eqb i 1 && Nat.eqb j 0) (fun a b => Nat.eqb a 0 && Nat.eqb b 1) (fun _ => false) (fun _ => false)
             own_first mark_owner 20 [mkOrec None true [] None; mkOrec (Some 0) true [] None]
  = Some (Some (m', [(0, None); (1, Some 0)])).
Proof. intros [|] [|]; eexists; vm_compute; reflexivity. Qed.

(* ================================================================ Part 3: termination of CheckSplitOwner *)
(* The "#942" descent into the split list of a split without points is not protected by the recursive_split marker:
   a point-less OutRec whose split list leads back to itself sends CheckSplitOwner into an unbounded recursion. *)
Theorem check_split_refuted_pointless_cycle : forall inside bcontains,
  exists m i spl, forall fuel, check_split_owner inside bcontains fuel m i spl = None.
Proof.
  intros inside bcontains. exists [mkOrec None false [0] None; mkOrec None true [] None], 1, [0].
  induction fuel as [|f IH]; [reflexivity|].
  cbn [check_split_owner pts_of get nth has_pts negb splits_of splits]. rewrite IH. reflexivity.
Qed.
