(* proofs/Owner.v -- lemmas about model/Owner.v (property C04).

   Part 1: the owner graph.  For every history of owner edits whose SetOwner calls have two different, existing
           OutRecs (what every call site guarantees), the owner graph stays a forest, every owner-chasing loop
           (GetRealOutRec, IsValidOwner, both loops of SetOwner) terminates, and the fuel the executable model uses
           (number of OutRecs + 1) is enough, so a HANG answer of the oracle is a genuine non-termination.
   Part 2: the owner search of BuildTree64: every parent the tree uses was accepted by the code's own tests
           (Path1InsidePath2 and bounds.Contains), for every shape of the owner search (see model/Owner.v).
   Part 3: termination of CheckSplitOwner: refuted for the shape of the snapshot (a point-less OutRec whose split list
           contains itself), proved for that shape when no such cycle exists, proved unconditionally (forest) for the
           guarded shape of the repair. *)
From Clip Require Import model.Owner.
From Coq Require Import List Bool Arith Lia.
Import ListNotations.

(* ---------------------------------------------------------------- get / upd *)
Lemma length_upd m i f : length (upd m i f) = length m.
Proof. revert i. induction m as [|r t IH]; intros [|k]; cbn [upd length]; auto. Qed.

Lemma get_upd_same m i f : i < length m -> get (upd m i f) i = f (get m i).
Proof.
  unfold get. revert i. induction m as [|r t IH]; intros [|k] H; cbn [upd length nth] in *; try lia; auto.
  apply IH. lia.
Qed.

Lemma get_upd_other m i k f : i <> k -> get (upd m i f) k = get m k.
Proof.
  unfold get. revert i k. induction m as [|r t IH]; intros [|i] [|k] H; cbn [upd nth]; auto; try congruence.
Qed.

Lemma upd_oob m i f : length m <= i -> upd m i f = m.
Proof.
  revert i. induction m as [|r t IH]; intros [|k] H; cbn [upd length] in *; auto; try lia.
  f_equal. apply IH. lia.
Qed.

Lemma get_oob m i : length m <= i -> get m i = dflt_orec.
Proof. intros H. unfold get. apply nth_overflow. exact H. Qed.

Lemma owner_oob m i : length m <= i -> owner_of m i = None.
Proof. intros H. unfold owner_of. rewrite get_oob by exact H. reflexivity. Qed.

Lemma get_app_l m x i : i < length m -> get (m ++ [x]) i = get m i.
Proof. intros H. unfold get. apply app_nth1. exact H. Qed.

Lemma get_app_new m x : get (m ++ [x]) (length m) = x.
Proof. unfold get. rewrite app_nth2 by lia. rewrite Nat.sub_diag. reflexivity. Qed.

Lemma get_app_oob m x i : length m < i -> get (m ++ [x]) i = dflt_orec.
Proof. intros H. apply get_oob. rewrite app_length. cbn [length]. lia. Qed.

(* owner_of after the four field writes *)
Lemma owner_set_owner_same m i o : i < length m -> owner_of (set_owner_field m i o) i = o.
Proof. intros H. unfold owner_of, set_owner_field. rewrite get_upd_same by exact H. reflexivity. Qed.

Lemma owner_set_owner_other m i k o : i <> k -> owner_of (set_owner_field m i o) k = owner_of m k.
Proof. intros H. unfold owner_of, set_owner_field. rewrite get_upd_other by exact H. reflexivity. Qed.

Lemma length_set_owner m i o : length (set_owner_field m i o) = length m.
Proof. apply length_upd. Qed.

Lemma field_upd_keeps (g : orec -> orec) m i k :
  (forall r, owner (g r) = owner r) -> owner_of (upd m i g) k = owner_of m k.
Proof.
  intros Hg. unfold owner_of. destruct (Nat.eq_dec i k) as [->|Hne].
  - destruct (Nat.lt_ge_cases k (length m)) as [Hlt|Hge].
    + rewrite get_upd_same by exact Hlt. apply Hg.
    + rewrite upd_oob by exact Hge. reflexivity.
  - rewrite get_upd_other by exact Hne. reflexivity.
Qed.

Lemma owner_set_pts m i b k : owner_of (set_pts m i b) k = owner_of m k.
Proof. apply field_upd_keeps. reflexivity. Qed.
Lemma owner_set_splits m i s k : owner_of (set_splits m i s) k = owner_of m k.
Proof. apply field_upd_keeps. reflexivity. Qed.
Lemma owner_set_rsplit m i o k : owner_of (set_rsplit m i o) k = owner_of m k.
Proof. apply field_upd_keeps. reflexivity. Qed.

(* ---------------------------------------------------------------- distance to the root of the owner chain *)
Definition bounded (m : omap) : Prop := forall i o, owner_of m i = Some o -> o < length m.

Inductive dist (m : omap) : nat -> nat -> Prop :=
| dist0 i : owner_of m i = None -> dist m i 0
| distS i o d : owner_of m i = Some o -> dist m o d -> dist m i (S d).

Lemma dist_fun m i a : dist m i a -> forall b, dist m i b -> a = b.
Proof.
  induction 1 as [i H|i o d H Hd IH]; intros b Hb; inversion Hb; subst; try congruence.
  f_equal. apply IH. congruence.
Qed.

Lemma ends_dist m i : ends m i -> exists d, dist m i d.
Proof.
  induction 1 as [i H|i o H _ [d Hd]].
  - exists 0. apply dist0. exact H.
  - exists (S d). eapply distS; eauto.
Qed.

Lemma dist_ends m i d : dist m i d -> ends m i.
Proof. induction 1; [apply ends_none|eapply ends_step]; eauto. Qed.

(* the chain from j ends without visiting a node in P *)
Inductive avoids (m : omap) (P : nat -> Prop) : nat -> Prop :=
| av0 j : ~ P j -> owner_of m j = None -> avoids m P j
| avS j o : ~ P j -> owner_of m j = Some o -> avoids m P o -> avoids m P j.

Lemma avoids_ends m P j : avoids m P j -> ends m j.
Proof. induction 1; [apply ends_none|eapply ends_step]; eauto. Qed.

Lemma avoids_transfer m m' P j :
  (forall k, ~ P k -> owner_of m' k = owner_of m k) -> avoids m P j -> avoids m' P j.
Proof.
  intros Hsame. induction 1 as [j Hj H|j o Hj H _ IH].
  - apply av0; auto. rewrite Hsame; auto.
  - eapply avS; eauto. rewrite Hsame; auto.
Qed.

Lemma avoids_and m P Q j : avoids m P j -> avoids m Q j -> avoids m (fun k => P k \/ Q k) j.
Proof.
  induction 1 as [j Hj H|j o Hj H _ IH]; intros HQ; inversion HQ; subst; try congruence.
  - apply av0; tauto.
  - assert (o0 = o) by congruence. subst o0. eapply avS; [tauto|exact H|]. apply IH. assumption.
Qed.

(* nodes strictly closer to the root than i are not i *)
Lemma dist_lt_avoids m i di : dist m i di -> forall j dj, dist m j dj -> dj < di -> avoids m (fun k => k = i) j.
Proof.
  intros Hi j dj Hj. induction Hj as [j H|j o d H Hd IH]; intros Hlt.
  - apply av0; auto. intros ->. pose proof (dist_fun _ _ _ Hi _ (dist0 _ _ H)). lia.
  - eapply avS; eauto.
    + intros ->. pose proof (dist_fun _ _ _ Hi _ (distS _ _ _ _ H Hd)). lia.
    + apply IH. lia.
Qed.

(* redirecting one owner pointer to a node whose chain avoids the redirected node keeps the forest *)
Lemma redirect_acyclic m m' i t :
  acyclic m ->
  (forall k, k <> i -> owner_of m' k = owner_of m k) ->
  owner_of m' i = t ->
  (match t with None => True | Some j => avoids m (fun k => k = i) j end) ->
  acyclic m'.
Proof.
  intros Hac Hsame Hi Ht k. induction (Hac k) as [k H|k o H _ IH].
  - destruct (Nat.eq_dec k i) as [->|Hne].
    + destruct t as [j|].
      * eapply ends_step; eauto. eapply avoids_ends. eapply avoids_transfer; [|exact Ht]. intros q Hq. apply Hsame. exact Hq.
      * apply ends_none. exact Hi.
    + apply ends_none. rewrite Hsame; auto.
  - destruct (Nat.eq_dec k i) as [->|Hne].
    + destruct t as [j|].
      * eapply ends_step; eauto. eapply avoids_ends. eapply avoids_transfer; [|exact Ht]. intros q Hq. apply Hsame. exact Hq.
      * apply ends_none. exact Hi.
    + eapply ends_step; [rewrite Hsame; eauto|exact IH].
Qed.

Lemma set_owner_field_acyclic m i t :
  acyclic m -> (match t with None => True | Some j => avoids m (fun k => k = i) j end) ->
  acyclic (set_owner_field m i t).
Proof.
  intros Hac Ht. destruct (Nat.lt_ge_cases i (length m)) as [Hlt|Hge].
  - eapply redirect_acyclic with (i := i) (t := t); eauto.
    + intros k Hk. apply owner_set_owner_other. congruence.
    + apply owner_set_owner_same. exact Hlt.
  - unfold set_owner_field. rewrite upd_oob by exact Hge. exact Hac.
Qed.

Lemma set_owner_field_bounded m i t :
  bounded m -> (match t with None => True | Some j => j < length m end) -> bounded (set_owner_field m i t).
Proof.
  intros Hb Ht k o Hk. rewrite length_set_owner. destruct (Nat.eq_dec i k) as [->|Hne].
  - destruct (Nat.lt_ge_cases k (length m)) as [Hlt|Hge].
    + rewrite owner_set_owner_same in Hk by exact Hlt. subst t. exact Ht.
    + unfold set_owner_field in Hk. rewrite upd_oob in Hk by exact Hge. eapply Hb; eauto.
  - rewrite owner_set_owner_other in Hk by exact Hne. eapply Hb; eauto.
Qed.

(* ---------------------------------------------------------------- chains are short (pigeonhole) *)
Fixpoint chain (d : nat) (m : omap) (i : nat) : list nat :=
  match d with
  | O => [i]
  | S d' => i :: match owner_of m i with Some o => chain d' m o | None => [] end
  end.

Lemma chain_spec m i d : dist m i d ->
  length (chain d m i) = S d /\ (forall k, In k (chain d m i) -> exists e, e <= d /\ dist m k e) /\ NoDup (chain d m i).
Proof.
  induction 1 as [i H|i o d H Hd (IHl & IHin & IHnd)].
  - cbn [chain length]. split; [reflexivity|]. split.
    + intros k [<-|[]]. exists 0. split; [lia|]. apply dist0. exact H.
    + constructor; [intros []|constructor].
  - cbn [chain]. rewrite H. cbn [length]. split; [lia|]. split.
    + intros k [<-|Hin].
      * exists (S d). split; [lia|]. eapply distS; eauto.
      * destruct (IHin k Hin) as (e & He & Hke). exists e. split; [lia|exact Hke].
    + constructor; [|exact IHnd]. intros Hin. destruct (IHin i Hin) as (e & He & Hie).
      pose proof (dist_fun _ _ _ Hie _ (distS _ _ _ _ H Hd)). lia.
Qed.

Lemma chain_in_range m : bounded m -> forall d i, i < length m -> forall k, In k (chain d m i) -> k < length m.
Proof.
  intros Hb. induction d as [|d IH]; intros i Hi k; cbn [chain].
  - intros [<-|[]]. exact Hi.
  - intros [<-|Hin]; [exact Hi|]. destruct (owner_of m i) as [o|] eqn:Ho; [|destruct Hin].
    eapply IH; [|exact Hin]. eapply Hb; eauto.
Qed.

Lemma dist_bound m i d : bounded m -> dist m i d -> d <= length m.
Proof.
  intros Hb Hd. destruct (Nat.lt_ge_cases i (length m)) as [Hlt|Hge].
  - destruct (chain_spec _ _ _ Hd) as (Hl & _ & Hnd).
    assert (Hincl : incl (chain d m i) (seq 0 (length m))).
    { intros k Hk. apply in_seq. pose proof (chain_in_range m Hb d i Hlt k Hk). lia. }
    pose proof (NoDup_incl_length Hnd Hincl) as Hle. rewrite seq_length in Hle. lia.
  - inversion Hd; subst; [lia|]. rewrite owner_oob in H by exact Hge. discriminate.
Qed.

(* ---------------------------------------------------------------- the loops terminate within the model's fuel *)
Lemma reaches_total m t : forall fuel j d, dist m j d -> d < fuel -> exists b, reaches fuel m (Some j) t = Some b.
Proof.
  induction fuel as [|f IH]; intros j d Hd Hlt; [lia|].
  cbn [reaches]. destruct (Nat.eqb j t); [eauto|].
  inversion Hd; subst.
  - rewrite H. destruct f; cbn [reaches]; eauto.
  - rewrite H. eapply IH; eauto. lia.
Qed.

Lemma reaches_false_avoids m t : forall fuel x, reaches fuel m x t = Some false ->
  match x with None => True | Some j => avoids m (fun k => k = t) j end.
Proof.
  induction fuel as [|f IH]; intros [j|] H; auto; cbn [reaches] in H.
  - destruct (Nat.eqb j t) eqn:E; [discriminate|discriminate].
  - destruct (Nat.eqb j t) eqn:E; [discriminate|]. apply Nat.eqb_neq in E.
    specialize (IH _ H). destruct (owner_of m j) as [o|] eqn:Ho.
    + eapply avS; eauto.
    + apply av0; auto.
Qed.

(* j reaches t (t <> j): t is strictly closer to the root than j *)
Lemma reaches_true_dist m t : forall fuel j dj dt, reaches fuel m (Some j) t = Some true -> j <> t ->
  dist m j dj -> dist m t dt -> dt < dj.
Proof.
  induction fuel as [|f IH]; intros j dj dt H Hne Hj Ht; cbn [reaches] in H.
  - destruct (Nat.eqb j t) eqn:E; [apply Nat.eqb_eq in E; congruence|discriminate].
  - destruct (Nat.eqb j t) eqn:E; [apply Nat.eqb_eq in E; congruence|].
    inversion Hj; subst.
    + rewrite H0 in H. destruct f; cbn [reaches] in H; discriminate.
    + rewrite H0 in H. destruct (Nat.eq_dec o t) as [->|Hot].
      * pose proof (dist_fun _ _ _ H1 _ Ht). lia.
      * pose proof (IH _ _ _ H Hot H1 Ht). lia.
Qed.

Lemma get_real_total m : forall fuel x,
  (match x with None => True | Some j => exists d, dist m j d /\ d < fuel end) ->
  exists r, get_real fuel m x = Some r.
Proof.
  induction fuel as [|f IH]; intros [j|] Hx; cbn [get_real]; eauto.
  - destruct Hx as (d & _ & Hlt). lia.
  - destruct (pts_of m j); eauto. destruct Hx as (d & Hd & Hlt). apply IH.
    inversion Hd; subst; rewrite H; auto. exists d0. split; auto. lia.
Qed.

(* GetRealOutRec returns the start or one of its ancestors *)
Lemma get_real_anc m : forall fuel x r, get_real fuel m x = Some (Some r) ->
  match x with None => False | Some j => forall dj, dist m j dj -> exists dr, dist m r dr /\ dr <= dj end.
Proof.
  induction fuel as [|f IH]; intros [j|] r H; cbn [get_real] in H; try discriminate.
  - destruct (pts_of m j); [|discriminate]. injection H as <-. intros dj Hd. eauto.
  - destruct (pts_of m j).
    + injection H as <-. intros dj Hd. eauto.
    + specialize (IH _ _ H). intros dj Hd. inversion Hd; subst; rewrite H0 in IH; [destruct IH|].
      destruct (IH _ H1) as (dr & Hr & Hle). exists dr. split; auto.
Qed.

Lemma get_real_bounded m : bounded m -> forall fuel x r, get_real fuel m x = Some (Some r) ->
  (match x with None => True | Some j => j < length m end) -> r < length m.
Proof.
  intros Hb. induction fuel as [|f IH]; intros [j|] r H Hx; cbn [get_real] in H; try discriminate.
  - destruct (pts_of m j); [|discriminate]. injection H as <-. exact Hx.
  - destruct (pts_of m j); [injection H as <-; exact Hx|].
    eapply IH; eauto. destruct (owner_of m j) as [o|] eqn:Ho; auto. eapply Hb; eauto.
Qed.

Definition good (m : omap) : Prop := acyclic m /\ bounded m.

Lemma good_dist m i : good m -> exists d, dist m i d /\ d <= length m.
Proof.
  intros [Hac Hb]. destruct (ends_dist _ _ (Hac i)) as [d Hd]. exists d. split; auto. eapply dist_bound; eauto.
Qed.

(* the compression loop of SetOwner *)
Lemma compress_good : forall fuel m j d, good m -> dist m j d -> d <= fuel ->
  exists m', compress fuel m j = Some m' /\ good m' /\ length m' = length m.
Proof.
  induction fuel as [|f IH]; intros m j d Hg Hd Hle.
  - assert (d = 0) by lia. subst d. inversion Hd; subst. cbn [compress]. rewrite H. eauto.
  - cbn [compress]. inversion Hd; subst.
    + rewrite H. eauto.
    + rewrite H. destruct (pts_of m o); [eauto|].
      destruct Hg as [Hac Hb].
      assert (Hj : j < length m).
      { destruct (Nat.lt_ge_cases j (length m)); auto. rewrite owner_oob in H by assumption. discriminate. }
      remember (owner_of m o) as t eqn:Et.
      assert (Htav : match t with None => True | Some q => avoids m (fun k => k = j) q /\ q < length m /\ dist m q (pred d0) /\ 0 < d0 end).
      { destruct t as [q|]; auto. inversion H0; subst; try congruence.
        assert (o0 = q) by congruence. subst o0. split; [|split; [|split]].
        - eapply dist_lt_avoids; eauto.
        - eapply Hb; eauto.
        - exact H2.
        - lia. }
      assert (Hg' : good (set_owner_field m j t)).
      { split.
        - apply set_owner_field_acyclic; auto. destruct t as [q|]; auto. apply Htav.
        - apply set_owner_field_bounded; auto. destruct t as [q|]; auto. apply Htav. }
      assert (Hd' : dist (set_owner_field m j t) j d0).
      { (* the chain from t is unchanged because it avoids j *)
        assert (Hav : forall q dq, dist m q dq -> dq < S d0 -> dist (set_owner_field m j t) q dq).
        { intros q dq Hq. induction Hq as [q Hq0|q o' dq' Hq1 Hq2 IHq]; intros Hlt.
          - apply dist0. rewrite owner_set_owner_other; auto.
            intros ->. pose proof (dist_fun _ _ _ Hd _ (dist0 _ _ Hq0)). lia.
          - eapply distS; [|apply IHq; lia]. rewrite owner_set_owner_other; auto.
            intros ->. pose proof (dist_fun _ _ _ Hd _ (distS _ _ _ _ Hq1 Hq2)). lia. }
        destruct t as [q|].
        - destruct Htav as (_ & _ & Hq & Hpos). destruct d0 as [|d1]; [lia|]. cbn [pred] in Hq.
          eapply distS; [apply owner_set_owner_same; exact Hj|]. apply Hav; auto.
        - inversion H0; subst; try congruence. apply dist0. apply owner_set_owner_same. exact Hj. }
      destruct (IH _ j d0 Hg' Hd') as (m' & Hc & Hgm & Hl); [lia|].
      exists m'. split; auto. split; auto. rewrite Hl. apply length_set_owner.
Qed.

(* SetOwner(or_i, or_j), i <> j, j an existing OutRec *)
Lemma set_owner_good m i j : good m -> i <> j -> j < length m ->
  exists m', set_owner (fuel_of m) m i j = Some m' /\ good m' /\ length m' = length m.
Proof.
  intros Hg Hne Hj. unfold set_owner, fuel_of.
  destruct (good_dist m j Hg) as (d & Hd & Hle).
  destruct (compress_good (S (length m)) m j d Hg Hd) as (m1 & -> & Hg1 & Hl1); [lia|].
  destruct (good_dist m1 j Hg1) as (dj & Hdj & Hlej).
  destruct (reaches_total m1 i (S (length m)) j dj Hdj) as [b Hb]; [lia|]. rewrite Hb.
  destruct Hg1 as [Hac1 Hb1].
  destruct b.
  - (* j's chain contains i: j is given i's owner first *)
    destruct (good_dist m1 i (conj Hac1 Hb1)) as (di & Hdi & _).
    assert (Hlt : di < dj) by (eapply reaches_true_dist; eauto).
    remember (owner_of m1 i) as t eqn:Et.
    assert (Ht : match t with None => True | Some q => avoids m1 (fun k => k = i) q /\ avoids m1 (fun k => k = j) q /\ q < length m1 end).
    { destruct t as [q|]; auto. inversion Hdi; subst; try congruence.
      assert (o = q) by congruence. subst o. split; [|split].
      - eapply dist_lt_avoids; eauto.
      - eapply dist_lt_avoids; eauto. lia.
      - eapply Hb1; eauto. }
    assert (Hj1 : j < length m1) by lia.
    remember (set_owner_field m1 j t) as m2 eqn:Em2.
    assert (Hac2 : acyclic m2).
    { subst m2. apply set_owner_field_acyclic; auto. destruct t as [q|]; auto. apply Ht. }
    assert (Hb2 : bounded m2).
    { subst m2. apply set_owner_field_bounded; auto. destruct t as [q|]; auto. apply Ht. }
    assert (Hl2 : length m2 = length m1) by (subst m2; apply length_set_owner).
    assert (Hav : avoids m2 (fun k => k = i) j).
    { destruct t as [q|].
      - destruct Ht as (Ht_i & Ht_j & _).
        eapply avS with (o := q); [congruence|subst m2; apply owner_set_owner_same; exact Hj1|].
        pose proof (avoids_and _ _ _ _ Ht_i Ht_j) as Hboth.
        assert (Hboth' : avoids m2 (fun k => k = i \/ k = j) q).
        { eapply avoids_transfer; [|exact Hboth]. intros k Hk. subst m2. apply owner_set_owner_other. intros ->. tauto. }
        clear - Hboth'. induction Hboth' as [q Hq H|q o Hq H _ IH]; [apply av0|eapply avS]; eauto.
      - apply av0; [congruence|]. subst m2. apply owner_set_owner_same. exact Hj1. }
    eexists. split; [reflexivity|]. split; [split|].
    + apply set_owner_field_acyclic; auto.
    + apply set_owner_field_bounded; auto. lia.
    + rewrite length_set_owner. lia.
  - pose proof (reaches_false_avoids _ _ _ _ Hb) as Hav. cbn beta iota in Hav.
    eexists. split; [reflexivity|]. split; [split|].
    + apply set_owner_field_acyclic; auto.
    + apply set_owner_field_bounded; auto. lia.
    + rewrite length_set_owner. exact Hl1.
Qed.

(* ---------------------------------------------------------------- all operations *)
(* what the call sites guarantee: SetOwner gets two different OutRecs, and OutRec arguments that become owners exist *)
Definition op_ok (m : omap) (o : op) : Prop :=
  match o with
  | OpSetOwner i j => i <> j /\ j < length m
  | OpNewOwned j => j < length m
  | OpValidAssign i j => j < length m
  | _ => True
  end.

Lemma app_good m o : good m -> (match o with None => True | Some j => j < length m end) -> good (m ++ [fresh_orec o]).
Proof.
  intros [Hac Hb] Ho.
  assert (Hown : forall k, k <> length m -> owner_of (m ++ [fresh_orec o]) k = owner_of m k).
  { intros k Hk. unfold owner_of. destruct (Nat.lt_ge_cases k (length m)) as [Hlt|Hge].
    - rewrite get_app_l by exact Hlt. reflexivity.
    - rewrite get_app_oob by lia. rewrite get_oob by exact Hge. reflexivity. }
  assert (Hnew : owner_of (m ++ [fresh_orec o]) (length m) = o).
  { unfold owner_of. rewrite get_app_new. reflexivity. }
  split.
  - eapply redirect_acyclic with (i := length m) (t := o); eauto.
    destruct o as [j|]; auto.
    (* no chain of m passes through the index length m: every owner is below it *)
    assert (Hall : forall q, q < length m -> avoids m (fun k => k = length m) q).
    { intros q Hq. induction (Hac q) as [q H|q o' H _ IH].
      - apply av0; [lia|exact H].
      - eapply avS; [lia|exact H|]. apply IH. eapply Hb; eauto. }
    apply Hall. exact Ho.
  - intros k q Hk. rewrite app_length. cbn [length]. destruct (Nat.eq_dec k (length m)) as [->|Hne].
    + rewrite Hnew in Hk. subst o. lia.
    + rewrite Hown in Hk by exact Hne. pose proof (Hb _ _ Hk). lia.
Qed.

Lemma same_owner_good m m' : good m -> length m' = length m -> (forall k, owner_of m' k = owner_of m k) -> good m'.
Proof.
  intros [Hac Hb] Hl Hsame. split.
  - eapply redirect_acyclic with (i := 0) (t := owner_of m 0); eauto.
    destruct (owner_of m 0) as [j|] eqn:Ho; auto.
    destruct (ends_dist _ _ (Hac 0)) as [d Hd]. inversion Hd; subst; try congruence.
    assert (o = j) by congruence. subst o. eapply dist_lt_avoids; eauto.
  - intros k o Hk. rewrite Hl. rewrite Hsame in Hk. eapply Hb; eauto.
Qed.

Lemma apply_op_good m o : good m -> op_ok m o -> exists m', apply_op m o = Some m' /\ good m'.
Proof.
  intros Hg Hok. pose proof Hg as [Hac Hb]. destruct o; cbn [apply_op op_ok] in *.
  - (* OpNew *) eexists. split; [reflexivity|]. apply app_good; auto.
  - (* OpSetOwner *) destruct Hok as [Hne Hj]. destruct (set_owner_good m i j Hg Hne Hj) as (m' & H & Hg' & _). eauto.
  - (* OpClear *) eexists. split; [reflexivity|]. split; [apply set_owner_field_acyclic|apply set_owner_field_bounded]; auto.
  - (* OpReal *)
    destruct (get_real_total m (fuel_of m) (owner_of m i)) as [r Hr].
    { destruct (owner_of m i) as [o|] eqn:Ho; auto. destruct (good_dist m o Hg) as (d & Hd & Hle).
      exists d. split; auto. unfold fuel_of. lia. }
    rewrite Hr. eexists. split; [reflexivity|]. destruct r as [r|].
    + pose proof (get_real_anc _ _ _ _ Hr) as Hanc. destruct (owner_of m i) as [o|] eqn:Ho; [|destruct Hanc].
      destruct (good_dist m i Hg) as (di & Hdi & _). inversion Hdi; subst; try congruence.
      assert (o0 = o) by congruence. subst o0. destruct (Hanc _ H0) as (dr & Hdr & Hle).
      split.
      * apply set_owner_field_acyclic; auto. eapply dist_lt_avoids; eauto. lia.
      * apply set_owner_field_bounded; auto. eapply get_real_bounded; eauto. cbn beta iota. eapply Hb; eauto.
    + split; [apply set_owner_field_acyclic|apply set_owner_field_bounded]; auto.
  - (* OpPts *) eexists. split; [reflexivity|]. eapply same_owner_good; eauto.
    + unfold set_pts. apply length_upd.
    + intros k. apply owner_set_pts.
  - (* OpNewOwned *) eexists. split; [reflexivity|]. apply app_good; auto.
  - (* OpNewSibling *) eexists. split; [reflexivity|]. apply app_good; auto.
    destruct (owner_of m j) as [q|] eqn:Hq; auto. eapply Hb; eauto.
  - (* OpValidAssign *)
    unfold is_valid_owner. destruct (good_dist m j Hg) as (d & Hd & Hle).
    destruct (reaches_total m i (fuel_of m) j d Hd) as [b Hbb]; [unfold fuel_of; lia|]. rewrite Hbb.
    destruct b; cbn [negb]; [eauto|]. eexists. split; [reflexivity|].
    pose proof (reaches_false_avoids _ _ _ _ Hbb) as Hav. cbn beta iota in Hav.
    split; [apply set_owner_field_acyclic|apply set_owner_field_bounded]; auto.
  - (* OpClimb *)
    destruct (owner_of m i) as [o|] eqn:Ho; [|eauto]. eexists. split; [reflexivity|].
    destruct (good_dist m i Hg) as (di & Hdi & _). inversion Hdi; subst; try congruence.
    assert (o0 = o) by congruence. subst o0.
    split.
    + apply set_owner_field_acyclic; auto. destruct (owner_of m o) as [q|] eqn:Hq; auto.
      inversion H0; subst; try congruence. assert (o0 = q) by congruence. subst o0.
      eapply dist_lt_avoids; eauto.
    + apply set_owner_field_bounded; auto. destruct (owner_of m o) as [q|] eqn:Hq; auto. eapply Hb; eauto.
  - (* OpAddSplit *) eexists. split; [reflexivity|]. eapply same_owner_good; eauto.
    + unfold set_splits. apply length_upd.
    + intros k. apply owner_set_splits.
  - (* OpMoveSplits *) eexists. split; [reflexivity|]. unfold move_splits. destruct (splits_of m i); [exact Hg|].
    eapply same_owner_good; eauto.
    + unfold set_splits. rewrite !length_upd. reflexivity.
    + intros k. rewrite !owner_set_splits. reflexivity.
Qed.

(* the call-site guarantees along a whole history *)
Fixpoint run_ok (m : omap) (ops : list op) : Prop :=
  match ops with
  | [] => True
  | o :: t => op_ok m o /\ match apply_op m o with Some m' => run_ok m' t | None => True end
  end.

Lemma run_ops_good : forall ops m, good m -> run_ok m ops -> exists m', run_ops m ops = Some m' /\ good m'.
Proof.
  induction ops as [|o t IH]; intros m Hg Hok; cbn [run_ops run_ok] in *.
  - eauto.
  - destruct Hok as [Ho Hrest]. destruct (apply_op_good m o Hg Ho) as (m1 & H1 & Hg1). rewrite H1 in *. apply IH; auto.
Qed.

Lemma good_nil : good [].
Proof.
  split.
  - intros i. apply ends_none. unfold owner_of, get. destruct i; reflexivity.
  - intros i o H. unfold owner_of, get in H. destruct i; discriminate.
Qed.

Theorem owner_forest : forall ops, run_ok [] ops ->
  exists m, run_ops [] ops = Some m /\ acyclic m /\ (forall i o, owner_of m i = Some o -> o < length m).
Proof.
  intros ops Hok. destruct (run_ops_good ops [] good_nil Hok) as (m & H & Hac & Hb). eauto.
Qed.

(* in a forest every owner-chasing loop of the code terminates within the fuel the executable model uses *)
Theorem owner_loops_terminate : forall m, acyclic m -> (forall i o, owner_of m i = Some o -> o < length m) ->
  forall i j,
    (exists r, get_real (fuel_of m) m (Some i) = Some r) /\
    (exists b, is_valid_owner (fuel_of m) m i j = Some b) /\
    (i <> j -> j < length m -> exists m', set_owner (fuel_of m) m i j = Some m').
Proof.
  intros m Hac Hb i j. assert (Hg : good m) by (split; auto). split; [|split].
  - apply get_real_total. destruct (good_dist m i Hg) as (d & Hd & Hle). exists d. split; auto. unfold fuel_of. lia.
  - unfold is_valid_owner. destruct (good_dist m j Hg) as (d & Hd & Hle).
    destruct (reaches_total m i (fuel_of m) j d Hd) as [b Hbb]; [unfold fuel_of; lia|]. rewrite Hbb. eauto.
  - intros Hne Hj. destruct (set_owner_good m i j Hg Hne Hj) as (m' & H & _). eauto.
Qed.

(* without the call-site guarantee the statement is false: SetOwner(x, x) makes x its own owner *)
Theorem owner_forest_refuted_without_wf : exists ops m, run_ops [] ops = Some m /\ ~ acyclic m.
Proof.
  exists [OpNew; OpSetOwner 0 0]. eexists. split; [reflexivity|].
  intros Hac. destruct (ends_dist _ _ (Hac 0)) as [d Hd].
  assert (Hloop : forall d, ~ dist [mkOrec (Some 0) true [] None] 0 d).
  { induction d0 as [|d0 IH]; intros Hd0; inversion Hd0; subst.
    - discriminate.
    - cbn in H0. injection H0 as <-. auto. }
  exact (Hloop _ Hd).
Qed.

Example run_ok_satisfiable :
  run_ok [] [OpNew; OpNew; OpNew; OpSetOwner 1 0; OpSetOwner 2 1; OpSetOwner 0 2; OpPts 1 false; OpReal 2; OpValidAssign 1 2].
Proof. cbn. repeat split; lia. Qed.

(* ================================================================ Part 2: the owner search of BuildTree64 *)
Section SearchProofs.
  Variables (inside bcontains : nat -> nat -> bool) (bempty is_open : nat -> bool) (guard_pointless own_first mark_chain : bool).

  (* what RecursiveCheckOwners / CheckSplitOwner test before they keep an owner *)
  Definition accepted (i o : nat) : Prop := inside i o = true /\ bcontains o i = true.
  Definition owner_acc (m : omap) (i : nat) : Prop := forall o, owner_of m i = Some o -> accepted i o.

  Notation cso := (check_split_owner inside bcontains guard_pointless).

  Lemma cso_spec : forall fuel m i spl m' b, cso fuel m i spl = Some (m', b) ->
    if b then owner_acc m' i else forall k, owner_of m' k = owner_of m k.
  Proof.
    induction fuel as [|f IH]; intros m i spl m' b H; cbn [check_split_owner] in H; [discriminate|].
    destruct spl as [|s rest].
    { injection H as <- <-. reflexivity. }
    (* the #942 call on the split lists of a point-less split *)
    destruct (if negb (pts_of m s) then
                if guard_pointless && opt_eqb (rsplit_of m s) i then Some (m, false)
                else cso f (if guard_pointless then set_rsplit m s (Some i) else m) i (splits_of m s)
              else Some (m, false)) as [[m1 b1]|] eqn:E1; [|discriminate].
    assert (H1 : if b1 then owner_acc m1 i else forall k, owner_of m1 k = owner_of m k).
    { destruct (negb (pts_of m s)); [|injection E1 as <- <-; reflexivity].
      destruct (guard_pointless && opt_eqb (rsplit_of m s) i); [injection E1 as <- <-; reflexivity|].
      pose proof (IH _ _ _ _ _ E1) as Hr. destruct b1; auto. intros k. rewrite Hr.
      destruct guard_pointless; auto. apply owner_set_rsplit. }
    destruct b1.
    { injection H as <- <-. exact H1. }
    assert (Hrest : forall mm, (forall k, owner_of mm k = owner_of m k) -> cso f mm i rest = Some (m', b) ->
                    if b then owner_acc m' i else forall k, owner_of m' k = owner_of m k).
    { intros mm Hmm Hc. pose proof (IH _ _ _ _ _ Hc) as Hr. destruct b; auto. intros k. rewrite Hr. apply Hmm. }
    destruct (get_real f m1 (Some s)) as [[s'|]|] eqn:Eg; [| |discriminate].
    2:{ eapply Hrest; eauto. }
    destruct (Nat.eqb s' i || opt_eqb (rsplit_of m1 s') i).
    { eapply Hrest; eauto. }
    set (m2 := set_rsplit m1 s' (Some i)) in *.
    assert (H2 : forall k, owner_of m2 k = owner_of m k).
    { intros k. unfold m2. rewrite owner_set_rsplit. apply H1. }
    destruct (cso f m2 i (splits_of m2 s')) as [[m3 b3]|] eqn:E3; [|discriminate].
    pose proof (IH _ _ _ _ _ E3) as H3.
    destruct b3.
    { injection H as <- <-. exact H3. }
    assert (H3' : forall k, owner_of m3 k = owner_of m k).
    { intros k. rewrite H3. apply H2. }
    destruct (is_valid_owner f m3 i s') as [v|]; [|discriminate].
    destruct (check_bounds m3 s' && v && bcontains s' i && inside i s') eqn:Ec.
    - injection H as <- <-. intros o Ho.
      destruct (Nat.lt_ge_cases i (length m3)) as [Hlt|Hge].
      + rewrite owner_set_owner_same in Ho by exact Hlt. injection Ho as <-.
        apply andb_prop in Ec. destruct Ec as [Ec Hin]. apply andb_prop in Ec. destruct Ec as [_ Hbc]. split; assumption.
      + unfold set_owner_field in Ho. rewrite upd_oob in Ho by exact Hge. rewrite owner_oob in Ho by exact Hge. discriminate.
    - eapply Hrest; eauto.
  Qed.

  Lemma climb_acc : forall fuel m i m', climb inside bcontains guard_pointless fuel m i = Some m' -> owner_acc m' i.
  Proof.
    induction fuel as [|f IH]; intros m i m' H; cbn [climb] in H; [discriminate|].
    destruct (owner_of m i) as [o|] eqn:Ho.
    2:{ injection H as <-. intros o Ho'. congruence. }
    destruct (cso (S f) m i (splits_of m o)) as [[m1 b1]|] eqn:E1; [|discriminate].
    pose proof (cso_spec _ _ _ _ _ _ E1) as H1.
    destruct b1.
    { injection H as <-. exact H1. }
    destruct (pts_of m1 o && check_bounds m1 o && bcontains o i && inside i o) eqn:Ec.
    - injection H as <-. intros o' Ho'. rewrite H1, Ho in Ho'. injection Ho' as <-.
      apply andb_prop in Ec. destruct Ec as [Ec Hin]. apply andb_prop in Ec. destruct Ec as [_ Hbc]. split; assumption.
    - eapply IH; eauto.
  Qed.

  Lemma marked_climb_acc fuel m i m' :
    marked_climb inside bcontains guard_pointless mark_chain fuel m i = Some m' -> owner_acc m' i.
  Proof.
    unfold marked_climb. destruct mark_chain; [|apply climb_acc].
    destruct (mark_owners fuel m i (owner_of m i)) as [m0|]; [|discriminate]. apply climb_acc.
  Qed.

  Lemma find_owner_acc fuel m i m' :
    find_owner inside bcontains guard_pointless own_first mark_chain fuel m i = Some m' -> owner_acc m' i.
  Proof.
    unfold find_owner. destruct own_first.
    - destruct (cso fuel m i (splits_of m i)) as [[m1 b1]|] eqn:E1; [|discriminate].
      pose proof (cso_spec _ _ _ _ _ _ E1) as H1. destruct b1.
      + intros H. injection H as <-. exact H1.
      + apply marked_climb_acc.
    - apply marked_climb_acc.
  Qed.

  Definition tree_acc (t : tree) : Prop := forall i p, In (i, Some p) t -> accepted i p.

  Notation rc := (rec_check inside bcontains bempty guard_pointless own_first mark_chain).

  Lemma rec_check_acc : forall fuel m t i m' t', rc fuel m t i = Some (Some (m', t')) -> tree_acc t -> tree_acc t'.
  Proof.
    induction fuel as [|f IH]; intros m t i m' t' H Ht; cbn [rec_check] in H; [discriminate|].
    destruct (placed t i || bempty i).
    { injection H as <- <-. exact Ht. }
    destruct (find_owner inside bcontains guard_pointless own_first mark_chain (S f) m i) as [m1|] eqn:Ef; [|discriminate].
    pose proof (find_owner_acc _ _ _ _ Ef) as Hacc.
    destruct (owner_of m1 i) as [o|] eqn:Ho.
    2:{ injection H as <- <-. intros k p Hin. apply in_app_or in Hin. destruct Hin as [Hin|[Hin|[]]]; [eauto|discriminate]. }
    destruct (if placed t o then Some (Some (m1, t)) else rc f m1 t o) as [[[m2 t2]|]|] eqn:Er; try discriminate.
    assert (Ht2 : tree_acc t2).
    { destruct (placed t o).
      - injection Er as <- <-. exact Ht.
      - eapply IH; eauto. }
    destruct (placed t2 o); [|discriminate].
    injection H as <- <-. intros k p Hin. apply in_app_or in Hin. destruct Hin as [Hin|[Hin|[]]]; [eauto|].
    injection Hin as <- <-. apply Hacc. exact Ho.
  Qed.

  Lemma build_from_acc fuel : forall is m t m' t',
    build_from inside bcontains bempty is_open guard_pointless own_first mark_chain fuel m t is = Some (Some (m', t')) -> tree_acc t -> tree_acc t'.
  Proof.
    induction is as [|i rest IH]; intros m t m' t' H Ht; cbn [build_from] in H.
    - injection H as <- <-. exact Ht.
    - destruct (pts_of m i && negb (is_open i) && check_bounds m i).
      + destruct (rc fuel m t i) as [[[m1 t1]|]|] eqn:Er; try discriminate.
        eapply IH; eauto. eapply rec_check_acc; eauto.
      + eapply IH; eauto.
  Qed.

  (* every parent the tree uses passed Path1InsidePath2 and bounds.Contains *)
  Theorem tree_parent_inside : forall fuel m m' t i p,
    build_tree inside bcontains bempty is_open guard_pointless own_first mark_chain fuel m = Some (Some (m', t)) ->
    parent_of t i = Some (Some p) -> inside i p = true /\ bcontains p i = true.
  Proof.
    intros fuel m m' t i p Hb Hp. unfold build_tree in Hb.
    assert (Hacc : tree_acc t) by (eapply build_from_acc; eauto; intros k q []).
    unfold parent_of in Hp. destruct (find (fun e => Nat.eqb (fst e) i) t) as [[k q]|] eqn:Ef; [|discriminate].
    injection Hp as ->. apply find_some in Ef. destruct Ef as [Hin Hk]. cbn [fst] in Hk. apply Nat.eqb_eq in Hk. subst k.
    apply Hacc. exact Hin.
  Qed.
End SearchProofs.

(* the hypothesis of tree_parent_inside is satisfiable, in every shape: a hole 1 inside an outer 0 *)
Example build_tree_example : forall guard_pointless own_first mark_chain, exists m',
  build_tree (fun i j => Nat.eqb i 1 && Nat.eqb j 0) (fun a b => Nat.eqb a 0 && Nat.eqb b 1) (fun _ => false) (fun _ => false)
             guard_pointless own_first mark_chain 20 [mkOrec None true [] None; mkOrec (Some 0) true [] None]
  = Some (Some (m', [(0, None); (1, Some 0)])).
Proof. intros [|] [|] [|]; eexists; vm_compute; reflexivity. Qed.

(* ================================================================ Part 3: termination of CheckSplitOwner *)
(* In the shape of the snapshot (guard_pointless = false) the "#942" descent into the split list of a split without points
   is not protected by the recursive_split marker: a point-less OutRec whose split list leads back to itself sends
   CheckSplitOwner into an unbounded recursion. *)
Theorem check_split_refuted_pointless_cycle : forall inside bcontains,
  exists m i spl, forall fuel, check_split_owner inside bcontains false fuel m i spl = None.
Proof.
  intros inside bcontains. exists [mkOrec None false [0] None; mkOrec None true [] None], 1, [0].
  induction fuel as [|f IH]; [reflexivity|].
  cbn [check_split_owner pts_of get nth has_pts negb splits_of splits andb]. rewrite IH. reflexivity.
Qed.

Section CsoGeneral.
  Variables (inside bcontains : nat -> nat -> bool) (g : bool).
  Notation cso := (check_split_owner inside bcontains g).

  (* ---- more fuel never changes an answer *)
  Lemma get_real_mono : forall f m x r, get_real f m x = Some r -> forall f', f <= f' -> get_real f' m x = Some r.
  Proof.
    induction f as [|f IH]; intros m [j|] r H f' Hle.
    - cbn [get_real] in H. destruct (pts_of m j) eqn:E; [|discriminate]. destruct f'; cbn [get_real]; rewrite E; exact H.
    - destruct f'; exact H.
    - destruct f' as [|f']; [lia|]. cbn [get_real] in *. destruct (pts_of m j); auto. apply IH; auto. lia.
    - destruct f'; exact H.
  Qed.

  Lemma reaches_mono : forall f m x t b, reaches f m x t = Some b -> forall f', f <= f' -> reaches f' m x t = Some b.
  Proof.
    induction f as [|f IH]; intros m [j|] t b H f' Hle.
    - cbn [reaches] in H. destruct (Nat.eqb j t) eqn:E; [|discriminate]. destruct f'; cbn [reaches]; rewrite E; exact H.
    - destruct f'; exact H.
    - destruct f' as [|f']; [lia|]. cbn [reaches] in *. destruct (Nat.eqb j t); auto. apply IH; auto. lia.
    - destruct f'; exact H.
  Qed.

  Lemma is_valid_owner_mono f m i t b : is_valid_owner f m i t = Some b -> forall f', f <= f' -> is_valid_owner f' m i t = Some b.
  Proof.
    unfold is_valid_owner. intros H f' Hle. destruct (reaches f m (Some t) i) as [r|] eqn:E; [|discriminate].
    rewrite (reaches_mono _ _ _ _ _ E _ Hle). exact H.
  Qed.

  (* one step of CheckSplitOwner, cut in two *)
  Definition cso_first (f : nat) (m : omap) (i s : nat) : option (omap * bool) :=
    if negb (pts_of m s) then
      if g && opt_eqb (rsplit_of m s) i then Some (m, false)
      else cso f (if g then set_rsplit m s (Some i) else m) i (splits_of m s)
    else Some (m, false).

  Definition cso_tail (f : nat) (m1 : omap) (i s : nat) (rest : list nat) : option (omap * bool) :=
    match get_real f m1 (Some s) with
    | None => None
    | Some None => cso f m1 i rest
    | Some (Some s') =>
      if Nat.eqb s' i || opt_eqb (rsplit_of m1 s') i then cso f m1 i rest
      else
        let m2 := set_rsplit m1 s' (Some i) in
        match cso f m2 i (splits_of m2 s') with
        | None => None
        | Some (m3, true) => Some (m3, true)
        | Some (m3, false) =>
          match is_valid_owner f m3 i s' with
          | None => None
          | Some v =>
            if check_bounds m3 s' && v && bcontains s' i && inside i s'
            then Some (set_owner_field m3 i (Some s'), true)
            else cso f m3 i rest
          end
        end
    end.

  Lemma cso_unfold f m i s rest :
    cso (S f) m i (s :: rest) =
    match cso_first f m i s with
    | None => None
    | Some (m1, true) => Some (m1, true)
    | Some (m1, false) => cso_tail f m1 i s rest
    end.
  Proof. reflexivity. Qed.

  Lemma cso_first_mono_from f f' m i s r1 :
    (forall m spl r, cso f m i spl = Some r -> cso f' m i spl = Some r) ->
    cso_first f m i s = Some r1 -> cso_first f' m i s = Some r1.
  Proof.
    unfold cso_first. intros IH H1. destruct (negb (pts_of m s)); [|exact H1].
    destruct (g && opt_eqb (rsplit_of m s) i); [exact H1|]. apply IH. exact H1.
  Qed.

  Lemma cso_tail_mono_from f f' m1 i s rest r2 : f <= f' ->
    (forall m spl r, cso f m i spl = Some r -> cso f' m i spl = Some r) ->
    cso_tail f m1 i s rest = Some r2 -> cso_tail f' m1 i s rest = Some r2.
  Proof.
    intros Hle IH E2. unfold cso_tail in *.
    destruct (get_real f m1 (Some s)) as [y|] eqn:Eg2; [|discriminate].
    rewrite (get_real_mono _ _ _ _ Eg2 f' Hle).
    destruct y as [s'|]; [|apply IH; exact E2].
    destruct (Nat.eqb s' i || opt_eqb (rsplit_of m1 s') i); [apply IH; exact E2|].
    cbv zeta in *.
    destruct (cso f (set_rsplit m1 s' (Some i)) i (splits_of (set_rsplit m1 s' (Some i)) s')) as [[m3 b3]|] eqn:E3; [|discriminate].
    rewrite (IH _ _ _ E3). destruct b3; [exact E2|].
    destruct (is_valid_owner f m3 i s') as [v|] eqn:Ev; [|discriminate].
    rewrite (is_valid_owner_mono _ _ _ _ _ Ev f' Hle).
    destruct (check_bounds m3 s' && v && bcontains s' i && inside i s'); [exact E2|]. apply IH. exact E2.
  Qed.

  Lemma cso_mono : forall f m i spl r, cso f m i spl = Some r -> forall f', f <= f' -> cso f' m i spl = Some r.
  Proof.
    induction f as [|f IH]; intros m i spl r H f' Hle; [discriminate|].
    destruct f' as [|f']; [lia|]. assert (Hle' : f <= f') by lia.
    destruct spl as [|s rest]; [exact H|].
    rewrite cso_unfold in *.
    assert (IH' : forall m spl r, cso f m i spl = Some r -> cso f' m i spl = Some r) by (intros; eapply IH; eauto).
    destruct (cso_first f m i s) as [[m1 b1]|] eqn:E1; [|discriminate].
    rewrite (cso_first_mono_from _ _ _ _ _ _ IH' E1). destruct b1; [exact H|].
    eapply cso_tail_mono_from; eauto.
  Qed.

  (* ---- what a search that has not found an owner leaves behind *)
  Variable i : nat.

  Definition keeps (m m' : omap) : Prop :=
    length m' = length m /\
    (forall k, pts_of m' k = pts_of m k /\ splits_of m' k = splits_of m k /\ owner_of m' k = owner_of m k) /\
    (forall k, opt_eqb (rsplit_of m k) i = true -> opt_eqb (rsplit_of m' k) i = true).

  Lemma keeps_refl m : keeps m m.
  Proof. repeat split; auto. Qed.

  Lemma keeps_trans a b c : keeps a b -> keeps b c -> keeps a c.
  Proof.
    intros (L1 & F1 & M1) (L2 & F2 & M2). split; [congruence|]. split.
    - intros k. destruct (F1 k) as (P1 & S1 & O1). destruct (F2 k) as (P2 & S2 & O2). repeat split; congruence.
    - intros k Hk. auto.
  Qed.

  Lemma keeps_good m m' : good m -> keeps m m' -> good m'.
  Proof. intros Hg (L & F & _). eapply same_owner_good; eauto. intros k. apply F. Qed.

  Lemma rsplit_set_same m s o : s < length m -> rsplit_of (set_rsplit m s o) s = o.
  Proof. intros H. unfold rsplit_of, set_rsplit. rewrite get_upd_same by exact H. reflexivity. Qed.

  Lemma rsplit_set_other m s k o : s <> k -> rsplit_of (set_rsplit m s o) k = rsplit_of m k.
  Proof. intros H. unfold rsplit_of, set_rsplit. rewrite get_upd_other by exact H. reflexivity. Qed.

  Lemma fields_set_rsplit m s o k :
    pts_of (set_rsplit m s o) k = pts_of m k /\ splits_of (set_rsplit m s o) k = splits_of m k /\
    owner_of (set_rsplit m s o) k = owner_of m k.
  Proof.
    unfold pts_of, splits_of, owner_of, set_rsplit. destruct (Nat.eq_dec s k) as [->|Hne].
    - destruct (Nat.lt_ge_cases k (length m)) as [Hlt|Hge].
      + rewrite get_upd_same by exact Hlt. auto.
      + rewrite upd_oob by exact Hge. auto.
    - rewrite get_upd_other by exact Hne. auto.
  Qed.

  Lemma opt_eqb_refl k : opt_eqb (Some k) k = true.
  Proof. cbn. apply Nat.eqb_refl. Qed.

  Lemma keeps_mark m s : keeps m (set_rsplit m s (Some i)).
  Proof.
    split; [unfold set_rsplit; apply length_upd|]. split; [intros k; apply fields_set_rsplit|].
    intros k Hk. destruct (Nat.eq_dec s k) as [->|Hne].
    - destruct (Nat.lt_ge_cases k (length m)) as [Hlt|Hge].
      + rewrite rsplit_set_same by exact Hlt. apply opt_eqb_refl.
      + unfold set_rsplit. rewrite upd_oob by exact Hge. exact Hk.
    - rewrite rsplit_set_other by exact Hne. exact Hk.
  Qed.

  Lemma keeps_gmark m s : keeps m (if g then set_rsplit m s (Some i) else m).
  Proof. destruct g; [apply keeps_mark|apply keeps_refl]. Qed.

  Lemma cso_false_keeps : forall f m spl m', cso f m i spl = Some (m', false) -> keeps m m'.
  Proof.
    induction f as [|f IH]; intros m spl m' H; [discriminate|].
    destruct spl as [|s rest]; [injection H as <-; apply keeps_refl|].
    rewrite cso_unfold in H.
    destruct (cso_first f m i s) as [[m1 b1]|] eqn:E1; [|discriminate].
    destruct b1; [discriminate|].
    assert (K1 : keeps m m1).
    { unfold cso_first in E1. destruct (negb (pts_of m s)); [|injection E1 as <-; apply keeps_refl].
      destruct (g && opt_eqb (rsplit_of m s) i); [injection E1 as <-; apply keeps_refl|].
      eapply keeps_trans; [apply keeps_gmark|]. eapply IH; eauto. }
    unfold cso_tail in H.
    destruct (get_real f m1 (Some s)) as [[s'|]|]; [| |discriminate].
    2:{ eapply keeps_trans; eauto. }
    destruct (Nat.eqb s' i || opt_eqb (rsplit_of m1 s') i); [eapply keeps_trans; eauto|].
    cbv zeta in H.
    destruct (cso f (set_rsplit m1 s' (Some i)) i (splits_of (set_rsplit m1 s' (Some i)) s')) as [[m3 b3]|] eqn:E3; [|discriminate].
    destruct b3; [discriminate|].
    destruct (is_valid_owner f m3 i s') as [v|]; [|discriminate].
    destruct (check_bounds m3 s' && v && bcontains s' i && inside i s'); [discriminate|].
    eapply keeps_trans; [exact K1|]. eapply keeps_trans; [apply keeps_mark|]. eapply keeps_trans; eauto.
  Qed.

  Lemma get_real_pts : forall f m x r, get_real f m x = Some (Some r) -> pts_of m r = true.
  Proof.
    induction f as [|f IH]; intros m [j|] r H; cbn [get_real] in H; try discriminate.
    - destruct (pts_of m j) eqn:E; [|discriminate]. injection H as <-. exact E.
    - destruct (pts_of m j) eqn:E; [injection H as <-; exact E|]. eapply IH; eauto.
  Qed.

  (* one element of the split list: if the descent at its head has an answer, the rest of the list can be answered in every
     state the search can leave behind, and the marker-protected descent can be answered whenever it marks a new OutRec,
     then the whole list can be answered *)
  Lemma cso_step m s rest f1 m1 b1 :
    good m ->
    cso_first f1 m i s = Some (m1, b1) ->
    (forall mm, keeps m mm -> exists fr rr, cso fr mm i rest = Some rr) ->
    (forall mm s', keeps m mm -> pts_of mm s' = true -> opt_eqb (rsplit_of mm s') i = false ->
       exists f3 r3, cso f3 (set_rsplit mm s' (Some i)) i (splits_of (set_rsplit mm s' (Some i)) s') = Some r3) ->
    exists fuel r, cso fuel m i (s :: rest) = Some r.
  Proof.
    intros Hg E1 Hrest Hdesc.
    destruct b1.
    { exists (S f1). eexists. rewrite cso_unfold, E1. reflexivity. }
    assert (K1 : keeps m m1).
    { unfold cso_first in E1. destruct (negb (pts_of m s)); [|injection E1 as <-; apply keeps_refl].
      destruct (g && opt_eqb (rsplit_of m s) i); [injection E1 as <-; apply keeps_refl|].
      eapply keeps_trans; [apply keeps_gmark|]. eapply cso_false_keeps; eauto. }
    assert (Hg1 : good m1) by exact (keeps_good _ _ Hg K1).
    destruct (get_real_total m1 (S (length m1)) (Some s)) as [x Eg].
    { destruct (good_dist m1 s Hg1) as (d & Hd & Hle). exists d. split; auto. lia. }
    set (fg := S (length m1)) in *.
    assert (Hfin : forall f2 r2, cso_tail f2 m1 i s rest = Some r2 -> exists fuel r, cso fuel m i (s :: rest) = Some r).
    { intros f2 r2 E2. exists (S (Nat.max f1 f2)). exists r2. rewrite cso_unfold.
      rewrite (cso_first_mono_from f1 (Nat.max f1 f2) _ _ _ _ (fun m spl r H => cso_mono _ _ _ _ _ H _ (Nat.le_max_l _ _)) E1).
      eapply cso_tail_mono_from; [apply Nat.le_max_r| |exact E2]. intros mm spl r H. eapply cso_mono; [exact H|apply Nat.le_max_r]. }
    destruct x as [s'|].
    2:{ destruct (Hrest m1 K1) as (fr & rr & Er). apply (Hfin (Nat.max fg fr) rr). unfold cso_tail.
        rewrite (get_real_mono _ _ _ _ Eg (Nat.max fg fr)) by lia. eapply cso_mono; eauto. lia. }
    destruct (Nat.eqb s' i || opt_eqb (rsplit_of m1 s') i) eqn:Eskip.
    { destruct (Hrest m1 K1) as (fr & rr & Er). apply (Hfin (Nat.max fg fr) rr). unfold cso_tail.
      rewrite (get_real_mono _ _ _ _ Eg (Nat.max fg fr)) by lia. rewrite Eskip. eapply cso_mono; eauto. lia. }
    apply orb_false_elim in Eskip. destruct Eskip as [Eeq Eun].
    pose proof (get_real_pts _ _ _ _ Eg) as Hp'.
    set (m2 := set_rsplit m1 s' (Some i)).
    assert (K2 : keeps m1 m2) by apply keeps_mark.
    assert (Htail : forall F, fg <= F -> cso_tail F m1 i s rest =
      match cso F m2 i (splits_of m2 s') with
      | None => None
      | Some (m3, true) => Some (m3, true)
      | Some (m3, false) =>
        match is_valid_owner F m3 i s' with
        | None => None
        | Some v => if check_bounds m3 s' && v && bcontains s' i && inside i s'
                    then Some (set_owner_field m3 i (Some s'), true) else cso F m3 i rest
        end
      end).
    { intros F HF. unfold cso_tail. rewrite (get_real_mono _ _ _ _ Eg F HF). rewrite Eeq, Eun. reflexivity. }
    destruct (Hdesc m1 s' K1 Hp' Eun) as (f3 & [m3 b3] & E3). fold m2 in E3.
    destruct b3.
    { apply (Hfin (Nat.max fg f3) (m3, true)). rewrite Htail by lia.
      rewrite (cso_mono _ _ _ _ _ E3 (Nat.max fg f3)) by lia. reflexivity. }
    assert (K3 : keeps m2 m3) by (eapply cso_false_keeps; eauto).
    assert (Hg3 : good m3) by exact (keeps_good _ _ (keeps_good _ _ Hg1 K2) K3).
    assert (Ev : exists v, is_valid_owner (S (length m3)) m3 i s' = Some v).
    { unfold is_valid_owner. destruct (good_dist m3 s' Hg3) as (d & Hd & Hle).
      destruct (reaches_total m3 i (S (length m3)) s' d Hd) as [bb Hbb]; [lia|]. rewrite Hbb. eauto. }
    destruct Ev as [v Ev]. set (fv := S (length m3)) in *.
    destruct (check_bounds m3 s' && v && bcontains s' i && inside i s') eqn:Ec.
    { apply (Hfin (Nat.max fg (Nat.max f3 fv)) (set_owner_field m3 i (Some s'), true)). rewrite Htail by lia.
      rewrite (cso_mono _ _ _ _ _ E3 (Nat.max fg (Nat.max f3 fv))) by lia.
      rewrite (is_valid_owner_mono _ _ _ _ _ Ev (Nat.max fg (Nat.max f3 fv))) by lia. rewrite Ec. reflexivity. }
    assert (Km3 : keeps m m3) by (eapply keeps_trans; [exact K1|]; eapply keeps_trans; [exact K2|exact K3]).
    destruct (Hrest m3 Km3) as (fr & rr & Er).
    apply (Hfin (Nat.max fg (Nat.max f3 (Nat.max fv fr))) rr). rewrite Htail by lia.
    rewrite (cso_mono _ _ _ _ _ E3 (Nat.max fg (Nat.max f3 (Nat.max fv fr)))) by lia.
    rewrite (is_valid_owner_mono _ _ _ _ _ Ev (Nat.max fg (Nat.max f3 (Nat.max fv fr)))) by lia. rewrite Ec.
    eapply cso_mono; eauto. lia.
  Qed.

  (* ---- counting unmarked OutRecs *)
  Lemma filter_length_le {A} (P P' : A -> bool) l :
    (forall k, In k l -> P' k = true -> P k = true) -> length (filter P' l) <= length (filter P l).
  Proof.
    induction l as [|a t IH]; intros H; cbn [filter length]; auto.
    assert (IHt : length (filter P' t) <= length (filter P t)) by (apply IH; intros; apply H; cbn; auto).
    destruct (P' a) eqn:E'; destruct (P a) eqn:E; cbn [length]; try lia.
    rewrite (H a) in E; cbn; auto. discriminate.
  Qed.

  Lemma filter_length_lt {A} (P P' : A -> bool) l x :
    (forall k, In k l -> P' k = true -> P k = true) -> In x l -> P x = true -> P' x = false ->
    length (filter P' l) < length (filter P l).
  Proof.
    induction l as [|a t IH]; intros H Hin Hx Hx'; [destruct Hin|].
    cbn [filter]. assert (Hle : length (filter P' t) <= length (filter P t)) by (apply filter_length_le; intros; apply H; cbn; auto).
    destruct Hin as [->|Hin].
    - rewrite Hx, Hx'. cbn [length]. lia.
    - assert (IHt : length (filter P' t) < length (filter P t)) by (apply IH; auto; intros; apply H; cbn; auto).
      destruct (P' a) eqn:E'; destruct (P a) eqn:E; cbn [length]; try lia.
      rewrite (H a) in E; cbn; auto. discriminate.
  Qed.

  (* sel = which OutRecs count: those with points (snapshot shape) or all (guarded shape) *)
  Variable sel : omap -> nat -> bool.
  Hypothesis sel_keeps : forall m m' k, keeps m m' -> sel m' k = sel m k.

  Definition unmarked (m : omap) (k : nat) : bool := sel m k && negb (opt_eqb (rsplit_of m k) i).
  Definition U (m : omap) : nat := length (filter (unmarked m) (seq 0 (length m))).

  Lemma U_keeps m m' : keeps m m' -> U m' <= U m.
  Proof.
    intros K. pose proof K as (L & F & M). unfold U. rewrite L. apply filter_length_le. intros k _ Hk. unfold unmarked in *.
    rewrite (sel_keeps _ _ k K) in Hk. apply andb_prop in Hk. destruct Hk as [Hp Hn]. rewrite Hp. cbn [andb].
    destruct (opt_eqb (rsplit_of m k) i) eqn:E; auto. rewrite (M k E) in Hn. discriminate.
  Qed.

  Lemma U_mark m s : s < length m -> sel m s = true -> opt_eqb (rsplit_of m s) i = false -> U (set_rsplit m s (Some i)) < U m.
  Proof.
    intros Hlt Hp Hu. unfold U.
    replace (length (set_rsplit m s (Some i))) with (length m) by (unfold set_rsplit; symmetry; apply length_upd).
    pose proof (keeps_mark m s) as K.
    apply filter_length_lt with (x := s).
    - intros k _ Hk. unfold unmarked in *. rewrite (sel_keeps _ _ k K) in Hk. apply andb_prop in Hk. destruct Hk as [Hkp Hkn].
      rewrite Hkp. cbn [andb]. destruct (opt_eqb (rsplit_of m k) i) eqn:E; auto.
      destruct K as (_ & _ & M). rewrite (M k E) in Hkn. discriminate.
    - apply in_seq. lia.
    - unfold unmarked. rewrite Hp, Hu. reflexivity.
    - unfold unmarked. rewrite rsplit_set_same by exact Hlt. rewrite opt_eqb_refl. apply andb_false_r.
  Qed.
End CsoGeneral.

Lemma pts_in_range m k : pts_of m k = true -> k < length m.
Proof.
  intros H. destruct (Nat.lt_ge_cases k (length m)); auto. unfold pts_of in H. rewrite get_oob in H by assumption. discriminate.
Qed.

(* ---- the snapshot shape: needs a rank on point-less OutRecs that decreases along split lists *)
Section TermUnguarded.
  Variables (inside bcontains : nat -> nat -> bool) (i : nat) (rk : nat -> nat).
  Notation cso := (check_split_owner inside bcontains false).
  Notation keeps := (keeps i).
  Notation Up := (U i pts_of).

  Definition ranked (m : omap) : Prop :=
    forall s s2, pts_of m s = false -> In s2 (splits_of m s) -> pts_of m s2 = false -> rk s2 < rk s.

  Fixpoint lrank (m : omap) (spl : list nat) : nat :=
    match spl with
    | [] => 0
    | s :: t => Nat.max (if pts_of m s then 0 else S (rk s)) (lrank m t)
    end.

  Lemma pts_keeps m m' k : keeps m m' -> pts_of m' k = pts_of m k.
  Proof. intros (_ & F & _). apply F. Qed.

  Lemma keeps_ranked m m' : ranked m -> keeps m m' -> ranked m'.
  Proof.
    intros Hr (_ & F & _) s s2 H1 H2 H3. destruct (F s) as (P1 & S1 & _). destruct (F s2) as (P2 & _ & _).
    apply Hr; congruence.
  Qed.

  Lemma keeps_lrank m m' spl : keeps m m' -> lrank m' spl = lrank m spl.
  Proof.
    intros (_ & F & _). induction spl as [|s t IH]; cbn [lrank]; auto. destruct (F s) as (P & _ & _). rewrite P, IH. reflexivity.
  Qed.

  Lemma lrank_splits m s : ranked m -> pts_of m s = false -> lrank m (splits_of m s) <= rk s.
  Proof.
    intros Hr Hs. assert (H : forall l, (forall s2, In s2 l -> In s2 (splits_of m s)) -> lrank m l <= rk s).
    { induction l as [|a t IH]; intros Hin; cbn [lrank]; [lia|].
      assert (IHt : lrank m t <= rk s) by (apply IH; intros; apply Hin; cbn; auto).
      destruct (pts_of m a) eqn:Ea; [lia|]. pose proof (Hr s a Hs (Hin a (or_introl eq_refl)) Ea). lia. }
    apply H. auto.
  Qed.

  Lemma cso_term_ranked : forall nU nR spl m, good m -> ranked m -> Up m <= nU -> lrank m spl <= nR ->
    exists fuel r, cso fuel m i spl = Some r.
  Proof.
    induction nU as [nU IHU] using lt_wf_ind. induction nR as [nR IHR] using lt_wf_ind.
    induction spl as [|s rest IHs]; intros m Hg Hr HU HR.
    { exists 1. eexists. reflexivity. }
    cbn [lrank] in HR.
    assert (H1 : exists f1 r1, cso_first inside bcontains false f1 m i s = Some r1).
    { unfold cso_first. destruct (pts_of m s) eqn:Ep; cbn [negb andb]; [exists 0; eauto|].
      apply (IHR (rk s)); auto; [lia|]. apply lrank_splits; auto. }
    destruct H1 as (f1 & [m1 b1] & E1).
    eapply cso_step; eauto.
    - intros mm K. apply IHs.
      + exact (keeps_good _ _ _ Hg K).
      + exact (keeps_ranked _ _ Hr K).
      + pose proof (U_keeps i pts_of pts_keeps _ _ K). lia.
      + rewrite (keeps_lrank _ _ rest K). lia.
    - intros mm s' K Hp Hu.
      pose proof (U_keeps i pts_of pts_keeps _ _ K) as HUmm.
      pose proof (U_mark i pts_of pts_keeps mm s' (pts_in_range _ _ Hp) Hp Hu) as HUlt.
      pose proof (keeps_mark i mm s') as K2.
      assert (K' : keeps m (set_rsplit mm s' (Some i))) by (eapply keeps_trans; eauto).
      eapply (IHU (Up (set_rsplit mm s' (Some i)))); [lia| | |apply le_n|apply le_n].
      + exact (keeps_good _ _ _ Hg K').
      + exact (keeps_ranked _ _ Hr K').
  Qed.
End TermUnguarded.

(* ---- the guarded shape: every descent marks a new OutRec, no hypothesis on the split lists is needed *)
Section TermGuarded.
  Variables (inside bcontains : nat -> nat -> bool) (i : nat).
  Notation cso := (check_split_owner inside bcontains true).
  Notation keeps := (keeps i).
  Definition all_sel (m : omap) (k : nat) : bool := true.
  Notation Ua := (U i all_sel).

  Lemma all_keeps m m' k : keeps m m' -> all_sel m' k = all_sel m k.
  Proof. reflexivity. Qed.

  Lemma splits_oob m s : length m <= s -> splits_of m s = [].
  Proof. intros H. unfold splits_of. rewrite get_oob by exact H. reflexivity. Qed.

  Lemma cso_term_guarded : forall nU spl m, good m -> Ua m <= nU -> exists fuel r, cso fuel m i spl = Some r.
  Proof.
    induction nU as [nU IHU] using lt_wf_ind.
    induction spl as [|s rest IHs]; intros m Hg HU.
    { exists 1. eexists. reflexivity. }
    assert (H1 : exists f1 r1, cso_first inside bcontains true f1 m i s = Some r1).
    { unfold cso_first. destruct (pts_of m s) eqn:Ep; cbn [negb andb]; [exists 0; eauto|].
      destruct (opt_eqb (rsplit_of m s) i) eqn:Eu; [exists 0; eauto|].
      destruct (Nat.lt_ge_cases s (length m)) as [Hlt|Hge].
      - pose proof (U_mark i all_sel all_keeps m s Hlt eq_refl Eu) as HUlt.
        eapply (IHU (Ua (set_rsplit m s (Some i)))); [lia| |apply le_n].
        exact (keeps_good _ _ _ Hg (keeps_mark i m s)).
      - rewrite (splits_oob m s Hge). exists 1. eexists. reflexivity. }
    destruct H1 as (f1 & [m1 b1] & E1).
    eapply cso_step; eauto.
    - intros mm K. apply IHs.
      + exact (keeps_good _ _ _ Hg K).
      + pose proof (U_keeps i all_sel all_keeps _ _ K). lia.
    - intros mm s' K Hp Hu.
      pose proof (U_keeps i all_sel all_keeps _ _ K) as HUmm.
      pose proof (U_mark i all_sel all_keeps mm s' (pts_in_range _ _ Hp) eq_refl Hu) as HUlt.
      assert (K' : keeps m (set_rsplit mm s' (Some i))) by (eapply keeps_trans; [exact K|apply keeps_mark]).
      eapply (IHU (Ua (set_rsplit mm s' (Some i)))); [lia| |apply le_n].
      exact (keeps_good _ _ _ Hg K').
  Qed.
End TermGuarded.

(* CheckSplitOwner in the shape of the snapshot terminates in every state whose owner graph is a forest and in which no
   chain of point-less OutRecs through split lists returns to itself (rk: a rank that decreases along such chains). *)
Theorem check_split_terminates : forall inside bcontains (rk : nat -> nat) m i spl,
  acyclic m -> (forall a o, owner_of m a = Some o -> o < length m) ->
  (forall s s2, pts_of m s = false -> In s2 (splits_of m s) -> pts_of m s2 = false -> rk s2 < rk s) ->
  exists fuel r, check_split_owner inside bcontains false fuel m i spl = Some r.
Proof.
  intros inside bcontains rk m i spl Hac Hb Hr.
  eapply (cso_term_ranked inside bcontains i rk (U i pts_of m) (lrank rk m spl)); auto. split; auto.
Qed.

(* ... and in the guarded shape in every state whose owner graph is a forest. *)
Theorem check_split_guarded_terminates : forall inside bcontains m i spl,
  acyclic m -> (forall a o, owner_of m a = Some o -> o < length m) ->
  exists fuel r, check_split_owner inside bcontains true fuel m i spl = Some r.
Proof.
  intros inside bcontains m i spl Hac Hb.
  eapply (cso_term_guarded inside bcontains i (U i all_sel m)); auto. split; auto.
Qed.

(* the hypothesis on split lists is satisfiable, e.g. by every state without split lists *)
Example ranked_example : forall s s2, pts_of [mkOrec None true [] None] s = false -> In s2 (splits_of [mkOrec None true [] None] s) ->
  pts_of [mkOrec None true [] None] s2 = false -> 0 < 0.
Proof. intros [|[|s]] s2 _ H; cbn in H; destruct H. Qed.
