(* C15: erasing z commutes with the path kernels.  The kernels of model/ZErase.v are generic in the point type; here:
   a map f between point types that is compatible with operator== and IsCollinear (and, for Minkowski, with the point
   sum and the orientation test) commutes with every kernel.  Instantiated with f = erase this says the USINGZ build
   computes exactly the x,y result of the build without USINGZ, whatever z values the input carries. *)
From Coq Require Import ZArith List Bool Lia PeanoNat.
From Clip Require Import base.Geom model.PathUtils model.ZErase.
Import ListNotations.
Local Open Scope nat_scope.

Definition rmap {A B} (g : A -> B) (r : res A) : res B :=
  match r with Ok a => Ok (g a) | ErrOOB => ErrOOB | ErrFuel => ErrFuel end.

Lemma rd_map {A B} (f : A -> B) l i : rd (map f l) i = rmap f (rd l i).
Proof. unfold rd. rewrite nth_error_map. destruct (nth_error l i); reflexivity. Qed.

Lemma removelast_map {A B} (f : A -> B) l : removelast (map f l) = map f (removelast l).
Proof.
  induction l as [|a l IH]; [reflexivity|]. destruct l as [|b l]; [reflexivity|].
  change (f a :: removelast (map f (b :: l)) = f a :: map f (removelast (b :: l))). rewrite IH. reflexivity.
Qed.

Lemma bind_rmap_l {A B C} (g : A -> B) (r : res A) (k : B -> res C) :
  bind (rmap g r) k = bind r (fun x => k (g x)).
Proof. destruct r; reflexivity. Qed.

Lemma rmap_bind {A B C} (g : B -> C) (r : res A) (k : A -> res B) :
  rmap g (bind r k) = bind r (fun x => rmap g (k x)).
Proof. destruct r; reflexivity. Qed.

Lemma bind_ext {A B} (r : res A) (k1 k2 : A -> res B) : (forall x, k1 x = k2 x) -> bind r k1 = bind r k2.
Proof. intros H. destruct r; cbn [bind]; auto. Qed.

Lemma bind_assoc {A B C} (r : res A) (k : A -> res B) (h : B -> res C) :
  bind (bind r k) h = bind r (fun x => bind (k x) h).
Proof. destruct r; reflexivity. Qed.

(* one monadic step on both sides: a bounds-checked read of the mapped list vs the mapped read *)
Ltac mstep := rewrite rd_map, bind_rmap_l, rmap_bind; apply bind_ext; intro.

Section Morph.
  Context {P Q : Type} (f : P -> Q).
  Variables (eqb1 : P -> P -> bool) (eqb2 : Q -> Q -> bool).
  Variables (coll1 : P -> P -> P -> bool) (coll2 : Q -> Q -> Q -> bool).
  Hypothesis Heq : forall a b, eqb2 (f a) (f b) = eqb1 a b.
  Hypothesis Hcoll : forall a b c, coll2 (f a) (f b) (f c) = coll1 a b c.

  (* read three elements, then continue: the shape of every loop body *)
  Ltac rd3 p :=
    rewrite !rd_map;
    repeat match goal with
           | |- context [rd p ?i] => destruct (rd p i); cbn [bind rmap]; try reflexivity
           end.

  Lemma trim_lead_map fuel : forall p src stop,
    g_trim_lead coll2 fuel (map f p) src stop = g_trim_lead coll1 fuel p src stop.
  Proof.
    induction fuel as [|n IH]; intros p src stop; [reflexivity|]. cbn [g_trim_lead].
    destruct (src =? stop); [reflexivity|]. rd3 p. rewrite Hcoll, IH. reflexivity.
  Qed.

  Lemma trim_tail_map fuel : forall p src stop,
    g_trim_tail coll2 fuel (map f p) src stop = g_trim_tail coll1 fuel p src stop.
  Proof.
    induction fuel as [|n IH]; intros p src stop; [reflexivity|]. cbn [g_trim_tail].
    destruct (src =? stop); [reflexivity|]. destruct stop as [|s1]; [reflexivity|].
    rd3 p. rewrite Hcoll, IH. reflexivity.
  Qed.

  Lemma trim_main_map fuel : forall p prev src stop dst,
    g_trim_main coll2 fuel (map f p) prev src stop (map f dst) =
    rmap (fun r => (fst r, map f (snd r))) (g_trim_main coll1 fuel p prev src stop dst).
  Proof.
    induction fuel as [|n IH]; intros p prev src stop dst; [reflexivity|]. cbn [g_trim_main].
    destruct (src =? stop); [reflexivity|]. rd3 p. rewrite Hcoll.
    match goal with |- context [coll1 ?a ?b ?c] => destruct (coll1 a b c) end; cbn [negb].
    - apply IH.
    - rewrite <- IH, map_app. reflexivity.
  Qed.

  Lemma trim_seam_map fuel : forall dst,
    g_trim_seam coll2 fuel (map f dst) = rmap (map f) (g_trim_seam coll1 fuel dst).
  Proof.
    induction fuel as [|n IH]; intros dst; [reflexivity|]. cbn [g_trim_seam]. rewrite map_length.
    destruct (2 <? length dst); [|reflexivity]. rd3 dst. rewrite Hcoll.
    match goal with |- context [coll1 ?a ?b ?c] => destruct (coll1 a b c) end; [|reflexivity].
    rewrite removelast_map. apply IH.
  Qed.

  Theorem trim_collinear_map p is_open :
    g_trim_collinear coll2 (map f p) is_open = rmap (map f) (g_trim_collinear coll1 p is_open).
  Proof.
    unfold g_trim_collinear. rewrite map_length.
    destruct (length p <? 3).
    - destruct (negb is_open || (length p <? 2)); reflexivity.
    - assert (Hss : forall (k1 : nat * nat -> res (list Q)) (k2 : nat * nat -> res (list P)),
                 (forall ss, k1 ss = rmap (map f) (k2 ss)) ->
                 bind (if negb is_open
                       then s <- g_trim_lead coll2 (S (length p)) (map f p) 0 (length p - 1);;
                            e <- g_trim_tail coll2 (S (length p)) (map f p) s (length p - 1);; Ok (s, e)
                       else Ok (0, length p - 1)) k1 =
                 rmap (map f)
                   (bind (if negb is_open
                          then s <- g_trim_lead coll1 (S (length p)) p 0 (length p - 1);;
                               e <- g_trim_tail coll1 (S (length p)) p s (length p - 1);; Ok (s, e)
                          else Ok (0, length p - 1)) k2)).
      { intros k1 k2 Hk. destruct (negb is_open); [|cbn [bind]; apply Hk].
        rewrite trim_lead_map, rmap_bind. rewrite !bind_assoc. apply bind_ext; intros s0.
        rewrite trim_tail_map, !bind_assoc. apply bind_ext; intros e0. cbn [bind]. apply Hk. }
      apply Hss. intros [src stop].
      destruct (negb is_open && (src =? stop)); [reflexivity|].
      mstep.
      match goal with |- context [g_trim_main coll2 _ _ _ _ _ [f ?a]] => change [f a] with (map f [a]) end.
      rewrite trim_main_map, bind_rmap_l, rmap_bind. apply bind_ext; intros [prev dst]; cbn [fst snd].
      destruct is_open.
      + mstep. cbn [rmap]. rewrite map_app. reflexivity.
      + mstep. mstep. mstep. rewrite Hcoll.
        match goal with |- context [coll1 ?a ?b ?c] => destruct (coll1 a b c) end; cbn [negb].
        * rewrite trim_seam_map, bind_rmap_l, rmap_bind. apply bind_ext; intros d.
          rewrite map_length. destruct (length d <? 3); reflexivity.
        * cbn [rmap]. rewrite map_app. reflexivity.
  Qed.

  (* ---- StripDuplicates ---- *)
  Lemma unique_from_map last l :
    g_unique_from eqb2 (f last) (map f l) = map f (g_unique_from eqb1 last l).
  Proof.
    revert last; induction l as [|x t IH]; intros last; [reflexivity|]. cbn [map g_unique_from].
    rewrite Heq. destruct (eqb1 last x); [apply IH|]. cbn [map]. rewrite IH. reflexivity.
  Qed.

  Lemma std_unique_map p : g_std_unique eqb2 (map f p) = map f (g_std_unique eqb1 p).
  Proof. destruct p as [|a t]; [reflexivity|]. cbn [map g_std_unique]. rewrite unique_from_map. reflexivity. Qed.

  Lemma pop_back_eq_map fuel : forall l,
    g_pop_back_eq eqb2 fuel (map f l) = rmap (map f) (g_pop_back_eq eqb1 fuel l).
  Proof.
    induction fuel as [|n IH]; intros l; [reflexivity|]. cbn [g_pop_back_eq]. rewrite map_length.
    destruct (1 <? length l); [|reflexivity]. rd3 l. rewrite Heq.
    match goal with |- context [eqb1 ?a ?b] => destruct (eqb1 a b) end; [|reflexivity].
    rewrite removelast_map. apply IH.
  Qed.

  Theorem strip_duplicates_map p closed :
    g_strip_duplicates eqb2 (map f p) closed = rmap (map f) (g_strip_duplicates eqb1 p closed).
  Proof.
    unfold g_strip_duplicates. rewrite std_unique_map, map_length.
    destruct closed; [apply pop_back_eq_map|reflexivity].
  Qed.

  (* ---- Minkowski quads ---- *)
  Variables (add1 : P -> P -> P) (add2 : Q -> Q -> Q).
  Variables (pos1 : list P -> bool) (pos2 : list Q -> bool).
  Hypothesis Hadd : forall a b, add2 (f a) (f b) = f (add1 a b).
  Hypothesis Hpos : forall q, pos2 (map f q) = pos1 q.

  Lemma mink_tmp_map pattern path :
    g_mink_tmp add2 (map f pattern) (map f path) = map (map f) (g_mink_tmp add1 pattern path).
  Proof.
    unfold g_mink_tmp. rewrite !map_map. apply map_ext. intros p. rewrite !map_map. apply map_ext. intros q. apply Hadd.
  Qed.

  Lemma rd2_map tmp i j : rd2 (map (map f) tmp) i j = rmap f (rd2 tmp i j).
  Proof.
    unfold rd2. rewrite rd_map. destruct (rd tmp i); cbn [bind rmap]; try reflexivity. apply rd_map.
  Qed.

  Lemma mink_row_map tmp g i : forall js h,
    g_mink_row pos2 (map (map f) tmp) g i h js =
    rmap (fun r => (map (map f) (fst r), snd r)) (g_mink_row pos1 tmp g i h js).
  Proof.
    induction js as [|j js IH]; intros h; [reflexivity|]. cbn [g_mink_row].
    rewrite !rd2_map.
    destruct (rd2 tmp g h) as [a| |]; cbn [bind rmap]; try reflexivity.
    destruct (rd2 tmp i h) as [b| |]; cbn [bind rmap]; try reflexivity.
    destruct (rd2 tmp i j) as [c| |]; cbn [bind rmap]; try reflexivity.
    destruct (rd2 tmp g j) as [d| |]; cbn [bind rmap]; try reflexivity.
    rewrite IH. destruct (g_mink_row pos1 tmp g i j js) as [[qs h']| |]; cbn [bind rmap fst snd]; try reflexivity.
    change [f a; f b; f c; f d] with (map f [a; b; c; d]). rewrite Hpos.
    destruct (pos1 [a; b; c; d]); [reflexivity|]. rewrite <- map_rev. reflexivity.
  Qed.

  Lemma mink_rows_map tmp patLen : forall is g h,
    g_mink_rows pos2 (map (map f) tmp) patLen g h is =
    rmap (map (map f)) (g_mink_rows pos1 tmp patLen g h is).
  Proof.
    induction is as [|i is IH]; intros g h; [reflexivity|]. cbn [g_mink_rows].
    rewrite mink_row_map.
    destruct (g_mink_row pos1 tmp g i h (seq 0 patLen)) as [[qs h']| |]; cbn [bind rmap fst snd]; try reflexivity.
    rewrite IH. destruct (g_mink_rows pos1 tmp patLen i h' is); cbn [bind rmap]; try reflexivity.
    rewrite map_app. reflexivity.
  Qed.

  Theorem minkowski_map pattern path closed :
    g_minkowski add2 pos2 (map f pattern) (map f path) closed =
    rmap (map (map f)) (g_minkowski add1 pos1 pattern path closed).
  Proof.
    unfold g_minkowski. rewrite !map_length.
    destruct ((length pattern =? 0) || (length path =? 0)); [reflexivity|].
    rewrite mink_tmp_map. apply mink_rows_map.
  Qed.
End Morph.

(* ====================================================================== instances: f = erase *)
Local Open Scope Z_scope.

Lemma eqb3_erase a b : pt_eqb (erase a) (erase b) = point_eqb3 a b.
Proof. reflexivity. Qed.

Lemma coll3_erase a b c : is_collinear (erase a) (erase b) (erase c) = is_collinear3 a b c.
Proof. reflexivity. Qed.

Theorem trim_collinear_erase p is_open :
  trim_collinear2 (map erase p) is_open = rmap (map erase) (trim_collinear_z p is_open).
Proof. apply (trim_collinear_map erase is_collinear3 is_collinear coll3_erase). Qed.

Theorem strip_duplicates_erase p closed :
  strip_duplicates2 (map erase p) closed = rmap (map erase) (strip_duplicates_z p closed).
Proof. apply (strip_duplicates_map erase point_eqb3 pt_eqb eqb3_erase). Qed.

Theorem minkowski_erase sum pattern path closed :
  minkowski2 sum (map erase pattern) (map erase path) closed =
  rmap (map (map erase)) (minkowski_z sum pattern path closed).
Proof.
  unfold minkowski2, minkowski_z.
  apply (minkowski_map erase (fun p q => if sum then padd3 p q else psub3 p q)
                             (fun p q => if sum then padd p q else psub p q)
                             (fun q => area2_sign_nonneg (map erase q)) area2_sign_nonneg).
  - intros a b. destruct sum; reflexivity.
  - intros q. reflexivity.
Qed.

Theorem translate_path_erase p dx dy :
  map erase (translate_path_z p dx dy) = map (fun v => (px v + dx, py v + dy)) (map erase p).
Proof. unfold translate_path_z. rewrite !map_map. apply map_ext. intros [[x y] z]. reflexivity. Qed.

(* z travels with copied points: every point of the Z-build result of TrimCollinear / StripDuplicates is one of the
   input points, z included (so no z is invented or mixed up) -- via the erasure theorem applied to f = id on pt3
   this is a statement about values; here the simpler membership form *)
Lemma unique_from_incl {P} (eqb : P -> P -> bool) last l : incl (g_unique_from eqb last l) l.
Proof.
  revert last; induction l as [|x t IH]; intros last; [apply incl_refl|]. cbn [g_unique_from].
  destruct (eqb last x).
  - apply incl_tl, IH.
  - apply incl_cons; [left; reflexivity|apply incl_tl, IH].
Qed.

(* ====================================================================== SetZ *)
(* the z handed to the callback is that of the first coinciding end in the order
   (subject bot, subject top, clip bot, clip top) when e1 is a subject edge -- e1's ends first, then e2's -- and
   (e2 bot, e2 top, e1 bot, e1 top) otherwise; DefaultZ if none coincides; without a callback ip is untouched *)
Theorem set_z_priority cb dz e1 e2 ip :
  set_z cb dz e1 e2 ip =
  match cb with
  | None => ip
  | Some f =>
      let '(a, b) := if negb (e_clip e1) then (e1, e2) else (e2, e1) in
      f (e_bot a) (e_top a) (e_bot b) (e_top b)
        (erase ip, first_match dz ip [e_bot a; e_top a; e_bot b; e_top b])
  end.
Proof.
  unfold set_z, first_match. destruct cb as [f|]; [|reflexivity].
  destruct (negb (e_clip e1)); cbn [find];
    repeat match goal with |- context [point_eqb3 ip ?v] => destruct (point_eqb3 ip v) end; reflexivity.
Qed.

(* the x,y of the point never change in SetZ's own code (only the callback may write the point) *)
Theorem set_z_keeps_xy_without_callback dz e1 e2 ip : set_z None dz e1 e2 ip = ip.
Proof. reflexivity. Qed.

(* ====================================================================== DoSplitOp *)
(* every vertex of the two resulting rings is a vertex of the ring it was called on or THE point the callback
   returned (without a callback: the local ip as GetSegmentIntersectPt left it) *)
Theorem split_vertices_accounted cb prev split snext nn rest g kept newr :
  do_split_op_z cb (prev :: split :: snext :: nn :: rest) g = Some (kept, newr) ->
  forall v, In v (match kept with Some k => k | None => [] end ++ match newr with Some n => n | None => [] end) ->
  In v (prev :: split :: snext :: nn :: rest) \/ v = split_ip cb prev split snext nn g.
Proof.
  cbn [do_split_op_z]. intros H v Hv. destruct (sg_small g).
  - injection H as <- <-. destruct Hv.
  - injection H as <- <-. apply in_app_or in Hv. destruct Hv as [Hv|Hv].
    + destruct (point_eqb3 _ prev || point_eqb3 _ nn).
      * left. cbn [In] in *. tauto.
      * cbn [In] in *. destruct Hv as [<-|[<-|[<-|Hv]]]; auto 6.
    + destruct (sg_keep g); [|destruct Hv]. cbn [In] in *. destruct Hv as [<-|[<-|[<-|[]]]]; auto 6.
Qed.

(* the vertex inserted into the kept ring and the first vertex of the split-off ring are one and the same point,
   z included *)
Theorem split_same_point_both_rings cb prev split snext nn rest g k n :
  do_split_op_z cb (prev :: split :: snext :: nn :: rest) g = Some (Some k, Some n) ->
  hd_error n = Some (split_ip cb prev split snext nn g) /\
  (length k = S (length (nn :: rest)) \/ nth_error k 1 = Some (split_ip cb prev split snext nn g)).
Proof.
  cbn [do_split_op_z]. intros H. destruct (sg_small g); [discriminate|]. destruct (sg_keep g); [|discriminate].
  injection H as <- <-. split; [reflexivity|].
  destruct (point_eqb3 _ prev || point_eqb3 _ nn); [left|right]; reflexivity.
Qed.

(* z-erasure: a callback that leaves x,y alone does not change the x,y of the result *)
Theorem split_erase cb ring g :
  (forall f, cb = Some f -> forall a b c d p, erase (f a b c d p) = erase p) ->
  match do_split_op_z cb ring g, do_split_op_z None ring g with
  | Some (k, n), Some (k', n') => option_map (map erase) k = option_map (map erase) k' /\ option_map (map erase) n = option_map (map erase) n'
  | None, None => True
  | _, _ => False
  end.
Proof.
  intros Hf. destruct ring as [|prev [|split [|snext [|nn rest]]]]; cbn [do_split_op_z]; auto.
  destruct (sg_small g); [split; reflexivity|].
  assert (E : erase (split_ip cb prev split snext nn g) = erase (split_ip None prev split snext nn g)).
  { unfold split_ip. destruct cb as [f|]; [apply (Hf f eq_refl)|reflexivity]. }
  assert (Q : forall v, point_eqb3 (split_ip cb prev split snext nn g) v = point_eqb3 (split_ip None prev split snext nn g) v).
  { intros v. unfold point_eqb3, x3, y3. unfold erase in E. rewrite E. reflexivity. }
  rewrite !Q. split.
  - destruct (point_eqb3 _ prev || point_eqb3 _ nn); cbn [option_map map]; [reflexivity|]. rewrite E. reflexivity.
  - destruct (sg_keep g); cbn [option_map map]; [rewrite E|]; reflexivity.
Qed.

(* hypotheses satisfiable / kernels non-trivial on a concrete Z-labelled path *)
Example erase_nonvacuous :
  let p := [mk3 0 0 5; mk3 5 0 6; mk3 10 0 7; mk3 10 10 8; mk3 0 10 9] in
  trim_collinear_z p false = Ok [mk3 0 0 5; mk3 10 0 7; mk3 10 10 8; mk3 0 10 9]
  /\ trim_collinear2 (map erase p) false = Ok [(0, 0); (10, 0); (10, 10); (0, 10)].
Proof. cbv zeta. split; vm_compute; reflexivity. Qed.
