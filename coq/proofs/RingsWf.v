(* Ring assembly (model/Rings.v): the coupling invariant between Actives and OutRecs.
     - an OutRec with points has a non-empty ring and is either closed (no edges) or coupled to two DIFFERENT edges,
       its front and its back edge, both of which point back to it;
     - an OutRec without points has no edges;
     - every hot edge points to an OutRec of which it is the front or the back edge.
   It is what makes IsFront(e) / AddOutPt(e, pt) / JoinOutrecPaths meaningful (no null dereference, a ring is extended
   at the end that belongs to the edge).  Preserved by AddOutPt, AddLocalMinPoly (on two cold edges), SwapOutrecs and
   AddLocalMaxPoly (closing a ring, and joining two rings). *)
From Coq Require Import ZArith List Bool Lia PeanoNat.
From Clip Require Import base.Geom model.Rings proofs.Rings.
Import ListNotations.

Definition rec_ok (s : st) (i : nat) (o : outrec) : Prop :=
  match pts o with
  | None => fe o = None /\ be o = None
  | Some D => D <> [] /\
      ((fe o = None /\ be o = None) \/
       (exists a b, fe o = Some a /\ be o = Some b /\ a <> b /\ eo s a = Some i /\ eo s b = Some i))
  end.

Definition wf (s : st) : Prop :=
  (forall i o, nth_error (recs s) i = Some o -> rec_ok s i o) /\
  (forall e i, eo s e = Some i -> exists o, nth_error (recs s) i = Some o /\ (fe o = Some e \/ be o = Some e)).

Lemma wf_init : wf init.
Proof. split; [intros [|i] o H; discriminate|intros e i H; discriminate]. Qed.

Lemma nth_error_lt {A} (l : list A) i o : nth_error l i = Some o -> i < length l.
Proof. intros H. apply nth_error_Some. congruence. Qed.

Lemma upd_same f e v : upd f e v e = v.
Proof. unfold upd. rewrite Nat.eqb_refl. reflexivity. Qed.

Lemma upd_other f e v x : x <> e -> upd f e v x = f x.
Proof. intros H. unfold upd. destruct (Nat.eqb_spec x e); [contradiction|reflexivity]. Qed.

(* a hot edge's OutRec has points *)
Lemma hot_has_pts s e i : wf s -> eo s e = Some i ->
  exists o D, nth_error (recs s) i = Some o /\ pts o = Some D /\ D <> [] /\ (fe o = Some e \/ be o = Some e).
Proof.
  intros [W1 W2] H. destruct (W2 e i H) as (o & N & Hs). specialize (W1 i o N). unfold rec_ok in W1.
  destruct (pts o) as [D|] eqn:P.
  - exists o, D. destruct W1 as [Hne _]. auto.
  - destruct W1 as [F B]. destruct Hs as [Hs | Hs]; congruence.
Qed.

(* ------------------------------------------------------------------ AddOutPt *)
Theorem add_out_pt_defined s e i : wf s -> eo s e = Some i -> forall p, exists s', add_out_pt s e p = Some s'.
Proof.
  intros W H p. destruct (hot_has_pts s e i W H) as (o & D & N & P & _ & _).
  unfold add_out_pt. rewrite H, N, P. eexists. reflexivity.
Qed.

Theorem add_out_pt_wf s e p s' : wf s -> add_out_pt s e p = Some s' -> wf s'.
Proof.
  intros W H. destruct (add_out_pt_spec s e p s' H) as (i & o & D & E & N & P & He & R).
  pose proof W as [W1 W2]. pose proof (nth_error_lt _ _ _ N) as Hlt.
  split.
  - intros j o' Nj. rewrite R in Nj. unfold rec_ok. rewrite He.
    destruct (Nat.eq_dec i j) as [<- | Hij].
    + rewrite nth_error_set_nth_same in Nj by exact Hlt. inversion Nj; subst o'. cbn [pts fe be].
      specialize (W1 i o N). unfold rec_ok in W1. rewrite P in W1. destruct W1 as [Hne Hc].
      split; [apply push_nonempty, Hne|exact Hc].
    + rewrite nth_error_set_nth_other in Nj by exact Hij. exact (W1 j o' Nj).
  - intros x j Hx. rewrite He in Hx. destruct (W2 x j Hx) as (o' & Nj & Hs). rewrite R.
    destruct (Nat.eq_dec i j) as [<- | Hij].
    + rewrite N in Nj. inversion Nj; subst o'. eexists. split; [apply nth_error_set_nth_same, Hlt|exact Hs].
    + exists o'. split; [rewrite nth_error_set_nth_other by exact Hij; exact Nj|exact Hs].
Qed.

(* ------------------------------------------------------------------ AddLocalMinPoly *)
Theorem add_local_min_poly_wf s e1 e2 p sw :
  wf s -> e1 <> e2 -> eo s e1 = None -> eo s e2 = None -> wf (add_local_min_poly s e1 e2 p sw).
Proof.
  intros [W1 W2] Hne C1 C2. unfold add_local_min_poly.
  set (n := length (recs s)).
  set (o := if sw then mkO (Some [p]) (Some e2) (Some e1) else mkO (Some [p]) (Some e1) (Some e2)).
  assert (Hold : forall x j, eo s x = Some j -> upd (upd (eo s) e1 (Some n)) e2 (Some n) x = Some j).
  { intros x j Hx.
    assert (x <> e1) by (intros E; subst x; congruence). assert (x <> e2) by (intros E; subst x; congruence).
    rewrite !upd_other by assumption. exact Hx. }
  split; cbn [recs eo].
  - intros j o' Nj. destruct (Nat.lt_ge_cases j n) as [Hlt | Hge].
    + rewrite nth_error_app1 in Nj by exact Hlt. specialize (W1 j o' Nj). unfold rec_ok in *. cbn [eo].
      destruct (pts o') as [D|]; [|exact W1]. destruct W1 as [HD Hc]. split; [exact HD|].
      destruct Hc as [Hc | (a & b & Fa & Bb & Hab & Ea & Eb)]; [left; exact Hc|right].
      exists a, b. repeat split; auto.
    + rewrite nth_error_app2 in Nj by exact Hge. fold n in Nj. destruct (j - n) as [|k] eqn:Hk; [|destruct k; cbn in Nj; discriminate].
      assert (j = n) by lia. subst j. cbn in Nj. inversion Nj; subst o'. unfold rec_ok, o. cbn [eo].
      destruct sw; cbn [pts fe be]; (split; [discriminate|right]).
      * exists e2, e1. repeat split; auto; [rewrite upd_same; reflexivity|rewrite upd_other by exact Hne; apply upd_same].
      * exists e1, e2. repeat split; auto; [rewrite upd_other by exact Hne; apply upd_same|rewrite upd_same; reflexivity].
  - intros x j Hx. unfold upd in Hx.
    destruct (Nat.eqb_spec x e2) as [-> | N2].
    + inversion Hx; subst j. exists o. split; [rewrite nth_error_app2 by lia; rewrite Nat.sub_diag; reflexivity|].
      unfold o. destruct sw; cbn [fe be]; auto.
    + destruct (Nat.eqb_spec x e1) as [-> | N1].
      * inversion Hx; subst j. exists o. split; [rewrite nth_error_app2 by lia; rewrite Nat.sub_diag; reflexivity|].
        unfold o. destruct sw; cbn [fe be]; auto.
      * destruct (W2 x j Hx) as (o' & Nj & Hs). exists o'. split; [|exact Hs].
        rewrite nth_error_app1 by (apply (nth_error_lt _ _ _ Nj)). exact Nj.
Qed.

(* ------------------------------------------------------------------ closing a ring *)
(* AddLocalMaxPoly on the front and the back edge of ONE OutRec: the ring is complete, both edges become cold *)
Theorem close_ring_wf s e1 e2 p s' i :
  wf s -> eo s e1 = Some i -> eo s e2 = Some i -> e1 <> e2 ->
  add_local_max_poly s e1 e2 p = Some s' ->
  wf s' /\ eo s' e1 = None /\ eo s' e2 = None /\
  exists o D, nth_error (recs s') i = Some o /\ pts o = Some D /\ D <> [] /\ fe o = None /\ be o = None.
Proof.
  intros W E1 E2 Hne H.
  destruct (hot_has_pts s e1 i W E1) as (o & D & N & P & HD & Hs1).
  destruct (hot_has_pts s e2 i W E2) as (o2 & D2 & N2 & P2 & _ & Hs2).
  rewrite N in N2. inversion N2; subst o2. clear N2 P2.
  unfold add_local_max_poly in H. rewrite E1, E2, N in H.
  destruct (Bool.eqb (is_edge (fe o) e1) (is_edge (fe o) e2)); [discriminate|].
  destruct (add_out_pt s e1 p) as [s1|] eqn:A; [|discriminate].
  pose proof (add_out_pt_wf s e1 p s1 W A) as Wf1.
  destruct (add_out_pt_spec s e1 p s1 A) as (i' & o' & D' & E' & N' & P' & He & R).
  rewrite E1 in E'. inversion E'; subst i'. rewrite N in N'. inversion N'; subst o'. rewrite P in P'. inversion P'; subst D'.
  rewrite Nat.eqb_refl in H.
  pose proof (nth_error_lt _ _ _ N) as Hlt.
  assert (N1 : nth_error (recs s1) i = Some (mkO (Some (push (is_edge (fe o) e1) D p)) (fe o) (be o)))
    by (rewrite R; apply nth_error_set_nth_same, Hlt).
  rewrite N1 in H. cbn [pts fe be] in H. inversion H; subst s'. clear H.
  (* the two edges of o are e1 and e2 *)
  destruct W as [W1 W2]. pose proof (W1 i o N) as Ro. unfold rec_ok in Ro. rewrite P in Ro.
  destruct Ro as [_ [[F B] | (a & b & Fa & Bb & Hab & Ea & Eb)]]; [destruct Hs1; congruence|].
  assert (Hab12 : (a = e1 /\ b = e2) \/ (a = e2 /\ b = e1)).
  { destruct Hs1 as [Hs1 | Hs1], Hs2 as [Hs2 | Hs2]; rewrite ?Fa, ?Bb in *;
      try (inversion Hs1; inversion Hs2; subst; auto; fail); inversion Hs1; inversion Hs2; subst; contradiction. }
  set (D1 := if is_edge (fe o) e1 then push (is_edge (fe o) e1) D p else rot_back_to_front (push (is_edge (fe o) e1) D p)).
  assert (HD1 : D1 <> []).
  { unfold D1. pose proof (push_nonempty (is_edge (fe o) e1) D p HD) as Hp.
    destruct (is_edge (fe o) e1); [exact Hp|]. destruct (push false D p); [contradiction|]. cbn. destruct l; discriminate. }
  assert (Heo' : forall x, x <> e1 -> x <> e2 -> upd_opt (upd_opt (eo s1) (fe o) None) (be o) None x = eo s x).
  { intros x X1 X2. rewrite Fa, Bb. cbn [upd_opt]. rewrite He.
    destruct Hab12 as [[-> ->] | [-> ->]]; rewrite !upd_other by assumption; reflexivity. }
  assert (Hc1 : upd_opt (upd_opt (eo s1) (fe o) None) (be o) None e1 = None).
  { rewrite Fa, Bb. cbn [upd_opt]. destruct Hab12 as [[-> ->] | [-> ->]].
    - rewrite upd_other by exact Hne. apply upd_same.
    - apply upd_same. }
  assert (Hc2 : upd_opt (upd_opt (eo s1) (fe o) None) (be o) None e2 = None).
  { rewrite Fa, Bb. cbn [upd_opt]. destruct Hab12 as [[-> ->] | [-> ->]].
    - apply upd_same.
    - rewrite upd_other by (intros E; apply Hne; symmetry; exact E). apply upd_same. }
  assert (Hlt1 : i < length (recs s1)) by (rewrite R, set_nth_length; exact Hlt).
  split; [|split; [exact Hc1|split; [exact Hc2|]]].
  - split; cbn [recs eo].
    + intros j oj Nj. destruct (Nat.eq_dec i j) as [<- | Hij].
      * rewrite nth_error_set_nth_same in Nj by exact Hlt1. inversion Nj; subst oj.
        unfold rec_ok. cbn [pts fe be]. split; [exact HD1|left; split; reflexivity].
      * rewrite nth_error_set_nth_other in Nj by exact Hij.
        rewrite R, nth_error_set_nth_other in Nj by exact Hij.
        pose proof (W1 j oj Nj) as Rj. unfold rec_ok in *. cbn [eo].
        destruct (pts oj) as [Dj|]; [|exact Rj]. destruct Rj as [HDj Hc]. split; [exact HDj|].
        destruct Hc as [Hc | (a' & b' & Fa' & Bb' & Hab' & Ea' & Eb')]; [left; exact Hc|right].
        exists a', b'. repeat split; auto.
        -- rewrite Heo'; [exact Ea'| |]; intros E; subst a'; congruence.
        -- rewrite Heo'; [exact Eb'| |]; intros E; subst b'; congruence.
    + intros x j Hx.
      destruct (Nat.eq_dec x e1) as [-> | X1]; [rewrite Hc1 in Hx; discriminate|].
      destruct (Nat.eq_dec x e2) as [-> | X2]; [rewrite Hc2 in Hx; discriminate|].
      rewrite Heo' in Hx by assumption. destruct (W2 x j Hx) as (oj & Nj & Hs).
      assert (Hij : i <> j).
      { intros <-. rewrite N in Nj. inversion Nj; subst oj. rewrite Fa, Bb in Hs.
        destruct Hab12 as [[-> ->] | [-> ->]]; destruct Hs as [Hs | Hs]; inversion Hs; congruence. }
      exists oj. split; [|exact Hs].
      rewrite nth_error_set_nth_other by exact Hij. rewrite R, nth_error_set_nth_other by exact Hij. exact Nj.
  - eexists. exists D1. cbn [recs]. split; [apply nth_error_set_nth_same, Hlt1|]. cbn [pts fe be]. repeat split; auto.
Qed.

(* ------------------------------------------------------------------ joining two rings *)
Lemma is_edge_true o e : is_edge o e = true <-> o = Some e.
Proof.
  unfold is_edge. destruct o as [x|]; [|split; discriminate].
  destruct (Nat.eqb_spec x e) as [-> | N]; split; intros H; try reflexivity; try discriminate.
  inversion H. contradiction.
Qed.

(* the two edges of a coupled OutRec *)
Lemma coupled_edges s i o D : wf s -> nth_error (recs s) i = Some o -> pts o = Some D ->
  forall e, eo s e = Some i ->
  exists a b, fe o = Some a /\ be o = Some b /\ a <> b /\ eo s a = Some i /\ eo s b = Some i /\ (e = a \/ e = b).
Proof.
  intros [W1 W2] N P e He. pose proof (W1 i o N) as R. unfold rec_ok in R. rewrite P in R.
  destruct (W2 e i He) as (o' & N' & Hs). rewrite N in N'. inversion N'; subst o'.
  destruct R as [_ [[F B] | (a & b & Fa & Bb & Hab & Ea & Eb)]]; [destruct Hs; congruence|].
  exists a, b. repeat split; auto. rewrite Fa, Bb in Hs. destruct Hs as [Hs | Hs]; inversion Hs; auto.
Qed.

(* JoinOutrecPaths(ea, eb) on edges of two different OutRecs that lie on opposite sides (one a front, the other a
   back edge -- what AddLocalMaxPoly has just checked): both edges become cold, eb's OutRec is emptied, ea's OutRec
   stays coupled to its other edge and to the other edge of eb's former OutRec *)
Theorem join_wf s ea eb ia ib oa ob s' :
  wf s -> eo s ea = Some ia -> eo s eb = Some ib -> ia <> ib ->
  nth_error (recs s) ia = Some oa -> nth_error (recs s) ib = Some ob ->
  is_edge (fe oa) ea = negb (is_edge (fe ob) eb) ->
  join s ea eb = Some s' ->
  wf s' /\ eo s' ea = None /\ eo s' eb = None.
Proof.
  intros W Ea Eb Hne Na Nb Hsides H.
  destruct (hot_has_pts s ea ia W Ea) as (oa' & Da & Na' & Pa & HDa & _). rewrite Na in Na'. inversion Na'; subst oa'. clear Na'.
  destruct (hot_has_pts s eb ib W Eb) as (ob' & Db & Nb' & Pb & HDb & _). rewrite Nb in Nb'. inversion Nb'; subst ob'. clear Nb'.
  destruct (coupled_edges s ia oa Da W Na Pa ea Ea) as (a1 & b1 & Fa1 & Bb1 & Hab1 & Ea1 & Eb1 & Hea).
  destruct (coupled_edges s ib ob Db W Nb Pb eb Eb) as (a2 & b2 & Fa2 & Bb2 & Hab2 & Ea2 & Eb2 & Heb).
  unfold join in H. rewrite Ea, Eb, Na, Nb, Pa, Pb in H. inversion H; subst s'. clear H.
  pose proof (nth_error_lt _ _ _ Na) as Hlta. pose proof (nth_error_lt _ _ _ Nb) as Hltb.
  destruct W as [W1 W2].
  (* name the surviving pair of edges (keep = ea's partner, moved = eb's partner) *)
  assert (Hcase : (is_edge (fe oa) ea = true /\ ea = a1 /\ eb = b2) \/ (is_edge (fe oa) ea = false /\ ea = b1 /\ eb = a2)).
  { destruct (is_edge (fe oa) ea) eqn:F.
    - left. apply is_edge_true in F. rewrite Fa1 in F. inversion F; subst a1.
      assert (F2 : is_edge (fe ob) eb = false) by (destruct (is_edge (fe ob) eb); cbn in Hsides; congruence).
      repeat split. destruct Heb as [-> | ->]; [|reflexivity].
      exfalso. assert (is_edge (fe ob) a2 = true) by (apply is_edge_true; exact Fa2). congruence.
    - right. assert (F2 : is_edge (fe ob) eb = true) by (destruct (is_edge (fe ob) eb); cbn in Hsides; congruence).
      apply is_edge_true in F2. rewrite Fa2 in F2. inversion F2; subst a2. repeat split.
      destruct Hea as [-> | ->]; [|reflexivity].
      exfalso. assert (is_edge (fe oa) a1 = true) by (apply is_edge_true; exact Fa1). congruence. }
  set (keep := if is_edge (fe oa) ea then b1 else a1).
  set (moved := if is_edge (fe oa) ea then a2 else b2).
  assert (Hmoved : (if is_edge (fe oa) ea then fe ob else be ob) = Some moved)
    by (unfold moved; destruct (is_edge (fe oa) ea); assumption).
  assert (Ekeep : eo s keep = Some ia) by (unfold keep; destruct (is_edge (fe oa) ea); assumption).
  assert (Emoved : eo s moved = Some ib) by (unfold moved; destruct (is_edge (fe oa) ea); assumption).
  assert (Dkm : keep <> moved) by (intros E; rewrite E in Ekeep; congruence).
  assert (Dk_ea : keep <> ea) by (unfold keep; destruct Hcase as [(-> & -> & _) | (-> & -> & _)]; congruence).
  assert (Dk_eb : keep <> eb) by (intros E; rewrite E in Ekeep; congruence).
  assert (Dm_ea : moved <> ea) by (intros E; rewrite E in Emoved; congruence).
  assert (Dm_eb : moved <> eb) by (unfold moved; destruct Hcase as [(-> & _ & ->) | (-> & _ & ->)]; congruence).
  rewrite Hmoved. cbn [upd_opt].
  set (eo' := upd (upd (upd (eo s) moved (Some ia)) ea None) eb None).
  assert (Heo_ea : eo' ea = None).
  { unfold eo'. destruct (Nat.eq_dec ea eb) as [E | E]; [rewrite E; apply upd_same|].
    rewrite upd_other by exact E. apply upd_same. }
  assert (Heo_eb : eo' eb = None) by apply upd_same.
  assert (Heo_moved : eo' moved = Some ia) by (unfold eo'; rewrite !upd_other by assumption; apply upd_same).
  assert (Heo_other : forall x, x <> ea -> x <> eb -> x <> moved -> eo' x = eo s x)
    by (intros x X1 X2 X3; unfold eo'; rewrite !upd_other by assumption; reflexivity).
  set (oa' := if is_edge (fe oa) ea then mkO (Some (Da ++ Db)) (fe ob) (be oa) else mkO (Some (Db ++ Da)) (fe oa) (be ob)).
  assert (Hoa' : pts oa' <> None /\ ((fe oa' = Some moved /\ be oa' = Some keep) \/ (fe oa' = Some keep /\ be oa' = Some moved))
                 /\ exists D, pts oa' = Some D /\ D <> []).
  { unfold oa', keep, moved. destruct (is_edge (fe oa) ea); cbn [pts fe be].
    - split; [discriminate|]. split; [left; auto|]. eexists; split; [reflexivity|]. destruct Da; [contradiction|discriminate].
    - split; [discriminate|]. split; [right; auto|]. eexists; split; [reflexivity|]. destruct Db; [contradiction|discriminate]. }
  destruct Hoa' as (_ & Hedges & D' & PD' & HD').
  assert (Nia : nth_error (set_nth (set_nth (recs s) ia oa') ib (mkO None None None)) ia = Some oa').
  { rewrite nth_error_set_nth_other by (intros E; apply Hne; symmetry; exact E). apply nth_error_set_nth_same, Hlta. }
  assert (Nib : nth_error (set_nth (set_nth (recs s) ia oa') ib (mkO None None None)) ib = Some (mkO None None None)).
  { apply nth_error_set_nth_same. rewrite set_nth_length. exact Hltb. }
  assert (Nj : forall j, j <> ia -> j <> ib ->
               nth_error (set_nth (set_nth (recs s) ia oa') ib (mkO None None None)) j = nth_error (recs s) j).
  { intros j J1 J2. rewrite !nth_error_set_nth_other by congruence. reflexivity. }
  split; [|split; assumption].
  split; cbn [recs eo]; fold eo'.
  - intros j oj Hj.
    destruct (Nat.eq_dec j ia) as [-> | J1].
    + rewrite Nia in Hj. inversion Hj; subst oj. unfold rec_ok. rewrite PD'. split; [exact HD'|right]. cbn [eo].
      destruct Hedges as [[F B] | [F B]].
      * exists moved, keep. repeat split; auto. rewrite Heo_other by assumption. exact Ekeep.
      * exists keep, moved. repeat split; auto. rewrite Heo_other by assumption. exact Ekeep.
    + destruct (Nat.eq_dec j ib) as [-> | J2].
      * rewrite Nib in Hj. inversion Hj; subst oj. unfold rec_ok. cbn [pts fe be]. auto.
      * rewrite Nj in Hj by assumption. pose proof (W1 j oj Hj) as Rj. unfold rec_ok in *. cbn [eo].
        destruct (pts oj) as [Dj|]; [|exact Rj]. destruct Rj as [HDj Hc]. split; [exact HDj|].
        destruct Hc as [Hc | (a & b & Fa & Bb & Hab & Eaj & Ebj)]; [left; exact Hc|right].
        exists a, b. repeat split; auto.
        -- rewrite Heo_other; [exact Eaj| | |]; intros E; subst a; congruence.
        -- rewrite Heo_other; [exact Ebj| | |]; intros E; subst b; congruence.
  - intros x j Hx.
    destruct (Nat.eq_dec x ea) as [-> | X1]; [rewrite Heo_ea in Hx; discriminate|].
    destruct (Nat.eq_dec x eb) as [-> | X2]; [rewrite Heo_eb in Hx; discriminate|].
    destruct (Nat.eq_dec x moved) as [-> | X3].
    + rewrite Heo_moved in Hx. inversion Hx; subst j. exists oa'. split; [exact Nia|].
      destruct Hedges as [[F B] | [F B]]; auto.
    + rewrite Heo_other in Hx by assumption. destruct (W2 x j Hx) as (oj & Hj & Hs).
      destruct (Nat.eq_dec j ia) as [-> | J1].
      * (* x is the other edge of oa *)
        rewrite Na in Hj. inversion Hj; subst oj. exists oa'. split; [exact Nia|].
        assert (x = keep).
        { unfold keep. rewrite Fa1, Bb1 in Hs.
          destruct Hcase as [(-> & -> & _) | (-> & -> & _)]; destruct Hs as [Hs | Hs]; inversion Hs; congruence. }
        subst x. destruct Hedges as [[F B] | [F B]]; auto.
      * destruct (Nat.eq_dec j ib) as [-> | J2].
        -- exfalso. rewrite Nb in Hj. inversion Hj; subst oj. rewrite Fa2, Bb2 in Hs.
           unfold moved in X3. destruct Hcase as [(Hf & _ & ->) | (Hf & _ & ->)]; rewrite Hf in X3;
             destruct Hs as [Hs | Hs]; inversion Hs; congruence.
        -- exists oj. split; [rewrite Nj by assumption; exact Hj|exact Hs].
Qed.

(* ------------------------------------------------------------------ AddLocalMaxPoly, all cases *)
Theorem add_local_max_poly_wf s e1 e2 p s' :
  wf s -> e1 <> e2 -> add_local_max_poly s e1 e2 p = Some s' ->
  wf s' /\ eo s' e1 = None /\ eo s' e2 = None.
Proof.
  intros W Hne H.
  pose proof H as H0. unfold add_local_max_poly in H.
  destruct (eo s e1) as [i1|] eqn:E1; [|discriminate]. destruct (eo s e2) as [i2|] eqn:E2; [|discriminate].
  destruct (nth_error (recs s) i1) as [o1|] eqn:N1; [|discriminate].
  destruct (nth_error (recs s) i2) as [o2|] eqn:N2; [|discriminate].
  destruct (Bool.eqb (is_edge (fe o1) e1) (is_edge (fe o2) e2)) eqn:Hs; [discriminate|].
  apply Bool.eqb_false_iff in Hs.
  destruct (Nat.eq_dec i1 i2) as [<- | Hi].
  - destruct (close_ring_wf s e1 e2 p s' i1 W E1 E2 Hne H0) as (Wf & C1 & C2 & _). auto.
  - destruct (add_out_pt s e1 p) as [s1|] eqn:A; [|discriminate].
    pose proof (add_out_pt_wf s e1 p s1 W A) as W1.
    destruct (add_out_pt_spec s e1 p s1 A) as (i' & o' & D' & E' & N' & P' & He & R).
    rewrite E1 in E'. inversion E'; subst i'. rewrite N1 in N'. inversion N'; subst o'.
    pose proof (nth_error_lt _ _ _ N1) as Hlt1.
    set (o1' := mkO (Some (push (is_edge (fe o1) e1) D' p)) (fe o1) (be o1)) in *.
    assert (M1 : nth_error (recs s1) i1 = Some o1')
      by (rewrite R; apply nth_error_set_nth_same, Hlt1).
    assert (M2 : nth_error (recs s1) i2 = Some o2) by (rewrite R, nth_error_set_nth_other by exact Hi; exact N2).
    assert (F1 : eo s1 e1 = Some i1) by (rewrite He; exact E1).
    assert (F2 : eo s1 e2 = Some i2) by (rewrite He; exact E2).
    destruct (Nat.eqb i1 i2) eqn:Q; [apply Nat.eqb_eq in Q; contradiction|].
    destruct (Nat.ltb i1 i2).
    + destruct (join_wf s1 e1 e2 i1 i2 o1' o2 s' W1 F1 F2 Hi M1 M2) as (Wf & C1 & C2); auto.
      unfold o1'; cbn [fe]. destruct (is_edge (fe o1) e1), (is_edge (fe o2) e2); cbn; congruence.
    + destruct (join_wf s1 e2 e1 i2 i1 o2 o1' s' W1 F2 F1) as (Wf & C2 & C1); auto.
      unfold o1'; cbn [fe]. destruct (is_edge (fe o1) e1), (is_edge (fe o2) e2); cbn; congruence.
Qed.

(* ------------------------------------------------------------------ SwapOutrecs = renaming the two edges *)
Section Swap.
  Variables e1 e2 : eid.
  Hypothesis Hne : e1 <> e2.

  Definition sw (x : eid) : eid := if Nat.eqb x e1 then e2 else if Nat.eqb x e2 then e1 else x.

  Lemma sw_e1 : sw e1 = e2. Proof. unfold sw. rewrite Nat.eqb_refl. reflexivity. Qed.
  Lemma sw_e2 : sw e2 = e1.
  Proof. unfold sw. rewrite Nat.eqb_refl. destruct (Nat.eqb_spec e2 e1); [congruence|reflexivity]. Qed.
  Lemma sw_other x : x <> e1 -> x <> e2 -> sw x = x.
  Proof. intros A B. unfold sw. destruct (Nat.eqb_spec x e1); [contradiction|]. destruct (Nat.eqb_spec x e2); [contradiction|reflexivity]. Qed.
  Lemma sw_invol x : sw (sw x) = x.
  Proof.
    destruct (Nat.eq_dec x e1) as [-> | A]; [rewrite sw_e1, sw_e2; reflexivity|].
    destruct (Nat.eq_dec x e2) as [-> | B]; [rewrite sw_e2, sw_e1; reflexivity|].
    rewrite (sw_other x A B). apply (sw_other x A B).
  Qed.
  Lemma sw_inj x y : sw x = sw y -> x = y.
  Proof. intros H. rewrite <- (sw_invol x), <- (sw_invol y), H. reflexivity. Qed.

  Definition ren (o : outrec) : outrec := mkO (pts o) (option_map sw (fe o)) (option_map sw (be o)).

  (* a state that is the renaming of a well-formed state is well formed *)
  Lemma renamed_wf s s' : wf s ->
    (forall j, nth_error (recs s') j = option_map ren (nth_error (recs s) j)) ->
    (forall x, eo s' x = eo s (sw x)) -> wf s'.
  Proof.
    intros [W1 W2] HR HE. split.
    - intros j o' Nj. rewrite HR in Nj. destruct (nth_error (recs s) j) as [o|] eqn:N; [|discriminate].
      inversion Nj; subst o'. specialize (W1 j o N). unfold rec_ok in *. cbn [ren pts fe be].
      destruct (pts o) as [D|].
      + destruct W1 as [HD Hc]. split; [exact HD|].
        destruct Hc as [[F B] | (a & b & Fa & Bb & Hab & Ea & Eb)].
        * left. rewrite F, B. auto.
        * right. exists (sw a), (sw b). rewrite Fa, Bb. repeat split; auto.
          -- intros E. apply Hab, sw_inj, E.
          -- rewrite HE, sw_invol. exact Ea.
          -- rewrite HE, sw_invol. exact Eb.
      + destruct W1 as [F B]. rewrite F, B. auto.
    - intros x j Hx. rewrite HE in Hx. destruct (W2 (sw x) j Hx) as (o & N & Hs).
      exists (ren o). split; [rewrite HR, N; reflexivity|].
      cbn [ren fe be]. destruct Hs as [Hs | Hs]; rewrite Hs; cbn [option_map]; rewrite sw_invol; auto.
  Qed.

  (* in a well-formed state an edge named by an OutRec points back to it *)
  Lemma edge_of_rec s j o x : wf s -> nth_error (recs s) j = Some o -> fe o = Some x \/ be o = Some x -> eo s x = Some j.
  Proof.
    intros [W1 _] N Hs. specialize (W1 j o N). unfold rec_ok in W1.
    destruct (pts o) as [D|].
    - destruct W1 as [_ [[F B] | (a & b & Fa & Bb & _ & Ea & Eb)]]; [destruct Hs; congruence|].
      rewrite Fa, Bb in Hs. destruct Hs as [Hs | Hs]; inversion Hs; subst; assumption.
    - destruct W1 as [F B]. destruct Hs; congruence.
  Qed.

  Lemma ren_untouched s j o : wf s -> nth_error (recs s) j = Some o -> eo s e1 <> Some j -> eo s e2 <> Some j -> ren o = o.
  Proof.
    intros W N H1 H2. destruct o as [P F B]. unfold ren. cbn [pts fe be]. f_equal.
    - destruct F as [x|]; [|reflexivity]. cbn [option_map]. f_equal. apply sw_other; intros ->.
      + apply H1. apply (edge_of_rec s j _ e1 W N). left. reflexivity.
      + apply H2. apply (edge_of_rec s j _ e2 W N). left. reflexivity.
    - destruct B as [x|]; [|reflexivity]. cbn [option_map]. f_equal. apply sw_other; intros ->.
      + apply H1. apply (edge_of_rec s j _ e1 W N). right. reflexivity.
      + apply H2. apply (edge_of_rec s j _ e2 W N). right. reflexivity.
  Qed.

  (* an OutRec that has e (and not the other edge) among its two edges: swap_side is the renaming *)
  Lemma swap_side_ren s i o e e' : wf s -> nth_error (recs s) i = Some o -> eo s e = Some i -> eo s e' <> Some i ->
    (e = e1 /\ e' = e2) \/ (e = e2 /\ e' = e1) -> swap_side o e e' = ren o.
  Proof.
    intros W N He He' Hee.
    destruct (hot_has_pts s e i W He) as (o' & D & N' & P & _ & _). rewrite N in N'. inversion N'; subst o'.
    destruct (coupled_edges s i o D W N P e He) as (a & b & Fa & Bb & Hab & Ea & Eb & Hx).
    assert (Swe : sw e = e') by (destruct Hee as [[-> ->] | [-> ->]]; [apply sw_e1|apply sw_e2]).
    assert (Hfix : forall x, eo s x = Some i -> x <> e -> sw x = x).
    { intros x Hxi Hxe. apply sw_other; destruct Hee as [[-> ->] | [-> ->]]; auto; intros ->; congruence. }
    unfold swap_side, ren. destruct o as [P0 F0 B0]. cbn [pts fe be] in *. subst F0 B0.
    destruct Hx as [-> | ->].
    - assert (T : is_edge (Some a) a = true) by (apply is_edge_true; reflexivity). rewrite T. cbn [option_map].
      rewrite Swe, (Hfix b Eb) by (intros E; apply Hab; symmetry; exact E). reflexivity.
    - assert (T : is_edge (Some a) b = false).
      { destruct (is_edge (Some a) b) eqn:Q; [|reflexivity]. apply is_edge_true in Q. inversion Q. contradiction. }
      rewrite T. cbn [option_map]. rewrite Swe, (Hfix a Ea) by exact Hab. reflexivity.
  Qed.

  Theorem swap_outrecs_wf s : wf s -> (eo s e1 <> None \/ eo s e2 <> None) -> wf (swap_outrecs s e1 e2).
  Proof.
    intros W Hhot. apply (renamed_wf s); [exact W| |].
    - (* the OutRec list *)
      intros j. unfold swap_outrecs.
      destruct (eo s e1) as [i1|] eqn:E1, (eo s e2) as [i2|] eqn:E2; cbn [recs].
      + destruct (Nat.eqb_spec i1 i2) as [<- | Hi].
        * (* both edges of one OutRec *)
          destruct (hot_has_pts s e1 i1 W E1) as (o & D & N & P & _ & _). rewrite N. cbn [recs].
          destruct (coupled_edges s i1 o D W N P e1 E1) as (a & b & Fa & Bb & Hab & Ea & Eb & Hx1).
          destruct (coupled_edges s i1 o D W N P e2 E2) as (a' & b' & Fa' & Bb' & _ & _ & _ & Hx2).
          rewrite Fa in Fa'. inversion Fa'; subst a'. rewrite Bb in Bb'. inversion Bb'; subst b'.
          assert (Hr : mkO (pts o) (be o) (fe o) = ren o).
          { unfold ren. rewrite Fa, Bb. cbn [option_map].
            destruct Hx1 as [H1 | H1], Hx2 as [H2 | H2]; try subst a; try subst b; try congruence; rewrite ?sw_e1, ?sw_e2; reflexivity. }
          rewrite Hr. destruct (Nat.eq_dec i1 j) as [<- | Hj].
          -- rewrite nth_error_set_nth_same by (apply (nth_error_lt _ _ _ N)). rewrite N. reflexivity.
          -- rewrite nth_error_set_nth_other by exact Hj.
             destruct (nth_error (recs s) j) as [oj|] eqn:Nj; [|reflexivity]. cbn [option_map]. f_equal. symmetry.
             apply (ren_untouched s j oj W Nj); rewrite ?E1, ?E2; congruence.
        * destruct (hot_has_pts s e1 i1 W E1) as (o1 & D1 & N1 & _). destruct (hot_has_pts s e2 i2 W E2) as (o2 & D2 & N2 & _).
          rewrite N1. rewrite nth_error_set_nth_other by exact Hi. rewrite N2.
          rewrite (swap_side_ren s i1 o1 e1 e2 W N1 E1) by (rewrite ?E2; auto; congruence).
          rewrite (swap_side_ren s i2 o2 e2 e1 W N2 E2) by (rewrite ?E1; auto; congruence).
          cbn [recs].
          destruct (Nat.eq_dec i2 j) as [<- | Hj2].
          -- rewrite nth_error_set_nth_same by (rewrite set_nth_length; apply (nth_error_lt _ _ _ N2)). rewrite N2. reflexivity.
          -- rewrite nth_error_set_nth_other by exact Hj2.
             destruct (Nat.eq_dec i1 j) as [<- | Hj1].
             ++ rewrite nth_error_set_nth_same by (apply (nth_error_lt _ _ _ N1)). rewrite N1. reflexivity.
             ++ rewrite nth_error_set_nth_other by exact Hj1.
                destruct (nth_error (recs s) j) as [oj|] eqn:Nj; [|reflexivity]. cbn [option_map]. f_equal. symmetry.
                apply (ren_untouched s j oj W Nj); rewrite ?E1, ?E2; congruence.
      + destruct (hot_has_pts s e1 i1 W E1) as (o1 & D1 & N1 & _). rewrite N1. cbn [recs].
        rewrite (swap_side_ren s i1 o1 e1 e2 W N1 E1) by (rewrite ?E2; auto; congruence).
        destruct (Nat.eq_dec i1 j) as [<- | Hj1].
        * rewrite nth_error_set_nth_same by (apply (nth_error_lt _ _ _ N1)). rewrite N1. reflexivity.
        * rewrite nth_error_set_nth_other by exact Hj1.
          destruct (nth_error (recs s) j) as [oj|] eqn:Nj; [|reflexivity]. cbn [option_map]. f_equal. symmetry.
          apply (ren_untouched s j oj W Nj); rewrite ?E1, ?E2; congruence.
      + destruct (hot_has_pts s e2 i2 W E2) as (o2 & D2 & N2 & _). rewrite N2. cbn [recs].
        rewrite (swap_side_ren s i2 o2 e2 e1 W N2 E2) by (rewrite ?E1; auto; congruence).
        destruct (Nat.eq_dec i2 j) as [<- | Hj2].
        * rewrite nth_error_set_nth_same by (apply (nth_error_lt _ _ _ N2)). rewrite N2. reflexivity.
        * rewrite nth_error_set_nth_other by exact Hj2.
          destruct (nth_error (recs s) j) as [oj|] eqn:Nj; [|reflexivity]. cbn [option_map]. f_equal. symmetry.
          apply (ren_untouched s j oj W Nj); rewrite ?E1, ?E2; congruence.
      + destruct Hhot; congruence.
    - (* the edge -> OutRec map *)
      intros x. unfold swap_outrecs.
      destruct (eo s e1) as [i1|] eqn:E1, (eo s e2) as [i2|] eqn:E2; cbn [eo].
      + destruct (Nat.eqb_spec i1 i2) as [<- | Hi].
        * destruct (nth_error (recs s) i1); cbn [eo];
            (destruct (Nat.eq_dec x e1) as [-> | A]; [rewrite sw_e1; congruence|];
             destruct (Nat.eq_dec x e2) as [-> | B]; [rewrite sw_e2; congruence|]; rewrite sw_other by assumption; reflexivity).
        * cbn [eo]. destruct (Nat.eq_dec x e2) as [-> | B]; [rewrite upd_same, sw_e2; symmetry; exact E1|].
          rewrite upd_other by exact B.
          destruct (Nat.eq_dec x e1) as [-> | A]; [rewrite upd_same, sw_e1; symmetry; exact E2|].
          rewrite upd_other, sw_other by assumption. reflexivity.
      + destruct (Nat.eq_dec x e2) as [-> | B]; [rewrite upd_same, sw_e2; symmetry; exact E1|].
        rewrite upd_other by exact B.
        destruct (Nat.eq_dec x e1) as [-> | A]; [rewrite upd_same, sw_e1; symmetry; exact E2|].
        rewrite upd_other, sw_other by assumption. reflexivity.
      + destruct (Nat.eq_dec x e2) as [-> | B]; [rewrite upd_same, sw_e2; symmetry; exact E1|].
        rewrite upd_other by exact B.
        destruct (Nat.eq_dec x e1) as [-> | A]; [rewrite upd_same, sw_e1; symmetry; exact E2|].
        rewrite upd_other, sw_other by assumption. reflexivity.
      + destruct Hhot; congruence.
  Qed.
End Swap.

(* ------------------------------------------------------------------ all valid operation sequences *)
(* what the engine guarantees when it calls these primitives: AddLocalMinPoly only on two different cold edges;
   the other operations on two different edges (the model's [step] itself is undefined where the C++ would
   dereference a null pointer: AddOutPt / AddLocalMaxPoly on a cold edge, SwapOutrecs on two cold edges) *)
Definition valid_op (s : st) (o : op) : Prop :=
  match o with
  | OMin e1 e2 _ _ => eo s e1 = None /\ eo s e2 = None
  | _ => True
  end.

Theorem step_wf s o s' : wf s -> valid_op s o -> step s o = Some s' -> wf s'.
Proof.
  intros W V H. destruct o as [e1 e2 p sw | e p | e1 e2 p | e1 e2]; cbn [step valid_op] in *.
  - destruct (Nat.eqb_spec e1 e2) as [|Hne]; [discriminate|]. inversion H; subst. destruct V as [C1 C2].
    apply add_local_min_poly_wf; assumption.
  - apply (add_out_pt_wf s e p s' W H).
  - destruct (Nat.eqb_spec e1 e2) as [|Hne]; [discriminate|].
    destruct (add_local_max_poly_wf s e1 e2 p s' W Hne H) as [Wf _]. exact Wf.
  - destruct (Nat.eqb_spec e1 e2) as [|Hne]; [discriminate|].
    destruct (eo s e1) eqn:E1, (eo s e2) eqn:E2; try discriminate; inversion H; subst;
      apply swap_outrecs_wf; auto; rewrite ?E1, ?E2; auto; [left|left|right]; discriminate.
Qed.

Fixpoint valid_trace (s : st) (ops : list op) : Prop :=
  match ops with
  | [] => True
  | o :: t => valid_op s o /\ match step s o with Some s' => valid_trace s' t | None => True end
  end.

Theorem run_wf : forall ops s s', wf s -> valid_trace s ops -> run s ops = Some s' -> wf s'.
Proof.
  induction ops as [|o ops IH]; intros s s' W V H; cbn [run valid_trace] in *.
  - inversion H; subst. exact W.
  - destruct V as [Vo Vt]. destruct (step s o) as [s1|] eqn:S; [|discriminate].
    apply (IH s1 s' (step_wf s o s1 W Vo S) Vt H).
Qed.

Corollary reachable_wf ops s : valid_trace init ops -> run init ops = Some s -> wf s.
Proof. intros V H. apply (run_wf ops init s wf_init V H). Qed.

(* and in a well-formed state the primitives are defined exactly where the engine uses them *)
Theorem add_local_max_poly_defined s e1 e2 i1 i2 o1 o2 p :
  wf s -> e1 <> e2 -> eo s e1 = Some i1 -> eo s e2 = Some i2 ->
  nth_error (recs s) i1 = Some o1 -> nth_error (recs s) i2 = Some o2 ->
  is_edge (fe o1) e1 <> is_edge (fe o2) e2 ->
  exists s', add_local_max_poly s e1 e2 p = Some s'.
Proof.
  intros W Hne E1 E2 N1 N2 Hs.
  unfold add_local_max_poly. rewrite E1, E2, N1, N2.
  destruct (Bool.eqb (is_edge (fe o1) e1) (is_edge (fe o2) e2)) eqn:Q; [apply Bool.eqb_prop in Q; contradiction|].
  destruct (add_out_pt_defined s e1 i1 W E1 p) as [s1 A]. rewrite A.
  pose proof (add_out_pt_wf s e1 p s1 W A) as W1.
  destruct (add_out_pt_spec s e1 p s1 A) as (i' & o' & D' & E' & N' & P' & He & R).
  rewrite E1 in E'. inversion E'; subst i'.
  assert (F1 : eo s1 e1 = Some i1) by (rewrite He; exact E1).
  assert (F2 : eo s1 e2 = Some i2) by (rewrite He; exact E2).
  destruct (hot_has_pts s1 e1 i1 W1 F1) as (p1 & D1 & M1 & P1 & _ & _).
  destruct (hot_has_pts s1 e2 i2 W1 F2) as (p2 & D2 & M2 & P2 & _ & _).
  destruct (Nat.eqb i1 i2).
  - rewrite M1, P1. eexists. reflexivity.
  - destruct (Nat.ltb i1 i2); unfold join; rewrite F1, F2, M1, M2, P1, P2; eexists; reflexivity.
Qed.

Example wf_nonvacuous :
  let ops := [OMin 0 1 (0, 10)%Z false; OMin 2 3 (10, 10)%Z false; OAdd 0 (0, 5)%Z; OSwap 1 2; OMax 2 1 (5, 0)%Z] in
  valid_trace init ops /\ exists s, run init ops = Some s.
Proof. cbv zeta. split; [cbn; repeat split; reflexivity|eexists; vm_compute; reflexivity]. Qed.

(* when the sweep is over (no Active points to an OutRec any more) every OutRec that holds points is a closed,
   non-empty ring: no contour is left open *)
Theorem all_rings_closed s : wf s -> (forall e, eo s e = None) ->
  forall i o, nth_error (recs s) i = Some o ->
  match pts o with Some D => D <> [] /\ fe o = None /\ be o = None | None => fe o = None /\ be o = None end.
Proof.
  intros [W1 _] Hcold i o N. specialize (W1 i o N). unfold rec_ok in W1.
  destruct (pts o) as [D|]; [|exact W1].
  destruct W1 as [HD [[F B] | (a & b & _ & _ & _ & Ea & _)]]; [auto|].
  rewrite Hcold in Ea. discriminate.
Qed.
