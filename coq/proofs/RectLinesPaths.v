(* C09, several polylines in one call: RectClipLines64::Execute clips path after path and keeps nothing between
   them (results_, op_container_ and start_locs_ are cleared per path), so the result of a call is the
   concatenation, in input order, of what each polyline gives alone.  Paths of fewer than two points give nothing. *)
From Clip Require Import base.Geom model.RectLeaf model.RectLines proofs.RectLines.
From Coq Require Import ZArith List Lia.
Import ListNotations.
Local Open Scope Z_scope.

Lemma untag_app a b : untag (a ++ b) = untag a ++ untag b.
Proof. unfold untag. apply map_app. Qed.

Lemma rect_clip_lines_empty_rect r p : rect_is_empty r = true -> rect_clip_lines r p = [].
Proof.
  intros H. unfold rect_clip_lines, rect_clip_lines_t, rect_clip_lines_g. rewrite H. reflexivity.
Qed.

Lemma concat_map_nil {A B} (f : A -> list B) (l : list A) : (forall x, f x = []) -> concat (map f l) = [].
Proof. intros H. induction l as [|x l IH]; [reflexivity|]. cbn [map concat]. rewrite H, IH. reflexivity. Qed.

Lemma lines_paths_t_concat r ps : rect_is_empty r = false ->
  exists o, rect_clip_lines_paths_t get_segment_intersection false r ps = Ok o
            /\ untag o = concat (map (rect_clip_lines r) ps).
Proof.
  intros Hr. induction ps as [|p ps [o' [E' U']]].
  - exists []. split; reflexivity.
  - destruct (rect_clip_lines_total r p) as [o [E U]].
    unfold rect_clip_lines_t, rect_clip_lines_g in E. rewrite Hr in E.
    exists (o ++ o'). split.
    + cbn [rect_clip_lines_paths_t]. rewrite E, E'. reflexivity.
    + cbn [map concat]. rewrite untag_app, U, U'. reflexivity.
Qed.

(* the call on several polylines = concatenation of the calls on each polyline alone *)
Theorem lines_paths_stateless r ps :
  rect_clip_lines_paths r ps = Ok (concat (map (rect_clip_lines r) ps)).
Proof.
  unfold rect_clip_lines_paths. destruct (rect_is_empty r) eqn:Hr.
  - rewrite concat_map_nil; [reflexivity|]. intros p. apply rect_clip_lines_empty_rect. exact Hr.
  - destruct (lines_paths_t_concat r ps Hr) as [o [E U]]. rewrite E, U. reflexivity.
Qed.

Theorem lines_paths_app r ps qs a b :
  rect_clip_lines_paths r ps = Ok a -> rect_clip_lines_paths r qs = Ok b ->
  rect_clip_lines_paths r (ps ++ qs) = Ok (a ++ b).
Proof.
  rewrite !lines_paths_stateless. intros Ha Hb. injection Ha as <-. injection Hb as <-.
  rewrite map_app, concat_app. reflexivity.
Qed.

(* a path of fewer than two points anywhere in the call changes nothing *)
Theorem lines_paths_short_skipped r ps q qs : (length q < 2)%nat ->
  rect_clip_lines_paths r (ps ++ q :: qs) = rect_clip_lines_paths r (ps ++ qs).
Proof.
  intros Hq. rewrite !lines_paths_stateless, !map_app, !concat_app. cbn [map concat].
  assert (rect_clip_lines r q = []) as ->; [|reflexivity].
  unfold rect_clip_lines. fold (rect_clip_lines_g get_segment_intersection r q).
  unfold rect_clip_lines_t. rewrite (lines_short get_segment_intersection r q Hq). reflexivity.
Qed.

Example lines_paths_ex :
  rect_clip_lines_paths (mkRect 0 0 10 10) [[(-5, 5); (5, 5); (15, 5)]; [(3, 3)]; []; [(5, -5); (5, 20)]]
  = Ok [[(0, 5); (5, 5); (10, 5)]; [(5, 0); (5, 10)]].
Proof. vm_compute. reflexivity. Qed.
