(* Tie between the sweep model (model/Sweep1D.v) and the definitions REGENERATED from clipper.engine.cpp on every run
   (gen/Gen_engine.v): the contribution tables the model reasons about are the ones the source contains now.
   A changed row of IsContributingClosed / IsContributingOpen in the C++ makes these lemmas (and with them every
   property theorem that is stated over the translated functions) fail to compile. *)
From Coq Require Import ZArith Lia Bool.
From Clip Require Import base.Geom base.Region base.CSem gen.Gen_core gen.Gen_engine model.Sweep1D.
Local Open Scope Z_scope.

(* the enum values of the C++ source, as translated *)
Definition ct_code (ct : clip_type) : Z :=
  match ct with
  | NoClip => ClipType_NoClip | Intersection => ClipType_Intersection | Union => ClipType_Union
  | Difference => ClipType_Difference | Xor => ClipType_Xor
  end.

Definition fr_code (fr : fill_rule) : Z :=
  match fr with
  | EvenOdd => FillRule_EvenOdd | NonZero => FillRule_NonZero
  | Positive => FillRule_Positive | Negative => FillRule_Negative
  end.

Definition pt_code (p : ptype) : Z := match p with Subj => PathType_Subject | Clp => PathType_Clip end.

(* the scalar fields of Active the decision code reads; geometry is irrelevant to it *)
Definition to_active (e : edge) : Active :=
  mkActive (0, 0) (0, 0) 0 PrimFloat.zero (wdx e) (wc e) (wc2 e) (pt_code (ep e)) (eopen e).

Lemma enum_codes_distinct :
  ct_code NoClip = 0 /\ ct_code Intersection = 1 /\ ct_code Union = 2 /\ ct_code Difference = 3 /\ ct_code Xor = 4 /\
  fr_code EvenOdd = 0 /\ fr_code NonZero = 1 /\ fr_code Positive = 2 /\ fr_code Negative = 3 /\
  pt_code Subj = 0 /\ pt_code Clp = 1.
Proof. repeat split; reflexivity. Qed.

Theorem contributing_closed_is_translated ct fr e :
  is_contributing_closed ct fr e = IsContributingClosed (ct_code ct) (fr_code fr) (to_active e).
Proof.
  unfold is_contributing_closed, IsContributingClosed, GetPolyType, to_active.
  cbn [wind_cnt wind_cnt2 polytype].
  destruct ct, fr, (ep e); cbn [ct_code fr_code pt_code];
    cbv [ClipType_NoClip ClipType_Intersection ClipType_Union ClipType_Difference ClipType_Xor
         FillRule_EvenOdd FillRule_NonZero FillRule_Positive FillRule_Negative PathType_Subject PathType_Clip];
    cbn [Z.eqb Pos.eqb negb]; reflexivity.
Qed.

Theorem contributing_open_is_translated ct fr e :
  is_contributing_open ct fr e = IsContributingOpen (ct_code ct) (fr_code fr) (to_active e).
Proof.
  unfold is_contributing_open, IsContributingOpen, to_active.
  cbn [wind_cnt wind_cnt2].
  destruct ct, fr; cbn [ct_code fr_code];
    cbv [ClipType_NoClip ClipType_Intersection ClipType_Union ClipType_Difference ClipType_Xor
         FillRule_EvenOdd FillRule_NonZero FillRule_Positive FillRule_Negative];
    cbn [Z.eqb Pos.eqb]; reflexivity.
Qed.

(* the reachable-state theorems, restated over the translated contribution table *)
From Clip Require Import proofs.Sweep1D_main.

Theorem translated_contributing_is_boundary ct fr pre e post :
  inv_b ct fr (pre ++ e :: post) = true -> eopen e = false ->
  IsContributingClosed (ct_code ct) (fr_code fr) (to_active e) =
    xorb (in_result ct fr (Wsum Subj pre) (Wsum Clp pre))
         (in_result ct fr (Wsum Subj pre + contrib Subj e) (Wsum Clp pre + contrib Clp e))
  /\ is_hot e = IsContributingClosed (ct_code ct) (fr_code fr) (to_active e).
Proof.
  intros H Ho. rewrite <- contributing_closed_is_translated.
  destruct (hot_iff_boundary ct fr pre e post H Ho) as [H1 H2]. split; assumption.
Qed.
