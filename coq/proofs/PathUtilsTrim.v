(* TrimCollinear: the index-based model equals a structural list function [trim_l] (so it never reads out of
   bounds and never runs out of fuel), and [trim_l] returns a subsequence, keeps open end points and the area. *)
From Coq Require Import ZArith List Bool Lia Arith.
From Clip Require Import base.Geom model.PathUtils proofs.PathUtilsBase.
Import ListNotations.
Local Open Scope nat_scope.

Lemma is_collinear_cross a s b : is_collinear a s b = collinear a s b.
Proof.
  unfold is_collinear, collinear, cross. apply eq_iff_eq_true. rewrite !Z.eqb_eq. lia.
Qed.

(* ------------------------------------------------------------------ list level *)
(* leading trim: l = p[src..stop], lst = p[stop] *)
Fixpoint lead_l (lst : pt) (l : path) : path :=
  match l with
  | a :: ((b :: _) as t) => if is_collinear lst a b then lead_l lst t else l
  | _ => l
  end.

(* trailing trim on the reversed working list: r = rev p[src..stop], fst = p[src] *)
Fixpoint tail_r (fst : pt) (r : path) : path :=
  match r with
  | a :: ((b :: _) as t) => if is_collinear b a fst then tail_r fst t else r
  | _ => r
  end.

(* main scan: l = p[src..stop]; returns the vertices appended to dst *)
Fixpoint main_l (prev : pt) (l : path) : path :=
  match l with
  | b :: ((c :: _) as t) => if negb (is_collinear prev b c) then b :: main_l b t else main_l prev t
  | _ => []
  end.

(* seam fix on the reversed dst *)
Fixpoint seam_r (fst : pt) (r : path) : path :=
  match r with
  | a :: ((b :: _ :: _) as t) => if is_collinear a b fst then seam_r fst t else r
  | _ => r
  end.

Definition trim_closed_l (p : path) (a0 : pt) : path :=
  let w1 := lead_l (last p a0) p in
  let w2 := rev (tail_r (hd a0 w1) (rev w1)) in
  match w2 with
  | [] => []
  | [_] => []
  | s :: rest =>
    let dst := s :: main_l s rest in
    let b := last rest s in
    if negb (is_collinear (last dst s) b s) then dst ++ [b]
    else let d := rev (seam_r s (rev dst)) in if length d <? 3 then [] else d
  end.

Definition trim_l (p : path) (is_open : bool) : path :=
  match p with
  | [] => []
  | [_] => []
  | [a; b] => if negb is_open then [] else p
  | a :: t => if is_open then a :: main_l a t ++ [last t a] else trim_closed_l p a
  end.

(* ------------------------------------------------------------------ refinement: index level = list level *)
Lemma firstn_S_snoc {A} (p : list A) n x : nth_error p n = Some x -> firstn (S n) p = firstn n p ++ [x].
Proof.
  revert n; induction p as [|y p IH]; intros [|n] H; cbn [nth_error] in H; try discriminate.
  - inversion H; reflexivity.
  - cbn [firstn app]. f_equal. apply IH; exact H.
Qed.

Lemma window_cons (p : path) src stop b :
  src <= stop -> nth_error p src = Some b ->
  skipn src (firstn (S stop) p) = b :: skipn (S src) (firstn (S stop) p).
Proof.
  intros H Hb. apply skipn_nth_cons. rewrite nth_error_firstn_lt by lia. exact Hb.
Qed.

Lemma window_last (p : path) stop x :
  nth_error p stop = Some x -> skipn stop (firstn (S stop) p) = [x].
Proof.
  intros H. rewrite (firstn_S_snoc _ _ _ H).
  assert (Hl : length (firstn stop p) = stop).
  { apply firstn_length_le. apply Nat.lt_le_incl. apply nth_error_Some. congruence. }
  rewrite skipn_app, Hl, Nat.sub_diag. rewrite skipn_all2 by lia. reflexivity.
Qed.

Lemma window_snoc (p : path) src stop x :
  src <= S stop -> nth_error p (S stop) = Some x ->
  skipn src (firstn (S (S stop)) p) = skipn src (firstn (S stop) p) ++ [x].
Proof.
  intros H Hx. rewrite (firstn_S_snoc _ _ _ Hx).
  assert (Hl : length (firstn (S stop) p) = S stop).
  { apply firstn_length_le. apply Nat.lt_le_incl. apply nth_error_Some. congruence. }
  rewrite skipn_app, Hl. replace (src - S stop) with 0 by lia. reflexivity.
Qed.

Lemma nth_error_lt_Some {A} (p : list A) i : i < length p -> exists a, nth_error p i = Some a.
Proof. intros H. destruct (nth_error p i) eqn:E; [eauto|]. apply nth_error_None in E. lia. Qed.

Lemma rd_Some {A} (p : list A) i a : nth_error p i = Some a -> rd p i = Ok a.
Proof. apply rd_Ok. Qed.

Lemma trim_lead_spec (p : path) stop lst : nth_error p stop = Some lst ->
  forall fuel src, src <= stop -> stop - src < fuel ->
  exists s, trim_lead fuel p src stop = Ok s /\ src <= s <= stop /\
            skipn s (firstn (S stop) p) = lead_l lst (skipn src (firstn (S stop) p)).
Proof.
  intros Hlst. assert (Hlen : stop < length p) by (apply nth_error_Some; congruence).
  induction fuel as [|fuel IH]; intros src Hs Hf; [lia|].
  cbn [trim_lead]. destruct (src =? stop) eqn:E.
  - apply Nat.eqb_eq in E; subst src. exists stop. repeat split; try lia.
    rewrite (window_last _ _ _ Hlst). reflexivity.
  - apply Nat.eqb_neq in E.
    destruct (nth_error_lt_Some p src ltac:(lia)) as [b Hb].
    destruct (nth_error_lt_Some p (S src) ltac:(lia)) as [c Hc].
    rewrite (rd_Some _ _ _ Hlst), (rd_Some _ _ _ Hb), (rd_Some _ _ _ Hc); cbn [bind].
    rewrite (window_cons p src stop b) by (auto; lia).
    rewrite (window_cons p (S src) stop c) by (auto; lia).
    cbn [lead_l]. destruct (is_collinear lst b c).
    + destruct (IH (S src) ltac:(lia) ltac:(lia)) as (s & Hs1 & Hs2 & Hs3).
      exists s. repeat split; try lia; [exact Hs1|].
      rewrite Hs3. rewrite (window_cons p (S src) stop c) by (auto; lia). reflexivity.
    + exists src. repeat split; try lia.
      rewrite (window_cons p src stop b) by (auto; lia).
      rewrite (window_cons p (S src) stop c) by (auto; lia). reflexivity.
Qed.

Lemma trim_tail_spec (p : path) src fst : nth_error p src = Some fst ->
  forall fuel stop, src <= stop -> stop < length p -> stop - src < fuel ->
  exists e, trim_tail fuel p src stop = Ok e /\ src <= e <= stop /\
            rev (skipn src (firstn (S e) p)) = tail_r fst (rev (skipn src (firstn (S stop) p))).
Proof.
  intros Hfst.
  induction fuel as [|fuel IH]; intros stop Hs Hlen Hf; [lia|].
  cbn [trim_tail]. destruct (src =? stop) eqn:E.
  - apply Nat.eqb_eq in E; subst stop. exists src. repeat split; try lia.
    rewrite (window_last _ _ _ Hfst). reflexivity.
  - apply Nat.eqb_neq in E. destruct stop as [|s1]; [lia|].
    destruct (nth_error_lt_Some p s1 ltac:(lia)) as [a Ha].
    destruct (nth_error_lt_Some p (S s1) ltac:(lia)) as [b Hb].
    rewrite (rd_Some _ _ _ Ha), (rd_Some _ _ _ Hb), (rd_Some _ _ _ Hfst); cbn [bind].
    rewrite (window_snoc p src s1 b) by (auto; lia).
    rewrite rev_app_distr. cbn [rev app].
    assert (Hw : exists m, rev (skipn src (firstn (S s1) p)) = a :: m).
    { destruct s1 as [|s0].
      - assert (src = 0) by lia; subst src. rewrite (window_last p 0 a Ha). cbn. eauto.
      - rewrite (window_snoc p src s0 a) by (auto; lia). rewrite rev_app_distr. cbn [rev app]. eauto. }
    destruct Hw as [m Hm]. rewrite Hm. cbn [tail_r]. destruct (is_collinear a b fst).
    + destruct (IH s1 ltac:(lia) ltac:(lia) ltac:(lia)) as (e & He1 & He2 & He3).
      exists e. repeat split; try lia; [exact He1|]. rewrite He3, Hm. reflexivity.
    + exists (S s1). repeat split; try lia.
      rewrite (window_snoc p src s1 b) by (auto; lia). rewrite rev_app_distr. cbn [rev app]. rewrite Hm. reflexivity.
Qed.

Lemma main_l_cons2 prev b c t :
  main_l prev (b :: c :: t) = if negb (is_collinear prev b c) then b :: main_l b (c :: t) else main_l prev (c :: t).
Proof. reflexivity. Qed.

Lemma last_nonempty {A} (x : A) l a b : last (x :: l) a = last (x :: l) b.
Proof.
  revert x; induction l as [|y l IH]; intros x; [reflexivity|].
  change (last (x :: y :: l) a) with (last (y :: l) a).
  change (last (x :: y :: l) b) with (last (y :: l) b). apply IH.
Qed.

Lemma last_cons_default {A} (b : A) l a : last (b :: l) a = last l b.
Proof.
  destruct l as [|x l]; [reflexivity|].
  change (last (b :: x :: l) a) with (last (x :: l) a). apply last_nonempty.
Qed.

Lemma trim_main_spec (p : path) stop : stop < length p ->
  forall fuel prev src dst a, src <= stop -> stop - src < fuel -> nth_error p prev = Some a ->
  let add := main_l a (skipn src (firstn (S stop) p)) in
  exists prev', trim_main fuel p prev src stop dst = Ok (prev', dst ++ add) /\
                nth_error p prev' = Some (last add a).
Proof.
  intros Hlen. induction fuel as [|fuel IH]; intros prev src dst a Hs Hf Ha; [lia|].
  cbn [trim_main]. destruct (src =? stop) eqn:E.
  - apply Nat.eqb_eq in E; subst src.
    destruct (nth_error_lt_Some p stop Hlen) as [x Hx].
    rewrite (window_last _ _ _ Hx). cbn [main_l last]. rewrite app_nil_r. eauto.
  - apply Nat.eqb_neq in E.
    destruct (nth_error_lt_Some p src ltac:(lia)) as [b Hb].
    destruct (nth_error_lt_Some p (S src) ltac:(lia)) as [c Hc].
    rewrite (rd_Some _ _ _ Ha), (rd_Some _ _ _ Hb), (rd_Some _ _ _ Hc); cbn [bind].
    rewrite (window_cons p src stop b) by (auto; lia).
    rewrite (window_cons p (S src) stop c) by (auto; lia).
    rewrite main_l_cons2. destruct (negb (is_collinear a b c)).
    + destruct (IH src (S src) (dst ++ [b]) b ltac:(lia) ltac:(lia) Hb) as (prev' & H1 & H2).
      pose proof (window_cons p (S src) stop c ltac:(lia) Hc) as Hw2.
      rewrite Hw2 in H1. rewrite Hw2 in H2.
      exists prev'. split.
      * rewrite H1. rewrite <- app_assoc. reflexivity.
      * rewrite H2. rewrite last_cons_default. reflexivity.
    + destruct (IH prev (S src) dst a ltac:(lia) ltac:(lia) Ha) as (prev' & H1 & H2).
      pose proof (window_cons p (S src) stop c ltac:(lia) Hc) as Hw2.
      rewrite Hw2 in H1. rewrite Hw2 in H2.
      exists prev'. split; assumption.
Qed.

Lemma rd_snoc_last {A} (l : list A) a : rd (l ++ [a]) (length (l ++ [a]) - 1) = Ok a.
Proof.
  apply rd_Ok. rewrite app_length. cbn [length]. replace (length l + 1 - 1) with (length l) by lia.
  rewrite nth_error_app2 by lia. rewrite Nat.sub_diag. reflexivity.
Qed.

Lemma rd_snoc_last2 {A} (l : list A) b a : rd ((l ++ [b]) ++ [a]) (length ((l ++ [b]) ++ [a]) - 2) = Ok b.
Proof.
  apply rd_Ok. rewrite !app_length. cbn [length]. replace (length l + 1 + 1 - 2) with (length l) by lia.
  rewrite nth_error_app1 by (rewrite app_length; cbn [length]; lia).
  rewrite nth_error_app2 by lia. rewrite Nat.sub_diag. reflexivity.
Qed.

Lemma rd_rev_0 {A} (r : list A) x d : rd (rev (x :: r)) 0 = Ok (last (x :: r) d).
Proof.
  apply rd_Ok. revert x; induction r as [|y r IH]; intros x; [reflexivity|].
  change (last (x :: y :: r) d) with (last (y :: r) d). rewrite <- (IH y).
  change (rev (x :: y :: r)) with (rev (y :: r) ++ [x]).
  destruct (rev (y :: r)) eqn:E; [|reflexivity].
  apply (f_equal (@length _)) in E. rewrite rev_length in E. cbn in E. lia.
Qed.

Lemma trim_seam_spec : forall fuel r d0, length r < fuel ->
  trim_seam fuel (rev r) = Ok (rev (seam_r (last r d0) r)).
Proof.
  induction fuel as [|fuel IH]; intros r d0 Hf; [lia|].
  cbn [trim_seam]. destruct r as [|a [|b [|c r']]]; try reflexivity.
  assert (Hlen : 2 <? length (rev (a :: b :: c :: r')) = true).
  { apply Nat.ltb_lt. rewrite rev_length. cbn [length]. lia. }
  rewrite Hlen.
  change (rev (a :: b :: c :: r')) with ((rev (c :: r') ++ [b]) ++ [a]) at 1 2 3 4.
  rewrite rd_snoc_last, rd_snoc_last2. cbn [bind].
  change ((rev (c :: r') ++ [b]) ++ [a]) with (rev (a :: b :: c :: r')).
  rewrite (rd_rev_0 _ _ d0). cbn [bind].
  change (last (a :: b :: c :: r') d0) with (last (c :: r') d0).
  change (seam_r (last (c :: r') d0) (a :: b :: c :: r')) with
    (if is_collinear a b (last (c :: r') d0) then seam_r (last (c :: r') d0) (b :: c :: r') else a :: b :: c :: r').
  destruct (is_collinear a b (last (c :: r') d0)); [|reflexivity].
  change (rev (a :: b :: c :: r')) with (rev (b :: c :: r') ++ [a]). rewrite removelast_last.
  rewrite (IH (b :: c :: r') d0) by (cbn [length] in *; lia). reflexivity.
Qed.

(* ------------------------------------------------------------------ the refinement theorem *)
Lemma window_last_elem (p : path) src e x d :
  src <= e -> nth_error p e = Some x -> last (skipn src (firstn (S e) p)) d = x.
Proof.
  intros H Hx. rewrite (firstn_S_snoc _ _ _ Hx).
  assert (Hl : length (firstn e p) = e).
  { apply firstn_length_le. apply Nat.lt_le_incl. apply nth_error_Some. congruence. }
  rewrite skipn_app, Hl. replace (src - e) with 0 by lia. cbn [skipn]. apply last_last.
Qed.

Lemma last_rev_hd {A} (l : list A) d : last (rev l) d = hd d l.
Proof. destruct l as [|x l]; [reflexivity|]. cbn [rev hd]. apply last_last. Qed.

Lemma nth_error_last {A} (x : A) l d : nth_error (x :: l) (length l) = Some (last (x :: l) d).
Proof.
  revert x; induction l as [|y l IH]; intros x; [reflexivity|].
  cbn [length nth_error]. rewrite IH. reflexivity.
Qed.

Lemma main_l_sublist prev l : sublist (main_l prev l) l.
Proof.
  revert prev; induction l as [|b l IH]; intros prev; [apply sl_nil|].
  destruct l as [|c t]; [apply sl_skip, sl_nil|].
  rewrite main_l_cons2. destruct (negb (is_collinear prev b c)); auto.
Qed.

Theorem trim_collinear_eq p o : trim_collinear p o = Ok (trim_l p o).
Proof.
  unfold trim_collinear.
  destruct p as [|a [|b [|c t]]].
  - destruct o; reflexivity.
  - destruct o; reflexivity.
  - destruct o; reflexivity.
  - change (trim_l (a :: b :: c :: t) o) with
      (if o then a :: main_l a (b :: c :: t) ++ [last (b :: c :: t) a] else trim_closed_l (a :: b :: c :: t) a).
    set (p := a :: b :: c :: t). set (len := length p).
    assert (Hlen3 : len <? 3 = false) by (apply Nat.ltb_ge; unfold len, p; cbn [length]; lia).
    rewrite Hlen3.
    assert (Hlen : len = S (S (S (length t)))) by reflexivity.
    assert (Hlast : nth_error p (len - 1) = Some (last p a)).
    { unfold len, p. replace (length (a :: b :: c :: t) - 1) with (length (b :: c :: t)) by (cbn [length]; lia).
      apply nth_error_last. }
    assert (Hall : firstn (S (len - 1)) p = p).
    { apply firstn_all2. unfold len. lia. }
    destruct o; cbn [negb andb bind].
    + (* open *)
      change (rd p 0) with (Ok a). cbn [bind].
      destruct (trim_main_spec p (len - 1) ltac:(unfold len; lia) (S len) 0 1 [a] a ltac:(lia) ltac:(lia) eq_refl)
        as (prev' & H1 & H2).
      rewrite Hall in H1. rewrite H1. cbn [bind].
      rewrite (rd_Some _ _ _ Hlast). cbn [bind]. reflexivity.
    + (* closed *)
      destruct (trim_lead_spec p (len - 1) (last p a) Hlast (S len) 0 ltac:(lia) ltac:(lia)) as (s & L1 & L2 & L3).
      rewrite L1. cbn [bind]. rewrite Hall in L3. cbn [skipn] in L3.
      destruct (nth_error_lt_Some p s ltac:(unfold len in *; lia)) as [ps Hps].
      destruct (trim_tail_spec p s ps Hps (S len) (len - 1) ltac:(lia) ltac:(unfold len; lia) ltac:(lia)) as (e & E1 & E2 & E3).
      rewrite E1. cbn [bind]. rewrite Hall in E3.
      unfold trim_closed_l.
      rewrite <- L3.
      assert (Hhd : hd a (skipn s p) = ps) by (rewrite (skipn_nth_cons _ _ _ Hps); reflexivity).
      rewrite Hhd, <- E3, rev_involutive.
      destruct (nth_error_lt_Some p e ltac:(unfold len in *; lia)) as [pe Hpe].
      destruct (s =? e) eqn:Ese.
      * apply Nat.eqb_eq in Ese; subst e. rewrite (window_last _ _ _ Hps). reflexivity.
      * apply Nat.eqb_neq in Ese.
        destruct (nth_error_lt_Some p (S s) ltac:(unfold len in *; lia)) as [ps1 Hps1].
        rewrite (rd_Some _ _ _ Hps). cbn [bind].
        destruct (trim_main_spec p e ltac:(unfold len in *; lia) (S len) s (S s) [ps] ps ltac:(lia) ltac:(lia) Hps)
          as (prev' & H1 & H2).
        rewrite H1. cbn [bind].
        rewrite (window_cons p s e ps) by (auto; lia).
        set (rest := skipn (S s) (firstn (S e) p)) in *.
        assert (Hrest : rest = ps1 :: skipn (S (S s)) (firstn (S e) p)).
        { unfold rest. apply window_cons; [lia|exact Hps1]. }
        assert (Hlr : last rest ps = pe).
        { unfold rest. apply window_last_elem; [lia|exact Hpe]. }
        assert (Hrl : length rest < len).
        { unfold rest. rewrite skipn_length, firstn_length. unfold len in *. lia. }
        rewrite (rd_Some _ _ _ H2), (rd_Some _ _ _ Hpe). cbn [bind app rd nth_error].
        clearbody rest. destruct rest as [|r0 rest']; [discriminate Hrest|].
        set (rest := r0 :: rest') in *.
        rewrite Hlr. rewrite (last_cons_default ps (main_l ps rest) ps).
        destruct (negb (is_collinear (last (main_l ps rest) ps) pe ps)); [reflexivity|].
        rewrite <- (rev_involutive (ps :: main_l ps rest)) at 1.
        rewrite (trim_seam_spec (S len) _ ps).
        -- rewrite last_rev_hd. cbn [hd bind].
           destruct (length (rev (seam_r ps (rev (ps :: main_l ps rest)))) <? 3); reflexivity.
        -- rewrite rev_length. cbn [length].
           pose proof (sublist_length _ _ (main_l_sublist ps rest)) as Hm. lia.
Qed.

(* ------------------------------------------------------------------ subsequence *)
Lemma lead_l_sublist lst l : sublist (lead_l lst l) l.
Proof.
  induction l as [|a l IH]; [apply sl_nil|].
  destruct l as [|b t]; [apply sublist_refl|].
  change (lead_l lst (a :: b :: t)) with (if is_collinear lst a b then lead_l lst (b :: t) else a :: b :: t).
  destruct (is_collinear lst a b); [apply sl_skip, IH|apply sublist_refl].
Qed.

Lemma tail_r_sublist fst r : sublist (tail_r fst r) r.
Proof.
  induction r as [|a r IH]; [apply sl_nil|].
  destruct r as [|b t]; [apply sublist_refl|].
  change (tail_r fst (a :: b :: t)) with (if is_collinear b a fst then tail_r fst (b :: t) else a :: b :: t).
  destruct (is_collinear b a fst); [apply sl_skip, IH|apply sublist_refl].
Qed.

Lemma seam_r_sublist fst r : sublist (seam_r fst r) r.
Proof.
  induction r as [|a r IH]; [apply sl_nil|].
  destruct r as [|b [|c t]]; try apply sublist_refl.
  change (seam_r fst (a :: b :: c :: t)) with (if is_collinear a b fst then seam_r fst (b :: c :: t) else a :: b :: c :: t).
  destruct (is_collinear a b fst); [apply sl_skip, IH|apply sublist_refl].
Qed.

Lemma main_l_last_sublist prev l d : l <> [] -> sublist (main_l prev l ++ [last l d]) l.
Proof.
  revert prev; induction l as [|b l IH]; intros prev Hne; [congruence|].
  destruct l as [|c t]; [apply sublist_refl|].
  rewrite main_l_cons2. change (last (b :: c :: t) d) with (last (c :: t) d).
  destruct (negb (is_collinear prev b c)).
  - cbn [app]. apply sl_keep. apply IH. discriminate.
  - apply sl_skip. apply IH. discriminate.
Qed.

Lemma trim_closed_l_sublist p a0 : sublist (trim_closed_l p a0) p.
Proof.
  unfold trim_closed_l.
  set (w1 := lead_l (last p a0) p).
  set (w2 := rev (tail_r (hd a0 w1) (rev w1))).
  assert (H2 : sublist w2 p).
  { eapply sublist_trans; [|apply (lead_l_sublist (last p a0) p)]. fold w1.
    unfold w2. pose proof (sublist_rev _ _ (tail_r_sublist (hd a0 w1) (rev w1))) as Hr.
    rewrite rev_involutive in Hr. exact Hr. }
  destruct w2 as [|s [|r0 rest']]; try apply sublist_nil_l.
  set (rest := r0 :: rest') in *.
  destruct (negb (is_collinear _ _ s)).
  - eapply sublist_trans; [|exact H2]. cbn [app]. apply sl_keep. apply main_l_last_sublist. discriminate.
  - destruct (length _ <? 3); [apply sublist_nil_l|].
    eapply sublist_trans; [|exact H2].
    eapply sublist_trans; [apply sublist_rev, seam_r_sublist|]. rewrite rev_involutive.
    apply sl_keep. apply main_l_sublist.
Qed.

Lemma trim_l_sublist p o : sublist (trim_l p o) p.
Proof.
  destruct p as [|a [|b [|c t]]]; try apply sublist_nil_l.
  - cbn [trim_l]. destruct (negb o); [apply sublist_nil_l|apply sublist_refl].
  - change (trim_l (a :: b :: c :: t) o) with
      (if o then a :: main_l a (b :: c :: t) ++ [last (b :: c :: t) a] else trim_closed_l (a :: b :: c :: t) a).
    destruct o; [|apply trim_closed_l_sublist].
    apply sl_keep. apply main_l_last_sublist. discriminate.
Qed.

Theorem trim_subseq p o r : trim_collinear p o = Ok r -> sublist r p.
Proof. rewrite trim_collinear_eq. intros H; inversion H; subst. apply trim_l_sublist. Qed.

(* ------------------------------------------------------------------ open paths keep their end points *)
Theorem trim_open_keeps_ends p :
  2 <= length p ->
  exists r, trim_collinear p true = Ok r /\ keeps_ends r p = true.
Proof.
  intros Hlen. rewrite trim_collinear_eq. eexists; split; [reflexivity|].
  destruct p as [|a [|b [|c t]]]; cbn [length] in Hlen; try lia.
  - cbn [trim_l negb].
    unfold keeps_ends, hd_pt, last_pt, opt_pt_eqb. cbn [last]. rewrite !pt_eqb_refl. reflexivity.
  - change (trim_l (a :: b :: c :: t) true) with (a :: main_l a (b :: c :: t) ++ [last (b :: c :: t) a]).
    unfold keeps_ends, hd_pt, last_pt, opt_pt_eqb. rewrite pt_eqb_refl. cbn [andb].
    rewrite last_last. apply pt_eqb_refl.
Qed.

(* the open path of two equal points (emptied before the repair `|| p[0] == p[1]` was dropped) is returned as it is *)
Example trim_open_two_equal : trim_collinear [(0, 0); (0, 0)]%Z true = Ok [(0, 0); (0, 0)]%Z.
Proof. reflexivity. Qed.

(* ------------------------------------------------------------------ area *)
Section Area.
Local Open Scope Z_scope.

Definition osum (l : path) : Z := zsum (map edge_area2 (open_edges l)).
Definition tri (a b c : pt) : Z := edge_area2 (a, b) + edge_area2 (b, c) + edge_area2 (c, a).

Lemma tri_cross a b c : tri a b c = cross a b c.
Proof. unfold tri, edge_area2, cross. ring. Qed.

Lemma edge_area2_swap a b : edge_area2 (b, a) = - edge_area2 (a, b).
Proof. unfold edge_area2. ring. Qed.

Lemma open_edges_app l1 a l2 : open_edges (l1 ++ a :: l2) = open_edges (l1 ++ [a]) ++ open_edges (a :: l2).
Proof.
  induction l1 as [|x l1 IH]; [reflexivity|].
  destruct l1 as [|y l1]; [reflexivity|].
  cbn [app] in *. rewrite !open_edges_cons2, IH. reflexivity.
Qed.

Lemma osum_app l1 a l2 : osum (l1 ++ a :: l2) = osum (l1 ++ [a]) + osum (a :: l2).
Proof. unfold osum. rewrite open_edges_app, map_app, zsum_app. reflexivity. Qed.

Lemma osum_cons2 a b l : osum (a :: b :: l) = edge_area2 (a, b) + osum (b :: l).
Proof. reflexivity. Qed.

Lemma osum_drop_mid l1 a b c l2 : osum (l1 ++ a :: b :: c :: l2) = osum (l1 ++ a :: c :: l2) + tri a b c.
Proof.
  rewrite (osum_app l1 a (b :: c :: l2)), (osum_app l1 a (c :: l2)), !osum_cons2.
  unfold tri. rewrite (edge_area2_swap a c). ring.
Qed.

Lemma area2_osum a t : area2 (a :: t) = osum ((a :: t) ++ [a]).
Proof. reflexivity. Qed.

Lemma area2_drop_mid l1 a b c l2 : cross a b c = 0 ->
  area2 (l1 ++ a :: b :: c :: l2) = area2 (l1 ++ a :: c :: l2).
Proof.
  intros H. destruct l1 as [|x l1].
  - cbn [app]. rewrite !area2_osum. cbn [app].
    pose proof (osum_drop_mid [] a b c (l2 ++ [a])) as Hx. cbn [app] in Hx.
    rewrite Hx, tri_cross, H. ring.
  - cbn [app]. rewrite !area2_osum. cbn [app]. rewrite <- !app_assoc. cbn [app].
    pose proof (osum_drop_mid (x :: l1) a b c (l2 ++ [x])) as Hx. cbn [app] in Hx.
    rewrite Hx, tri_cross, H. ring.
Qed.

(* drop the last vertex b of l ++ [a; b]; h is the first vertex *)
Lemma area2_drop_last l a b h : hd_error (l ++ [a]) = Some h -> cross a b h = 0 ->
  area2 (l ++ [a; b]) = area2 (l ++ [a]).
Proof.
  intros Hh H. destruct l as [|x l].
  - cbn in Hh. inversion Hh; subst h. cbn [app]. rewrite !area2_osum. cbn [app].
    pose proof (osum_drop_mid [] a b a []) as Hx. cbn [app] in Hx.
    rewrite Hx, tri_cross, H. ring.
  - cbn in Hh. inversion Hh; subst h. cbn [app]. rewrite !area2_osum. cbn [app]. rewrite <- !app_assoc. cbn [app].
    pose proof (osum_drop_mid (x :: l) a b x []) as Hx. cbn [app] in Hx.
    rewrite Hx, tri_cross, H. ring.
Qed.

Lemma area2_drop_first a b t d : cross (last (b :: t) d) a b = 0 -> area2 (a :: b :: t) = area2 (b :: t).
Proof.
  intros H. rewrite !area2_osum.
  destruct (exists_last (l := b :: t) ltac:(discriminate)) as (m & z & Hm).
  assert (Hz : last (b :: t) d = z) by (rewrite Hm; apply last_last).
  rewrite Hz in H.
  change ((a :: b :: t) ++ [a]) with (a :: (b :: t) ++ [a]).
  assert (Hb : exists m', (b :: t) ++ [a] = b :: m') by (cbn [app]; eauto).
  destruct Hb as [m' Hb]. rewrite Hb, osum_cons2, <- Hb.
  rewrite Hm. rewrite <- !app_assoc. cbn [app].
  rewrite (osum_app m z [a]), (osum_app m z [b]).
  change (osum [z; a]) with (edge_area2 (z, a) + 0). change (osum [z; b]) with (edge_area2 (z, b) + 0).
  pose proof (tri_cross z a b) as Ht. unfold tri in Ht. rewrite H in Ht.
  rewrite (edge_area2_swap z b) in Ht. lia.
Qed.

Lemma area2_short p : (length p <= 2)%nat -> area2 p = 0.
Proof.
  destruct p as [|a [|b [|c t]]]; cbn [length]; intros H; try lia; try reflexivity.
  - unfold area2. cbn. unfold edge_area2. cbn. ring.
  - unfold area2. cbn. unfold edge_area2. cbn [fst snd px py]. ring.
Qed.

Lemma collinear_cross0 a b c : is_collinear a b c = true -> cross a b c = 0.
Proof. rewrite is_collinear_cross. unfold collinear. apply Z.eqb_eq. Qed.

Lemma lead_l_area l d : area2 (lead_l (last l d) l) = area2 l.
Proof.
  induction l as [|a l IH]; [reflexivity|].
  destruct l as [|b t]; [reflexivity|].
  change (last (a :: b :: t) d) with (last (b :: t) d) in *.
  change (lead_l (last (b :: t) d) (a :: b :: t)) with
    (if is_collinear (last (b :: t) d) a b then lead_l (last (b :: t) d) (b :: t) else a :: b :: t).
  destruct (is_collinear (last (b :: t) d) a b) eqn:E; [|reflexivity].
  rewrite IH. symmetry. apply (area2_drop_first a b t d). apply collinear_cross0. exact E.
Qed.

Lemma hd_error_rev_last (r : path) x d : hd_error (rev (x :: r)) = Some (last (x :: r) d).
Proof.
  pose proof (rd_rev_0 r x d) as H. apply rd_Ok in H. destruct (rev (x :: r)); exact H.
Qed.

Lemma tail_r_area r d : area2 (rev (tail_r (last r d) r)) = area2 (rev r).
Proof.
  induction r as [|a r IH]; [reflexivity|].
  destruct r as [|b t]; [reflexivity|].
  change (last (a :: b :: t) d) with (last (b :: t) d) in *.
  change (tail_r (last (b :: t) d) (a :: b :: t)) with
    (if is_collinear b a (last (b :: t) d) then tail_r (last (b :: t) d) (b :: t) else a :: b :: t).
  destruct (is_collinear b a (last (b :: t) d)) eqn:E; [|reflexivity].
  rewrite IH. symmetry.
  change (rev (a :: b :: t)) with ((rev t ++ [b]) ++ [a]). rewrite <- app_assoc. cbn [app].
  change (rev (b :: t)) with (rev t ++ [b]).
  apply (area2_drop_last (rev t) b a (last (b :: t) d)).
  - apply (hd_error_rev_last t b d).
  - apply collinear_cross0. exact E.
Qed.

Lemma main_l_area l : l <> [] -> forall d prev x,
  area2 ((d ++ [prev]) ++ main_l prev l ++ [last l x]) = area2 ((d ++ [prev]) ++ l).
Proof.
  induction l as [|b l IH]; intros Hne d prev x; [congruence|].
  destruct l as [|c t]; [reflexivity|].
  rewrite main_l_cons2. change (last (b :: c :: t) x) with (last (c :: t) x).
  destruct (negb (is_collinear prev b c)) eqn:E.
  - cbn [app]. replace ((d ++ [prev]) ++ b :: main_l b (c :: t) ++ [last (c :: t) x])
      with (((d ++ [prev]) ++ [b]) ++ main_l b (c :: t) ++ [last (c :: t) x]) by (rewrite <- !app_assoc; reflexivity).
    rewrite (IH ltac:(discriminate) (d ++ [prev]) b x). rewrite <- !app_assoc. reflexivity.
  - rewrite (IH ltac:(discriminate) d prev x).
    rewrite <- !app_assoc. cbn [app]. symmetry. apply area2_drop_mid.
    apply collinear_cross0. apply negb_false_iff. exact E.
Qed.

Lemma seam_r_area r d : area2 (rev (seam_r (last r d) r)) = area2 (rev r).
Proof.
  induction r as [|a r IH]; [reflexivity|].
  destruct r as [|b [|c t]]; try reflexivity.
  change (last (a :: b :: c :: t) d) with (last (b :: c :: t) d) in *.
  change (seam_r (last (b :: c :: t) d) (a :: b :: c :: t)) with
    (if is_collinear a b (last (b :: c :: t) d) then seam_r (last (b :: c :: t) d) (b :: c :: t) else a :: b :: c :: t).
  destruct (is_collinear a b (last (b :: c :: t) d)) eqn:E; [|reflexivity].
  rewrite IH. symmetry.
  change (rev (a :: b :: c :: t)) with ((rev (c :: t) ++ [b]) ++ [a]). rewrite <- app_assoc. cbn [app].
  change (rev (b :: c :: t)) with (rev (c :: t) ++ [b]).
  apply (area2_drop_last (rev (c :: t)) b a (last (b :: c :: t) d)).
  - apply (hd_error_rev_last (c :: t) b d).
  - apply collinear_cross0 in E. rewrite cross_swap12. lia.
Qed.

Lemma trim_closed_l_area p a0 : area2 (trim_closed_l p a0) = area2 p.
Proof.
  unfold trim_closed_l.
  set (w1 := lead_l (last p a0) p).
  assert (H1 : area2 w1 = area2 p) by apply lead_l_area.
  assert (H2 : area2 (rev (tail_r (hd a0 w1) (rev w1))) = area2 w1).
  { rewrite <- (last_rev_hd w1 a0). rewrite tail_r_area. rewrite rev_involutive. reflexivity. }
  rewrite <- H1, <- H2. clear H1 H2.
  destruct (rev (tail_r (hd a0 w1) (rev w1))) as [|s [|r0 rest']]; [reflexivity| |].
  { symmetry. apply area2_short. cbn; lia. }
  set (rest := r0 :: rest').
  assert (Hm : area2 ((s :: main_l s rest) ++ [last rest s]) = area2 (s :: rest)).
  { apply (main_l_area rest ltac:(discriminate) [] s s). }
  destruct (negb (is_collinear (last (s :: main_l s rest) s) (last rest s) s)) eqn:E; [exact Hm|].
  apply negb_false_iff in E.
  assert (Hd : area2 (s :: main_l s rest) = area2 (s :: rest)).
  { rewrite <- Hm.
    destruct (exists_last (l := s :: main_l s rest) ltac:(discriminate)) as (m & z & Hmz).
    assert (Hz : last (s :: main_l s rest) s = z) by (rewrite Hmz; apply last_last).
    rewrite Hz in E. rewrite Hmz. rewrite <- app_assoc. cbn [app]. symmetry.
    apply (area2_drop_last m z (last rest s) s).
    - rewrite <- Hmz. reflexivity.
    - apply collinear_cross0. exact E. }
  pose proof (seam_r_area (rev (s :: main_l s rest)) s) as Hs.
  rewrite last_rev_hd in Hs. cbn [hd] in Hs. rewrite rev_involutive in Hs.
  destruct (length (rev (seam_r s (rev (s :: main_l s rest)))) <? 3)%nat eqn:El.
  - apply Nat.ltb_lt in El. rewrite <- Hd, <- Hs.
    rewrite (area2_short (rev (seam_r s (rev (s :: main_l s rest))))) by lia. reflexivity.
  - rewrite <- Hd. exact Hs.
Qed.

Theorem trim_closed_area p r : trim_collinear p false = Ok r -> area2 r = area2 p.
Proof.
  rewrite trim_collinear_eq. intros H; inversion H; subst; clear H.
  destruct p as [|a [|b [|c t]]]; [reflexivity| | |].
  - symmetry. apply area2_short. cbn; lia.
  - cbn [trim_l negb orb]. symmetry. apply area2_short. cbn; lia.
  - apply trim_closed_l_area.
Qed.
End Area.
