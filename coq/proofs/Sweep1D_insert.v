(* Inserting the bounds of a local minimum: SetWindCountForClosedPathEdge / ...OpenPathEdge compute the
   winding numbers of the position, the new edges are hot exactly when they bound the result. *)
From Clip Require Import base.Geom base.Region model.Sweep1D
     proofs.Sweep1D_contrib proofs.Sweep1D_arith proofs.Sweep1D_bool proofs.Sweep1D_swap proofs.Sweep1D_open
     proofs.Sweep1D_inv.
From Coq Require Import ZifyBool Lia.
Local Open Scope Z_scope.

(* "closed edge of path type pt" *)
Definition stc (pt : ptype) (x : edge) : bool := ptype_eqb (ep x) pt && negb (eopen x).

Lemma split_prev_spec pt rp :
  let '(sk, f) := split_prev pt rp in
  Forall (fun x => stc pt x = false) sk /\
  match f with
  | None => rp = sk
  | Some e2 => stc pt e2 = true /\ exists rest, rp = sk ++ e2 :: rest
  end.
Proof.
  induction rp as [|x t IH]; cbn [split_prev].
  - split; [constructor|reflexivity].
  - fold (stc pt x). destruct (stc pt x) eqn:Ex.
    + split; [constructor|]. split; [exact Ex|]. exists t. reflexivity.
    + destruct (split_prev pt t) as [sk f]. destruct IH as [Hs Hf]. split; [constructor; assumption|].
      destruct f as [e2|].
      * destruct Hf as [He2 [rest ->]]. split; [exact He2|]. exists rest. reflexivity.
      * rewrite Hf. reflexivity.
Qed.

Lemma contrib_not_stc pt x : stc pt x = false -> contrib pt x = 0.
Proof.
  unfold stc, contrib. destruct (eopen x); [reflexivity|]. destruct (ptype_eqb (ep x) pt); [discriminate|reflexivity].
Qed.

Lemma Wsum_not_stc pt l : Forall (fun x => stc pt x = false) l -> Wsum pt l = 0.
Proof.
  induction 1 as [|x l Hx _ IH]; [reflexivity|]. rewrite Wsum_cons, IH, contrib_not_stc by exact Hx. reflexivity.
Qed.

Definition other (pt : ptype) : ptype := match pt with Subj => Clp | Clp => Subj end.

Lemma own_oth_W pt l :
  own_w pt (Wsum Subj l) (Wsum Clp l) = Wsum pt l /\ oth_w pt (Wsum Subj l) (Wsum Clp l) = Wsum (other pt) l.
Proof. destruct pt; split; reflexivity. Qed.

Lemma inv_pm1 ct fr l : forall ws wcl, inv_from ct fr ws wcl l = true -> Forall (fun x => pm1 (wdx x)) l.
Proof.
  induction l as [|x l IH]; intros ws wcl H; [constructor|].
  cbn [inv_from] in H. apply andb_prop in H. destruct H as [Hx Hl].
  constructor; [|eapply IH; exact Hl].
  unfold edge_ok in Hx. destruct (eopen x).
  - apply andb_prop in Hx. destruct Hx as [Hx _]. apply andb_prop in Hx. destruct Hx as [Hx _]. unfold pm1. lia.
  - apply andb_prop in Hx. destruct Hx as [Hx _]. apply andb_prop in Hx. destruct Hx as [Hx _]. unfold pm1. lia.
Qed.

(* under the invariant open edges are subject edges *)
Lemma inv_open_subj ct fr l : forall ws wcl, inv_from ct fr ws wcl l = true ->
  Forall (fun x => eopen x = true -> ep x = Subj) l.
Proof.
  induction l as [|x l IH]; intros ws wcl H; [constructor|].
  cbn [inv_from] in H. apply andb_prop in H. destruct H as [Hx Hl].
  constructor; [|eapply IH; exact Hl].
  intros Ho. apply edge_ok_open in Hx; [|exact Ho]. destruct Hx as [_ Hp _]. exact Hp.
Qed.

(* the wind_cnt2 loop adds up the other path type's closed edges *)
Lemma acc_wc2_ok fr pt between : forall w0 W0,
  Forall (fun x => pm1 (wdx x)) between ->
  wc2_ok fr w0 W0 = true ->
  wc2_ok fr (acc_wc2 fr pt between w0) (W0 + Wsum (other pt) between) = true.
Proof.
  induction between as [|x l IH]; intros w0 W0 Hd H0.
  - unfold Wsum; cbn [map zsum acc_wc2 fold_left]. rewrite Z.add_0_r. exact H0.
  - pose proof (Forall_inv Hd) as Hx. pose proof (Forall_inv_tail Hd) as Hl. unfold acc_wc2 in *. cbn [fold_left].
    rewrite Wsum_cons, Z.add_assoc. apply IH; [exact Hl|].
    unfold contrib.
    destruct (eopen x) eqn:Ho; cbn [negb andb].
    + rewrite Bool.andb_false_r, Z.add_0_r. exact H0.
    + rewrite Bool.andb_true_r.
      assert (ptype_eqb (ep x) (other pt) = negb (ptype_eqb (ep x) pt)) as -> by (destruct (ep x), pt; reflexivity).
      destruct (negb (ptype_eqb (ep x) pt)); [|rewrite Z.add_0_r; exact H0].
      pose proof (wc2_shift fr w0 W0 (wdx x) Hx H0) as S. destruct fr; exact S.
Qed.

Lemma hi_sym W d : pm1 d -> hi (W + d) (- d) = hi W d.
Proof.
  intros Hd. assert (pm1 (- d)) as Hnd by (unfold pm1 in *; lia).
  destruct (hi_cases W d Hd) as [[-> Ha] | [-> Ha]];
  destruct (hi_cases (W + d) (- d) Hnd) as [[-> Hb] | [-> Hb]]; lia.
Qed.

(* the wind_cnt formula of SetWindCountForClosedPathEdge *)
Lemma set_wc_formula W2 d2 d (o : bool) : pm1 d2 -> pm1 d -> o = false ->
  (if hi W2 d2 * d2 <? 0 then
     if 1 <? Z.abs (hi W2 d2) then (if d2 * d <? 0 then hi W2 d2 else hi W2 d2 + d)
     else (if o then 1 else d)
   else if d2 * d <? 0 then hi W2 d2 else hi W2 d2 + d) = hi (W2 + d2) d.
Proof.
  intros Hd2 Hd ->.
  destruct (hi_cases W2 d2 Hd2) as [[-> Ha] | [-> Ha]];
  destruct (hi_cases (W2 + d2) d Hd) as [[-> Hb] | [-> Hb]];
  destruct Hd2 as [-> | ->]; destruct Hd as [-> | ->];
  repeat match goal with |- context [if ?c then _ else _] => destruct c eqn:? end; lia.
Qed.

Record fresh_ok (fr : fill_rule) (pt : ptype) (d : Z) (o : bool) (Wown Woth : Z) (e : edge) : Prop := {
  fo_pt : ep e = pt; fo_d : wdx e = d; fo_o : eopen e = o; fo_h : hot e = None;
  fo_wc : wc_ok fr (wc e) Wown d = true;
  fo_wc2 : wc2_ok fr (wc2 e) Woth = true
}.

Lemma set_wind_closed_ok ct fr pre pt d :
  inv_from ct fr 0 0 pre = true -> pm1 d ->
  fresh_ok fr pt d false (Wsum pt pre) (Wsum (other pt) pre) (set_wind_closed fr pre (fresh pt d false)).
Proof.
  intros Hinv Hd. unfold set_wind_closed. cbn [ep fresh].
  pose proof (split_prev_spec pt (rev pre)) as Hsp.
  destruct (split_prev pt (rev pre)) as [sk f]. destruct Hsp as [Hsk Hf].
  pose proof (inv_pm1 ct fr pre 0 0 Hinv) as Hpm.
  destruct f as [e2|].
  - destruct Hf as [He2 [rest Hr]].
    assert (pre = rev rest ++ e2 :: rev sk) as Epre.
    { rewrite <- (rev_involutive pre), Hr, rev_app_distr. cbn [rev]. rewrite <- app_assoc. reflexivity. }
    set (l0 := rev rest) in *. set (bt := rev sk) in *.
    assert (Forall (fun x => stc pt x = false) bt) as Hbt by (apply Forall_rev; exact Hsk).
    rewrite Epre in Hinv, Hpm. rewrite inv_from_app in Hinv. apply andb_prop in Hinv. destruct Hinv as [H0 H1].
    rewrite !Z.add_0_l in H1. cbn [inv_from] in H1. apply andb_prop in H1. destruct H1 as [He Hb].
    unfold stc in He2. apply andb_prop in He2. destruct He2 as [Hp2 Ho2].
    assert (eopen e2 = false) as Ho2' by (destruct (eopen e2); [discriminate|reflexivity]).
    assert (ep e2 = pt) as Hp2' by (destruct (ep e2), pt; try reflexivity; discriminate).
    apply edge_ok_closed in He; [|exact Ho2']. destruct He as [Hd2 Hw2 Hv2 _].
    rewrite Hp2' in Hw2, Hv2. destruct (own_oth_W pt l0) as [Eo Ex]. rewrite Eo in Hw2. rewrite Ex in Hv2.
    apply Forall_app in Hpm. destruct Hpm as [_ Hpm]. pose proof (Forall_inv_tail Hpm) as Hpmb.
    assert (Wsum pt pre = Wsum pt l0 + wdx e2) as EWo.
    { rewrite Epre, Wsum_app, Wsum_cons, (Wsum_not_stc pt bt Hbt), contrib_closed by exact Ho2'. rewrite Hp2.
      lia. }
    assert (Wsum (other pt) pre = Wsum (other pt) l0 + Wsum (other pt) bt) as EWx.
    { rewrite Epre, Wsum_app, Wsum_cons, contrib_closed by exact Ho2'.
      assert (ptype_eqb (ep e2) (other pt) = false) as -> by (rewrite Hp2'; destruct pt; reflexivity). lia. }
    rewrite EWo, EWx.
    constructor; unfold set_wc2, set_wc; cbn [ep wdx wc wc2 hot eopen fresh]; try reflexivity.
    + destruct fr; cbn [wc_ok] in *; try (unfold pm1 in Hd; lia);
      apply Z.eqb_eq in Hw2; rewrite Hw2; rewrite (set_wc_formula _ _ _ false Hd2 Hd eq_refl); apply Z.eqb_refl.
    + apply acc_wc2_ok; assumption.
  - assert (pre = rev sk) as Epre by (rewrite <- (rev_involutive pre), Hf; reflexivity).
    assert (Forall (fun x => stc pt x = false) pre) as Hall by (rewrite Epre; apply Forall_rev; exact Hsk).
    rewrite (Wsum_not_stc pt pre Hall). rewrite <- Epre.
    constructor; unfold set_wc2, set_wc; cbn [ep wdx wc wc2 hot eopen fresh]; try reflexivity.
    + destruct fr; cbn [wc_ok]; try (unfold pm1 in Hd; lia); unfold hi; unfold pm1 in Hd;
      destruct (Z.abs 0 <? Z.abs (0 + d)) eqn:E; lia.
    + replace (Wsum (other pt) pre) with (0 + Wsum (other pt) pre) by lia.
      apply acc_wc2_ok; [exact Hpm|]. destruct fr; reflexivity.
Qed.

Lemma contributing_counts ct fr e O X :
  pm1 (wdx e) -> wc_ok fr (wc e) O (wdx e) = true -> wc2_ok fr (wc2 e) X = true ->
  is_contributing_closed ct fr e =
  xorb (gsel ct (issub (ep e)) (inside fr O) (inside fr X))
       (gsel ct (issub (ep e)) (inside fr (O + wdx e)) (inside fr X)).
Proof.
  intros Hd Hw Hv. rewrite contributing_factored, (pass_spec _ _ _ _ Hd Hw), (cin_spec _ _ _ Hv).
  unfold gsel, issub. generalize (inside fr O), (inside fr (O + wdx e)), (inside fr X). intros a a' c.
  destruct (ep e); cbn [ptype_eqb]; destruct ct, a, a', c; reflexivity.
Qed.

Lemma min_sides_new ph (g0 g1 : bool) : ph_ok ph g0 = true -> xorb g0 g1 = true ->
  min_poly_sides ph true =
  (match boundary_side g0 g1 with Some s => s | None => Front end,
   match boundary_side g1 g0 with Some s => s | None => Front end).
Proof. destruct ph as [[|]|], g0, g1; cbn; intros; try discriminate; reflexivity. Qed.

Lemma firstn_skipn_pos {A} pos (a : list A) : (pos <= length a)%nat ->
  a = firstn pos a ++ skipn pos a.
Proof. intros _. symmetry. apply firstn_skipn. Qed.

Lemma own_oth_after pt ws wcl d :
  own_w pt (ws + (if ptype_eqb pt Subj then d else 0)) (wcl + (if ptype_eqb pt Clp then d else 0)) = own_w pt ws wcl + d /\
  oth_w pt (ws + (if ptype_eqb pt Subj then d else 0)) (wcl + (if ptype_eqb pt Clp then d else 0)) = oth_w pt ws wcl.
Proof. destruct pt; cbn [ptype_eqb own_w oth_w]; rewrite ?Z.add_0_r; split; reflexivity. Qed.

Lemma insert_pair_ok ct fr pre post pt dl l1 (g0 g1 : bool) :
  pm1 dl -> inv_from ct fr 0 0 pre = true ->
  inv_from ct fr (Wsum Subj pre) (Wsum Clp pre) post = true ->
  fresh_ok fr pt dl false (Wsum pt pre) (Wsum (other pt) pre) l1 ->
  g0 = gsel ct (issub pt) (inside fr (Wsum pt pre)) (inside fr (Wsum (other pt) pre)) ->
  g1 = gsel ct (issub pt) (inside fr (Wsum pt pre + dl)) (inside fr (Wsum (other pt) pre)) ->
  inv_from ct fr 0 0 (pre ++ set_hot l1 (boundary_side g0 g1)
                          :: set_hot (mkE pt (- dl) (wc l1) (wc2 l1) None false) (boundary_side g1 g0) :: post) = true.
Proof.
  intros Hd Hpre Hpost [Fp Fd Fo Fh Fw Fv] Eg0 Eg1.
  destruct (own_oth_W pt pre) as [Eo Ex].
  rewrite inv_from_app, Hpre, !Z.add_0_l. cbn [andb inv_from].
  set (l1' := set_hot l1 (boundary_side g0 g1)).
  set (r1 := set_hot (mkE pt (- dl) (wc l1) (wc2 l1) None false) (boundary_side g1 g0)).
  assert (forall p, contrib p l1' = if ptype_eqb pt p then dl else 0) as C1.
  { intros p. unfold contrib, l1', set_hot; cbn [ep wdx eopen]. rewrite Fo, Fp, Fd. reflexivity. }
  assert (forall p, contrib p r1 = if ptype_eqb pt p then - dl else 0) as C2 by (intros p; reflexivity).
  assert (edge_ok ct fr (Wsum Subj pre) (Wsum Clp pre) l1' = true) as K1.
  { apply edge_ok_closed; [unfold l1', set_hot; cbn [eopen]; exact Fo|].
    constructor; unfold l1', set_hot; cbn [ep wdx wc wc2 hot eopen]; rewrite ?Fp, ?Fd, ?Eo, ?Ex; try assumption.
    rewrite Eg0, Eg1. reflexivity. }
  rewrite K1. cbn [andb]. rewrite !C1.
  destruct (own_oth_after pt (Wsum Subj pre) (Wsum Clp pre) dl) as [Eo2 Ex2]. rewrite Eo in Eo2. rewrite Ex in Ex2.
  assert (edge_ok ct fr (Wsum Subj pre + (if ptype_eqb pt Subj then dl else 0))
                       (Wsum Clp pre + (if ptype_eqb pt Clp then dl else 0)) r1 = true) as K2.
  { apply edge_ok_closed; [reflexivity|].
    assert (pm1 (- dl)) as Hnd by (clear - Hd; unfold pm1 in *; lia).
    constructor; unfold r1, set_hot; cbn [ep wdx wc wc2 hot eopen]; rewrite ?Eo2, ?Ex2; try assumption.
    - destruct fr; cbn [wc_ok] in *; try exact Fw; apply Z.eqb_eq in Fw; rewrite Fw, (hi_sym _ dl Hd); apply Z.eqb_refl.
    - replace (Wsum pt pre + dl + - dl) with (Wsum pt pre) by ring. rewrite Eg0, Eg1. reflexivity. }
  rewrite K2. cbn [andb]. rewrite !C2.
  replace (Wsum Subj pre + (if ptype_eqb pt Subj then dl else 0) + (if ptype_eqb pt Subj then - dl else 0)) with (Wsum Subj pre)
    by (destruct (ptype_eqb pt Subj); ring).
  replace (Wsum Clp pre + (if ptype_eqb pt Clp then dl else 0) + (if ptype_eqb pt Clp then - dl else 0)) with (Wsum Clp pre)
    by (destruct (ptype_eqb pt Clp); ring).
  exact Hpost.
Qed.

Lemma set_hot_same e : hot e = None -> set_hot e None = e.
Proof. destruct e; cbn; intros ->; reflexivity. Qed.

Theorem insert_closed_preserves ct fr a pos pt dl :
  ct <> NoClip -> inv_b ct fr a = true -> wf_event a (EInsert pos pt dl false) = true ->
  exists a', step ct fr a (EInsert pos pt dl false) = Some a' /\ inv_b ct fr a' = true.
Proof.
  intros Hct Hinv Hwf. unfold inv_b in *. cbn [wf_event] in Hwf.
  apply andb_prop in Hwf. destruct Hwf as [Hwf _]. apply andb_prop in Hwf. destruct Hwf as [_ Hdl].
  assert (pm1 dl) as Hd by (clear - Hdl; unfold pm1; lia). clear Hdl.
  cbn [step].
  set (pre := firstn pos a). set (post := skipn pos a).
  assert (a = pre ++ post) as Ea by (symmetry; apply firstn_skipn).
  rewrite Ea in Hinv. rewrite inv_from_app in Hinv. apply andb_prop in Hinv. destruct Hinv as [Hpre Hpost].
  rewrite !Z.add_0_l in Hpost.
  pose proof (set_wind_closed_ok ct fr pre pt dl Hpre Hd) as F.
  set (l1 := set_wind_closed fr pre (fresh pt dl false)) in *.
  pose proof (prev_hot_ok ct fr pre Hpre) as Hph.
  destruct (own_oth_W pt pre) as [Eo Ex].
  set (g0 := gsel ct (issub pt) (inside fr (Wsum pt pre)) (inside fr (Wsum (other pt) pre))).
  set (g1 := gsel ct (issub pt) (inside fr (Wsum pt pre + dl)) (inside fr (Wsum (other pt) pre))).
  pose proof (insert_pair_ok ct fr pre post pt dl l1 g0 g1 Hd Hpre Hpost F eq_refl eq_refl) as Hgen.
  destruct F as [Fp Fd Fo Fh Fw Fv].
  assert (is_contributing_closed ct fr l1 = xorb g0 g1) as Ec.
  { rewrite (contributing_counts ct fr l1 (Wsum pt pre) (Wsum (other pt) pre)); rewrite ?Fd, ?Fp; try assumption. reflexivity. }
  rewrite (gin_gsel ct fr pt), Eo, Ex in Hph. fold g0 in Hph.
  rewrite Ec. destruct (xorb g0 g1) eqn:Ex01.
  - rewrite (min_sides_new _ g0 g1 Hph Ex01).
    eexists; split; [reflexivity|].
    destruct g0, g1; try discriminate Ex01; exact Hgen.
  - eexists; split; [reflexivity|].
    pose proof (set_hot_same l1 Fh) as E1.
    destruct g0, g1; try discriminate Ex01; cbn [boundary_side] in Hgen; rewrite E1 in Hgen; exact Hgen.
Qed.

(* ---------- open path edges ---------- *)

Lemma set_wind_open_fold l : forall e,
  Forall (fun x => eopen x = true -> ep x = Subj) l ->
  let r := fold_left (fun e' x =>
                   if ptype_eqb (ep x) Clp then set_wc2 e' (wc2 e' + wdx x)
                   else if negb (eopen x) then set_wc e' (wc e' + wdx x) else e') l e in
  ep r = ep e /\ wdx r = wdx e /\ hot r = hot e /\ eopen r = eopen e /\
  wc r = wc e + Wsum Subj l /\ wc2 r = wc2 e + Wsum Clp l.
Proof.
  induction l as [|x l IH]; intros e Hs.
  - cbn. unfold Wsum; cbn. rewrite !Z.add_0_r. repeat split; reflexivity.
  - pose proof (Forall_inv Hs) as Hx. pose proof (Forall_inv_tail Hs) as Hl.
    cbn [fold_left]. cbv zeta. rewrite !Wsum_cons. unfold contrib.
    destruct (ep x) eqn:Ep; cbn [ptype_eqb].
    + destruct (eopen x) eqn:Eo; cbn [negb].
      * specialize (IH e Hl). cbv zeta in IH. destruct IH as (I1 & I2 & I3 & I4 & I5 & I6).
        rewrite I1, I2, I3, I4, I5, I6. repeat split; try reflexivity; ring.
      * specialize (IH (set_wc e (wc e + wdx x)) Hl). cbv zeta in IH. destruct IH as (I1 & I2 & I3 & I4 & I5 & I6).
        rewrite I1, I2, I3, I4, I5, I6. unfold set_wc; cbn [ep wdx wc wc2 hot eopen]. repeat split; try reflexivity; ring.
    + assert (eopen x = false) as Eo by (cbv beta in Hx; destruct (eopen x) eqn:Eq; [specialize (Hx eq_refl); congruence|reflexivity]).
      rewrite Eo.
      specialize (IH (set_wc2 e (wc2 e + wdx x)) Hl). cbv zeta in IH. destruct IH as (I1 & I2 & I3 & I4 & I5 & I6).
      rewrite I1, I2, I3, I4, I5, I6. unfold set_wc2; cbn [ep wdx wc wc2 hot eopen]. repeat split; try reflexivity; ring.
Qed.

Lemma odd_count pt l :
  Forall (fun x => pm1 (wdx x)) l ->
  Z.odd (Z.of_nat (length (filter (stc pt) l))) = Z.odd (Wsum pt l).
Proof.
  induction l as [|x l IH]; intros Hd; [reflexivity|].
  pose proof (Forall_inv Hd) as Hx. pose proof (Forall_inv_tail Hd) as Hl. specialize (IH Hl).
  cbn [filter]. rewrite Wsum_cons. destruct (stc pt x) eqn:Es.
  - cbn [length]. rewrite Nat2Z.inj_succ, Z.odd_succ, <- Z.negb_odd, IH.
    unfold stc in Es. apply andb_prop in Es. destruct Es as [E1 E2].
    unfold contrib. rewrite E1. destruct (eopen x); [discriminate|].
    rewrite Z.add_comm. symmetry. apply odd_succ_pm. exact Hx.
  - rewrite contrib_not_stc by exact Es. rewrite Z.add_0_l. exact IH.
Qed.

Lemma filter_ext_in' {A} (f g : A -> bool) l : (forall x, In x l -> f x = g x) -> filter f l = filter g l.
Proof.
  induction l as [|x l IH]; intros H; [reflexivity|]. cbn [filter].
  rewrite (H x (or_introl eq_refl)), IH; [reflexivity|]. intros y Hy. apply H. right. exact Hy.
Qed.

Lemma set_wind_open_contrib ct fr pre d :
  ct <> NoClip -> inv_from ct fr 0 0 pre = true ->
  let e := set_wind_open fr pre (fresh Subj d true) in
  ep e = Subj /\ wdx e = d /\ hot e = None /\ eopen e = true /\
  is_contributing_open ct fr e = open_in_result ct fr (Wsum Subj pre) (Wsum Clp pre).
Proof.
  intros Hct Hinv. cbv zeta.
  pose proof (inv_pm1 ct fr pre 0 0 Hinv) as Hpm.
  pose proof (inv_open_subj ct fr pre 0 0 Hinv) as Hos.
  unfold set_wind_open. destruct fr.
  - (* EvenOdd *)
    unfold set_wc2, set_wc, fresh; cbn [ep wdx wc wc2 hot eopen]. repeat split.
    assert (filter (fun x => ptype_eqb (ep x) Clp) pre = filter (stc Clp) pre) as E2.
    { apply filter_ext_in'. intros x Hx. unfold stc. rewrite Forall_forall in Hos. specialize (Hos x Hx).
      destruct (ep x) eqn:Ep; cbn [ptype_eqb andb]; [reflexivity|].
      destruct (eopen x); [specialize (Hos eq_refl); congruence|reflexivity]. }
    assert (filter (fun x => negb (ptype_eqb (ep x) Clp) && negb (eopen x)) pre = filter (stc Subj) pre) as E1.
    { apply filter_ext_in'. intros x _. unfold stc. destruct (ep x); reflexivity. }
    rewrite E1, E2, (odd_count Subj pre Hpm), (odd_count Clp pre Hpm).
    unfold is_contributing_open, open_in_result; cbn [ep wdx wc wc2 hot eopen inside].
    destruct (Z.odd (Wsum Subj pre)), (Z.odd (Wsum Clp pre)); destruct ct; try congruence; reflexivity.
  - pose proof (set_wind_open_fold pre (fresh Subj d true) Hos) as F. cbv zeta in F.
    destruct F as (F1 & F2 & F3 & F4 & F5 & F6). cbn [fresh ep wdx wc wc2 hot eopen] in *. rewrite !Z.add_0_l in *.
    repeat split; try assumption.
    unfold is_contributing_open, open_in_result. rewrite F5, F6. cbn [inside].
    destruct ct; try congruence; reflexivity.
  - pose proof (set_wind_open_fold pre (fresh Subj d true) Hos) as F. cbv zeta in F.
    destruct F as (F1 & F2 & F3 & F4 & F5 & F6). cbn [fresh ep wdx wc wc2 hot eopen] in *. rewrite !Z.add_0_l in *.
    repeat split; try assumption.
    unfold is_contributing_open, open_in_result. rewrite F5, F6. cbn [inside].
    destruct ct; try congruence; reflexivity.
  - pose proof (set_wind_open_fold pre (fresh Subj d true) Hos) as F. cbv zeta in F.
    destruct F as (F1 & F2 & F3 & F4 & F5 & F6). cbn [fresh ep wdx wc wc2 hot eopen] in *. rewrite !Z.add_0_l in *.
    repeat split; try assumption.
    unfold is_contributing_open, open_in_result. rewrite F5, F6. cbn [inside].
    destruct ct; try congruence; reflexivity.
Qed.

Lemma open_edge_ok ct fr ws wcl e h :
  eopen e = true -> ep e = Subj -> pm1 (wdx e) ->
  h = (if open_in_result ct fr ws wcl then Some (open_side e) else None) ->
  edge_ok ct fr ws wcl (set_hot e h) = true.
Proof.
  intros Ho Hp Hd ->. apply edge_ok_open; [destruct e; exact Ho|].
  constructor; unfold set_hot, open_side; cbn [ep wdx wc wc2 hot eopen]; try assumption. reflexivity.
Qed.

Theorem insert_open1_preserves ct fr a pos d :
  ct <> NoClip -> inv_b ct fr a = true -> wf_event a (EInsert1 pos d) = true ->
  exists a', step ct fr a (EInsert1 pos d) = Some a' /\ inv_b ct fr a' = true.
Proof.
  intros Hct Hinv Hwf. unfold inv_b in *. cbn [wf_event] in Hwf.
  apply andb_prop in Hwf. destruct Hwf as [_ Hdl].
  assert (pm1 d) as Hd by (clear - Hdl; unfold pm1; lia). clear Hdl.
  cbn [step]. set (pre := firstn pos a). set (post := skipn pos a).
  assert (a = pre ++ post) as Ea by (symmetry; apply firstn_skipn).
  rewrite Ea in Hinv. rewrite inv_from_app in Hinv. apply andb_prop in Hinv. destruct Hinv as [Hpre Hpost].
  rewrite !Z.add_0_l in Hpost.
  pose proof (set_wind_open_contrib ct fr pre d Hct Hpre) as F. cbv zeta in F.
  set (l1 := set_wind_open fr pre (fresh Subj d true)) in *.
  destruct F as (Fp & Fd & Fh & Fo & Fc). rewrite Fc.
  assert (forall h, h = (if open_in_result ct fr (Wsum Subj pre) (Wsum Clp pre) then Some (open_side l1) else None) ->
            inv_from ct fr 0 0 (pre ++ set_hot l1 h :: post) = true) as Hgen.
  { intros h Hh. rewrite inv_from_app, Hpre, !Z.add_0_l. cbn [andb inv_from].
    rewrite (open_edge_ok ct fr _ _ l1 h Fo Fp); [|rewrite Fd; exact Hd|exact Hh]. cbn [andb].
    rewrite !contrib_open, !Z.add_0_r by (unfold set_hot; cbn [eopen]; exact Fo). exact Hpost. }
  destruct (open_in_result ct fr (Wsum Subj pre) (Wsum Clp pre)) eqn:Eo.
  - eexists; split; [reflexivity|]. apply Hgen. reflexivity.
  - eexists; split; [reflexivity|]. rewrite <- (set_hot_same l1 Fh). apply Hgen. reflexivity.
Qed.

Theorem insert_open2_preserves ct fr a pos pt dl :
  ct <> NoClip -> inv_b ct fr a = true -> wf_event a (EInsert pos pt dl true) = true ->
  exists a', step ct fr a (EInsert pos pt dl true) = Some a' /\ inv_b ct fr a' = true.
Proof.
  intros Hct Hinv Hwf. unfold inv_b in *. cbn [wf_event] in Hwf.
  apply andb_prop in Hwf. destruct Hwf as [Hwf Hpt]. apply andb_prop in Hwf. destruct Hwf as [_ Hdl].
  assert (pt = Subj) as -> by (destruct pt; [reflexivity|discriminate]).
  assert (pm1 dl) as Hd by (clear - Hdl; unfold pm1; lia). clear Hdl.
  cbn [step]. set (pre := firstn pos a). set (post := skipn pos a).
  assert (a = pre ++ post) as Ea by (symmetry; apply firstn_skipn).
  rewrite Ea in Hinv. rewrite inv_from_app in Hinv. apply andb_prop in Hinv. destruct Hinv as [Hpre Hpost].
  rewrite !Z.add_0_l in Hpost.
  pose proof (set_wind_open_contrib ct fr pre dl Hct Hpre) as F. cbv zeta in F.
  set (l1 := set_wind_open fr pre (fresh Subj dl true)) in *.
  destruct F as (Fp & Fd & Fh & Fo & Fc). rewrite Fc.
  set (r0 := mkE Subj (- dl) (wc l1) (wc2 l1) None true).
  assert (pm1 (- dl)) as Hnd by (clear - Hd; unfold pm1 in *; lia).
  assert (forall h h', h = (if open_in_result ct fr (Wsum Subj pre) (Wsum Clp pre) then Some (open_side l1) else None) ->
            h' = (if open_in_result ct fr (Wsum Subj pre) (Wsum Clp pre) then Some (open_side r0) else None) ->
            inv_from ct fr 0 0 (pre ++ set_hot l1 h :: set_hot r0 h' :: post) = true) as Hgen.
  { intros h h' Hh Hh'. rewrite inv_from_app, Hpre, !Z.add_0_l. cbn [andb inv_from].
    rewrite (open_edge_ok ct fr _ _ l1 h Fo Fp); [|rewrite Fd; exact Hd|exact Hh]. cbn [andb].
    rewrite !(contrib_open _ (set_hot l1 h)), !Z.add_0_r by (unfold set_hot; cbn [eopen]; exact Fo).
    rewrite (open_edge_ok ct fr _ _ r0 h' eq_refl eq_refl Hnd Hh'). cbn [andb].
    rewrite ?(contrib_open _ (set_hot r0 h')), ?Z.add_0_r by reflexivity. exact Hpost. }
  destruct (open_in_result ct fr (Wsum Subj pre) (Wsum Clp pre)) eqn:Eo.
  - eexists; split; [reflexivity|]. apply Hgen; reflexivity.
  - eexists; split; [reflexivity|]. rewrite <- (set_hot_same l1 Fh).
    change r0 with (set_hot r0 None). apply Hgen; reflexivity.
Qed.
