(* C18, PointInPolygon, part 2: the index/iterator model coq/model/Pip.v performs the walk of proofs/Pip_walk.v
   over the cyclic vertex sequence that starts behind [first]; no read fails and the fuel suffices.
   Together with part 1: PointInPolygon = on the boundary / inside by the even-odd rule / outside. *)
From Coq Require Import ZArith List Bool Lia Floats Arith.
From Clip Require Import base.Geom base.Winding base.FloatModel base.CSem gen.Gen_core
  model.CoreSpec model.Pip proofs.Core_float proofs.Core_isect proofs.Pip_walk.
Import ListNotations.
Local Open Scope nat_scope.

Notation upd := pip_cross_update.

(* the vertices the inner while loops step over *)
Definition skp (q : pt) (ab : bool) (c : pt) : bool := if ab then (py c <? py q)%Z else (py q <? py c)%Z.

Lemma vertex_skp q prev c ab v : skp q ab c = true -> pip_vertex upd q prev c ab v = Some (ab, v).
Proof. unfold pip_vertex, skp. intros ->. reflexivity. Qed.

Lemma walk_skip q ab v : forall l1 l2 prev,
  Forall (fun c => skp q ab c = true) l1 ->
  pip_walk upd q prev (l1 ++ l2) ab v = pip_walk upd q (last l1 prev) l2 ab v.
Proof.
  induction l1 as [|c l1 IH]; intros l2 prev H; [reflexivity|].
  inversion H as [|? ? Hc Hl]; subst. cbn [app pip_walk]. rewrite (vertex_skp _ _ _ _ _ Hc).
  rewrite IH by exact Hl. rewrite last_cons. reflexivity.
Qed.

Lemma walk_app q : forall l1 l2 prev ab v,
  pip_walk upd q prev (l1 ++ l2) ab v =
  match pip_walk upd q prev l1 ab v with
  | None => None
  | Some (p, ab', v') => pip_walk upd q p l2 ab' v'
  end.
Proof.
  induction l1 as [|c l1 IH]; intros l2 prev ab v; [reflexivity|].
  cbn [app pip_walk]. destruct (pip_vertex upd q prev c ab v) as [[a2 v2]|]; [apply IH|reflexivity].
Qed.

Lemma skipn_nth_cons {A} : forall (l : list A) i c, nth_error l i = Some c -> skipn i l = c :: skipn (S i) l.
Proof.
  induction l as [|a l IH]; intros [|i] c H; cbn [nth_error] in H; try discriminate.
  - inversion H. reflexivity.
  - cbn [skipn]. rewrite (IH i c H). reflexivity.
Qed.

Lemma skipn_add {A} : forall i k (l : list A), skipn k (skipn i l) = skipn (i + k) l.
Proof.
  induction i as [|i IH]; intros k l; [reflexivity|].
  destruct l as [|a l]; [rewrite !skipn_nil; reflexivity|]. cbn [skipn plus]. apply IH.
Qed.

Ltac eqb_false a b := replace (Nat.eqb a b) with false by (symmetry; apply Nat.eqb_neq; lia).
Ltac eqb_true a b := replace (Nat.eqb a b) with true by (symmetry; apply Nat.eqb_eq; lia).

Lemma last_app_r {A} : forall (l1 l2 : list A) d, l2 <> [] -> last (l1 ++ l2) d = last l2 d.
Proof.
  induction l1 as [|a l1 IH]; intros l2 d H; [reflexivity|].
  cbn [app]. rewrite last_cons. rewrite IH by exact H. destruct l2 as [|b l2]; [contradiction|].
  rewrite !last_cons. reflexivity.
Qed.

Lemma nth_error_last {A} : forall (l : list A) d, l <> [] -> nth_error l (length l - 1) = Some (last l d).
Proof.
  induction l as [|a l IH]; intros d H; [contradiction|].
  destruct l as [|b l]; [reflexivity|].
  replace (length (a :: b :: l) - 1) with (S (length (b :: l) - 1)) by (cbn [length]; lia).
  cbn [nth_error]. rewrite (IH a) by discriminate. rewrite (last_cons (b :: l) a d). reflexivity.
Qed.

Section Loop.
Variables (q : pt) (poly : path) (first : nat).
Let n := length poly.

Lemma loop_unfold F cend curr ab v :
  pip_loop (S F) q poly n first cend curr ab v =
    if Nat.eqb curr cend && (Nat.eqb cend first || Nat.eqb first 0) then PBroke curr ab v else
    let '(cend, curr) := if Nat.eqb curr cend then (first, O) else (cend, curr) in
    match pip_skip ab q poly cend (cend - curr) curr with
    | None => PFail
    | Some curr =>
      if Nat.eqb curr cend then pip_loop F q poly n first cend curr ab v
      else
        match nth_error poly curr, nth_error poly (pip_prev n curr) with
        | Some c, Some p =>
          if (py c =? py q)%Z then
            if ((px c =? px q) || ((py c =? py p) && negb (Bool.eqb (px q <? px p) (px q <? px c))))%Z
            then PDone IsOn
            else
              let curr := S curr in
              if Nat.eqb curr first then PBroke curr ab v
              else pip_loop F q poly n first cend curr ab v
          else
            if ((px q <? px c) && (px q <? px p))%Z then
              pip_loop F q poly n first cend (S curr) (negb ab) v
            else if ((px p <? px q) && (px c <? px q))%Z then
              pip_loop F q poly n first cend (S curr) (negb ab) (1 - v)%Z
            else
              match upd p c q ab v with
              | None => PDone IsOn
              | Some v => pip_loop F q poly n first cend (S curr) (negb ab) v
              end
        | _, _ => PFail
        end
    end.
Proof. reflexivity. Qed.

(* a contiguous range [lo, lo + |w|) of the vertex array, walked with cend = lo + |w|;
   pv0 = the vertex the code uses as predecessor of index lo *)
Record window (lo : nat) (w : list pt) (pv0 : pt) : Prop := {
  w_rd : forall i, i < length w -> nth_error poly (lo + i) = nth_error w i;
  w_prev0 : nth_error poly (pip_prev n lo) = Some pv0;
  w_phase : lo + length w = first \/ first < lo }.

Definition pvat (w : list pt) (pv0 : pt) (i : nat) : pt :=
  match i with O => pv0 | S j => nth j w pv0 end.

Lemma prev_rd lo w pv0 i : window lo w pv0 -> i < length w ->
  nth_error poly (pip_prev n (lo + i)) = Some (pvat w pv0 i).
Proof.
  intros W Hi. destruct i as [|j].
  - rewrite Nat.add_0_r. apply (w_prev0 _ _ _ W).
  - unfold pip_prev. replace (Nat.eqb (lo + S j) 0) with false by (symmetry; apply Nat.eqb_neq; lia).
    replace (lo + S j - 1) with (lo + j) by lia. rewrite (w_rd _ _ _ W) by lia.
    cbn [pvat]. apply nth_error_nth'. lia.
Qed.

Lemma skip_spec ab lo w pv0 : window lo w pv0 -> forall m i, i + m = length w ->
  exists k, k <= m /\ pip_skip ab q poly (lo + length w) m (lo + i) = Some (lo + i + k) /\
    Forall (fun c => skp q ab c = true) (firstn k (skipn i w)) /\
    (k = m \/ exists c, nth_error w (i + k) = Some c /\ skp q ab c = false).
Proof.
  intros W. induction m as [|m IH]; intros i Hi.
  - exists 0. split; [lia|]. cbn [pip_skip]. replace (Nat.eqb (lo + i) (lo + length w)) with true by (symmetry; apply Nat.eqb_eq; lia).
    rewrite Nat.add_0_r. split; [reflexivity|]. split; [constructor|left; reflexivity].
  - cbn [pip_skip]. replace (Nat.eqb (lo + i) (lo + length w)) with false by (symmetry; apply Nat.eqb_neq; lia).
    rewrite (w_rd _ _ _ W) by lia.
    destruct (nth_error w i) as [c|] eqn:Ec; [|apply nth_error_None in Ec; lia].
    fold (skp q ab c). destruct (skp q ab c) eqn:Sk.
    + destruct (IH (S i) ltac:(lia)) as (k & Hk & Hs & Hf & Hend).
      exists (S k). split; [lia|]. replace (lo + S i) with (S (lo + i)) in Hs by lia.
      rewrite Hs. split; [f_equal; lia|]. split.
      * rewrite (skipn_nth_cons _ _ _ Ec). cbn [firstn]. constructor; assumption.
      * destruct Hend as [->|(c' & E' & S')]; [left; reflexivity|right]. exists c'. replace (i + S k) with (S i + k) by lia. auto.
    + exists 0. split; [lia|]. rewrite !Nat.add_0_r. split; [reflexivity|]. split; [constructor|]. right. exists c. auto.
Qed.

Lemma last_firstn_skipn (w : list pt) pv0 : forall k i, i + k <= length w ->
  last (firstn k (skipn i w)) (pvat w pv0 i) = pvat w pv0 (i + k).
Proof.
  induction k as [|k IH]; intros i H.
  - rewrite Nat.add_0_r. reflexivity.
  - destruct (nth_error w i) as [c|] eqn:Ec; [|apply nth_error_None in Ec; lia].
    rewrite (skipn_nth_cons _ _ _ Ec). cbn [firstn]. rewrite last_cons.
    replace c with (pvat w pv0 (S i)) by (cbn [pvat]; apply nth_error_nth; exact Ec).
    rewrite IH by lia. f_equal. lia.
Qed.


(* running the loop over the rest of a window = walking over it, then arriving at the window's end *)
Lemma window_run lo w pv0 : window lo w pv0 ->
  forall M m, m <= M -> forall i ab v, i + m = length w ->
  exists used, used <= 2 * m /\ forall F, 1 <= F ->
    pip_loop (F + used) q poly n first (lo + length w) (lo + i) ab v =
    match pip_walk upd q (pvat w pv0 i) (skipn i w) ab v with
    | None => PDone IsOn
    | Some (_, ab', v') => pip_loop F q poly n first (lo + length w) (lo + length w) ab' v'
    end.
Proof.
  intros W. set (hi := lo + length w).
  assert (Base : forall i ab v, i + 0 = length w ->
    exists used, used <= 2 * 0 /\ forall F, 1 <= F ->
      pip_loop (F + used) q poly n first hi (lo + i) ab v =
      match pip_walk upd q (pvat w pv0 i) (skipn i w) ab v with
      | None => PDone IsOn
      | Some (_, ab', v') => pip_loop F q poly n first hi hi ab' v'
      end).
  { intros i ab v Hi. exists 0. split; [lia|]. intros F _. rewrite Nat.add_0_r.
    replace i with (length w) by lia. rewrite skipn_all. cbn [pip_walk]. reflexivity. }
  induction M as [|M IHM]; intros m Hm i ab v Hi.
  { replace m with 0 in * by lia. apply Base. exact Hi. }
  destruct m as [|m']; [apply Base; exact Hi|].
  destruct (skip_spec ab lo w pv0 W (S m') i Hi) as (k & Hk & Hs & Hf & Hend). fold hi in Hs.
  assert (Hsplit : skipn i w = firstn k (skipn i w) ++ skipn (i + k) w).
  { rewrite <- (firstn_skipn k (skipn i w)) at 1. rewrite skipn_add. reflexivity. }
  assert (Hlast : last (firstn k (skipn i w)) (pvat w pv0 i) = pvat w pv0 (i + k)) by (apply last_firstn_skipn; lia).
  (* the common first part of the iteration *)
  assert (Hbody : forall F,
    pip_loop (S F) q poly n first hi (lo + i) ab v =
    match pip_skip ab q poly hi (S m') (lo + i) with
    | None => PFail
    | Some curr =>
      if Nat.eqb curr hi then pip_loop F q poly n first hi curr ab v
      else
        match nth_error poly curr, nth_error poly (pip_prev n curr) with
        | Some c, Some p =>
          if (py c =? py q)%Z then
            if ((px c =? px q) || ((py c =? py p) && negb (Bool.eqb (px q <? px p) (px q <? px c))))%Z
            then PDone IsOn
            else if Nat.eqb (S curr) first then PBroke (S curr) ab v
                 else pip_loop F q poly n first hi (S curr) ab v
          else
            if ((px q <? px c) && (px q <? px p))%Z then pip_loop F q poly n first hi (S curr) (negb ab) v
            else if ((px p <? px q) && (px c <? px q))%Z then pip_loop F q poly n first hi (S curr) (negb ab) (1 - v)%Z
            else match upd p c q ab v with
                 | None => PDone IsOn
                 | Some v => pip_loop F q poly n first hi (S curr) (negb ab) v
                 end
        | _, _ => PFail
        end
    end).
  { intros F. rewrite loop_unfold. eqb_false (lo + i) hi. cbn [andb].
    replace (hi - (lo + i)) with (S m') by (subst hi; lia). reflexivity. }
  destruct Hend as [-> | (c & Ec & Sk)].
  - (* everything up to the end of the window is stepped over *)
    exists 1. split; [lia|]. intros F HF. replace (F + 1) with (S F) by lia.
    rewrite Hbody, Hs. eqb_true (lo + i + S m') hi.
    rewrite Hsplit, walk_skip by exact Hf. rewrite Hlast.
    replace (i + S m') with (length w) by lia. rewrite skipn_all. cbn [pip_walk].
    f_equal. subst hi. lia.
  - assert (Hk' : k < S m').
    { destruct (Nat.eq_dec k (S m')) as [E|NE]; [|lia]. subst k.
      assert (nth_error w (i + S m') = None) by (apply nth_error_None; lia). congruence. }
    assert (Hrd : nth_error poly (lo + i + k) = Some c).
    { replace (lo + i + k) with (lo + (i + k)) by lia. rewrite (w_rd _ _ _ W) by lia. exact Ec. }
    assert (Hpr : nth_error poly (pip_prev n (lo + i + k)) = Some (pvat w pv0 (i + k))).
    { replace (lo + i + k) with (lo + (i + k)) by lia. apply prev_rd; [exact W|lia]. }
    assert (Hc : pvat w pv0 (S (i + k)) = c) by (cbn [pvat]; apply nth_error_nth; exact Ec).
    destruct (IHM (m' - k) ltac:(lia) (S (i + k)) ab v ltac:(lia)) as (u1 & Hu1 & R1).
    destruct (IHM (m' - k) ltac:(lia) (S (i + k)) (negb ab) v ltac:(lia)) as (u2 & Hu2 & R2).
    destruct (IHM (m' - k) ltac:(lia) (S (i + k)) (negb ab) (1 - v)%Z ltac:(lia)) as (u3 & Hu3 & R3).
    assert (R4 : forall v4, exists u4, u4 <= 2 * (m' - k) /\ forall F, 1 <= F ->
      pip_loop (F + u4) q poly n first hi (lo + S (i + k)) (negb ab) v4 =
      match pip_walk upd q (pvat w pv0 (S (i + k))) (skipn (S (i + k)) w) (negb ab) v4 with
      | None => PDone IsOn
      | Some (_, ab', v') => pip_loop F q poly n first hi hi ab' v'
      end) by (intros v4; apply (IHM (m' - k)); lia).
    replace (lo + S (i + k)) with (S (lo + i + k)) in * by lia.
    (* what the walk does at c *)
    assert (Hwalk : pip_walk upd q (pvat w pv0 i) (skipn i w) ab v =
      match pip_vertex upd q (pvat w pv0 (i + k)) c ab v with
      | None => None
      | Some (ab', v') => pip_walk upd q c (skipn (S (i + k)) w) ab' v'
      end).
    { rewrite Hsplit, walk_skip by exact Hf. rewrite Hlast, (skipn_nth_cons _ _ _ Ec). reflexivity. }
    rewrite Hwalk. rewrite Hc in *. unfold pip_vertex. fold (skp q ab c). rewrite Sk.
    set (p := pvat w pv0 (i + k)) in *.
    destruct (py c =? py q)%Z eqn:Ey.
    + destruct ((px c =? px q) || ((py c =? py p) && negb (Bool.eqb (px q <? px p) (px q <? px c))))%Z eqn:T.
      * exists 1. split; [lia|]. intros F HF. replace (F + 1) with (S F) by lia.
        rewrite Hbody, Hs. eqb_false (lo + i + k) hi. rewrite Hrd, Hpr, Ey, T. reflexivity.
      * destruct (Nat.eqb (S (lo + i + k)) first) eqn:Ef.
        { apply Nat.eqb_eq in Ef. exists 1. split; [lia|]. intros F HF. replace (F + 1) with (S F) by lia.
          rewrite Hbody, Hs. eqb_false (lo + i + k) hi. rewrite Hrd, Hpr, Ey, T. eqb_true (S (lo + i + k)) first.
          assert (Hhi : hi = first) by (destruct (w_phase _ _ _ W); subst hi; lia).
          replace (S (i + k)) with (length w) by (subst hi; lia). rewrite skipn_all. cbn [pip_walk].
          destruct F as [|F]; [lia|]. rewrite loop_unfold. rewrite Hhi. rewrite !Nat.eqb_refl. cbn [andb orb].
          rewrite Ef. reflexivity. }
        { exists (S u1). split; [lia|]. intros F HF. replace (F + S u1) with (S (F + u1)) by lia.
          rewrite Hbody, Hs. eqb_false (lo + i + k) hi. rewrite Hrd, Hpr, Ey, T, Ef. apply R1. exact HF. }
    + destruct ((px q <? px c) && (px q <? px p))%Z eqn:A.
      { exists (S u2). split; [lia|]. intros F HF. replace (F + S u2) with (S (F + u2)) by lia.
        rewrite Hbody, Hs. eqb_false (lo + i + k) hi. rewrite Hrd, Hpr, Ey, A. apply R2. exact HF. }
      destruct ((px p <? px q) && (px c <? px q))%Z eqn:B.
      { exists (S u3). split; [lia|]. intros F HF. replace (F + S u3) with (S (F + u3)) by lia.
        rewrite Hbody, Hs. eqb_false (lo + i + k) hi. rewrite Hrd, Hpr, Ey, A, B. apply R3. exact HF. }
      destruct (upd p c q ab v) as [v4|] eqn:U.
      { destruct (R4 v4) as (u4 & Hu4 & R4'). exists (S u4). split; [lia|]. intros F HF.
        replace (F + S u4) with (S (F + u4)) by lia.
        rewrite Hbody, Hs. eqb_false (lo + i + k) hi. rewrite Hrd, Hpr, Ey, A, B, U. apply R4'. exact HF. }
      { exists 1. split; [lia|]. intros F HF. replace (F + 1) with (S F) by lia.
        rewrite Hbody, Hs. eqb_false (lo + i + k) hi. rewrite Hrd, Hpr, Ey, A, B, U. reflexivity. }
Qed.
End Loop.

(* ------------------------------------------------------------------ the whole function *)
Lemma forallb_split {A} (P : A -> bool) : forall l, forallb P l = false ->
  exists pre f post, l = pre ++ f :: post /\ Forall (fun x => P x = true) pre /\ P f = false.
Proof.
  induction l as [|a l IH]; intros H; [discriminate|]. cbn [forallb] in H.
  destruct (P a) eqn:Pa.
  - destruct (IH H) as (pre & f & post & -> & Hp & Hf). exists (a :: pre), f, post. repeat split; auto.
  - exists [], a, l. repeat split; auto.
Qed.

Section Whole.
Variables (q f : pt) (pre post : list pt).
Let poly := pre ++ f :: post.
Let n := length poly.
Let first := length pre.
Hypothesis Hpre : Forall (fun v => (py v =? py q)%Z = true) pre.
Hypothesis Hf : (py f =? py q)%Z = false.

Lemma n_eq : n = first + S (length post).
Proof. subst n poly first. rewrite app_length. reflexivity. Qed.

Lemma rd_first : nth_error poly first = Some f.
Proof. subst poly first. rewrite nth_error_app2 by lia. rewrite Nat.sub_diag. reflexivity. Qed.

Lemma find_first_spec : forall k j fuel, j + k = first -> k + S (length post) <= fuel ->
  pip_find_first q poly n fuel j = Some first.
Proof.
  pose proof n_eq as Hn.
  induction k as [|k IH]; intros j fuel Hj Hfuel.
  - destruct fuel as [|fuel]; [lia|]. cbn [pip_find_first]. eqb_false j n.
    replace j with first by lia. rewrite rd_first, Hf. reflexivity.
  - destruct fuel as [|fuel]; [lia|]. cbn [pip_find_first]. eqb_false j n.
    assert (Hr : nth_error poly j = nth_error pre j) by (subst poly; apply nth_error_app1; lia).
    rewrite Hr. destruct (nth_error pre j) as [v|] eqn:Ev; [|apply nth_error_None in Ev; lia].
    rewrite Forall_forall in Hpre. rewrite (Hpre v) by (eapply nth_error_In; exact Ev).
    apply IH; lia.
Qed.

Lemma rd_last : nth_error poly (n - 1) = Some (last post f).
Proof.
  pose proof n_eq as Hn. subst poly first.
  rewrite nth_error_app2 by lia. replace (n - 1 - length pre) with (length post) by lia.
  clear. revert f. induction post as [|a l IH]; intros f; [reflexivity|].
  cbn [length nth_error]. rewrite last_cons. apply IH.
Qed.

Lemma window_A : window poly first (S first) post f.
Proof.
  constructor.
  - intros i Hi. subst poly first. rewrite nth_error_app2 by lia.
    replace (S (length pre) + i - length pre) with (S i) by lia. reflexivity.
  - unfold pip_prev. cbn [Nat.eqb]. replace (S first - 1) with first by lia. apply rd_first.
  - right. lia.
Qed.

Lemma window_B : window poly first 0 pre (last post f).
Proof.
  constructor.
  - intros i Hi. subst poly. cbn [plus]. apply nth_error_app1. exact Hi.
  - unfold pip_prev. cbn [Nat.eqb]. apply rd_last.
  - left. reflexivity.
Qed.

Lemma wrap_eq F ab v : first <> 0 ->
  pip_loop (S F) q poly n first n n ab v = pip_loop (S F) q poly n first first 0 ab v.
Proof.
  intros H0. pose proof n_eq as Hn. rewrite !loop_unfold.
  rewrite Nat.eqb_refl. eqb_false n first. eqb_false first 0. eqb_false 0 first. cbn [andb orb]. reflexivity.
Qed.

Lemma end_B F ab v : 1 <= F -> pip_loop F q poly n first first first ab v = PBroke first ab v.
Proof. intros H. destruct F as [|F]; [lia|]. rewrite loop_unfold, !Nat.eqb_refl. reflexivity. Qed.

(* the loop from the state after the initialisation: the walk over post ++ pre *)
Lemma loop_walk :
  match pip_walk upd q f (post ++ pre) (py f <? py q)%Z 0%Z with
  | None => pip_loop (2 * n + 4) q poly n first n (S first) (py f <? py q)%Z 0%Z = PDone IsOn
  | Some (_, ab, v) =>
    exists curr, pip_loop (2 * n + 4) q poly n first n (S first) (py f <? py q)%Z 0%Z = PBroke curr ab v /\
                 (if Nat.eqb curr n then 0 else curr) = first
  end.
Proof.
  pose proof n_eq as Hn.
  destruct (window_run q poly first _ _ _ window_A (length post) (length post) (le_n _) 0 (py f <? py q)%Z 0%Z eq_refl)
    as (uA & HuA & RA).
  replace (S first + length post) with n in RA by lia. rewrite Nat.add_0_r in RA.
  cbn [pvat skipn] in RA. change (length poly) with n in RA.
  specialize (RA (2 * n + 4 - uA) ltac:(lia)). replace (2 * n + 4 - uA + uA) with (2 * n + 4) in RA by lia.
  rewrite walk_app. rewrite RA.
  destruct (pip_walk upd q f post (py f <? py q)%Z 0%Z) as [[[pA abA] vA]|] eqn:WA; [|reflexivity].
  apply walk_last in WA. subst pA.
  destruct (Nat.eq_dec first 0) as [E0|N0].
  - (* no wrap: first == cbegin *)
    assert (pre = []) as -> by (subst first; destruct pre; [reflexivity|discriminate]).
    cbn [pip_walk]. exists n. split.
    + destruct (2 * n + 4 - uA) as [|F] eqn:EF; [lia|]. rewrite loop_unfold, !Nat.eqb_refl.
      eqb_true first 0. rewrite orb_true_r. reflexivity.
    + rewrite Nat.eqb_refl. lia.
  - destruct (window_run q poly first _ _ _ window_B (length pre) (length pre) (le_n _) 0 abA vA eq_refl)
      as (uB & HuB & RB).
    cbn [plus pvat skipn] in RB. fold first in RB. change (length poly) with n in RB.
    specialize (RB (2 * n + 4 - uA - uB) ltac:(lia)).
    replace (2 * n + 4 - uA - uB + uB) with (2 * n + 4 - uA) in RB by lia.
    destruct (2 * n + 4 - uA) as [|F] eqn:EF; [lia|]. rewrite wrap_eq by exact N0. rewrite RB.
    destruct (pip_walk upd q (last post f) pre abA vA) as [[[pB abB] vB]|]; [|reflexivity].
    exists first. split; [apply end_B; lia|]. eqb_false first n. reflexivity.
Qed.

Theorem PointInPolygon_walk :
  3 <= n -> PointInPolygon q poly = pip_flat upd q f (post ++ pre).
Proof.
  intros H3. pose proof n_eq as Hn. unfold PointInPolygon. fold n.
  replace (n <? 3) with false by (symmetry; apply Nat.ltb_ge; lia).
  rewrite (find_first_spec first 0 n) by lia. eqb_false first n. rewrite rd_first.
  unfold pip_flat. pose proof loop_walk as L.
  destruct (pip_walk upd q f (post ++ pre) (py f <? py q)%Z 0%Z) as [[[prev ab] v]|] eqn:W.
  - destruct L as (curr & -> & Hcurr). unfold pip_final, pip_fin.
    destruct (Bool.eqb ab (py f <? py q)%Z); [reflexivity|].
    rewrite Hcurr, rd_first.
    assert (Hp : nth_error poly (pip_prev n first) = Some prev).
    { apply walk_last in W. subst prev. unfold pip_prev.
      destruct (Nat.eq_dec first 0) as [E0|N0].
      - assert (pre = []) as E by (subst first; destruct pre; [reflexivity|discriminate]).
        eqb_true first 0. rewrite E, app_nil_r. apply rd_last.
      - eqb_false first 0. subst poly first. rewrite nth_error_app1 by lia.
        rewrite last_app_r by (intros E; apply N0; rewrite E; reflexivity).
        replace (length pre - 1) with (length pre - 1) by lia.
        apply nth_error_last. intros E; apply N0; rewrite E; reflexivity. }
    rewrite Hp. destruct (upd prev f q ab v); reflexivity.
  - rewrite L. reflexivity.
Qed.
End Whole.

(* ------------------------------------------------------------------ rotation invariance of the specification *)
Lemma on_path_rot1 a t q : on_path (t ++ [a]) q = on_path (a :: t) q.
Proof.
  unfold on_path. destruct t as [|b t]; [reflexivity|].
  assert (cyc_edges ((b :: t) ++ [a]) = open_edges ((b :: t) ++ [a; b])) as ->.
  { cbn [app cyc_edges]. rewrite <- app_assoc. reflexivity. }
  rewrite open_edges_snoc.
  assert (cyc_edges (a :: b :: t) = (a, b) :: open_edges ((b :: t) ++ [a])) as -> by reflexivity.
  rewrite existsb_app. cbn [existsb]. rewrite orb_false_r. apply orb_comm.
Qed.

Lemma on_path_rotate k : forall p q, on_path (rotl k p) q = on_path p q.
Proof.
  induction k as [|k IH]; intros p q; [reflexivity|].
  destruct p as [|a t]; [reflexivity|]. cbn [rotl]. rewrite IH. apply on_path_rot1.
Qed.

Lemma rotl_app {A} : forall (l1 l2 : list A), rotl (length l1) (l1 ++ l2) = l2 ++ l1.
Proof.
  induction l1 as [|a l1 IH]; intros l2; [rewrite app_nil_r; reflexivity|].
  cbn [length app rotl]. rewrite <- app_assoc. rewrite IH. rewrite <- app_assoc. reflexivity.
Qed.

Lemma pip_spec_rot q (l1 l2 : list pt) : pip_spec q (l2 ++ l1) = pip_spec q (l1 ++ l2).
Proof.
  unfold pip_spec. rewrite <- (rotl_app l1 l2). rewrite on_path_rotate, wn_rotate. reflexivity.
Qed.

(* ------------------------------------------------------------------ C18: PointInPolygon is exact *)
Theorem pip_exact q poly :
  3 <= length poly -> pt_le (2 ^ 25) q -> Forall (pt_le (2 ^ 25)) poly ->
  all_y (py q) poly = false ->
  PointInPolygon q poly = pip_spec q poly.
Proof.
  intros H3 Hq Hall Hy. unfold all_y in Hy.
  destruct (forallb_split _ _ Hy) as (pre & f & post & -> & Hpre & Hf).
  rewrite (PointInPolygon_walk q f pre post Hpre Hf H3).
  apply Forall_app in Hall. destruct Hall as (Apre & Afp). inversion Afp as [|? ? Af Apost]; subst.
  rewrite pip_flat_float; [|exact Hq|exact Af|apply Forall_app; split; assumption].
  rewrite pip_flat_spec by (apply Z.eqb_neq; exact Hf).
  change (f :: post ++ pre) with ((f :: post) ++ pre). apply pip_spec_rot.
Qed.

(* the hypotheses are satisfiable: a polygon with vertices level with q before and behind [first],
   q on an edge, q inside, q outside *)
Example pip_exact_sat :
  let poly := [(0, 2); (- 2 ^ 25, 2); (5, - 2 ^ 25); (2 ^ 25, 7); (4, 2)]%Z in
  (3 <= length poly /\ pt_le (2 ^ 25) (2, 2)%Z /\ Forall (pt_le (2 ^ 25)) poly /\ all_y 2 poly = false) /\
  PointInPolygon (2, 2)%Z poly = IsOn /\ PointInPolygon (1, 1)%Z poly = IsInside /\ PointInPolygon (1, 9)%Z poly = IsOutside.
Proof.
  cbv zeta. split; [|vm_compute; auto].
  split; [cbn; lia|]. split; [unfold pt_le, px, py; cbn [fst snd]; lia|]. split; [|reflexivity].
  repeat constructor; unfold px, py; cbn [fst snd]; lia.
Qed.
