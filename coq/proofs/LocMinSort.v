(* C13: the sorted local-minima list does not depend on insertion order when the minima points are distinct. *)
From Clip Require Import base.Geom model.LocMin.
From Coq Require Import Permutation Sorted.
Local Open Scope Z_scope.

(* ---------- LocMinSorter is a strict total order on points ---------- *)
Lemma before_irrefl a : locmin_before a a = false.
Proof. unfold locmin_before. rewrite Z.eqb_refl. cbn [negb]. apply Z.ltb_irrefl. Qed.

Lemma before_asym a b : locmin_before a b = true -> locmin_before b a = false.
Proof.
  unfold locmin_before.
  destruct (Z.eqb_spec (py b) (py a)), (Z.eqb_spec (py a) (py b)); cbn [negb]; try lia;
  destruct (Z.ltb_spec (px a) (px b)), (Z.ltb_spec (px b) (px a)),
           (Z.ltb_spec (py b) (py a)), (Z.ltb_spec (py a) (py b)); try lia; congruence.
Qed.

(* negative transitivity: what makes "not before" a sensible sortedness relation *)
Lemma before_negtrans a b c : locmin_before a b = false -> locmin_before b c = false -> locmin_before a c = false.
Proof.
  unfold locmin_before.
  destruct (Z.eqb_spec (py b) (py a)), (Z.eqb_spec (py c) (py b)), (Z.eqb_spec (py c) (py a)); cbn [negb]; try lia;
  destruct (Z.ltb_spec (px a) (px b)), (Z.ltb_spec (px b) (px c)), (Z.ltb_spec (px a) (px c)),
           (Z.ltb_spec (py b) (py a)), (Z.ltb_spec (py c) (py b)), (Z.ltb_spec (py c) (py a)); try lia; congruence.
Qed.

Lemma before_total a b : a <> b -> locmin_before a b = true \/ locmin_before b a = true.
Proof.
  intros H. unfold locmin_before.
  assert (px a <> px b \/ py a <> py b).
  { destruct a as [ax ay], b as [bx by_]; unfold px, py; cbn [fst snd].
    destruct (Z.eq_dec ax bx), (Z.eq_dec ay by_); subst; auto. }
  destruct (Z.eqb_spec (py b) (py a)), (Z.eqb_spec (py a) (py b)); cbn [negb]; try lia;
  destruct (Z.ltb_spec (px a) (px b)), (Z.ltb_spec (px b) (px a)),
           (Z.ltb_spec (py b) (py a)), (Z.ltb_spec (py a) (py b)); try lia; auto.
Qed.

Section SortSpec.
  Context {A : Type} (key : A -> pt).
  Definition before (a b : A) : bool := locmin_before (key a) (key b).

  (* what std::sort / std::stable_sort guarantee about the result order: no element is strictly before
     one that precedes it *)
  Definition ordered (s : list A) : Prop := StronglySorted (fun x y => before y x = false) s.
  Definition is_sort_of (l s : list A) : Prop := Permutation l s /\ ordered s.

  Lemma ordered_unique s s' :
    Permutation s s' -> NoDup (map key s) -> ordered s -> ordered s' -> s = s'.
  Proof.
    revert s'. induction s as [|x t IH]; intros s' HP HN Hs Hs'.
    - apply Permutation_nil in HP. subst. reflexivity.
    - destruct s' as [|y t']; [apply Permutation_sym, Permutation_nil in HP; discriminate|].
      inversion Hs as [|? ? Hst Hsx]; subst. inversion Hs' as [|? ? Hst' Hsy]; subst.
      inversion HN as [|? ? Hnx HNt]; subst.
      assert (x = y) as <-.
      { assert (Hy : In y (x :: t)) by (apply (Permutation_in y (Permutation_sym HP)); left; reflexivity).
        destruct Hy as [Hy | Hy]; [exact Hy|].
        assert (Hx : In x (y :: t')) by (apply (Permutation_in x HP); left; reflexivity).
        destruct Hx as [Hx | Hx]; [symmetry; exact Hx|].
        exfalso.
        rewrite Forall_forall in Hsx, Hsy.
        specialize (Hsx y Hy). specialize (Hsy x Hx). unfold before in *.
        assert (key x <> key y) by (intros E; apply Hnx; rewrite E; apply in_map, Hy).
        destruct (before_total (key x) (key y) H); congruence. }
      f_equal. apply IH; auto. apply (Permutation_cons_inv HP).
  Qed.

  (* the executable stable sort of model/LocMin.v meets the specification *)
  Lemma insert_perm x l : Permutation (x :: l) (insert_st before x l).
  Proof.
    induction l as [|y t IH]; [reflexivity|]. cbn [insert_st].
    destruct (before y x); [|reflexivity].
    rewrite perm_swap. apply perm_skip, IH.
  Qed.

  Lemma stable_sort_perm l : Permutation l (stable_sort before l).
  Proof.
    induction l as [|x t IH]; [reflexivity|]. cbn [stable_sort].
    rewrite <- insert_perm. apply perm_skip, IH.
  Qed.

  Lemma insert_ordered x l : ordered l -> ordered (insert_st before x l).
  Proof.
    unfold ordered. induction l as [|y t IH]; intros H; cbn [insert_st].
    - constructor; constructor.
    - inversion H as [|? ? Ht Hy]; subst.
      destruct (before y x) eqn:E.
      + constructor; [apply IH, Ht|].
        rewrite Forall_forall in *. intros z Hz.
        apply (Permutation_in z (Permutation_sym (insert_perm x t))) in Hz.
        destruct Hz as [<- | Hz]; [apply before_asym, E|apply Hy, Hz].
      + constructor; [exact H|]. constructor; [exact E|].
        rewrite Forall_forall in *. intros z Hz. unfold before in *.
        apply (before_negtrans _ (key y)); [apply Hy, Hz|exact E].
  Qed.

  Lemma stable_sort_ordered l : ordered (stable_sort before l).
  Proof.
    induction l as [|x t IH]; [constructor|]. cbn [stable_sort]. apply insert_ordered, IH.
  Qed.

  Lemma stable_sort_is_sort l : is_sort_of l (stable_sort before l).
  Proof. split; [apply stable_sort_perm|apply stable_sort_ordered]. Qed.

  (* any two sorts (stable or not) of two orderings of the same minima agree *)
  Theorem sort_perm_any l l' s s' :
    Permutation l l' -> NoDup (map key l) -> is_sort_of l s -> is_sort_of l' s' -> s = s'.
  Proof.
    intros HP HN [Hp Hs] [Hp' Hs'].
    apply ordered_unique; auto.
    - rewrite <- Hp, HP. exact Hp'.
    - apply (Permutation_NoDup (Permutation_map key Hp) HN).
  Qed.

  Theorem sort_perm l l' :
    Permutation l l' -> NoDup (map key l) -> stable_sort before l = stable_sort before l'.
  Proof.
    intros HP HN. apply (sort_perm_any l l'); auto using stable_sort_is_sort.
  Qed.
End SortSpec.

(* satisfiable: two minima at distinct points, in both insertion orders *)
Example sort_perm_witness :
  let l := [(3, 7); (1, 9)] in let l' := [(1, 9); (3, 7)] in
  Permutation l l' /\ NoDup (map (fun x : pt => x) l) /\ stable_sort (before (fun x => x)) l = [(1, 9); (3, 7)].
Proof.
  cbv zeta. split; [apply perm_swap|]. split; [|vm_compute; reflexivity].
  repeat constructor; cbn; intuition congruence.
Qed.
