(* C18, integer clauses: TriSign, Multiply (64x64 -> 128), ProductsAreEqual, CrossProductSign and
   IsCollinear are exact -- on both preprocessor branches -- about the definitions that cpp2v
   regenerates from clipper.core.h (coq/gen/Gen_core.v).

   Proof style: unfold the generated definition, normalise the bit operations to div/mod, destruct
   every condition, lia.  Nothing refers to the position of a sub-term, so renaming locals or
   reordering independent statements in the C++ does not break the proofs; changing what is computed
   does. *)
From Coq Require Import ZArith Lia Bool.
From Clip Require Import base.Geom base.FloatModel base.CSem gen.Gen_core.
Local Open Scope Z_scope.

(* ------------------------------------------------------------------ ranges *)
Definition u64 (z : Z) : Prop := 0 <= z < 2 ^ 64.
(* a value of an int64_t variable *)
Definition i64 (z : Z) : Prop := - 2 ^ 63 <= z < 2 ^ 63.
(* ... on which std::abs is defined (std::abs(INT64_MIN) is undefined behaviour) *)
Definition i64s (z : Z) : Prop := - 2 ^ 63 < z < 2 ^ 63.

(* the four coordinate differences CrossProductSign / IsCollinear form *)
Definition diffs (P : Z -> Prop) (p q r : pt) : Prop :=
  P (px q - px p) /\ P (py r - py q) /\ P (py q - py p) /\ P (px r - px q).

(* ------------------------------------------------------------------ TriSign *)
Lemma trisign_sgn x : TriSign x = Z.sgn x.
Proof. unfold TriSign, b2z. destruct (0 <? x) eqn:?, (x <? 0) eqn:?; lia. Qed.

(* ------------------------------------------------------------------ bit operations *)
Lemma land_mask32 x : Z.land x 4294967295 = x mod 2 ^ 32.
Proof. change 4294967295 with (Z.ones 32). apply Z.land_ones. lia. Qed.

Lemma lor_disjoint h l n : 0 <= n -> 0 <= l < 2 ^ n -> Z.lor (h * 2 ^ n) l = h * 2 ^ n + l.
Proof.
  intros Hn Hl.
  assert (L : Z.land (h * 2 ^ n) l = 0).
  { apply Z.bits_inj'. intros i Hi. rewrite Z.land_spec, Z.bits_0.
    destruct (Z.lt_ge_cases i n) as [Lt|Ge].
    - rewrite Z.mul_pow2_bits_low by lia. reflexivity.
    - rewrite <- (Z.mod_small l (2 ^ n)) by lia.
      rewrite (Z.mod_pow2_bits_high l n i) by lia. apply andb_false_r. }
  rewrite <- Z.lxor_lor by exact L. symmetry. apply Z.add_nocarry_lxor. exact L.
Qed.

(* ------------------------------------------------------------------ Multiply *)
(* common preparation: split a, b into 32-bit halves, bound the four partial products, remove every
   [wrap64] whose argument is in range (found by matching, innermost first by backtracking) *)
Ltac multiply_prep a b Ha Hb :=
  unfold Multiply, u128_val, u128_lo, u128_hi; cbv zeta beta; cbn [fst snd];
  rewrite ?land_mask32, ?Z.shiftr_div_pow2, ?Z.shiftl_mul_pow2 by lia;
  let al := fresh "al" in let ah := fresh "ah" in let bl := fresh "bl" in let bh := fresh "bh" in
  set (al := a mod 2 ^ 32) in *; set (ah := a / 2 ^ 32) in *;
  set (bl := b mod 2 ^ 32) in *; set (bh := b / 2 ^ 32) in *;
  assert (0 <= al < 2 ^ 32) by (apply Z.mod_pos_bound; lia);
  assert (0 <= bl < 2 ^ 32) by (apply Z.mod_pos_bound; lia);
  assert (0 <= ah < 2 ^ 32) by (subst ah; unfold u64 in *; split; [apply Z.div_pos|apply Z.div_lt_upper_bound]; lia);
  assert (0 <= bh < 2 ^ 32) by (subst bh; unfold u64 in *; split; [apply Z.div_pos|apply Z.div_lt_upper_bound]; lia);
  assert (a = ah * 2 ^ 32 + al) by (subst ah al; rewrite Z.mul_comm; apply Z.div_mod; lia);
  assert (b = bh * 2 ^ 32 + bl) by (subst bh bl; rewrite Z.mul_comm; apply Z.div_mod; lia);
  clearbody al ah bl bh;
  assert (0 <= al * bl <= (2 ^ 32 - 1) * (2 ^ 32 - 1)) by nia;
  assert (0 <= ah * bl <= (2 ^ 32 - 1) * (2 ^ 32 - 1)) by nia;
  assert (0 <= al * bh <= (2 ^ 32 - 1) * (2 ^ 32 - 1)) by nia;
  assert (0 <= ah * bh <= (2 ^ 32 - 1) * (2 ^ 32 - 1)) by nia;
  repeat match goal with
         | |- context [wrap64 ?x] => rewrite (wrap64_small x) by (Z.div_mod_to_equations; lia)
         end;
  rewrite ?lor_disjoint by (try lia; apply Z.mod_pos_bound; lia);
  assert (a * b = ah * bh * 2 ^ 64 + (ah * bl + al * bh) * 2 ^ 32 + al * bl) by (subst a b; ring).

Lemma multiply_val a b : u64 a -> u64 b -> u128_val (Multiply a b) = a * b.
Proof.
  intros Ha Hb. multiply_prep a b Ha Hb.
  match goal with E : a * b = _ |- _ => rewrite E; clear E end.
  Z.div_mod_to_equations; lia.
Qed.

Lemma multiply_lo a b : u64 a -> u64 b -> u64 (u128_lo (Multiply a b)).
Proof.
  intros Ha Hb. change (0 <= u128_lo (Multiply a b) < 2 ^ 64). multiply_prep a b Ha Hb.
  Z.div_mod_to_equations; lia.
Qed.

Lemma multiply_hi a b : u64 a -> u64 b -> u64 (u128_hi (Multiply a b)).
Proof.
  intros Ha Hb.
  pose proof (multiply_val a b Ha Hb) as V. pose proof (multiply_lo a b Ha Hb) as L.
  unfold u128_val in V. unfold u64 in *.
  assert (0 <= a * b < 2 ^ 64 * 2 ^ 64) by nia.
  (* hi is the output of wrap64 or a sum of naturals: non-negative either way *)
  assert (0 <= u128_hi (Multiply a b)).
  { multiply_prep a b Ha Hb. Z.div_mod_to_equations; lia. }
  lia.
Qed.

Theorem multiply_exact a b :
  0 <= a < 2 ^ 64 -> 0 <= b < 2 ^ 64 ->
  u128_val (Multiply a b) = a * b /\
  0 <= u128_lo (Multiply a b) < 2 ^ 64 /\ 0 <= u128_hi (Multiply a b) < 2 ^ 64.
Proof.
  intros Ha Hb. split; [apply multiply_val|split; [apply multiply_lo|apply multiply_hi]]; assumption.
Qed.

(* ------------------------------------------------------------------ |a|*|b| through Multiply *)
Lemma abs_u64 a : i64s a -> wrap64 (Z.abs a) = Z.abs a /\ u64 (Z.abs a).
Proof. unfold i64s, u64. intros H. split; [apply wrap64_small|]; lia. Qed.

(* two UInt128Struct with in-range halves are equal iff their values are *)
Lemma u128_eq_val x y :
  u64 (u128_lo x) -> u64 (u128_hi x) -> u64 (u128_lo y) -> u64 (u128_hi y) ->
  UInt128Struct_eq x y = (u128_val x =? u128_val y).
Proof.
  unfold UInt128Struct_eq, u128_val, u64. intros.
  destruct (u128_lo x =? u128_lo y) eqn:?, (u128_hi x =? u128_hi y) eqn:?,
           (u128_lo x + 2 ^ 64 * u128_hi x =? u128_lo y + 2 ^ 64 * u128_hi y) eqn:?; cbn [andb]; lia.
Qed.

(* ------------------------------------------------------------------ ProductsAreEqual *)
Theorem products_equal_int128 a b c d :
  i64 a -> i64 b -> i64 c -> i64 d -> ProductsAreEqual_int128 a b c d = (a * b =? c * d).
Proof. intros _ _ _ _. unfold ProductsAreEqual_int128. cbv zeta. reflexivity. Qed.

Theorem products_equal_portable a b c d :
  i64s a -> i64s b -> i64s c -> i64s d -> ProductsAreEqual_portable a b c d = (a * b =? c * d).
Proof.
  intros Ha Hb Hc Hd. unfold ProductsAreEqual_portable. cbv zeta.
  destruct (abs_u64 a Ha) as [-> Ua], (abs_u64 b Hb) as [-> Ub],
           (abs_u64 c Hc) as [-> Uc], (abs_u64 d Hd) as [-> Ud].
  rewrite u128_eq_val by (apply multiply_lo || apply multiply_hi; assumption).
  rewrite !multiply_val by assumption.
  rewrite !trisign_sgn, <- !Z.sgn_mul, <- !Z.abs_mul.
  destruct (Z.abs (a * b) =? Z.abs (c * d)) eqn:?, (Z.sgn (a * b) =? Z.sgn (c * d)) eqn:?,
           (a * b =? c * d) eqn:?; cbn [andb]; lia.
Qed.

(* ------------------------------------------------------------------ CrossProductSign *)
Theorem cross_sign_int128 p q r :
  diffs i64 p q r -> CrossProductSign_int128 p q r = Z.sgn (cross p q r).
Proof.
  intros _. unfold CrossProductSign_int128, cross. cbv zeta.
  set (ab := (px q - px p) * (py r - py q)). set (cd := (py q - py p) * (px r - px q)).
  destruct (cd <? ab) eqn:?, (ab <? cd) eqn:?; lia.
Qed.

Theorem cross_sign_portable p q r :
  diffs i64s p q r -> CrossProductSign_portable p q r = Z.sgn (cross p q r).
Proof.
  intros (Ha & Hb & Hc & Hd). unfold CrossProductSign_portable, cross. cbv zeta beta.
  set (a := px q - px p) in *. set (b := py r - py q) in *.
  set (c := py q - py p) in *. set (d := px r - px q) in *.
  destruct (abs_u64 a Ha) as [-> Ua], (abs_u64 b Hb) as [-> Ub],
           (abs_u64 c Hc) as [-> Uc], (abs_u64 d Hd) as [-> Ud].
  pose proof (multiply_val _ _ Ua Ub) as Vab. pose proof (multiply_val _ _ Uc Ud) as Vcd.
  pose proof (multiply_lo _ _ Ua Ub) as Lab. pose proof (multiply_lo _ _ Uc Ud) as Lcd.
  pose proof (multiply_hi _ _ Ua Ub) as Hab. pose proof (multiply_hi _ _ Uc Ud) as Hcd.
  rewrite <- Z.abs_mul in Vab, Vcd. unfold u128_val, u64 in *.
  rewrite !trisign_sgn, <- !Z.sgn_mul.
  set (ab := a * b) in *. set (cd := c * d) in *.
  set (m1 := Multiply (Z.abs a) (Z.abs b)) in *. set (m2 := Multiply (Z.abs c) (Z.abs d)) in *.
  repeat match goal with
         | |- context [if ?c then _ else _] => destruct c eqn:?
         end; lia.
Qed.

(* ------------------------------------------------------------------ IsCollinear *)
Theorem is_collinear_exact p s q :
  diffs i64 p s q -> IsCollinear p s q = (cross p s q =? 0).
Proof.
  intros (Ha & Hb & Hc & Hd). unfold IsCollinear. cbv zeta.
  rewrite products_equal_int128 by assumption. unfold cross.
  set (ab := (px s - px p) * (py q - py s)). set (cd := (py s - py p) * (px q - px s)).
  destruct (ab =? cd) eqn:?, (ab - cd =? 0) eqn:?; lia.
Qed.


(* ------------------------------------------------------------------ the closed range
   A difference (or a factor) equal to INT64_MIN does not overflow, but std::abs(INT64_MIN) in the portable
   branch is formally undefined in C++.  On two's complement hardware it yields INT64_MIN, whose conversion to
   uint64_t is 2^63 = |INT64_MIN|; this is also what the translated definition computes
   (wrap64 (Z.abs (-2^63)) = 2^63), so in the model the portable branch is exact on the closed range too. *)
Lemma abs_u64_closed a : i64 a -> wrap64 (Z.abs a) = Z.abs a /\ u64 (Z.abs a).
Proof. unfold i64, u64. intros H. split; [apply wrap64_small|]; lia. Qed.

Theorem products_equal_portable_closed a b c d :
  i64 a -> i64 b -> i64 c -> i64 d -> ProductsAreEqual_portable a b c d = (a * b =? c * d).
Proof.
  intros Ha Hb Hc Hd. unfold ProductsAreEqual_portable. cbv zeta.
  destruct (abs_u64_closed a Ha) as [-> Ua], (abs_u64_closed b Hb) as [-> Ub],
           (abs_u64_closed c Hc) as [-> Uc], (abs_u64_closed d Hd) as [-> Ud].
  rewrite u128_eq_val by (apply multiply_lo || apply multiply_hi; assumption).
  rewrite !multiply_val by assumption.
  rewrite !trisign_sgn, <- !Z.sgn_mul, <- !Z.abs_mul.
  destruct (Z.abs (a * b) =? Z.abs (c * d)) eqn:?, (Z.sgn (a * b) =? Z.sgn (c * d)) eqn:?,
           (a * b =? c * d) eqn:?; cbn [andb]; lia.
Qed.

Theorem cross_sign_portable_closed p q r :
  diffs i64 p q r -> CrossProductSign_portable p q r = Z.sgn (cross p q r).
Proof.
  intros (Ha & Hb & Hc & Hd). unfold CrossProductSign_portable, cross. cbv zeta beta.
  set (a := px q - px p) in *. set (b := py r - py q) in *.
  set (c := py q - py p) in *. set (d := px r - px q) in *.
  destruct (abs_u64_closed a Ha) as [-> Ua], (abs_u64_closed b Hb) as [-> Ub],
           (abs_u64_closed c Hc) as [-> Uc], (abs_u64_closed d Hd) as [-> Ud].
  pose proof (multiply_val _ _ Ua Ub) as Vab. pose proof (multiply_val _ _ Uc Ud) as Vcd.
  pose proof (multiply_lo _ _ Ua Ub) as Lab. pose proof (multiply_lo _ _ Uc Ud) as Lcd.
  pose proof (multiply_hi _ _ Ua Ub) as Hab. pose proof (multiply_hi _ _ Uc Ud) as Hcd.
  rewrite <- Z.abs_mul in Vab, Vcd. unfold u128_val, u64 in *.
  rewrite !trisign_sgn, <- !Z.sgn_mul.
  set (ab := a * b) in *. set (cd := c * d) in *.
  set (m1 := Multiply (Z.abs a) (Z.abs b)) in *. set (m2 := Multiply (Z.abs c) (Z.abs d)) in *.
  repeat match goal with
         | |- context [if ?c then _ else _] => destruct c eqn:?
         end; lia.
Qed.

Example diffs_closed_sat : diffs i64 (2 ^ 62, 0) (- 2 ^ 62, 2 ^ 62) (2 ^ 62 - 1, - 2 ^ 62).
Proof. unfold diffs, i64, px, py; cbn [fst snd]. lia. Qed.

(* the hypotheses are satisfiable, also at the extremes *)
Example diffs_sat : diffs i64s (- 2 ^ 62, 2 ^ 62 - 1) (2 ^ 62 - 1, - 2 ^ 62) (0, 5).
Proof. unfold diffs, i64s, px, py; cbn [fst snd]. lia. Qed.
Example multiply_extreme : Multiply (2 ^ 64 - 1) (2 ^ 64 - 1) = (1, 2 ^ 64 - 2).
Proof. vm_compute. reflexivity. Qed.
