(* Open-path edges: the toggle in IntersectEdges keeps "hot <-> the open path is inside the kept region". *)
From Clip Require Import base.Geom base.Region model.Sweep1D
     proofs.Sweep1D_contrib proofs.Sweep1D_arith proofs.Sweep1D_bool proofs.Sweep1D_swap.
From Coq Require Import ZifyBool Lia.
Local Open Scope Z_scope.

Record open_spec (ct : clip_type) (fr : fill_rule) (ws wcl : Z) (e : edge) : Prop := {
  os_d : pm1 (wdx e);
  os_pt : ep e = Subj;
  os_hot : hot e = if open_in_result ct fr ws wcl then Some (open_side e) else None
}.

Lemma edge_ok_open ct fr ws wcl e : eopen e = true ->
  (edge_ok ct fr ws wcl e = true <-> open_spec ct fr ws wcl e).
Proof.
  intros Ho. unfold edge_ok. rewrite Ho.
  rewrite !Bool.andb_true_iff, opt_side_eqb_eq. split.
  - intros [[Hd Hp] Hh]. constructor; [unfold pm1; lia | destruct (ep e); [reflexivity|discriminate] | exact Hh].
  - intros [Hd Hp Hh]. unfold pm1 in Hd. rewrite Hp. repeat split; try assumption; try reflexivity; lia.
Qed.

Lemma contrib_open pt e : eopen e = true -> contrib pt e = 0.
Proof. intros H. unfold contrib. rewrite H. reflexivity. Qed.

(* does open_in_result change across the closed edge c ? *)
Lemma toggle_iff ct fr ws wcl c : ct <> NoClip -> eopen c = false -> closed_spec ct fr ws wcl c ->
  (negb (Z.abs (wc c) =? 1)
   || (match ct with Union => negb (is_hot c) | _ => ptype_eqb (ep c) Subj end)
   || negb (match fr with Positive => wc c =? 1 | Negative => wc c =? -1 | _ => Z.abs (wc c) =? 1 end))
  = Bool.eqb (open_in_result ct fr ws wcl) (open_in_result ct fr (st_s ws c) (st_c wcl c)).
Proof.
  intros Hct Ho [Hd Hw Hv Hh].
  assert (negb (Z.abs (wc c) =? 1) || negb (match fr with Positive => wc c =? 1 | Negative => wc c =? -1 | _ => Z.abs (wc c) =? 1 end)
          = negb (pass fr (wc c))) as Ep.
  { pose proof (wc_ok_nz fr _ _ _ Hd Hw) as Hnz. destruct fr; cbn [pass wc_nz] in *; lia. }
  rewrite <- Bool.orb_assoc, (Bool.orb_comm (match ct with Union => _ | _ => _ end)), Bool.orb_assoc, Ep.
  rewrite (pass_spec fr _ _ _ Hd Hw).
  unfold st_s, st_c. rewrite !contrib_closed by exact Ho.
  unfold is_hot. rewrite Hh.
  destruct c as [pt d w v h o]; cbn [ep wdx wc wc2 hot eopen] in *.
  destruct pt; cbn [ptype_eqb own_w oth_w issub gsel] in *; rewrite ?Z.add_0_r;
  unfold open_in_result;
  generalize (inside fr ws), (inside fr wcl), (inside fr (ws + d)), (inside fr (wcl + d)); intros a b a' b';
  destruct ct; try congruence; destruct a, b, a', b'; reflexivity.
Qed.

(* an open edge o crossing a closed edge c, either way round *)
Lemma swap_open_closed ct fr ph same ws wcl e1 e2 :
  ct <> NoClip -> xorb (eopen e1) (eopen e2) = true ->
  edge_ok ct fr ws wcl e1 = true -> edge_ok ct fr (st_s ws e1) (st_c wcl e1) e2 = true ->
  exists e1' e2', intersect_edges ct fr ph same e1 e2 = Some (e1', e2') /\
                  swap_post ct fr ws wcl e1 e2 e1' e2'.
Proof.
  intros Hct Hx H1 H2. unfold intersect_edges.
  destruct (eopen e1) eqn:Ho1, (eopen e2) eqn:Ho2; try discriminate Hx; cbn [orb andb].
  - (* e1 open, e2 closed: the open edge moves from the left of c to its right *)
    apply edge_ok_open in H1; [|exact Ho1]. destruct H1 as [Hd Hp Hh].
    unfold st_s, st_c in H2. rewrite !contrib_open, !Z.add_0_r in H2 by exact Ho1.
    pose proof H2 as H2'. apply edge_ok_closed in H2; [|exact Ho2].
    pose proof (toggle_iff ct fr ws wcl e2 Hct Ho2 H2) as HT.
    eexists; eexists; split; [reflexivity|].
    unfold swap_post. repeat split.
    1-3: unfold isect_open; repeat match goal with |- context [if ?c then _ else _] => destruct c end; reflexivity.
    + exact H2'.
    + apply edge_ok_open.
      { unfold isect_open; repeat match goal with |- context [if ?c then _ else _] => destruct c end; cbn; exact Ho1. }
      unfold isect_open.
      destruct (negb (Z.abs (wc e2) =? 1)) eqn:E1; cbn [orb] in HT.
      { constructor; try assumption. rewrite Hh. symmetry in HT. apply Bool.eqb_prop in HT. rewrite HT. reflexivity. }
      destruct (match ct with Union => negb (is_hot e2) | _ => ptype_eqb (ep e2) Subj end) eqn:E2; cbn [orb] in HT.
      { constructor; try assumption. rewrite Hh. symmetry in HT. apply Bool.eqb_prop in HT. rewrite HT. reflexivity. }
      destruct (negb (match fr with Positive => wc e2 =? 1 | Negative => wc e2 =? -1 | _ => Z.abs (wc e2) =? 1 end)) eqn:E3.
      { constructor; try assumption. rewrite Hh. symmetry in HT. apply Bool.eqb_prop in HT. rewrite HT. reflexivity. }
      symmetry in HT. apply Bool.eqb_false_iff in HT.
      unfold is_hot. rewrite Hh.
      destruct (open_in_result ct fr ws wcl) eqn:Eb, (open_in_result ct fr (st_s ws e2) (st_c wcl e2)) eqn:Ea;
        try congruence; constructor; unfold set_hot, open_side in *; cbn [ep wdx wc wc2 hot eopen]; rewrite ?Ea, ?Eb; try assumption; reflexivity.
  - (* e1 closed, e2 open: the open edge moves from the right of c to its left *)
    pose proof H1 as H1'. apply edge_ok_closed in H1; [|exact Ho1].
    apply edge_ok_open in H2; [|exact Ho2]. destruct H2 as [Hd Hp Hh].
    pose proof (toggle_iff ct fr ws wcl e1 Hct Ho1 H1) as HT.
    eexists; eexists; split; [reflexivity|].
    assert (forall o, eopen (isect_open ct fr e2 o) = true /\ ep (isect_open ct fr e2 o) = ep e2 /\ wdx (isect_open ct fr e2 o) = wdx e2) as Hsame.
    { intros o. unfold isect_open; repeat match goal with |- context [if ?c then _ else _] => destruct c end; cbn; auto. }
    destruct (Hsame e1) as (Hso & Hsp & Hsd).
    unfold swap_post. repeat split; try assumption.
    + rewrite Ho2. exact Hso.
    + apply edge_ok_open; [exact Hso|].
      unfold isect_open.
      destruct (negb (Z.abs (wc e1) =? 1)) eqn:E1; cbn [orb] in HT.
      { constructor; try assumption. rewrite Hh. symmetry in HT. apply Bool.eqb_prop in HT. rewrite HT. reflexivity. }
      destruct (match ct with Union => negb (is_hot e1) | _ => ptype_eqb (ep e1) Subj end) eqn:E2; cbn [orb] in HT.
      { constructor; try assumption. rewrite Hh. symmetry in HT. apply Bool.eqb_prop in HT. rewrite HT. reflexivity. }
      destruct (negb (match fr with Positive => wc e1 =? 1 | Negative => wc e1 =? -1 | _ => Z.abs (wc e1) =? 1 end)) eqn:E3.
      { constructor; try assumption. rewrite Hh. symmetry in HT. apply Bool.eqb_prop in HT. rewrite HT. reflexivity. }
      symmetry in HT. apply Bool.eqb_false_iff in HT.
      unfold is_hot. rewrite Hh.
      destruct (open_in_result ct fr ws wcl) eqn:Eb, (open_in_result ct fr (st_s ws e1) (st_c wcl e1)) eqn:Ea;
        try congruence; constructor; unfold set_hot, open_side in *; cbn [ep wdx wc wc2 hot eopen]; rewrite ?Ea, ?Eb; try assumption; reflexivity.
    + unfold st_s, st_c. rewrite !contrib_open, !Z.add_0_r by exact Hso. exact H1'.
Qed.

Lemma swap_open_open ct fr ph same ws wcl e1 e2 :
  eopen e1 = true -> eopen e2 = true ->
  edge_ok ct fr ws wcl e1 = true -> edge_ok ct fr (st_s ws e1) (st_c wcl e1) e2 = true ->
  exists e1' e2', intersect_edges ct fr ph same e1 e2 = Some (e1', e2') /\
                  swap_post ct fr ws wcl e1 e2 e1' e2'.
Proof.
  intros Ho1 Ho2 H1 H2. unfold intersect_edges. rewrite Ho1, Ho2. cbn [orb andb].
  eexists; eexists; split; [reflexivity|].
  unfold st_s, st_c in *. rewrite !contrib_open, !Z.add_0_r in * by assumption.
  unfold swap_post. repeat split; try assumption.
  unfold st_s, st_c. rewrite !contrib_open, !Z.add_0_r by assumption. exact H1.
Qed.
