(* Lemmas for C12: stable sorting by insertion (incremental re-sorting, permutation, sortedness, stability),
   LocMinSorter is a strict weak order, refinement of the Clipper64 state machine to "inputs since the last
   Clear", statelessness of the RectClip64 per-path loop. *)
From Coq Require Import ZArith List Bool String Lia Permutation Sorted.
From Clip Require Import base.Region gen.Gen_fields model.ObjectSM.
Import ListNotations.
Local Open Scope Z_scope.

(* ------------------------------------------------------------------------------------------------------------ *)
Section StableSortFacts.
  Context {A : Type}.
  Variable lt : A -> A -> bool.
  Hypothesis lt_asym : forall a b, lt a b = true -> lt b a = false.
  Hypothesis lt_trans : forall a b c, lt a b = true -> lt b c = true -> lt a c = true.

  Lemma sinsert_comm a b t :
    lt a b = true -> sinsert lt a (sinsert lt b t) = sinsert lt b (sinsert lt a t).
  Proof.
    intros Hab. induction t as [|y t IH]; cbn [sinsert].
    - rewrite (lt_asym _ _ Hab), Hab. reflexivity.
    - destruct (lt y b) eqn:Hyb; cbn [sinsert].
      + destruct (lt y a) eqn:Hya; cbn [sinsert].
        * rewrite Hyb, IH. reflexivity.
        * rewrite Hab. cbn [sinsert]. rewrite Hyb. reflexivity.
      + rewrite (lt_asym _ _ Hab).
        assert (Hya : lt y a = false).
        { destruct (lt y a) eqn:E; [|reflexivity]. rewrite (lt_trans _ _ _ E Hab) in Hyb. discriminate. }
        rewrite Hya. cbn [sinsert]. rewrite Hab. cbn [sinsert]. rewrite Hyb. reflexivity.
  Qed.

  (* inserting a batch into [s]: one more element in the (already sorted) batch commutes to the outside *)
  Lemma fold_sinsert_sinsert s x m :
    fold_right (sinsert lt) s (sinsert lt x m) = sinsert lt x (fold_right (sinsert lt) s m).
  Proof.
    induction m as [|y m IH]; cbn [sinsert fold_right]; [reflexivity|].
    destruct (lt y x) eqn:Hyx; cbn [fold_right].
    - rewrite IH. apply sinsert_comm. exact Hyx.
    - reflexivity.
  Qed.

  Lemma fold_sinsert_ssort s l :
    fold_right (sinsert lt) s (ssort lt l) = fold_right (sinsert lt) s l.
  Proof.
    induction l as [|x l IH]; [reflexivity|].
    unfold ssort in *. cbn [fold_right]. rewrite fold_sinsert_sinsert, IH. reflexivity.
  Qed.

  Lemma ssort_app l l' : ssort lt (l ++ l') = fold_right (sinsert lt) (ssort lt l') l.
  Proof. unfold ssort. apply fold_right_app. Qed.

  (* Reset() after AddPaths on an object that had already sorted: stable_sort (sorted prefix ++ new suffix) *)
  Lemma sort_incremental_gen l l' : ssort lt (ssort lt l ++ l') = ssort lt (l ++ l').
  Proof. rewrite !ssort_app. apply fold_sinsert_ssort. Qed.

  Lemma ssort_idem l : ssort lt (ssort lt l) = ssort lt l.
  Proof. pose proof (sort_incremental_gen l []) as H. rewrite !app_nil_r in H. exact H. Qed.

  (* any two lists with the same sort stay so when the same suffix is appended *)
  Lemma ssort_app_congr l1 l2 l' : ssort lt l1 = ssort lt l2 -> ssort lt (l1 ++ l') = ssort lt (l2 ++ l').
  Proof.
    intros H. rewrite <- (sort_incremental_gen l1 l'), <- (sort_incremental_gen l2 l'), H. reflexivity.
  Qed.

  (** [ssort] is a sort: permutation, sorted for "not greater", stable. *)
  Lemma sinsert_perm x l : Permutation (sinsert lt x l) (x :: l).
  Proof.
    induction l as [|y l IH]; cbn [sinsert]; [apply Permutation_refl|].
    destruct (lt y x); [|apply Permutation_refl].
    eapply Permutation_trans; [apply perm_skip, IH|apply perm_swap].
  Qed.

  Lemma ssort_perm l : Permutation (ssort lt l) l.
  Proof.
    induction l as [|x l IH]; [apply Permutation_refl|].
    unfold ssort in *. cbn [fold_right].
    eapply Permutation_trans; [apply sinsert_perm|apply perm_skip, IH].
  Qed.

  Definition le (a b : A) : Prop := lt b a = false.     (* a may stand before b *)

  Lemma sinsert_in x l z : In z (sinsert lt x l) -> z = x \/ In z l.
  Proof.
    intros H. apply (Permutation_in _ (sinsert_perm x l)) in H. destruct H as [H|H]; auto.
  Qed.

  Hypothesis lt_negtrans : forall a b c, lt a b = false -> lt b c = false -> lt a c = false.

  Lemma sinsert_sorted x l : StronglySorted le l -> StronglySorted le (sinsert lt x l).
  Proof.
    induction l as [|y l IH]; intros Hs; cbn [sinsert].
    - constructor; [constructor|constructor].
    - inversion Hs as [|? ? Hs' Hall]; subst.
      destruct (lt y x) eqn:Hyx.
      + constructor; [apply IH; exact Hs'|].
        apply Forall_forall. intros z Hz. apply sinsert_in in Hz. destruct Hz as [->|Hz].
        * unfold le. apply lt_asym. exact Hyx.
        * rewrite Forall_forall in Hall. apply Hall. exact Hz.
      + constructor; [exact Hs|].
        constructor; [exact Hyx|].
        rewrite Forall_forall in Hall |- *. intros z Hz. unfold le in *.
        (* z >= y >= x *)
        apply (lt_negtrans z y x); [apply Hall; exact Hz|exact Hyx].
  Qed.

  Lemma ssort_sorted l : StronglySorted le (ssort lt l).
  Proof.
    induction l as [|x l IH]; [constructor|]. unfold ssort in *. cbn [fold_right]. apply sinsert_sorted, IH.
  Qed.

  (* stability: the elements equivalent to any given [a] come out in their original relative order *)
  Definition eqv (a b : A) : bool := negb (lt a b) && negb (lt b a).

  Lemma sinsert_filter_eqv a x l :
    filter (eqv a) (sinsert lt x l) = if eqv a x then x :: filter (eqv a) l else filter (eqv a) l.
  Proof.
    induction l as [|y l IH]; cbn [sinsert filter].
    - destruct (eqv a x); reflexivity.
    - destruct (lt y x) eqn:Hyx; cbn [filter].
      + rewrite IH. destruct (eqv a x) eqn:Eax; [|reflexivity].
        (* y < x ~ a, hence y is not equivalent to a *)
        assert (Hay : eqv a y = false).
        { unfold eqv in *. apply andb_true_iff in Eax. destruct Eax as [E1 E2].
          apply negb_true_iff in E1, E2.
          destruct (lt y a) eqn:Hya; [rewrite andb_false_r; reflexivity|].
          (* not (y < a) and not (a < x) give not (y < x) *)
          rewrite (lt_negtrans y a x Hya E1) in Hyx. discriminate. }
        rewrite Hay. reflexivity.
      + destruct (eqv a x); reflexivity.
  Qed.

  Lemma ssort_stable a l : filter (eqv a) (ssort lt l) = filter (eqv a) l.
  Proof.
    induction l as [|x l IH]; [reflexivity|].
    unfold ssort in *. cbn [fold_right filter]. rewrite sinsert_filter_eqv, IH. reflexivity.
  Qed.
End StableSortFacts.

(* ------------------------------------------------------------------------------------------------------------ *)
(** LocMinSorter is a strict weak order *)
Ltac lm_solve :=
  unfold lm_lt; intros;
  repeat match goal with
         | |- context [Z.eqb ?a ?b] => destruct (Z.eqb_spec a b)
         | H : context [Z.eqb ?a ?b] |- _ => destruct (Z.eqb_spec a b)
         end;
  cbn [negb] in *; rewrite ?Z.gtb_ltb in *;
  repeat match goal with
         | H : Z.ltb _ _ = true |- _ => apply Z.ltb_lt in H
         | H : Z.ltb _ _ = false |- _ => apply Z.ltb_ge in H
         | |- Z.ltb _ _ = true => apply Z.ltb_lt
         | |- Z.ltb _ _ = false => apply Z.ltb_ge
         end;
  lia.

Lemma lm_lt_asym a b : lm_lt a b = true -> lm_lt b a = false.
Proof. lm_solve. Qed.

Lemma lm_lt_trans a b c : lm_lt a b = true -> lm_lt b c = true -> lm_lt a c = true.
Proof. lm_solve. Qed.

Lemma lm_lt_negtrans a b c : lm_lt a b = false -> lm_lt b c = false -> lm_lt a c = false.
Proof. lm_solve. Qed.

Lemma sort_incremental l l' : ssort lm_lt (ssort lm_lt l ++ l') = ssort lm_lt (l ++ l').
Proof. apply sort_incremental_gen; [exact lm_lt_asym|exact lm_lt_trans]. Qed.

Lemma ssort_lm_is_stable_sort l :
  Permutation (ssort lm_lt l) l
  /\ StronglySorted (fun a b => lm_lt b a = false) (ssort lm_lt l)
  /\ forall a, filter (eqv lm_lt a) (ssort lm_lt l) = filter (eqv lm_lt a) l.
Proof.
  split; [apply ssort_perm|split].
  - apply (ssort_sorted lm_lt lm_lt_asym lm_lt_negtrans).
  - intros a. apply (ssort_stable lm_lt lm_lt_negtrans).
Qed.

(* ------------------------------------------------------------------------------------------------------------ *)
(** Refinement *)
Section Refine.
  Variable scratch : Type.
  Variable empty_scratch : scratch.
  Variable result : Type.
  Variable engine_raw : scratch -> list locmin -> bool -> opts -> clip_type -> fill_rule -> exec_kind -> result * scratch.

  Notation cstate := (cstate scratch result).
  Notation cstep := (cstep scratch empty_scratch result engine_raw).
  Notation run_sm := (run_sm scratch empty_scratch result engine_raw).
  Notation c_init := (c_init scratch empty_scratch result).
  Notation engine := (engine scratch empty_scratch result engine_raw).

  Definition S := ssort lm_lt.

  (* what relates the used object to "the paths since the last Clear and the current options" *)
  Record inv (s : cstate) (a : astate) : Prop := mkInv {
    inv_scratch : c_scratch _ _ s = empty_scratch;
    inv_opts : c_opts _ _ s = a_opts a;
    inv_open : c_has_open _ _ s = has_open a;
    inv_sort : S (c_minima _ _ s) = S (minima a);
    inv_cache : c_sorted _ _ s = true -> c_minima _ _ s = S (c_minima _ _ s);
    inv_adds : forallb is_add (a_adds a) = true }.

  Lemma S_app_congr l1 l2 l' : S l1 = S l2 -> S (l1 ++ l') = S (l2 ++ l').
  Proof. apply ssort_app_congr; [exact lm_lt_asym|exact lm_lt_trans]. Qed.

  Lemma minima_snoc a o : minima (mkA (a_adds a ++ [o]) (a_opts a)) = minima a ++ op_minima o.
  Proof. unfold minima. cbn [a_adds]. rewrite flat_map_app. cbn [flat_map]. rewrite app_nil_r. reflexivity. Qed.

  Lemma has_open_snoc a o : has_open (mkA (a_adds a ++ [o]) (a_opts a)) = has_open a || op_sets_open o.
  Proof. unfold has_open. cbn [a_adds]. rewrite existsb_app. cbn [existsb]. rewrite orb_false_r. reflexivity. Qed.

  Lemma adds_snoc a o : forallb is_add (a_adds a) = true -> is_add o = true -> forallb is_add (a_adds a ++ [o]) = true.
  Proof. intros H1 H2. rewrite forallb_app, H1. cbn [forallb]. rewrite H2. reflexivity. Qed.

  Lemma inv_init : inv c_init a_init.
  Proof. constructor; cbn; first [reflexivity|discriminate]. Qed.

  Lemma inv_step s a o : inv s a -> inv (cstep s o) (astep a o).
  Proof.
    intros [Hsc Hop Hopen Hsort Hcache Hadds].
    destruct o as [ps|ps|ps|c|b|b|ct fr k|]; cbn [cstep astep add_paths].
    - (* AddSubject *)
      constructor; cbn [c_scratch c_opts c_has_open c_minima c_sorted a_opts]; auto.
      + rewrite has_open_snoc. cbn [op_sets_open]. rewrite orb_false_r. exact Hopen.
      + rewrite minima_snoc. apply S_app_congr. exact Hsort.
      + discriminate.
      + apply adds_snoc; [exact Hadds|reflexivity].
    - (* AddOpenSubject *)
      constructor; cbn [c_scratch c_opts c_has_open c_minima c_sorted a_opts]; auto.
      + rewrite has_open_snoc. cbn [op_sets_open]. rewrite orb_true_r. reflexivity.
      + rewrite minima_snoc. apply S_app_congr. exact Hsort.
      + discriminate.
      + apply adds_snoc; [exact Hadds|reflexivity].
    - (* AddClip *)
      constructor; cbn [c_scratch c_opts c_has_open c_minima c_sorted a_opts]; auto.
      + rewrite has_open_snoc. cbn [op_sets_open]. rewrite orb_false_r. exact Hopen.
      + rewrite minima_snoc. apply S_app_congr. exact Hsort.
      + discriminate.
      + apply adds_snoc; [exact Hadds|reflexivity].
    - (* AddReuseableData *)
      constructor; cbn [c_scratch c_opts c_has_open c_minima c_sorted a_opts]; auto.
      + rewrite has_open_snoc. cbn [op_sets_open]. rewrite Hopen. reflexivity.
      + rewrite minima_snoc. cbn [op_minima]. apply S_app_congr. exact Hsort.
      + discriminate.
      + apply adds_snoc; [exact Hadds|reflexivity].
    - (* SetPreserveCollinear *)
      constructor; cbn [c_scratch c_opts c_has_open c_minima c_sorted a_opts a_adds]; auto.
      rewrite Hop. reflexivity.
    - (* SetReverseSolution *)
      constructor; cbn [c_scratch c_opts c_has_open c_minima c_sorted a_opts a_adds]; auto.
      rewrite Hop. reflexivity.
    - (* Execute *)
      destruct (engine_raw _ _ _ _ _ _ _) as [r dirty].
      constructor; cbn [clean_up reset c_scratch c_opts c_has_open c_minima c_sorted a_opts a_adds]; auto.
      + destruct (c_sorted _ _ s); [exact Hsort|].
        unfold S in *. rewrite ssort_idem; [exact Hsort|exact lm_lt_asym|exact lm_lt_trans].
      + intros _. destruct (c_sorted _ _ s) eqn:E; [apply Hcache; reflexivity|].
        unfold S. symmetry. apply ssort_idem; [exact lm_lt_asym|exact lm_lt_trans].
    - (* Clear *)
      constructor; cbn [c_scratch c_opts c_has_open c_minima c_sorted a_opts a_adds]; auto; try discriminate.
  Qed.

  Lemma inv_run h : inv (run_sm h) (abs h).
  Proof.
    unfold ObjectSM.run_sm, abs.
    induction h as [|o h IH] using rev_ind; [apply inv_init|].
    rewrite !fold_left_app. cbn [fold_left]. apply inv_step. exact IH.
  Qed.

  (* the minima list the sweep starts from after Reset *)
  Lemma reset_minima s a : inv s a -> c_minima _ _ (reset _ _ s) = S (minima a).
  Proof.
    intros [_ _ _ Hsort Hcache _]. cbn [reset c_minima].
    destruct (c_sorted _ _ s) eqn:E; [rewrite (Hcache eq_refl)|]; exact Hsort.
  Qed.

  Theorem refines h ct fr k :
    c_last _ _ (run_sm (h ++ [Execute ct fr k]))
    = Some (engine (ssort lm_lt (minima (abs h))) (has_open (abs h)) (a_opts (abs h)) ct fr k).
  Proof.
    unfold ObjectSM.run_sm. rewrite fold_left_app. cbn [fold_left].
    pose proof (inv_run h) as I. unfold ObjectSM.run_sm in I.
    set (s := fold_left cstep h c_init) in *.
    cbn [cstep]. rewrite (reset_minima s (abs h) I).
    cbn [reset c_scratch c_has_open c_opts].
    destruct I as [Hsc Hop Hopen _ _ _]. rewrite Hsc, Hop, Hopen.
    unfold ObjectSM.engine, S.
    destruct (engine_raw _ _ _ _ _ _ _) as [r dirty]. reflexivity.
  Qed.

  (* ... which is what a fresh object returns when it is given the same paths and options *)
  Lemma abs_adds_only l a : forallb is_add l = true -> fold_left astep l a = mkA (a_adds a ++ l) (a_opts a).
  Proof.
    revert a. induction l as [|o l IH]; intros a H; cbn [fold_left].
    - rewrite app_nil_r. destruct a; reflexivity.
    - cbn [forallb] in H. apply andb_true_iff in H. destruct H as [Ho Hl].
      rewrite (IH _ Hl). destruct o; try discriminate; cbn [astep a_adds a_opts]; rewrite <- app_assoc; reflexivity.
  Qed.

  Lemma abs_fresh a :
    forallb is_add (a_adds a) = true ->
    abs (SetPreserveCollinear (o_preserve_collinear (a_opts a)) :: SetReverseSolution (o_reverse_solution (a_opts a)) :: a_adds a) = a.
  Proof.
    intros H. unfold abs. cbn [fold_left astep a_init a_adds a_opts o_reverse_solution o_preserve_collinear default_opts].
    rewrite (abs_adds_only _ _ H). cbn [a_adds a_opts app]. destruct a as [ad [pc rs]]; reflexivity.
  Qed.

  Theorem fresh_equiv h ct fr k :
    c_last _ _ (run_sm (h ++ [Execute ct fr k])) = c_last _ _ (run_sm (fresh_history (abs h) ct fr k)).
  Proof.
    rewrite refines. unfold fresh_history.
    change (?x :: ?y :: ?l ++ [?e]) with ((x :: y :: l) ++ [e]).
    rewrite refines, abs_fresh; [reflexivity|]. apply (inv_adds _ _ (inv_run h)).
  Qed.
End Refine.

(* ------------------------------------------------------------------------------------------------------------ *)
(** RectClip64 *)
Section RectFacts.
  Variables (path out scratch : Type).
  Variable empty : scratch.
  Variable skip : path -> option (list out).
  Variable clip : scratch -> path -> list out * scratch.
  Notation step := (rect_step path out scratch empty skip clip).

  Lemma rect_fold acc ps :
    fold_left step ps (acc, empty) = (acc ++ fst (fold_left step ps ([], empty)), empty).
  Proof.
    revert acc. induction ps as [|p ps IH]; intros acc; cbn [fold_left].
    - cbn [fst]. rewrite app_nil_r. reflexivity.
    - unfold rect_step at 2 4. cbn [fst snd].
      destruct (skip p) as [o|].
      + rewrite (IH (acc ++ o)), (IH ([] ++ o)). cbn [fst app]. rewrite app_assoc. reflexivity.
      + destruct (clip empty p) as [o s']. rewrite (IH (acc ++ o)), (IH ([] ++ o)). cbn [fst app].
        rewrite app_assoc. reflexivity.
  Qed.

  Lemma rect_leaves_empty ps : snd (rect_execute_from path out scratch empty skip clip empty ps) = empty.
  Proof. unfold rect_execute_from. rewrite rect_fold. reflexivity. Qed.

  Theorem rect_stateless ps qs :
    rect_execute path out scratch empty skip clip (ps ++ qs)
    = rect_execute path out scratch empty skip clip ps ++ rect_execute path out scratch empty skip clip qs.
  Proof.
    unfold rect_execute, rect_execute_from. rewrite fold_left_app, (rect_fold _ ps). cbn [app].
    rewrite (rect_fold _ qs). reflexivity.
  Qed.

  (* any sequence of calls on one object = each call on a fresh object *)
  Theorem rect_object_reuse calls :
    rect_calls path out scratch empty skip clip empty calls
    = map (rect_execute path out scratch empty skip clip) calls.
  Proof.
    induction calls as [|ps rest IH]; cbn [rect_calls map]; [reflexivity|].
    pose proof (rect_leaves_empty ps) as He. unfold rect_execute.
    destruct (rect_execute_from _ _ _ _ _ _ empty ps) as [o s'] eqn:E. cbn [snd fst] in *. subst s'.
    rewrite IH. reflexivity.
  Qed.
End RectFacts.
