(* Proofs about model/RingFinal.v (property C03): the structural clause for all rings and all behaviours of the
   double-precision leaves (under the one hypothesis on SegmentsIntersect that the theorem names), its refutation
   without that hypothesis, and termination of CleanCollinear's loop. *)
From Clip Require Import base.Geom base.FloatModel model.RingFinal.
From Clip Require proofs.WfGeom.
From Coq Require Import ZArith List Bool Floats Lia.
Import ListNotations.
Local Open Scope Z_scope.

(* ---------------------------------------------------------------- adjacent duplicates: list lemmas *)
Lemma pt_eqb_sym a b : pt_eqb a b = pt_eqb b a.
Proof.
  destruct (pt_eqb a b) eqn:E.
  - apply pt_eqb_eq in E. subst. symmetry. apply pt_eqb_refl.
  - symmetry. apply pt_eqb_neq. apply pt_eqb_neq in E. congruence.
Qed.

Lemma no_adj_dup_cons2 a b l : no_adj_dup (a :: b :: l) = negb (pt_eqb a b) && no_adj_dup (b :: l).
Proof. reflexivity. Qed.

Lemma no_adj_dup_tail a l : no_adj_dup (a :: l) = true -> no_adj_dup l = true.
Proof. destruct l as [|b l]; [reflexivity|]. rewrite no_adj_dup_cons2. intros H. apply andb_true_iff in H. tauto. Qed.

(* no_adj_dup (l1 ++ x :: l2) splits at x *)
Lemma no_adj_dup_app l1 x l2 :
  no_adj_dup (l1 ++ x :: l2) = no_adj_dup (l1 ++ [x]) && no_adj_dup (x :: l2).
Proof.
  induction l1 as [|a l1 IH]; [reflexivity|].
  destruct l1 as [|b l1].
  - cbn [app]. rewrite !no_adj_dup_cons2. cbn [no_adj_dup]. rewrite andb_true_r. reflexivity.
  - change ((a :: b :: l1) ++ x :: l2) with (a :: (b :: l1) ++ x :: l2).
    change ((a :: b :: l1) ++ [x]) with (a :: (b :: l1) ++ [x]).
    cbn [app] in *. rewrite !no_adj_dup_cons2. rewrite IH. rewrite andb_assoc. reflexivity.
Qed.

Lemma no_adj_dup_rev l : no_adj_dup (rev l) = no_adj_dup l.
Proof.
  induction l as [|a l IH]; [reflexivity|].
  destruct l as [|b l]; [reflexivity|].
  change (rev (a :: b :: l)) with (rev (b :: l) ++ [a]).
  replace (rev (b :: l) ++ [a]) with (rev l ++ b :: [a]) by (cbn [rev]; rewrite <- app_assoc; reflexivity).
  rewrite no_adj_dup_app. change (rev l ++ [b]) with (rev (b :: l)). rewrite IH.
  rewrite no_adj_dup_cons2. cbn [no_adj_dup]. rewrite andb_true_r, andb_comm, (pt_eqb_sym b a). reflexivity.
Qed.

(* rotation and reversal invariance of no_cyc_dup *)
Lemma no_cyc_dup_rot a t : no_cyc_dup (t ++ [a]) = no_cyc_dup (a :: t).
Proof.
  unfold no_cyc_dup. destruct t as [|b t]; [reflexivity|].
  cbn [app].
  replace (b :: (t ++ [a]) ++ [b]) with ((b :: t) ++ a :: [b]) by (cbn [app]; rewrite <- app_assoc; reflexivity).
  rewrite no_adj_dup_app.
  rewrite (no_adj_dup_cons2 a b (t ++ [a])).
  cbn [app]. rewrite (no_adj_dup_cons2 a b []). cbn [no_adj_dup]. rewrite andb_true_r.
  apply andb_comm.
Qed.

Lemma no_cyc_dup_rot1 l : no_cyc_dup (rot1 l) = no_cyc_dup l.
Proof. destruct l as [|a t]; [reflexivity|]. apply no_cyc_dup_rot. Qed.

Lemma rotn_S k a t : rotn (S k) (a :: t) = rotn k (t ++ [a]) \/ (length t < k)%nat.
Proof.
  destruct (Nat.le_gt_cases k (length t)) as [Hle|Hgt]; [left|right; exact Hgt].
  unfold rotn. cbn [skipn firstn].
  rewrite skipn_app, firstn_app.
  replace (k - length t)%nat with 0%nat by lia. cbn [skipn firstn]. rewrite app_nil_r, <- app_assoc. reflexivity.
Qed.

Lemma rotn_all k (l : list pt) : (length l <= k)%nat -> rotn k l = l.
Proof. intros H. unfold rotn. rewrite skipn_all2, firstn_all2 by exact H. reflexivity. Qed.

Lemma no_cyc_dup_rotn k : forall l, no_cyc_dup (rotn k l) = no_cyc_dup l.
Proof.
  induction k as [|k IH]; intros l.
  - unfold rotn. cbn [skipn firstn]. rewrite app_nil_r. reflexivity.
  - destruct l as [|a t]; [reflexivity|].
    destruct (rotn_S k a t) as [E|Hlt].
    + rewrite E, IH. apply no_cyc_dup_rot.
    + rewrite rotn_all by (cbn [length]; lia). reflexivity.
Qed.

Lemma no_cyc_dup_rev_cons a t : no_cyc_dup (a :: rev t) = no_cyc_dup (a :: t).
Proof.
  unfold no_cyc_dup.
  replace ((a :: rev t) ++ [a]) with (rev ((a :: t) ++ [a])).
  - apply no_adj_dup_rev.
  - rewrite rev_app_distr. cbn [rev app]. reflexivity.
Qed.

Lemma length_rotn k (l : list pt) : length (rotn k l) = length l.
Proof. unfold rotn. rewrite app_length, Nat.add_comm, <- app_length, firstn_skipn. reflexivity. Qed.

(* ---------------------------------------------------------------- dedup is the identity without adjacent duplicates *)
Lemma dedup_from_id a l : no_adj_dup (a :: l) = true -> dedup_from a l = l.
Proof.
  revert a; induction l as [|b l IH]; intros a H; [reflexivity|].
  rewrite no_adj_dup_cons2 in H. apply andb_true_iff in H. destruct H as [Hab Hl].
  cbn [dedup_from]. rewrite pt_eqb_sym. apply negb_true_iff in Hab. rewrite Hab. f_equal. apply IH, Hl.
Qed.

Lemma dedup_id l : no_adj_dup l = true -> dedup l = l.
Proof. destruct l as [|a l]; [reflexivity|]. intros H. cbn [dedup]. f_equal. apply dedup_from_id, H. Qed.

Lemma no_cyc_dup_no_adj l : no_cyc_dup l = true -> no_adj_dup l = true.
Proof.
  destruct l as [|a t]; [reflexivity|]. unfold no_cyc_dup. intros H.
  destruct t as [|b t]; [reflexivity|].
  change ((a :: b :: t) ++ [a]) with ((a :: b :: removelast (b :: t)) ++ [last (b :: t) a] ++ [a]) in H || idtac.
  assert (E : (a :: b :: t) ++ [a] = (a :: removelast (b :: t)) ++ last (b :: t) a :: [a]).
  { rewrite (app_removelast_last (l := b :: t) a) at 1 by discriminate.
    cbn [app]. rewrite <- app_assoc. reflexivity. }
  rewrite E, no_adj_dup_app in H. apply andb_true_iff in H. destruct H as [H _].
  rewrite (app_removelast_last (l := b :: t) a) at 1 by discriminate. exact H.
Qed.

(* ---------------------------------------------------------------- BuildPath64 *)
Definition good (p : path) : Prop := (3 <= length p)%nat /\ no_cyc_dup p = true.

Lemma build_path_good reverse l out :
  no_cyc_dup l = true -> build_path reverse false l = Some out -> good out.
Proof.
  intros Hnd H. unfold build_path in H.
  destruct l as [|a t]; [discriminate|]. destruct t as [|b t]; [discriminate|].
  cbn [negb andb] in H.
  destruct (length (a :: b :: t) =? 2)%nat eqn:E2; [discriminate|].
  apply Nat.eqb_neq in E2.
  set (sq := if reverse then a :: rev (b :: t) else (b :: t) ++ [a]) in H.
  assert (Hsq : no_cyc_dup sq = true /\ length sq = length (a :: b :: t)).
  { subst sq. destruct reverse.
    - rewrite no_cyc_dup_rev_cons. split; [exact Hnd|]. cbn [length]. rewrite rev_length. reflexivity.
    - rewrite no_cyc_dup_rot. split; [exact Hnd|]. rewrite app_length. cbn [length]. lia. }
  destruct Hsq as [Hsq Hlen].
  rewrite (dedup_id sq) in H by (apply no_cyc_dup_no_adj, Hsq).
  destruct ((length sq =? 3)%nat && (length (a :: b :: t) =? 3)%nat &&
            small3 (r_at (a :: b :: t) 0) (r_at (a :: b :: t) 1) (r_at (a :: b :: t) 2)); [discriminate|].
  inversion H; subst out. split; [|exact Hsq]. rewrite Hlen. cbn [length] in *. lia.
Qed.

(* ---------------------------------------------------------------- CleanCollinear's loop *)
Section Clean.
  Variable dot_neg : pt -> pt -> pt -> bool.
  Variable pc : bool.

  Lemma collinear_eq_l a b : collinear a a b = true.
  Proof. unfold collinear, cross. apply Z.eqb_eq. ring. Qed.
  Lemma collinear_eq_r a b : collinear a b b = true.
  Proof. unfold collinear, cross. apply Z.eqb_eq. ring. Qed.

  (* a node that is kept differs from its successor *)
  Lemma kept_neq prev cur nx : removable dot_neg pc prev cur nx = false -> pt_eqb cur nx = false.
  Proof.
    unfold removable. intros H. destruct (pt_eqb cur nx) eqn:E; [|reflexivity].
    apply pt_eqb_eq in E. subst nx. rewrite collinear_eq_r in H. cbn [andb] in H.
    rewrite orb_true_r in H. cbn [orb] in H. discriminate.
  Qed.

  (* cyclic successor pairs: (x0,x1) ... (x_{n-1},x0) *)
  Definition cpairs (l : list pt) : list (pt * pt) := combine l (rot1 l).
  Definition neqp (e : pt * pt) : bool := negb (pt_eqb (fst e) (snd e)).

  Lemma cpairs_cons a t : cpairs (a :: t) = combine (a :: t) (t ++ [a]).
  Proof. reflexivity. Qed.

  Lemma combine_snoc {A B} (l1 : list A) (l2 : list B) x y :
    length l1 = length l2 -> combine (l1 ++ [x]) (l2 ++ [y]) = combine l1 l2 ++ [(x, y)].
  Proof.
    revert l2; induction l1 as [|a l1 IH]; intros [|b l2] H; try discriminate; [reflexivity|].
    cbn [app combine]. f_equal. apply IH. cbn [length] in H. lia.
  Qed.

  (* rotating the ring rotates its successor pairs *)
  Lemma cpairs_rot a t : cpairs (t ++ [a]) = match cpairs (a :: t) with [] => [] | e :: r => r ++ [e] end.
  Proof.
    destruct t as [|b t]; [reflexivity|].
    rewrite cpairs_cons. cbn [combine app].
    unfold cpairs. cbn [rot1].
    change (b :: t ++ [a]) with ((b :: t) ++ [a]).
    rewrite (combine_snoc (b :: t) (t ++ [a]) a b) by (rewrite app_length; cbn [length]; lia).
    reflexivity.
  Qed.

  Lemma length_cpairs l : length (cpairs l) = length l.
  Proof.
    unfold cpairs. rewrite combine_length. destruct l as [|a t]; [reflexivity|].
    cbn [rot1]. rewrite app_length. cbn [length]. lia.
  Qed.

  (* all successor pairs differ -> no cyclic duplicate *)
  Lemma adj_pairs u x : no_adj_dup (x :: u) = forallb neqp (combine (x :: u) u).
  Proof.
    revert x; induction u as [|y u IH]; intros x; [reflexivity|].
    rewrite no_adj_dup_cons2, IH. reflexivity.
  Qed.

  Lemma combine_trunc {A B} (l1 : list A) (l2 : list B) extra :
    length l1 = length l2 -> combine (l1 ++ extra) l2 = combine l1 l2.
  Proof.
    revert l2; induction l1 as [|a l1 IH]; intros [|b l2] H; try discriminate.
    - destruct extra; reflexivity.
    - cbn [app combine]. f_equal. apply IH. cbn [length] in H. lia.
  Qed.

  Lemma cpairs_no_cyc_dup l : forallb neqp (cpairs l) = true -> no_cyc_dup l = true.
  Proof.
    destruct l as [|a t]; [reflexivity|]. intros H. unfold no_cyc_dup.
    change ((a :: t) ++ [a]) with (a :: (t ++ [a])). rewrite adj_pairs.
    change (a :: t ++ [a]) with ((a :: t) ++ [a]).
    rewrite combine_trunc by (rewrite app_length; cbn [length]; lia).
    exact H.
  Qed.

  (* invariant: the last k successor pairs (those of the k nodes accepted since the last removal) differ *)
  Definition inv (l : list pt) (k : nat) : Prop :=
    (k < length l)%nat /\ forallb neqp (skipn (length l - k) (cpairs l)) = true.

  Lemma skipn_rot {A} (e : A) r j : (j <= length r)%nat -> skipn j (r ++ [e]) = skipn j r ++ [e].
  Proof. intros H. rewrite skipn_app. replace (j - length r)%nat with 0%nat by lia. reflexivity. Qed.

  Lemma valid_closed_len l : valid_closed l = true -> (3 <= length l)%nat.
  Proof.
    destruct l as [|a [|b [|c l]]]; cbn [valid_closed length]; intros H; try discriminate; lia.
  Qed.

  Lemma cpairs_head cur rest : exists r, cpairs (cur :: rest) = (cur, hd cur rest) :: r /\ length r = length rest.
  Proof.
    rewrite cpairs_cons. destruct rest as [|b rest].
    - exists []. split; reflexivity.
    - cbn [combine app hd]. exists (combine (b :: rest) (rest ++ [cur])). split; [reflexivity|].
      rewrite combine_length, app_length. cbn [length]. lia.
  Qed.

  Lemma clean_loop_post fuel : forall l p k r,
    inv l k -> clean_loop dot_neg pc fuel l p k = Ok (Some r) -> no_cyc_dup (fst r) = true.
  Proof.
    induction fuel as [|f IH]; intros l p k r Hinv H; [discriminate|].
    cbn [clean_loop] in H. destruct l as [|cur rest]; [discriminate|].
    destruct Hinv as [Hk Hall].
    destruct (removable dot_neg pc (last rest cur) cur (hd cur rest)) eqn:Erem.
    - destruct (valid_closed rest) eqn:Ev; [|discriminate].
      eapply IH; [|exact H]. split.
      + apply valid_closed_len in Ev. lia.
      + rewrite Nat.sub_0_r, skipn_all2 by (rewrite length_cpairs; lia). reflexivity.
    - apply kept_neq in Erem.
      destruct (cpairs_head cur rest) as [rr [Ecp Hlen]].
      assert (Hrot : cpairs (rest ++ [cur]) = rr ++ [(cur, hd cur rest)]).
      { rewrite cpairs_rot, Ecp. reflexivity. }
      assert (He : neqp (cur, hd cur rest) = true).
      { unfold neqp. cbn [fst snd]. rewrite Erem. reflexivity. }
      cbn [length] in Hk, Hall.
      rewrite Ecp in Hall.
      replace (S (length rest) - k)%nat with (S (length rest - k)) in Hall by lia.
      cbn [skipn] in Hall.
      destruct (S k =? length (cur :: rest))%nat eqn:Ek.
      + inversion H; subst r. cbn [fst].
        apply cpairs_no_cyc_dup. rewrite Hrot, forallb_app. cbn [forallb]. rewrite He, andb_true_r.
        apply Nat.eqb_eq in Ek. cbn [length] in Ek.
        replace (length rest - k)%nat with 0%nat in Hall by lia. exact Hall.
      + apply Nat.eqb_neq in Ek. cbn [length] in Ek.
        eapply IH; [|exact H]. split.
        * rewrite app_length. cbn [length]. lia.
        * rewrite app_length. cbn [length]. rewrite Hrot.
          replace (length rest + 1 - S k)%nat with (length rest - k)%nat by lia.
          rewrite skipn_rot by lia. rewrite forallb_app. cbn [forallb]. rewrite He, Hall. reflexivity.
  Qed.

  Lemma inv_start l : valid_closed l = true -> inv l 0.
  Proof.
    intros H. apply valid_closed_len in H. split; [lia|].
    rewrite Nat.sub_0_r, skipn_all2 by (rewrite length_cpairs; lia). reflexivity.
  Qed.

  (* termination: Phi(n,k) = n^2 + n - k strictly decreases *)
  Lemma clean_loop_terminates fuel : forall l p k,
    (k < length l)%nat -> (length l * length l + length l - k < fuel)%nat ->
    clean_loop dot_neg pc fuel l p k <> Fuel /\ clean_loop dot_neg pc fuel l p k <> UB.
  Proof.
    induction fuel as [|f IH]; intros l p k Hk Hf; [lia|].
    cbn [clean_loop]. destruct l as [|cur rest]; [cbn [length] in Hk; lia|].
    cbn [length] in *.
    destruct (removable dot_neg pc (last rest cur) cur (hd cur rest)).
    - destruct (valid_closed rest) eqn:Ev; [|split; discriminate].
      apply valid_closed_len in Ev. apply IH; [lia|nia].
    - destruct (S k =? S (length rest))%nat eqn:Ek; [split; discriminate|].
      apply Nat.eqb_neq in Ek. apply IH; rewrite app_length; cbn [length]; [lia|nia].
  Qed.
End Clean.

(* ---------------------------------------------------------------- FixSelfIntersects / DoSplitOp *)
Lemma r_at_small l i : (i < length l)%nat -> r_at l i = nth i l dpt.
Proof. intros H. unfold r_at. rewrite Nat.mod_small by exact H. reflexivity. Qed.

Lemma nth_last (l : list pt) d : nth (length l - 1) l d = last l d.
Proof.
  induction l as [|a l IH]; [reflexivity|].
  destruct l as [|b l]; [reflexivity|].
  replace (length (a :: b :: l) - 1)%nat with (S (length (b :: l) - 1)) by (cbn [length]; lia).
  change (last (a :: b :: l) d) with (last (b :: l) d).
  cbn [nth]. exact IH.
Qed.

Section Fsi.
  Variable seg_isect : pt -> pt -> pt -> pt -> bool.
  Variable isect_pt : pt -> pt -> pt -> pt -> pt.
  Variable area_ring : list pt -> float.
  Variable area_tri : pt -> pt -> pt -> float.

  (* the one property of SegmentsIntersect the structural clause rests on: segments that share an end point are
     never reported as intersecting *)
  Definition leaf_ok : Prop :=
    forall a b c d, seg_isect a b c d = true -> a <> c /\ a <> d /\ b <> c /\ b <> d.

  Hypothesis Hsi : leaf_ok.

  (* an intersection can only be reported on a ring of at least 4 nodes *)
  Lemma isect_shape l :
    seg_isect (r_at l (length l - 1)) (r_at l 0) (r_at l 1) (r_at l 2) = true ->
    exists c x y rest, l = c :: x :: y :: rest /\ rest <> [] /\
      r_at l (length l - 1) = last rest dpt /\ r_at l 0 = c /\ r_at l 1 = x /\ r_at l 2 = y /\
      last rest dpt <> x /\ last rest dpt <> y /\ c <> x /\ c <> y.
  Proof.
    intros H. pose proof (Hsi _ _ _ _ H) as [H1 [H2 [H3 H4]]].
    destruct l as [|c [|x [|y [|z rest]]]].
    - exfalso. apply H1. reflexivity.
    - exfalso. apply H1. reflexivity.
    - exfalso. apply H1. reflexivity.
    - exfalso. apply H2. reflexivity.
    - exists c, x, y, (z :: rest).
      assert (Hl : (4 <= length (c :: x :: y :: z :: rest))%nat) by (cbn [length]; lia).
      rewrite !r_at_small in * by lia.
      rewrite nth_last in *.
      change (last (c :: x :: y :: z :: rest) dpt) with (last (z :: rest) dpt) in *.
      cbn [nth] in *.
      repeat split; try assumption; discriminate.
  Qed.

  Lemma no_cyc_dup_parts c x y rest :
    rest <> [] -> no_cyc_dup (c :: x :: y :: rest) = true ->
    no_adj_dup (y :: removelast rest ++ [last rest dpt]) = true.
  Proof.
    intros Hne H. unfold no_cyc_dup in H.
    rewrite (app_removelast_last dpt Hne) in H.
    change ((c :: x :: y :: removelast rest ++ [last rest dpt]) ++ [c])
      with ([c; x] ++ y :: ((removelast rest ++ [last rest dpt]) ++ [c])) in H.
    rewrite no_adj_dup_app in H. apply andb_true_iff in H. destruct H as [_ H].
    rewrite <- app_assoc in H. cbn [app] in H.
    change (y :: removelast rest ++ [last rest dpt; c]) with ((y :: removelast rest) ++ last rest dpt :: [c]) in H.
    rewrite no_adj_dup_app in H. apply andb_true_iff in H. destruct H as [H _]. exact H.
  Qed.

  Lemma micro_ok c x y rest :
    rest <> [] -> no_cyc_dup (c :: x :: y :: rest) = true -> c <> y -> last rest dpt <> y ->
    no_cyc_dup ((c :: x :: y :: rest) ++ [y]) = true.
  Proof.
    intros Hne Hnd Hcy Hpy. rewrite no_cyc_dup_rot. unfold no_cyc_dup.
    change ((y :: c :: x :: y :: rest) ++ [y]) with (y :: ((c :: x :: y :: rest) ++ [y])).
    change ((c :: x :: y :: rest) ++ [y]) with (c :: ((x :: y :: rest) ++ [y])) at 1.
    rewrite no_adj_dup_cons2.
    change (c :: (x :: y :: rest) ++ [y]) with ((c :: x :: y :: rest) ++ [y]).
    rewrite (WfGeom.no_adj_dup_snoc (c :: x :: y :: rest) y) by discriminate.
    rewrite (no_cyc_dup_no_adj _ Hnd).
    assert (Elast : last (c :: x :: y :: rest) y = last rest dpt).
    { destruct rest as [|z rest]; [contradiction|].
      change (last (c :: x :: y :: z :: rest) y) with (last (z :: rest) y).
      apply WfGeom.last_indep. discriminate. }
    rewrite Elast.
    assert (A : pt_eqb y c = false) by (apply pt_eqb_neq; congruence).
    assert (B : pt_eqb (last rest dpt) y = false) by (apply pt_eqb_neq; exact Hpy).
    rewrite A, B. reflexivity.
  Qed.

  Lemma fsi_loop_post fuel : forall l p news r news',
    no_cyc_dup l = true -> fsi_loop seg_isect isect_pt area_ring area_tri fuel l p news = Ok (Some r, news') ->
    no_cyc_dup r = true.
  Proof.
    induction fuel as [|f IH]; intros l p news r news' Hnd H; [discriminate|].
    cbn [fsi_loop] in H.
    destruct (seg_isect (r_at l (length l - 1)) (r_at l 0) (r_at l 1) (r_at l 2)) eqn:E1.
    - destruct (isect_shape l E1) as (c & x & y & rest & El & Hne & Ep & E0 & Ex & Ey & Hpx & Hpy & Hcx & Hcy).
      destruct (seg_isect (r_at l (length l - 1)) (r_at l 0) (r_at l 2) (r_at l 3)) eqn:E2.
      + (* micro self-intersection: the ring grows by the point three ahead *)
        assert (Enew : r_at (r_at l 0 :: l) 3 = y).
        { rewrite r_at_small by (subst l; destruct rest; [contradiction|cbn [length]; lia]).
          subst l. reflexivity. }
        rewrite Enew in H.
        assert (Hnd2 : no_cyc_dup (l ++ [y]) = true).
        { subst l. apply micro_ok; assumption. }
        destruct (p =? 0)%nat.
        * inversion H; subst. exact Hnd2.
        * eapply IH; [exact Hnd2|exact H].
      + (* DoSplitOp *)
        rewrite Ep in H. subst l.
        destruct rest as [|z rest']; [contradiction|].
        set (rest := z :: rest') in *.
        destruct (PrimFloat.ltb (PrimFloat.abs (area_ring (last rest dpt :: removelast (c :: x :: y :: rest)))) 2); [discriminate|].
        pose proof (no_cyc_dup_parts c x y rest Hne Hnd) as Hmid.
        set (ip := isect_pt (last rest dpt) c x y) in *.
        set (kept := if pt_eqb ip (last rest dpt) || pt_eqb ip y
                     then last rest dpt :: y :: removelast rest
                     else last rest dpt :: ip :: y :: removelast rest) in *.
        assert (Hk : no_cyc_dup kept = true).
        { subst kept. destruct (pt_eqb ip (last rest dpt) || pt_eqb ip y) eqn:Eg.
          - unfold no_cyc_dup. cbn [app]. rewrite no_adj_dup_cons2, Hmid.
            assert (A : pt_eqb (last rest dpt) y = false) by (apply pt_eqb_neq; exact Hpy).
            rewrite A. reflexivity.
          - apply orb_false_iff in Eg. destruct Eg as [Eg1 Eg2].
            unfold no_cyc_dup. cbn [app]. rewrite !no_adj_dup_cons2, Hmid.
            rewrite (pt_eqb_sym (last rest dpt) ip), Eg1, Eg2. reflexivity. }
        destruct (length kept =? 3)%nat.
        * inversion H; subst. exact Hk.
        * eapply IH; [exact Hk|exact H].
    - (* advance *)
      assert (Hr : no_cyc_dup (rot1 l) = true) by (rewrite no_cyc_dup_rot1; exact Hnd).
      destruct ((if (p =? 0)%nat then (length l - 1)%nat else (p - 1)%nat) =? 0)%nat.
      + inversion H; subst. exact Hr.
      + eapply IH; [exact Hr|exact H].
  Qed.

  Lemma fix_self_intersects_post fuel l r news :
    no_cyc_dup l = true -> fix_self_intersects seg_isect isect_pt area_ring area_tri fuel l = Ok (Some r, news) ->
    no_cyc_dup r = true.
  Proof.
    unfold fix_self_intersects. intros Hnd H.
    destruct ((length l =? 3)%nat || (length l =? 1)%nat).
    - inversion H; subst. exact Hnd.
    - eapply fsi_loop_post; eassumption.
  Qed.

  Variable dot_neg : pt -> pt -> pt -> bool.
  Variable pc : bool.

  Lemma clean_collinear_post fuel l r news :
    clean_collinear seg_isect isect_pt area_ring area_tri dot_neg pc fuel l = Ok (Some r, news) ->
    no_cyc_dup r = true.
  Proof.
    unfold clean_collinear. intros H.
    destruct (valid_closed l) eqn:Ev; [|discriminate].
    destruct (clean_loop dot_neg pc fuel l 0 0) as [[[l' p']|]| |] eqn:Ec; try discriminate.
    pose proof (clean_loop_post dot_neg pc fuel l 0%nat 0%nat (l', p') (inv_start l Ev) Ec) as Hl'.
    cbn [fst] in Hl'.
    destruct (fix_self_intersects seg_isect isect_pt area_ring area_tri fuel (rotn p' l')) as [[r0 n0]| |] eqn:Ef; try discriminate.
    inversion H; subst r0. 
    eapply fix_self_intersects_post; [|exact Ef]. rewrite no_cyc_dup_rotn. exact Hl'.
  Qed.

  (* ---------------------------------------------------------------- BuildPaths64 *)
  Lemma build_loop_good fuel : forall reverse queue closed opened c o,
    Forall good closed ->
    build_loop seg_isect isect_pt area_ring area_tri dot_neg pc fuel reverse queue closed opened = Ok (c, o) ->
    Forall good c.
  Proof.
    induction fuel as [|f IH]; intros reverse queue closed opened c o Hc H; [discriminate|].
    cbn [build_loop] in H.
    destruct queue as [|[isopen l] q].
    - inversion H; subst. apply Forall_rev. exact Hc.
    - destruct isopen; destruct l as [|a l]; try (eapply IH; eassumption).
      + destruct (build_path reverse true (a :: l)); eapply IH; eassumption.
      + destruct (clean_collinear seg_isect isect_pt area_ring area_tri dot_neg pc (S f) (a :: l)) as [[r news]| |] eqn:Ec; try discriminate.
        destruct r as [ring|]; [|eapply IH; eassumption].
        destruct (build_path reverse false ring) as [pth|] eqn:Eb; [|eapply IH; eassumption].
        eapply IH; [|exact H]. constructor; [|exact Hc].
        eapply build_path_good; [|exact Eb]. eapply clean_collinear_post. exact Ec.
  Qed.

  Theorem build_paths_structural reverse fuel rings c o :
    build_paths seg_isect isect_pt area_ring area_tri dot_neg pc reverse fuel rings = Ok (c, o) -> Forall good c.
  Proof. unfold build_paths. apply build_loop_good. constructor. Qed.

  Theorem finalize_structural reverse fuel ring out :
    finalize seg_isect isect_pt area_ring area_tri dot_neg pc reverse fuel ring = Some out -> Forall good out.
  Proof.
    unfold finalize. intros H.
    destruct (build_paths seg_isect isect_pt area_ring area_tri dot_neg pc reverse fuel [(false, ring)]) as [[c o]| |] eqn:E; try discriminate.
    inversion H; subst. eapply build_paths_structural. exact E.
  Qed.
End Fsi.

(* ---------------------------------------------------------------- the leaf hypothesis cannot be dropped
   With a SegmentsIntersect that reports an intersection for two segments sharing an end point (prevOp->pt ==
   nextNextOp->pt), DoSplitOp links prevOp directly to nextNextOp (its guard `ip == prevOp->pt` skips the insertion of
   ip) and outrec->pts becomes a node equal to its successor; BuildPath64 never compares the last emitted vertex with
   the first, so the path is emitted with equal first and last vertex.  This is why C03_structural carries [leaf_ok]
   and why the check validates that hypothesis on the real SegmentsIntersect. *)
Definition bad_seg_isect (a b c d : pt) : bool :=
  pt_eqb a (0, 0) && pt_eqb b (10, 0) && pt_eqb c (10, 10) && pt_eqb d (0, 0).

Definition bad_ring : list pt := [(10, 0); (10, 10); (0, 0); (0, 10); (-5, 5); (0, 0)].

Lemma bad_seg_isect_not_leaf_ok : ~ leaf_ok bad_seg_isect.
Proof.
  intros H. destruct (H (0, 0) (10, 0) (10, 10) (0, 0) eq_refl) as [_ [H2 _]]. apply H2. reflexivity.
Qed.

Lemma structural_needs_leaf_hypothesis :
  exists seg_isect isect_pt area_ring area_tri dot_neg pc rev fuel ring out,
    finalize seg_isect isect_pt area_ring area_tri dot_neg pc rev fuel ring = Some out /\ ~ Forall good out.
Proof.
  exists bad_seg_isect, (fun a _ _ _ => a), (fun _ => 10%float), (fun _ _ _ => 0%float), (fun _ _ _ => false),
         true, false, 200%nat, bad_ring, [[(0, 0); (0, 10); (-5, 5); (0, 0)]].
  split; [vm_compute; reflexivity|].
  intros H. inversion H as [|p ps [_ Hd] _]. vm_compute in Hd. discriminate.
Qed.

(* the hypotheses of the structural theorem are satisfiable *)
Example leaf_ok_satisfiable : leaf_ok (fun _ _ _ _ => false).
Proof. intros a b c d H. discriminate. Qed.
