(* Real-number geometry behind the offset constructions (C06, C07).  These lemmas are about the exact
   (real-valued) formulas that the binary64 model OffsetGeom.v evaluates in floating point; float facts are kept
   out of this file.  Vectors are pairs of reals. *)
From Coq Require Import Reals Lra Lia Psatz.
Local Open Scope R_scope.

Definition vec := (R * R)%type.
Definition vx (v : vec) := fst v.
Definition vy (v : vec) := snd v.
Definition vadd (a b : vec) : vec := (vx a + vx b, vy a + vy b).
Definition vsub (a b : vec) : vec := (vx a - vx b, vy a - vy b).
Definition vscale (k : R) (a : vec) : vec := (k * vx a, k * vy a).
Definition vdot (a b : vec) : R := vx a * vx b + vy a * vy b.
Definition vcross (a b : vec) : R := vx a * vy b - vy a * vx b.
Definition norm2 (a : vec) : R := vdot a a.
Definition is_unit (a : vec) : Prop := norm2 a = 1.

(* ---------------------------------------------------------------- arcs *)

(* line 474: steps_per_360 = PI / acos(1 - arcTol/|delta|): with the half step angle th = acos(1 - a/r) the sagitta
   r (1 - cos th) of a chord spanning 2 th is exactly the arc tolerance a *)
Lemma arc_sagitta (a r : R) : 0 < a <= r -> r * (1 - cos (acos (1 - a / r))) = a.
Proof.
  intros [Ha Har].
  assert (Hr : 0 < r) by lra.
  assert (H01 : 0 < a / r <= 1).
  { split; [apply Rdiv_lt_0_compat; lra|].
    apply (Rmult_le_reg_r r); [lra|]. unfold Rdiv. rewrite Rmult_assoc, Rinv_l by lra. lra. }
  rewrite cos_acos by lra. field. lra.
Qed.

Lemma sin_sqr_le (y : R) : 0 <= y <= 1 -> sin y * sin y <= y * y.
Proof.
  intros [H0 H1].
  destruct (Req_dec y 0) as [->|Hy]; [rewrite sin_0; lra|].
  assert (Hpos : 0 < y) by lra.
  assert (Hs1 : sin y < y) by (apply sin_lt_x; lra).
  assert (Hs0 : 0 < sin y).
  { apply sin_gt_0; [lra|]. pose proof PI_RGT_0. pose proof (PI2_3_2). unfold PI2 in *.
    assert (3 / 2 < PI / 2) by (apply PI2_3_2). lra. }
  nra.
Qed.

Lemma one_minus_cos_le (x : R) : 0 <= x <= 2 -> 1 - cos x <= x * x / 2.
Proof.
  intros Hx.
  replace x with (2 * (x / 2)) at 1 by field.
  rewrite cos_2a_sin.
  pose proof (sin_sqr_le (x / 2)) as H.
  assert (0 <= x / 2 <= 1) by lra. specialize (H H0). nra.
Qed.

(* the |delta| PI cap on steps_per_360: the half step angle is then 1/r and the sagitta stays below half a unit *)
Lemma arc_cap (r : R) : 1 <= r -> r * (1 - cos (1 / r)) <= 1 / 2.
Proof.
  intros Hr.
  assert (H0 : 0 < 1 / r <= 1).
  { split; [apply Rdiv_lt_0_compat; lra|].
    apply (Rmult_le_reg_r r); [lra|]. unfold Rdiv. rewrite Rmult_assoc, Rinv_l by lra. lra. }
  pose proof (one_minus_cos_le (1 / r)) as H.
  assert (0 <= 1 / r <= 2) by lra. specialize (H H1).
  assert (Hm : r * (1 - cos (1 / r)) <= r * (1 / r * (1 / r) / 2)) by (apply Rmult_le_compat_l; lra).
  replace (r * (1 / r * (1 / r) / 2)) with (1 / r / 2) in Hm by (field; lra).
  lra.
Qed.

(* ---------------------------------------------------------------- DoRound recurrence *)
(* offsetVec = (x * cos - sin * y, x * sin + y * cos) *)
Definition rot (c s : R) (v : vec) : vec := (vx v * c - s * vy v, vx v * s + vy v * c).

Lemma rot_norm2 (c s : R) (v : vec) : c * c + s * s = 1 -> norm2 (rot c s v) = norm2 v.
Proof.
  intros H. unfold norm2, vdot, rot, vx, vy; cbn [fst snd].
  replace ((fst v * c - s * snd v) * (fst v * c - s * snd v) + (fst v * s + snd v * c) * (fst v * s + snd v * c))
    with ((c * c + s * s) * (fst v * fst v + snd v * snd v)) by ring.
  rewrite H. ring.
Qed.

Fixpoint rot_iter (c s : R) (n : nat) (v : vec) : vec :=
  match n with O => v | S n' => rot_iter c s n' (rot c s v) end.

Lemma rot_iter_norm2 (c s : R) (n : nat) (v : vec) : c * c + s * s = 1 -> norm2 (rot_iter c s n v) = norm2 v.
Proof.
  intros H. revert v. induction n as [|n IH]; intros v; [reflexivity|].
  cbn [rot_iter]. rewrite IH. apply rot_norm2, H.
Qed.

(* every point of a round join / round cap / single-point circle: p + rot^i (delta * n) is at distance |delta| of p *)
Lemma round_points_on_circle (c s delta : R) (n : vec) (i : nat) :
  c * c + s * s = 1 -> is_unit n -> norm2 (rot_iter c s i (vscale delta n)) = delta * delta.
Proof.
  intros H Hn. rewrite rot_iter_norm2 by exact H.
  unfold is_unit, norm2, vdot, vscale, vx, vy in *; cbn [fst snd] in *. nra.
Qed.

(* ---------------------------------------------------------------- miter *)
(* DoMiter: p + (nk + nj) * (delta / (cos_a + 1)) with cos_a = nj . nk *)
Definition miter_vec (nj nk : vec) (delta : R) : vec := vscale (delta / (vdot nj nk + 1)) (vadd nk nj).

Lemma miter_norm2 (nj nk : vec) (delta : R) :
  is_unit nj -> is_unit nk -> -1 < vdot nj nk ->
  norm2 (miter_vec nj nk delta) = 2 * (delta * delta) / (1 + vdot nj nk).
Proof.
  intros Hj Hk Hc.
  unfold miter_vec, is_unit, norm2, vdot, vscale, vadd, vx, vy in *; cbn [fst snd] in *.
  set (c := fst nj * fst nk + snd nj * snd nk) in *.
  assert (Hs : (fst nk + fst nj) * (fst nk + fst nj) + (snd nk + snd nj) * (snd nk + snd nj) = 2 * (1 + c)) by (unfold c; nra).
  replace (delta / (c + 1) * (fst nk + fst nj) * (delta / (c + 1) * (fst nk + fst nj)) +
           delta / (c + 1) * (snd nk + snd nj) * (delta / (c + 1) * (snd nk + snd nj)))
    with (delta / (c + 1) * (delta / (c + 1)) * ((fst nk + fst nj) * (fst nk + fst nj) + (snd nk + snd nj) * (snd nk + snd nj))) by ring.
  rewrite Hs. field. lra.
Qed.

(* the miter test of OffsetPoint: cos_a > temp_lim_ - 1 with temp_lim_ = 2 / ML^2 *)
Lemma miter_reach (nj nk : vec) (delta ML : R) :
  is_unit nj -> is_unit nk -> 0 < ML ->
  vdot nj nk > 2 / (ML * ML) - 1 ->
  norm2 (miter_vec nj nk delta) <= (delta * ML) * (delta * ML).
Proof.
  intros Hj Hk HML Hc.
  assert (Hpos : 0 < 2 / (ML * ML)) by (apply Rdiv_lt_0_compat; nra).
  rewrite miter_norm2 by (auto; lra).
  set (c := vdot nj nk) in *.
  assert (H1 : 0 < 1 + c) by lra.
  assert (H2 : 2 < (1 + c) * (ML * ML)).
  { assert (2 / (ML * ML) * (ML * ML) = 2) by (field; nra).
    assert (2 / (ML * ML) * (ML * ML) < (1 + c) * (ML * ML)) by (apply Rmult_lt_compat_r; nra). lra. }
  apply (Rmult_le_reg_r (1 + c)); [exact H1|].
  replace (2 * (delta * delta) / (1 + c) * (1 + c)) with (2 * (delta * delta)) by (field; lra).
  assert (0 <= delta * delta) by nra. nra.
Qed.

(* near-straight joins (cos_a > 0.999) are always mitred: the reach exceeds |delta| by less than 0.1 % *)
Lemma miter_flat_reach (nj nk : vec) (delta : R) :
  is_unit nj -> is_unit nk -> vdot nj nk > 999 / 1000 ->
  norm2 (miter_vec nj nk delta) <= (delta * (1001 / 1000)) * (delta * (1001 / 1000)).
Proof.
  intros Hj Hk Hc.
  rewrite miter_norm2 by (auto; lra).
  set (c := vdot nj nk) in *.
  apply (Rmult_le_reg_r (1 + c)); [lra|].
  replace (2 * (delta * delta) / (1 + c) * (1 + c)) with (2 * (delta * delta)) by (field; lra).
  assert (0 <= delta * delta) by nra. nra.
Qed.

(* ---------------------------------------------------------------- square *)
(* DoSquare cuts the corner with the line through p + |delta| v perpendicular to the unit vector v (the normalised
   d_k - d_j), and intersects it with the offset line of the incoming edge { x : (x - p) . nk = delta }.
   A point x (relative to p) on both lines is within |delta| sqrt 2 of the vertex whenever v . nk >= 0. *)
Lemma square_reach (v n x : vec) (d : R) :
  is_unit v -> is_unit n -> 0 <= vdot v n -> vdot v n < 1 ->
  vdot x v = d -> vdot x n = d ->
  norm2 x <= 2 * (d * d).
Proof.
  unfold is_unit, norm2, vdot, vx, vy. destruct v as [v1 v2], n as [n1 n2], x as [x1 x2]; cbn [fst snd].
  intros Hv Hn Hc Hc1 H1 H2.
  set (s := - x1 * v2 + x2 * v1).
  assert (Hx : x1 * x1 + x2 * x2 = d * d + s * s) by (unfold s; nra).
  set (c := v1 * n1 + v2 * n2) in *.
  set (t := - v2 * n1 + v1 * n2).
  assert (Ht : c * c + t * t = 1) by (unfold c, t; nra).
  assert (Hid : (x1 * v1 + x2 * v2) * c + s * t = (v1 * v1 + v2 * v2) * (x1 * n1 + x2 * n2)) by (unfold c, t, s; ring).
  rewrite Hv, H1, H2 in Hid.
  assert (Hd : d * c + s * t = d) by lra.
  rewrite Hx.
  assert (Hst : s * t = d * (1 - c)) by lra.
  assert (Ht2 : t * t = (1 - c) * (1 + c)) by nra.
  assert (Hs2 : s * s * (1 + c) = d * d * (1 - c)).
  { assert (E : (s * t) * (s * t) = d * (1 - c) * (d * (1 - c))) by (rewrite Hst; reflexivity).
    assert (E2 : s * s * ((1 - c) * (1 + c)) = d * d * (1 - c) * (1 - c)) by (rewrite <- Ht2; nra).
    assert (Hnz : 1 - c <> 0) by lra.
    apply (Rmult_eq_reg_r (1 - c)); [|exact Hnz]. nra. }
  assert (s * s <= d * d).
  { assert (0 <= d * d) by nra. assert (0 <= s * s) by nra. nra. }
  lra.
Qed.

(* the cutting direction of DoSquare is v = (d_k - d_j)/|d_k - d_j| with d_k, d_j the unit directions of the incoming
   and outgoing edge; nk = (d_k.y, - d_k.x).  Its component along nk has the sign of sin_a = cross(d_k, d_j):
   at a join that is not concave for delta > 0 (sin_a >= 0) the hypothesis 0 <= v . nk of [square_reach] holds. *)
Lemma square_vec_dot (dk dj : vec) :
  vdot (vsub dk dj) (vy dk, - vx dk) = vcross dk dj.
Proof. unfold vdot, vsub, vcross, vx, vy; cbn [fst snd]. ring. Qed.

(* ---------------------------------------------------------------- offset edge *)
(* the library's unit normal of the edge a -> b:  (dy, -dx) / |ab| *)
Definition edge_len2 (a b : vec) : R := norm2 (vsub b a).

(* a point p + delta n, with p on the line ab, n unit and perpendicular to ab, is at distance |delta| from the line
   (squared cross product = delta^2 |ab|^2) *)
Lemma offset_edge_distance (a b n : vec) (t delta : R) :
  is_unit n -> vdot n (vsub b a) = 0 ->
  let p := vadd a (vscale t (vsub b a)) in
  let q := vadd p (vscale delta n) in
  vcross (vsub b a) (vsub q a) * vcross (vsub b a) (vsub q a) = delta * delta * edge_len2 a b.
Proof.
  unfold is_unit, edge_len2, norm2, vdot, vcross, vsub, vadd, vscale, vx, vy.
  destruct a as [a1 a2], b as [b1 b2], n as [n1 n2]; cbn [fst snd].
  intros Hn Hp. cbv zeta. cbn [fst snd].
  set (dx := b1 - a1) in *. set (dy := b2 - a2) in *.
  replace (a1 + t * dx + delta * n1 - a1) with (t * dx + delta * n1) by ring.
  replace (a2 + t * dy + delta * n2 - a2) with (t * dy + delta * n2) by ring.
  replace (dx * (t * dy + delta * n2) - dy * (t * dx + delta * n1)) with (delta * (dx * n2 - dy * n1)) by ring.
  (* (dx n2 - dy n1)^2 + (dx n1 + dy n2)^2 = (dx^2 + dy^2)(n1^2 + n2^2) *)
  assert (H : (dx * n2 - dy * n1) * (dx * n2 - dy * n1) = (dx * dx + dy * dy)) by nra.
  nra.
Qed.

(* ... and on the side the sign of delta selects: with the library's normal n = (dy, -dx)/L the offset point lies
   to the right of a -> b (negative cross product) for delta > 0 and to the left for delta < 0 *)
Lemma offset_edge_side (a b : vec) (L t delta : R) :
  0 < L -> L * L = edge_len2 a b ->
  let n := ((vy b - vy a) / L, - (vx b - vx a) / L) in
  let q := vadd (vadd a (vscale t (vsub b a))) (vscale delta n) in
  vcross (vsub b a) (vsub q a) = - delta * L.
Proof.
  unfold edge_len2, norm2, vdot, vcross, vsub, vadd, vscale, vx, vy.
  destruct a as [a1 a2], b as [b1 b2]; cbn [fst snd].
  intros HL HLL. cbv zeta. cbn [fst snd].
  set (dx := b1 - a1) in *. set (dy := b2 - a2) in *.
  replace (a1 + t * dx + delta * (dy / L) - a1) with (t * dx + delta * (dy / L)) by ring.
  replace (a2 + t * dy + delta * (- dx / L) - a2) with (t * dy + delta * (- dx / L)) by ring.
  replace (dx * (t * dy + delta * (- dx / L)) - dy * (t * dx + delta * (dy / L)))
    with (- delta * ((dx * dx + dy * dy) / L)) by (field; lra).
  unfold dx, dy in *. rewrite <- HLL. field. lra.
Qed.

Lemma unit_normal_is_unit (a b : vec) (L : R) :
  0 < L -> L * L = edge_len2 a b ->
  let n := ((vy b - vy a) / L, - (vx b - vx a) / L) in
  is_unit n /\ vdot n (vsub b a) = 0.
Proof.
  unfold is_unit, edge_len2, norm2, vdot, vsub, vx, vy.
  destruct a as [a1 a2], b as [b1 b2]; cbn [fst snd].
  intros HL HLL. cbv zeta. cbn [fst snd].
  set (dx := b1 - a1) in *. set (dy := b2 - a2) in *.
  split.
  - replace (dy / L * (dy / L) + - dx / L * (- dx / L)) with ((dx * dx + dy * dy) / (L * L)) by (field; lra).
    rewrite <- HLL. field. lra.
  - field. lra.
Qed.

(* ---------------------------------------------------------------- caps of open paths (group_delta_ = |delta| = d > 0) *)
(* butt cap (DoBevel with j = k): p - d n, p + d n *)
Lemma butt_cap (n : vec) (d : R) (sgn : R) :
  is_unit n -> sgn = 1 \/ sgn = -1 ->
  let c := vscale (sgn * d) n in
  norm2 c = d * d /\ vdot c (vy n, - vx n) = 0.
Proof.
  unfold is_unit, norm2, vdot, vscale, vx, vy. destruct n as [n1 n2]; cbn [fst snd].
  intros Hn Hs. cbv zeta. cbn [fst snd]. split; [destruct Hs as [-> | ->]; nra|ring].
Qed.

(* square cap (DoSquare with j = k): the cap direction is v = (n.y, -n.x), the two corners are p + d v -+ d n:
   they lie d beyond p along v, d to either side, hence at distance d sqrt 2 *)
Lemma square_cap (n : vec) (d : R) (sgn : R) :
  is_unit n -> sgn = 1 \/ sgn = -1 ->
  let v := (vy n, - vx n) in
  let c := vadd (vscale d v) (vscale (sgn * d) n) in
  vdot c v = d /\ vdot c n = sgn * d /\ norm2 c = 2 * (d * d).
Proof.
  unfold is_unit, norm2, vdot, vadd, vscale, vx, vy. destruct n as [n1 n2]; cbn [fst snd].
  intros Hn Hs. cbv zeta. cbn [fst snd].
  assert (Hd : d * (n1 * n1 + n2 * n2) = d) by (rewrite Hn; ring).
  assert (Hdd : d * d * (n1 * n1 + n2 * n2) = d * d) by (rewrite Hn; ring).
  repeat split; destruct Hs as [-> | ->]; lra.
Qed.

(* DoSquare with j = k computes the corner as the intersection of the line through ptQ = p + d v along n with the line
   through pt3 = p + d n along v: that intersection is p + d v + d n *)
Lemma square_cap_intersection (n x : vec) (d : R) :
  is_unit n ->
  let v := (vy n, - vx n) in
  vdot x v = d -> vdot x n = d -> x = vadd (vscale d v) (vscale d n).
Proof.
  unfold is_unit, norm2, vdot, vadd, vscale, vx, vy. destruct n as [n1 n2], x as [x1 x2]; cbn [fst snd].
  intros Hn. cbv zeta. cbn [fst snd]. intros H1 H2.
  assert (E1 : x1 * (n1 * n1 + n2 * n2) = n2 * (x1 * n2 + x2 * - n1) + n1 * (x1 * n1 + x2 * n2)) by ring.
  assert (E2 : x2 * (n1 * n1 + n2 * n2) = - n1 * (x1 * n2 + x2 * - n1) + n2 * (x1 * n1 + x2 * n2)) by ring.
  rewrite Hn, H1, H2 in E1, E2.
  f_equal; lra.
Qed.

(* round cap (DoRound with j = k, angle PI): every emitted point is p + rot^i (- d n) resp. p + d n: on the circle *)
Lemma round_cap (c s d : R) (n : vec) (i : nat) :
  c * c + s * s = 1 -> is_unit n -> norm2 (rot_iter c s i (vscale (- d) n)) = d * d.
Proof.
  intros H Hn. rewrite round_points_on_circle by assumption. ring.
Qed.

(* single point, round join: Ellipse emits center + r (dx, dy) with (dx, dy) rotated by a fixed angle from (1, 0)
   [first point] resp. (co, si): all at distance r *)
Lemma ellipse_points_on_circle (co si r : R) (i : nat) :
  co * co + si * si = 1 -> norm2 (vscale r (rot_iter co si i (1, 0))) = r * r.
Proof.
  intros H.
  assert (E : norm2 (rot_iter co si i (1, 0)) = 1).
  { rewrite rot_iter_norm2 by exact H. unfold norm2, vdot, vx, vy; cbn [fst snd]. ring. }
  unfold norm2, vdot, vscale, vx, vy in *; cbn [fst snd] in *. nra.
Qed.

(* satisfiability of the hypotheses *)
Example arc_sagitta_sat : 0 < 1 / 4 <= 10. Proof. lra. Qed.
Example miter_reach_sat : is_unit (1, 0) /\ is_unit (0, 1) /\ 0 < 2 /\ vdot (1, 0) (0, 1) > 2 / (2 * 2) - 1.
Proof. unfold is_unit, norm2, vdot, vx, vy; cbn [fst snd]. repeat split; lra. Qed.
Example square_reach_sat :
  is_unit (1, 0) /\ is_unit (0, 1) /\ 0 <= vdot (1, 0) (0, 1) /\ vdot (1, 0) (0, 1) < 1
  /\ vdot (3, 3) (1, 0) = 3 /\ vdot (3, 3) (0, 1) = 3.
Proof. unfold is_unit, norm2, vdot, vx, vy; cbn [fst snd]. repeat split; lra. Qed.
