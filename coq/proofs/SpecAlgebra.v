(* C13: algebra and symmetries of the boolean-operation specification (base/Region.v spec_closed), and the
   Coq-defined comparison of two solutions' regions used by checks/C13.py (extracted into bin/oracle_locmin). *)
From Clip Require Import base.Geom base.Winding base.Region base.Dist.
From Coq Require Import Permutation.
Local Open Scope Z_scope.

(* ---------- geometric maps ---------- *)
Inductive pmap := MTranslate (d : pt) | MTranspose | MMirrorX | MMirrorY | MScale (k : Z).

Definition apply_pmap (m : pmap) (v : pt) : pt :=
  match m with
  | MTranslate d => padd v d
  | MTranspose => (py v, px v)
  | MMirrorX => (- px v, py v)
  | MMirrorY => (px v, - py v)
  | MScale k => pscale k v
  end.

(* orientation-reversing maps exchange Positive and Negative *)
Definition pmap_fr (m : pmap) (fr : fill_rule) : fill_rule :=
  match m with
  | MTranspose | MMirrorX | MMirrorY => flip_fr fr
  | _ => fr
  end.

Definition map_path (m : pmap) (p : path) : path := map (apply_pmap m) p.
Definition map_paths (m : pmap) (ps : paths) : paths := map (map_path m) ps.

(* ---------- region comparison of solutions at sample points (validation side) ---------- *)
Definition far_pts (S C : paths) (tn td : Z) (pts : list pt) : list pt :=
  filter (far_from tn td (edges_closed (S ++ C))) pts.

(* membership in the region covered by a solution (set of closed paths) *)
Definition sol_in (out : paths) (q : pt) : bool := negb (wn_paths out q =? 0).

(* Xor = Union minus Intersection *)
Definition bad_xor (pts : list pt) (X U I : paths) : list pt :=
  filter (fun q => negb (Bool.eqb (sol_in X q) (sol_in U q && negb (sol_in I q)))) pts.

(* Difference and Intersection partition the subject region Sb *)
Definition bad_partition (pts : list pt) (D I Sb : paths) : list pt :=
  filter (fun q => negb (Bool.eqb (xorb (sol_in D q) (sol_in I q)) (sol_in Sb q)) || (sol_in D q && sol_in I q)) pts.

(* out' is the solution for the mapped input: q in out  <->  m q in out' *)
Definition bad_map (m : pmap) (pts : list pt) (out out' : paths) : list pt :=
  filter (fun q => negb (Bool.eqb (sol_in out q) (sol_in out' (apply_pmap m q)))) pts.

Lemma bad_xor_sound pts X U I : bad_xor pts X U I = [] ->
  forall q, In q pts -> sol_in X q = sol_in U q && negb (sol_in I q).
Proof.
  unfold bad_xor. intros H q Hq.
  destruct (Bool.eqb (sol_in X q) (sol_in U q && negb (sol_in I q))) eqn:E; [apply Bool.eqb_prop, E|].
  assert (In q []) as [].
  rewrite <- H. apply filter_In. split; [exact Hq|]. rewrite E. reflexivity.
Qed.

Lemma bad_partition_sound pts D I Sb : bad_partition pts D I Sb = [] ->
  forall q, In q pts -> xorb (sol_in D q) (sol_in I q) = sol_in Sb q /\ sol_in D q && sol_in I q = false.
Proof.
  unfold bad_partition. intros H q Hq.
  destruct (negb (Bool.eqb (xorb (sol_in D q) (sol_in I q)) (sol_in Sb q)) || (sol_in D q && sol_in I q)) eqn:E.
  - assert (In q []) as []. rewrite <- H. apply filter_In. split; [exact Hq|exact E].
  - apply Bool.orb_false_iff in E. destruct E as [E1 E2]. split; [|exact E2].
    apply Bool.negb_false_iff, Bool.eqb_prop in E1. exact E1.
Qed.

Lemma bad_map_sound m pts out out' : bad_map m pts out out' = [] ->
  forall q, In q pts -> sol_in out q = sol_in out' (apply_pmap m q).
Proof.
  unfold bad_map. intros H q Hq.
  destruct (Bool.eqb (sol_in out q) (sol_in out' (apply_pmap m q))) eqn:E; [apply Bool.eqb_prop, E|].
  assert (In q []) as [].
  rewrite <- H. apply filter_In. split; [exact Hq|]. rewrite E. reflexivity.
Qed.

(* ====================================================================== winding number: more laws *)

Lemma wn_paths_Forall2 (R : path -> path -> Prop) q :
  (forall p p', R p p' -> wn p q = wn p' q) ->
  forall S S', Forall2 R S S' -> wn_paths S q = wn_paths S' q.
Proof.
  intros HR S S' H. unfold wn_paths. induction H as [|p p' S S' Hp _ IH]; [reflexivity|].
  cbn [map zsum]. rewrite (HR _ _ Hp), IH. reflexivity.
Qed.

Lemma wn_paths_map (f : path -> path) (g : pt -> pt) S q :
  (forall p, wn (f p) (g q) = wn p q) -> wn_paths (map f S) (g q) = wn_paths S q.
Proof.
  intros H. unfold wn_paths. rewrite map_map. f_equal. apply map_ext. intros p. apply H.
Qed.

Lemma wn_paths_map_opp (f : path -> path) (g : pt -> pt) S q :
  (forall p, In p S -> wn (f p) (g q) = - wn p q) -> wn_paths (map f S) (g q) = - wn_paths S q.
Proof.
  intros H. unfold wn_paths. rewrite map_map. rewrite <- zsum_map_opp.
  apply zsum_map_ext. exact H.
Qed.

(* ---------- duplicate vertices ---------- *)
From Clip Require Import model.LocMin.

Lemma open_edges_hd_irrel a (X Y : list pt) :
  hd_error X = hd_error Y ->
  open_edges (a :: X) = match hd_error Y with Some b => [(a, b)] | None => [] end ++ open_edges X.
Proof.
  destruct X as [|x X], Y as [|y Y]; cbn [hd_error]; intros H; try discriminate; [reflexivity|].
  inversion H; subst. reflexivity.
Qed.

Lemma wsum_open_cons q a (X Y : list pt) :
  hd_error X = hd_error Y -> wsum q (open_edges X) = wsum q (open_edges Y) ->
  wsum q (open_edges (a :: X)) = wsum q (open_edges (a :: Y)).
Proof.
  intros Hh Hw.
  rewrite (open_edges_hd_irrel a X Y Hh), (open_edges_hd_irrel a Y Y eq_refl).
  rewrite !wsum_app, Hw. reflexivity.
Qed.

Lemma wsum_repeat_front q a k rest :
  wsum q (open_edges (a :: repeat a k ++ rest)) = wsum q (open_edges (a :: rest)).
Proof.
  induction k as [|k IH]; [reflexivity|].
  cbn [repeat app]. rewrite open_edges_cons2. unfold wsum in *. cbn [map zsum].
  rewrite edge_w_degenerate, IH. lia.
Qed.

Lemma hd_error_repeat_each m l r : hd_error (repeat_each m l ++ r) = hd_error (l ++ r).
Proof. destruct l as [|a t]; reflexivity. Qed.

Lemma wsum_repeat_each q m l r :
  wsum q (open_edges (repeat_each m l ++ r)) = wsum q (open_edges (l ++ r)).
Proof.
  revert m; induction l as [|a t IH]; intros m; [reflexivity|].
  cbn [repeat_each]. rewrite <- !app_assoc. cbn [app].
  rewrite wsum_repeat_front.
  apply wsum_open_cons; [apply hd_error_repeat_each|apply IH].
Qed.

Lemma wsum_mid_repeat q l a k rest :
  wsum q (open_edges (l ++ a :: repeat a k ++ rest)) = wsum q (open_edges (l ++ a :: rest)).
Proof.
  induction l as [|x l IH]; [apply wsum_repeat_front|].
  cbn [app]. apply wsum_open_cons; [|exact IH].
  destruct l; reflexivity.
Qed.

Lemma repeat_snoc {A} (a : A) c : repeat a c ++ [a] = a :: repeat a c.
Proof. induction c as [|c IH]; [reflexivity|]. cbn [repeat app]. rewrite IH. reflexivity. Qed.

Theorem wn_insert_dups m c p q : wn (insert_dups m c p) q = wn p q.
Proof.
  destruct p as [|a t]; [reflexivity|].
  unfold wn, insert_dups.
  assert (cyc_edges (repeat_each m (a :: t) ++ repeat a c) = open_edges ((repeat_each m (a :: t) ++ repeat a c) ++ [a])) as ->.
  { cbn [repeat_each app]. reflexivity. }
  rewrite <- app_assoc, wsum_repeat_each, repeat_snoc.
  replace (a :: repeat a c) with (a :: repeat a c ++ []) by (rewrite app_nil_r; reflexivity).
  rewrite wsum_mid_repeat. reflexivity.
Qed.

(* ---------- telescoping sums over a closed path ---------- *)
Lemma last_cons_irrel {A} (l : list A) x d d' : last (x :: l) d = last (x :: l) d'.
Proof. revert x; induction l as [|y l IH]; intros x; [reflexivity|]. cbn [last] in *. apply IH. Qed.

Lemma zsum_telescope_open (phi : pt -> Z) (l : list pt) a :
  zsum (map (fun e => phi (snd e) - phi (fst e)) (open_edges (a :: l))) = phi (last l a) - phi a.
Proof.
  revert a; induction l as [|b l IH]; intros a; [cbn; lia|].
  rewrite open_edges_cons2. cbn [map zsum fst snd]. rewrite IH.
  destruct l as [|c l]; [cbn [last]; lia|].
  change (last (b :: c :: l) a) with (last (c :: l) a).
  rewrite (last_cons_irrel l c a b). lia.
Qed.

Lemma zsum_telescope_cyc (phi : pt -> Z) (p : path) :
  zsum (map (fun e => phi (snd e) - phi (fst e)) (cyc_edges p)) = 0.
Proof.
  destruct p as [|a t]; [reflexivity|]. cbn [cyc_edges].
  change ((a :: t) ++ [a]) with (a :: (t ++ [a])).
  rewrite zsum_telescope_open, last_last. lia.
Qed.

Lemma zsum_map_add {A} (f g : A -> Z) l : zsum (map (fun x => f x + g x) l) = zsum (map f l) + zsum (map g l).
Proof. induction l as [|x l IH]; [reflexivity|]. cbn [map zsum]. lia. Qed.

(* if every edge satisfies  w e + w' e = phi (snd e) - phi (fst e)  then the two sums over a closed path are opposite *)
Lemma wsum_opposite_by_potential (w w' : pt * pt -> Z) (phi : pt -> Z) (p : path) :
  (forall e, In e (cyc_edges p) -> w e + w' e = phi (snd e) - phi (fst e)) ->
  zsum (map w' (cyc_edges p)) = - zsum (map w (cyc_edges p)).
Proof.
  intros H.
  pose proof (zsum_telescope_cyc phi p) as Ht.
  rewrite <- (zsum_map_ext (fun e => w e + w' e) _ _ H) in Ht.
  rewrite zsum_map_add in Ht. lia.
Qed.

(* ---------- orientation-reversing maps ---------- *)
Definition transpose (v : pt) : pt := (py v, px v).
Definition mirror_x (v : pt) : pt := (- px v, py v).
Definition mirror_y (v : pt) : pt := (px v, - py v).

Lemma on_seg_false_cases q a b : on_seg q (a, b) = false ->
  cross a b q <> 0 \/ px q < Z.min (px a) (px b) \/ Z.max (px a) (px b) < px q
  \/ py q < Z.min (py a) (py b) \/ Z.max (py a) (py b) < py q.
Proof.
  unfold on_seg. intros H.
  destruct (cross a b q =? 0) eqn:E1; [|left; apply Z.eqb_neq, E1].
  destruct (Z.min (px a) (px b) <=? px q) eqn:E2; [|right; left; lia].
  destruct (px q <=? Z.max (px a) (px b)) eqn:E3; [|right; right; left; lia].
  destruct (Z.min (py a) (py b) <=? py q) eqn:E4; [|right; right; right; left; lia].
  destruct (py q <=? Z.max (py a) (py b)) eqn:E5; [discriminate|right; right; right; right; lia].
Qed.

(* potential for the transpose: indicator of the open quadrant above-right of q *)
Definition phi_quad (q v : pt) : Z := if (px q <? px v) && (py q <? py v) then 1 else 0.
(* potential for the x-mirror: indicator of the open half-plane above q *)
Definition phi_up (q v : pt) : Z := if py q <? py v then 1 else 0.

Lemma cross_rel a b q : cross a b q = (px a - px q) * (py b - py q) - (py a - py q) * (px b - px q).
Proof. unfold cross; ring. Qed.

Lemma cross_transpose a b q : cross (transpose a) (transpose b) (transpose q) = - cross a b q.
Proof. unfold cross, transpose, px, py; cbn [fst snd]; ring. Qed.

Lemma cross_mirror_x a b q : cross (mirror_x a) (mirror_x b) (mirror_x q) = - cross a b q.
Proof. unfold cross, mirror_x, px, py; cbn [fst snd]; ring. Qed.

Lemma edge_w_mirror_x q a b : on_seg q (a, b) = false ->
  edge_w q (a, b) + edge_w (mirror_x q) (mirror_x a, mirror_x b) = phi_up q b - phi_up q a.
Proof.
  intros H. apply on_seg_false_cases in H.
  unfold edge_w, phi_up. rewrite cross_mirror_x.
  change (py (mirror_x a)) with (py a). change (py (mirror_x b)) with (py b). change (py (mirror_x q)) with (py q).
  pose proof (cross_rel a b q) as Hc.
  set (c := cross a b q) in *.
  set (ax := px a - px q) in *. set (ay := py a - py q) in *.
  set (bx := px b - px q) in *. set (by_ := py b - py q) in *.
  assert (Hay : py a = ay + py q) by (unfold ay; lia).
  assert (Hby : py b = by_ + py q) by (unfold by_; lia).
  rewrite Hay, Hby.
  destruct (ay + py q <=? py q) eqn:E1, (py q <? by_ + py q) eqn:E2,
           (by_ + py q <=? py q) eqn:E3, (py q <? ay + py q) eqn:E4; cbn [andb]; try lia;
  destruct (0 <? c) eqn:E5, (c <? 0) eqn:E6, (0 <? - c) eqn:E7, (- c <? 0) eqn:E8; try lia;
  exfalso; assert (c = 0) by lia;
  (destruct H as [H | [H | [H | [H | H]]]]; [lia | | | lia | lia]);
  unfold ax, bx in *; nia.
Qed.

Lemma edge_w_transpose q a b : on_seg q (a, b) = false ->
  edge_w q (a, b) + edge_w (transpose q) (transpose a, transpose b) = phi_quad q b - phi_quad q a.
Proof.
  intros H. apply on_seg_false_cases in H.
  unfold edge_w, phi_quad. rewrite cross_transpose.
  change (py (transpose a)) with (px a). change (py (transpose b)) with (px b). change (py (transpose q)) with (px q).
  pose proof (cross_rel a b q) as Hc.
  set (c := cross a b q) in *.
  set (ax := px a - px q) in *. set (ay := py a - py q) in *.
  set (bx := px b - px q) in *. set (by_ := py b - py q) in *.
  assert (Hax : px a = ax + px q) by (unfold ax; lia).
  assert (Hbx : px b = bx + px q) by (unfold bx; lia).
  assert (Hay : py a = ay + py q) by (unfold ay; lia).
  assert (Hby : py b = by_ + py q) by (unfold by_; lia).
  rewrite Hax, Hbx, Hay, Hby in *.
  clearbody c ax ay bx by_.
  assert (Hon : c <> 0 \/ (0 < ax /\ 0 < bx) \/ (ax < 0 /\ bx < 0) \/ (0 < ay /\ 0 < by_) \/ (ay < 0 /\ by_ < 0)) by lia.
  clear H Hax Hbx Hay Hby.
  generalize (px q) (py q). intros qx qy.
  destruct (Z.leb_spec (ay + qy) qy), (Z.ltb_spec qy (by_ + qy)),
           (Z.leb_spec (by_ + qy) qy), (Z.ltb_spec qy (ay + qy)); cbn [andb]; try lia;
  destruct (Z.leb_spec (ax + qx) qx), (Z.ltb_spec qx (bx + qx)),
           (Z.leb_spec (bx + qx) qx), (Z.ltb_spec qx (ax + qx)); cbn [andb]; try lia;
  destruct (Z.ltb_spec 0 c), (Z.ltb_spec c 0), (Z.ltb_spec 0 (- c)), (Z.ltb_spec (- c) 0); try lia; try nia.
Qed.

Lemma on_path_edges p q : on_path p q = false -> forall e, In e (cyc_edges p) -> on_seg q e = false.
Proof.
  unfold on_path. intros H e He.
  destruct (on_seg q e) eqn:E; [|reflexivity].
  assert (existsb (on_seg q) (cyc_edges p) = true) by (apply existsb_exists; exists e; auto). congruence.
Qed.

Theorem wn_transpose p q : on_path p q = false -> wn (map transpose p) (transpose q) = - wn p q.
Proof.
  intros H. unfold wn, wsum. rewrite cyc_edges_map, map_map.
  apply (wsum_opposite_by_potential (edge_w q) _ (phi_quad q)).
  intros [a b] He. cbn [fst snd]. apply edge_w_transpose. apply (on_path_edges p q H _ He).
Qed.

Theorem wn_mirror_x p q : on_path p q = false -> wn (map mirror_x p) (mirror_x q) = - wn p q.
Proof.
  intros H. unfold wn, wsum. rewrite cyc_edges_map, map_map.
  apply (wsum_opposite_by_potential (edge_w q) _ (phi_up q)).
  intros [a b] He. cbn [fst snd]. apply edge_w_mirror_x. apply (on_path_edges p q H _ He).
Qed.

Lemma on_seg_transpose q a b : on_seg (transpose q) (transpose a, transpose b) = on_seg q (a, b).
Proof.
  unfold on_seg. rewrite cross_transpose.
  change (px (transpose a)) with (py a). change (px (transpose b)) with (py b). change (px (transpose q)) with (py q).
  change (py (transpose a)) with (px a). change (py (transpose b)) with (px b). change (py (transpose q)) with (px q).
  replace (- cross a b q =? 0) with (cross a b q =? 0) by (destruct (Z.eqb_spec (cross a b q) 0), (Z.eqb_spec (- cross a b q) 0); lia).
  destruct (cross a b q =? 0), (Z.min (py a) (py b) <=? py q), (py q <=? Z.max (py a) (py b)),
           (Z.min (px a) (px b) <=? px q), (px q <=? Z.max (px a) (px b)); reflexivity.
Qed.

Lemma on_seg_mirror_x q a b : on_seg (mirror_x q) (mirror_x a, mirror_x b) = on_seg q (a, b).
Proof.
  unfold on_seg. rewrite cross_mirror_x.
  change (py (mirror_x a)) with (py a). change (py (mirror_x b)) with (py b). change (py (mirror_x q)) with (py q).
  change (px (mirror_x a)) with (- px a). change (px (mirror_x b)) with (- px b). change (px (mirror_x q)) with (- px q).
  replace (- cross a b q =? 0) with (cross a b q =? 0) by (destruct (Z.eqb_spec (cross a b q) 0), (Z.eqb_spec (- cross a b q) 0); lia).
  replace (Z.min (- px a) (- px b) <=? - px q) with (px q <=? Z.max (px a) (px b))
    by (destruct (Z.leb_spec (px q) (Z.max (px a) (px b))), (Z.leb_spec (Z.min (- px a) (- px b)) (- px q)); lia).
  replace (- px q <=? Z.max (- px a) (- px b)) with (Z.min (px a) (px b) <=? px q)
    by (destruct (Z.leb_spec (Z.min (px a) (px b)) (px q)), (Z.leb_spec (- px q) (Z.max (- px a) (- px b))); lia).
  destruct (cross a b q =? 0), (Z.min (py a) (py b) <=? py q), (py q <=? Z.max (py a) (py b)),
           (Z.min (px a) (px b) <=? px q), (px q <=? Z.max (px a) (px b)); reflexivity.
Qed.

Lemma on_path_map (f : pt -> pt) p q :
  (forall a b, on_seg (f q) (f a, f b) = on_seg q (a, b)) -> on_path (map f p) (f q) = on_path p q.
Proof.
  intros H. unfold on_path. rewrite cyc_edges_map.
  induction (cyc_edges p) as [|[a b] l IH]; [reflexivity|]. cbn [map existsb fst snd]. rewrite H, IH. reflexivity.
Qed.

Lemma mirror_y_decomp v : mirror_y v = transpose (mirror_x (transpose v)).
Proof. destruct v; reflexivity. Qed.

Theorem wn_mirror_y p q : on_path p q = false -> wn (map mirror_y p) (mirror_y q) = - wn p q.
Proof.
  intros H.
  assert (Hm : map mirror_y p = map transpose (map mirror_x (map transpose p))).
  { rewrite !map_map. apply map_ext. intros v. apply mirror_y_decomp. }
  rewrite Hm, mirror_y_decomp.
  assert (H1 : on_path (map transpose p) (transpose q) = false)
    by (rewrite (on_path_map transpose p q (on_seg_transpose q)); exact H).
  assert (H2 : on_path (map mirror_x (map transpose p)) (mirror_x (transpose q)) = false)
    by (rewrite (on_path_map mirror_x _ _ (on_seg_mirror_x _)); exact H1).
  rewrite (wn_transpose _ _ H2), (wn_mirror_x _ _ H1), (wn_transpose _ _ H). lia.
Qed.

(* ====================================================================== the specification is representation independent *)

Definition pmap_flips (m : pmap) : bool := match m with MTranspose | MMirrorX | MMirrorY => true | _ => false end.
Definition pmap_ok (m : pmap) : Prop := match m with MScale k => 0 < k | _ => True end.

Lemma on_paths_in ps q p : on_paths ps q = false -> In p ps -> on_path p q = false.
Proof.
  unfold on_paths. intros H Hp. destruct (on_path p q) eqn:E; [|reflexivity].
  assert (existsb (fun p => on_path p q) ps = true) by (apply existsb_exists; exists p; auto). congruence.
Qed.

Lemma wn_paths_pmap m ps q : pmap_ok m -> (pmap_flips m = true -> on_paths ps q = false) ->
  wn_paths (map_paths m ps) (apply_pmap m q) = if pmap_flips m then - wn_paths ps q else wn_paths ps q.
Proof.
  intros Hok Hon. unfold map_paths, map_path.
  destruct m as [d| | | |k]; cbn [pmap_flips apply_pmap] in *.
  - apply (wn_paths_map (map (fun v => padd v d)) (fun v => padd v d)). intros p. apply wn_translate.
  - apply (wn_paths_map_opp (map transpose) transpose). intros p Hp. apply wn_transpose, (on_paths_in ps q p (Hon eq_refl) Hp).
  - apply (wn_paths_map_opp (map mirror_x) mirror_x). intros p Hp. apply wn_mirror_x, (on_paths_in ps q p (Hon eq_refl) Hp).
  - apply (wn_paths_map_opp (map mirror_y) mirror_y). intros p Hp. apply wn_mirror_y, (on_paths_in ps q p (Hon eq_refl) Hp).
  - apply (wn_paths_map (map (pscale k)) (pscale k)). intros p. apply wn_scale, Hok.
Qed.

Lemma on_paths_app ps ps' q : on_paths (ps ++ ps') q = on_paths ps q || on_paths ps' q.
Proof. unfold on_paths. apply existsb_app. Qed.

Lemma flip_fr_invol fr : flip_fr (flip_fr fr) = fr.
Proof. destruct fr; reflexivity. Qed.

(* the same closed path given differently: another start vertex, or with repeated / closing vertices *)
Definition same_ring (p p' : path) : Prop :=
  (exists k, p' = rotl k p) \/ (exists m c, p' = insert_dups m c p).

Lemma same_ring_wn q p p' : same_ring p p' -> wn p q = wn p' q.
Proof.
  intros [[k ->] | [m [c ->]]]; [symmetry; apply wn_rotate|symmetry; apply wn_insert_dups].
Qed.

Lemma wn_paths_rev S q : wn_paths (map (@rev pt) S) q = - wn_paths S q.
Proof. exact (wn_paths_map_opp (@rev pt) (fun v => v) S q (fun p _ => wn_rev p q)). Qed.

Theorem spec_invariance ct fr S C q :
  (* path order *)
  (forall S' C', Permutation S S' -> Permutation C C' -> spec_closed ct fr S' C' q = spec_closed ct fr S C q)
  (* start vertex, duplicate and closing vertices *)
  /\ (forall S' C', Forall2 same_ring S S' -> Forall2 same_ring C C' -> spec_closed ct fr S' C' q = spec_closed ct fr S C q)
  (* subject <-> clip *)
  /\ (ct = Intersection \/ ct = Union \/ ct = Xor -> spec_closed ct fr C S q = spec_closed ct fr S C q)
  (* all paths reversed: EvenOdd/NonZero unchanged, Positive <-> Negative *)
  /\ spec_closed ct (flip_fr fr) (map (@rev pt) S) (map (@rev pt) C) q = spec_closed ct fr S C q
  (* translation, integer scaling (orientation preserving); transpose, mirrors (Positive <-> Negative) *)
  /\ (forall m, pmap_ok m -> (pmap_flips m = true -> on_paths (S ++ C) q = false) ->
        spec_closed ct (pmap_fr m fr) (map_paths m S) (map_paths m C) (apply_pmap m q) = spec_closed ct fr S C q).
Proof.
  unfold spec_closed. repeat split.
  - intros S' C' HS HC. rewrite (wn_paths_perm _ _ q HS), (wn_paths_perm _ _ q HC). reflexivity.
  - intros S' C' HS HC.
    rewrite (wn_paths_Forall2 same_ring q (same_ring_wn q) _ _ HS), (wn_paths_Forall2 same_ring q (same_ring_wn q) _ _ HC).
    reflexivity.
  - intros Hct. symmetry. apply spec_swap, Hct.
  - rewrite !wn_paths_rev.
    rewrite spec_reverse, flip_fr_invol. reflexivity.
  - intros m Hok Hon.
    assert (HonS : pmap_flips m = true -> on_paths S q = false).
    { intros Hf. specialize (Hon Hf). rewrite on_paths_app in Hon. apply Bool.orb_false_iff in Hon. apply Hon. }
    assert (HonC : pmap_flips m = true -> on_paths C q = false).
    { intros Hf. specialize (Hon Hf). rewrite on_paths_app in Hon. apply Bool.orb_false_iff in Hon. apply Hon. }
    rewrite (wn_paths_pmap m S q Hok HonS), (wn_paths_pmap m C q Hok HonC).
    destruct m; cbn [pmap_flips pmap_fr]; try reflexivity; rewrite spec_reverse, flip_fr_invol; reflexivity.
Qed.

(* hypotheses are satisfiable: a square, a rotated + padded representation of it, and a point inside *)
Example spec_invariance_witness :
  let sq := [(0,0);(10,0);(10,10);(0,10)] in
  Forall2 same_ring [sq; sq] [rotl 1 sq; insert_dups [1%nat] 1 sq]
  /\ on_paths ([sq] ++ []) (5, 5) = false /\ pmap_ok (MScale 3)
  /\ spec_closed Union Positive [sq] [] (5, 5) = true
  /\ spec_closed Union Negative (map_paths MTranspose [sq]) [] (apply_pmap MTranspose (5, 5)) = true.
Proof.
  cbv zeta. split; [|vm_compute; repeat split; reflexivity].
  apply Forall2_cons; [left; exists 1%nat; reflexivity|].
  apply Forall2_cons; [right; exists [1%nat], 1%nat; reflexivity|apply Forall2_nil].
Qed.

Theorem spec_algebra fr S C q :
  spec_closed Xor fr S C q = spec_closed Union fr S C q && negb (spec_closed Intersection fr S C q)
  /\ xorb (spec_closed Difference fr S C q) (spec_closed Intersection fr S C q) = spec_closed Union fr S [] q
  /\ spec_closed Difference fr S C q && spec_closed Intersection fr S C q = false.
Proof.
  unfold spec_closed. split; [apply spec_xor|].
  destruct (spec_partition fr (wn_paths S q) (wn_paths C q)) as [H1 H2]. split; [|exact H2].
  rewrite H1. unfold in_result, combine_ct, wn_paths. cbn [map zsum].
  destruct fr; cbn [inside]; rewrite ?Bool.orb_false_r; reflexivity.
Qed.
