(* C13: algebra and symmetries of the boolean-operation specification (base/Region.v spec_closed), and the
   Coq-defined comparison of two solutions' regions used by checks/C13.py (extracted into bin/oracle_locmin). *)
From Clip Require Import base.Geom base.Winding base.Region base.Dist.
From Coq Require Import Permutation.
Local Open Scope Z_scope.

(* ---------- geometric maps ---------- *)
Inductive pmap := MTranslate (d : pt) | MTranspose | MMirrorX | MMirrorY | MScale (k : Z).

Definition apply_pmap (m : pmap) (v : pt) : pt :=
  match m with
  | MTranslate d => padd v d
  | MTranspose => (py v, px v)
  | MMirrorX => (- px v, py v)
  | MMirrorY => (px v, - py v)
  | MScale k => pscale k v
  end.

(* orientation-reversing maps exchange Positive and Negative *)
Definition pmap_fr (m : pmap) (fr : fill_rule) : fill_rule :=
  match m with
  | MTranspose | MMirrorX | MMirrorY => flip_fr fr
  | _ => fr
  end.

Definition map_path (m : pmap) (p : path) : path := map (apply_pmap m) p.
Definition map_paths (m : pmap) (ps : paths) : paths := map (map_path m) ps.

(* ---------- region comparison of solutions at sample points (validation side) ---------- *)
Definition far_pts (S C : paths) (tn td : Z) (pts : list pt) : list pt :=
  filter (far_from tn td (edges_closed (S ++ C))) pts.

(* membership in the region covered by a solution (set of closed paths) *)
Definition sol_in (out : paths) (q : pt) : bool := negb (wn_paths out q =? 0).

(* Xor = Union minus Intersection *)
Definition bad_xor (pts : list pt) (X U I : paths) : list pt :=
  filter (fun q => negb (Bool.eqb (sol_in X q) (sol_in U q && negb (sol_in I q)))) pts.

(* Difference and Intersection partition the subject region Sb *)
Definition bad_partition (pts : list pt) (D I Sb : paths) : list pt :=
  filter (fun q => negb (Bool.eqb (xorb (sol_in D q) (sol_in I q)) (sol_in Sb q)) || (sol_in D q && sol_in I q)) pts.

(* out' is the solution for the mapped input: q in out  <->  m q in out' *)
Definition bad_map (m : pmap) (pts : list pt) (out out' : paths) : list pt :=
  filter (fun q => negb (Bool.eqb (sol_in out q) (sol_in out' (apply_pmap m q)))) pts.

Lemma bad_xor_sound pts X U I : bad_xor pts X U I = [] ->
  forall q, In q pts -> sol_in X q = sol_in U q && negb (sol_in I q).
Proof.
  unfold bad_xor. intros H q Hq.
  destruct (Bool.eqb (sol_in X q) (sol_in U q && negb (sol_in I q))) eqn:E; [apply Bool.eqb_prop, E|].
  assert (In q []) as [].
  rewrite <- H. apply filter_In. split; [exact Hq|]. rewrite E. reflexivity.
Qed.

Lemma bad_partition_sound pts D I Sb : bad_partition pts D I Sb = [] ->
  forall q, In q pts -> xorb (sol_in D q) (sol_in I q) = sol_in Sb q /\ sol_in D q && sol_in I q = false.
Proof.
  unfold bad_partition. intros H q Hq.
  destruct (negb (Bool.eqb (xorb (sol_in D q) (sol_in I q)) (sol_in Sb q)) || (sol_in D q && sol_in I q)) eqn:E.
  - assert (In q []) as []. rewrite <- H. apply filter_In. split; [exact Hq|exact E].
  - apply Bool.orb_false_iff in E. destruct E as [E1 E2]. split; [|exact E2].
    apply Bool.negb_false_iff, Bool.eqb_prop in E1. exact E1.
Qed.

Lemma bad_map_sound m pts out out' : bad_map m pts out out' = [] ->
  forall q, In q pts -> sol_in out q = sol_in out' (apply_pmap m q).
Proof.
  unfold bad_map. intros H q Hq.
  destruct (Bool.eqb (sol_in out q) (sol_in out' (apply_pmap m q))) eqn:E; [apply Bool.eqb_prop, E|].
  assert (In q []) as [].
  rewrite <- H. apply filter_In. split; [exact Hq|]. rewrite E. reflexivity.
Qed.
