(* C08 -- soundness of the sample checker model/RectClipCheck.v.

   far_fast_eq        the multiplication-free shortcut of the distance test is exact: far_fast T = farther_from T 1
   bad_samples_sound  no failing sample  ==>  at EVERY sample point handed to the checker that is farther than 2 units from
                      the input path (strictly; doubled coordinates: > 4 from the doubled path):
                        strictly inside the rectangle: sum of output winding numbers = input winding number and no output path
                        winds against the input's orientation (simple input) / same parity (non-simple, no edge along a side);
                        outside the rectangle: output winding number 0 (simple) / even (non-simple)
   vertices_sound     the two vertex clauses for every output vertex
   The statement is about the points of the sample list only: it is NOT lifted to all points of the plane. *)
From Clip Require Import base.Geom base.Winding base.Dist model.RectLeaf model.RectClipCheck.
From Coq Require Import ZArith List Bool Lia.
Local Open Scope Z_scope.

(* ====================================================================== the distance shortcut *)
Lemma sq_le_mono a b : 0 <= a <= b -> sq a <= sq b.
Proof. intros H. unfold sq. nia. Qed.

Lemma sq_abs_le a b : Z.abs a <= Z.abs b -> sq a <= sq b.
Proof. intros H. unfold sq. nia. Qed.

(* Lagrange: L * cross^2 = (L*vx - t*ux)^2 + (L*vy - t*uy)^2 with u = b - a, v = q - a, t = u.v, L = |u|^2 *)
Lemma cross_foot a b q :
  let ux := px b - px a in let uy := py b - py a in
  let vx := px q - px a in let vy := py q - py a in
  let t := vx * ux + vy * uy in let L := dist2_pp a b in
  L * sq (cross a b q) = sq (L * vx - t * ux) + sq (L * vy - t * uy).
Proof. unfold cross, dist2_pp, sq. cbv zeta. ring. Qed.

(* one coordinate: if x is more than T beyond [min a b, max a b] then every point a + (t/L)(b - a), 0 <= t <= L, too *)
Lemma foot_gap T L t xa xb xq :
  0 <= T -> 0 < L -> 0 <= t <= L ->
  (T < Z.min xa xb - xq \/ T < xq - Z.max xa xb) ->
  L * L * (T * T) < (L * (xq - xa) - t * (xb - xa)) * (L * (xq - xa) - t * (xb - xa)).
Proof.
  intros HT HL Ht Hg.
  (* L (xq - xa) - t (xb - xa) = (L - t)(xq - xa) + t (xq - xb) *)
  set (A := xq - xa). set (B := xq - xb).
  replace (L * (xq - xa) - t * (xb - xa)) with ((L - t) * A + t * B) by (unfold A, B; ring).
  destruct Hg as [Hg|Hg].
  - assert (A < - T) by (unfold A; lia). assert (B < - T) by (unfold B; lia).
    assert ((L - t) * A + t * B <= - (L * T) - 1 \/ (L - t) * A + t * B < - (L * T)) as Hlt by (right; nia).
    nia.
  - assert (T < A) by (unfold A; lia). assert (T < B) by (unfold B; lia).
    assert (L * T < (L - t) * A + t * B) by nia.
    nia.
Qed.

Lemma gap_far T q e : 0 <= T -> gap_gt T q e = true -> seg_farther T 1 q e = true.
Proof.
  intros HT. destruct e as [a b]. unfold gap_gt, seg_farther, dist2_pt_seg. cbv zeta.
  intros Hg.
  assert (Hgx : (T < Z.min (px a) (px b) - px q \/ T < px q - Z.max (px a) (px b))
                \/ (T < Z.min (py a) (py b) - py q \/ T < py q - Z.max (py a) (py b))).
  { repeat (apply orb_true_iff in Hg; destruct Hg as [Hg|Hg]); apply Z.ltb_lt in Hg; lia. }
  clear Hg.
  assert (Hend : forall c, (px c = px a \/ px c = px b) -> (py c = py a \/ py c = py b) -> sq T * 1 < dist2_pp q c * sq 1).
  { intros c Hcx Hcy. unfold dist2_pp, sq. destruct Hgx as [Hg|Hg].
    - assert (T < Z.abs (px q - px c)) by lia. pose proof (Z.square_nonneg (py q - py c)). nia.
    - assert (T < Z.abs (py q - py c)) by lia. pose proof (Z.square_nonneg (px q - px c)). nia. }
  destruct (dist2_pp a b =? 0) eqn:E0; [apply Z.ltb_lt, Hend; auto|].
  destruct (_ <=? 0) eqn:E1; [apply Z.ltb_lt, Hend; auto|].
  destruct (dist2_pp a b <=? _) eqn:E2; [apply Z.ltb_lt, Hend; auto|].
  apply Z.eqb_neq in E0. apply Z.leb_gt in E1. apply Z.leb_gt in E2. apply Z.ltb_lt.
  set (L := dist2_pp a b) in *.
  set (t := (px q - px a) * (px b - px a) + (py q - py a) * (py b - py a)) in *.
  assert (HL : 0 < L).
  { unfold L, dist2_pp, sq in *. pose proof (Z.square_nonneg (px a - px b)). pose proof (Z.square_nonneg (py a - py b)). lia. }
  pose proof (cross_foot a b q) as HF. cbv zeta in HF. fold L in HF. fold t in HF.
  (* L * cross^2 >= (one coordinate)^2 > L^2 T^2, hence cross^2 > L T^2 *)
  assert (L * L * (T * T) < L * sq (cross a b q)) as Hlt.
  { rewrite HF. unfold sq. destruct Hgx as [Hg|Hg].
    - pose proof (foot_gap T L t (px a) (px b) (px q) HT HL ltac:(lia) Hg).
      pose proof (Z.square_nonneg (L * (py q - py a) - t * (py b - py a))). lia.
    - pose proof (foot_gap T L t (py a) (py b) (py q) HT HL ltac:(lia) Hg).
      pose proof (Z.square_nonneg (L * (px q - px a) - t * (px b - px a))). lia. }
  unfold sq in *. nia.
Qed.

Theorem far_fast_eq T es q : 0 <= T -> far_fast T es q = farther_from T 1 es q.
Proof.
  intros HT. unfold far_fast, farther_from. induction es as [|e es IH]; [reflexivity|].
  cbn [forallb]. rewrite IH. f_equal.
  destruct (gap_gt T q e) eqn:G; [cbn [orb]; symmetry; apply gap_far; assumption|reflexivity].
Qed.

(* what "farther than tn/td" means: the exact squared distance num/den satisfies (tn/td)^2 < num/den *)
Lemma seg_farther_spec tn td q e :
  seg_farther tn td q e = true <-> sq tn * snd (dist2_pt_seg q e) < fst (dist2_pt_seg q e) * sq td.
Proof. unfold seg_farther. destruct (dist2_pt_seg q e) as [n d]. cbn [fst snd]. apply Z.ltb_lt. Qed.

(* ====================================================================== the point-wise clauses *)
(* the statement of the property at one sample point q (doubled coordinates) *)
Definition point_spec (r : rect) (p : path) (out : paths) (q : pt) : Prop :=
  let in2 := dbl_path p in let out2 := dbl_paths out in
  (strictly_inside2 r q = true ->
     match classify r p with
     | 0 => wn_paths out2 q = wn in2 q
            /\ (forall o, In o out2 -> wn o q = 0 \/ Z.sgn (wn o q) = Z.sgn (area2 in2))
     | 1 => Z.even (wn_paths out2 q - wn in2 q) = true
     | _ => True
     end)
  /\ (outside2 r q = true ->
     match classify r p with
     | 0 => wn_paths out2 q = 0
     | _ => Z.even (wn_paths out2 q) = true
     end).

Lemma orient_at_sound s out2 q : orient_at s out2 q = true -> forall o, In o out2 -> wn o q = 0 \/ Z.sgn (wn o q) = s.
Proof.
  unfold orient_at. intros H o Ho. rewrite forallb_forall in H. specialize (H o Ho). cbv zeta in H.
  apply orb_true_iff in H. destruct H as [H|H]; apply Z.eqb_eq in H; auto.
Qed.

Lemma sample_code_sound r p out q :
  sample_code r (classify r p) (Z.sgn (area2 (dbl_path p))) (dbl_path p) (dbl_paths out) q = 0 ->
  farther_from 4 1 (cyc_edges (dbl_path p)) q = true -> point_spec r p out q.
Proof.
  unfold sample_code, point_spec. cbv zeta. rewrite far_fast_eq by lia. intros H Hfar. rewrite Hfar in H.
  assert (Hcls : classify r p = 0 \/ classify r p = 1 \/ classify r p = 2).
  { unfold classify. destruct (simpleb p); [auto|]. destruct (any_edge_along r p); auto. }
  assert (Hio : strictly_inside2 r q = true -> outside2 r q = false).
  { unfold strictly_inside2, outside2. intros Hi. repeat (apply andb_true_iff in Hi; destruct Hi as [Hi ?]).
    repeat match goal with H : (_ <? _) = true |- _ => apply Z.ltb_lt in H end.
    repeat (apply orb_false_iff; split); apply Z.ltb_ge; lia. }
  destruct (strictly_inside2 r q) eqn:Hi.
  - split; [intros _|intros Ho; rewrite (Hio eq_refl) in Ho; discriminate].
    destruct Hcls as [C|[C|C]]; rewrite C in *; cbn [Z.eqb] in H |- *; [| |exact I].
    + destruct (wn_paths (dbl_paths out) q =? wn (dbl_path p) q) eqn:E; [|discriminate].
      apply Z.eqb_eq in E. split; [exact E|].
      destruct (orient_at _ _ q) eqn:EO; [|discriminate]. apply (orient_at_sound _ _ _ EO).
    + destruct (Z.even _) eqn:E; [reflexivity|discriminate].
  - split; [intros Hx; discriminate|intros Ho]. rewrite Ho in H.
    destruct Hcls as [C|[C|C]]; rewrite C in *; cbn [Z.eqb] in H |- *.
    + destruct (wn_paths (dbl_paths out) q =? 0) eqn:E; [apply Z.eqb_eq in E; exact E|discriminate].
    + destruct (Z.even _) eqn:E; [reflexivity|discriminate].
    + destruct (Z.even _) eqn:E; [reflexivity|discriminate].
Qed.

Theorem bad_samples_sound r p out pts :
  bad_samples r p out pts = [] ->
  forall q, In q pts -> farther_from 4 1 (cyc_edges (dbl_path p)) q = true -> point_spec r p out q.
Proof.
  unfold bad_samples. cbv zeta. intros H q Hq Hfar.
  induction pts as [|x pts IH]; [destruct Hq|].
  cbn [flat_map] in H. apply app_eq_nil in H. destruct H as [H1 H2].
  destruct Hq as [->|Hq]; [|apply IH; assumption].
  apply sample_code_sound; [|exact Hfar].
  destruct (sample_code _ _ _ _ _ q =? 0) eqn:E; [apply Z.eqb_eq in E; exact E|discriminate].
Qed.

(* ====================================================================== the vertex clauses *)
Definition within_b_spec (r : rect) (s : Z) (v : pt) : Prop :=
  r_left r - s <= px v <= r_right r + s /\ r_top r - s <= py v <= r_bottom r + s.

Lemma in_rect_b_spec r s v : in_rect_b r s v = true <-> within_b_spec r s v.
Proof.
  unfold in_rect_b, within_b_spec. rewrite !andb_true_iff, !Z.leb_le. lia.
Qed.

(* squared Euclidean distance from v to the nearest point of the rectangle's boundary is at most 1:
   v is within the closed rectangle and at most 1 from one of the four side lines, or outside with squared distance
   to the rectangle <= 1 *)
Definition near_boundary (r : rect) (v : pt) : Prop :=
  let dx := gap (r_left r) (r_right r) (px v) in let dy := gap (r_top r) (r_bottom r) (py v) in
  (dx = 0 /\ dy = 0 /\ (px v - r_left r <= 1 \/ r_right r - px v <= 1 \/ py v - r_top r <= 1 \/ r_bottom r - py v <= 1))
  \/ ((dx <> 0 \/ dy <> 0) /\ dx * dx + dy * dy <= 1).

Lemma near_boundary_b_spec r v : near_boundary_b r v = true -> near_boundary r v.
Proof.
  unfold near_boundary_b, near_boundary. cbv zeta.
  destruct (Z.eqb_spec (gap (r_left r) (r_right r) (px v)) 0) as [Ex|Ex];
    destruct (Z.eqb_spec (gap (r_top r) (r_bottom r) (py v)) 0) as [Ey|Ey]; cbn [andb];
    intros H; apply Z.leb_le in H.
  - left. split; [exact Ex|split; [exact Ey|lia]].
  - right. split; [right; exact Ey|exact H].
  - right. split; [left; exact Ex|exact H].
  - right. split; [left; exact Ex|exact H].
Qed.

Lemma mem_pt_In v l : mem_pt v l = true <-> In v l.
Proof.
  unfold mem_pt. rewrite existsb_exists. split.
  - intros (x & Hx & E). apply pt_eqb_eq in E. subst. exact Hx.
  - intros H. exists v. split; [exact H|apply pt_eqb_refl].
Qed.

Theorem vertices_sound r p out :
  bad_vertices r out = [] -> bad_new_vertices r p out = [] ->
  forall o v, In o out -> In v o -> within_b_spec r 1 v /\ (~ In v p -> near_boundary r v).
Proof.
  unfold bad_vertices, bad_new_vertices. intros H1 H2 o v Ho Hv.
  assert (Hc : In v (concat out)) by (apply in_concat; exists o; split; assumption).
  split.
  - apply in_rect_b_spec. destruct (in_rect_b r 1 v) eqn:E; [reflexivity|].
    assert (In v (filter (fun v => negb (in_rect_b r 1 v)) (concat out))) as Hin by (apply filter_In; split; [exact Hc|rewrite E; reflexivity]).
    rewrite H1 in Hin. destruct Hin.
  - intros Hn. apply near_boundary_b_spec. destruct (near_boundary_b r v) eqn:E; [reflexivity|].
    assert (mem_pt v p = false) as Hm.
    { destruct (mem_pt v p) eqn:M; [apply mem_pt_In in M; contradiction|reflexivity]. }
    assert (In v (filter (fun v => negb (mem_pt v p) && negb (near_boundary_b r v)) (concat out))) as Hin
        by (apply filter_In; split; [exact Hc|rewrite Hm, E; reflexivity]).
    rewrite H2 in Hin. destruct Hin.
Qed.

(* ====================================================================== the whole verdict *)
Lemma all_inside_spec r p : all_inside r p = true <-> forall v, In v p -> within_b_spec r 0 v.
Proof.
  unfold all_inside. rewrite forallb_forall. split; intros H v Hv; apply in_rect_b_spec, H, Hv.
Qed.

Lemma path_eqb_eq a : forall b, path_eqb a b = true -> a = b.
Proof.
  induction a as [|x a IH]; intros [|y b]; cbn [path_eqb]; try discriminate; [reflexivity|].
  intros H. apply andb_true_iff in H. destruct H as [H1 H2]. apply pt_eqb_eq in H1. subst. f_equal. apply IH, H2.
Qed.

Lemma paths_eqb_eq a : forall b, paths_eqb a b = true -> a = b.
Proof.
  induction a as [|x a IH]; intros [|y b]; cbn [paths_eqb]; try discriminate; [reflexivity|].
  intros H. apply andb_true_iff in H. destruct H as [H1 H2]. apply path_eqb_eq in H1. subst. f_equal. apply IH, H2.
Qed.

Theorem chk_sound r p out pts :
  verdict_ok (chk r p out pts) = true ->
  (* winding / orientation / outside clauses at every sample point farther than 2 units from the input path *)
  (forall q, In q pts -> farther_from 4 1 (cyc_edges (dbl_path p)) q = true -> point_spec r p out q)
  (* every output vertex within rect + 1, every new vertex within 1 of the boundary *)
  /\ (forall o v, In o out -> In v o -> within_b_spec r 1 v /\ (~ In v p -> near_boundary r v))
  (* polygons with every vertex in the closed rectangle are returned unchanged *)
  /\ ((forall v, In v p -> within_b_spec r 0 v) -> out = [p])
  (* polygons that miss the rectangle vanish *)
  /\ (misses_rect r p = true -> out = []).
Proof.
  unfold verdict_ok, chk. cbn [v_bad_vertices v_bad_new v_bad_samples v_inside_ok v_outside_ok].
  destruct (bad_vertices r out) eqn:B1; [|discriminate].
  destruct (bad_new_vertices r p out) eqn:B2; [|discriminate].
  destruct (bad_samples r p out pts) eqn:B3; [|discriminate].
  intros H. apply andb_true_iff in H. destruct H as [HI HO].
  split; [apply bad_samples_sound, B3|]. split; [apply vertices_sound; assumption|]. split.
  - intros Hall. unfold inside_unchanged_ok in HI. apply all_inside_spec in Hall. rewrite Hall in HI. cbn [negb orb] in HI.
    apply paths_eqb_eq, HI.
  - intros Hm. unfold outside_vanish_ok in HO. rewrite Hm in HO. cbn [negb orb] in HO. destruct out; [reflexivity|discriminate].
Qed.

(* the hypotheses are satisfiable and the conclusion is not vacuous: a verdict that is ok, with a sample point that is far
   from the path, strictly inside the rectangle, for a simple input *)
Example chk_sound_inhabited :
  let r := sq10 in let p := [(-5, 5); (5, -5); (5, 5)] in let out := [[(5, 5); (0, 5); (0, 0); (5, 0)]] in
  verdict_ok (chk r p out [(5, 5); (-7, -7)]) = true
  /\ farther_from 4 1 (cyc_edges (dbl_path p)) (5, 5) = true /\ strictly_inside2 r (5, 5) = true /\ classify r p = 0
  /\ wn (dbl_path p) (5, 5) = 1
  /\ farther_from 4 1 (cyc_edges (dbl_path p)) (-7, -7) = true /\ outside2 r (-7, -7) = true.
Proof. vm_compute. repeat split. Qed.
