(* Main theorems about the sweep model: every well-formed event preserves the invariant, so it holds in every
   reachable state; consequences: no failure (succeeded_ stays true), hot <-> contributing <-> region boundary,
   net winding of the solution along a scanline is 1 inside the specified region and 0 outside. *)
From Clip Require Import base.Geom base.Region model.Sweep1D
     proofs.Sweep1D_contrib proofs.Sweep1D_arith proofs.Sweep1D_bool proofs.Sweep1D_swap proofs.Sweep1D_open
     proofs.Sweep1D_inv proofs.Sweep1D_insert.
From Coq Require Import ZifyBool Lia.
Local Open Scope Z_scope.

Theorem step_preserves ct fr a ev :
  ct <> NoClip -> inv_b ct fr a = true -> wf_event a ev = true ->
  exists a', step ct fr a ev = Some a' /\ inv_b ct fr a' = true.
Proof.
  intros Hct Hinv Hwf. destruct ev as [pos pt dl opn | pos d | i same | i | i].
  - destruct opn; [apply insert_open2_preserves | apply insert_closed_preserves]; assumption.
  - apply insert_open1_preserves; assumption.
  - destruct (swap_preserves ct fr a i same Hct Hinv Hwf) as (a' & H1 & H2 & _). exists a'. split; assumption.
  - apply remove_preserves; assumption.
  - apply remove1_preserves; assumption.
Qed.

(* a trace is well formed when each event is well formed in the state it is applied to *)
Fixpoint wf_trace (ct : clip_type) (fr : fill_rule) (a : ael) (evs : list event) : bool :=
  match evs with
  | [] => true
  | ev :: t => wf_event a ev &&
               match step ct fr a ev with Some a' => wf_trace ct fr a' t | None => true end
  end.

Theorem run_preserves ct fr evs : forall a,
  ct <> NoClip -> inv_b ct fr a = true -> wf_trace ct fr a evs = true ->
  exists a', run ct fr a evs = Some a' /\ inv_b ct fr a' = true.
Proof.
  induction evs as [|ev t IH]; intros a Hct Hinv Hwf.
  - exists a. split; [reflexivity|exact Hinv].
  - cbn [wf_trace] in Hwf. apply andb_prop in Hwf. destruct Hwf as [Hev Ht].
    destruct (step_preserves ct fr a ev Hct Hinv Hev) as (a1 & Hs & Hi).
    cbn [run]. rewrite Hs in *. apply IH; assumption.
Qed.

Theorem reachable_inv ct fr evs :
  ct <> NoClip -> wf_trace ct fr [] evs = true ->
  exists a, run ct fr [] evs = Some a /\ inv_b ct fr a = true.
Proof. intros Hct Hwf. apply run_preserves; [exact Hct|reflexivity|exact Hwf]. Qed.

(* the engine never clears succeeded_ on a well-formed trace *)
Corollary never_fails ct fr evs :
  ct <> NoClip -> wf_trace ct fr [] evs = true -> run ct fr [] evs <> None.
Proof. intros Hct Hwf. destruct (reachable_inv ct fr evs Hct Hwf) as (a & -> & _). discriminate. Qed.

(* ---------- consequences of the invariant ---------- *)

Definition b2z (b : bool) : Z := if b then 1 else 0.

Lemma net_winding_from ct fr l : forall ws wcl,
  inv_from ct fr ws wcl l = true ->
  zsum (map side_val l) =
  b2z (in_result ct fr (ws + Wsum Subj l) (wcl + Wsum Clp l)) - b2z (in_result ct fr ws wcl).
Proof.
  induction l as [|e l IH]; intros ws wcl H.
  - unfold Wsum; cbn [map zsum]. rewrite !Z.add_0_r. lia.
  - cbn [inv_from] in H. apply andb_prop in H. destruct H as [He Hl].
    cbn [map zsum]. rewrite (IH _ _ Hl), !Wsum_cons, !Z.add_assoc.
    unfold side_val. destruct (eopen e) eqn:Ho.
    + rewrite !contrib_open, !Z.add_0_r by exact Ho. lia.
    + unfold edge_ok in He. rewrite Ho in He. apply andb_prop in He. destruct He as [_ Hh].
      apply opt_side_eqb_eq in Hh. rewrite Hh.
      destruct (in_result ct fr ws wcl), (in_result ct fr (ws + contrib Subj e) (wcl + contrib Clp e));
        cbn [boundary_side b2z]; lia.
Qed.

(* walking right along a scanline from -infinity: after the first i edges the solution contours entered
   minus those left is 1 exactly when the region there belongs to the specified result *)
Theorem net_winding ct fr a i :
  inv_b ct fr a = true ->
  zsum (map side_val (firstn i a)) =
  b2z (in_result ct fr (Wsum Subj (firstn i a)) (Wsum Clp (firstn i a))).
Proof.
  intros H. unfold inv_b in H. rewrite <- (firstn_skipn i a), inv_from_app in H.
  apply andb_prop in H. destruct H as [H _].
  rewrite (net_winding_from ct fr _ 0 0 H), gin_zero, !Z.add_0_l. cbn [b2z]. lia.
Qed.

(* a closed edge of a reachable AEL is hot iff contributing iff it separates inside from outside *)
Theorem hot_iff_boundary ct fr pre e post :
  inv_b ct fr (pre ++ e :: post) = true -> eopen e = false ->
  is_hot e = is_contributing_closed ct fr e /\
  is_contributing_closed ct fr e =
    xorb (in_result ct fr (Wsum Subj pre) (Wsum Clp pre))
         (in_result ct fr (Wsum Subj pre + contrib Subj e) (Wsum Clp pre + contrib Clp e)).
Proof.
  intros H Ho. unfold inv_b in H. rewrite inv_from_app in H. apply andb_prop in H. destruct H as [_ H].
  rewrite !Z.add_0_l in H. cbn [inv_from] in H. apply andb_prop in H. destruct H as [He _].
  pose proof (contributing_is_boundary ct fr _ _ e Ho He) as Hc. unfold gin in Hc.
  split; [|exact Hc]. rewrite Hc.
  unfold edge_ok in He. rewrite Ho in He. apply andb_prop in He. destruct He as [_ Hh].
  apply opt_side_eqb_eq in Hh. unfold is_hot. rewrite Hh.
  destruct (in_result ct fr (Wsum Subj pre) (Wsum Clp pre)),
           (in_result ct fr (Wsum Subj pre + contrib Subj e) (Wsum Clp pre + contrib Clp e)); reflexivity.
Qed.

(* C05: an open-path edge of a reachable AEL is hot exactly where the open path is to be kept *)
Theorem open_hot_iff ct fr pre e post :
  inv_b ct fr (pre ++ e :: post) = true -> eopen e = true ->
  is_hot e = open_in_result ct fr (Wsum Subj pre) (Wsum Clp pre).
Proof.
  intros H Ho. unfold inv_b in H. rewrite inv_from_app in H. apply andb_prop in H. destruct H as [_ H].
  rewrite !Z.add_0_l in H. cbn [inv_from] in H. apply andb_prop in H. destruct H as [He _].
  apply edge_ok_open in He; [|exact Ho]. destruct He as [_ _ Hh]. unfold is_hot. rewrite Hh.
  destruct (open_in_result ct fr (Wsum Subj pre) (Wsum Clp pre)); reflexivity.
Qed.

(* C05: crossing an open edge never changes a closed edge (counts, hot flag, side) *)
Theorem open_crossing_leaves_closed_unchanged ct fr ph same e1 e2 :
  (eopen e1 = true -> eopen e2 = false ->
     exists o, intersect_edges ct fr ph same e1 e2 = Some (o, e2)) /\
  (eopen e1 = false -> eopen e2 = true ->
     exists o, intersect_edges ct fr ph same e1 e2 = Some (e1, o)).
Proof.
  split; intros H1 H2; unfold intersect_edges; rewrite H1, H2; cbn [orb andb]; eexists; reflexivity.
Qed.

(* the model's contribution table agrees with the specification for all 16 rule combinations: non-vacuity *)
Example inv_nonvacuous :
  let evs := [EInsert 0 Subj (-1) false; EInsert 1 Clp (-1) false; ESwap 2 false; ESwap 1 true; ERemove 0] in
  wf_trace Intersection NonZero [] evs = true /\
  exists a, run Intersection NonZero [] evs = Some a /\ inv_b Intersection NonZero a = true /\ length a = 2%nat.
Proof. cbv zeta. split; [vm_compute; reflexivity|]. eexists. vm_compute. repeat split; reflexivity. Qed.
