(* The two element instances of the export arrays satisfy the count law assumed by proofs/Export.v:
   converting a size_t count to an array element and back is the identity
   (int64_t: below 2^63; double, given as its bit pattern: below 2^53). *)
From Coq Require Import ZArith List Bool Lia.
From Clip Require Import model.Export.
Local Open Scope Z_scope.

Lemma toc_ofc_i64 n : 0 <= n < 2 ^ 63 -> toc_i64 (ofc_i64 n) = Some n.
Proof.
  intros H. unfold toc_i64, ofc_i64. destruct (n <? 0) eqn:E; [lia|reflexivity].
Qed.

Lemma toc_ofc_f64 n : 0 <= n < 2 ^ 53 -> toc_f64 (ofc_f64 n) = Some n.
Proof.
  intros [H0 H1]. unfold ofc_f64.
  destruct (n <=? 0) eqn:En.
  - assert (n = 0) by lia. subst n. reflexivity.
  - apply Z.leb_gt in En.
    set (k := Z.log2 n).
    assert (Hk : 2 ^ k <= n < 2 ^ (k + 1)).
    { pose proof (Z.log2_spec n En) as L. unfold k. rewrite <- Z.add_1_r in L. exact L. }
    assert (Hk0 : 0 <= k) by (unfold k; apply Z.log2_nonneg).
    assert (Hk52 : k <= 52).
    { assert (k < 53); [|lia]. unfold k. apply Z.log2_lt_pow2; lia. }
    set (p := 2 ^ (52 - k)).
    assert (Hp : 0 < p) by (unfold p; apply Z.pow_pos_nonneg; lia).
    assert (Hpq : p * 2 ^ k = 2 ^ 52).
    { unfold p. rewrite <- Z.pow_add_r by lia. f_equal. lia. }
    assert (Hpq1 : p * 2 ^ (k + 1) = 2 ^ 53).
    { unfold p. rewrite <- Z.pow_add_r by lia. f_equal. lia. }
    set (m := n * p - 2 ^ 52).
    assert (Hm : 0 <= m < 2 ^ 52) by (unfold m; nia).
    set (b := (1023 + k) * 2 ^ 52 + m).
    assert (Hb63 : b / 2 ^ 63 = 0).
    { apply Z.div_small. unfold b. split; [nia|].
      assert ((1023 + k) * 2 ^ 52 + m < 1076 * 2 ^ 52) by nia.
      assert (1076 * 2 ^ 52 < 2 ^ 63) by (vm_compute; reflexivity). lia. }
    assert (Hb52 : b / 2 ^ 52 = 1023 + k).
    { unfold b. rewrite Z.div_add_l by (vm_compute; discriminate). rewrite (Z.div_small m) by lia. lia. }
    assert (Hbm : b mod 2 ^ 52 = m).
    { unfold b. rewrite Z.add_comm, Z.mod_add by (vm_compute; discriminate). apply Z.mod_small. lia. }
    assert (He : (1023 + k) mod 2 ^ 11 = 1023 + k).
    { apply Z.mod_small. change (2 ^ 11) with 2048. lia. }
    unfold toc_f64. fold k. fold p. fold m. fold b.
    cbv zeta. rewrite Hb63, Hb52, Hbm, He.
    replace (1023 + k =? 2047) with false by (symmetry; apply Z.eqb_neq; lia).
    replace (1023 + k =? 0) with false by (symmetry; apply Z.eqb_neq; lia).
    assert (Hmant : 2 ^ 52 + m = n * p) by (unfold m; lia).
    rewrite Hmant.
    assert (Hv : (if 1075 <=? 1023 + k then n * p * 2 ^ (1023 + k - 1075) else n * p / 2 ^ (1075 - (1023 + k))) = n).
    { destruct (1075 <=? 1023 + k) eqn:E5.
      - apply Z.leb_le in E5. assert (k = 52) by lia.
        replace (1023 + k - 1075) with 0 by lia.
        assert (p = 1) by (unfold p; replace (52 - k) with 0 by lia; reflexivity). nia.
      - replace (1075 - (1023 + k)) with (52 - k) by lia. fold p. apply Z.div_mul. lia. }
    rewrite Hv.
    replace (n =? 0) with false by (symmetry; apply Z.eqb_neq; lia).
    replace (0 =? 1) with false by reflexivity.
    replace (2 ^ 64 <=? n) with false; [reflexivity|].
    symmetry. apply Z.leb_gt. assert (2 ^ 53 < 2 ^ 64) by (vm_compute; reflexivity). lia.
Qed.

(* ---------------------------------------------------------------- the generic lemmas at the two instances *)
From Clip Require Import proofs.Export.
Import ListNotations.

Lemma dec_enc_paths_i64 D (ps : cpaths Z) : (0 < D)%nat -> Forall (Forall (dims Z D)) ps ->
  Z.of_nat (length (i64_enc_paths D ps)) < 2 ^ 63 ->
  i64_dec_paths D (i64_enc_paths D ps) = Some (filter nonempty ps).
Proof. apply (dec_enc_paths Z ofc_i64 toc_i64 0 (2 ^ 63) toc_ofc_i64). Qed.

Lemma dec_enc_paths_f64 D (ps : cpaths Z) : (0 < D)%nat -> Forall (Forall (dims Z D)) ps ->
  Z.of_nat (length (f64_enc_paths D ps)) < 2 ^ 53 ->
  f64_dec_paths D (f64_enc_paths D ps) = Some (filter nonempty ps).
Proof. apply (dec_enc_paths Z ofc_f64 toc_f64 0 (2 ^ 53) toc_ofc_f64). Qed.

(* caller-built arrays (every path an entry, empty ones as [0; 0]) decode to exactly those paths *)
Lemma dec_hand_built_i64 D (ps : cpaths Z) : (0 < D)%nat -> Forall (Forall (dims Z D)) ps ->
  Z.of_nat (length (enc_paths_raw Z ofc_i64 0 ps)) < 2 ^ 63 ->
  i64_dec_paths D (enc_paths_raw Z ofc_i64 0 ps) = Some ps.
Proof. apply (dec_enc_paths_raw Z ofc_i64 toc_i64 0 (2 ^ 63) toc_ofc_i64). Qed.

Lemma dec_hand_built_f64 D (ps : cpaths Z) : (0 < D)%nat -> Forall (Forall (dims Z D)) ps ->
  Z.of_nat (length (enc_paths_raw Z ofc_f64 0 ps)) < 2 ^ 53 ->
  f64_dec_paths D (enc_paths_raw Z ofc_f64 0 ps) = Some ps.
Proof. apply (dec_enc_paths_raw Z ofc_f64 toc_f64 0 (2 ^ 53) toc_ofc_f64). Qed.

(* int64 arrays: the first element IS the length, the second the number of non-empty paths *)
Lemma enc_len_i64 D (ps : cpaths Z) : Forall (Forall (dims Z D)) ps ->
  hd 0 (i64_enc_paths D ps) = Z.of_nat (length (i64_enc_paths D ps)) /\
  nth 1 (i64_enc_paths D ps) 0 = Z.of_nat (length (filter nonempty ps)).
Proof.
  intros H. destruct (enc_len Z ofc_i64 0 D ps H) as [H0 H1].
  unfold i64_enc_paths in *. split.
  - destruct (enc_paths Z ofc_i64 0 D ps) as [|x l]; [discriminate|].
    cbn [nth_error hd] in *. unfold ofc_i64 in *. congruence.
  - destruct (enc_paths Z ofc_i64 0 D ps) as [|x [|y l]]; try discriminate.
    cbn [nth_error nth] in *. unfold ofc_i64 in *. congruence.
Qed.

(* the hypotheses are satisfiable (D = 2 and D = 3, with an empty path in the set) *)
Example hyp_sat_2 :
  let ps := [[[0;0];[5;0];[5;5]]; []; [[7;8]]] in
  (0 < 2)%nat /\ Forall (Forall (dims Z 2)) ps /\ Z.of_nat (length (i64_enc_paths 2 ps)) < 2 ^ 53.
Proof. cbv zeta. split; [lia|]. split; [repeat constructor|vm_compute; reflexivity]. Qed.

Example hyp_sat_3 :
  let ps := [[[0;0;11];[5;0;12]]; []] in
  (0 < 3)%nat /\ Forall (Forall (dims Z 3)) ps /\ Z.of_nat (length (f64_enc_paths 3 ps)) < 2 ^ 53.
Proof. cbv zeta. split; [lia|]. split; [repeat constructor|vm_compute; reflexivity]. Qed.

Example hyp_sat_raw :
  let ps := [[[0;0;11];[5;0;12]]; []; [[7;8;9]]] in
  (0 < 3)%nat /\ Forall (Forall (dims Z 3)) ps /\ Z.of_nat (length (enc_paths_raw Z ofc_f64 0 ps)) < 2 ^ 53
  /\ filter nonempty ps <> ps.
Proof. cbv zeta. split; [lia|]. split; [repeat constructor|]. split; [vm_compute; reflexivity|discriminate]. Qed.

Example hyp_sat_tree :
  let ch := [PNode [[0;0];[9;0];[9;9]] [PNode [[1;1];[2;1];[2;2]] []]; PNode [[20;20]] []] in
  Forall (tdims Z 2) ch /\ exists a, enc_tree Z ofc_i64 2 (PNode [] ch) = Some a /\ Z.of_nat (length a) < 2 ^ 53.
Proof.
  cbv zeta. split.
  - repeat (constructor; repeat constructor).
  - eexists. split; [reflexivity|vm_compute; reflexivity].
Qed.
