(* C02 — soundness of the exact rectilinear checker model/RectCheck.v.

   Main results
     wn_cell_const        : the winding number of a rectilinear path with vertices on GX x GY is the same at any two
                            points lying on the same side of every grid value (i.e. in the same open cell)
     rect_check_sound     : rect_check S C out ct fr = true lifts to EVERY rational point off the grid lines
                            (points with denominator k, for every k > 0), plus the area and vertex clauses
     spec_scale_translate : the specification commutes with integer scaling (k > 0) and lattice translation *)
From Clip Require Import base.Geom base.Winding base.Region model.RectCheck.
Local Open Scope Z_scope.

(* ====================================================================== sorted distinct coordinates *)
Fixpoint ssorted (l : list Z) : Prop :=
  match l with
  | [] => True
  | a :: t => (forall x, In x t -> a < x) /\ ssorted t
  end.

Lemma insert_u_In x y l : In y (insert_u x l) <-> y = x \/ In y l.
Proof.
  induction l as [|z l IH]; cbn [insert_u In].
  - split; [intros [H|[]]; auto|intros [H|[]]; auto].
  - destruct (x <? z) eqn:E1; [cbn [In]; split; intros H; intuition congruence|].
    destruct (x =? z) eqn:E2.
    + apply Z.eqb_eq in E2. subst z. cbn [In]. split; intros H; intuition congruence.
    + cbn [In]. rewrite IH. split; intros H; intuition congruence.
Qed.

Lemma insert_u_sorted x l : ssorted l -> ssorted (insert_u x l).
Proof.
  induction l as [|z l IH]; cbn [insert_u ssorted]; intros H.
  - split; [intros ? []|exact I].
  - destruct H as [Hz Hl].
    destruct (x <? z) eqn:E1.
    + apply Z.ltb_lt in E1. cbn [ssorted]. split; [|split; assumption].
      intros y [<-|Hy]; [exact E1|]. specialize (Hz y Hy). lia.
    + apply Z.ltb_ge in E1. destruct (x =? z) eqn:E2.
      * cbn [ssorted]. split; assumption.
      * apply Z.eqb_neq in E2. cbn [ssorted]. split; [|apply IH, Hl].
        intros y Hy. apply insert_u_In in Hy. destruct Hy as [->|Hy]; [lia|apply Hz, Hy].
Qed.

Lemma sortu_In y l : In y (sortu l) <-> In y l.
Proof.
  induction l as [|x l IH]; cbn [sortu fold_right In]; [tauto|].
  fold (sortu l). rewrite insert_u_In, IH. split; intros H; intuition congruence.
Qed.

Lemma sortu_sorted l : ssorted (sortu l).
Proof.
  induction l as [|x l IH]; cbn [sortu fold_right]; [exact I|]. apply insert_u_sorted, IH.
Qed.

Lemma xs_of_In ps p v : In p ps -> In v p -> In (px v) (xs_of ps).
Proof.
  intros Hp Hv. unfold xs_of, vertices. apply sortu_In, in_map, in_concat. exists p. split; assumption.
Qed.

Lemma ys_of_In ps p v : In p ps -> In v p -> In (py v) (ys_of ps).
Proof.
  intros Hp Hv. unfold ys_of, vertices. apply sortu_In, in_map, in_concat. exists p. split; assumption.
Qed.

(* ====================================================================== cell representatives *)
(* For a target coordinate t (expressed at scale k) that is not on a grid line k*x, some representative r (at scale 2)
   lies on the same side of every grid line. *)
Lemma reps_from_spec k t l : 0 < k -> forall a,
  ssorted (a :: l) -> k * a < t -> (forall x, In x l -> k * x <> t) ->
  exists r w, In (r, w) (reps_from a l) /\ 2 * a < r /\
    forall x, In x l -> (k * x < t <-> 2 * x < r) /\ (t < k * x <-> r < 2 * x).
Proof.
  intros Hk. induction l as [|b l IH]; intros a Hs Ha Hne.
  - exists (2 * a + 1), 0. cbn [reps_from In]. split; [left; reflexivity|]. split; [lia|intros ? []].
  - cbn [ssorted] in Hs. destruct Hs as [Hab [Hbl Hl]].
    assert (a < b) as Hab' by (apply Hab; left; reflexivity).
    destruct (Z.lt_ge_cases (k * b) t) as [Hbt|Hbt].
    + destruct (IH b) as (r & w & Hin & Hbr & Hx).
      * cbn [ssorted]. split; assumption.
      * exact Hbt.
      * intros x Hx. apply Hne. right. exact Hx.
      * exists r, w. cbn [reps_from In]. split; [right; exact Hin|]. split; [lia|].
        intros x [<-|Hxl]; [lia|apply Hx, Hxl].
    + assert (k * b <> t) as Hbne by (apply Hne; left; reflexivity).
      exists (a + b), (b - a). cbn [reps_from In]. split; [left; reflexivity|]. split; [lia|].
      intros x Hx. assert (b <= x) as Hbx.
      { destruct Hx as [<-|Hx]; [lia|]. specialize (Hbl x Hx). lia. }
      nia.
Qed.

Lemma reps_spec k t l : 0 < k -> ssorted l -> (forall x, In x l -> k * x <> t) ->
  exists r w, In (r, w) (reps l) /\
    forall x, In x l -> (k * x < t <-> 2 * x < r) /\ (t < k * x <-> r < 2 * x).
Proof.
  intros Hk Hs Hne. destruct l as [|a l].
  - exists 0, 0. split; [left; reflexivity|intros ? []].
  - assert (k * a <> t) as Hane by (apply Hne; left; reflexivity).
    destruct (Z.lt_ge_cases (k * a) t) as [Hat|Hat].
    + destruct (reps_from_spec k t l Hk a Hs Hat) as (r & w & Hin & Har & Hx).
      { intros x Hx. apply Hne. right. exact Hx. }
      exists r, w. cbn [reps In]. split; [right; exact Hin|].
      intros x [<-|Hxl]; [lia|apply Hx, Hxl].
    + exists (2 * a - 1), 0. cbn [reps In]. split; [left; reflexivity|].
      intros x Hx. assert (a <= x) as Hax.
      { cbn [ssorted] in Hs. destruct Hs as [Hs _]. destruct Hx as [<-|Hx]; [lia|]. specialize (Hs x Hx). lia. }
      nia.
Qed.

Lemma cells_In X Y rx w ry h :
  In (rx, w) (reps X) -> In (ry, h) (reps Y) -> In ((rx, ry), 2 * w * h) (cells X Y).
Proof.
  intros Hx Hy. unfold cells. apply in_flat_map. exists (rx, w). split; [exact Hx|].
  apply in_map_iff. exists (ry, h). split; [reflexivity|exact Hy].
Qed.

(* ====================================================================== rectilinear paths, cell constancy *)
Definition rectilinear (p : path) : Prop :=
  forall a b, In (a, b) (cyc_edges p) -> px a = px b \/ py a = py b.
Definition rectilinear_all (ps : paths) : Prop := forall p, In p ps -> rectilinear p.

Definition on_grid (GX GY : list Z) (p : path) : Prop :=
  forall v, In v p -> In (px v) GX /\ In (py v) GY.
Definition on_grid_all (GX GY : list Z) (ps : paths) : Prop := forall p, In p ps -> on_grid GX GY p.

(* a and b lie on the same side of (or both on) every grid value: the two points are in the same cell *)
Definition same_side (G : list Z) (a b : Z) : Prop :=
  forall g, In g G -> (g < a <-> g < b) /\ (a < g <-> b < g).

(* the textbook formulation: both strictly inside the same gap (lo, hi) between consecutive grid values *)
Definition in_gap (G : list Z) (lo hi a : Z) : Prop :=
  lo < a < hi /\ forall g, In g G -> g <= lo \/ hi <= g.

Lemma in_gap_same_side G lo hi a b : in_gap G lo hi a -> in_gap G lo hi b -> same_side G a b.
Proof. intros [Ha Hg] [Hb _] g Hin. specialize (Hg g Hin). lia. Qed.

Lemma open_edges_In a b l : In (a, b) (open_edges l) -> In a l /\ In b l.
Proof.
  induction l as [|x l IH]; [intros []|].
  destruct l as [|y l]; [intros []|].
  rewrite open_edges_cons2. intros [H|H].
  - inversion H; subst. split; [left; reflexivity|right; left; reflexivity].
  - destruct (IH H) as [Ha Hb]. split; right; assumption.
Qed.

Lemma cyc_edges_In a b p : In (a, b) (cyc_edges p) -> In a p /\ In b p.
Proof.
  destruct p as [|x t]; [intros []|]. unfold cyc_edges. intros H.
  apply open_edges_In in H. destruct H as [Ha Hb].
  split; [apply in_app_or in Ha; destruct Ha as [Ha|[<-|[]]]|apply in_app_or in Hb; destruct Hb as [Hb|[<-|[]]]];
    try assumption; left; reflexivity.
Qed.

(* The key step, straight from the definition of [edge_w]: a horizontal edge never contributes (py a <= py q < py b is
   impossible when py a = py b); for a vertical edge the crossing test depends only on the side of its x on which the
   query point lies and on whether the query's y is inside its half-open y-range. *)
Lemma edge_w_cell_const GX GY a b q q' :
  px a = px b \/ py a = py b ->
  In (px a) GX -> In (py a) GY -> In (py b) GY ->
  same_side GX (px q) (px q') -> same_side GY (py q) (py q') ->
  edge_w q (a, b) = edge_w q' (a, b).
Proof.
  intros Hax Hxa Hya Hyb Sx Sy.
  destruct (Sx _ Hxa) as [Sx1 Sx2]. destruct (Sy _ Hya) as [Sa1 Sa2]. destruct (Sy _ Hyb) as [Sb1 Sb2].
  unfold edge_w.
  assert ((py a <=? py q) = (py a <=? py q')) as -> by (destruct (Z.leb_spec (py a) (py q)), (Z.leb_spec (py a) (py q')); lia).
  assert ((py q <? py b) = (py q' <? py b)) as -> by (destruct (Z.ltb_spec (py q) (py b)), (Z.ltb_spec (py q') (py b)); lia).
  assert ((py b <=? py q) = (py b <=? py q')) as -> by (destruct (Z.leb_spec (py b) (py q)), (Z.leb_spec (py b) (py q')); lia).
  assert ((py q <? py a) = (py q' <? py a)) as -> by (destruct (Z.ltb_spec (py q) (py a)), (Z.ltb_spec (py q') (py a)); lia).
  destruct Hax as [Hv|Hh].
  - (* vertical edge *)
    assert (forall r, cross a b r = (py a - py b) * (px r - px a)) as Hc by (intros r; unfold cross; rewrite <- Hv; ring).
    rewrite !Hc.
    destruct (Z.leb_spec (py a) (py q')), (Z.ltb_spec (py q') (py b)); cbn [andb].
    + destruct (Z.ltb_spec 0 ((py a - py b) * (px q - px a))), (Z.ltb_spec 0 ((py a - py b) * (px q' - px a))); try reflexivity; nia.
    + destruct (Z.leb_spec (py b) (py q')), (Z.ltb_spec (py q') (py a)); cbn [andb]; try reflexivity.
      destruct (Z.ltb_spec ((py a - py b) * (px q - px a)) 0), (Z.ltb_spec ((py a - py b) * (px q' - px a)) 0); try reflexivity; nia.
    + destruct (Z.leb_spec (py b) (py q')), (Z.ltb_spec (py q') (py a)); cbn [andb]; try reflexivity.
      destruct (Z.ltb_spec ((py a - py b) * (px q - px a)) 0), (Z.ltb_spec ((py a - py b) * (px q' - px a)) 0); try reflexivity; nia.
    + destruct (Z.leb_spec (py b) (py q')), (Z.ltb_spec (py q') (py a)); cbn [andb]; try reflexivity.
      destruct (Z.ltb_spec ((py a - py b) * (px q - px a)) 0), (Z.ltb_spec ((py a - py b) * (px q' - px a)) 0); try reflexivity; nia.
  - (* horizontal edge: contributes 0 at both points *)
    rewrite <- Hh.
    destruct (Z.leb_spec (py a) (py q')), (Z.ltb_spec (py q') (py a)); cbn [andb]; try reflexivity; lia.
Qed.

Theorem wn_cell_const GX GY p q q' :
  rectilinear p -> on_grid GX GY p ->
  same_side GX (px q) (px q') -> same_side GY (py q) (py q') ->
  wn p q = wn p q'.
Proof.
  intros Hr Hg Sx Sy. unfold wn, wsum. apply zsum_map_ext. intros [a b] Hin.
  destruct (cyc_edges_In _ _ _ Hin) as [Ha Hb].
  apply (edge_w_cell_const GX GY); try assumption.
  - apply Hr, Hin.
  - apply (Hg a Ha).
  - apply (Hg a Ha).
  - apply (Hg b Hb).
Qed.

(* the same statement with "strictly between the same consecutive X values and the same consecutive Y values" *)
Corollary wn_cell_const_gap GX GY p q q' xlo xhi ylo yhi :
  rectilinear p -> on_grid GX GY p ->
  in_gap GX xlo xhi (px q) -> in_gap GX xlo xhi (px q') ->
  in_gap GY ylo yhi (py q) -> in_gap GY ylo yhi (py q') ->
  wn p q = wn p q'.
Proof.
  intros Hr Hg X1 X2 Y1 Y2. apply (wn_cell_const GX GY); try assumption; eapply in_gap_same_side; eassumption.
Qed.

Lemma wn_paths_cell_const GX GY ps q q' :
  rectilinear_all ps -> on_grid_all GX GY ps ->
  same_side GX (px q) (px q') -> same_side GY (py q) (py q') ->
  wn_paths ps q = wn_paths ps q'.
Proof.
  intros Hr Hg Sx Sy. unfold wn_paths. apply zsum_map_ext. intros p Hp.
  apply (wn_cell_const GX GY); auto.
Qed.

(* ====================================================================== scaling and translation *)
Lemma wn_paths_scale k ps q : 0 < k -> wn_paths (scale_paths k ps) (pscale k q) = wn_paths ps q.
Proof.
  intros Hk. unfold wn_paths, scale_paths, scale_path. rewrite map_map. apply f_equal, map_ext.
  intros p. apply wn_scale, Hk.
Qed.

Lemma wn_paths_translate d ps q : wn_paths (translate_paths d ps) (padd q d) = wn_paths ps q.
Proof.
  unfold wn_paths, translate_paths. rewrite map_map. apply f_equal, map_ext.
  intros p. apply wn_translate.
Qed.

Lemma pscale_pscale k m v : pscale k (pscale m v) = pscale (k * m) v.
Proof. unfold pscale, px, py; cbn [fst snd]. f_equal; ring. Qed.

Lemma scale_paths_scale_paths k m ps : scale_paths k (scale_paths m ps) = scale_paths (k * m) ps.
Proof.
  unfold scale_paths, scale_path. rewrite map_map. apply map_ext. intros p.
  rewrite map_map. apply map_ext. intros v. apply pscale_pscale.
Qed.

Theorem spec_scale_translate ct fr S C k d q : 0 < k ->
  spec_closed ct fr (translate_paths d (scale_paths k S)) (translate_paths d (scale_paths k C)) (padd (pscale k q) d)
  = spec_closed ct fr S C q.
Proof.
  intros Hk. unfold spec_closed. rewrite !wn_paths_translate, !wn_paths_scale by exact Hk. reflexivity.
Qed.

Lemma rectilinear_scale k p : rectilinear p -> rectilinear (scale_path k p).
Proof.
  intros Hr a b Hin. unfold scale_path in Hin. rewrite cyc_edges_map in Hin.
  apply in_map_iff in Hin. destruct Hin as ([a0 b0] & Heq & Hin). cbn [fst snd] in Heq.
  inversion Heq; subst. destruct (Hr _ _ Hin) as [H|H]; [left|right];
    unfold pscale, px, py in *; cbn [fst snd] in *; rewrite H; reflexivity.
Qed.

Lemma rectilinear_all_scale k ps : rectilinear_all ps -> rectilinear_all (scale_paths k ps).
Proof.
  intros Hr p Hp. unfold scale_paths in Hp. apply in_map_iff in Hp. destruct Hp as (p0 & <- & Hp0).
  apply rectilinear_scale, Hr, Hp0.
Qed.

Lemma on_grid_all_scale k GX GY ps :
  on_grid_all GX GY ps -> on_grid_all (map (Z.mul k) GX) (map (Z.mul k) GY) (scale_paths k ps).
Proof.
  intros Hg p Hp v Hv. unfold scale_paths in Hp. apply in_map_iff in Hp. destruct Hp as (p0 & <- & Hp0).
  unfold scale_path in Hv. apply in_map_iff in Hv. destruct Hv as (v0 & <- & Hv0).
  destruct (Hg p0 Hp0 v0 Hv0) as [Hx Hy].
  unfold pscale, px, py; cbn [fst snd]. split; apply in_map_iff; eexists; split; try reflexivity; assumption.
Qed.

(* ====================================================================== from one cell centre to the whole cell *)
(* c = (rx, ry) is a representative (scale 2) of the cell containing q (scale k) *)
Definition rep_of (X Y : list Z) (k : Z) (q c : pt) : Prop :=
  (forall x, In x X -> (k * x < px q <-> 2 * x < px c) /\ (px q < k * x <-> px c < 2 * x)) /\
  (forall y, In y Y -> (k * y < py q <-> 2 * y < py c) /\ (py q < k * y <-> py c < 2 * y)).

Lemma wn_paths_rep X Y ps k q c : 0 < k ->
  rectilinear_all ps -> on_grid_all X Y ps -> rep_of X Y k q c ->
  wn_paths (scale_paths k ps) q = wn_paths (dbl ps) c.
Proof.
  intros Hk Hr Hg [Rx Ry].
  rewrite <- (wn_paths_scale 2 (scale_paths k ps) q) by lia.
  unfold dbl. rewrite <- (wn_paths_scale k (scale_paths 2 ps) c) by exact Hk.
  rewrite !scale_paths_scale_paths. replace (k * 2) with (2 * k) by ring.
  apply (wn_paths_cell_const (map (Z.mul (2 * k)) X) (map (Z.mul (2 * k)) Y)).
  - apply rectilinear_all_scale, Hr.
  - apply on_grid_all_scale, Hg.
  - intros g Hgin. apply in_map_iff in Hgin. destruct Hgin as (x & <- & Hx).
    destruct (Rx x Hx) as [R1 R2]. unfold pscale, px, py in *; cbn [fst snd] in *. nia.
  - intros g Hgin. apply in_map_iff in Hgin. destruct Hgin as (y & <- & Hy).
    destruct (Ry y Hy) as [R1 R2]. unfold pscale, px, py in *; cbn [fst snd] in *. nia.
Qed.

Definition off_grid (GX GY : list Z) (q : pt) : Prop := ~ In (px q) GX /\ ~ In (py q) GY.

Lemma rep_exists X Y k q : 0 < k -> ssorted X -> ssorted Y ->
  off_grid (map (Z.mul k) X) (map (Z.mul k) Y) q ->
  exists c a, In (c, a) (cells X Y) /\ rep_of X Y k q c.
Proof.
  intros Hk HX HY [Ox Oy].
  destruct (reps_spec k (px q) X Hk HX) as (rx & w & Hrx & Px).
  { intros x Hx E. apply Ox. apply in_map_iff. exists x. split; assumption. }
  destruct (reps_spec k (py q) Y Hk HY) as (ry & h & Hry & Py).
  { intros y Hy E. apply Oy. apply in_map_iff. exists y. split; assumption. }
  exists (rx, ry), (2 * w * h). split; [apply cells_In; assumption|].
  split; assumption.
Qed.

(* ====================================================================== the boolean clauses mean what they say *)
Lemma memz_In x l : memz x l = true -> In x l.
Proof.
  unfold memz. intros H. apply existsb_exists in H. destruct H as (y & Hy & E).
  apply Z.eqb_eq in E. subst. exact Hy.
Qed.

Lemma vertices_on_grid_sound X Y out :
  vertices_on_grid X Y out = true -> Forall (fun v => In (px v) X /\ In (py v) Y) (vertices out).
Proof.
  unfold vertices_on_grid. intros H. apply Forall_forall. intros v Hv.
  rewrite forallb_forall in H. specialize (H v Hv). unfold vertex_on_grid in H.
  apply andb_true_iff in H. destruct H as [Hx Hy]. split; apply memz_In; assumption.
Qed.

Lemma vertices_on_grid_all X Y out : vertices_on_grid X Y out = true -> on_grid_all X Y out.
Proof.
  intros H p Hp v Hv. apply vertices_on_grid_sound in H. rewrite Forall_forall in H.
  apply H. unfold vertices. apply in_concat. exists p. split; assumption.
Qed.

Lemma rectilinearb_sound p : rectilinearb p = true -> rectilinear p.
Proof.
  unfold rectilinearb. intros H a b Hin. rewrite forallb_forall in H. specialize (H _ Hin).
  unfold edge_axis_parallel in H. apply orb_true_iff in H. destruct H as [H|H]; apply Z.eqb_eq in H; auto.
Qed.

Lemma rectilinearb_complete p : rectilinear p -> rectilinearb p = true.
Proof.
  unfold rectilinearb. intros H. apply forallb_forall. intros [a b] Hin.
  unfold edge_axis_parallel. apply orb_true_iff. destruct (H _ _ Hin) as [E|E]; [left|right]; apply Z.eqb_eq, E.
Qed.

Lemma rectilinear_allb_sound ps : rectilinear_allb ps = true -> rectilinear_all ps.
Proof.
  unfold rectilinear_allb. intros H p Hp. rewrite forallb_forall in H. apply rectilinearb_sound, H, Hp.
Qed.

Lemma input_on_grid S C : on_grid_all (xs_of (S ++ C)) (ys_of (S ++ C)) S /\ on_grid_all (xs_of (S ++ C)) (ys_of (S ++ C)) C.
Proof.
  split; intros p Hp v Hv; (split; [eapply xs_of_In|eapply ys_of_In]); try eassumption;
    apply in_or_app; [left|left|right|right]; assumption.
Qed.

Lemma cells_ok_sound ct fr S C out c a :
  cells_ok ct fr (prep S C) out = true -> In (c, a) (cells (xs_of (S ++ C)) (ys_of (S ++ C))) ->
  wn_paths (dbl out) c = b2z (in_result ct fr (wn_paths (dbl S) c) (wn_paths (dbl C) c)).
Proof.
  unfold cells_ok, prep. intros H Hin. rewrite forallb_forall in H.
  specialize (H (c, a, wn_paths (dbl S) c, wn_paths (dbl C) c)).
  cbn [cell_ok selected] in H. apply Z.eqb_eq, H.
  apply in_map_iff. exists (c, a). split; [reflexivity|exact Hin].
Qed.

(* ====================================================================== soundness of the checker *)
Theorem rect_check_sound S C out ct fr :
  rectilinear_all (S ++ C) ->
  rect_check S C out ct fr = true ->
  let X := xs_of (S ++ C) in
  let Y := ys_of (S ++ C) in
  rectilinear_all out
  /\ (forall k q, 0 < k -> off_grid (map (Z.mul k) X) (map (Z.mul k) Y) q ->
        wn_paths (scale_paths k out) q = b2z (spec_closed ct fr (scale_paths k S) (scale_paths k C) q))
  /\ area2_paths out = selected_cell_area2 ct fr S C
  /\ Forall (fun v => In (px v) X /\ In (py v) Y) (vertices out).
Proof.
  intros Hin Hchk X Y. unfold rect_check, rect_check_prep in Hchk. fold X Y in Hchk.
  apply andb_true_iff in Hchk. destruct Hchk as [Hchk Harea].
  apply andb_true_iff in Hchk. destruct Hchk as [Hchk Hcells].
  apply andb_true_iff in Hchk. destruct Hchk as [Hverts Hrect].
  assert (rectilinear_all out) as Hro by (apply rectilinear_allb_sound, Hrect).
  split; [exact Hro|]. split; [|split].
  - intros k q Hk Hoff.
    destruct (rep_exists X Y k q Hk (sortu_sorted _) (sortu_sorted _) Hoff) as (c & a & Hc & Hrep).
    destruct (input_on_grid S C) as [HgS HgC]. fold X Y in HgS, HgC.
    assert (rectilinear_all S) as HrS by (intros p Hp; apply Hin, in_or_app; left; exact Hp).
    assert (rectilinear_all C) as HrC by (intros p Hp; apply Hin, in_or_app; right; exact Hp).
    unfold spec_closed.
    rewrite (wn_paths_rep X Y out k q c Hk Hro (vertices_on_grid_all _ _ _ Hverts) Hrep).
    rewrite (wn_paths_rep X Y S k q c Hk HrS HgS Hrep).
    rewrite (wn_paths_rep X Y C k q c Hk HrC HgC Hrep).
    eapply cells_ok_sound; eassumption.
  - unfold area_ok in Harea. apply Z.eqb_eq in Harea. exact Harea.
  - apply vertices_on_grid_sound, Hverts.
Qed.

(* every open unit cell of the integer lattice: its centre (i + 1/2, j + 1/2) is (2i+1, 2j+1) in doubled coordinates *)
Corollary rect_check_unit_cells S C out ct fr :
  rectilinear_all (S ++ C) -> rect_check S C out ct fr = true ->
  forall i j, wn_paths (dbl out) (2 * i + 1, 2 * j + 1)
              = b2z (spec_closed ct fr (dbl S) (dbl C) (2 * i + 1, 2 * j + 1)).
Proof.
  intros Hin Hchk i j. destruct (rect_check_sound S C out ct fr Hin Hchk) as (_ & H & _).
  apply (H 2 (2 * i + 1, 2 * j + 1)); [lia|].
  split; intros E; apply in_map_iff in E; destruct E as (x & E & _); unfold px, py in E; cbn [fst snd] in E; lia.
Qed.

(* the hypotheses are satisfiable, and the conclusion is not vacuous *)
Example rect_check_sound_inhabited :
  rectilinear_all ([sqA] ++ [sqB]) /\ rect_check [sqA] [sqB] [[(1, 1); (2, 1); (2, 2); (1, 2)]] Intersection NonZero = true
  /\ off_grid (map (Z.mul 2) (xs_of ([sqA] ++ [sqB]))) (map (Z.mul 2) (ys_of ([sqA] ++ [sqB]))) (3, 3)
  /\ spec_closed Intersection NonZero (dbl [sqA]) (dbl [sqB]) (3, 3) = true.
Proof.
  split; [|split; [vm_compute; reflexivity|split; [|vm_compute; reflexivity]]].
  - apply rectilinear_allb_sound. vm_compute. reflexivity.
  - split; vm_compute; intuition lia.
Qed.
