(* Lemmas for C14: projection of an interleaved run onto one thread, race freedom of the access vocabulary. *)
From Coq Require Import List Bool Arith Lia.
From Clip Require Import model.Threads.
Import ListNotations.

Section ThreadFacts.
  Variables (P R : Type).
  Variable step : nat -> R -> P -> option P.
  Notation run := (run P R step).
  Notation iter := (iter P R step).
  Notation sched_step := (sched_step P R step).

  Lemma iter_stuck t r n p : step t r p = None -> iter t r n p = p.
  Proof. intros H. destruct n; cbn [Threads.iter]; [reflexivity|]. rewrite H. reflexivity. Qed.

  (* what an interleaved run does to thread t's store is what t does alone in as many steps as it was scheduled *)
  Lemma run_proj r sched : forall s t, run r sched s t = iter t r (count_occ Nat.eq_dec sched t) (s t).
  Proof.
    induction sched as [|u sched IH]; intros s t; [reflexivity|].
    unfold Threads.run in *. cbn [fold_left]. rewrite IH. cbn [count_occ].
    destruct (Nat.eq_dec u t) as [->|Hne].
    - cbn [Threads.iter]. unfold Threads.sched_step.
      destruct (step t r (s t)) as [p|] eqn:E.
      + unfold upd. rewrite Nat.eqb_refl. reflexivity.
      + apply iter_stuck. exact E.
    - unfold Threads.sched_step. destruct (step u r (s u)) as [p|]; [|reflexivity].
      unfold upd. destruct (Nat.eqb t u) eqn:E; [apply Nat.eqb_eq in E; congruence|reflexivity].
  Qed.

  Lemma iter_add t r n m p : iter t r (n + m) p = iter t r m (iter t r n p).
  Proof.
    revert p. induction n as [|n IH]; intros p; [reflexivity|].
    cbn [plus Threads.iter]. destruct (step t r p) as [p'|] eqn:E; [apply IH|].
    symmetry. apply iter_stuck. exact E.
  Qed.

  (* once finished, more fuel changes nothing; two amounts of fuel that both finish give the same store *)
  Lemma iter_done_unique t r n m p :
    step t r (iter t r n p) = None -> step t r (iter t r m p) = None -> iter t r n p = iter t r m p.
  Proof.
    intros Hn Hm. destruct (Nat.le_ge_cases n m) as [H|H].
    - replace m with (n + (m - n)) by lia. rewrite iter_add. symmetry. apply iter_stuck. exact Hn.
    - replace n with (m + (n - m)) by lia. rewrite iter_add. apply iter_stuck. exact Hm.
  Qed.

  Theorem isolated_serial r s0 sched threads :
    complete P R step r sched s0 threads ->
    forall t, In t threads ->
      (exists fuel, alone_done P R step r s0 t fuel) /\
      forall fuel, alone_done P R step r s0 t fuel ->
        final_private P (run r sched s0) t = run_alone P R step r s0 t fuel.
  Proof.
    intros Hc t Ht. specialize (Hc t Ht). unfold finished in Hc. rewrite run_proj in Hc.
    split.
    - exists (count_occ Nat.eq_dec sched t). exact Hc.
    - intros fuel Hf. unfold final_private, run_alone, alone_done in *. rewrite run_proj.
      apply iter_done_unique; assumption.
  Qed.

  Variable loc : Type.
  Variable footprint : nat -> R -> P -> list (access loc).

  Lemma conflict_same_thread (e1 e2 : nat * access loc) : conflicting loc e1 e2 -> same_thread loc e1 e2.
  Proof.
    destruct e1 as [t1 a1], e2 as [t2 a2]. unfold conflicting, same_thread. cbn [fst snd].
    intros [Hl Hw]. destruct a1, a2; cbn in *; try (destruct Hw; discriminate); inversion Hl; reflexivity.
  Qed.

  Theorem no_race r sched s0 i j e1 e2 :
    nth_error (trace P R step loc footprint r sched s0) i = Some e1 ->
    nth_error (trace P R step loc footprint r sched s0) j = Some e2 ->
    conflicting loc e1 e2 -> same_thread loc e1 e2.
  Proof. intros _ _. apply conflict_same_thread. Qed.

  (* the trace really records each thread's accesses under its own id (so same_thread means what it says) *)
  Lemma trace_tags r sched : forall s e, In e (trace P R step loc footprint r sched s) -> In (fst e) sched.
  Proof.
    induction sched as [|t rest IH]; intros s e H; cbn [trace] in H; [contradiction|].
    apply in_app_or in H. destruct H as [H|H].
    - apply in_map_iff in H. destruct H as [a [<- _]]. left. reflexivity.
    - right. eapply IH. exact H.
  Qed.
End ThreadFacts.

(* the hypotheses are satisfiable: two counters that count to 2 and 3 *)
Example complete_example :
  complete nat unit (fun t _ p => if Nat.ltb p (2 + t) then Some (S p) else None) tt [0; 1; 1; 0; 1; 0; 1] (fun _ => 0) [0; 1].
Proof. intros t [<-|[<-|[]]]; reflexivity. Qed.
