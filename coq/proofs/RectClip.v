(* C08 -- lemmas about the RectClip64 model (model/RectClip.v).
     shortcuts            every vertex in the closed rectangle -> the path is returned unchanged; bounds disjoint -> dropped
     clip_provenance      every vertex the model emits is a copy of an input vertex that is not outside, a rectangle corner, or
                          a point GetIntersection returned with result TRUE for the input edge it is tagged with -- for EVERY
                          triple of leaf functions; the heap stages (CheckEdges / TidyEdges / GetPath) never create or alter a
                          point.  (Before the repair of the pass-through branch there was a fourth case: the ip2 of a
                          GetIntersection call that returned false, e.g. Point64() = (0,0) for Rect64(32769433,279593455,
                          32769434,279593456) and the triangle (109421516,656086942) (-25760342,-7888347) (32769354,279593454).)
     corner_loop_total    the `do { AddCorner(prev, cw); } while (prev != loc)` loops end (within 4 steps) whenever both
                          locations are sides; start_locs_ loop likewise *)
From Clip Require Import base.Geom base.FloatModel base.CSem gen.Gen_core gen.Gen_rect model.RectLeaf model.RectLines model.RectClip.
From Clip Require Import proofs.RectLines.
From Clip Require proofs.RectClipLeaf.
From Coq Require Import ZArith List Bool Lia Arith.
Local Open Scope Z_scope.

(* ====================================================================== bounds *)
Definition pt_i64 (v : pt) : Prop := i64_lowest <= px v <= i64_max /\ i64_lowest <= py v <= i64_max.
Definition rect_i64 (r : rect) : Prop :=
  i64_lowest <= r_left r <= i64_max /\ i64_lowest <= r_right r <= i64_max /\ i64_lowest <= r_top r <= i64_max /\ i64_lowest <= r_bottom r <= i64_max.

Lemma get_bounds_bound l : forall b0 xlo xhi ylo yhi,
  (forall v, In v l -> xlo <= px v <= xhi /\ ylo <= py v <= yhi) ->
  xlo <= r_left b0 -> r_right b0 <= xhi -> ylo <= r_top b0 -> r_bottom b0 <= yhi ->
  let B := fold_left (fun b v =>
      mkRect (if px v <? r_left b then px v else r_left b)
             (if py v <? r_top b then py v else r_top b)
             (if px v >? r_right b then px v else r_right b)
             (if py v >? r_bottom b then py v else r_bottom b)) l b0 in
  xlo <= r_left B /\ r_right B <= xhi /\ ylo <= r_top B /\ r_bottom B <= yhi.
Proof.
  induction l as [|a l IH]; intros b0 xlo xhi ylo yhi Hl H1 H2 H3 H4; cbn [fold_left]; [cbv zeta; lia|].
  apply IH.
  - intros v Hv. apply Hl. right. exact Hv.
  - cbn [r_left]. destruct (px a <? r_left b0); [apply (Hl a); left; reflexivity|exact H1].
  - cbn [r_right]. destruct (px a >? r_right b0); [apply (Hl a); left; reflexivity|exact H2].
  - cbn [r_top]. destruct (py a <? r_top b0); [apply (Hl a); left; reflexivity|exact H3].
  - cbn [r_bottom]. destruct (py a >? r_bottom b0); [apply (Hl a); left; reflexivity|exact H4].
Qed.

Lemma bounds_contained r path :
  rect_i64 r -> (forall v, In v path -> in_rect r v) -> rect_contains_rect r (get_bounds path) = true.
Proof.
  intros Hr Hin. unfold get_bounds.
  pose proof (get_bounds_bound path (mkRect i64_max i64_max i64_lowest i64_lowest) (r_left r) (r_right r) (r_top r) (r_bottom r)) as H.
  cbv zeta in H. cbn [r_left r_right r_top r_bottom] in H. unfold rect_i64 in Hr.
  destruct H as (A & B & C & D); try lia.
  { intros v Hv. apply Hin in Hv. unfold in_rect in Hv. lia. }
  unfold rect_contains_rect. repeat (apply andb_true_iff; split); apply Z.leb_le; assumption.
Qed.

(* ====================================================================== the bounds shortcuts *)
Section Shortcuts.
  Variable getloc : pt -> bool * location.
  Variable gi : pt -> pt -> location -> pt -> bool * location * pt.
  Variable iscw : location -> location -> pt -> pt -> bool.

  Theorem shortcut_inside r path :
    rect_i64 r -> (3 <= length path)%nat -> (forall v, In v path -> in_rect r v) ->
    clip_one_g getloc gi iscw r path = Ok [tag_sv 0 path].
  Proof.
    intros Hr Hn Hin. unfold clip_one_g, shortcut_of.
    replace (length path <? 3)%nat with false by (symmetry; apply Nat.ltb_ge; exact Hn).
    destruct path as [|p0 t] eqn:Ep; [cbn in Hn; lia|]. rewrite <- Ep in *.
    rewrite (rect_intersects_bounds r path p0); [|rewrite Ep; left; reflexivity|apply Hin; rewrite Ep; left; reflexivity].
    cbn [negb]. rewrite (bounds_contained r path Hr Hin). reflexivity.
  Qed.

  (* all vertices strictly on one outer side of the rectangle: the bounds do not intersect it *)
  Definition all_beyond (r : rect) (path : list pt) : Prop :=
    (forall v, In v path -> px v < r_left r) \/ (forall v, In v path -> r_right r < px v)
    \/ (forall v, In v path -> py v < r_top r) \/ (forall v, In v path -> r_bottom r < py v).

  Lemma bounds_disjoint r path :
    path <> [] -> (forall v, In v path -> pt_i64 v) -> all_beyond r path -> rect_intersects r (get_bounds path) = false.
  Proof.
    intros Hne Hi Hb. unfold get_bounds.
    destruct path as [|p0 t]; [contradiction|].
    assert (H0 : pt_i64 p0) by (apply Hi; left; reflexivity). unfold pt_i64, i64_max, i64_lowest in *.
    unfold rect_intersects. apply andb_false_iff.
    destruct Hb as [Hb|[Hb|[Hb|Hb]]].
    - left. apply Z.leb_gt.
      pose proof (get_bounds_bound (p0 :: t) (mkRect i64_max i64_max i64_lowest i64_lowest) (- 2 ^ 63) (r_left r - 1) (- 2 ^ 63) (2 ^ 63 - 1)) as H.
      cbv zeta in H. cbn [r_left r_right r_top r_bottom] in H. unfold i64_max, i64_lowest in H.
      destruct H as (A & B & C & D); try lia.
      { intros v Hv. specialize (Hi v Hv). specialize (Hb v Hv). unfold i64_max, i64_lowest in Hi. lia. }
      pose proof (Hb p0 (or_introl eq_refl)). lia.
    - left. apply Z.leb_gt.
      pose proof (get_bounds_bound (p0 :: t) (mkRect i64_max i64_max i64_lowest i64_lowest) (r_right r + 1) (2 ^ 63 - 1) (- 2 ^ 63) (2 ^ 63 - 1)) as H.
      cbv zeta in H. cbn [r_left r_right r_top r_bottom] in H. unfold i64_max, i64_lowest in H.
      destruct H as (A & B & C & D); try lia.
      { intros v Hv. specialize (Hi v Hv). specialize (Hb v Hv). unfold i64_max, i64_lowest in Hi. lia. }
      pose proof (Hb p0 (or_introl eq_refl)). lia.
    - right. apply Z.leb_gt.
      pose proof (get_bounds_bound (p0 :: t) (mkRect i64_max i64_max i64_lowest i64_lowest) (- 2 ^ 63) (2 ^ 63 - 1) (- 2 ^ 63) (r_top r - 1)) as H.
      cbv zeta in H. cbn [r_left r_right r_top r_bottom] in H. unfold i64_max, i64_lowest in H.
      destruct H as (A & B & C & D); try lia.
      { intros v Hv. specialize (Hi v Hv). specialize (Hb v Hv). unfold i64_max, i64_lowest in Hi. lia. }
      pose proof (Hb p0 (or_introl eq_refl)). lia.
    - right. apply Z.leb_gt.
      pose proof (get_bounds_bound (p0 :: t) (mkRect i64_max i64_max i64_lowest i64_lowest) (- 2 ^ 63) (2 ^ 63 - 1) (r_bottom r + 1) (2 ^ 63 - 1)) as H.
      cbv zeta in H. cbn [r_left r_right r_top r_bottom] in H. unfold i64_max, i64_lowest in H.
      destruct H as (A & B & C & D); try lia.
      { intros v Hv. specialize (Hi v Hv). specialize (Hb v Hv). unfold i64_max, i64_lowest in Hi. lia. }
      pose proof (Hb p0 (or_introl eq_refl)). lia.
  Qed.

  Theorem shortcut_outside r path :
    (forall v, In v path -> pt_i64 v) -> all_beyond r path -> clip_one_g getloc gi iscw r path = Ok [].
  Proof.
    intros Hi Hb. unfold clip_one_g, shortcut_of.
    destruct (length path <? 3)%nat eqn:En; [reflexivity|].
    assert (path <> []) as Hne by (intros ->; cbn in En; discriminate).
    rewrite (bounds_disjoint r path Hne Hi Hb). reflexivity.
  Qed.
End Shortcuts.

Lemma untag_tag_sv l : forall i, map fst (tag_sv i l) = l.
Proof. induction l as [|v t IH]; intros i; cbn [tag_sv map fst]; [reflexivity|]. rewrite IH. reflexivity. Qed.

(* in the form used by the property: RectClip for one path, translated leaf functions *)
Theorem rect_clip_shortcuts r path :
  rect_is_empty r = false -> rect_i64 r -> (forall v, In v path -> pt_i64 v) ->
  ((3 <= length path)%nat -> (forall v, In v path -> in_rect r v) -> rect_clip_t r path = Ok [tag_sv 0 path] /\ rect_clip r path = [path])
  /\ (all_beyond r path -> rect_clip_t r path = Ok [] /\ rect_clip r path = []).
Proof.
  intros He Hr Hi. unfold rect_clip, rect_clip_t. rewrite He. split.
  - intros Hn Hin. rewrite (shortcut_inside _ _ _ r path Hr Hn Hin). split; [reflexivity|].
    cbn [res_default untag map]. rewrite untag_tag_sv. reflexivity.
  - intros Hb. rewrite (shortcut_outside _ _ _ r path Hi Hb). split; reflexivity.
Qed.

Example shortcuts_sat :
  let r := mkRect 0 0 10 10 in
  rect_is_empty r = false /\ rect_i64 r /\ (forall v, In v [(1, 1); (9, 2); (5, 10)] -> pt_i64 v /\ in_rect r v)
  /\ all_beyond r [(11, 1); (19, 2); (15, 10)] /\ rect_clip r [(1, 1); (9, 2); (5, 10)] = [[(1, 1); (9, 2); (5, 10)]].
Proof.
  cbv zeta. split; [reflexivity|]. split; [unfold rect_i64, i64_lowest, i64_max; cbn; lia|]. split.
  - intros v [<-|[<-|[<-|[]]]]; unfold pt_i64, in_rect, i64_lowest, i64_max; cbn; lia.
  - split; [|vm_compute; reflexivity]. right; left. intros v [<-|[<-|[<-|[]]]]; cbn; lia.
Qed.

(* ====================================================================== provenance: ExecuteInternal *)
Section Prov.
  Variable getloc : pt -> bool * location.
  Variable gi : pt -> pt -> location -> pt -> bool * location * pt.
  Variable iscw : location -> location -> pt -> pt -> bool.
  Variable r : rect.
  Variable path : list pt.

  (* a, b are the end points of the input edge that ENDS at path[i] (the closing edge path[highI] -> path[0] for i = 0) *)
  Definition cseg_at (i : nat) (a b : pt) : Prop :=
    nth_error path (match i with O => highI path | S j => j end) = Some a /\ nth_error path i = Some b.

  Definition cprov (tv : tpt) : Prop :=
    let v := fst tv in
    match snd tv with
    | SV i => nth_error path i = Some v /\ (in_rect r v \/ fst (getloc v) = false)
    | SI i => exists a b, cseg_at i a b /\ exists loc ip0 l', gi b a loc ip0 = (true, l', v) \/ gi a b loc ip0 = (true, l', v)
    | SX _ => False     (* never produced: ip2 is used only when the GetIntersection call that computed it succeeded *)
    | SC k => nth_error (rect_as_path r) k = Some v
    end.

  Lemma corner_prov l c : corner r l = Ok c -> cprov c.
  Proof.
    unfold corner. destruct l; cbn [rect_corner]; intros H; inversion H; subst; unfold cprov; cbn [fst snd]; reflexivity.
  Qed.

  Lemma add_corner2_prov a b rs rs' : all_pts cprov rs -> add_corner2 r a b rs = Ok rs' -> all_pts cprov rs'.
  Proof.
    unfold add_corner2. intros H E. destruct (corner r _) as [c|] eqn:Ec; cbn [bind] in E; [|discriminate].
    inversion E; subst. apply add_all_pts; [eapply corner_prov; exact Ec|exact H].
  Qed.

  Lemma add_corner_prov l cw rs l' rs' : all_pts cprov rs -> add_corner r l cw rs = Ok (l', rs') -> all_pts cprov rs'.
  Proof.
    unfold add_corner. intros H E. destruct cw.
    - destruct (corner r l) as [c|] eqn:Ec; cbn [bind] in E; [|discriminate].
      inversion E; subst. apply add_all_pts; [eapply corner_prov; exact Ec|exact H].
    - destruct (corner r (adj l false)) as [c|] eqn:Ec; cbn [bind] in E; [|discriminate].
      inversion E; subst. apply add_all_pts; [eapply corner_prov; exact Ec|exact H].
  Qed.

  Lemma corner_loop_prov fuel : forall a b cw rs rs',
    all_pts cprov rs -> corner_loop r fuel a b cw rs = Ok rs' -> all_pts cprov rs'.
  Proof.
    induction fuel as [|f IH]; intros a b cw rs rs' H E; cbn [corner_loop] in E; [discriminate|].
    destruct (add_corner r a cw rs) as [[a' rs1]|] eqn:Ea; cbn [bind] in E; [|discriminate].
    pose proof (add_corner_prov _ _ _ _ _ H Ea) as H1.
    destruct (loc_eqb a' b); [inversion E; subst; exact H1|eapply IH; eassumption].
  Qed.

  Lemma sl_corners_prov sl : forall prev rs l' rs',
    all_pts cprov rs -> sl_corners r prev sl rs = Ok (l', rs') -> all_pts cprov rs'.
  Proof.
    induction sl as [|x t IH]; intros prev rs l' rs' H E; cbn [sl_corners] in E; [inversion E; subst; exact H|].
    destruct (loc_eqb prev x); [eapply IH; eassumption|].
    destruct (add_corner r prev (hcw prev x) rs) as [[a' rs1]|] eqn:Ea; cbn [bind] in E; [|discriminate].
    eapply IH; [|exact E]. eapply add_corner_prov; eassumption.
  Qed.

  Lemma add_rect_prov ks : forall rs es rs' es',
    all_pts cprov rs -> add_rect r ks rs es = Ok (rs', es') -> all_pts cprov rs'.
  Proof.
    induction ks as [|k t IH]; intros rs es rs' es' H E; cbn [add_rect] in E; [inversion E; subst; exact H|].
    destruct (nth_error (rect_as_path r) k) as [c|] eqn:Ec; [|discriminate].
    destruct (last_op (add (c, SC k) false rs)) as [op|]; cbn [bind] in E; [|discriminate].
    eapply IH; [|exact E]. apply add_all_pts; [unfold cprov; cbn [fst snd]; exact Ec|exact H].
  Qed.

  (* scan_inside / GetNextLocation only add input vertices lying in the closed rectangle *)
  Lemma scan_inside_cprov fuel : forall i rs l i' rs',
    all_pts cprov rs -> scan_inside r path fuel i rs = Ok (l, i', rs') -> all_pts cprov rs'.
  Proof.
    induction fuel as [|f IH]; intros i rs l i' rs' H E; cbn [scan_inside] in E; [discriminate|].
    destruct (i <=? highI path)%nat; [|inversion E; subst; exact H].
    destruct (nth_error path i) as [p|] eqn:Ep; [|discriminate].
    destruct (px p <? r_left r) eqn:E1; [inversion E; subst; exact H|].
    destruct (px p >? r_right r) eqn:E2; [inversion E; subst; exact H|].
    destruct (py p >? r_bottom r) eqn:E3; [inversion E; subst; exact H|].
    destruct (py p <? r_top r) eqn:E4; [inversion E; subst; exact H|].
    eapply IH; [|exact E]. apply add_all_pts; [|exact H].
    unfold cprov; cbn [fst snd]. split; [exact Ep|]. left. unfold in_rect. bool_hyps. lia.
  Qed.

  Lemma get_next_location_cprov loc i rs l i' rs' :
    all_pts cprov rs -> get_next_location r path loc i rs = Ok (l, i', rs') -> all_pts cprov rs'.
  Proof.
    intros H E. apply get_next_location_rs in E. destruct E as [[_ ->]|[_ E]]; [exact H|].
    eapply scan_inside_cprov; eassumption.
  Qed.

  Lemma clip_loop_prov fuel : forall s s',
    all_pts cprov (s_rs s) -> clip_loop getloc gi iscw r path fuel s = Ok s' -> all_pts cprov (s_rs s').
  Proof.
    induction fuel as [|f IH]; intros s s' H E; cbn [clip_loop] in E; [discriminate|].
    destruct (s_i s <=? highI path)%nat; [|inversion E; subst; exact H].
    destruct (get_next_location r path (s_loc s) (s_i s) (s_rs s)) as [[[loc i] rs]|] eqn:En; cbn [bind] in E; [|discriminate].
    pose proof (get_next_location_cprov _ _ _ _ _ _ H En) as H1.
    destruct (highI path <? i)%nat; [inversion E; subst; exact H1|].
    destruct (nth_error path i) as [pi|] eqn:Epi; [|discriminate].
    destruct (nth_error path (match i with O => highI path | S j => j end)) as [pp|] eqn:Epp; [|discriminate].
    assert (Hseg : cseg_at i pp pi) by (split; assumption).
    destruct (gi pi pp loc default_pt) as [[ok cl0] ip] eqn:Eg.
    cbv zeta in E.
    destruct (if ok && negb (is_inside loc) && negb (is_inside (s_loc s)) then gi pp pi (s_loc s) default_pt else (true, s_loc s, default_pt))
      as [[ok2 loc2] ip2] eqn:Eg2.
    destruct (negb (ok && ok2)) eqn:Ecr.
    { (* remaining outside *)
      destruct (is_inside (s_cross s)).
      - destruct (startloc_loop _ _ _ _ _) as [sl|]; cbn [bind] in E; [|discriminate]. eapply IH; [|exact E]. exact H1.
      - destruct (negb (is_inside (s_loc s)) && negb (loc_eqb (s_loc s) loc)).
        + destruct (corner_loop r loop_fuel (s_loc s) loc _ rs) as [rs'|] eqn:Ec; cbn [bind] in E; [|discriminate].
          eapply IH; [|exact E]. eapply corner_loop_prov; eassumption.
        + eapply IH; [|exact E]. exact H1. }
    apply negb_false_iff, andb_true_iff in Ecr. destruct Ecr as [-> ->]. cbn [andb negb] in E, Eg2.
    assert (Hip : cprov (ip, SI i)).
    { unfold cprov; cbn [fst snd]. exists pp, pi. split; [exact Hseg|]. exists loc, default_pt, cl0. left. exact Eg. }
    destruct (is_inside loc) eqn:Eil.
    { (* entering *)
      destruct (is_inside (s_first s)); [eapply IH; [|exact E]; apply add_all_pts; assumption|].
      destruct (negb (loc_eqb (s_loc s) cl0)).
      - destruct (corner_loop r loop_fuel (s_loc s) cl0 _ rs) as [rs'|] eqn:Ec; cbn [bind] in E; [|discriminate].
        eapply IH; [|exact E]. apply add_all_pts; [exact Hip|]. eapply corner_loop_prov; eassumption.
      - eapply IH; [|exact E]. apply add_all_pts; assumption. }
    cbn [negb andb] in Eg2.
    destruct (negb (is_inside (s_loc s))) eqn:Eip.
    { (* passing through: both GetIntersection calls succeeded *)
      destruct (if negb (is_inside (s_cross s)) && negb (loc_eqb (s_cross s) loc2) then add_corner2 r (s_cross s) loc2 rs else Ok rs)
        as [rs1|] eqn:E1; cbn [bind] in E; [|discriminate].
      assert (H2 : all_pts cprov rs1).
      { destruct (negb (is_inside (s_cross s)) && negb (loc_eqb (s_cross s) loc2)); [eapply add_corner2_prov; eassumption|inversion E1; subst; exact H1]. }
      assert (Hip2 : cprov (ip2, SI i)).
      { unfold cprov; cbn [fst snd]. exists pp, pi. split; [exact Hseg|]. exists (s_loc s), default_pt, loc2. right. exact Eg2. }
      destruct (if is_inside (s_first s) then (loc2, s_sl s ++ [s_loc s]) else (s_first s, s_sl s)) as [first sl].
      destruct (pt_eqb ip ip2).
      - destruct (add_corner2 r cl0 (snd (getloc pi)) _) as [rs3|] eqn:E3; cbn [bind] in E; [|discriminate].
        eapply IH; [|exact E]. eapply add_corner2_prov; [|exact E3]. apply add_all_pts; assumption.
      - eapply IH; [|exact E]. apply add_all_pts; [exact Hip|]. apply add_all_pts; assumption. }
    (* leaving *)
    eapply IH; [|exact E]. apply add_all_pts; assumption.
  Qed.

  Lemma back_boundary_spec : forall i prev i' l,
    back_boundary getloc path i prev = Ok (i', l) ->
    (i' <= i)%nat /\ (forall k p, (i' <= k < i)%nat -> nth_error path k = Some p -> fst (getloc p) = false).
  Proof.
    induction i as [|j IH]; intros prev i' l E; cbn [back_boundary] in E; [inversion E; subst; split; [lia|intros; lia]|].
    destruct (nth_error path j) as [p|] eqn:Ep; [|discriminate].
    destruct (getloc p) as [b lp] eqn:El. destruct b; cbn [negb] in E.
    - inversion E; subst. split; [lia|intros; lia].
    - apply IH in E. destruct E as [E1 E2]. split; [lia|]. intros k q Hk Hq.
      destruct (Nat.eq_dec k j) as [->|Hne]; [rewrite Ep in Hq; inversion Hq; subst; rewrite El; reflexivity|].
      apply (E2 k q); [lia|exact Hq].
  Qed.

  Lemma add_all_cprov : forall l i rs,
    (forall k p, nth_error l k = Some p -> nth_error path (i + k) = Some p /\ fst (getloc p) = false) ->
    all_pts cprov rs -> all_pts cprov (add_all i l rs).
  Proof.
    induction l as [|p t IH]; intros i rs Hl H; cbn [add_all]; [exact H|].
    apply IH.
    - intros k q Hk. specialize (Hl (S k) q Hk). replace (S i + k)%nat with (i + S k)%nat by lia. exact Hl.
    - apply add_all_pts; [|exact H]. unfold cprov; cbn [fst snd]. specialize (Hl 0%nat p eq_refl).
      rewrite Nat.add_0_r in Hl. destruct Hl as [A B]. split; [exact A|right; exact B].
  Qed.

  Theorem clip_internal_prov sl rs es :
    clip_internal_g getloc gi iscw r path = Ok (sl, rs, es) -> all_pts cprov rs.
  Proof.
    unfold clip_internal_g. intros E.
    destruct path as [|p0 t] eqn:Epath; [inversion E; constructor|]. rewrite <- Epath in *.
    destruct (nth_error path (highI path)) as [plast|] eqn:Epl; [|discriminate].
    destruct (getloc plast) as [b0 loc0] eqn:El0.
    assert (Hrun : forall sloc, clip_run getloc gi iscw r path sloc = Ok (sl, rs, es) -> all_pts cprov rs).
    { intros sloc ER. unfold clip_run in ER.
      destruct (clip_loop getloc gi iscw r path (main_fuel path) _) as [s|] eqn:Ecl; cbn [bind] in ER; [|discriminate].
      apply clip_loop_prov in Ecl; [|constructor]. cbn [s_rs] in Ecl.
      destruct (is_inside (s_first s)).
      - destruct (negb (is_inside sloc)); [|inversion ER; subst; exact Ecl].
        destruct (rect_contains_rect (get_bounds path) r); [|inversion ER; subst; exact Ecl].
        destruct (path1_contains_path2 path (rect_as_path r)) as [c|]; cbn [bind] in ER; [|discriminate].
        destruct c; [|inversion ER; subst; exact Ecl].
        destruct (add_rect r _ (s_rs s) []) as [[rs' es']|] eqn:Ea; cbn [bind] in ER; [|discriminate].
        inversion ER; subst. eapply add_rect_prov; eassumption.
      - destruct (negb (is_inside (s_loc s)) && (negb (loc_eqb (s_loc s) (s_first s)) || (2 <? length (s_sl s))%nat)); [|inversion ER; subst; exact Ecl].
        destruct (match s_sl s with [] => Ok (s_loc s, s_rs s) | _ :: _ => sl_corners r (s_loc s) (s_sl s) (s_rs s) end) as [[loc' rs1]|] eqn:E1;
          cbn [bind] in ER; [|discriminate].
        assert (H1 : all_pts cprov rs1).
        { destruct (s_sl s); [inversion E1; subst; exact Ecl|eapply sl_corners_prov; eassumption]. }
        destruct (negb (loc_eqb loc' (s_first s))); [|inversion ER; subst; exact H1].
        destruct (add_corner r loc' _ rs1) as [[l2 rs2]|] eqn:E2; cbn [bind] in ER; [|discriminate].
        inversion ER; subst. eapply add_corner_prov; eassumption. }
    destruct b0; cbn [negb] in E; [apply (Hrun _ E)|].
    destruct (back_boundary getloc path (highI path) Inside) as [[i prev]|] eqn:Eb; cbn [bind] in E; [|discriminate].
    destruct (i =? 0)%nat eqn:Ei; [|apply (Hrun _ E)].
    inversion E; subst. apply Nat.eqb_eq in Ei. subst i.
    apply back_boundary_spec in Eb. destruct Eb as [_ Eb].
    apply add_all_cprov; [|constructor]. intros k p Hk. cbn [Nat.add]. split; [exact Hk|].
    assert (k < length path)%nat as Hlt by (apply nth_error_Some; congruence).
    destruct (Nat.eq_dec k (highI path)) as [->|Hne].
    - rewrite Epl in Hk. inversion Hk; subst. rewrite El0. reflexivity.
    - apply (Eb k p); [unfold highI in *; lia|exact Hk].
  Qed.
End Prov.

(* ====================================================================== the heap stages never create or alter a point *)
Definition pts (h : heap) : list tpt := map n_pt (h_nodes h).

Lemma lset_map {A B} (f : A -> B) l : forall k v l' a,
  lset l k v = Ok l' -> nth_error l k = Some a -> f v = f a -> map f l' = map f l.
Proof.
  induction l as [|x t IH]; intros k v l' a E Hn Hf; [destruct k; discriminate|].
  destruct k as [|j]; cbn [lset] in E.
  - inversion E; subst. cbn in Hn. inversion Hn; subst. cbn [map]. rewrite Hf. reflexivity.
  - destruct (lset t j v) as [t'|] eqn:Et; cbn [bind] in E; [|discriminate]. inversion E; subst.
    cbn [map]. f_equal. eapply IH; eassumption.
Qed.

Lemma lget_nth {A} (l : list A) k a : lget l k = Ok a -> nth_error l k = Some a.
Proof. unfold lget. destruct (nth_error l k); intros H; inversion H; reflexivity. Qed.

Lemma upd_node_pts h k f h' : (forall n, n_pt (f n) = n_pt n) -> upd_node h k f = Ok h' -> pts h' = pts h.
Proof.
  unfold upd_node, nd. intros Hf E.
  destruct (lget (h_nodes h) k) as [n|] eqn:En; cbn [bind] in E; [|discriminate].
  destruct (lset (h_nodes h) k (f n)) as [ns|] eqn:Es; cbn [bind] in E; [|discriminate].
  inversion E; subst. unfold pts; cbn [h_nodes]. eapply lset_map; [exact Es|apply lget_nth; exact En|apply Hf].
Qed.

Lemma set_next_pts h k v h' : set_next h k v = Ok h' -> pts h' = pts h.
Proof. apply upd_node_pts. reflexivity. Qed.
Lemma set_prev_pts h k v h' : set_prev h k v = Ok h' -> pts h' = pts h.
Proof. apply upd_node_pts. reflexivity. Qed.
Lemma set_owner_pts h k v h' : set_owner h k v = Ok h' -> pts h' = pts h.
Proof. apply upd_node_pts. reflexivity. Qed.
Lemma set_edge_pts h k v h' : set_edge h k v = Ok h' -> pts h' = pts h.
Proof. apply upd_node_pts. reflexivity. Qed.
Lemma set_result_pts h k v h' : set_result h k v = Ok h' -> pts h' = pts h.
Proof. unfold set_result. intros E. destruct (lset _ _ _); cbn [bind] in E; [|discriminate]. inversion E; reflexivity. Qed.
Lemma set_edge_list_pts h e l h' : set_edge_list h e l = Ok h' -> pts h' = pts h.
Proof. unfold set_edge_list. intros E. destruct (lset _ _ _); cbn [bind] in E; [|discriminate]. inversion E; reflexivity. Qed.
Lemma set_edge_entry_pts h e k v h' : set_edge_entry h e k v = Ok h' -> pts h' = pts h.
Proof.
  unfold set_edge_entry. intros E. destruct (edge_list h e); cbn [bind] in E; [|discriminate].
  destruct (lset _ _ _); cbn [bind] in E; [|discriminate]. eapply set_edge_list_pts; exact E.
Qed.
Lemma pts_push h v : pts (push_result h v) = pts h.
Proof. reflexivity. Qed.

(* invert one monadic step of a hypothesis *)
Ltac inv1 H :=
  match type of H with
  | bind ?x _ = Ok _ => let E := fresh "E" in destruct x eqn:E; cbn [bind] in H; [|discriminate H]
  | (let '(_, _) := ?p in _) = Ok _ => destruct p
  | (if ?c then _ else _) = Ok _ => destruct c eqn:?
  | match ?x with _ => _ end = Ok _ => destruct x eqn:?
  | Err _ = Ok _ => discriminate H
  end.

(* turn every completed primitive step into an equation between point lists *)
Ltac pres1 :=
  match goal with
  | E : set_next _ _ _ = Ok _ |- _ => apply set_next_pts in E
  | E : set_prev _ _ _ = Ok _ |- _ => apply set_prev_pts in E
  | E : set_owner _ _ _ = Ok _ |- _ => apply set_owner_pts in E
  | E : set_edge _ _ _ = Ok _ |- _ => apply set_edge_pts in E
  | E : set_result _ _ _ = Ok _ |- _ => apply set_result_pts in E
  | E : set_edge_list _ _ _ = Ok _ |- _ => apply set_edge_list_pts in E
  | E : set_edge_entry _ _ _ _ = Ok _ |- _ => apply set_edge_entry_pts in E
  end.

Ltac finish_pts := repeat pres1; rewrite ?pts_push in *; congruence.

(* the same for every hypothesis (nested conditionals bound earlier) *)
Ltac inv_any :=
  match goal with
  | H : bind _ _ = Ok _ |- _ => inv1 H
  | H : (if _ then _ else _) = Ok _ |- _ => inv1 H
  | H : (let '(_, _) := _ in _) = Ok _ |- _ => inv1 H
  | H : Ok _ = Ok _ |- _ => inversion H; subst; clear H
  | H : Err _ = Ok _ |- _ => discriminate H
  end.

Lemma unlink_pts back h op h' x : unlink back h op = Ok (h', x) -> pts h' = pts h.
Proof. unfold unlink. intros E. repeat inv1 E; inversion E; subst; finish_pts. Qed.

Lemma add_to_edge_pts h e op h' : add_to_edge h e op = Ok h' -> pts h' = pts h.
Proof. unfold add_to_edge. intros E. repeat inv1 E; try (inversion E; subst; reflexivity). finish_pts. Qed.

Lemma uncouple_edge_pts h op h' : uncouple_edge h op = Ok h' -> pts h' = pts h.
Proof. unfold uncouple_edge. intros E. repeat inv1 E; try (inversion E; subst; reflexivity). finish_pts. Qed.

Lemma set_owner_from_pts fuel : forall h op op2 k h', set_owner_from fuel h op op2 k = Ok h' -> pts h' = pts h.
Proof.
  induction fuel as [|f IH]; intros h op op2 k h' E; cbn [set_owner_from] in E; [discriminate|].
  repeat inv1 E; [inversion E; reflexivity|]. apply IH in E. finish_pts.
Qed.

Lemma set_new_owner_pts h op k h' : set_new_owner h op k = Ok h' -> pts h' = pts h.
Proof. unfold set_new_owner. intros E. repeat inv1 E. apply set_owner_from_pts in E. finish_pts. Qed.

Ltac pres2 :=
  match goal with
  | E : unlink _ _ _ = Ok _ |- _ => apply unlink_pts in E
  | E : add_to_edge _ _ _ = Ok _ |- _ => apply add_to_edge_pts in E
  | E : uncouple_edge _ _ = Ok _ |- _ => apply uncouple_edge_pts in E
  | E : set_new_owner _ _ _ = Ok _ |- _ => apply set_new_owner_pts in E
  end.
Ltac finish_pts2 := repeat pres2; repeat pres1; rewrite ?pts_push in *; congruence.

Lemma ce_strip_pts fuel : forall h op op2 h' x, ce_strip fuel h op op2 = Ok (h', x) -> pts h' = pts h.
Proof.
  induction fuel as [|f IH]; intros h op op2 h' x E; cbn [ce_strip] in E; [discriminate|].
  repeat inv1 E; try (inversion E; subst; finish_pts2); apply IH in E; finish_pts2.
Qed.

Lemma ce_bits_pts js : forall h comb pp cp op2 h', ce_bits h js comb pp cp op2 = Ok h' -> pts h' = pts h.
Proof.
  induction js as [|j t IH]; intros h comb pp cp op2 h' E; cbn [ce_bits] in E; [inversion E; reflexivity|].
  repeat inv1 E; apply IH in E; finish_pts2.
Qed.

Lemma ce_edges_pts r fuel : forall h op op2 es h', ce_edges r fuel h op op2 es = Ok h' -> pts h' = pts h.
Proof.
  induction fuel as [|f IH]; intros h op op2 es h' E; cbn [ce_edges] in E; [discriminate|].
  destruct (nd h op2) as [n|] eqn:En; cbn [bind] in E; [|discriminate].
  match type of E with bind ?x _ = _ => destruct x as [h1|] eqn:E1; cbn [bind] in E; [|discriminate] end.
  assert (pts h1 = pts h) as H1.
  { repeat inv1 E1; try (inversion E1; subst; reflexivity). apply ce_bits_pts in E1. exact E1. }
  inv1 E; [inversion E; subst; exact H1|]. apply IH in E. congruence.
Qed.

Lemma check_edges_from_pts r todo : forall k h h', check_edges_from r k todo h = Ok h' -> pts h' = pts h.
Proof.
  induction todo as [|t IH]; intros k h h' E; cbn [check_edges_from] in E; [inversion E; reflexivity|].
  repeat inv1 E; try (apply IH in E);
    repeat match goal with
    | X : ce_strip _ _ _ _ = Ok _ |- _ => apply ce_strip_pts in X
    | X : ce_edges _ _ _ _ _ _ = Ok _ |- _ => apply ce_edges_pts in X
    end; finish_pts2.
Qed.

Lemma check_edges_pts r h h' : check_edges r h = Ok h' -> pts h' = pts h.
Proof. apply check_edges_from_pts. Qed.

Lemma tidy_loop_pts fuel : forall idx h i j h', tidy_loop fuel idx h i j = Ok h' -> pts h' = pts h.
Proof.
  induction fuel as [|f IH]; intros idx h i j h' E; cbn [tidy_loop] in E; [discriminate|].
  cbv zeta in E.
  repeat inv1 E; try discriminate; repeat inv_any; try reflexivity;
    try match goal with X : tidy_loop _ _ _ _ _ = Ok _ |- _ => apply IH in X end; finish_pts2.
Qed.

Lemma tidy_edges_pts idx h h' : tidy_edges idx h = Ok h' -> pts h' = pts h.
Proof.
  unfold tidy_edges. intros E. destruct (edge_list h _) as [l|]; cbn [bind] in E; [|discriminate].
  destruct l; [inversion E; reflexivity|]. apply tidy_loop_pts in E. exact E.
Qed.

Lemma gp_strip_pts fuel : forall h op op2 h' x, gp_strip fuel h op op2 = Ok (h', x) -> pts h' = pts h.
Proof.
  induction fuel as [|f IH]; intros h op op2 h' x E; cbn [gp_strip] in E; [discriminate|].
  repeat inv1 E; try (inversion E; subst; finish_pts2); apply IH in E; finish_pts2.
Qed.

Lemma nd_in_pts h k n : nd h k = Ok n -> In (n_pt n) (pts h).
Proof.
  unfold nd. intros E. apply lget_nth in E. unfold pts. apply in_map. eapply nth_error_In. exact E.
Qed.

Lemma gp_collect_in fuel : forall h op op2 acc l,
  (forall x, In x acc -> In x (pts h)) -> gp_collect fuel h op op2 acc = Ok l -> forall x, In x l -> In x (pts h).
Proof.
  induction fuel as [|f IH]; intros h op op2 acc l Hacc E; cbn [gp_collect] in E; [discriminate|].
  destruct (op2 =? op)%nat.
  - inversion E; subst. intros x Hx. apply Hacc. apply in_rev. exact Hx.
  - destruct (nd h op2) as [n|] eqn:En; cbn [bind] in E; [|discriminate].
    eapply IH; [|exact E]. intros x [<-|Hx]; [eapply nd_in_pts; exact En|apply Hacc, Hx].
Qed.

Lemma get_path_in h o h' l : get_path h o = Ok (h', l) -> pts h' = pts h /\ forall x, In x l -> In x (pts h).
Proof.
  unfold get_path. intros E. destruct o as [op|]; [|inversion E; subst; split; [reflexivity|intros ? []]].
  destruct (nd h op) as [n|] eqn:En; cbn [bind] in E; [|discriminate].
  destruct (n_next n =? n_prev n)%nat; [inversion E; subst; split; [reflexivity|intros ? []]|].
  destruct (gp_strip (ring_fuel h) h op (n_next n)) as [[h1 x]|] eqn:E1; cbn [bind] in E; [|discriminate].
  apply gp_strip_pts in E1.
  destruct x as [op'|]; [|inversion E; subst; split; [exact E1|intros ? []]].
  destruct (nd h1 op') as [n'|] eqn:En'; cbn [bind] in E; [|discriminate].
  destruct (n_next n' =? n_prev n')%nat; [inversion E; subst; split; [exact E1|intros ? []]|].
  destruct (gp_collect (ring_fuel h) h1 op' (n_next n') [n_pt n']) as [l0|] eqn:Ec; cbn [bind] in E; [|discriminate].
  inversion E; subst. split; [exact E1|].
  rewrite <- E1. eapply gp_collect_in; [|exact Ec].
  intros x [<-|[]]. eapply nd_in_pts; exact En'.
Qed.

Lemma get_paths_in rs : forall h ps, get_paths rs h = Ok ps -> forall p x, In p ps -> In x p -> In x (pts h).
Proof.
  induction rs as [|o t IH]; intros h ps E p x Hp Hx; cbn [get_paths] in E; [inversion E; subst; destruct Hp|].
  destruct (get_path h o) as [[h1 l]|] eqn:E0; cbn [bind] in E; [|discriminate].
  destruct (get_paths t h1) as [ps'|] eqn:E1; cbn [bind] in E; [|discriminate].
  inversion E; subst. apply get_path_in in E0. destruct E0 as [A B].
  rewrite <- A. destruct l as [|y l']; [eapply IH; eassumption|].
  destruct Hp as [<-|Hp]; [rewrite A; apply B; exact Hx|eapply IH; eassumption].
Qed.

Lemma finish_in r h ps : finish r h = Ok ps -> forall p x, In p ps -> In x p -> In x (pts h).
Proof.
  unfold finish. intros E p x Hp Hx.
  destruct (check_edges r h) as [h0|] eqn:E0; cbn [bind] in E; [|discriminate].
  destruct (tidy_edges 0 h0) as [h1|] eqn:E1; cbn [bind] in E; [|discriminate].
  destruct (tidy_edges 1 h1) as [h2|] eqn:E2; cbn [bind] in E; [|discriminate].
  destruct (tidy_edges 2 h2) as [h3|] eqn:E3; cbn [bind] in E; [|discriminate].
  destruct (tidy_edges 3 h3) as [h4|] eqn:E4; cbn [bind] in E; [|discriminate].
  apply check_edges_pts in E0. apply tidy_edges_pts in E1, E2, E3, E4.
  pose proof (get_paths_in _ _ _ E p x Hp Hx) as H. congruence.
Qed.

Lemma mk_heap_pts rs es x : In x (pts (mk_heap rs es)) -> exists ring, In ring rs /\ In x ring.
Proof.
  unfold mk_heap, pts. destruct rs as [|ring rest]; [intros []|].
  cbn [h_nodes]. unfold mk_nodes. rewrite map_map. intros H. apply in_map_iff in H.
  destruct H as ([k v] & <- & Hin). cbn [n_pt]. apply in_combine_r in Hin.
  exists ring. split; [left; reflexivity|apply in_rev; exact Hin].
Qed.

(* ====================================================================== provenance of the final output *)
Lemma tag_sv_in l : forall i v s, In (v, s) (tag_sv i l) -> exists k, s = SV (i + k) /\ nth_error l k = Some v.
Proof.
  induction l as [|a t IH]; intros i v s H; cbn [tag_sv] in H; [destruct H|].
  destruct H as [H|H].
  - inversion H; subst. exists 0%nat. split; [f_equal; lia|reflexivity].
  - apply IH in H. destruct H as (k & -> & Hk). exists (S k). split; [f_equal; lia|exact Hk].
Qed.

Theorem clip_provenance getloc gi iscw r path out :
  rect_i64 r ->
  clip_one_g getloc gi iscw r path = Ok out ->
  forall piece tv, In piece out -> In tv piece -> cprov getloc gi r path tv.
Proof.
  intros Hr E piece tv Hp Hx. unfold clip_one_g in E.
  destruct (shortcut_of r path) eqn:Es.
  - destruct (clip_internal_g getloc gi iscw r path) as [[[sl rs] es]|] eqn:Ei; cbn [bind] in E; [|discriminate].
    apply clip_internal_prov in Ei.
    pose proof (finish_in _ _ _ E piece tv Hp Hx) as Hin. apply mk_heap_pts in Hin. destruct Hin as (ring & Hr1 & Hr2).
    unfold all_pts in Ei. rewrite Forall_forall in Ei. specialize (Ei ring Hr1). rewrite Forall_forall in Ei. apply Ei, Hr2.
  - inversion E; subst. destruct Hp.
  - inversion E; subst. destruct Hp as [<-|[]]. destruct tv as [v s]. apply tag_sv_in in Hx. destruct Hx as (k & -> & Hk).
    unfold cprov; cbn [fst snd Nat.add]. split; [exact Hk|]. left.
    (* the copy shortcut is taken only when the bounds are inside the rectangle *)
    unfold shortcut_of in Es. destruct (length path <? 3)%nat; [discriminate|].
    destruct (negb (rect_intersects r (get_bounds path))); [discriminate|].
    destruct (rect_contains_rect r (get_bounds path)) eqn:Ec; [|discriminate].
    pose proof (get_bounds_fold path (mkRect i64_max i64_max i64_lowest i64_lowest)) as HB. cbv zeta in HB.
    destruct HB as [_ HB]. specialize (HB v (nth_error_In _ _ Hk)). fold (get_bounds path) in HB.
    unfold rect_contains_rect in Ec. unfold in_rect in *. bool_hyps. lia.
Qed.

(* ====================================================================== the instance with the translated leaf functions *)
Lemma t_get_location_false r v : rect_ok r -> fst (t_get_location r v) = false -> in_rect r v.
Proof.
  intros Hok. unfold rect_ok in Hok. unfold t_get_location. destruct (GetLocation (R64 r) v Location_Inside) as [b l] eqn:E. cbn [fst]. intros ->.
  destruct (RectClipLeaf.location_partition _ _ _ _ _ E) as (_ & S & _). specialize (S eq_refl).
  unfold RectClipLeaf.on_side, R64 in S. cbn [CSem.r_left CSem.r_top CSem.r_right CSem.r_bottom] in S. unfold in_rect.
  destruct S as [S|[S|[S|S]]]; lia.
Qed.

Lemma t_get_intersection_inv r p p2 loc ip b l' v :
  t_get_intersection r p p2 loc ip = (b, l', v) -> exists l, GetIntersection (RPath r) p p2 (loc_idx loc) ip = (b, l, v) /\ l' = loc_of_idx l.
Proof.
  unfold t_get_intersection. destruct (GetIntersection (RPath r) p p2 (loc_idx loc) ip) as [[b0 l0] q0].
  intros H. inversion H; subst. exists l0. split; reflexivity.
Qed.

Theorem rect_clip_vertices r path out piece v s :
  rect_i64 r -> rect_clip_t r path = Ok out -> In piece out -> In (v, s) piece ->
  match s with
  | SV i => nth_error path i = Some v /\ in_rect r v
  | SC k => nth_error (rect_as_path r) k = Some v
  | SI i => exists a b, cseg_at path i a b /\ exists loc ip0 loc',
              GetIntersection (RPath r) b a loc ip0 = (true, loc', v) \/ GetIntersection (RPath r) a b loc ip0 = (true, loc', v)
  | SX _ => False
  end.
Proof.
  intros Hr E Hp Hv. unfold rect_clip_t in E. destruct (rect_is_empty r) eqn:He; [inversion E; subst; destruct Hp|].
  apply rect_nonempty_ok in He. assert (Hok : rect_ok r) by (unfold rect_ok; lia).
  pose proof (clip_provenance _ _ _ _ _ _ Hr E piece (v, s) Hp Hv) as P. unfold cprov in P. cbn [fst snd] in P.
  destruct s as [i|i|i|k].
  - destruct P as [A [B|B]]; (split; [exact A|]); [exact B|apply (t_get_location_false _ _ Hok), B].
  - destruct P as (a & b & Hs & loc & ip0 & l' & [G|G]); apply t_get_intersection_inv in G; destruct G as (l & G & _);
      exists a, b; (split; [exact Hs|]); exists (loc_idx loc), ip0, l; [left|right]; exact G.
  - exact P.
  - exact P.
Qed.

(* the statement of the design: every output vertex is an input vertex in the closed rectangle, a corner, or an intersection
   point GetIntersection vouched for (result true) *)
Corollary rect_clip_vertices_untagged r path out :
  rect_i64 r -> rect_clip_t r path = Ok out ->
  forall piece v, In piece (untag out) -> In v piece ->
    (In v path /\ in_rect r v) \/ In v (rect_as_path r)
    \/ exists a b loc ip0 loc', In a path /\ In b path /\ GetIntersection (RPath r) a b loc ip0 = (true, loc', v).
Proof.
  intros Hr E piece v Hp Hv. unfold untag in Hp. apply in_map_iff in Hp. destruct Hp as (tp & <- & Htp).
  apply in_map_iff in Hv. destruct Hv as ([v' s] & Hv' & Hin). cbn [fst] in Hv'. subst v'.
  pose proof (rect_clip_vertices r path out tp v s Hr E Htp Hin) as P. destruct s as [i|i|i|k].
  - left. destruct P as [A B]. split; [eapply nth_error_In; exact A|exact B].
  - right; right. destruct P as (a & b & [Ha Hb] & loc & ip0 & l' & [G|G]).
    + exists b, a, loc, ip0, l'. split; [eapply nth_error_In; exact Hb|]. split; [eapply nth_error_In; exact Ha|exact G].
    + exists a, b, loc, ip0, l'. split; [eapply nth_error_In; exact Ha|]. split; [eapply nth_error_In; exact Hb|exact G].
  - destruct P.
  - right; left. eapply nth_error_In; exact P.
Qed.

(* regression example: the input for which the code before the repair of the pass-through branch returned
   [[(32769434,279593456); (0,0); (32769433,279593456)]] -- a triangle that misses the 1 x 1 rectangle -- now vanishes *)
Definition stale_rect : rect := mkRect 32769433 279593455 32769434 279593456.
Definition stale_path : list pt := [(109421516, 656086942); (-25760342, -7888347); (32769354, 279593454)].
Example stale_repaired : rect_clip_t stale_rect stale_path = Ok [].
Proof. vm_compute. reflexivity. Qed.

(* ====================================================================== the corner loops *)
Lemma corner_loop_total r a b cw rs : a <> Inside -> b <> Inside -> exists rs', corner_loop r loop_fuel a b cw rs = Ok rs'.
Proof.
  intros Ha Hb. destruct a; try contradiction; destruct b; try contradiction; destruct cw; eexists; reflexivity.
Qed.

Lemma startloc_loop_total a b cw sl : b <> Inside -> exists sl', startloc_loop loop_fuel a b cw sl = Ok sl'.
Proof.
  intros Hb. destruct a; destruct b; try contradiction; destruct cw; eexists; reflexivity.
Qed.

(* a successful GetIntersection names a side: the loop that runs to crossing_loc ends *)
Lemma t_get_intersection_side r p p2 loc ip l' q : t_get_intersection r p p2 loc ip = (true, l', q) -> l' <> Inside.
Proof.
  intros H. apply t_get_intersection_inv in H. destruct H as (l & G & Hl). subst l'.
  apply RectClipLeaf.gi_true_side in G. destruct G as [G _]. apply RectClipLeaf.in_sides in G.
  destruct G as [-> | [-> | [-> | ->]]]; discriminate.
Qed.

(* a corner loop whose target is Inside never ends: what the model reports as running out of fuel *)
Lemma adj_not_inside a cw : adj a cw <> Inside.
Proof. destruct a, cw; vm_compute; discriminate. Qed.

Lemma corner_loop_inside_diverges r fuel : forall a cw rs, exists e, corner_loop r fuel a Inside cw rs = Err e.
Proof.
  induction fuel as [|f IH]; intros a cw rs; [exists ErrFuel; reflexivity|].
  cbn [corner_loop]. destruct (add_corner r a cw rs) as [[a' rs']|e] eqn:E; cbn [bind]; [|exists e; reflexivity].
  assert (Ha' : a' <> Inside).
  { unfold add_corner in E. destruct cw.
    - destruct (corner r a); cbn [bind] in E; [|discriminate]. inversion E; subst. apply adj_not_inside.
    - destruct (corner r (adj a false)); cbn [bind] in E; [|discriminate]. inversion E; subst. apply adj_not_inside. }
  destruct (loc_eqb a' Inside) eqn:El; [destruct a'; try discriminate El; contradiction|apply IH].
Qed.

(* ====================================================================== everything about one call, together *)
Lemma corner_in_rect r k v : rect_ok r -> nth_error (rect_as_path r) k = Some v -> in_rect r v.
Proof.
  unfold rect_ok, rect_as_path, in_rect. intros Hok H.
  destruct k as [|[|[|[|k]]]]; cbn in H; try (inversion H; subst; unfold rp0, rp1, rp2, rp3, px, py; cbn [fst snd]; lia).
  destruct k; discriminate.
Qed.

Theorem rect_clip_partial r path out :
  rect_is_empty r = false -> rect_i64 r -> (forall v, In v path -> pt_i64 v) ->
  rect_clip_t r path = Ok out ->
  (forall piece v s, In piece out -> In (v, s) piece ->
     match s with
     | SV i => nth_error path i = Some v /\ in_rect r v
     | SC k => nth_error (rect_as_path r) k = Some v
     | SI i => exists a b, cseg_at path i a b /\ exists loc ip0 loc',
                 GetIntersection (RPath r) b a loc ip0 = (true, loc', v) \/ GetIntersection (RPath r) a b loc ip0 = (true, loc', v)
     | SX _ => False
     end)
  /\ (forall piece v s, In piece out -> In (v, s) piece -> match s with SV _ | SC _ => in_rect r v | _ => True end)
  /\ ((3 <= length path)%nat -> (forall v, In v path -> in_rect r v) -> untag out = [path])
  /\ (((forall v, In v path -> px v < r_left r) \/ (forall v, In v path -> r_right r < px v)
       \/ (forall v, In v path -> py v < r_top r) \/ (forall v, In v path -> r_bottom r < py v)) -> out = []).
Proof.
  intros He Hr Hi E.
  assert (Hok : rect_ok r) by (apply rect_nonempty_ok in He; unfold rect_ok; lia).
  assert (P : forall piece v s, In piece out -> In (v, s) piece -> _) by (intros piece v s; apply (rect_clip_vertices r path out piece v s Hr E)).
  split; [exact P|]. split; [|split].
  - intros piece v s Hp Hv. specialize (P piece v s Hp Hv). destruct s; try exact I; [apply P|eapply corner_in_rect; eassumption].
  - intros Hn Hin. destruct (rect_clip_shortcuts r path He Hr Hi) as [S _]. destruct (S Hn Hin) as [S1 _].
    rewrite S1 in E. inversion E; subst. cbn [untag map]. rewrite untag_tag_sv. reflexivity.
  - intros Hb. destruct (rect_clip_shortcuts r path He Hr Hi) as [_ S]. destruct (S Hb) as [S1 _].
    rewrite S1 in E. inversion E; reflexivity.
Qed.

(* ====================================================================== several paths in one call *)
Lemma untag_app_c a b : untag (a ++ b) = untag a ++ untag b.
Proof. unfold untag. apply map_app. Qed.

Lemma rect_clip_paths_t_app r ps : forall qs a b,
  rect_clip_paths_t r ps = Ok a -> rect_clip_paths_t r qs = Ok b -> rect_clip_paths_t r (ps ++ qs) = Ok (a ++ b).
Proof.
  induction ps as [|p t IH]; intros qs a b Ha Hb; cbn [rect_clip_paths_t app] in *.
  - inversion Ha; subst. exact Hb.
  - destruct (rect_clip_t r p) as [o|] eqn:Eo; cbn [bind] in *; [|discriminate].
    destruct (rect_clip_paths_t r t) as [o'|] eqn:Et; cbn [bind] in *; [|discriminate].
    inversion Ha; subst. rewrite (IH qs o' b eq_refl Hb). cbn [bind]. rewrite app_assoc. reflexivity.
Qed.

Lemma rect_clip_paths_t_split r ps : forall qs c,
  rect_clip_paths_t r (ps ++ qs) = Ok c ->
  exists a b, rect_clip_paths_t r ps = Ok a /\ rect_clip_paths_t r qs = Ok b /\ c = a ++ b.
Proof.
  induction ps as [|p t IH]; intros qs c H; cbn [rect_clip_paths_t app] in *.
  - exists [], c. repeat split; assumption.
  - destruct (rect_clip_t r p) as [o|] eqn:Eo; cbn [bind] in *; [|discriminate].
    destruct (rect_clip_paths_t r (t ++ qs)) as [o'|] eqn:Et; cbn [bind] in *; [|discriminate].
    inversion H; subst. destruct (IH qs o' Et) as (a & b & Ea & Eb & ->).
    exists (o ++ a), b. rewrite Ea. cbn [bind]. repeat split; [exact Eb|apply app_assoc].
Qed.

(* the call on ps ++ qs is the call on ps followed by the call on qs: no state survives a path *)
Theorem rect_clip_paths_app r ps qs :
  (forall a b, rect_clip_paths r ps = Ok a -> rect_clip_paths r qs = Ok b -> rect_clip_paths r (ps ++ qs) = Ok (a ++ b))
  /\ (forall c, rect_clip_paths r (ps ++ qs) = Ok c ->
        exists a b, rect_clip_paths r ps = Ok a /\ rect_clip_paths r qs = Ok b /\ c = a ++ b).
Proof.
  unfold rect_clip_paths. split.
  - intros a b Ha Hb.
    destruct (rect_clip_paths_t r ps) as [x|] eqn:Ex; cbn [bind] in Ha; [|discriminate].
    destruct (rect_clip_paths_t r qs) as [y|] eqn:Ey; cbn [bind] in Hb; [|discriminate].
    inversion Ha; inversion Hb; subst. rewrite (rect_clip_paths_t_app r ps qs x y Ex Ey). cbn [bind]. rewrite untag_app_c. reflexivity.
  - intros c H. destruct (rect_clip_paths_t r (ps ++ qs)) as [z|] eqn:Ez; cbn [bind] in H; [|discriminate].
    inversion H; subst. destruct (rect_clip_paths_t_split r ps qs z Ez) as (a & b & Ea & Eb & ->).
    exists (untag a), (untag b). rewrite Ea, Eb. cbn [bind]. repeat split. apply untag_app_c.
Qed.

(* one path in the call = that path alone *)
Theorem rect_clip_paths_single r p o : rect_clip_t r p = Ok o -> rect_clip_paths r [p] = Ok (rect_clip r p).
Proof.
  intros E. unfold rect_clip_paths, rect_clip. cbn [rect_clip_paths_t]. rewrite E. cbn [bind res_default]. rewrite app_nil_r. reflexivity.
Qed.

(* the arch that goes round the outside of the rectangle (three outside regions, no contact) followed by a crossing path:
   the second result is what the crossing path gives alone *)
Example rect_clip_paths_ex :
  rect_clip_paths (mkRect 30 50 70 150) [[(0, 160); (0, 0); (100, 0); (100, 160); (90, 160); (90, 10); (10, 10); (10, 160)];
                                        [(30, 200); (30, 100); (70, 100); (70, 200)]]
  = Ok (rect_clip (mkRect 30 50 70 150) [(30, 200); (30, 100); (70, 100); (70, 200)])
  /\ rect_clip (mkRect 30 50 70 150) [(0, 160); (0, 0); (100, 0); (100, 160); (90, 160); (90, 10); (10, 10); (10, 160)] = [].
Proof. split; vm_compute; reflexivity. Qed.
