(* ScaleProofs.v -- lemmas about the scale selection and the pure scaling functions of model/Scale.v that need no
   real-number reasoning: finite case analysis over the 17 legal precisions (exact Z / Q arithmetic, vm_compute),
   list lemmas. The binary64 exactness results (Flocq) are in ScaleFloat.v. *)
From Clip Require Import base.Geom.
From Clip Require Import base.FloatModel.
From Clip Require Import model.Scale.
From Coq Require Import ZArith List Floats QArith Qabs Bool Lia.
Import ListNotations.
Local Open Scope Z_scope.

(* ---------- the 17 legal precisions ---------- *)
Lemma prec_cases p : - 8 <= p <= 8 ->
  p = -8 \/ p = -7 \/ p = -6 \/ p = -5 \/ p = -4 \/ p = -3 \/ p = -2 \/ p = -1 \/ p = 0 \/
  p = 1 \/ p = 2 \/ p = 3 \/ p = 4 \/ p = 5 \/ p = 6 \/ p = 7 \/ p = 8.
Proof. lia. Qed.

Ltac enum_prec p H :=
  let Hc := fresh "Hc" in
  pose proof (prec_cases p H) as Hc;
  repeat (destruct Hc as [-> | Hc]); [.. | subst p].

(* ---------- the decimal power table ---------- *)

(* pow10_spec p is a normal double m * 2^e whose distance to 10^p is at most half a unit in the last place:
   it is the correctly rounded decimal power (exact for p >= 0). All comparisons are exact, in Q. *)
Definition correctly_rounded_pow10 (p : Z) : bool :=
  match F_decode (pow10_spec p) with
  | Some (false, m, e) =>
      (2 ^ 52 <=? m) && (m <? 2 ^ 53) &&
      Qle_bool (Qabs (inject_Z m * Qpower 2 e - Qpower 10 p) * 2) (Qpower 2 e)
  | _ => false
  end.

Lemma pow10_spec_correctly_rounded p : - 8 <= p <= 8 -> correctly_rounded_pow10 p = true.
Proof. intros H. enum_prec p H; vm_compute; reflexivity. Qed.

Definition exact_pow10 (p : Z) : bool :=
  match F_decode (pow10_spec p) with
  | Some (false, m, e) => Qeq_bool (inject_Z m * Qpower 2 e) (Qpower 10 p)
  | _ => false
  end.

Lemma pow10_spec_exact_nonneg p : 0 <= p <= 8 -> exact_pow10 p = true.
Proof.
  intros H. assert (p = 0 \/ p = 1 \/ p = 2 \/ p = 3 \/ p = 4 \/ p = 5 \/ p = 6 \/ p = 7 \/ p = 8) as Hc by lia.
  repeat (destruct Hc as [-> | Hc]); [.. | subst p]; vm_compute; reflexivity.
Qed.

(* the values used by Minkowski*(PathD) outside +-8 are also correctly rounded; the run-time libm check covers -12..12 *)

(* ---------- ClipperD's scale ---------- *)

(* k = log2_above_pow10 p is characterised exactly: 2^(k-1) <= 10^p < 2^k *)
Definition is_log2_above (p k : Z) : bool :=
  Qle_bool (Qpower 2 (k - 1)) (Qpower 10 p) && negb (Qle_bool (Qpower 2 k) (Qpower 10 p)).

Lemma log2_above_pow10_spec p : - 8 <= p <= 8 -> is_log2_above p (log2_above_pow10 p) = true.
Proof. intros H. enum_prec p H; vm_compute; reflexivity. Qed.

Lemma is_log2_above_Q p k : is_log2_above p k = true ->
  (Qpower 2 (k - 1) <= Qpower 10 p)%Q /\ (Qpower 10 p < Qpower 2 k)%Q.
Proof.
  unfold is_log2_above. rewrite andb_true_iff, negb_true_iff. intros [H1 H2]. split.
  - apply Qle_bool_iff; exact H1.
  - apply Qnot_le_lt. intro H. apply Qle_bool_iff in H. congruence.
Qed.

(* pow2f k is the double 2^k (mantissa 2^52, exponent k-52) on the whole range ClipperD can produce *)
Lemma pow2f_decode k : - 27 <= k <= 28 -> F_decode (pow2f k) = Some (false, 2 ^ 52, k - 52).
Proof.
  intros H.
  assert (k = -27 \/ k = -26 \/ k = -25 \/ k = -24 \/ k = -23 \/ k = -22 \/ k = -21 \/ k = -20 \/ k = -19 \/ k = -18 \/
          k = -17 \/ k = -16 \/ k = -15 \/ k = -14 \/ k = -13 \/ k = -12 \/ k = -11 \/ k = -10 \/ k = -9 \/ k = -8 \/
          k = -7 \/ k = -6 \/ k = -5 \/ k = -4 \/ k = -3 \/ k = -2 \/ k = -1 \/ k = 0 \/ k = 1 \/ k = 2 \/ k = 3 \/
          k = 4 \/ k = 5 \/ k = 6 \/ k = 7 \/ k = 8 \/ k = 9 \/ k = 10 \/ k = 11 \/ k = 12 \/ k = 13 \/ k = 14 \/
          k = 15 \/ k = 16 \/ k = 17 \/ k = 18 \/ k = 19 \/ k = 20 \/ k = 21 \/ k = 22 \/ k = 23 \/ k = 24 \/
          k = 25 \/ k = 26 \/ k = 27 \/ k = 28) as Hc by lia.
  repeat (destruct Hc as [-> | Hc]); [.. | subst k]; vm_compute; reflexivity.
Qed.

Lemma log2_above_range p : - 8 <= p <= 8 -> - 26 <= log2_above_pow10 p <= 27.
Proof. intros H. enum_prec p H; vm_compute; split; discriminate. Qed.

(* the model of the constructor, fed with the correctly rounded decimal power, yields the specified scale,
   and so does its reciprocal *)
Lemma scaleD_model_spec p : - 8 <= p <= 8 -> scaleD_model pow10_spec p = scaleD_spec p.
Proof. intros H. enum_prec p H; vm_compute; reflexivity. Qed.

Lemma ilogb_pow10 p : - 8 <= p <= 8 -> ilogb_model (pow10_spec p) + 1 = log2_above_pow10 p.
Proof. intros H. enum_prec p H; vm_compute; reflexivity. Qed.

Lemma invD_exact p : - 8 <= p <= 8 -> inv_of (scaleD_spec p) = pow2f (- log2_above_pow10 p).
Proof. intros H. enum_prec p H; vm_compute; reflexivity. Qed.

(* scales are never zero, infinite or NaN on the legal range, neither are their reciprocals *)
Definition good_scale (s : float) : bool :=
  negb (feqb s 0) && is_finite s && fltb 0 s && negb (feqb (inv_of s) 0) && is_finite (inv_of s).

Lemma scaleD_good p : - 8 <= p <= 8 -> good_scale (scaleD_spec p) = true.
Proof. intros H. enum_prec p H; vm_compute; reflexivity. Qed.

Lemma pow10_good p : - 8 <= p <= 8 -> good_scale (pow10_spec p) = true.
Proof. intros H. enum_prec p H; vm_compute; reflexivity. Qed.

Lemma good_scale_nonzero s : good_scale s = true -> feqb s 0 = false.
Proof. unfold good_scale. rewrite !andb_true_iff, !negb_true_iff. tauto. Qed.

(* ---------- list lemmas ---------- *)
Lemma opt_map_app {A B} (f : A -> option B) l1 l2 :
  opt_map f (l1 ++ l2) =
  match opt_map f l1, opt_map f l2 with Some a, Some b => Some (a ++ b) | _, _ => None end.
Proof.
  induction l1 as [|a l1 IH]; cbn [opt_map app].
  - destruct (opt_map f l2); reflexivity.
  - rewrite IH. destruct (f a), (opt_map f l1), (opt_map f l2); reflexivity.
Qed.

Lemma opt_map_length {A B} (f : A -> option B) l r : opt_map f l = Some r -> length r = length l.
Proof.
  revert r; induction l as [|a l IH]; cbn [opt_map]; intros r H.
  - inversion H; reflexivity.
  - destruct (f a); [|discriminate]. destruct (opt_map f l) eqn:E; [|discriminate].
    inversion H; subst. cbn [length]. f_equal. apply IH. reflexivity.
Qed.

Lemma opt_map_In {A B} (f : A -> option B) l r a :
  opt_map f l = Some r -> In a l -> exists b, f a = Some b /\ In b r.
Proof.
  revert r; induction l as [|x l IH]; cbn [opt_map]; intros r H Hin; [contradiction|].
  destruct (f x) eqn:Ex; [|discriminate]. destruct (opt_map f l) eqn:E; [|discriminate].
  inversion H; subst. destruct Hin as [->|Hin].
  - exists b. split; [exact Ex|left; reflexivity].
  - destruct (IH _ eq_refl Hin) as [b' [Hb Hi]]. exists b'. split; [exact Hb|right; exact Hi].
Qed.

(* a conversion that is defined yields an int64 *)
Lemma round_cast_in_i64 d z : round_cast d = Some z -> in_i64 z = true.
Proof.
  unfold round_cast. destruct (F2Z_round d) as [w|]; [|discriminate].
  destruct (in_i64 w) eqn:E; [|discriminate]. intros H; inversion H; subst; exact E.
Qed.

Lemma scale_path_ub_free sx sy p q :
  scale_path sx sy p = Some q -> forall v, In v q -> in_i64 (fst v) = true /\ in_i64 (snd v) = true.
Proof.
  unfold scale_path. revert q; induction p as [|a p IH]; cbn [opt_map]; intros q H v Hv.
  - inversion H; subst; contradiction.
  - destruct (scale_pt sx sy a) eqn:Ea; [|discriminate].
    destruct (opt_map (scale_pt sx sy) p) eqn:E; [|discriminate].
    inversion H; subst. destruct Hv as [<-|Hv]; [|eapply IH; [reflexivity|exact Hv]].
    unfold scale_pt, scale_coord in Ea.
    destruct (round_cast (fst a * sx)) eqn:E1; [|discriminate].
    destruct (round_cast (snd a * sy)) eqn:E2; [|discriminate].
    inversion Ea; subst; cbn [fst snd]. split; eapply round_cast_in_i64; eassumption.
Qed.

(* NaN passes the range test of ScalePaths and then hits an undefined conversion *)
Lemma range_guard_nan_witness :
  range_ok 100 100 [[(nan, 0%float)]] = true /\ scale_paths_raw 100 100 [[(nan, 0%float)]] = None.
Proof. split; vm_compute; reflexivity. Qed.
