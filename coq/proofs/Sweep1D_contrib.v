(* C01: a closed edge is contributing exactly when it separates a region inside the result from one outside. *)
From Clip Require Import base.Geom base.Region model.Sweep1D.
From Coq Require Import ZifyBool Lia.
Local Open Scope Z_scope.

Lemma odd_succ_pm W d : d = 1 \/ d = -1 -> Z.odd (W + d) = negb (Z.odd W).
Proof.
  intros [-> | ->].
  - rewrite Z.add_1_r, Z.odd_succ, <- Z.negb_odd. reflexivity.
  - replace (W + -1) with (Z.pred W) by lia. rewrite Z.odd_pred, <- Z.negb_odd. reflexivity.
Qed.

Definition gin (ct : clip_type) (fr : fill_rule) (ws wcl : Z) : bool := in_result ct fr ws wcl.

Lemma hi_cases W d : d = 1 \/ d = -1 ->
  (hi W d = W /\ Z.abs (W + d) < Z.abs W) \/ (hi W d = W + d /\ Z.abs W < Z.abs (W + d)).
Proof. intros Hd. unfold hi. destruct (Z.abs W <? Z.abs (W + d)) eqn:E; lia. Qed.

Lemma hi_nonzero W d : d = 1 \/ d = -1 -> hi W d <> 0.
Proof. intros Hd. destruct (hi_cases W d Hd) as [[-> Ha] | [-> Ha]]; lia. Qed.

(* first switch of IsContributingClosed: the edge bounds its own path type's filled region *)
Definition pass (fr : fill_rule) (w : Z) : bool :=
  match fr with
  | EvenOdd => true
  | NonZero => Z.abs w =? 1
  | Positive => w =? 1
  | Negative => w =? -1
  end.

Lemma pass_spec fr w W d : d = 1 \/ d = -1 -> wc_ok fr w W d = true ->
  pass fr w = xorb (inside fr W) (inside fr (W + d)).
Proof.
  intros Hd Hw. destruct fr; cbn [pass wc_ok inside] in *.
  - rewrite (odd_succ_pm W d Hd). destruct (Z.odd W); reflexivity.
  - apply Z.eqb_eq in Hw. subst w. destruct (hi_cases W d Hd) as [[-> Ha] | [-> Ha]];
    destruct (W =? 0) eqn:E1; destruct (W + d =? 0) eqn:E2; cbn [negb xorb]; lia.
  - apply Z.eqb_eq in Hw. subst w. destruct (hi_cases W d Hd) as [[-> Ha] | [-> Ha]];
    destruct (0 <? W) eqn:E1; destruct (0 <? W + d) eqn:E2; cbn [xorb]; lia.
  - apply Z.eqb_eq in Hw. subst w. destruct (hi_cases W d Hd) as [[-> Ha] | [-> Ha]];
    destruct (W <? 0) eqn:E1; destruct (W + d <? 0) eqn:E2; cbn [xorb]; lia.
Qed.

(* "inside the other path type's region", as the second switch reads it off wind_cnt2 *)
Definition cin (fr : fill_rule) (w2 : Z) : bool :=
  match fr with
  | Positive => 0 <? w2
  | Negative => w2 <? 0
  | _ => negb (w2 =? 0)
  end.

Lemma cin_spec fr w2 W : wc2_ok fr w2 W = true -> cin fr w2 = inside fr W.
Proof.
  intros H. destruct fr; cbn [cin wc2_ok inside] in *; apply Z.eqb_eq in H; subst w2; try reflexivity.
  destruct (Z.odd W); reflexivity.
Qed.

Lemma contributing_factored ct fr e :
  is_contributing_closed ct fr e =
  pass fr (wc e) &&
  match ct with
  | NoClip => false
  | Intersection => cin fr (wc2 e)
  | Union => negb (cin fr (wc2 e))
  | Difference => match ep e with Subj => negb (cin fr (wc2 e)) | Clp => cin fr (wc2 e) end
  | Xor => true
  end.
Proof.
  unfold is_contributing_closed, pass, cin.
  destruct fr, ct; try destruct (ep e);
  repeat match goal with |- context [if ?c then _ else _] => destruct c eqn:? end;
  cbn [negb andb] in *; try reflexivity; try discriminate;
  rewrite ?Bool.negb_involutive; try reflexivity; try lia.
Qed.

Theorem contributing_is_boundary ct fr ws wcl e :
  eopen e = false -> edge_ok ct fr ws wcl e = true ->
  is_contributing_closed ct fr e =
  xorb (gin ct fr ws wcl) (gin ct fr (ws + contrib Subj e) (wcl + contrib Clp e)).
Proof.
  intros Ho Hok. unfold edge_ok in Hok. rewrite Ho in Hok.
  rewrite contributing_factored.
  destruct e as [pt d w w2 h o]. cbn [eopen ep wdx wc wc2 hot] in *. subst o.
  apply andb_prop in Hok. destruct Hok as [Hok _].
  apply andb_prop in Hok. destruct Hok as [Hd Hw].
  assert (d = 1 \/ d = -1) as Hd' by lia. clear Hd.
  unfold gin, in_result, contrib; cbn [eopen ep wdx wc wc2 hot].
  destruct pt; cbn [ptype_eqb] in *; apply andb_prop in Hw; destruct Hw as [Hw Hw2];
  rewrite ?Z.add_0_r, (pass_spec _ _ _ _ Hd' Hw), (cin_spec _ _ _ Hw2).
  - generalize (inside fr ws), (inside fr (ws + d)), (inside fr wcl). intros a a' c.
    destruct ct, a, a', c; reflexivity.
  - generalize (inside fr wcl), (inside fr (wcl + d)), (inside fr ws). intros a a' c.
    destruct ct, a, a', c; reflexivity.
Qed.
