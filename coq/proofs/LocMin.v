(* C13: what AddPaths_ computes for a closed path (model/LocMin.v) does not depend on the start vertex or on
   inserted duplicate/closing vertices; local minima and maxima alternate. *)
From Clip Require Import base.Geom base.Winding model.LocMin.
From Coq Require Import Permutation.
Local Open Scope Z_scope.

(* ====================================================================== abstract view of the flagging loop *)
(* direction of an edge: Some true = going up (y decreasing), Some false = going down, None = horizontal *)
Definition dir (e : pt * pt) : option bool :=
  if py (fst e) <? py (snd e) then Some false
  else if py (snd e) <? py (fst e) then Some true
  else None.

Inductive kind := KNone | KMax | KMin.

Definition kflags (k : kind) : vflags :=
  match k with KNone => fl_empty | KMax => set_max fl_empty | KMin => set_min fl_empty end.

(* one iteration of the while loop seen from its edge prev_v -> curr_v: the flag given to prev_v and the new going_up *)
Definition step (up : bool) (e : pt * pt) : kind * bool :=
  match dir e with
  | None => (KNone, up)
  | Some d => (if Bool.eqb d up then KNone else if d then KMin else KMax, d)
  end.

Fixpoint run (up : bool) (es : list (pt * pt)) : list kind * bool :=
  match es with
  | [] => ([], up)
  | e :: t => let '(k, u) := step up e in let '(ks, u') := run u t in (k :: ks, u')
  end.

(* direction of the last non-horizontal edge *)
Fixpoint last_dir (es : list (pt * pt)) : option bool :=
  match es with
  | [] => None
  | e :: t => match last_dir t with Some d => Some d | None => dir e end
  end.

Lemma run_snd up es : snd (run up es) = match last_dir es with Some d => d | None => up end.
Proof.
  revert up; induction es as [|e t IH]; intros up; [reflexivity|].
  cbn [run last_dir]. destruct (step up e) as [k u] eqn:Es.
  specialize (IH u). destruct (run u t) as [ks u']. cbn [snd] in *. rewrite IH.
  destruct (last_dir t); [reflexivity|].
  unfold step in Es. destruct (dir e); inversion Es; reflexivity.
Qed.

Lemma run_app up es es' :
  run up (es ++ es') = (fst (run up es) ++ fst (run (snd (run up es)) es'), snd (run (snd (run up es)) es')).
Proof.
  revert up; induction es as [|e t IH]; intros up.
  - cbn [app run fst snd]. destruct (run up es'); reflexivity.
  - cbn [app run]. destruct (step up e) as [k u]. rewrite IH.
    destruct (run u t) as [ks u']. cbn [fst snd]. reflexivity.
Qed.

Lemma last_dir_app es es' : last_dir (es ++ es') = match last_dir es' with Some d => Some d | None => last_dir es end.
Proof.
  induction es as [|e t IH]; [cbn [app last_dir]; destruct (last_dir es'); reflexivity|].
  cbn [app last_dir]. rewrite IH. destruct (last_dir es'); reflexivity.
Qed.

(* the flags of a whole ring: start from the state the last non-horizontal edge leaves behind *)
Definition cyc_kinds (es : list (pt * pt)) : list kind :=
  match last_dir es with
  | None => map (fun _ => KNone) es
  | Some g0 => fst (run g0 es)
  end.

Lemma length_run up es : length (fst (run up es)) = length es.
Proof.
  revert up; induction es as [|e t IH]; intros up; [reflexivity|].
  cbn [run]. destruct (step up e) as [k u]. specialize (IH u). destruct (run u t). cbn [fst length] in *. lia.
Qed.

Lemma run_all_horizontal up es : last_dir es = None -> fst (run up es) = map (fun _ => KNone) es.
Proof.
  revert up; induction es as [|e t IH]; intros up H; [reflexivity|].
  cbn [last_dir] in H. destruct (last_dir t) eqn:Et; [discriminate|].
  cbn [run map]. unfold step. rewrite H. specialize (IH up eq_refl). destruct (run up t). cbn [fst] in *. rewrite IH. reflexivity.
Qed.

(* rotating the edge cycle by one rotates the flags by one *)
Lemma cyc_kinds_rot1 e t : cyc_kinds (t ++ [e]) = tl (cyc_kinds (e :: t)) ++ firstn 1 (cyc_kinds (e :: t)).
Proof.
  unfold cyc_kinds.
  assert (Hl : last_dir (t ++ [e]) = match dir e with Some d => Some d | None => last_dir t end).
  { rewrite last_dir_app. cbn [last_dir]. reflexivity. }
  destruct (last_dir (e :: t)) as [g0|] eqn:E0.
  - (* g0 is a fixpoint of the whole cycle *)
    assert (Hfix : snd (run g0 (e :: t)) = g0) by (rewrite run_snd, E0; reflexivity).
    cbn [run] in Hfix |- *. destruct (step g0 e) as [k g1] eqn:Es.
    destruct (run g1 t) as [ks u'] eqn:Er. cbn [snd fst tl firstn] in *. subst u'.
    assert (Hg1 : g1 = match dir e with Some d => d | None => g0 end)
      by (unfold step in Es; destruct (dir e); inversion Es; reflexivity).
    assert (Hrt : snd (run g1 t) = g0) by (rewrite Er; reflexivity).
    rewrite run_snd in Hrt.
    (* the rotated cycle starts from g1 *)
    assert (Hg0' : last_dir (t ++ [e]) = Some g1).
    { rewrite Hl. destruct (dir e) as [d|] eqn:Ed; [rewrite Hg1; reflexivity|].
      cbn [last_dir] in E0. rewrite Ed in E0. destruct (last_dir t); [|discriminate].
      rewrite Hg1. inversion E0. subst. reflexivity. }
    rewrite Hg0'. rewrite run_app. cbn [fst]. rewrite Er. cbn [fst snd run]. rewrite Es. reflexivity.
  - cbn [last_dir] in E0. destruct (last_dir t) eqn:Et; [discriminate|].
    rewrite Hl, E0. cbn [map tl firstn]. rewrite map_app. reflexivity.
Qed.

(* ====================================================================== alternation *)
(* reading the flags from state g and arriving in state g': every Max happens in state "up", every Min in
   state "down", and each flips the state *)
Fixpoint alternates (g : bool) (ks : list kind) (g' : bool) : Prop :=
  match ks with
  | [] => g = g'
  | KNone :: t => alternates g t g'
  | KMax :: t => g = true /\ alternates false t g'
  | KMin :: t => g = false /\ alternates true t g'
  end.

Lemma run_alternates up es : alternates up (fst (run up es)) (snd (run up es)).
Proof.
  revert up; induction es as [|e t IH]; intros up; [reflexivity|].
  cbn [run]. destruct (step up e) as [k u] eqn:Es. specialize (IH u). destruct (run u t) as [ks u'].
  cbn [fst snd] in *. unfold step in Es.
  destruct (dir e) as [d|]; [|inversion Es; subst; exact IH].
  destruct d, up; inversion Es; subst; cbn [Bool.eqb alternates]; auto.
Qed.

Definition count (k : kind) (ks : list kind) : Z :=
  zsum (map (fun x => match x, k with KMax, KMax | KMin, KMin => 1 | _, _ => 0 end) ks).

Lemma alternates_count g ks g' : alternates g ks g' ->
  count KMax ks - count KMin ks = (if g then 1 else 0) - (if g' then 1 else 0).
Proof.
  revert g; induction ks as [|k t IH]; intros g H.
  - cbn in H. subst. unfold count; cbn. lia.
  - unfold count in *. destruct k; cbn [alternates map zsum] in *.
    + specialize (IH g H). lia.
    + destruct H as [-> H]. specialize (IH false H). cbv iota in IH. lia.
    + destruct H as [-> H]. specialize (IH true H). cbv iota in IH. lia.
Qed.

(* the subsequence of real flags: true = Max, false = Min *)
Fixpoint marks (ks : list kind) : list bool :=
  match ks with
  | [] => []
  | KNone :: t => marks t
  | KMax :: t => true :: marks t
  | KMin :: t => false :: marks t
  end.

Fixpoint adj_differ (l : list bool) : Prop :=
  match l with
  | a :: ((b :: _) as t) => a <> b /\ adj_differ t
  | _ => True
  end.

(* alternation of the marks from state g: the first mark is Max iff g, consecutive marks differ,
   and the last mark is Min iff the final state is "up" *)
Lemma alternates_marks g ks g' : alternates g ks g' ->
  adj_differ (marks ks)
  /\ match marks ks with [] => g = g' | m :: _ => m = g /\ last (marks ks) m = negb g' end.
Proof.
  revert g; induction ks as [|k t IH]; intros g H; [cbn in *; auto|].
  destruct k; cbn [alternates marks] in *.
  - apply IH, H.
  - destruct H as [-> H]. destruct (IH false H) as [Ha Hm]. split.
    + destruct (marks t) as [|m l]; [exact I|]. cbn [adj_differ]. split; [destruct Hm as [-> _]; discriminate|exact Ha].
    + split; [reflexivity|]. destruct (marks t) as [|m l]; [cbn; subst; reflexivity|].
      destruct Hm as [_ Hm]. cbn [last] in *. rewrite <- Hm.
      clear. revert m. induction l; intros; [reflexivity|]. cbn [last]. destruct l; [reflexivity|apply IHl].
  - destruct H as [-> H]. destruct (IH true H) as [Ha Hm]. split.
    + destruct (marks t) as [|m l]; [exact I|]. cbn [adj_differ]. split; [destruct Hm as [-> _]; discriminate|exact Ha].
    + split; [reflexivity|]. destruct (marks t) as [|m l]; [cbn; subst; reflexivity|].
      destruct Hm as [_ Hm]. cbn [last] in *. rewrite <- Hm.
      clear. revert m. induction l; intros; [reflexivity|]. cbn [last]. destruct l; [reflexivity|apply IHl].
Qed.

(* around the ring: consecutive marks differ, also across the seam (last -> first), and there are as many
   maxima as minima *)
Definition alternate_cyclically (ks : list kind) : Prop :=
  adj_differ (marks ks ++ firstn 1 (marks ks)) /\ count KMax ks = count KMin ks.

Lemma last_cons {A} (l : list A) x d : last (x :: l) d = last l x.
Proof.
  revert x d; induction l as [|y l IH]; intros x d; [reflexivity|].
  change (last (x :: y :: l) d) with (last (y :: l) d). rewrite (IH y d), (IH y x). reflexivity.
Qed.

Lemma adj_differ_snoc l a x : adj_differ (a :: l) -> last l a <> x -> adj_differ ((a :: l) ++ [x]).
Proof.
  revert a; induction l as [|b l IH]; intros a H Hl.
  - cbn in *. auto.
  - destruct H as [Hab H].
    change (a <> b /\ adj_differ ((b :: l) ++ [x])).
    split; [exact Hab|]. apply IH; [exact H|]. rewrite last_cons in Hl. exact Hl.
Qed.

Lemma cyc_kinds_alternate es : alternate_cyclically (cyc_kinds es).
Proof.
  unfold cyc_kinds, alternate_cyclically. destruct (last_dir es) as [g0|] eqn:E.
  - pose proof (run_alternates g0 es) as H. rewrite run_snd, E in H.
    split.
    + destruct (alternates_marks _ _ _ H) as [Ha Hm].
      destruct (marks (fst (run g0 es))) as [|m l]; [exact I|].
      cbn [firstn]. destruct Hm as [-> Hm]. apply adj_differ_snoc; [exact Ha|].
      rewrite last_cons in Hm. rewrite Hm. destruct g0; discriminate.
    + pose proof (alternates_count _ _ _ H). lia.
  - split.
    + assert (marks (map (fun _ : pt * pt => KNone) es) = []) as ->.
      { clear. induction es as [|e t IH]; [reflexivity|]. cbn [map marks]. exact IH. }
      exact I.
    + unfold count. rewrite !map_map. reflexivity.
Qed.

(* ====================================================================== the model computes cyc_kinds *)
Definition nondeg (e : pt * pt) : Prop := fst e <> snd e.

(* a closed path as the engine sees it after step 1-3: at least 3 vertices, no two cyclically consecutive equal *)
Definition clean (p : path) : Prop := (3 <= length p)%nat /\ Forall nondeg (cyc_edges p).

Fixpoint chain_ok (a : pt) (l : list pt) : Prop :=
  match l with [] => True | b :: t => a <> b /\ chain_ok b t end.

Lemma chain_ok_edges a l : Forall nondeg (open_edges (a :: l)) <-> chain_ok a l.
Proof.
  revert a; induction l as [|b l IH]; intros a; [cbn; split; auto|].
  rewrite open_edges_cons2. cbn [chain_ok]. rewrite <- IH. split.
  - intros H. inversion H; subst. auto.
  - intros [H1 H2]. constructor; auto.
Qed.

Lemma chain_ok_app a l z : chain_ok a (l ++ [z]) <-> chain_ok a l /\ last l a <> z.
Proof.
  revert a; induction l as [|b l IH]; intros a.
  - cbn. tauto.
  - cbn [app chain_ok]. rewrite IH. rewrite last_cons. tauto.
Qed.

Lemma skip_dups_clean a l : chain_ok a l -> skip_dups a l = l.
Proof.
  revert a; induction l as [|b l IH]; intros a H; [reflexivity|].
  destruct H as [Hab H]. cbn [skip_dups].
  destruct (pt_eqb a b) eqn:E; [apply pt_eqb_eq in E; contradiction|]. rewrite (IH b H). reflexivity.
Qed.

Lemma clean_parts a t : clean (a :: t) -> chain_ok a t /\ last t a <> a /\ (2 <= length t)%nat.
Proof.
  intros [Hlen H]. cbn [cyc_edges] in H.
  change ((a :: t) ++ [a]) with (a :: (t ++ [a])) in H.
  apply chain_ok_edges, chain_ok_app in H. cbn [length] in Hlen. destruct H. repeat split; auto; lia.
Qed.

Lemma strip_clean a t : clean (a :: t) -> strip (a :: t) = a :: t.
Proof. intros H. destruct (clean_parts a t H) as [Hc _]. cbn [strip]. rewrite skip_dups_clean; auto. Qed.

Lemma last_cons_d {A} (l : list A) x d : last (x :: l) d = last l x.
Proof. apply last_cons. Qed.

Lemma drop_closing_clean a t : clean (a :: t) -> drop_closing (a :: t) = a :: t.
Proof.
  intros H. destruct (clean_parts a t H) as [_ [Hl _]]. unfold drop_closing.
  rewrite last_cons. destruct (pt_eqb (last t a) a) eqn:E; [apply pt_eqb_eq in E; contradiction|reflexivity].
Qed.

(* positions carrying the LocalMin flag, counted from i *)
Fixpoint min_pos (i : nat) (fs : list vflags) : list nat :=
  match fs with
  | [] => []
  | f :: t => (if f_min f then [i] else []) ++ min_pos (S i) t
  end.

Lemma min_pos_app i fs fs' : min_pos i (fs ++ fs') = min_pos i fs ++ min_pos (i + length fs) fs'.
Proof.
  revert i; induction fs as [|f t IH]; intros i; [cbn [app min_pos length]; rewrite Nat.add_0_r; reflexivity|].
  cbn [app min_pos length]. rewrite IH, <- app_assoc.
  replace (S i + length t)%nat with (i + S (length t))%nat by lia. reflexivity.
Qed.

(* step 6 is [run] over the open edge chain *)
Lemma scan_run up i prev rest :
  scan up i prev rest =
  (map kflags (fst (run up (open_edges (prev :: rest)))),
   min_pos i (map kflags (fst (run up (open_edges (prev :: rest))))),
   snd (run up (open_edges (prev :: rest)))).
Proof.
  revert up i prev; induction rest as [|c t IH]; intros up i prev; [reflexivity|].
  rewrite open_edges_cons2. cbn [scan run]. unfold step, dir. cbn [fst snd].
  destruct (py prev <? py c) eqn:E1.
  - assert (py c <? py prev = false) as E2 by lia.
    destruct up; cbn [andb Bool.eqb negb].
    + rewrite IH. destruct (run false (open_edges (c :: t))). reflexivity.
    + rewrite E2. cbn [andb]. rewrite IH. destruct (run false (open_edges (c :: t))). reflexivity.
  - cbn [andb]. destruct (py c <? py prev) eqn:E2.
    + destruct up; cbn [andb Bool.eqb negb].
      * rewrite IH. destruct (run true (open_edges (c :: t))). reflexivity.
      * unfold add_loc_min. cbn [f_min fl_empty]. rewrite IH. destruct (run true (open_edges (c :: t))). reflexivity.
    + cbn [andb]. rewrite IH. destruct (run up (open_edges (c :: t))). reflexivity.
Qed.

(* step 5 finds the direction of the last non-horizontal edge of the cycle *)
Lemma back_walk_last_dir y0 x l z : py x = y0 -> py z = y0 ->
  back_walk y0 (rev l) = last_dir (open_edges (x :: l ++ [z])).
Proof.
  intros Hx. revert z. induction l as [|w l IH] using rev_ind; intros z Hz.
  - cbn. unfold dir. cbn [fst snd]. rewrite Hx, Hz, Z.ltb_irrefl. reflexivity.
  - rewrite rev_app_distr. cbn [rev app back_walk].
    rewrite <- app_assoc. cbn [app].
    change (x :: l ++ [w; z]) with ((x :: l) ++ [w; z]). rewrite open_edges_snoc, last_dir_app.
    cbn [last_dir]. unfold dir at 1. cbn [fst snd]. rewrite Hz.
    destruct (Z.eqb_spec (py w) y0) as [E|E].
    + rewrite E, Z.ltb_irrefl. apply IH, E.
    + destruct (Z.ltb_spec (py w) y0), (Z.ltb_spec y0 (py w)); try lia; reflexivity.
Qed.

Lemma cyc_edges_split a t : cyc_edges (a :: t) = open_edges (a :: t) ++ [(last t a, a)].
Proof.
  cbn [cyc_edges]. revert a. induction t as [|b t IH] using rev_ind; intros a; [reflexivity|].
  rewrite last_last. change ((a :: t ++ [b]) ++ [a]) with (a :: (t ++ [b]) ++ [a]).
  rewrite <- app_assoc. cbn [app]. change (a :: t ++ [b; a]) with ((a :: t) ++ [b; a]).
  rewrite open_edges_snoc. reflexivity.
Qed.

Lemma length_open_edges a l : length (open_edges (a :: l)) = length l.
Proof. revert a; induction l as [|b l IH]; intros a; [reflexivity|]. rewrite open_edges_cons2. cbn [length]. rewrite IH. reflexivity. Qed.

Lemma length_cyc_edges p : length (cyc_edges p) = length p.
Proof.
  destruct p as [|a t]; [reflexivity|]. rewrite cyc_edges_split, app_length, length_open_edges. cbn [length]. lia.
Qed.

Lemma length_cyc_kinds es : length (cyc_kinds es) = length es.
Proof. unfold cyc_kinds. destruct (last_dir es); [apply length_run|apply map_length]. Qed.

Lemma combine_const {E} (l : list pt) (es : list E) : length es = length l ->
  combine l (map (fun _ => fl_empty) es) = map (fun v => (v, fl_empty)) l.
Proof.
  revert es; induction l as [|x l IH]; intros [|e es] H; cbn in *; try lia; [reflexivity|].
  rewrite (IH es); [reflexivity|lia].
Qed.

Definition ring_of (p : path) : list (pt * vflags) := combine p (map kflags (cyc_kinds (cyc_edges p))).

(* main correspondence lemma *)
Theorem add_path_clean p : clean p ->
  add_path p = Ring (ring_of p) (min_pos 0 (map snd (ring_of p))).
Proof.
  intros Hc. destruct p as [|a t]; [destruct Hc as [H _]; cbn in H; lia|].
  destruct (clean_parts a t Hc) as [Hch [Hl Hlen]].
  unfold add_path. rewrite (strip_clean a t Hc).
  destruct t as [|b t]; [cbn in Hlen; lia|]. destruct t as [|c t]; [cbn in Hlen; lia|].
  cbv zeta. rewrite (drop_closing_clean _ _ Hc).
  assert (Nat.eqb (length (a :: b :: c :: t)) 2 = false) as -> by reflexivity.
  set (tl0 := b :: c :: t) in *. cbn [tl].
  rewrite (back_walk_last_dir (py a) a tl0 a eq_refl eq_refl).
  change (open_edges (a :: tl0 ++ [a])) with (cyc_edges (a :: tl0)).
  unfold ring_of, cyc_kinds.
  assert (Hsnd : forall ks : list vflags, length ks = length (a :: tl0) -> map snd (combine (a :: tl0) ks) = ks).
  { intros ks. generalize (a :: tl0). induction ks as [|k ks IH]; intros [|x l] Hk; cbn in *; try lia; [reflexivity|].
    rewrite IH; [reflexivity|lia]. }
  destruct (last_dir (cyc_edges (a :: tl0))) as [up0|] eqn:Eld.
  - rewrite scan_run. rewrite cyc_edges_split in *. set (es1 := open_edges (a :: tl0)) in *. set (el := (last tl0 a, a)) in *.
    rewrite run_app. cbn [fst snd run].
    pose proof (run_snd up0 es1) as Hu. set (u := snd (run up0 es1)) in *.
    rewrite last_dir_app in Eld. cbn [last_dir] in Eld.
    assert (Hlenks : length (fst (run up0 es1)) = length tl0) by (rewrite length_run; apply length_open_edges).
    assert (Hfix :
      (if Bool.eqb u up0 then (fl_empty, @nil nat) else if up0 then add_loc_min fl_empty (length tl0) else (set_max fl_empty, []))
      = (kflags (fst (step u el)), min_pos (length tl0) [kflags (fst (step u el))])).
    { unfold step. destruct (dir el) as [d|] eqn:Ed.
      - inversion Eld; subst d. cbn [fst].
        destruct up0, u; cbn [Bool.eqb kflags min_pos f_min set_min set_max fl_empty add_loc_min app]; reflexivity.
      - cbn [fst kflags min_pos f_min fl_empty app].
        destruct (last_dir es1) as [d|]; [|discriminate]. inversion Eld as [Hd]. cbv iota beta in Hu.
        rewrite Hu, Hd, Bool.eqb_reflx. reflexivity. }
    rewrite Hfix. destruct (step u el) as [kl ul]. cbn [fst].
    rewrite (Hsnd (map kflags (fst (run up0 es1) ++ [kl]))) by (rewrite map_length, app_length, Hlenks; cbn [length]; lia).
    rewrite map_app, min_pos_app, map_length, Hlenks. cbn [map Nat.add]. reflexivity.
  - rewrite (Hsnd (map kflags (map (fun _ => KNone) (cyc_edges (a :: tl0))))) by (rewrite !map_length, length_cyc_edges; reflexivity).
    f_equal.
    + rewrite map_map. cbn [kflags]. symmetry. apply combine_const. apply length_cyc_edges.
    + rewrite map_map. cbn [kflags]. generalize 0%nat. generalize (cyc_edges (a :: tl0)). clear.
      induction l as [|e es IH]; intros i; [reflexivity|].
      cbn [map min_pos f_min fl_empty app]. apply IH.
Qed.

(* ====================================================================== start-vertex rotation *)
Lemma cyc_edges_rot1 a t : t <> [] -> cyc_edges (t ++ [a]) = tl (cyc_edges (a :: t)) ++ firstn 1 (cyc_edges (a :: t)).
Proof.
  intros Ht. destruct t as [|b t]; [contradiction|].
  assert (H1 : cyc_edges (a :: b :: t) = (a, b) :: open_edges ((b :: t) ++ [a])) by reflexivity.
  assert (H2 : cyc_edges ((b :: t) ++ [a]) = open_edges ((b :: t) ++ [a; b])).
  { change (cyc_edges ((b :: t) ++ [a])) with (open_edges (((b :: t) ++ [a]) ++ [b])).
    rewrite <- app_assoc. reflexivity. }
  rewrite H1, H2, open_edges_snoc. reflexivity.
Qed.

Lemma rot1_as_tl_firstn {A} (l : list A) : rotl 1 l = tl l ++ firstn 1 l.
Proof. destruct l; reflexivity. Qed.

Lemma Forall_rot1 {A} (P : A -> Prop) (l : list A) : Forall P l -> Forall P (tl l ++ firstn 1 l).
Proof.
  destruct l as [|x l]; [auto|]. cbn [tl firstn]. intros H. inversion H; subst.
  apply Forall_app. split; [assumption|]. constructor; auto.
Qed.

Lemma clean_rot1 p : clean p -> clean (rotl 1 p).
Proof.
  destruct p as [|a t]; [auto|]. intros [Hlen H]. cbn [rotl].
  destruct t as [|b t]; [cbn in Hlen; lia|].
  split; [rewrite app_length; cbn [length] in *; lia|].
  rewrite cyc_edges_rot1 by discriminate. apply Forall_rot1, H.
Qed.

Lemma combine_rot1 {A B} (l : list A) (l' : list B) : length l = length l' ->
  combine (tl l ++ firstn 1 l) (tl l' ++ firstn 1 l') = tl (combine l l') ++ firstn 1 (combine l l').
Proof.
  destruct l as [|x l], l' as [|y l']; cbn [length tl firstn combine]; intros H; try lia; [reflexivity|].
  assert (length l = length l') by lia. clear H.
  revert l' H0; induction l as [|z l IH]; intros [|w l'] H; cbn in *; try lia; [reflexivity|].
  rewrite IH; [reflexivity|lia].
Qed.

Lemma map_rot1 {A B} (f : A -> B) (l : list A) : map f (tl l ++ firstn 1 l) = tl (map f l) ++ firstn 1 (map f l).
Proof. destruct l; [reflexivity|]. cbn [tl firstn map]. rewrite map_app. reflexivity. Qed.

Lemma ring_of_rot1 p : clean p -> ring_of (rotl 1 p) = rotl 1 (ring_of p).
Proof.
  intros Hc. destruct p as [|a t]; [reflexivity|].
  destruct t as [|b t]; [destruct Hc as [H _]; cbn in H; lia|].
  unfold ring_of. cbn [rotl].
  rewrite cyc_edges_rot1 by discriminate.
  set (es := cyc_edges (a :: b :: t)).
  assert (Hes : es = hd (a, a) es :: tl es).
  { unfold es. rewrite cyc_edges_split. rewrite open_edges_cons2. reflexivity. }
  rewrite Hes at 1 2. cbn [tl firstn].
  rewrite (cyc_kinds_rot1 (hd (a, a) es) (tl es)). rewrite <- Hes.
  rewrite map_rot1.
  change ((b :: t) ++ [a]) with (tl (a :: b :: t) ++ firstn 1 (a :: b :: t)).
  rewrite combine_rot1 by (rewrite map_length, length_cyc_kinds; unfold es; rewrite length_cyc_edges; reflexivity).
  rewrite <- rot1_as_tl_firstn. reflexivity.
Qed.

Lemma rotl_S {A} k (l : list A) : rotl (S k) l = rotl k (rotl 1 l).
Proof. destruct l; [destruct k; reflexivity|reflexivity]. Qed.

Lemma clean_rotl k p : clean p -> clean (rotl k p).
Proof.
  revert p; induction k as [|k IH]; intros p H; [exact H|]. rewrite rotl_S. apply IH, clean_rot1, H.
Qed.

Lemma ring_of_rotl k p : clean p -> ring_of (rotl k p) = rotl k (ring_of p).
Proof.
  revert p; induction k as [|k IH]; intros p H; [reflexivity|].
  rewrite (rotl_S k p), (rotl_S k (ring_of p)), IH by (apply clean_rot1, H). rewrite ring_of_rot1 by exact H. reflexivity.
Qed.

(* the ring vertices carrying the LocalMin flag *)
Definition min_vertices (r : list (pt * vflags)) : list (pt * vflags) := filter (fun v => f_min (snd v)) r.

Lemma rotl_perm {A} k (l : list A) : Permutation (rotl k l) l.
Proof.
  revert l; induction k as [|k IH]; intros l; [reflexivity|]. destruct l as [|a t]; [reflexivity|].
  cbn [rotl]. rewrite IH. symmetry. apply Permutation_cons_append.
Qed.

Lemma filter_perm {A} (f : A -> bool) l l' : Permutation l l' -> Permutation (filter f l) (filter f l').
Proof.
  induction 1; cbn [filter].
  - reflexivity.
  - destruct (f x); [apply perm_skip|]; assumption.
  - destruct (f x), (f y); try reflexivity. apply perm_swap.
  - etransitivity; eassumption.
Qed.

(* the minima list lists exactly the flagged positions, in ring order *)
Lemma min_pos_nth (r : list (pt * vflags)) d i0 :
  map (fun i => nth (i - i0) r d) (min_pos i0 (map snd r)) = min_vertices r.
Proof.
  revert i0; induction r as [|v r IH]; intros i0; [reflexivity|].
  cbn [map min_pos]. unfold min_vertices. cbn [filter]. rewrite map_app.
  assert (Ht : map (fun i => nth (i - i0) (v :: r) d) (min_pos (S i0) (map snd r)) = min_vertices r).
  { rewrite <- (IH (S i0)). apply map_ext_in. intros i Hi.
    assert (S i0 <= i)%nat.
    { clear - Hi. revert i0 Hi. generalize (map snd r). induction l as [|f l IHl]; intros i0 Hi; [destruct Hi|].
      cbn [min_pos] in Hi. apply in_app_or in Hi. destruct Hi as [Hi|Hi].
      - destruct (f_min f); [destruct Hi as [<-|[]]; lia|destruct Hi].
      - specialize (IHl (S i0) Hi). lia. }
    replace (i - i0)%nat with (S (i - S i0)) by lia. reflexivity. }
  rewrite Ht. destruct (f_min (snd v)); [|reflexivity]. cbn [map app]. rewrite Nat.sub_diag. reflexivity.
Qed.

Theorem locmin_rotate p k : clean p ->
  exists r ms r' ms',
    add_path p = Ring r ms /\ add_path (rotl k p) = Ring r' ms'
    /\ r' = rotl k r                                             (* same flagged ring, read from another vertex *)
    /\ map (fun i => nth i r ((0, 0), fl_empty)) ms = min_vertices r          (* minima = the flagged vertices *)
    /\ map (fun i => nth i r' ((0, 0), fl_empty)) ms' = min_vertices r'
    /\ Permutation (min_vertices r') (min_vertices r).                         (* the same minima *)
Proof.
  intros Hc.
  exists (ring_of p), (min_pos 0 (map snd (ring_of p))), (ring_of (rotl k p)), (min_pos 0 (map snd (ring_of (rotl k p)))).
  split; [apply add_path_clean, Hc|]. split; [apply add_path_clean, clean_rotl, Hc|].
  split; [apply ring_of_rotl, Hc|].
  pose proof (fun r => min_pos_nth r ((0, 0), fl_empty) 0%nat) as Hn.
  split; [rewrite <- Hn; apply map_ext; intros i; rewrite Nat.sub_0_r; reflexivity|].
  split; [rewrite <- Hn; apply map_ext; intros i; rewrite Nat.sub_0_r; reflexivity|].
  rewrite ring_of_rotl by exact Hc. apply filter_perm, rotl_perm.
Qed.

(* ====================================================================== duplicate and closing vertices *)
Lemma skip_dups_repeat x k r : skip_dups x (repeat x k ++ r) = skip_dups x r.
Proof. induction k as [|k IH]; [reflexivity|]. cbn [repeat app skip_dups]. rewrite pt_eqb_refl. exact IH. Qed.

Lemma skip_dups_repeat_each x m t r : chain_ok x t ->
  skip_dups x (repeat_each m t ++ r) = t ++ skip_dups (last t x) r.
Proof.
  revert x m; induction t as [|b t IH]; intros x m H; [reflexivity|].
  destruct H as [Hxb H]. cbn [repeat_each]. rewrite <- !app_assoc. cbn [app skip_dups].
  destruct (pt_eqb x b) eqn:E; [apply pt_eqb_eq in E; contradiction|].
  rewrite skip_dups_repeat, (IH b (tl m) H), last_cons. reflexivity.
Qed.

Lemma strip_insert_dups m c a t : clean (a :: t) ->
  strip (insert_dups m c (a :: t)) = (a :: t) ++ (match c with O => [] | S _ => [a] end).
Proof.
  intros Hc. destruct (clean_parts a t Hc) as [Hch [Hl _]].
  unfold insert_dups. cbn [repeat_each]. rewrite <- !app_assoc. cbn [app strip].
  rewrite skip_dups_repeat, (skip_dups_repeat_each a (tl m) t _ Hch).
  f_equal. f_equal.
  destruct c as [|c]; [reflexivity|]. cbn [repeat skip_dups].
  destruct (pt_eqb (last t a) a) eqn:E; [apply pt_eqb_eq in E; contradiction|].
  f_equal. rewrite <- (app_nil_r (repeat a c)), skip_dups_repeat. reflexivity.
Qed.

Theorem locmin_dups m c p : clean p -> add_path (insert_dups m c p) = add_path p.
Proof.
  intros Hc. destruct p as [|a t]; [reflexivity|].
  destruct (clean_parts a t Hc) as [Hch [Hl Hlen]].
  destruct t as [|b t]; [cbn in Hlen; lia|]. destruct t as [|b2 t]; [cbn in Hlen; lia|].
  unfold add_path at 1. rewrite (strip_insert_dups m c _ _ Hc).
  destruct c as [|c].
  - rewrite app_nil_r. unfold add_path. rewrite (strip_clean _ _ Hc). reflexivity.
  - unfold add_path. rewrite (strip_clean _ _ Hc).
    cbv zeta.
    assert (Hd : drop_closing ((a :: b :: b2 :: t) ++ [a]) = a :: b :: b2 :: t).
    { unfold drop_closing. cbn [app]. change (a :: b :: b2 :: t ++ [a]) with ((a :: b :: b2 :: t) ++ [a]).
      rewrite last_last, pt_eqb_refl, removelast_last. reflexivity. }
    rewrite (drop_closing_clean _ _ Hc).
    change ((a :: b :: b2 :: t) ++ [a]) with (a :: b :: b2 :: t ++ [a]) in *.
    rewrite Hd.
    assert (Nat.eqb (length (a :: b :: b2 :: t ++ [a])) 2 = false) as -> by reflexivity.
    assert (Nat.eqb (length (a :: b :: b2 :: t)) 2 = false) as -> by reflexivity.
    reflexivity.
Qed.

(* ====================================================================== alternation, stated on the ring *)
Definition kind_of (f : vflags) : kind :=
  if f_max f then KMax else if f_min f then KMin else KNone.

Lemma kind_of_kflags k : kind_of (kflags k) = k.
Proof. destruct k; reflexivity. Qed.

Theorem locmin_alternate p : clean p ->
  exists r ms, add_path p = Ring r ms /\ alternate_cyclically (map (fun v => kind_of (snd v)) r).
Proof.
  intros Hc. exists (ring_of p), (min_pos 0 (map snd (ring_of p))). split; [apply add_path_clean, Hc|].
  assert (map (fun v => kind_of (snd v)) (ring_of p) = cyc_kinds (cyc_edges p)) as ->.
  { unfold ring_of.
    assert (Hlen : length p = length (cyc_kinds (cyc_edges p))) by (rewrite length_cyc_kinds, length_cyc_edges; reflexivity).
    revert Hlen. generalize (cyc_kinds (cyc_edges p)). generalize p. clear.
    induction p as [|x p IH]; intros [|k ks] H; cbn in *; try lia; [reflexivity|].
    rewrite kind_of_kflags, IH; [reflexivity|lia]. }
  apply cyc_kinds_alternate.
Qed.

(* satisfiable: a concave hexagon is clean and has three minima and three maxima (y grows downwards) *)
Example clean_witness :
  let p := [(0,0);(4,6);(8,0);(8,10);(4,4);(0,10)] in
  clean p /\ exists r, add_path p = Ring r [1%nat; 3%nat; 5%nat].
Proof.
  cbv zeta. split.
  - split; [cbn; lia|]. cbn. repeat constructor; unfold nondeg; cbn; congruence.
  - eexists. vm_compute. reflexivity.
Qed.
