(* C02 — verified exact checker for boolean operations on axis-parallel (rectilinear) input.

   [rect_check S C out ct fr] decides, by a finite computation, that the closed solution [out] of the
   boolean operation (ct, fr) on subject paths [S] and clip paths [C]
     - has every vertex on X x Y  (X / Y = the distinct x / y coordinates of the input vertices),
     - has only axis-parallel edges,
     - has net winding number exactly 1 on every cell of the compressed grid that the specification
       [spec_closed] selects and 0 on every other cell, the unbounded cells included,
     - has twice-signed-area equal to the summed (doubled) areas of the selected cells.
   Cells are sampled at their centres, expressed in DOUBLED coordinates (inputs scaled with [pscale 2],
   centre = (x_i + x_{i+1}, y_j + y_{j+1}); the unbounded cells at 2*x_min - 1, 2*x_max + 1).
   proofs/RectCheck.v lifts this finite evaluation to every point of the plane off the grid lines.

   Definitions only (plus sanity examples); everything here is extracted into bin/oracle_rectcheck. *)
From Clip Require Import base.Geom base.Winding base.Region.
Local Open Scope Z_scope.

Definition b2z (b : bool) : Z := if b then 1 else 0.

Definition scale_path (k : Z) (p : path) : path := map (pscale k) p.
Definition scale_paths (k : Z) (ps : paths) : paths := map (scale_path k) ps.
Definition dbl (ps : paths) : paths := scale_paths 2 ps.

Definition translate_paths (d : pt) (ps : paths) : paths := map (map (fun v => padd v d)) ps.

(* ---------- sorted distinct coordinates ---------- *)
Fixpoint insert_u (x : Z) (l : list Z) : list Z :=
  match l with
  | [] => [x]
  | y :: t => if x <? y then x :: l else if x =? y then l else y :: insert_u x t
  end.

Definition sortu (l : list Z) : list Z := fold_right insert_u [] l.

Definition vertices (ps : paths) : list pt := concat ps.
Definition xs_of (ps : paths) : list Z := sortu (map px (vertices ps)).
Definition ys_of (ps : paths) : list Z := sortu (map py (vertices ps)).

(* ---------- cell representatives (doubled coordinates) with the cell's extent ----------
   For the sorted distinct values x_0 < ... < x_n:
     (2 x_0 - 1, 0), (x_0 + x_1, x_1 - x_0), ..., (x_{n-1} + x_n, x_n - x_{n-1}), (2 x_n + 1, 0)
   the unbounded intervals get extent 0 (they never contribute area). *)
Fixpoint reps_from (a : Z) (l : list Z) : list (Z * Z) :=
  match l with
  | [] => [(2 * a + 1, 0)]
  | b :: t => (a + b, b - a) :: reps_from b t
  end.

Definition reps (l : list Z) : list (Z * Z) :=
  match l with
  | [] => [(0, 0)]
  | a :: t => (2 * a - 1, 0) :: reps_from a t
  end.

(* a cell: centre in doubled coordinates, twice its area in original units (0 for unbounded cells) *)
Definition cell := (pt * Z)%type.

Definition cells (X Y : list Z) : list cell :=
  flat_map (fun '(cx, w) => map (fun '(cy, h) => ((cx, cy), 2 * w * h)) (reps Y)) (reps X).

(* ---------- per-input preparation: winding numbers of subject and clip at every cell centre ---------- *)
Definition pcell := (pt * Z * Z * Z)%type.      (* centre, area2, wn S, wn C *)

Definition prep (S C : paths) : list pcell :=
  let X := xs_of (S ++ C) in let Y := ys_of (S ++ C) in
  let S2 := dbl S in let C2 := dbl C in
  map (fun '(c, a) => (c, a, wn_paths S2 c, wn_paths C2 c)) (cells X Y).

Definition selected (ct : clip_type) (fr : fill_rule) (pc : pcell) : bool :=
  let '(_, _, ws, wc) := pc in in_result ct fr ws wc.

(* ---------- the four clauses ---------- *)
Definition memz (x : Z) (l : list Z) : bool := existsb (Z.eqb x) l.

Definition vertex_on_grid (X Y : list Z) (v : pt) : bool := memz (px v) X && memz (py v) Y.
Definition vertices_on_grid (X Y : list Z) (out : paths) : bool := forallb (vertex_on_grid X Y) (vertices out).

Definition edge_axis_parallel (e : pt * pt) : bool :=
  let (a, b) := e in (px a =? px b) || (py a =? py b).
Definition rectilinearb (p : path) : bool := forallb edge_axis_parallel (cyc_edges p).
Definition rectilinear_allb (ps : paths) : bool := forallb rectilinearb ps.

Definition cell_ok (ct : clip_type) (fr : fill_rule) (out2 : paths) (pc : pcell) : bool :=
  let '(c, _, _, _) := pc in wn_paths out2 c =? b2z (selected ct fr pc).
Definition cells_ok (ct : clip_type) (fr : fill_rule) (pr : list pcell) (out : paths) : bool :=
  let out2 := dbl out in forallb (cell_ok ct fr out2) pr.
(* for diagnostics: the cells at which the solution's net winding is not the specified one *)
Definition bad_cells (ct : clip_type) (fr : fill_rule) (pr : list pcell) (out : paths) : list pcell :=
  let out2 := dbl out in filter (fun pc => negb (cell_ok ct fr out2 pc)) pr.

Definition selected_area2_prep (ct : clip_type) (fr : fill_rule) (pr : list pcell) : Z :=
  zsum (map (fun pc => if selected ct fr pc then snd (fst (fst pc)) else 0) pr).
Definition area_ok (ct : clip_type) (fr : fill_rule) (pr : list pcell) (out : paths) : bool :=
  area2_paths out =? selected_area2_prep ct fr pr.

(* the checker on a prepared input (the preparation is shared by all option sets run on the same input) *)
Definition rect_check_prep (X Y : list Z) (pr : list pcell) (out : paths) (ct : clip_type) (fr : fill_rule) : bool :=
  vertices_on_grid X Y out && rectilinear_allb out && cells_ok ct fr pr out && area_ok ct fr pr out.

Definition rect_check (S C out : paths) (ct : clip_type) (fr : fill_rule) : bool :=
  rect_check_prep (xs_of (S ++ C)) (ys_of (S ++ C)) (prep S C) out ct fr.

(* the exact area (doubled) the specification assigns to the operation *)
Definition selected_cell_area2 (ct : clip_type) (fr : fill_rule) (S C : paths) : Z :=
  selected_area2_prep ct fr (prep S C).

(* ---------- structural side conditions checked for free on every solution ----------
   (they belong to C03; reported under their own keys) *)
Fixpoint has_adjacent_dup (p : path) : bool :=
  match p with
  | a :: (b :: _) as t => pt_eqb a b || has_adjacent_dup t
  | _ => false
  end.
Definition closes_on_itself (p : path) : bool :=
  match p with
  | a :: _ :: _ => pt_eqb a (last p a)
  | _ => false
  end.
Definition path_short (p : path) : bool := (length p <? 3)%nat.
Definition structural_code (out : paths) : Z :=
  if existsb path_short out then 1
  else if existsb (fun p => has_adjacent_dup p || closes_on_itself p) out then 2
  else 0.

(* ---------- sanity examples ---------- *)
Example sortu_ex : sortu [3; 1; 3; 2; 1] = [1; 2; 3].
Proof. reflexivity. Qed.

Example reps_ex : reps [0; 1; 4] = [(-1, 0); (1, 1); (5, 3); (9, 0)].
Proof. reflexivity. Qed.

Definition sqA : path := [(0, 0); (2, 0); (2, 2); (0, 2)].
Definition sqB : path := [(1, 1); (3, 1); (3, 3); (1, 3)].

Example check_inter : rect_check [sqA] [sqB] [[(1, 1); (2, 1); (2, 2); (1, 2)]] Intersection NonZero = true.
Proof. vm_compute. reflexivity. Qed.
Example check_inter_wrong_orientation :
  rect_check [sqA] [sqB] [[(1, 2); (2, 2); (2, 1); (1, 1)]] Intersection NonZero = false.
Proof. vm_compute. reflexivity. Qed.
Example check_union :
  rect_check [sqA] [sqB] [[(0, 0); (2, 0); (2, 1); (3, 1); (3, 3); (1, 3); (1, 2); (0, 2)]] Union EvenOdd = true.
Proof. vm_compute. reflexivity. Qed.
Example check_union_missing_cell :
  rect_check [sqA] [sqB] [[(0, 0); (2, 0); (2, 2); (0, 2)]] Union EvenOdd = false.
Proof. vm_compute. reflexivity. Qed.
Example check_xor_two_paths :
  rect_check [sqA] [sqB] [[(0, 0); (2, 0); (2, 1); (1, 1); (1, 2); (0, 2)]; [(2, 1); (3, 1); (3, 3); (1, 3); (1, 2); (2, 2)]]
             Xor Positive = true.
Proof. vm_compute. reflexivity. Qed.
(* coincident opposite edges cancel in the winding number and in the area: accepted *)
Example check_cancelling_spike :
  rect_check [sqA] [] [[(0, 0); (2, 0); (2, 2); (0, 2); (0, 0); (2, 0)]] Union NonZero = true.
Proof. vm_compute. reflexivity. Qed.
Example selected_area_ex : selected_cell_area2 Union NonZero [sqA] [sqB] = 14.
Proof. vm_compute. reflexivity. Qed.
