(* C08 -- the specification side of "RectClip equals intersection with the rectangle, path by path":
   an executable checker, in exact integer arithmetic, of every clause of the property on ONE input polygon
   [path], one rectangle [r] and the paths [out] RectClip returned for it.  Extracted into bin/oracle_rectclip
   (command CHK); proofs/RectClipCheck.v proves that an empty list of failures means what the property says at
   every sample point handed to the checker.

   Sample points are given in DOUBLED coordinates (so that half-integer points are expressible); the paths and
   the rectangle are doubled here.  "farther than 2 units from the path" is the strict comparison
   dist(q, every edge of the doubled input path) > 4. *)
From Clip Require Import base.Geom base.Winding base.Dist model.RectLeaf.
From Coq Require Import ZArith List Bool Lia.
Local Open Scope Z_scope.

Definition dbl_path (p : path) : path := map (pscale 2) p.
Definition dbl_paths (ps : paths) : paths := map dbl_path ps.

(* ---------- distance: strictly farther than tn/td from every edge ---------- *)
Definition seg_farther (tn td : Z) (q : pt) (e : pt * pt) : bool :=
  let (n, d) := dist2_pt_seg q e in sq tn * d <? n * sq td.
Definition farther_from (tn td : Z) (es : list (pt * pt)) (q : pt) : bool := forallb (seg_farther tn td q) es.

(* the same test with a shortcut that needs no multiplication: a point more than T beyond the bounding box of the edge
   in x or in y is farther than T from it (proofs/RectClipCheck.v: far_fast_eq) *)
Definition gap_gt (T : Z) (q : pt) (e : pt * pt) : bool :=
  let (a, b) := e in
  (T <? Z.min (px a) (px b) - px q) || (T <? px q - Z.max (px a) (px b))
  || (T <? Z.min (py a) (py b) - py q) || (T <? py q - Z.max (py a) (py b)).
Definition far_fast (T : Z) (es : list (pt * pt)) (q : pt) : bool :=
  forallb (fun e => gap_gt T q e || seg_farther T 1 q e) es.

(* ---------- position of a (doubled) sample point relative to the rectangle ---------- *)
Definition strictly_inside2 (r : rect) (q : pt) : bool :=
  (2 * r_left r <? px q) && (px q <? 2 * r_right r) && (2 * r_top r <? py q) && (py q <? 2 * r_bottom r).
Definition outside2 (r : rect) (q : pt) : bool :=
  (px q <? 2 * r_left r) || (2 * r_right r <? px q) || (py q <? 2 * r_top r) || (2 * r_bottom r <? py q).

(* ---------- vertices ---------- *)
(* inside the rectangle grown by s on every side *)
Definition in_rect_b (r : rect) (s : Z) (v : pt) : bool :=
  (r_left r - s <=? px v) && (px v <=? r_right r + s) && (r_top r - s <=? py v) && (py v <=? r_bottom r + s).
(* squared Euclidean distance from v to the boundary of r is <= 1 *)
Definition gap (lo hi x : Z) : Z := Z.max 0 (Z.max (lo - x) (x - hi)).
Definition near_boundary_b (r : rect) (v : pt) : bool :=
  let dx := gap (r_left r) (r_right r) (px v) in
  let dy := gap (r_top r) (r_bottom r) (py v) in
  if (dx =? 0) && (dy =? 0)
  then (* inside or on: distance to the nearest side *)
       Z.min (Z.min (px v - r_left r) (r_right r - px v)) (Z.min (py v - r_top r) (r_bottom r - py v)) <=? 1
  else dx * dx + dy * dy <=? 1.
Definition mem_pt (v : pt) (l : list pt) : bool := existsb (pt_eqb v) l.

(* ---------- closed segments a-b and c-d have a common point ---------- *)
Definition segs_meet (a b c d : pt) : bool :=
  let d1 := Z.sgn (cross a b c) in let d2 := Z.sgn (cross a b d) in
  let d3 := Z.sgn (cross c d a) in let d4 := Z.sgn (cross c d b) in
  ((d1 * d2 <? 0) && (d3 * d4 <? 0))
  || on_seg c (a, b) || on_seg d (a, b) || on_seg a (c, d) || on_seg b (c, d).

(* ---------- simple polygon: >= 3 vertices, no zero-length edge, consecutive edges share only their common
   vertex, all other pairs of edges are disjoint ---------- *)
(* e = (a, b) followed by e' = (b, c) *)
Definition consecutive_ok (e e' : pt * pt) : bool :=
  let (a, b) := e in let (b', c) := e' in
  negb (pt_eqb a b) && negb (pt_eqb b' c) && negb (on_seg c (a, b)) && negb (on_seg a (b', c)).
Definition disjoint_ok (e e' : pt * pt) : bool :=
  let (a, b) := e in let (c, d) := e' in negb (segs_meet a b c d).

(* edges with their index; the pair (i, j), i < j, of a polygon with n edges is consecutive when j = i + 1, or i = 0 and j = n - 1 *)
Definition pair_ok (n : nat) (ie je : nat * (pt * pt)) : bool :=
  let (i, e) := ie in let (j, e') := je in
  if (j =? S i)%nat then consecutive_ok e e'
  else if (i =? 0)%nat && (S j =? n)%nat then consecutive_ok e' e
  else disjoint_ok e e'.
Fixpoint all_pairs {A} (f : A -> A -> bool) (l : list A) : bool :=
  match l with
  | [] => true
  | x :: t => forallb (f x) t && all_pairs f t
  end.
Definition simpleb (p : path) : bool :=
  let es := cyc_edges p in let n := length es in
  (3 <=? n)%nat && all_pairs (pair_ok n) (combine (seq 0 n) es).

(* ---------- an edge (of positive length) lying along a side of the rectangle ---------- *)
Definition overlap_pos (a b lo hi : Z) : bool := Z.max (Z.min a b) lo <? Z.min (Z.max a b) hi.
Definition edge_along (r : rect) (e : pt * pt) : bool :=
  let (a, b) := e in
  ((px a =? px b) && ((px a =? r_left r) || (px a =? r_right r)) && overlap_pos (py a) (py b) (r_top r) (r_bottom r))
  || ((py a =? py b) && ((py a =? r_top r) || (py a =? r_bottom r)) && overlap_pos (px a) (px b) (r_left r) (r_right r)).
Definition any_edge_along (r : rect) (p : path) : bool := existsb (edge_along r) (cyc_edges p).

(* class of the input polygon: 0 simple; 1 not simple, no edge along a side; 2 not simple with an edge along a side *)
Definition classify (r : rect) (p : path) : Z :=
  if simpleb p then 0 else if any_edge_along r p then 2 else 1.

(* ---------- entirely inside / entirely outside ---------- *)
Definition all_inside (r : rect) (p : path) : bool := forallb (in_rect_b r 0) p.
Definition edge_meets_rect (r : rect) (e : pt * pt) : bool :=
  let (a, b) := e in
  segs_meet a b (rp0 r) (rp1 r) || segs_meet a b (rp1 r) (rp2 r) || segs_meet a b (rp2 r) (rp3 r) || segs_meet a b (rp3 r) (rp0 r).
(* no vertex in the closed rectangle, no edge touches its boundary, and the rectangle is not enclosed *)
Definition misses_rect (r : rect) (p : path) : bool :=
  forallb (fun v => negb (in_rect_b r 0 v)) p && forallb (fun e => negb (edge_meets_rect r e)) (cyc_edges p)
  && (wn p (rp0 r) =? 0).

Fixpoint path_eqb (a b : path) : bool :=
  match a, b with
  | [], [] => true
  | x :: s, y :: t => pt_eqb x y && path_eqb s t
  | _, _ => false
  end.
Fixpoint paths_eqb (a b : paths) : bool :=
  match a, b with
  | [], [] => true
  | x :: s, y :: t => path_eqb x y && paths_eqb s t
  | _, _ => false
  end.

(* ---------- orientation ---------- *)
(* at a point q: no output path winds around q against the orientation s (= sign of the input polygon's area) *)
Definition orient_at (s : Z) (out2 : paths) (q : pt) : bool :=
  forallb (fun o => let w := wn o q in (w =? 0) || (Z.sgn w =? s)) out2.
(* statistic only (never a verdict): output paths whose signed area has the sign opposite to the (simple) input's.  Such a path
   that contains no sample point farther than 2 units from the input path is a sliver produced by rounding the intersection
   points to the grid; the property quantifies over points farther than 2 units from the path, where [orient_at] decides. *)
Definition reversed_paths (p : path) (out : paths) : Z :=
  let a := Z.sgn (area2 p) in
  Z.of_nat (length (filter (fun o => let b := Z.sgn (area2 o) in negb (b =? 0) && negb (b =? a)) out)).

(* ---------- the point-wise clauses at one sample point; 0 = nothing to report ----------
   1: simple input, strictly inside, sum of output winding numbers <> input winding number
   2: non-simple input without an edge along a side, strictly inside, parity differs
   3: simple input, outside the rectangle, output winding number <> 0
   4: non-simple input, outside the rectangle, output winding number odd
   5: simple input, strictly inside, some output path winds around the point against the input's orientation *)
Definition sample_code (r : rect) (cls sgn_in : Z) (in2 : path) (out2 : paths) (q : pt) : Z :=
  if far_fast 4 (cyc_edges in2) q then
    if strictly_inside2 r q then
      if cls =? 0 then (if wn_paths out2 q =? wn in2 q then (if orient_at sgn_in out2 q then 0 else 5) else 1)
      else if cls =? 1 then (if Z.even (wn_paths out2 q - wn in2 q) then 0 else 2)
      else 0
    else if outside2 r q then
      if cls =? 0 then (if wn_paths out2 q =? 0 then 0 else 3)
      else (if Z.even (wn_paths out2 q) then 0 else 4)
    else 0
  else 0.

(* sample points at which the clause fails, with the code *)
Definition bad_samples (r : rect) (p : path) (out : paths) (pts : list pt) : list (pt * Z) :=
  let cls := classify r p in let in2 := dbl_path p in let out2 := dbl_paths out in
  let s := Z.sgn (area2 in2) in
  flat_map (fun q => let c := sample_code r cls s in2 out2 q in if c =? 0 then [] else [(q, c)]) pts.

(* number of sample points the clause applies to (far from the path and strictly inside, resp. outside) *)
Definition used_samples (r : rect) (p : path) (pts : list pt) : Z * Z :=
  let in2 := dbl_path p in
  fold_left (fun '(a, b) q =>
      if far_fast 4 (cyc_edges in2) q then
        if strictly_inside2 r q then (a + 1, b) else if outside2 r q then (a, b + 1) else (a, b)
      else (a, b)) pts (0, 0).

(* output vertices outside the rectangle grown by one unit *)
Definition bad_vertices (r : rect) (out : paths) : list pt :=
  filter (fun v => negb (in_rect_b r 1 v)) (concat out).
(* output vertices that are not input vertices and are farther than one unit from the rectangle's boundary *)
Definition bad_new_vertices (r : rect) (p : path) (out : paths) : list pt :=
  filter (fun v => negb (mem_pt v p) && negb (near_boundary_b r v)) (concat out).

Definition inside_unchanged_ok (r : rect) (p : path) (out : paths) : bool :=
  negb (all_inside r p) || paths_eqb out [p].
Definition outside_vanish_ok (r : rect) (p : path) (out : paths) : bool :=
  negb (misses_rect r p) || match out with [] => true | _ => false end.

(* the whole verdict *)
Record verdict := mkVerdict {
  v_class : Z; v_bad_vertices : list pt; v_bad_new : list pt; v_inside_ok : bool; v_outside_ok : bool;
  v_reversed : Z; v_bad_samples : list (pt * Z); v_used : Z * Z }.

Definition chk (r : rect) (p : path) (out : paths) (pts : list pt) : verdict :=
  mkVerdict (classify r p) (bad_vertices r out) (bad_new_vertices r p out) (inside_unchanged_ok r p out)
            (outside_vanish_ok r p out) (if classify r p =? 0 then reversed_paths p out else 0) (bad_samples r p out pts) (used_samples r p pts).

Definition verdict_ok (v : verdict) : bool :=
  match v_bad_vertices v, v_bad_new v, v_bad_samples v with
  | [], [], [] => v_inside_ok v && v_outside_ok v
  | _, _, _ => false
  end.

(* sanity *)
Definition sq10 : rect := mkRect 0 0 10 10.
Example chk_ex_ok :
  verdict_ok (chk sq10 [(-5, 5); (5, -5); (5, 5)] [[(5, 5); (0, 5); (0, 0); (5, 0)]] [(5, 5); (-7, -7); (15, 1)]) = true.
Proof. vm_compute. reflexivity. Qed.
Example chk_ex_missing_corner :
  v_bad_samples (chk sq10 [(-5, 5); (5, -5); (5, 5)] [[(5, 5); (0, 5); (5, 0)]] [(3, 3)]) = [((3, 3), 1)].
Proof. vm_compute. reflexivity. Qed.
Example simple_ex : simpleb [(0, 0); (4, 0); (4, 4); (0, 4)] = true /\ simpleb [(0, 0); (4, 4); (4, 0); (0, 4)] = false
  /\ simpleb [(0, 0); (4, 0); (2, 0)] = false /\ simpleb [(0, 0); (4, 0); (4, 4); (2, 0); (0, 4)] = false.
Proof. vm_compute. repeat split. Qed.
