(* C18 -- exact (arbitrary precision) specifications of the scalar geometry kernels of clipper.core.h.
   Definitions only; all computable and extracted into bin/oracle_c18 (SPEC+O side of checks/C18.py). *)
From Coq Require Import ZArith List Bool Lia.
From Clip Require Import base.Geom base.Winding.
Import ListNotations.
Local Open Scope Z_scope.

(* ------------------------------------------------------------------ integer predicates *)
Definition spec_multiply (a b : Z) : Z * Z := ((a * b) mod 2 ^ 64, (a * b) / 2 ^ 64).     (* (lo, hi) *)
Definition spec_products_equal (a b c d : Z) : bool := a * b =? c * d.
Definition spec_cross_sign (p q r : pt) : Z := Z.sgn (cross p q r).
Definition spec_collinear (p q r : pt) : bool := cross p q r =? 0.

(* ------------------------------------------------------------------ segment intersection
   segment 1 = a-b, segment 2 = c-d.  With  det = dy1*dx2 - dy2*dx1  the lines meet at
   a + t (b - a) = c + u (d - c),  t = tnum / det,  u = unum / det. *)
Definition isect_det (a b c d : pt) : Z :=
  (py b - py a) * (px d - px c) - (py d - py c) * (px b - px a).
Definition isect_tnum (a b c d : pt) : Z :=
  (px a - px c) * (py d - py c) - (py a - py c) * (px d - px c).
Definition isect_unum (a b c d : pt) : Z :=
  (px a - px c) * (py b - py a) - (py a - py c) * (px b - px a).

Definition parallel (a b c d : pt) : bool := isect_det a b c d =? 0.

(* 0 < num/den < 1   resp.   0 <= num/den <= 1   for den <> 0 *)
Definition frac_in_open (num den : Z) : bool := (0 <? num * Z.sgn den) && (num * Z.sgn den <? Z.abs den).
Definition frac_in_closed (num den : Z) : bool := (0 <=? num * Z.sgn den) && (num * Z.sgn den <=? Z.abs den).

(* the segments cross in exactly one point interior to both *)
Definition properly_cross (a b c d : pt) : bool :=
  let det := isect_det a b c d in
  negb (det =? 0) && frac_in_open (isect_tnum a b c d) det && frac_in_open (isect_unum a b c d) det.
(* ... in exactly one point (possibly an end point) *)
Definition closed_cross (a b c d : pt) : bool :=
  let det := isect_det a b c d in
  negb (det =? 0) && frac_in_closed (isect_tnum a b c d) det && frac_in_closed (isect_unum a b c d) det.

(* |ip - X|_inf <= tn/td where X = a + (tnum/det) (b - a) is the exact crossing of the two lines:
   td * |(ip.x - a.x) det - tnum dx1| <= tn |det|  and the same in y *)
Definition isect_within (tn td : Z) (a b c d ip : pt) : bool :=
  let det := isect_det a b c d in
  let tnum := isect_tnum a b c d in
  (td * Z.abs ((px ip - px a) * det - tnum * (px b - px a)) <=? tn * Z.abs det) &&
  (td * Z.abs ((py ip - py a) * det - tnum * (py b - py a)) <=? tn * Z.abs det).

(* the bounding box of the first segment contains ip ("a point on the first segment", to the grid) *)
Definition in_seg_box (a b ip : pt) : bool :=
  (Z.min (px a) (px b) <=? px ip) && (px ip <=? Z.max (px a) (px b)) &&
  (Z.min (py a) (py b) <=? py ip) && (py ip <=? Z.max (py a) (py b)).

(* the accuracy clause of the property for one result (ret, ip) of GetSegmentIntersectPt *)
Definition isect_ok (a b c d : pt) (ret : bool) (ip : pt) : bool :=
  if parallel a b c d then negb ret
  else ret && (if properly_cross a b c d then isect_within 1 1 a b c d ip && in_seg_box a b ip else true).

(* ------------------------------------------------------------------ PointInPolygon
   enum class PointInPolygonResult { IsOn, IsInside, IsOutside } + the error value of the hand model *)
Inductive pip_result := IsOn | IsInside | IsOutside | PipFail.

Definition pip_code (r : pip_result) : Z :=
  match r with IsOn => 0 | IsInside => 1 | IsOutside => 2 | PipFail => -1 end.

(* on the boundary / inside by the even-odd rule / outside, from the exact winding number *)
Definition pip_spec (q : pt) (poly : path) : pip_result :=
  if on_path poly q then IsOn
  else if Z.odd (wn poly q) then IsInside else IsOutside.

(* ------------------------------------------------------------------ area *)
Definition abs_edge_area2 (e : pt * pt) : Z := Z.abs (edge_area2 e).
Definition area2_abs (p : path) : Z := zsum (map abs_edge_area2 (cyc_edges p)).

(* coordinates bounded by B *)
Definition pt_le (B : Z) (p : pt) : Prop := Z.abs (px p) <= B /\ Z.abs (py p) <= B.
Definition pt_leb (B : Z) (p : pt) : bool := (Z.abs (px p) <=? B) && (Z.abs (py p) <=? B).

(* all vertices on one horizontal line *)
Definition all_y (y : Z) (p : path) : bool := forallb (fun v => py v =? y) p.
