(* C10 -- the Vertex array of clipper.engine.cpp AddPaths_ (DESIGN section 6, C10 risk (h)).

     const auto total_vertex_count = sum of path.size();
     if (total_vertex_count == 0) return;
     Vertex* vertices = new Vertex[total_vertex_count], * v = vertices;
     for (const Path64& path : paths) {
       Vertex* v0 = v, * curr_v = v, * prev_v = nullptr;
       if (path.empty()) continue;
       v->prev = nullptr;
       int cnt = 0;
       for (const Point64& pt : path) {
         if (prev_v) { if (prev_v->pt == pt) continue; prev_v->next = curr_v; }
         curr_v->prev = prev_v; curr_v->pt = pt; curr_v->flags = VertexFlags::Empty;
         prev_v = curr_v++; cnt++;
       }
       if (!prev_v || !prev_v->prev) continue;                 // v is NOT advanced: the slots are reused
       if (!is_open && prev_v->pt == v0->pt) prev_v = prev_v->prev;
       prev_v->next = v0; v0->prev = prev_v;
       v = curr_v;
       ... (flags / local minima: pointer walks inside the ring just closed, see model/LocMin.v)
     }

   ONE array is sized by the total point count and `v` advances only after a path that was linked.  The model keeps the
   array as a list of slots (pt, next, prev) with pointers as indices; EVERY read and write of a slot is bounds-checked
   and returns None when it leaves the allocation.  proofs/VertexAlloc.v shows that None never happens, for all path
   lists.  Tie: harness/cx_addpaths.cpp calls the real AddPaths_ and dumps the whole array (exact comparison with the
   extraction of add_paths_alloc, under ASan+UBSan, with and without USINGZ).  The flags are not part of this model. *)
From Clip Require Import base.Geom.
From Coq Require Import Arith.
Local Open Scope nat_scope.

Record slot := mkSlot { s_pt : pt; s_next : option nat; s_prev : option nat }.
Definition slot0 : slot := mkSlot (0%Z, 0%Z) None None.       (* Vertex(): pt = (0,0), next = prev = nullptr *)
Definition arr := list slot.

Definition set_next (n : option nat) (s : slot) : slot := mkSlot (s_pt s) n (s_prev s).
Definition set_prev (p : option nat) (s : slot) : slot := mkSlot (s_pt s) (s_next s) p.
Definition set_pt_prev (q : pt) (p : option nat) (s : slot) : slot := mkSlot q (s_next s) p.

(* checked accesses: None = outside `new Vertex[total_vertex_count]` *)
Definition rd (a : arr) (i : nat) : option slot := nth_error a i.

Fixpoint upd (a : arr) (i : nat) (f : slot -> slot) : option arr :=
  match a, i with
  | [], _ => None
  | s :: t, O => Some (f s :: t)
  | s :: t, S i' => match upd t i' f with Some t' => Some (s :: t') | None => None end
  end.

(* the inner `for (const Point64& pt : path)` loop; state (array, curr_v, prev_v, cnt) *)
Fixpoint fill (a : arr) (curr : nat) (prev_v : option nat) (cnt : nat) (l : list pt)
  : option (arr * nat * option nat * nat) :=
  match l with
  | [] => Some (a, curr, prev_v, cnt)
  | p :: t =>
      match prev_v with
      | Some pv =>
          match rd a pv with
          | None => None
          | Some s =>
              if pt_eqb (s_pt s) p then fill a curr prev_v cnt t            (* skips duplicates *)
              else
                match upd a pv (set_next (Some curr)) with                   (* prev_v->next = curr_v *)
                | None => None
                | Some a1 =>
                    match upd a1 curr (set_pt_prev p prev_v) with           (* curr_v->prev = prev_v; curr_v->pt = pt *)
                    | None => None
                    | Some a2 => fill a2 (S curr) (Some curr) (S cnt) t
                    end
                end
          end
      | None =>
          match upd a curr (set_pt_prev p None) with
          | None => None
          | Some a2 => fill a2 (S curr) (Some curr) (S cnt) t
          end
      end
  end.

(* one iteration of the outer loop: returns the array and the new `v` *)
Definition add_one (is_open : bool) (a : arr) (v : nat) (p : list pt) : option (arr * nat) :=
  match p with
  | [] => Some (a, v)                                                        (* if (path.empty()) continue; *)
  | _ =>
      match upd a v (set_prev None) with                                     (* v->prev = nullptr; *)
      | None => None
      | Some a0 =>
          match fill a0 v None 0 p with
          | None => None
          | Some (a1, curr, prev_v, _) =>
              match prev_v with
              | None => Some (a1, v)
              | Some pv =>
                  match rd a1 pv with
                  | None => None
                  | Some s =>
                      match s_prev s with
                      | None => Some (a1, v)                                 (* !prev_v->prev: continue, v unchanged *)
                      | Some pp =>
                          match rd a1 v with
                          | None => None
                          | Some s0 =>
                              let pv' := if negb is_open && pt_eqb (s_pt s) (s_pt s0) then pp else pv in
                              match upd a1 pv' (set_next (Some v)) with      (* prev_v->next = v0; *)
                              | None => None
                              | Some a2 =>
                                  match upd a2 v (set_prev (Some pv')) with  (* v0->prev = prev_v; *)
                                  | None => None
                                  | Some a3 => Some (a3, curr)               (* v = curr_v; *)
                                  end
                              end
                          end
                      end
                  end
              end
          end
      end
  end.

Fixpoint add_all (is_open : bool) (a : arr) (v : nat) (ps : list (list pt)) : option (arr * nat) :=
  match ps with
  | [] => Some (a, v)
  | p :: t => match add_one is_open a v p with Some (a', v') => add_all is_open a' v' t | None => None end
  end.

Fixpoint total_count (ps : list (list pt)) : nat :=
  match ps with [] => 0 | p :: t => length p + total_count t end.

(* result: (the Vertex array as left by the linking stage, number of slots consumed); None = an access left the array.
   total_vertex_count == 0: nothing is allocated ([] , 0). *)
Definition add_paths_alloc (is_open : bool) (ps : list (list pt)) : option (arr * nat) :=
  let total := total_count ps in
  if total =? 0 then Some ([], 0) else add_all is_open (repeat slot0 total) 0 ps.

(* ------------------------------------------------------------------ sanity *)
Example alloc_ex1 :   (* a triangle with a duplicate and a closing point, then a 1-point path whose slot is reused *)
  add_paths_alloc false [[(0, 0); (0, 0); (4, 0); (4, 4); (0, 0)]; [(7, 7)]; [(1, 1); (2, 1); (2, 2)]]%Z =
  Some ([mkSlot (0, 0)%Z (Some 1) (Some 2); mkSlot (4, 0)%Z (Some 2) (Some 0); mkSlot (4, 4)%Z (Some 0) (Some 1);
         mkSlot (0, 0)%Z None (Some 2);
         mkSlot (1, 1)%Z (Some 5) (Some 6); mkSlot (2, 1)%Z (Some 6) (Some 4); mkSlot (2, 2)%Z (Some 4) (Some 5);
         slot0; slot0], 7).
Proof. reflexivity. Qed.

Example alloc_short :   (* an array that is one slot too short makes the model fail: the check is not vacuous *)
  add_all false (repeat slot0 2) 0 [[(0, 0); (4, 0); (4, 4)]]%Z = None.
Proof. reflexivity. Qed.
