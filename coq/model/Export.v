(* Model of the flat-array marshalling of clipper.export.h (property C17) and of the forwarding table
   produced by cpp2v/export_table.py.

   Arrays are lists over an abstract element type [E] (int64_t or double).  What the C++ does with an
   element besides copying it is converting a size_t count to an element ([ofc], static_cast<T>(size_t))
   and back ([toc], static_cast<size_t>(T); [None] = the conversion is undefined).  Two instances are
   given at the end: int64 ([Z]) and binary64 given as its 64-bit pattern ([Z], so that the
   reinterpreted z values of USINGZ builds are compared as raw bits).

   A vertex is the list of its D = EXPORT_VERTEX_DIMENSIONALITY components (x, y and, with USINGZ, z).
   Encoders exist twice: a pure list function ([enc_paths], [enc_tree]) and a literal model of the C++
   that allocates [new T[array_len]] and writes through a moving cursor with bounds-checked writes
   ([enc_paths_buf], [enc_tree_buf]; [None] = a write outside the allocation).
   Decoders read through [rd], which fails on any index outside the length stated in the array's
   first element (or outside the list itself). *)
From Coq Require Import ZArith List Bool Lia.
Import ListNotations.
Local Open Scope Z_scope.

Definition nonempty {A} (l : list A) : bool := match l with [] => false | _ :: _ => true end.

Section Marshal.
  Variable E : Type.
  Variable ofc : Z -> E.
  Variable toc : E -> option Z.
  Variable ezero : E.

  Definition vertex := list E.
  Definition cpath := list vertex.
  Definition cpaths := list cpath.

  Definition dims (D : nat) (v : vertex) : Prop := length v = D.

  (* ---------------------------------------------------------------- GetPathCountAndCPathsArrayLen *)
  Fixpoint count_len (D : nat) (ps : cpaths) (cnt len : nat) : nat * nat :=
    match ps with
    | [] => (cnt, len)
    | p :: t => if nonempty p then count_len D t (S cnt) (len + (length p * D + 2))%nat
                else count_len D t cnt len
    end.
  Definition paths_cnt (D : nat) (ps : cpaths) : nat := fst (count_len D ps 0 2).
  Definition paths_len (D : nat) (ps : cpaths) : nat := snd (count_len D ps 0 2).

  (* ---------------------------------------------------------------- pure layout *)
  Definition enc_path (p : cpath) : list E := ofc (Z.of_nat (length p)) :: ezero :: concat p.
  Definition enc_body (ps : cpaths) : list E :=
    flat_map (fun p => if nonempty p then enc_path p else []) ps.
  (* CreateCPathsFromPathsT: [A; C; (N; 0; x; y; (z)) ...], empty paths skipped *)
  Definition enc_paths (D : nat) (ps : cpaths) : list E :=
    ofc (Z.of_nat (paths_len D ps)) :: ofc (Z.of_nat (paths_cnt D ps)) :: enc_body ps.
  (* CreateCPathsDFromPathsD / CreateCPathsDFromPaths64: nullptr for an empty set *)
  Definition enc_paths_d (D : nat) (ps : cpaths) : option (list E) :=
    match ps with [] => None | _ => Some (enc_paths D ps) end.

  (* the documented CPaths layout as a CALLER may build it: every path is an entry, an empty one as [0; 0];
     A = number of elements, C = number of entries.  The library's creators never write an empty entry
     (see [enc_body]) but its decoders are handed such arrays by C / C# / Delphi clients. *)
  Definition enc_paths_raw (ps : cpaths) : list E :=
    let body := flat_map enc_path ps in
    ofc (Z.of_nat (2 + length body)) :: ofc (Z.of_nat (length ps)) :: body.

  (* ---------------------------------------------------------------- writing through a cursor *)
  Fixpoint wr (b : list E) (i : nat) (x : E) : option (list E) :=
    match b, i with
    | [], _ => None
    | _ :: t, O => Some (x :: t)
    | h :: t, S i' => match wr t i' x with Some t' => Some (h :: t') | None => None end
    end.

  Definition wst := (list E * nat)%type.          (* buffer, cursor v *)
  Definition put (s : wst) (x : E) : option wst :=  (* *v++ = x *)
    match wr (fst s) (snd s) x with Some b => Some (b, S (snd s)) | None => None end.
  Fixpoint put_all (s : wst) (xs : list E) : option wst :=
    match xs with
    | [] => Some s
    | x :: t => match put s x with Some s' => put_all s' t | None => None end
    end.
  Fixpoint put_verts (s : wst) (p : cpath) : option wst :=
    match p with
    | [] => Some s
    | v :: t => match put_all s v with Some s' => put_verts s' t | None => None end
    end.
  Definition put_path (s : wst) (p : cpath) : option wst :=
    if nonempty p then
      match put s (ofc (Z.of_nat (length p))) with
      | Some s1 => match put s1 ezero with Some s2 => put_verts s2 p | None => None end
      | None => None
      end
    else Some s.
  Fixpoint put_paths (s : wst) (ps : cpaths) : option wst :=
    match ps with
    | [] => Some s
    | p :: t => match put_path s p with Some s' => put_paths s' t | None => None end
    end.
  (* CreateCPathsFromPathsT as written: allocate array_len elements, write header and paths.
     Returns the buffer and the final cursor. *)
  Definition enc_paths_buf (D : nat) (ps : cpaths) : option wst :=
    let len := paths_len D ps in
    let cnt := paths_cnt D ps in
    match put (repeat ezero len, O) (ofc (Z.of_nat len)) with
    | Some s1 => match put s1 (ofc (Z.of_nat cnt)) with Some s2 => put_paths s2 ps | None => None end
    | None => None
    end.

  (* ---------------------------------------------------------------- bounds-checked reading *)
  Definition rd (a : list E) (lim i : nat) : option E :=
    if (i <? lim)%nat then nth_error a i else None.
  Definition rd_cnt (a : list E) (lim i : nat) : option Z :=
    match rd a lim i with Some x => toc x | None => None end.

  Fixpoint rd_vertex (a : list E) (lim D v : nat) : option vertex :=
    match D with
    | O => Some []
    | S d => match rd a lim v with
             | Some x => match rd_vertex a lim d (S v) with Some r => Some (x :: r) | None => None end
             | None => None
             end
    end.

  (* for (j = 0; j < n; ++j) read one vertex; fuel only makes the function total *)
  Fixpoint rd_verts (fuel : nat) (a : list E) (lim D : nat) (n : Z) (v : nat) : option (cpath * nat) :=
    if n <=? 0 then Some ([], v) else
    match fuel with
    | O => None
    | S f => match rd_vertex a lim D v with
             | Some vx => match rd_verts f a lim D (n - 1) (v + D)%nat with
                          | Some (r, v') => Some (vx :: r, v')
                          | None => None
                          end
             | None => None
             end
    end.

  (* ConvertCPathsToPathsT: for (i = 0; i < cnt; ++i) { cnt2 = *v; v += 2; vertices } *)
  Fixpoint dec_loop (fuel : nat) (a : list E) (lim D : nat) (n : Z) (v : nat) : option (cpaths * nat) :=
    if n <=? 0 then Some ([], v) else
    match fuel with
    | O => None
    | S f => match rd_cnt a lim v with
             | Some n2 => match rd_verts (S (length a)) a lim D n2 (v + 2)%nat with
                          | Some (p, v') => match dec_loop f a lim D (n - 1) v' with
                                            | Some (r, v'') => Some (p :: r, v'')
                                            | None => None
                                            end
                          | None => None
                          end
             | None => None
             end
    end.

  Definition stated_len (a : list E) : option nat :=
    match a with x :: _ => match toc x with Some z => Some (Z.to_nat z) | None => None end | [] => None end.

  Definition dec_paths (D : nat) (a : list E) : option cpaths :=
    match stated_len a with
    | None => None
    | Some lim => match rd_cnt a lim 1 with
                  | None => None
                  | Some n => match dec_loop (S (length a)) a lim D n 2 with
                              | Some (r, _) => Some r
                              | None => None
                              end
                  end
    end.
  (* a null pointer decodes to the empty set *)
  Definition dec_paths_opt (D : nat) (oa : option (list E)) : option cpaths :=
    match oa with None => Some [] | Some a => dec_paths D a end.

  (* ConvertCPathToPathT: [N; 0; vertices]; a CPath states no total length, the bound is the array *)
  Definition dec_path (D : nat) (a : list E) : option cpath :=
    match rd_cnt a (length a) 0 with
    | None => None
    | Some n => match rd_verts (S (length a)) a (length a) D n 2 with
                | Some (r, _) => Some r
                | None => None
                end
    end.

  (* ---------------------------------------------------------------- polytrees *)
  Inductive ptree := PNode (poly : cpath) (children : list ptree).
  Definition t_poly (t : ptree) := match t with PNode p _ => p end.
  Definition t_children (t : ptree) := match t with PNode _ c => c end.

  (* GetPolyPathArrayLen64/D *)
  Fixpoint node_len (D : nat) (t : ptree) : nat :=
    match t with
    | PNode poly ch => (2 + length poly * D + fold_right (fun c acc => node_len D c + acc) 0 ch)%nat
    end.

  (* CreateCPolyPath64/D: [N; C; vertices; children] in preorder *)
  Fixpoint enc_node (t : ptree) : list E :=
    match t with
    | PNode poly ch =>
        ofc (Z.of_nat (length poly)) :: ofc (Z.of_nat (length ch)) :: concat poly ++ flat_map enc_node ch
    end.

  (* CreateCPolyTree64/D: nullptr when the root has no child; [A; C; children of the root].
     A = GetPolyPathArrayLen(root) counts the root's own polygon (always empty for a PolyTree). *)
  Definition enc_tree (D : nat) (t : ptree) : option (list E) :=
    match t_children t with
    | [] => None
    | ch => Some (ofc (Z.of_nat (node_len D t)) :: ofc (Z.of_nat (length ch)) :: flat_map enc_node ch)
    end.

  Fixpoint put_node (t : ptree) (s : wst) : option wst :=
    match t with
    | PNode poly ch =>
        match put s (ofc (Z.of_nat (length poly))) with
        | Some s1 =>
            match put s1 (ofc (Z.of_nat (length ch))) with
            | Some s2 =>
                match put_verts s2 poly with
                | Some s3 =>
                    (fix go (l : list ptree) (s : wst) : option wst :=
                       match l with
                       | [] => Some s
                       | c :: r => match put_node c s with Some s' => go r s' | None => None end
                       end) ch s3
                | None => None
                end
            | None => None
            end
        | None => None
        end
    end.
  Fixpoint put_nodes (l : list ptree) (s : wst) : option wst :=
    match l with
    | [] => Some s
    | c :: r => match put_node c s with Some s' => put_nodes r s' | None => None end
    end.

  Definition enc_tree_buf (D : nat) (t : ptree) : option (option wst) :=
    match t_children t with
    | [] => Some None                                    (* nullptr *)
    | ch =>
        let len := node_len D t in
        match put (repeat ezero len, O) (ofc (Z.of_nat len)) with
        | Some s1 => match put s1 (ofc (Z.of_nat (length ch))) with
                     | Some s2 => match put_nodes ch s2 with Some s3 => Some (Some s3) | None => None end
                     | None => None
                     end
        | None => None
        end
    end.

  (* decoder per the documented CPolyTree layout (there is no C++ decoder; clients and the harness
     decode this way): [n] sibling CPolyPaths starting at [v] *)
  Fixpoint dec_nodes (fuel : nat) (a : list E) (lim D : nat) (n : Z) (v : nat) : option (list ptree * nat) :=
    if n <=? 0 then Some ([], v) else
    match fuel with
    | O => None
    | S f =>
        match rd_cnt a lim v, rd_cnt a lim (S v) with
        | Some np, Some nc =>
            match rd_verts (S (length a)) a lim D np (v + 2)%nat with
            | Some (poly, v1) =>
                match dec_nodes f a lim D nc v1 with
                | Some (ch, v2) =>
                    match dec_nodes f a lim D (n - 1) v2 with
                    | Some (r, v3) => Some (PNode poly ch :: r, v3)
                    | None => None
                    end
                | None => None
                end
            | None => None
            end
        | _, _ => None
        end
    end.

  Definition dec_tree (D : nat) (a : list E) : option ptree :=
    match stated_len a with
    | None => None
    | Some lim => match rd_cnt a lim 1 with
                  | None => None
                  | Some n => match dec_nodes (S (length a)) a lim D n 2 with
                              | Some (ch, _) => Some (PNode [] ch)
                              | None => None
                              end
                  end
    end.
  Definition dec_tree_opt (D : nat) (oa : option (list E)) : option ptree :=
    match oa with None => Some (PNode [] []) | Some a => dec_tree D a end.

End Marshal.

Arguments PNode {E} _ _.

(* ------------------------------------------------------------------ element instances *)
(* int64_t arrays: the count conversions are the identity on 0 <= n < 2^63;
   static_cast<size_t> of a negative value wraps *)
Definition ofc_i64 (n : Z) : Z := n.
Definition toc_i64 (x : Z) : option Z := Some (if x <? 0 then x + 2 ^ 64 else x).

(* double arrays, elements given as IEEE-754 binary64 bit patterns 0 <= b < 2^64 *)
Definition ofc_f64 (n : Z) : Z :=            (* (double)n for 0 <= n < 2^53: exact *)
  if n <=? 0 then 0
  else let k := Z.log2 n in (1023 + k) * 2 ^ 52 + (n * 2 ^ (52 - k) - 2 ^ 52).
Definition toc_f64 (b : Z) : option Z :=     (* static_cast<size_t>(double): truncation; None = UB *)
  let s := b / 2 ^ 63 in
  let e := (b / 2 ^ 52) mod 2 ^ 11 in
  let m := b mod 2 ^ 52 in
  if e =? 2047 then None                                   (* inf / nan *)
  else if e =? 0 then Some 0                               (* zero / subnormal *)
  else
    let mant := 2 ^ 52 + m in
    let v := if 1075 <=? e then mant * 2 ^ (e - 1075) else mant / 2 ^ (1075 - e) in
    if v =? 0 then Some 0
    else if s =? 1 then None                               (* negative -> size_t is undefined *)
    else if 2 ^ 64 <=? v then None
    else Some v.

Example toc_f64_ex : toc_f64 (ofc_f64 10) = Some 10 /\ ofc_f64 1 = 4607182418800017408
                     /\ toc_f64 4612811918334230528 (* 2.5 *) = Some 2.
Proof. vm_compute. repeat split. Qed.

Definition i64_enc_paths := enc_paths Z ofc_i64 0.
Definition i64_dec_paths := dec_paths Z toc_i64.
Definition f64_enc_paths := enc_paths Z ofc_f64 0.
Definition f64_dec_paths := dec_paths Z toc_f64.

Example enc_ex : i64_enc_paths 2 [[[0;0];[5;0];[5;5]]; []; [[7;8]]] = [14; 2; 3;0; 0;0; 5;0; 5;5; 1;0; 7;8].
Proof. reflexivity. Qed.
Example dec_ex : i64_dec_paths 2 [14; 2; 3;0; 0;0; 5;0; 5;5; 1;0; 7;8] = Some [[[0;0];[5;0];[5;5]]; [[7;8]]].
Proof. reflexivity. Qed.
(* a caller-built array with an empty entry in the middle: the decoder returns every entry, the empty one too *)
Example raw_ex : enc_paths_raw Z ofc_i64 0 [[[0;0];[5;0];[5;5]]; []; [[7;8]]] = [16; 3; 3;0; 0;0; 5;0; 5;5; 0;0; 1;0; 7;8].
Proof. reflexivity. Qed.
Example dec_raw_ex : i64_dec_paths 2 [16; 3; 3;0; 0;0; 5;0; 5;5; 0;0; 1;0; 7;8] = Some [[[0;0];[5;0];[5;5]]; []; [[7;8]]].
Proof. reflexivity. Qed.
Example dec_overread_ex : i64_dec_paths 2 [13; 2; 3;0; 0;0; 5;0; 5;5; 1;0; 7;8] = None.
Proof. reflexivity. Qed.
Example tree_ex :
  enc_tree Z ofc_i64 2 (PNode [] [PNode [[0;0];[9;0];[9;9]] [PNode [[1;1];[2;1];[2;2]] []]; PNode [[20;20]] []])
  = Some [22; 2; 3;1; 0;0;9;0;9;9; 3;0; 1;1;2;1;2;2; 1;0; 20;20].
Proof. reflexivity. Qed.

(* ==================================================================== forwarding table *)
From Coq Require Import String.
Local Open Scope string_scope.

Inductive ex :=
| EParam (name : string)            (* parameter of the exported function *)
| ELocal (name : string)            (* local variable without a unique definition (out-parameters) *)
| EInt (z : Z)
| EFlt (s : string)
| EBool (b : bool)
| ENull
| EEnum (name : string) (v : Z)
| EBin (op : string) (l r : ex)
| EUn (op : string) (e : ex)
| ECast (ty : string) (e : ex)      (* explicit cast only; implicit conversions are transparent *)
| ECall (f : string) (args : list ex)
| EDefault                          (* the callee's default argument is used *)
| EOther (s : string).

Record carg := mk_carg { a_formal : string; a_actual : ex; a_default : option ex }.
Record ccall := mk_ccall { c_callee : string; c_args : list carg }.
Record efn := mk_efn { f_name : string; f_ret : string; f_params : list (string * string);
                       f_prologue : list (ex * ex); f_calls : list ccall }.

Fixpoint ex_eqb (a b : ex) {struct a} : bool :=
  match a, b with
  | EParam x, EParam y | ELocal x, ELocal y | EFlt x, EFlt y | EOther x, EOther y => String.eqb x y
  | EInt x, EInt y => Z.eqb x y
  | EBool x, EBool y => Bool.eqb x y
  | ENull, ENull | EDefault, EDefault => true
  | EEnum n x, EEnum m y => String.eqb n m && Z.eqb x y
  | EBin o l r, EBin o' l' r' => String.eqb o o' && ex_eqb l l' && ex_eqb r r'
  | EUn o e, EUn o' e' => String.eqb o o' && ex_eqb e e'
  | ECast t e, ECast t' e' => String.eqb t t' && ex_eqb e e'
  | ECall f xs, ECall g ys =>
      String.eqb f g &&
      (fix go (xs ys : list ex) : bool :=
         match xs, ys with
         | [], [] => true
         | x :: xs', y :: ys' => ex_eqb x y && go xs' ys'
         | _, _ => false
         end) xs ys
  | _, _ => false
  end.

Fixpoint strip_casts (e : ex) : ex := match e with ECast _ e' => strip_casts e' | _ => e end.

(* parameters of the exported function occurring in an expression *)
Fixpoint params_of (e : ex) : list string :=
  match e with
  | EParam n => [n]
  | EBin _ l r => params_of l ++ params_of r
  | EUn _ e | ECast _ e => params_of e
  | ECall _ xs => flat_map params_of xs
  | _ => []
  end.

Fixpoint subterm (s e : ex) : bool :=
  ex_eqb s e ||
  match e with
  | EBin _ l r => subterm s l || subterm s r
  | EUn _ e' | ECast _ e' => subterm s e'
  | ECall _ xs => existsb (subterm s) xs
  | _ => false
  end.

Definition ends_with (suffix s : string) : bool :=
  let n := String.length s in let k := String.length suffix in
  (k <=? n)%nat && String.eqb (substring (n - k) k s) suffix.

Definition mem (s : string) (l : list string) : bool := existsb (String.eqb s) l.
Fixpoint dedup (l : list string) : list string :=
  match l with [] => [] | x :: t => if mem x t then dedup t else x :: dedup t end.

(* --- vocabulary: which export parameter / callee formal carries which argument ------------------ *)
Definition option_keys := ["clip_type"; "fill_rule"; "join_type"; "end_type"; "delta"; "precision";
                           "miter_limit"; "arc_tolerance"; "preserve_collinear"; "reverse_solution"; "is_closed"].
Definition data_keys := ["subjects"; "subjects_open"; "clips"; "paths"; "path"; "pattern"; "rect"].

Definition key_of_param (p : string) : option string :=
  if String.eqb p "cliptype" then Some "clip_type"
  else if String.eqb p "fillrule" then Some "fill_rule"
  else if String.eqb p "jointype" then Some "join_type"
  else if String.eqb p "endtype" then Some "end_type"
  else if String.eqb p "cpattern" then Some "pattern"
  else if String.eqb p "cpath" then Some "path"
  else if mem p option_keys || mem p data_keys then Some p
  else None.                                   (* solution, solution_open, sol_tree: results *)

(* helpers of the export layer itself (converters, creators, scaling): their formals carry no option *)
Definition is_helper (callee : string) : bool :=
  existsb (fun pre => String.prefix pre callee)
    ["Clipper2Lib::Convert"; "Clipper2Lib::Create"; "Clipper2Lib::CRect"; "Clipper2Lib::ScaleRect";
     "Clipper2Lib::Reinterpret"; "Clipper2Lib::Get"; "Clipper2Lib::DisposeArray"].

Definition formal_key (callee formal : string) : option string :=
  (* setters and adders: keyed by the member name *)
  if ends_with "::PreserveCollinear" callee then Some "preserve_collinear"
  else if ends_with "::ReverseSolution" callee then Some "reverse_solution"
  else if ends_with "::MiterLimit" callee then Some "miter_limit"
  else if ends_with "::ArcTolerance" callee then Some "arc_tolerance"
  else if ends_with "::AddSubject" callee then Some "subjects"
  else if ends_with "::AddOpenSubject" callee then Some "subjects_open"
  else if ends_with "::AddClip" callee then Some "clips"
  (* the helpers' scale arguments *)
  else if ends_with "::CreateCPathsDFromPaths64" callee && String.eqb formal "scale" then Some "inv_scale"
  else if is_helper callee then (if String.eqb formal "scale" then Some "scale" else None)
  (* everything else: keyed by the formal's name in the callee's declaration *)
  else if String.eqb formal "clip_type" || String.eqb formal "cliptype" || String.eqb formal "ct" then Some "clip_type"
  else if String.eqb formal "fill_rule" || String.eqb formal "fillrule" || String.eqb formal "fr" then Some "fill_rule"
  else if String.eqb formal "jt_" || String.eqb formal "jt" || String.eqb formal "join_type" then Some "join_type"
  else if String.eqb formal "et_" || String.eqb formal "et" || String.eqb formal "end_type" then Some "end_type"
  else if String.eqb formal "isClosed" || String.eqb formal "is_closed" then Some "is_closed"
  else if String.eqb formal "decimal_prec" || String.eqb formal "decimalPlaces" then Some "precision"
  else if mem formal ["delta"; "precision"; "miter_limit"; "arc_tolerance"; "preserve_collinear"; "reverse_solution"]
       then Some formal
  else if mem formal ["paths"; "path"; "pattern"; "rect"; "lines"; "line"] then
       (if String.eqb formal "lines" then Some "paths" else if String.eqb formal "line" then Some "path" else Some formal)
  else None.

Definition param_for (f : efn) (key : string) : option string :=
  match filter (fun p => match key_of_param (fst p) with Some k => String.eqb k key | None => false end) (f_params f) with
  | p :: _ => Some (fst p)
  | [] => None
  end.

Definition has_key (f : efn) (key : string) : bool := match param_for f key with Some _ => true | None => false end.

(* scale = std::pow(10, precision) *)
Definition scale_of (f : efn) : ex :=
  match param_for f "precision" with
  | Some p => ECall "pow" [EInt 10; EParam p]
  | None => EOther "no-precision"
  end.

Definition constructs_clipperD (f : efn) : bool :=
  existsb (fun c => ends_with "ClipperD::ClipperD" (c_callee c)) (f_calls f).
(* the function scales coordinates itself (a precision parameter, and no ClipperD to do it) *)
Definition self_scaled (f : efn) : bool := has_key f "precision" && negb (constructs_clipperD f).

Definition is_one (e : ex) : bool :=
  match e with EInt 1 => true | EFlt s => String.eqb s "1" || String.eqb s "1.0" | _ => false end.

Definition data_params (f : efn) (e : ex) : list string :=
  dedup (filter (fun p => match key_of_param p with Some k => mem k data_keys | None => false end) (params_of e)).

(* is [a] what the formal with key [key] must receive in exported function [f]? *)
Definition arg_ok (f : efn) (key : string) (a : carg) : bool :=
  let act := a_actual a in
  if String.eqb key "scale" then ex_eqb act (scale_of f)
  else if String.eqb key "inv_scale" then
    match act with EBin "/" one s => is_one one && ex_eqb s (scale_of f) | _ => false end
  else
  match param_for f key with
  | Some p =>
      if mem key data_keys then
        (match data_params f act with [q] => String.eqb q p | _ => false end)
        && (negb (self_scaled f) || subterm (scale_of f) act)
      else if (String.eqb key "delta" || String.eqb key "arc_tolerance") && self_scaled f then
        match act with
        | EBin "*" l r => (ex_eqb l (EParam p) && ex_eqb r (scale_of f)) || (ex_eqb r (EParam p) && ex_eqb l (scale_of f))
        | _ => false
        end
      else ex_eqb (strip_casts act) (EParam p)
  | None =>
      (* no such export parameter: the callee's documented default, implicitly or spelled out *)
      if mem key data_keys then false
      else match act, a_default a with
           | EDefault, _ => true
           | _, Some d => ex_eqb act d
           | _, None => false
           end
  end.

(* failing (key, callee) pairs of one call *)
Definition call_failures (f : efn) (c : ccall) : list (string * string) :=
  flat_map (fun a => match formal_key (c_callee c) (a_formal a) with
                     | Some k => if arg_ok f k a then [] else [(k, c_callee c)]
                     | None => []
                     end) (c_args c).

(* every parameter that carries an argument must reach a formal of its key, correctly *)
Definition forwarded (f : efn) (key : string) : bool :=
  existsb (fun c => existsb (fun a => match formal_key (c_callee c) (a_formal a) with
                                      | Some k => String.eqb k key && arg_ok f k a
                                      | None => false
                                      end) (c_args c)) (f_calls f).

Definition missing_keys (f : efn) : list (string * string) :=
  flat_map (fun p => match key_of_param (fst p) with
                     | Some k =>
                         if String.eqb k "precision" && self_scaled f then
                           (* used through scale: some data argument must be scaled (checked by arg_ok) *)
                           if existsb (fun dk => has_key f dk && forwarded f dk) data_keys then [] else [(k, "not-forwarded")]
                         else if forwarded f k then [] else [(k, "not-forwarded")]
                     | None => []
                     end) (f_params f).

(* the native entry point each exported function stands for *)
Definition principal_callee (name : string) : string :=
  if String.eqb name "BooleanOp64" || String.eqb name "BooleanOp_PolyTree64" then "Clipper64::Execute"
  else if String.eqb name "BooleanOpD" || String.eqb name "BooleanOp_PolyTreeD" then "ClipperD::Execute"
  else if String.prefix "Inflate" name then "ClipperOffset::Execute"
  else if String.eqb name "RectClip64" || String.eqb name "RectClipD" then "RectClip64::Execute"
  else if String.eqb name "RectClipLines64" || String.eqb name "RectClipLinesD" then "RectClipLines64::Execute"
  else if String.eqb name "MinkowskiSum64" then "::MinkowskiSum"
  else if String.eqb name "MinkowskiDiff64" then "::MinkowskiDiff"
  else "?".

Definition principal_failures (f : efn) : list (string * string) :=
  if existsb (fun c => ends_with (principal_callee (f_name f)) (c_callee c)) (f_calls f) then []
  else [("callee", principal_callee (f_name f))].

Definition fwd_failures (f : efn) : list (string * string) :=
  flat_map (call_failures f) (f_calls f) ++ missing_keys f ++ principal_failures f.

Definition fwd_ok (f : efn) : bool := match fwd_failures f with [] => true | _ => false end.

(* --- Z callback registration (USINGZ configuration) ---------------------------------------------- *)
(* The registered callbacks are two header-level globals, one per coordinate type, written only by the exported
   SetZCallback64 / SetZCallbackD; an export that executes a Clipper64 (ClipperD) must hand exactly the global of
   its family to SetZCallback of that clipper class, once, in front of Execute.  No other export, and no export of
   the plain configuration, registers anything.  (The table is flat: the `if (global)` guard around the call is
   not visible here; what a null registration does is judged on the running code by the ZH histories.) *)
Definition zcb_family (name : string) : option (string * string) :=   (* clipper class, global *)
  let pc := principal_callee name in
  if String.eqb pc "Clipper64::Execute" then Some ("Clipper64", "dllCallback64")
  else if String.eqb pc "ClipperD::Execute" then Some ("ClipperD", "dllCallbackD")
  else None.

Definition is_setz (c : ccall) : bool := ends_with "::SetZCallback" (c_callee c).

Fixpoint calls_before (pc : string) (cs : list ccall) : list ccall :=
  match cs with
  | [] => []
  | c :: t => if ends_with pc (c_callee c) then [] else c :: calls_before pc t
  end.

Definition zcb_failures (usingz : bool) (f : efn) : list (string * string) :=
  let all := filter is_setz (f_calls f) in
  match (if usingz then zcb_family (f_name f) else None) with
  | Some (cls, g) =>
      match all, filter is_setz (calls_before (principal_callee (f_name f)) (f_calls f)) with
      | [_], [c] =>
          if ends_with (cls ++ "::SetZCallback") (c_callee c) then
            match c_args c with
            | [a] => if ex_eqb (strip_casts (a_actual a)) (ELocal g) then [] else [("z_callback", c_callee c)]
            | _ => [("z_callback", c_callee c)]
            end
          else [("z_callback", c_callee c)]
      | _, _ => [("z_callback", "not-forwarded")]
      end
  | None => match all with [] => [] | c :: _ => [("z_callback", c_callee c)] end
  end.

Definition zcb_ok (usingz : bool) (f : efn) : bool := match zcb_failures usingz f with [] => true | _ => false end.

(* --- validation prologue ------------------------------------------------------------------------ *)
Record penv := mk_penv { pe_int : string -> Z;          (* integer parameters *)
                         pe_null : string -> bool;      (* pointer parameter is null *)
                         pe_rect_empty : string -> bool (* CRectIsEmpty(rect) *) }.

Fixpoint eval_z (en : penv) (e : ex) : option Z :=
  match e with
  | EParam n => Some (pe_int en n)
  | EInt z => Some z
  | EEnum _ v => Some v
  | EUn "-" e' => match eval_z en e' with Some z => Some (- z) | None => None end
  | ECast ty e' =>
      match eval_z en e' with
      | Some z => if String.eqb ty "uint8_t" then Some (z mod 256) else if String.eqb ty "int" then Some z else None
      | None => None
      end
  | _ => None
  end.

Fixpoint eval_b (en : penv) (e : ex) : option bool :=
  match e with
  | EBool b => Some b
  | EBin op l r =>
      if String.eqb op "||" then
        match eval_b en l, eval_b en r with Some x, Some y => Some (x || y) | _, _ => None end
      else if String.eqb op "&&" then
        match eval_b en l, eval_b en r with Some x, Some y => Some (x && y) | _, _ => None end
      else
        match eval_z en l, eval_z en r with
        | Some x, Some y =>
            if String.eqb op "<" then Some (Z.ltb x y) else if String.eqb op ">" then Some (Z.ltb y x)
            else if String.eqb op "<=" then Some (Z.leb x y) else if String.eqb op ">=" then Some (Z.leb y x)
            else if String.eqb op "==" then Some (Z.eqb x y) else if String.eqb op "!=" then Some (negb (Z.eqb x y))
            else None
        | _, _ => None
        end
  | EUn "!" (EParam p) => Some (pe_null en p)
  | EUn "!" e' => match eval_b en e' with Some b => Some (negb b) | None => None end
  | ECall f [EParam r] => if ends_with "CRectIsEmpty" f then Some (pe_rect_empty en r) else None
  | _ => None
  end.

Inductive pres := PPass | PRetInt (z : Z) | PRetNull | PUnknown.

Fixpoint run_prologue (en : penv) (pro : list (ex * ex)) : pres :=
  match pro with
  | [] => PPass
  | (c, r) :: t =>
      match eval_b en c with
      | Some true => match r with ENull => PRetNull | _ => match eval_z en r with Some z => PRetInt z | None => PUnknown end end
      | Some false => run_prologue en t
      | None => PUnknown
      end
  end.

(* the argument ranges the property calls invalid, restricted to the parameters [f] has *)
Definition invalid_args (f : efn) (en : penv) : bool :=
  (match param_for f "clip_type" with Some p => Z.ltb 4 (pe_int en p) | None => false end)
  || (match param_for f "fill_rule" with Some p => Z.ltb 3 (pe_int en p) | None => false end)
  || (match param_for f "precision" with Some p => Z.ltb (pe_int en p) (-8) || Z.ltb 8 (pe_int en p) | None => false end).

(* null input array / empty rectangle: pointer-returning functions answer nullptr (= the empty set) *)
Definition null_input (f : efn) (en : penv) : bool :=
  existsb (fun p => match key_of_param (fst p) with
                    | Some k => (mem k ["paths"; "path"] && pe_null en (fst p))
                                || (String.eqb k "rect" && pe_rect_empty en (fst p))
                    | None => false
                    end) (f_params f).

Definition returns_int (f : efn) : bool := String.eqb (f_ret f) "int".

Definition codes_ok_at (f : efn) (en : penv) : bool :=
  match run_prologue en (f_prologue f) with
  | PPass => negb (invalid_args f en)
  | PRetInt z => returns_int f && Z.ltb z 0 && invalid_args f en
  | PRetNull => negb (returns_int f) && (invalid_args f en || null_input f en)
  | PUnknown => false
  end.

(* uint8_t parameters are 0..255 *)
Definition env_typed (f : efn) (en : penv) : Prop :=
  forall p, In p (f_params f) -> snd p = "uint8_t" -> (0 <= pe_int en (fst p) <= 255)%Z.
