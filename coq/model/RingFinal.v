(* RingFinal.v -- executable model of how Clipper2 turns a raw OutPt ring into solution paths (property C03).

   Code modelled (CPP/Clipper2Lib/src/clipper.engine.cpp):
     PtsReallyClose / IsVerySmallTriangle / IsValidClosedPath  (436-453)   -> [pts_close] [small3] [valid_closed]
     ClipperBase::CleanCollinear                               (1525)      -> [clean_loop] [clean_collinear]
     ClipperBase::FixSelfIntersects                            (1646)      -> [fsi_loop] [fix_self_intersects]
     ClipperBase::DoSplitOp (non-polytree bookkeeping)         (1562)      -> the split branch of [fsi_loop]
     BuildPath64                                               (2892)      -> [build_path]
     Clipper64::BuildPaths64                                   (2992)      -> [build_paths]; [finalize] = one closed ring

   Representation.  An OutPt ring is the list of its points in [next] order with the node the code currently
   holds in its loop variable (op2) at the HEAD; node identity is position, so
     op2->next  = rotate left by one,      op2->prev = last element,
     outrec->pts is tracked as its offset [p] (in next-direction) from the head,
     startOp of CleanCollinear is tracked as the number [k] of nodes accepted since the last removal
       (op2 == startOp after an advance  <=>  k = ring size).
   Reads through next/prev chains are cyclic ([r_at]), exactly like the pointers on small rings.
   The only pointer behaviour that is not reproduced is DoSplitOp on a ring of fewer than 4 nodes (the C++
   deletes nodes that are still linked: undefined behaviour) -- the model answers [UB] there.

   Leaves.  SegmentsIntersect (non-inclusive), GetSegmentIntersectPt, Area(OutPt* ), AreaTriangle and
   DotProduct(...) < 0 are computed in double by the C++.  They enter the model as Section variables, so that
   the structural theorems hold for ALL behaviours of these leaves; [*_F] below are their bit-exact binary64
   instances used for the executed correspondence (oracle).  IsCollinear is exact in the C++ (128 bit product)
   and is modelled exactly ([collinear] of base/Geom.v).  int64 subtraction/addition is assumed not to wrap
   (coordinates |c| < 2^62 as documented by the library). *)
From Clip Require Import base.Geom base.FloatModel.
From Coq Require Import ZArith List Bool Floats Lia.
Import ListNotations.
Local Open Scope Z_scope.

Inductive res (A : Type) : Type := Ok (a : A) | Fuel | UB.
Arguments Ok {A} a.
Arguments Fuel {A}.
Arguments UB {A}.

Definition dpt : pt := (0, 0).

(* cyclic read: the point i steps (next) after the head *)
Definition r_at (l : list pt) (i : nat) : pt := nth (i mod length l) l dpt.
Definition rot1 (l : list pt) : list pt := match l with [] => [] | a :: t => t ++ [a] end.
Definition rotn (k : nat) (l : list pt) : list pt := skipn k l ++ firstn k l.

(* ---------------------------------------------------------------- validity of a closed ring *)
Definition pts_close (a b : pt) : bool :=
  (Z.abs (px a - px b) <? 2) && (Z.abs (py a - py b) <? 2).

Definition small3 (a b c : pt) : bool := pts_close a c || pts_close b c || pts_close b a.

(* IsValidClosedPath(op): op && op->next != op && op->next != op->prev && !IsVerySmallTriangle( *op) *)
Definition valid_closed (l : list pt) : bool :=
  match l with
  | [] | [_] | [_; _] => false
  | [a; b; c] => negb (small3 a b c)
  | _ => true
  end.

(* ---------------------------------------------------------------- specification vocabulary *)
Fixpoint no_adj_dup (l : list pt) : bool :=
  match l with
  | a :: ((b :: _) as t) => negb (pt_eqb a b) && no_adj_dup t
  | _ => true
  end.

(* no two cyclically consecutive equal vertices (last/first included) *)
Definition no_cyc_dup (p : list pt) : bool :=
  match p with [] => true | a :: _ => no_adj_dup (p ++ [a]) end.

Section Leaves.
  Variable seg_isect : pt -> pt -> pt -> pt -> bool.      (* SegmentsIntersect(a,b,c,d,false) *)
  Variable isect_pt : pt -> pt -> pt -> pt -> pt.         (* ip after GetSegmentIntersectPt(a,b,c,d,ip); Point64() if it fails *)
  Variable area_ring : list pt -> float.                   (* Area(op) over the ring listed from op in next order *)
  Variable area_tri : pt -> pt -> pt -> float.             (* AreaTriangle *)
  Variable dot_neg : pt -> pt -> pt -> bool.               (* DotProduct(a,b,c) < 0 *)

  Variable pc : bool.                                      (* preserve_collinear_ *)

  (* the removal condition of CleanCollinear for node [cur] *)
  Definition removable (prev cur nx : pt) : bool :=
    collinear prev cur nx &&
    (pt_eqb cur prev || pt_eqb cur nx || negb pc || dot_neg prev cur nx).

  (* ------------------------------------------------------------ CleanCollinear's for(;;) loop
     Ok None = ring disposed; Ok (Some (l, p)) = loop left with op2 == startOp at the head of l. *)
  Fixpoint clean_loop (fuel : nat) (l : list pt) (p k : nat) : res (option (list pt * nat)) :=
    match fuel with
    | O => Fuel
    | S f =>
      match l with
      | [] => UB
      | cur :: rest =>
        let prev := last rest cur in
        let nx := hd cur rest in
        if removable prev cur nx then
          (* if (op2 == outrec->pts) outrec->pts = op2->prev;  op2 = DisposeOutPt(op2) *)
          let p' := if (p =? 0)%nat then (length l - 2)%nat else (p - 1)%nat in
          if valid_closed rest then clean_loop f rest p' 0%nat else Ok None
        else
          (* op2 = op2->next; if (op2 == startOp) break *)
          let l' := rest ++ [cur] in
          let p' := if (p =? 0)%nat then length rest else (p - 1)%nat in
          if (S k =? length l)%nat then Ok (Some (l', p')) else clean_loop f l' p' (S k)
      end
    end.

  (* ------------------------------------------------------------ FixSelfIntersects + DoSplitOp
     state: ring l (op2 at head), offset p of outrec->pts, split-off rings created so far (newest first).
     result: the ring listed from outrec->pts (None = disposed) and the split-off rings. *)
  Definition split_cond (area1 area2 : float) : bool :=
    let a1 := PrimFloat.abs area1 in
    let a2 := PrimFloat.abs area2 in
    PrimFloat.leb 1 a2 &&
    (PrimFloat.ltb a1 a2 || Bool.eqb (PrimFloat.ltb 0 area2) (PrimFloat.ltb 0 area1)).

  Fixpoint fsi_loop (fuel : nat) (l : list pt) (p : nat) (news : list (list pt))
    : res (option (list pt) * list (list pt)) :=
    match fuel with
    | O => Fuel
    | S f =>
      let n := length l in
      let prev := r_at l (n - 1) in
      let cur := r_at l 0 in
      let nx := r_at l 1 in
      let nn := r_at l 2 in
      let nnn := r_at l 3 in
      if seg_isect prev cur nx nn then
        if seg_isect prev cur nn nnn then
          (* micro self-intersection: op2 = DuplicateOp(op2,false); op2->pt = op2->next->next->next->pt;
             op2 = op2->next; -- the ring grows by one node, placed just before the old op2 *)
          let newpt := r_at (cur :: l) 3 in
          let l2 := l ++ [newpt] in
          if (p =? 0)%nat then Ok (Some l2, news) else fsi_loop f l2 p news
        else
          match l with
          | c :: x :: y :: (_ :: _) as rest =>
            (* DoSplitOp(outrec, op2): prevOp = prev, splitOp = c, splitOp->next = x, nextNextOp = y *)
            let ip := isect_pt prev c x y in
            let area1 := area_ring (prev :: removelast l) in
            if PrimFloat.ltb (PrimFloat.abs area1) 2 then Ok (None, news)
            else
              let area2 := area_tri ip c x in
              let mid := removelast rest in
              let kept := if pt_eqb ip prev || pt_eqb ip y then prev :: y :: mid
                          else prev :: ip :: y :: mid in
              let news' := if split_cond area1 area2 then [ip; c; x] :: news else news in
              (* op2 = outrec->pts (= prevOp); if (op2->prev == op2->next->next) break; continue *)
              if (length kept =? 3)%nat then Ok (Some kept, news') else fsi_loop f kept 0%nat news'
          | _ => UB
          end
      else
        (* op2 = op2->next; if (op2 == outrec->pts) break *)
        let l' := rot1 l in
        let p' := if (p =? 0)%nat then (n - 1)%nat else (p - 1)%nat in
        if (p' =? 0)%nat then Ok (Some l', news) else fsi_loop f l' p' news
    end.

  (* FixSelfIntersects(outrec): l is listed from outrec->pts *)
  Definition fix_self_intersects (fuel : nat) (l : list pt) : res (option (list pt) * list (list pt)) :=
    if ((length l =? 3) || (length l =? 1))%nat then Ok (Some l, []) else fsi_loop fuel l 0%nat [].

  (* CleanCollinear(outrec) for a closed outrec with pts; l is listed from outrec->pts.
     Result: the final ring listed from outrec->pts (None = disposed), split-off rings oldest first. *)
  Definition clean_collinear (fuel : nat) (l : list pt) : res (option (list pt) * list (list pt)) :=
    if valid_closed l then
      match clean_loop fuel l 0%nat 0%nat with
      | Ok None => Ok (None, [])
      | Ok (Some (l', p')) =>
        match fix_self_intersects fuel (rotn p' l') with
        | Ok (r, news) => Ok (r, rev news)
        | Fuel => Fuel
        | UB => UB
        end
      | Fuel => Fuel
      | UB => UB
      end
    else Ok (None, []).

  (* ------------------------------------------------------------ BuildPath64 *)
  Fixpoint dedup_from (lastp : pt) (l : list pt) : list pt :=
    match l with
    | [] => []
    | a :: t => if pt_eqb a lastp then dedup_from lastp t else a :: dedup_from a t
    end.

  Definition dedup (l : list pt) : list pt :=
    match l with [] => [] | a :: t => a :: dedup_from a t end.

  (* l is listed from op (= outrec->pts); None = BuildPath64 returned false *)
  Definition build_path (reverse is_open : bool) (l : list pt) : option path :=
    match l with
    | [] | [_] => None
    | a :: t =>
      if negb is_open && (length l =? 2)%nat then None
      else
        let sq := if reverse then a :: rev t else t ++ [a] in
        let out := dedup sq in
        if negb is_open && (length out =? 3)%nat && (length l =? 3)%nat &&
           small3 (r_at l 0) (r_at l 1) (r_at l 2)
        then None else Some out
    end.

  (* ------------------------------------------------------------ BuildPaths64 (solutionOpen != nullptr)
     queue = outrec_list_[i..] as (is_open, ring from pts ([] = pts == nullptr)); split-off OutRecs are
     appended at the end, as NewOutRec does.  Accumulators are in reverse order. *)
  Fixpoint build_loop (fuel : nat) (reverse : bool) (queue : list (bool * list pt)) (closed opened : list path)
    : res (list path * list path) :=
    match fuel with
    | O => Fuel
    | S f =>
      match queue with
      | [] => Ok (rev closed, rev opened)
      | (_, []) :: q => build_loop f reverse q closed opened
      | (true, l) :: q =>
        match build_path reverse true l with
        | Some pth => build_loop f reverse q closed (pth :: opened)
        | None => build_loop f reverse q closed opened
        end
      | (false, l) :: q =>
        match clean_collinear fuel l with
        | Ok (r, news) =>
          let q' := q ++ map (fun x => (false, x)) news in
          match r with
          | Some ring =>
            match build_path reverse false ring with
            | Some pth => build_loop f reverse q' (pth :: closed) opened
            | None => build_loop f reverse q' closed opened
            end
          | None => build_loop f reverse q' closed opened
          end
        | Fuel => Fuel
        | UB => UB
        end
      end
    end.

  Definition build_paths (reverse : bool) (fuel : nat) (rings : list (bool * list pt)) : res (list path * list path) :=
    build_loop fuel reverse rings [] [].

  (* one closed raw ring -> the closed solution paths it gives rise to (itself and everything split off it) *)
  Definition finalize (reverse : bool) (fuel : nat) (ring : list pt) : option (list path) :=
    match build_paths reverse fuel [(false, ring)] with
    | Ok (c, _) => Some c
    | _ => None
    end.
End Leaves.

(* ---------------------------------------------------------------- bit-exact binary64 leaves *)
Local Open Scope float_scope.

(* CrossProduct(pt1,pt2,pt3) of clipper.core.h: differences in int64, products and subtraction in double *)
Definition crossF (a b c : pt) : float :=
  Z2F (px b - px a) * Z2F (py c - py b) - Z2F (py b - py a) * Z2F (px c - px b).

(* GetSign<double>: if (!val) return 0; return (val > 0) ? 1 : -1;   (NaN -> -1) *)
Definition get_sign (x : float) : Z :=
  if PrimFloat.eqb x 0 then 0%Z else if PrimFloat.ltb 0 x then 1%Z else (-1)%Z.

Definition seg_isect_F (a b c d : pt) : bool :=
  (get_sign (crossF a c d) * get_sign (crossF b c d) <? 0)%Z &&
  (get_sign (crossF c a b) * get_sign (crossF d a b) <? 0)%Z.

(* GetSegmentIntersectPt, the default (non CLIPPER2_HI_PRECISION) variant *)
Definition isect_pt_F (a b c d : pt) : pt :=
  let dx1 := Z2F (px b - px a) in
  let dy1 := Z2F (py b - py a) in
  let dx2 := Z2F (px d - px c) in
  let dy2 := Z2F (py d - py c) in
  let det := dy1 * dx2 - dy2 * dx1 in
  if PrimFloat.eqb det 0 then dpt
  else
    let t := (Z2F (px a - px c) * dy2 - Z2F (py a - py c) * dx2) / det in
    if PrimFloat.leb t 0 then a
    else if PrimFloat.leb 1 t then b
    else (F2I64_trunc (Z2F (px a) + t * dx1), F2I64_trunc (Z2F (py a) + t * dy1)).

(* Area(OutPt* op): sum over the nodes from op of (prev.y + y) * (prev.x - x), times 0.5 *)
Fixpoint area_acc (acc : float) (prev : pt) (l : list pt) : float :=
  match l with
  | [] => acc
  | a :: t => area_acc (acc + Z2F (py prev + py a) * Z2F (px prev - px a)) a t
  end.

Definition area_ring_F (l : list pt) : float :=
  match l with
  | [] => 0
  | a :: _ => area_acc 0 (last l a) l * 0.5
  end.

Definition area_tri_F (p1 p2 p3 : pt) : float :=
  Z2F (py p3 + py p1) * Z2F (px p3 - px p1) +
  Z2F (py p1 + py p2) * Z2F (px p1 - px p2) +
  Z2F (py p2 + py p3) * Z2F (px p2 - px p3).

Definition dotF (a b c : pt) : float :=
  Z2F (px b - px a) * Z2F (px c - px b) + Z2F (py b - py a) * Z2F (py c - py b).

Definition dot_neg_F (a b c : pt) : bool := PrimFloat.ltb (dotF a b c) 0.

Local Open Scope Z_scope.

Definition build_paths_F (pc reverse : bool) (fuel : nat) (rings : list (bool * list pt)) :=
  build_paths seg_isect_F isect_pt_F area_ring_F area_tri_F dot_neg_F pc reverse fuel rings.

Definition finalize_F (pc reverse : bool) (fuel : nat) (ring : list pt) :=
  finalize seg_isect_F isect_pt_F area_ring_F area_tri_F dot_neg_F pc reverse fuel ring.

(* fuel that the correspondence runs use: quadratic in the total number of nodes *)
Definition default_fuel (rings : list (bool * list pt)) : nat :=
  let n := fold_left (fun acc r => (acc + length (snd r))%nat) rings 0%nat in
  (16 * (n + 4) * (n + 4))%nat.

(* ---------------------------------------------------------------- sanity (values confirmed on the C++ by harness/cx_rings SYN) *)
Example square_kept :
  finalize_F false false 100 [(0,0); (10,0); (10,10); (0,10)] = Some [[(10,0); (10,10); (0,10); (0,0)]].
Proof. vm_compute. reflexivity. Qed.

Example collinear_dropped :
  finalize_F false false 100 [(0,0); (5,0); (10,0); (10,10); (10,10); (0,10)] = Some [[(10,0); (10,10); (0,10); (0,0)]].
Proof. vm_compute. reflexivity. Qed.

Example collinear_kept_pc :
  finalize_F true true 100 [(0,0); (5,0); (10,0); (10,10); (12,10); (10,10); (0,10)]
  = Some [[(0,0); (0,10); (10,10); (10,0); (5,0)]].
Proof. vm_compute. reflexivity. Qed.

(* a symmetric bow-tie has area 0 and is disposed by DoSplitOp *)
Example bowtie_disposed :
  finalize_F false false 200 [(0,0); (10,10); (10,0); (0,10)] = Some [].
Proof. vm_compute. reflexivity. Qed.
