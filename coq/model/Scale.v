(* Scale.v -- bit-exact binary64 model of Clipper2's double <-> int64 coordinate scaling (property C16).

   Code modelled (clipper.core.h / clipper.engine.h / clipper.engine.cpp):
     Point<int64_t>::Init(double,double)     x = static_cast<int64_t>(std::round(x_))          -> [round_cast]
     ScalePath<int64_t,double>               Point<int64_t>(pt.x * scale_x, pt.y * scale_y)    -> [scale_pt]/[scale_path]
     ScalePath<double,int64_t>, BuildPathD   Point<double>(pt.x * inv, pt.y * inv)             -> [descale_pt]/[descale_path]
     ScaleRect<int64_t,double>               static_cast<int64_t>(std::round(rect.left*scale)) -> [scale_rect]
     GetBounds<double,double>(paths) and the range test of ScalePaths<int64_t,double>          -> [bounds_of]/[range_ok]
     ClipperD::ClipperD                      scale_ = pow(2, ilogb(pow(10,precision)) + 1)     -> [scaleD_model]
     free functions                          scale  = pow(10, precision)                       -> table [pow10]
   libm is not modelled: pow(10,p) enters as a table (a function Z -> float); [pow10_spec] is the correctly
   rounded decimal power, which the run-time check compares with the table read from the implementation.
   The *specification* scales of the property are [scaleD_spec] (smallest power of two strictly above 10^p,
   computed from exact integer logarithms) and [pow10_spec]. *)
From Clip Require Import base.Geom.
From Clip Require Import base.FloatModel.
From Coq Require Import ZArith List Floats QArith Bool.
Import ListNotations.
Local Open Scope Z_scope.

Definition fpt := (float * float)%type.
Definition fpath := list fpt.
Definition fpaths := list fpath.
Definition irect := (Z * Z * Z * Z)%type.          (* left top right bottom *)
Definition frect := (float * float * float * float)%type.

(* ---------- conversions ---------- *)

(* static_cast<int64_t>(std::round(d)); None = the rounded value is not an int64 (NaN, inf, too large):
   undefined behaviour in C++ *)
Definition round_cast (d : float) : option Z :=
  match F2Z_round d with
  | Some z => if in_i64 z then Some z else None
  | None => None
  end.

Definition scale_coord (s x : float) : option Z := round_cast (x * s)%float.

Definition scale_pt (sx sy : float) (p : fpt) : option pt :=
  match scale_coord sx (fst p), scale_coord sy (snd p) with
  | Some x, Some y => Some (x, y)
  | _, _ => None
  end.

Fixpoint opt_map {A B : Type} (f : A -> option B) (l : list A) : option (list B) :=
  match l with
  | [] => Some []
  | a :: r => match f a, opt_map f r with
              | Some b, Some r' => Some (b :: r')
              | _, _ => None
              end
  end.

Definition scale_path (sx sy : float) (p : fpath) : option path := opt_map (scale_pt sx sy) p.
Definition scale_paths_raw (sx sy : float) (ps : fpaths) : option paths := opt_map (scale_path sx sy) ps.

(* int64 -> double: the integer is converted (correctly rounded) and multiplied *)
Definition descale_coord (inv : float) (z : Z) : float := (Z2F z * inv)%float.
Definition descale_pt (ix iy : float) (p : pt) : fpt := (descale_coord ix (fst p), descale_coord iy (snd p)).
Definition descale_path (ix iy : float) (p : path) : fpath := map (descale_pt ix iy) p.
Definition descale_paths (ix iy : float) (ps : paths) : fpaths := map (descale_path ix iy) ps.

Definition scale_rect (s : float) (r : frect) : option irect :=
  let '(l, t, rr, b) := r in
  match scale_coord s l, scale_coord s t, scale_coord s rr, scale_coord s b with
  | Some l', Some t', Some r', Some b' => Some (l', t', r', b')
  | _, _, _, _ => None
  end.

(* ---------- GetBounds<double,double>(Paths) and the range test of ScalePaths ---------- *)

Definition dbl_max : float := 0x1.fffffffffffffp+1023%float.
Definition dbl_lowest : float := (- dbl_max)%float.
(* static_cast<double>(INT64_MAX >> 2) = 2^61 (rounded up from 2^61-1) *)
Definition MAX_COORD : Z := 2 ^ 61 - 1.
Definition max_coord : float := Z2F MAX_COORD.
Definition min_coord : float := Z2F (- MAX_COORD).

(* (xmin, ymin, xmax, ymax) = (left, top, right, bottom) *)
Definition bounds_step (b : frect) (p : fpt) : frect :=
  let '(xmin, ymin, xmax, ymax) := b in
  let x := fst p in let y := snd p in
  (if fltb x xmin then x else xmin,
   if fltb y ymin then y else ymin,
   if fltb xmax x then x else xmax,
   if fltb ymax y then y else ymax).

Definition bounds_of (ps : fpaths) : frect :=
  fold_left (fun b p => fold_left bounds_step p b) ps (dbl_max, dbl_max, dbl_lowest, dbl_lowest).

Definition range_ok (sx sy : float) (ps : fpaths) : bool :=
  let '(l, t, r, b) := bounds_of ps in
  negb (fltb (l * sx) min_coord || fltb max_coord (r * sx) || fltb (t * sy) min_coord || fltb max_coord (b * sy)).

(* ---------- scale selection ---------- *)

(* correctly rounded 10^p: exact for p >= 0 (10^p <= 10^22 is representable); for p < 0 the IEEE quotient of
   the exact values 1 and 10^-p is by definition the correctly rounded value of 10^p *)
Definition pow10_spec (p : Z) : float :=
  if 0 <=? p then Z2F (10 ^ p) else (1 / Z2F (10 ^ (- p)))%float.

(* 2^k, exact for |k| <= 1022 *)
Definition pow2f (k : Z) : float :=
  if 0 <=? k then Z2F (2 ^ k) else (1 / Z2F (2 ^ (- k)))%float.

(* std::ilogb on a finite nonzero double: floor(log2 |x|); FP_ILOGB0 / INT_MAX otherwise (glibc values) *)
Definition ilogb_model (x : float) : Z :=
  match F_decode x with
  | Some (_, m, e) => if m =? 0 then - 2 ^ 31 else Z.log2 m + e
  | None => 2 ^ 31 - 1
  end.

Section Libm.
  Variable pow10 : Z -> float.      (* std::pow(10, p) as computed by the implementation's libm *)

  (* ClipperD::ClipperD: scale_ = std::pow(radix, std::ilogb(std::pow(10, precision)) + 1) ; pow(2, n) is exact *)
  Definition scaleD_model (p : Z) : float := pow2f (ilogb_model (pow10 p) + 1).
End Libm.

Definition inv_of (s : float) : float := (1 / s)%float.

(* specification: the exponent k of the smallest power of two strictly above 10^p, from exact integers:
   p >= 0: 2^(k-1) <= 10^p < 2^k   <->  k = log2(10^p) + 1
   p <  0: 2^(k-1) <= 10^p < 2^k   <->  2^(-k) < 10^(-p) <= 2^(1-k)  <->  1 - k = log2_up(10^-p) *)
Definition log2_above_pow10 (p : Z) : Z :=
  if 0 <=? p then Z.log2 (10 ^ p) + 1 else 1 - Z.log2_up (10 ^ (- p)).

Definition scaleD_spec (p : Z) : float := pow2f (log2_above_pow10 p).

(* The scale the property documents for an entry point *)
Inductive scale_kind := KPow2 | KDec.
Definition spec_scale (k : scale_kind) (p : Z) : float :=
  match k with KPow2 => scaleD_spec p | KDec => pow10_spec p end.

(* ---------- exact (rational) view of a double, used to *classify* inputs, never to compute results ---------- *)

(* |x * s| as an exact dyadic rational  n * 2^e ; None for nan/inf *)
Definition exact_prod_abs (x s : float) : option (Z * Z) :=
  match F_decode x, F_decode s with
  | Some (_, m1, e1), Some (_, m2, e2) => Some (m1 * m2, e1 + e2)
  | _, _ => None
  end.

(* n * 2^e <= bound, exactly *)
Definition dyadic_le (n e bound : Z) : bool :=
  if 0 <=? e then n * 2 ^ e <=? bound else n <=? bound * 2 ^ (- e).

(* the exact real product x*s lies in [-bound, bound] *)
Definition prod_within (bound : Z) (s x : float) : bool :=
  match exact_prod_abs x s with
  | Some (n, e) => dyadic_le n e bound
  | None => false
  end.

Definition all_pts (f : float -> bool) (ps : fpaths) : bool :=
  forallb (fun p => forallb (fun q => f (fst q) && f (snd q)) p) ps.

(* the property's domain: scaled coordinates stay within +-2^52 *)
Definition in_domain_C16 (s : float) (ps : fpaths) : bool := all_pts (prod_within (2 ^ 52) s) ps.
(* the library's coordinate range *)
Definition in_coord_range (s : float) (ps : fpaths) : bool := all_pts (prod_within MAX_COORD s) ps.

Definition is_finite (x : float) : bool := match F_decode x with Some _ => true | None => false end.
Definition is_nanb (x : float) : bool := negb (feqb x x).

(* run-time evaluation of the step C16_range_guard_partial leaves unproved: when ScalePaths' bounds test passes (positive
   scales), every coordinate converts to an integer within +-2^61 unless the input contains a NaN *)
Definition has_nan (ps : fpaths) : bool :=
  existsb (fun p => existsb (fun q => is_nanb (fst q) || is_nanb (snd q)) p) ps.
Definition within61 (o : option paths) : bool :=
  match o with
  | Some ps => forallb (fun p => forallb (fun q => (Z.abs (fst q) <=? 2 ^ 61) && (Z.abs (snd q) <=? 2 ^ 61)) p) ps
  | None => false
  end.
Definition range_guard_check (sx sy : float) (ps : fpaths) : bool :=
  if range_ok sx sy ps then has_nan ps || within61 (scale_paths_raw sx sy ps) else true.

(* ---------- tiny sanity examples ---------- *)
Example pow10_spec_2 : pow10_spec 2 = 100%float. Proof. reflexivity. Qed.
Example pow10_spec_m2 : pow10_spec (-2) = 0x1.47ae147ae147bp-7%float. Proof. reflexivity. Qed.
Example scaleD_2 : scaleD_model pow10_spec 2 = 128%float /\ scaleD_spec 2 = 128%float. Proof. split; reflexivity. Qed.
Example scaleD_0 : scaleD_spec 0 = 2%float. Proof. reflexivity. Qed.
Example scaleD_m1 : scaleD_spec (-1) = 0.125%float. Proof. reflexivity. Qed.
Example scale_tie : scale_coord 128%float 0.00390625%float = Some 1 /\ scale_coord 128%float (-0.00390625)%float = Some (-1).
Proof. split; reflexivity. Qed.
Example scale_nan : scale_coord 100%float nan = None. Proof. reflexivity. Qed.
Example max_coord_val : max_coord = 0x1p+61%float /\ min_coord = (-0x1p+61)%float. Proof. split; reflexivity. Qed.
Example range_nan : range_ok 100%float 100%float [[(nan, 0%float)]] = true. Proof. reflexivity. Qed.
Example range_inf : range_ok 100%float 100%float [[(infinity, 0%float)]] = false. Proof. reflexivity. Qed.
