(* C18 -- hand models of the two loop-carrying functions of clipper.core.h that cpp2v cannot translate:

     PointInPolygon<int64_t>(pt, polygon)      (clipper.core.h, "enum class PointInPolygonResult ...")
     Area<int64_t>(path)

   Iterators are natural-number indices into the vector; every read is bounds checked ([nth_error]; a
   failed read or exhausted fuel yields the error value [PipFail] / [None], and the theorems show that
   neither happens).  The only floating point operation of PointInPolygon is the call of the *translated*
   [Gen_core.CrossProduct] (regenerated from the source on every run).  The models are tied to the C++
   by exact equality of results (checks/C18.py: exhaustively on a 9x9 lattice, and on random inputs). *)
From Coq Require Import ZArith List Bool Floats Lia.
From Clip Require Import base.Geom base.Winding base.FloatModel base.CSem gen.Gen_core model.CoreSpec.
Import ListNotations.
Local Open Scope Z_scope.

(* ------------------------------------------------------------------ PointInPolygon *)

(*  while (first != cend && first->y == pt.y) ++first;          (cend = polygon.cend() = index n) *)
Fixpoint pip_find_first (q : pt) (poly : path) (n : nat) (fuel : nat) (first : nat) : option nat :=
  if Nat.eqb first n then Some first else
  match fuel with
  | O => None
  | S fuel' =>
    match nth_error poly first with
    | None => None
    | Some v => if py v =? py q then pip_find_first q poly n fuel' (S first) else Some first
    end
  end.

(*  is_above:  while (curr != cend && curr->y < pt.y) ++curr;
    otherwise: while (curr != cend && curr->y > pt.y) ++curr;  *)
Fixpoint pip_skip (is_above : bool) (q : pt) (poly : path) (cend : nat) (fuel : nat) (curr : nat) : option nat :=
  if Nat.eqb curr cend then Some curr else
  match fuel with
  | O => None
  | S fuel' =>
    match nth_error poly curr with
    | None => None
    | Some v =>
      if (if is_above then py v <? py q else py q <? py v)
      then pip_skip is_above q poly cend fuel' (S curr) else Some curr
    end
  end.

Inductive pip_out :=
  | PDone (r : pip_result)                          (* return inside the loop *)
  | PBroke (curr : nat) (is_above : bool) (val : Z)  (* break: state seen by the code after the loop *)
  | PFail.

(*  if (curr == cbegin) prev = polygon.cend() - 1; else prev = curr - 1;  *)
Definition pip_prev (n curr : nat) : nat := if Nat.eqb curr 0 then (n - 1)%nat else (curr - 1)%nat.

(*  double d = CrossProduct(prev[0], curr[0], pt); if (d == 0) return IsOn; if ((d < 0) == is_above) val = 1 - val;
    [None] = the return *)
Definition pip_cross_update (p c q : pt) (is_above : bool) (val : Z) : option Z :=
  let d := CrossProduct p c q in
  if (d =? 0)%float then None
  else Some (if Bool.eqb (d <? 0)%float is_above then 1 - val else val).

(* the  while (true) { ... }  loop, one outer iteration per unit of fuel *)
Fixpoint pip_loop (fuel : nat) (q : pt) (poly : path) (n first cend curr : nat)
                  (is_above : bool) (val : Z) : pip_out :=
  match fuel with
  | O => PFail
  | S fuel =>
    (* if (curr == cend) { if (cend == first || first == cbegin) break; cend = first; curr = cbegin; } *)
    if Nat.eqb curr cend && (Nat.eqb cend first || Nat.eqb first 0) then PBroke curr is_above val else
    let '(cend, curr) := if Nat.eqb curr cend then (first, O) else (cend, curr) in
    match pip_skip is_above q poly cend (cend - curr) curr with
    | None => PFail
    | Some curr =>
      if Nat.eqb curr cend then pip_loop fuel q poly n first cend curr is_above val   (* continue *)
      else
        match nth_error poly curr, nth_error poly (pip_prev n curr) with
        | Some c, Some p =>
          if py c =? py q then
            (* if (curr->x == pt.x || (curr->y == prev->y && ((pt.x < prev->x) != (pt.x < curr->x)))) return IsOn; *)
            if (px c =? px q) || ((py c =? py p) && negb (Bool.eqb (px q <? px p) (px q <? px c)))
            then PDone IsOn
            else
              (* ++curr; if (curr == first) break; continue; *)
              let curr := S curr in
              if Nat.eqb curr first then PBroke curr is_above val
              else pip_loop fuel q poly n first cend curr is_above val
          else
            if (px q <? px c) && (px q <? px p) then
              pip_loop fuel q poly n first cend (S curr) (negb is_above) val
            else if (px p <? px q) && (px c <? px q) then
              pip_loop fuel q poly n first cend (S curr) (negb is_above) (1 - val)
            else
              match pip_cross_update p c q is_above val with
              | None => PDone IsOn
              | Some val => pip_loop fuel q poly n first cend (S curr) (negb is_above) val
              end
        | _, _ => PFail
        end
    end
  end.

Definition PointInPolygon (q : pt) (poly : path) : pip_result :=
  let n := length poly in
  if (n <? 3)%nat then IsOutside else
  match pip_find_first q poly n n O with
  | None => PipFail
  | Some first =>
    if Nat.eqb first n then IsOutside else
    match nth_error poly first with
    | None => PipFail
    | Some f =>
      let starting_above := py f <? py q in
      match pip_loop (2 * n + 4) q poly n first n (S first) starting_above 0 with
      | PFail => PipFail
      | PDone r => r
      | PBroke curr is_above val =>
        (* if (is_above != starting_above) { cend = polygon.cend(); if (curr == cend) curr = cbegin;
             if (curr == cbegin) prev = cend - 1; else prev = curr - 1; ... } *)
        let fin (val : Z) := if val =? 0 then IsOutside else IsInside in
        if Bool.eqb is_above starting_above then fin val else
        let curr := if Nat.eqb curr n then O else curr in
        match nth_error poly curr, nth_error poly (pip_prev n curr) with
        | Some c, Some p =>
          match pip_cross_update p c q is_above val with
          | None => IsOn
          | Some val => fin val
          end
        | _, _ => PipFail
        end
      end
    end
  end.

(* ------------------------------------------------------------------ Area *)
(*  a += static_cast<double>(it2->y + it1->y) * (it2->x - it1->x);  *)
Definition area_term (p2 p1 : pt) : float := (Z2F (py p2 + py p1) * Z2F (px p2 - px p1))%float.

(*  for (it1 = path.cbegin(); it1 != stop;) { a += term(it2, it1); it2 = it1 + 1; a += term(it1, it2); it1 += 2; }
    returns (a, it1, it2) *)
Fixpoint area_loop (fuel : nat) (p : path) (stop it1 it2 : nat) (a : float) : option (float * nat * nat) :=
  if Nat.eqb it1 stop then Some (a, it1, it2) else
  match fuel with
  | O => None
  | S fuel =>
    match nth_error p it1, nth_error p it2 with
    | Some v1, Some v2 =>
      let a := (a + area_term v2 v1)%float in
      let it2 := S it1 in
      match nth_error p it2 with
      | Some v2 =>
        let a := (a + area_term v1 v2)%float in
        area_loop fuel p stop (S (S it1)) it2 a
      | None => None
      end
    | _, _ => None
    end
  end.

Definition Area (p : path) : option float :=
  let cnt := length p in
  if (cnt <? 3)%nat then Some 0%float else
  let it2 := (cnt - 1)%nat in
  let stop := if Nat.even cnt then S it2 else it2 in       (* if (!(cnt & 1)) ++stop; *)
  match area_loop cnt p stop O it2 0%float with
  | None => None
  | Some (a, it1, it2) =>
    if Nat.odd cnt then
      match nth_error p it1, nth_error p it2 with
      | Some v1, Some v2 => Some ((a + area_term v2 v1) * 0.5)%float
      | _, _ => None
      end
    else Some (a * 0.5)%float
  end.

(*  Area(const Paths<T>&): a += Area(path) over the paths, starting from 0.0 *)
Fixpoint AreaPaths_from (a : float) (ps : paths) : option float :=
  match ps with
  | [] => Some a
  | p :: t => match Area p with Some x => AreaPaths_from (a + x)%float t | None => None end
  end.
Definition AreaPaths (ps : paths) : option float := AreaPaths_from 0%float ps.

(* ------------------------------------------------------------------ sanity *)
Example pip_ex1 : PointInPolygon (1, 1) [(0, 0); (4, 0); (0, 4)] = IsInside. Proof. vm_compute. reflexivity. Qed.
Example pip_ex2 : PointInPolygon (2, 2) [(0, 0); (4, 0); (0, 4)] = IsOn. Proof. vm_compute. reflexivity. Qed.
Example pip_ex3 : PointInPolygon (3, 3) [(0, 0); (4, 0); (0, 4)] = IsOutside. Proof. vm_compute. reflexivity. Qed.
Example pip_ex4 : PointInPolygon (1, 0) [(0, 0); (4, 0); (0, 4)] = IsOn. Proof. vm_compute. reflexivity. Qed.
Example area_ex1 : Area [(0, 0); (4, 0); (0, 4)] = Some (-8)%float \/ Area [(0, 0); (4, 0); (0, 4)] = Some 8%float.
Proof. vm_compute. auto. Qed.
