(* ErrorModel.v -- hand model of Clipper2's argument validation and of the PathsD wrappers (properties C11, C16).

   Every definition mirrors, statement by statement and in the order of the code, a function of
   clipper.core.h / clipper.h / clipper.minkowski.h / clipper.engine.h / clipper.export.h.  The parameter
   [exc : bool] is the build configuration: true = C++ exceptions enabled (DoError throws),
   false = -fno-exceptions (DoError does nothing).  [pow10 : Z -> float] is libm's std::pow(10, p).

   The 64-bit operation a wrapper finally calls is *not* modelled here: a wrapper's result is the description
   [VCall] of that call (the integer arguments, the scaled delta / arc tolerance, the descaling factor).
   The run-time tie executes the 64-bit entry point on exactly these arguments and descales with [Scale.descale_paths];
   the outcome must be bit-identical to what the real wrapper returned. *)
From Clip Require Import base.Geom.
From Clip Require Import base.FloatModel.
From Clip Require Import model.Scale.
From Coq Require Import ZArith List Floats Bool.
Import ListNotations.
Local Open Scope Z_scope.

(* error codes (clipper.core.h) *)
Definition precision_error_i : Z := 1.
Definition scale_error_i : Z := 2.
Definition non_pair_error_i : Z := 4.
Definition undefined_error_i : Z := 32.
Definition range_error_i : Z := 64.

(* a computation that may throw; [ec] is the value of the error-code variable when the exception leaves *)
Inductive res (A : Type) : Type :=
| Val (v : A)
| Throw (code : Z) (ec : Z).
Arguments Val {A} v.
Arguments Throw {A} code ec.

Definition bind {A B : Type} (m : res A) (f : A -> res B) : res B :=
  match m with Val v => f v | Throw c e => Throw c e end.

(* DoError *)
Definition do_error (exc : bool) (code ec : Z) : res unit := if exc then Throw code ec else Val tt.

(* CheckPrecisionRange(int& precision, int& error_code): returns the new (precision, error_code) *)
Definition check_precision_range (exc : bool) (precision ec : Z) : res (Z * Z) :=
  if (- 8 <=? precision) && (precision <=? 8) then Val (precision, ec)
  else
    let ec' := Z.lor ec precision_error_i in
    bind (do_error exc precision_error_i ec')
         (fun _ => Val (if 0 <? precision then 8 else - 8, ec')).

(* what a wrapper returns *)
Record call64 : Type := mkCall {
  c_paths : list paths;       (* the integer path sets handed to the 64-bit operation, in argument order *)
  c_rect : option irect;      (* the scaled rectangle, if any *)
  c_fl : list float;          (* scaled delta, scaled arc tolerance, if any *)
  c_inv : float               (* descaling factor applied to the 64-bit result *)
}.

Inductive value : Type :=
| VEmpty                      (* empty PathsD / PathD / cleared tree *)
| VInput                      (* the input paths, returned unchanged *)
| VCall (c : call64)          (* descale (op64 args) *)
| VUndef.                     (* a double -> int64 conversion was out of range: undefined behaviour *)

(* observable outcome of an entry point *)
Inductive outcome (A : Type) : Type :=
| Ok (v : A)
| Thrown (code : Z)
| Code (code : Z) (v : A).
Arguments Ok {A} v.
Arguments Thrown {A} code.
Arguments Code {A} code v.

Definition to_outcome {A : Type} (r : res (Z * A)) : outcome A :=
  match r with
  | Throw c _ => Thrown c
  | Val (ec, v) => if ec =? 0 then Ok v else Code ec v
  end.

(* ---------- ScalePath / ScalePaths (clipper.core.h) ---------- *)

Definition fix_zero (s : float) : float := if feqb s 0 then 1%float else s.

(* ScalePath<int64_t,double>(path, scale_x, scale_y, error_code): zero-scale test (non-fatal without exceptions: the
   scale becomes 1), then -- since the fix "ScalePath checks the range like ScalePaths" -- the range test of ScalePaths
   on the bounds of this one path with the (repaired) scales: range_error_i and an empty path *)
Definition scale_path_ranged (exc : bool) (sx sy : float) (p : fpath) (ec : Z) : res (option path * Z) :=
  if negb (range_ok sx sy [p]) then
    let ec' := Z.lor ec range_error_i in
    bind (do_error exc range_error_i ec') (fun _ => Val (Some [], ec'))
  else Val (scale_path sx sy p, ec).

Definition scale_path_E (exc : bool) (sx sy : float) (p : fpath) (ec : Z) : res (option path * Z) :=
  if feqb sx 0 || feqb sy 0 then
    let ec' := Z.lor ec scale_error_i in
    bind (do_error exc scale_error_i ec')
         (fun _ => scale_path_ranged exc (fix_zero sx) (fix_zero sy) p ec')
  else scale_path_ranged exc sx sy p ec.

(* ScalePath<double,int64_t> *)
Definition descale_path_E (exc : bool) (sx sy : float) (p : path) (ec : Z) : res (fpath * Z) :=
  if feqb sx 0 || feqb sy 0 then
    let ec' := Z.lor ec scale_error_i in
    bind (do_error exc scale_error_i ec')
         (fun _ => Val (descale_path (fix_zero sx) (fix_zero sy) p, ec'))
  else Val (descale_path sx sy p, ec).

(* every single path passes ScalePath's own range test (implied by ScalePaths' test on the common bounds for a positive
   finite scale and NaN-free input; kept as a separate predicate because the code does evaluate both tests) *)
Definition each_range_ok (sx sy : float) (ps : fpaths) : bool := forallb (fun p => range_ok sx sy [p]) ps.

Fixpoint scale_each (exc : bool) (sx sy : float) (ps : fpaths) (ec : Z) : res (option paths * Z) :=
  match ps with
  | [] => Val (Some [], ec)
  | p :: r =>
      bind (scale_path_E exc sx sy p ec) (fun '(p', ec1) =>
      bind (scale_each exc sx sy r ec1) (fun '(r', ec2) =>
      Val (match p', r' with Some a, Some b => Some (a :: b) | _, _ => None end, ec2)))
  end.

Fixpoint descale_each (exc : bool) (sx sy : float) (ps : paths) (ec : Z) : res (fpaths * Z) :=
  match ps with
  | [] => Val ([], ec)
  | p :: r =>
      bind (descale_path_E exc sx sy p ec) (fun '(p', ec1) =>
      bind (descale_each exc sx sy r ec1) (fun '(r', ec2) => Val (p' :: r', ec2)))
  end.

(* ScalePaths<int64_t,double>(paths, scale_x, scale_y, error_code): range test, then ScalePath on each path *)
Definition scale_paths_E (exc : bool) (sx sy : float) (ps : fpaths) (ec : Z) : res (option paths * Z) :=
  if negb (range_ok sx sy ps) then
    let ec' := Z.lor ec range_error_i in
    bind (do_error exc range_error_i ec') (fun _ => Val (Some [], ec'))
  else scale_each exc sx sy ps ec.

(* ScalePaths<double,int64_t>: no range test (T1 is not integral) *)
Definition descale_paths_E (exc : bool) (sx sy : float) (ps : paths) (ec : Z) : res (fpaths * Z) :=
  descale_each exc sx sy ps ec.

(* MakePath / MakePathD (std::vector overloads): n values; result has n/2 points *)
Definition make_path (exc : bool) (vals : list Z) : res path :=
  let size := (Z.of_nat (length vals)) - (Z.of_nat (length vals)) mod 2 in
  bind (if negb (Z.of_nat (length vals) =? size) then do_error exc non_pair_error_i 0 else Val tt)
       (fun _ =>
          (fix go (fuel : nat) (l : list Z) : res path :=
             match fuel, l with
             | S f, x :: y :: r => bind (go f r) (fun t => Val ((x, y) :: t))
             | _, _ => Val []
             end) (length vals) vals).

Section Wrappers.
  Variable exc : bool.
  Variable pow10 : Z -> float.

  Definition undef_or (o : option paths) (k : paths -> value) : value :=
    match o with Some p => k p | None => VUndef end.

  (* ---------- ClipperD (clipper.engine.h) ---------- *)

  (* constructor: (scale_, invScale_, error_code_) *)
  Definition clipperD_ctor (precision : Z) : res (float * float * Z) :=
    bind (check_precision_range exc precision 0) (fun '(p', ec) =>
    let s := scaleD_model pow10 p' in Val (s, inv_of s, ec)).

  (* ClipperD c(precision); c.AddSubject(S); c.AddOpenSubject(O); c.AddClip(C); c.Execute(...)
     [addS addO addC] say which Add* calls are made at all (the free functions and exports skip some) *)
  Definition clipperD_run (precision : Z) (addS addO addC : bool) (S O C : fpaths) : res (Z * value) :=
    bind (clipperD_ctor precision) (fun '(s, inv, ec0) =>
    bind (if addS then scale_paths_E exc s s S ec0 else Val (Some [], ec0)) (fun '(S', ec1) =>
    bind (if addO then scale_paths_E exc s s O ec1 else Val (Some [], ec1)) (fun '(O', ec2) =>
    bind (if addC then scale_paths_E exc s s C ec2 else Val (Some [], ec2)) (fun '(C', ec3) =>
    Val (ec3,
         match S', O', C' with
         | Some a, Some b, Some c => VCall (mkCall [a; b; c] None [] inv)
         | _, _, _ => VUndef
         end))))).

  (* ---------- clipper.h: BooleanOp(PathsD) and shorthands ---------- *)

  (* BooleanOp(ct, fr, subjects, clips, precision) -> PathsD, and the PolyTreeD overload (tree cleared first):
     the function's own error_code only ever holds the precision error (and is not visible to the caller); since the fix
     "BooleanOp(PathsD) looks at ClipperD::ErrorCode()" the empty result / cleared tree is returned when an Add* call
     left an error in the ClipperD:  if (clipper.ErrorCode()) return result; *)
  Definition after_adds (ec : Z) (r : Z * value) : res (Z * value) :=
    let '(ecc, v) := r in if negb (ecc =? 0) then Val (ec, VEmpty) else Val (ec, v).

  Definition booleanopD (precision : Z) (S C : fpaths) : res (Z * value) :=
    bind (check_precision_range exc precision 0) (fun '(p', ec) =>
    if negb (ec =? 0) then Val (ec, VEmpty)
    else bind (clipperD_run p' true false true S [] C) (after_adds ec)).

  (* Union(subjects, fillrule, precision) *)
  Definition union1D (precision : Z) (S : fpaths) : res (Z * value) :=
    bind (check_precision_range exc precision 0) (fun '(p', ec) =>
    if negb (ec =? 0) then Val (ec, VEmpty)
    else bind (clipperD_run p' true false false S [] []) (after_adds ec)).

  (* ---------- InflatePaths(PathsD) ---------- *)
  Definition inflateD (precision : Z) (ps : fpaths) (delta arc_tolerance : float) : res (Z * value) :=
    bind (check_precision_range exc precision 0) (fun '(p', ec) =>
    (* since the fix "InflatePaths(PathsD) no longer returns its input for delta == 0" there is no shortcut here: the
       64-bit InflatePaths is called with delta * scale (and itself returns its -- scaled -- input when that is 0) *)
    if negb (ec =? 0) then Val (ec, VEmpty)
    else
      let scale := pow10 p' in
      let arc := (arc_tolerance * scale)%float in
      bind (scale_paths_E exc scale scale ps ec) (fun '(ps', ec1) =>
      if negb (ec1 =? 0) then Val (ec1, VEmpty)
      else Val (ec1, undef_or ps' (fun q => VCall (mkCall [q] None [(delta * scale)%float; arc] (inv_of scale)))))).

  (* ---------- RectClip / RectClipLines (PathsD overloads; the PathD overloads pass PathsD{path}) ---------- *)
  Definition rect_is_empty (r : frect) : bool :=
    let '(l, t, rr, b) := r in fleb b t || fleb rr l.

  (* the test added by the fix "RectClip(PathsD) checks the range of the rectangle":
     rect.left * scale < min_coord || rect.right * scale > max_coord || rect.top * scale < min_coord || rect.bottom * scale > max_coord *)
  Definition rect_range_ok (scale : float) (r : frect) : bool :=
    let '(l, t, rr, b) := r in
    negb (fltb (l * scale) min_coord || fltb max_coord (rr * scale) || fltb (t * scale) min_coord || fltb max_coord (b * scale)).

  Definition rectclipD (precision : Z) (r : frect) (ps : fpaths) : res (Z * value) :=
    if rect_is_empty r || (match ps with [] => true | _ => false end) then Val (0, VEmpty)
    else
    bind (check_precision_range exc precision 0) (fun '(p', ec) =>
    if negb (ec =? 0) then Val (ec, VEmpty)
    else
      let scale := pow10 p' in
      if negb (rect_range_ok scale r) then
        bind (do_error exc range_error_i range_error_i) (fun _ => Val (range_error_i, VEmpty))
      else
      match scale_rect scale r with
      | None => Val (ec, VUndef)
      | Some r64 =>
          bind (scale_paths_E exc scale scale ps ec) (fun '(ps', ec1) =>
          if negb (ec1 =? 0) then Val (ec1, VEmpty)
          else Val (ec1, undef_or ps' (fun q => VCall (mkCall [q] (Some r64) [] (inv_of scale)))))
      end).

  (* ---------- MinkowskiSum / MinkowskiDiff (PathD): since the fix "Minkowski*(PathD) check precision and error code"
     the same prologue as TrimCollinear(PathD) ---------- *)
  Definition minkowskiD (precision : Z) (pattern pth : fpath) : res (Z * value) :=
    bind (check_precision_range exc precision 0) (fun '(p', ec) =>
    if negb (ec =? 0) then Val (ec, VEmpty)
    else
      let scale := pow10 p' in
      bind (scale_path_E exc scale scale pattern ec) (fun '(pat', ec1) =>
      bind (scale_path_E exc scale scale pth ec1) (fun '(pth', ec2) =>
      if negb (ec2 =? 0) then Val (ec2, VEmpty)
      else Val (ec2,
           match pat', pth' with
           | Some a, Some b => VCall (mkCall [[a]; [b]] None [] (inv_of scale))
           | _, _ => VUndef
           end)))).

  (* ---------- TrimCollinear(PathD) ---------- *)
  Definition trimcollinearD (precision : Z) (pth : fpath) : res (Z * value) :=
    bind (check_precision_range exc precision 0) (fun '(p', ec) =>
    if negb (ec =? 0) then Val (ec, VEmpty)
    else
      let scale := pow10 p' in
      bind (scale_path_E exc scale scale pth ec) (fun '(q, ec1) =>
      if negb (ec1 =? 0) then Val (ec1, VEmpty)
      else Val (ec1, match q with Some a => VCall (mkCall [[a]] None [] (inv_of scale)) | None => VUndef end))).

  (* ---------- PolyPathD::AddChild(Path64) on a node whose scale_ is [s]: the error code is a dead local ---------- *)
  Definition polypathD_child (s : float) (p : path) : res (Z * fpath) :=
    bind (descale_path_E exc s s p 0) (fun '(q, _) => Val (0, q)).

  (* ---------- clipper.export.h: validation prologues ---------- *)
  (* result: Some rc = rejected with that (negative) return code; None = goes on to do the work *)
  Definition export_booleanop64_pre (cliptype fillrule : Z) : option Z :=
    if 4 <? cliptype then Some (- 4) else if 3 <? fillrule then Some (- 3) else None.

  Definition export_booleanopD_pre (cliptype fillrule precision : Z) : option Z :=
    if (precision <? - 8) || (8 <? precision) then Some (- 5)
    else if 4 <? cliptype then Some (- 4) else if 3 <? fillrule then Some (- 3) else None.

  (* pointer-returning exports: true = returns nullptr before doing anything *)
  Definition export_inflateD_pre (precision : Z) (paths_null : bool) : bool :=
    (precision <? - 8) || (8 <? precision) || paths_null.

  Definition export_rectD_pre (r : frect) (paths_null : bool) (precision : Z) : bool :=
    let '(l, t, rr, b) := r in
    if fleb rr l || fleb b t || paths_null then true
    else (precision <? - 8) || (8 <? precision).

  (* BooleanOpD / BooleanOp_PolyTreeD after the prologue: Add* only for non-empty sets, error code never read *)
  Definition export_booleanopD (cliptype fillrule precision : Z) (S O C : fpaths) : res (Z * value) + Z :=
    match export_booleanopD_pre cliptype fillrule precision with
    | Some rc => inr rc
    | None =>
        let ne (l : fpaths) := match l with [] => false | _ => true end in
        inl (bind (clipperD_run precision (ne S) (ne O) (ne C) S O C) (fun '(_, v) => Val (0, v)))
    end.

  (* ConvertCPathsDToPaths64(paths, scale): x * scale -> Point64(double,double): rounding, no range test *)
  Definition export_convert (scale : float) (ps : fpaths) : option paths := scale_paths_raw scale scale ps.

  (* InflatePathsD / InflatePathD: delta and arc_tolerance are multiplied by scale; Execute is always run *)
  Definition export_inflateD (precision : Z) (ps : fpaths) (delta arc_tolerance : float) : res (Z * value) + unit :=
    if export_inflateD_pre precision false then inr tt
    else let scale := pow10 precision in
         inl (Val (0, undef_or (export_convert scale ps)
                        (fun q => VCall (mkCall [q] None [(delta * scale)%float; (arc_tolerance * scale)%float] (inv_of scale))))).

  Definition export_rectD (precision : Z) (r : frect) (ps : fpaths) : res (Z * value) + unit :=
    if export_rectD_pre r false precision then inr tt
    else let scale := pow10 precision in
         inl (Val (0, match scale_rect scale r with
                      | None => VUndef
                      | Some r64 => undef_or (export_convert scale ps) (fun q => VCall (mkCall [q] (Some r64) [] (inv_of scale)))
                      end)).
End Wrappers.

(* ---------- what property C16 says a PathsD operation is ---------- *)
(* "the integer operation's result applied to the inputs multiplied by the documented scale and rounded to
   nearest, divided by that scale; deltas and arc tolerances are scaled alike": the 64-bit call on the scaled
   arguments, no shortcuts, no validation.  None = some scaled coordinate is not an int64. *)
Definition spec_call (k : scale_kind) (p : Z) (sets : list fpaths) (rect : option frect) (fls : list float)
  : option call64 :=
  let s := spec_scale k p in
  match opt_map (scale_paths_raw s s) sets,
        (match rect with
         | None => Some None
         | Some r => match scale_rect s r with Some r' => Some (Some r') | None => None end
         end) with
  | Some isets, Some ir => Some (mkCall isets ir (map (fun d => (d * s)%float) fls) (inv_of s))
  | _, _ => None
  end.

(* ---------- Execute, as far as C11 needs it ---------- *)
Section Execute.
  (* the sweep itself belongs to Sweep1D (property C01/C11 success part); here only the prologue of
     ClipperBase::ExecuteInternal:  if (ct == ClipType::NoClip || !PopScanline(y)) return true;  followed by
     BuildPaths over the (then empty) outrec list *)
  Variable sweep : Z -> Z -> list paths -> (bool * (paths * paths)).   (* ct fr inputs -> succeeded, (closed, open) *)
  Definition execute (ct fr : Z) (inputs : list paths) : bool * (paths * paths) :=
    if ct =? 0 then (true, ([], [])) else sweep ct fr inputs.
End Execute.

(* ---------- sanity examples ---------- *)
Example cpr_ok : check_precision_range true 8 0 = Val (8, 0). Proof. reflexivity. Qed.
Example cpr_throw : check_precision_range true 9 0 = Throw 1 1. Proof. reflexivity. Qed.
Example cpr_clamp : check_precision_range false (-9) 0 = Val (-8, 1). Proof. reflexivity. Qed.
Example sp_zero_on : scale_path_E true 0 1 [(1%float, 1%float)] 0 = Throw 2 2. Proof. reflexivity. Qed.
Example sp_zero_off : scale_path_E false 0 2 [(1%float, 1%float)] 0 = Val (Some [(1, 2)], 2). Proof. reflexivity. Qed.
Example sp_range_on : scale_path_E true 1 1 [(0x1p+62%float, 1%float)] 0 = Throw 64 64. Proof. reflexivity. Qed.
Example sp_range_off : scale_path_E false 1 1 [(0x1p+62%float, 1%float)] 0 = Val (Some [], 64). Proof. reflexivity. Qed.
Example mk_odd_on : make_path true [1; 2; 3] = Throw 4 0. Proof. reflexivity. Qed.
Example mk_odd_off : make_path false [1; 2; 3] = Val [(1, 2)]. Proof. reflexivity. Qed.
Example mk_even : make_path true [1; 2; 3; 4] = Val [(1, 2); (3, 4)]. Proof. reflexivity. Qed.
