(* Ring assembly of the sweep (closed paths, no joins/splits, no PolyTree ownership): NewOutRec / AddLocalMinPoly,
   AddOutPt, AddLocalMaxPoly, JoinOutrecPaths, SwapOutrecs of clipper.engine.cpp as pure functions on

     recs : the OutRec list (index = OutRec::idx); an OutRec is its point ring, its front edge and its back edge
     eo   : for every Active (edge id) the OutRec it currently points to (Active::outrec), if any.

   The circular doubly linked OutPt list of an OutRec is represented by the list D of its points in `next` order
   starting at op_back = outrec->pts->next and ending at op_front = outrec->pts:   D = [back; ...; front].
   (AddOutPt inserts between op_front and op_back, so adding at the front appends to D and adding at the back conses.)

   [None] stands for what would be a null dereference or `succeeded_ = false` in the C++.
   Tie: harness/cx_ringasm.cpp drives the real functions on synthetic Actives through private access with the same
   operation sequences and compares every OutRec (ring in next order from op_back, front_edge, back_edge) and every
   Active::outrec with this model (checks/C01.py, ring_tie). *)
From Coq Require Import ZArith List Bool Lia PeanoNat.
From Clip Require Import base.Geom.
Import ListNotations.

Definition eid := nat.

Record outrec := mkO { pts : option (list pt); fe : option eid; be : option eid }.

Record st := mkS { recs : list outrec; eo : eid -> option nat }.

Definition init : st := mkS [] (fun _ => None).

Definition upd (f : eid -> option nat) (e : eid) (v : option nat) : eid -> option nat :=
  fun x => if Nat.eqb x e then v else f x.

Definition upd_opt (f : eid -> option nat) (e : option eid) (v : option nat) : eid -> option nat :=
  match e with Some x => upd f x v | None => f end.

Fixpoint set_nth {A} (l : list A) (i : nat) (v : A) : list A :=
  match l, i with
  | [], _ => []
  | _ :: t, O => v :: t
  | a :: t, S j => a :: set_nth t j v
  end.

Definition is_edge (o : option eid) (e : eid) : bool :=
  match o with Some x => Nat.eqb x e | None => false end.

Definition dflt : pt := (0, 0)%Z.

(* ---- AddLocalMinPoly (closed path part): a new OutRec holding the single point pt.
        [swap] is the outcome of the side decision (SetSides(outrec, e2, e1) instead of SetSides(outrec, e1, e2)),
        which is modelled in Sweep1D.min_poly_sides. ---- *)
Definition add_local_min_poly (s : st) (e1 e2 : eid) (p : pt) (swap : bool) : st :=
  let i := length (recs s) in
  let o := if swap then mkO (Some [p]) (Some e2) (Some e1) else mkO (Some [p]) (Some e1) (Some e2) in
  mkS (recs s ++ [o]) (upd (upd (eo s) e1 (Some i)) e2 (Some i)).

(* ---- AddOutPt ---- *)
Definition push (to_front : bool) (D : list pt) (p : pt) : list pt :=
  if to_front then (if pt_eqb p (last D dflt) then D else D ++ [p])
  else (if pt_eqb p (hd dflt D) then D else p :: D).

Definition add_out_pt (s : st) (e : eid) (p : pt) : option st :=
  match eo s e with
  | None => None
  | Some i =>
    match nth_error (recs s) i with
    | None => None
    | Some o =>
      match pts o with
      | None => None
      | Some D => Some (mkS (set_nth (recs s) i (mkO (Some (push (is_edge (fe o) e) D p)) (fe o) (be o))) (eo s))
      end
    end
  end.

(* ---- JoinOutrecPaths(ea, eb): eb's ring is spliced onto ea's ---- *)
Definition join (s : st) (ea eb : eid) : option st :=
  match eo s ea, eo s eb with
  | Some ia, Some ib =>
    match nth_error (recs s) ia, nth_error (recs s) ib with
    | Some oa, Some ob =>
      match pts oa, pts ob with
      | Some Da, Some Db =>
        let front := is_edge (fe oa) ea in
        let oa' := if front then mkO (Some (Da ++ Db)) (fe ob) (be oa) else mkO (Some (Db ++ Da)) (fe oa) (be ob) in
        let moved := if front then fe ob else be ob in
        let eo1 := upd_opt (eo s) moved (Some ia) in
        let recs1 := set_nth (set_nth (recs s) ia oa') ib (mkO None None None) in
        Some (mkS recs1 (upd (upd eo1 ea None) eb None))
      | _, _ => None
      end
    | _, _ => None
    end
  | _, _ => None
  end.

(* rotate the ring so that the node holding the point just added at the BACK becomes outrec->pts (= front) *)
Definition rot_back_to_front (D : list pt) : list pt :=
  match D with [] => [] | a :: t => t ++ [a] end.

(* ---- AddLocalMaxPoly (closed paths, no joins) ---- *)
Definition add_local_max_poly (s : st) (e1 e2 : eid) (p : pt) : option st :=
  match eo s e1, eo s e2 with
  | Some i1, Some i2 =>
    match nth_error (recs s) i1, nth_error (recs s) i2 with
    | Some o1, Some o2 =>
      let f1 := is_edge (fe o1) e1 in
      let f2 := is_edge (fe o2) e2 in
      if Bool.eqb f1 f2 then None                                  (* succeeded_ = false *)
      else
        match add_out_pt s e1 p with
        | None => None
        | Some s1 =>
          if Nat.eqb i1 i2 then
            (* the ring is complete: outrec.pts = result; UncoupleOutRec *)
            match nth_error (recs s1) i1 with
            | Some o =>
              match pts o with
              | Some D =>
                (* result is the front node when e1 is the front edge; otherwise it is the back node
                   (new or already there), which becomes outrec.pts *)
                let D' := if f1 then D else rot_back_to_front D in
                Some (mkS (set_nth (recs s1) i1 (mkO (Some D') None None))
                          (upd_opt (upd_opt (eo s1) (fe o) None) (be o) None))
              | None => None
              end
            | None => None
            end
          else if Nat.ltb i1 i2 then join s1 e1 e2 else join s1 e2 e1
        end
    | _, _ => None
    end
  | _, _ => None
  end.

(* ---- SwapOutrecs ---- *)
Definition swap_side (o : outrec) (eold enew : eid) : outrec :=
  if is_edge (fe o) eold then mkO (pts o) (Some enew) (be o) else mkO (pts o) (fe o) (Some enew).

Definition swap_outrecs (s : st) (e1 e2 : eid) : st :=
  let or1 := eo s e1 in
  let or2 := eo s e2 in
  match or1, or2 with
  | Some i1, Some i2 =>
    if Nat.eqb i1 i2 then
      match nth_error (recs s) i1 with
      | Some o => mkS (set_nth (recs s) i1 (mkO (pts o) (be o) (fe o))) (eo s)
      | None => s
      end
    else
      let r1 := match nth_error (recs s) i1 with Some o => set_nth (recs s) i1 (swap_side o e1 e2) | None => recs s end in
      let r2 := match nth_error r1 i2 with Some o => set_nth r1 i2 (swap_side o e2 e1) | None => r1 end in
      mkS r2 (upd (upd (eo s) e1 or2) e2 or1)
  | Some i1, None =>
      let r1 := match nth_error (recs s) i1 with Some o => set_nth (recs s) i1 (swap_side o e1 e2) | None => recs s end in
      mkS r1 (upd (upd (eo s) e1 None) e2 or1)
  | None, Some i2 =>
      let r2 := match nth_error (recs s) i2 with Some o => set_nth (recs s) i2 (swap_side o e2 e1) | None => recs s end in
      mkS r2 (upd (upd (eo s) e1 or2) e2 None)
  | None, None => s
  end.

(* ---- operation sequences (what the harness replays on the real engine) ---- *)
Inductive op :=
| OMin (e1 e2 : eid) (p : pt) (swap : bool)
| OAdd (e : eid) (p : pt)
| OMax (e1 e2 : eid) (p : pt)
| OSwap (e1 e2 : eid).

Definition step (s : st) (o : op) : option st :=
  match o with
  | OMin e1 e2 p sw => if Nat.eqb e1 e2 then None else Some (add_local_min_poly s e1 e2 p sw)
  | OAdd e p => add_out_pt s e p
  | OMax e1 e2 p => if Nat.eqb e1 e2 then None else add_local_max_poly s e1 e2 p
  | OSwap e1 e2 =>
      if Nat.eqb e1 e2 then None
      else match eo s e1, eo s e2 with
           | None, None => None            (* or1 == or2 == nullptr: `or1->front_edge` is a null dereference *)
           | _, _ => Some (swap_outrecs s e1 e2)
           end
  end.

Fixpoint run (s : st) (ops : list op) : option st :=
  match ops with
  | [] => Some s
  | o :: t => match step s o with Some s' => run s' t | None => None end
  end.

(* all points held by the OutRecs, as a multiset carrier *)
Definition all_pts (s : st) : list pt :=
  flat_map (fun o => match pts o with Some D => D | None => [] end) (recs s).

Example ex_square :
  (* two minima, their rings joined at one maximum and closed at the other *)
  option_map (fun s => map pts (recs s))
    (run init [OMin 0 1 (0, 10)%Z false; OMin 2 3 (10, 10)%Z false; OAdd 0 (0, 5)%Z; OAdd 3 (12, 5)%Z;
              OMax 1 2 (5, 0)%Z; OMax 0 3 (6, -5)%Z])
  = Some [Some [(12, 5); (10, 10); (5, 0); (0, 10); (0, 5); (6, -5)]%Z; None].
Proof. vm_compute. reflexivity. Qed.
