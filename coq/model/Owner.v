(* Owner.v -- executable model of Clipper2's OutRec ownership bookkeeping and of the owner search that builds a
   PolyTree (property C04).

   Code modelled (CPP/Clipper2Lib/src/clipper.engine.cpp):
     GetRealOutRec 412, IsValidOwner 418, SetOwner 478 (incl. its compression and cycle-avoidance loops),
     MoveSplits 2270, the owner assignments of AddLocalMinPoly/AddLocalMaxPoly/JoinOutrecPaths/ProcessHorzJoins/DoSplitOp
     (as the operations [op]), CheckSplitOwner 2942, RecursiveCheckOwners 2966, the loop of BuildTree64 3027.

   State: a finite map idx -> {owner; has_pts; splits; rsplit} represented as a list indexed by OutRec::idx
   (outrec_list_).  Reads outside the list give the default record (owner = None, no points), writes outside are
   ignored.  Every C++ loop that follows owner pointers is a fuelled recursion; [None] = out of fuel, i.e. the C++
   loop would not have terminated within that many steps.

   The geometric tests are abstract: [inside i j] = Path1InsidePath2(or_i->pts, or_j->pts),
   [bcontains j i] = or_j->bounds.Contains(or_i->bounds), [bempty i] = or_i->bounds.IsEmpty().
   CheckBounds(x) is modelled for a state in which it has already been evaluated for every OutRec
   (harness/cx_owner forces that): it is [has_pts x].

   The owner search exists in several shapes, selected by three flags, so that the model mirrors the code both before
   and after the repair triage/C04-owner-search.patch (the check establishes which shape the tree under test has by exact
   comparison on every dumped state; every theorem is stated for the shapes it holds for):
     own_first       RecursiveCheckOwners starts with `found = outrec->splits && CheckSplitOwner(outrec, outrec->splits)`
     mark_chain      ... then sets `o->recursive_split = outrec` for every o in outrec's owner chain before the loop
     guard_pointless CheckSplitOwner descends into the split list of a split without points only if that split's
                     recursive_split is not outrec, and marks it
   All false = the code of the snapshot. *)
From Coq Require Import List Bool Arith Lia.
Import ListNotations.

Record orec : Type := mkOrec {
  owner : option nat;
  has_pts : bool;
  splits : list nat;
  rsplit : option nat            (* recursive_split *)
}.

Definition omap := list orec.
Definition dflt_orec : orec := mkOrec None false [] None.
Definition fresh_orec (o : option nat) : orec := mkOrec o true [] None.

Definition get (m : omap) (i : nat) : orec := nth i m dflt_orec.

Fixpoint upd (m : omap) (i : nat) (f : orec -> orec) : omap :=
  match m, i with
  | [], _ => []
  | r :: t, O => f r :: t
  | r :: t, S k => r :: upd t k f
  end.

Definition owner_of (m : omap) (i : nat) : option nat := owner (get m i).
Definition pts_of (m : omap) (i : nat) : bool := has_pts (get m i).
Definition splits_of (m : omap) (i : nat) : list nat := splits (get m i).
Definition rsplit_of (m : omap) (i : nat) : option nat := rsplit (get m i).

Definition set_owner_field (m : omap) (i : nat) (o : option nat) : omap :=
  upd m i (fun r => mkOrec o (has_pts r) (splits r) (rsplit r)).
Definition set_pts (m : omap) (i : nat) (b : bool) : omap :=
  upd m i (fun r => mkOrec (owner r) b (splits r) (rsplit r)).
Definition set_splits (m : omap) (i : nat) (s : list nat) : omap :=
  upd m i (fun r => mkOrec (owner r) (has_pts r) s (rsplit r)).
Definition set_rsplit (m : omap) (i : nat) (o : option nat) : omap :=
  upd m i (fun r => mkOrec (owner r) (has_pts r) (splits r) o).

Definition opt_eqb (a : option nat) (b : nat) : bool :=
  match a with Some x => Nat.eqb x b | None => false end.

(* ---------------------------------------------------------------- GetRealOutRec / IsValidOwner / SetOwner *)
(* while (outrec && !outrec->pts) outrec = outrec->owner; *)
Fixpoint get_real (fuel : nat) (m : omap) (x : option nat) : option (option nat) :=
  match x with
  | None => Some None
  | Some i =>
    if pts_of m i then Some (Some i)
    else match fuel with
         | O => None
         | S f => get_real f m (owner_of m i)
         end
  end.

(* tmp = start; while (tmp && tmp != target) tmp = tmp->owner;  result: tmp != nullptr *)
Fixpoint reaches (fuel : nat) (m : omap) (tmp : option nat) (target : nat) : option bool :=
  match tmp with
  | None => Some false
  | Some t =>
    if Nat.eqb t target then Some true
    else match fuel with
         | O => None
         | S f => reaches f m (owner_of m t) target
         end
  end.

(* IsValidOwner(outrec, testOwner): testOwner's owner chain does not contain outrec *)
Definition is_valid_owner (fuel : nat) (m : omap) (i : nat) (test : nat) : option bool :=
  match reaches fuel m (Some test) i with
  | Some b => Some (negb b)
  | None => None
  end.

(* while (new_owner->owner && !new_owner->owner->pts) new_owner->owner = new_owner->owner->owner; *)
Fixpoint compress (fuel : nat) (m : omap) (j : nat) : option omap :=
  match owner_of m j with
  | None => Some m
  | Some o =>
    if pts_of m o then Some m
    else match fuel with
         | O => None
         | S f => compress f (set_owner_field m j (owner_of m o)) j
         end
  end.

(* SetOwner(outrec = i, new_owner = j) *)
Definition set_owner (fuel : nat) (m : omap) (i j : nat) : option omap :=
  match compress fuel m j with
  | None => None
  | Some m1 =>
    match reaches fuel m1 (Some j) i with
    | None => None
    | Some r =>
      let m2 := if r then set_owner_field m1 j (owner_of m1 i) else m1 in
      Some (set_owner_field m2 i (Some j))
    end
  end.

(* MoveSplits(from, to) *)
Definition move_splits (m : omap) (from to : nat) : omap :=
  let s := splits_of m from in
  match s with
  | [] => m                      (* null or empty: nothing observable happens *)
  | _ => set_splits (set_splits m to (splits_of m to ++ s)) from []
  end.

(* ---------------------------------------------------------------- the owner edits of the engine *)
Inductive op : Type :=
| OpNew                              (* NewOutRec() + pts: owner = nullptr *)
| OpSetOwner (i j : nat)             (* SetOwner(or_i, or_j) *)
| OpClear (i : nat)                  (* or_i->owner = nullptr *)
| OpReal (i : nat)                   (* or_i->owner = GetRealOutRec(or_i->owner) *)
| OpPts (i : nat) (b : bool)         (* or_i->pts = b ? pts : nullptr *)
| OpNewOwned (j : nat)               (* new OutRec with owner = or_j *)
| OpNewSibling (j : nat)             (* new OutRec with owner = or_j->owner *)
| OpValidAssign (i j : nat)          (* if (IsValidOwner(or_i, or_j)) or_i->owner = or_j *)
| OpClimb (i : nat)                  (* or_i->owner = or_i->owner->owner  (RecursiveCheckOwners) *)
| OpAddSplit (i j : nat)
| OpMoveSplits (i j : nat).

(* every call site passes two different OutRecs to SetOwner *)
Definition op_wf (o : op) : Prop :=
  match o with OpSetOwner i j => i <> j | _ => True end.

Definition fuel_of (m : omap) : nat := S (length m).

Definition apply_op (m : omap) (o : op) : option omap :=
  let fuel := fuel_of m in
  match o with
  | OpNew => Some (m ++ [fresh_orec None])
  | OpSetOwner i j => set_owner fuel m i j
  | OpClear i => Some (set_owner_field m i None)
  | OpReal i =>
    match get_real fuel m (owner_of m i) with
    | Some r => Some (set_owner_field m i r)
    | None => None
    end
  | OpPts i b => Some (set_pts m i b)
  | OpNewOwned j => Some (m ++ [fresh_orec (Some j)])
  | OpNewSibling j => Some (m ++ [fresh_orec (owner_of m j)])
  | OpValidAssign i j =>
    match is_valid_owner fuel m i j with
    | Some true => Some (set_owner_field m i (Some j))
    | Some false => Some m
    | None => None
    end
  | OpClimb i =>
    match owner_of m i with
    | Some o => Some (set_owner_field m i (owner_of m o))
    | None => Some m
    end
  | OpAddSplit i j => Some (set_splits m i (splits_of m i ++ [j]))
  | OpMoveSplits i j => Some (move_splits m i j)
  end.

Fixpoint run_ops (m : omap) (ops : list op) : option omap :=
  match ops with
  | [] => Some m
  | o :: t => match apply_op m o with Some m' => run_ops m' t | None => None end
  end.

(* ---------------------------------------------------------------- acyclicity of the owner graph *)
(* the owner chain starting at i ends in nullptr *)
Inductive ends (m : omap) : nat -> Prop :=
| ends_none i : owner_of m i = None -> ends m i
| ends_step i o : owner_of m i = Some o -> ends m o -> ends m i.

Definition acyclic (m : omap) : Prop := forall i, ends m i.

(* ---------------------------------------------------------------- the owner search of BuildTree64 *)
Section Search.
  Variable inside : nat -> nat -> bool.        (* Path1InsidePath2(or_i->pts, or_j->pts) *)
  Variable bcontains : nat -> nat -> bool.     (* or_a->bounds.Contains(or_b->bounds) *)
  Variable bempty : nat -> bool.               (* or_i->bounds.IsEmpty() *)
  Variable is_open : nat -> bool.
  Variable guard_pointless : bool.             (* see the header: shape of CheckSplitOwner *)
  Variable own_first : bool.                   (* shape of RecursiveCheckOwners *)
  Variable mark_chain : bool.

  Definition check_bounds (m : omap) (x : nat) : bool := pts_of m x.

  (* CheckSplitOwner(outrec = i, splits = spl): (state, found) *)
  Fixpoint check_split_owner (fuel : nat) (m : omap) (i : nat) (spl : list nat) : option (omap * bool) :=
    match fuel with
    | O => None
    | S f =>
      match spl with
      | [] => Some (m, false)
      | s :: rest =>
        (* if (!split->pts && split->splits [&& split->recursive_split != outrec]) { [split->recursive_split = outrec;]
             if (CheckSplitOwner(outrec, split->splits)) return true; }                                          #942 *)
        match (if negb (pts_of m s) then
                 if guard_pointless && opt_eqb (rsplit_of m s) i then Some (m, false)
                 else check_split_owner f (if guard_pointless then set_rsplit m s (Some i) else m) i (splits_of m s)
               else Some (m, false)) with
        | None => None
        | Some (m1, true) => Some (m1, true)
        | Some (m1, false) =>
          match get_real f m1 (Some s) with
          | None => None
          | Some None => check_split_owner f m1 i rest
          | Some (Some s') =>
            if Nat.eqb s' i || opt_eqb (rsplit_of m1 s') i then check_split_owner f m1 i rest
            else
              let m2 := set_rsplit m1 s' (Some i) in
              match check_split_owner f m2 i (splits_of m2 s') with
              | None => None
              | Some (m3, true) => Some (m3, true)
              | Some (m3, false) =>
                match is_valid_owner f m3 i s' with
                | None => None
                | Some v =>
                  if check_bounds m3 s' && v && bcontains s' i && inside i s'
                  then Some (set_owner_field m3 i (Some s'), true)
                  else check_split_owner f m3 i rest
                end
              end
          end
        end
      end
    end.

  (* the while (outrec->owner) loop of RecursiveCheckOwners *)
  Fixpoint climb (fuel : nat) (m : omap) (i : nat) : option omap :=
    match fuel with
    | O => None
    | S f =>
      match owner_of m i with
      | None => Some m
      | Some o =>
        match check_split_owner fuel m i (splits_of m o) with
        | None => None
        | Some (m1, true) => Some m1
        | Some (m1, false) =>
          if pts_of m1 o && check_bounds m1 o && bcontains o i && inside i o then Some m1
          else climb f (set_owner_field m1 i (owner_of m1 o)) i
        end
      end
    end.

  (* for (o = x; o; o = o->owner) o->recursive_split = outrec; *)
  Fixpoint mark_owners (fuel : nat) (m : omap) (i : nat) (x : option nat) : option omap :=
    match x with
    | None => Some m
    | Some o =>
      match fuel with
      | O => None
      | S f => mark_owners f (set_rsplit m o (Some i)) i (owner_of m o)
      end
    end.

  Definition marked_climb (fuel : nat) (m : omap) (i : nat) : option omap :=
    if mark_chain then
      match mark_owners fuel m i (owner_of m i) with
      | None => None
      | Some m' => climb fuel m' i
      end
    else climb fuel m i.

  (* the owner search of RecursiveCheckOwners: (own splits first,) (mark the owner chain,) then the while loop *)
  Definition find_owner (fuel : nat) (m : omap) (i : nat) : option omap :=
    if own_first then
      match check_split_owner fuel m i (splits_of m i) with
      | None => None
      | Some (m1, true) => Some m1
      | Some (m1, false) => marked_climb fuel m1 i
      end
    else marked_climb fuel m i.

  (* tree under construction: (OutRec idx, parent OutRec idx or None for the root), in AddChild order *)
  Definition tree := list (nat * option nat).
  Definition placed (t : tree) (i : nat) : bool := existsb (fun e => Nat.eqb (fst e) i) t.

  (* RecursiveCheckOwners(outrec = i).  Some None = the C++ would dereference a null polypath. *)
  Fixpoint rec_check (fuel : nat) (m : omap) (t : tree) (i : nat) : option (option (omap * tree)) :=
    match fuel with
    | O => None
    | S f =>
      if placed t i || bempty i then Some (Some (m, t))
      else
        match find_owner fuel m i with
        | None => None
        | Some m1 =>
          match owner_of m1 i with
          | None => Some (Some (m1, t ++ [(i, None)]))
          | Some o =>
            match (if placed t o then Some (Some (m1, t)) else rec_check f m1 t o) with
            | None => None
            | Some None => Some None
            | Some (Some (m2, t2)) =>
              if placed t2 o then Some (Some (m2, t2 ++ [(i, Some o)])) else Some None
            end
          end
        end
    end.

  (* for (i = 0; i < outrec_list_.size(); ++i) if closed && pts && CheckBounds: RecursiveCheckOwners *)
  Fixpoint build_from (fuel : nat) (m : omap) (t : tree) (is : list nat) : option (option (omap * tree)) :=
    match is with
    | [] => Some (Some (m, t))
    | i :: rest =>
      if pts_of m i && negb (is_open i) && check_bounds m i then
        match rec_check fuel m t i with
        | Some (Some (m1, t1)) => build_from fuel m1 t1 rest
        | r => r
        end
      else build_from fuel m t rest
    end.

  Definition build_tree (fuel : nat) (m : omap) : option (option (omap * tree)) :=
    build_from fuel m [] (seq 0 (length m)).

  (* preorder listing of the tree (children in AddChild order) *)
  Fixpoint preorder (fuel : nat) (t : tree) (parent : option nat) : list (nat * option nat) :=
    match fuel with
    | O => []
    | S f =>
      flat_map (fun e : nat * option nat =>
                  if match snd e, parent with
                     | None, None => true
                     | Some a, Some b => Nat.eqb a b
                     | _, _ => false
                     end
                  then e :: preorder f t (Some (fst e)) else [])
               t
    end.

  Definition parent_of (t : tree) (i : nat) : option (option nat) :=
    match find (fun e => Nat.eqb (fst e) i) t with
    | Some e => Some (snd e)
    | None => None
    end.
End Search.

(* ---------------------------------------------------------------- PolyPath::Level / IsHole *)
(* a PolyPath node is identified by the list of its proper ancestors' count: Level = number of parent_ links *)
Fixpoint level_of (fuel : nat) (parent : nat -> option nat) (n : nat) : nat :=
  match fuel with
  | O => 0
  | S f => match parent n with Some p => S (level_of f parent p) | None => 0 end
  end.

(* IsHole: lvl && !(lvl & 1) *)
Definition is_hole_of_level (lvl : nat) : bool := negb (Nat.eqb lvl 0) && Nat.even lvl.

(* ---------------------------------------------------------------- sanity *)
Example set_owner_cycle_avoided :
  run_ops [] [OpNew; OpNew; OpNew; OpSetOwner 1 0; OpSetOwner 2 1; OpSetOwner 0 2]
  = Some [mkOrec (Some 2) true [] None; mkOrec (Some 0) true [] None; mkOrec None true [] None].
Proof. reflexivity. Qed.

Example set_owner_self_loops :
  run_ops [] [OpNew; OpSetOwner 0 0] = Some [mkOrec (Some 0) true [] None].
Proof. reflexivity. Qed.
