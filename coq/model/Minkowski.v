(* Minkowski.v -- complete executable model of detail::Minkowski (clipper.minkowski.h 20-72), of the
   Area<int64_t>(Path64)/IsPositive it calls (clipper.core.h 854/886), the specification list of parallelograms
   of property C19 and the sampled region checker used for the (unmodelled) detail::Union step.

   Modelling decisions (CONVENTIONS "models mirror the code that exists"):
   * `tmp` is built exactly as the code does (one translated / reflected copy of the pattern per path point);
     `tmp[g][h]` is a bounds-checked read ([rd2], error [MOob]); both `for` loops test their condition in every
     iteration and run on explicit fuel ([MFuel]); the theorems show that neither error can occur.
   * `h` is carried from one outer iteration to the next as in the code (it is `patLen-1` again after each
     inner loop, which the proofs derive rather than assume).
   * int64 arithmetic is unbounded Z; [minkowski_ub_free] is the side predicate "no int64 operation of the run
     overflows" (the additions/subtractions of the translation and the sums/differences inside Area).
   * Area is the binary64 computation of the C++: `static_cast<double>(y2+y1) * (x2-x1)` converts both int64
     operands (correctly rounded, [Z2F]), multiplies and accumulates in double in the code's order (the loop
     handles two edges per iteration with the odd/even `stop` adjustment), final `* 0.5`, `IsPositive` is `>= 0`. *)
From Clip Require Import base.Geom base.FloatModel base.Winding base.Dist.
From Coq Require Import ZArith List Floats Bool.
Import ListNotations.
Local Open Scope Z_scope.

Inductive merr := MOob | MFuel.
Inductive mres (A : Type) := MOk (a : A) | MErr (e : merr).
Arguments MOk {A} a.
Arguments MErr {A} e.

(* ------------------------------------------------------------------ Area<int64_t>, IsPositive *)
(* static_cast<double>(p.y + q.y) * (p.x - q.x) *)
Definition area_term (p q : pt) : float := (Z2F (py p + py q) * Z2F (px p - px q))%float.

(* for (it1 = cbegin; it1 != stop;) { a += term(it2,it1); it2 = it1+1; a += term(it1,it2); it1 += 2; }
   iterators are indices; returns (a, it1, it2) at loop exit *)
Fixpoint area_loop (fuel : nat) (l : path) (it1 it2 stop : nat) (a : float) : mres (float * nat * nat) :=
  match fuel with
  | O => MErr MFuel
  | S f =>
    if Nat.eqb it1 stop then MOk (a, it1, it2)
    else match nth_error l it2, nth_error l it1, nth_error l (S it1) with
         | Some q2, Some q1, Some q1n =>
           let a1 := (a + area_term q2 q1)%float in
           let a2 := (a1 + area_term q1 q1n)%float in
           area_loop f l (S (S it1)) (S it1) stop a2
         | _, _, _ => MErr MOob
         end
  end.

Definition areaF (l : path) : mres float :=
  let cnt := length l in
  if (cnt <? 3)%nat then MOk 0%float
  else
    let it2 := (cnt - 1)%nat in
    let stop := if Nat.even cnt then S it2 else it2 in      (* if (!(cnt & 1)) ++stop; *)
    match area_loop (S cnt) l 0 it2 stop 0%float with
    | MOk (a, it1, it2') =>
      if Nat.odd cnt then                                   (* if (cnt & 1) a += term(it2,it1); *)
        match nth_error l it2', nth_error l it1 with
        | Some q2, Some q1 => MOk ((a + area_term q2 q1) * 0.5)%float
        | _, _ => MErr MOob
        end
      else MOk (a * 0.5)%float
    | MErr e => MErr e
    end.

(* IsPositive(poly) = Area(poly) >= 0 *)
Definition is_positive (l : path) : mres bool :=
  match areaF l with MOk a => MOk (fleb 0%float a) | MErr e => MErr e end.

(* ------------------------------------------------------------------ detail::Minkowski *)
(* p + pt2  /  p - pt2 *)
Definition mop (isSum : bool) (p pt2 : pt) : pt := if isSum then padd p pt2 else psub p pt2.

(* path2 = transform(pattern, pt2 -> p (+|-) pt2); tmp = one path2 per path point *)
Definition translate (isSum : bool) (pattern : path) (p : pt) : path := map (mop isSum p) pattern.
Definition mk_tmp (isSum : bool) (pattern pth : path) : paths := map (translate isSum pattern) pth.

(* tmp[r][c] *)
Definition rd2 (tmp : paths) (r c : nat) : option pt :=
  match nth_error tmp r with Some row => nth_error row c | None => None end.

(* if (!IsPositive(quad)) std::reverse(quad.begin(), quad.end()); *)
Definition orient_quad (quad : path) : mres path :=
  match is_positive quad with
  | MOk true => MOk quad
  | MOk false => MOk (rev quad)
  | MErr e => MErr e
  end.

(* for (size_t j = 0; j < patLen; j++) { quad...; result.push_back; h = j; }   returns the final h *)
Fixpoint inner_loop (fuel : nat) (tmp : paths) (patLen g i h j : nat) : mres (nat * paths) :=
  match fuel with
  | O => MErr MFuel
  | S f =>
    if (j <? patLen)%nat then
      match rd2 tmp g h, rd2 tmp i h, rd2 tmp i j, rd2 tmp g j with
      | Some a, Some b, Some c, Some d =>
        match orient_quad [a; b; c; d] with
        | MOk q =>
          match inner_loop f tmp patLen g i j (S j) with
          | MOk (h', qs) => MOk (h', q :: qs)
          | MErr e => MErr e
          end
        | MErr e => MErr e
        end
      | _, _, _, _ => MErr MOob
      end
    else MOk (h, [])
  end.

(* for (size_t h = patLen - 1, i = delta; i < pathLen; ++i) { inner; g = i; } *)
Fixpoint outer_loop (fuel : nat) (tmp : paths) (patLen pathLen g h i : nat) : mres paths :=
  match fuel with
  | O => MErr MFuel
  | S f =>
    if (i <? pathLen)%nat then
      match inner_loop (S patLen) tmp patLen g i h 0 with
      | MOk (h', qs) =>
        match outer_loop f tmp patLen pathLen i h' (S i) with
        | MOk rest => MOk (qs ++ rest)
        | MErr e => MErr e
        end
      | MErr e => MErr e
      end
    else MOk []
  end.

Definition minkowski (pattern pth : path) (isSum isClosed : bool) : mres paths :=
  let delta := if isClosed then O else 1%nat in
  let patLen := length pattern in
  let pathLen := length pth in
  if (Nat.eqb patLen 0 || Nat.eqb pathLen 0)%bool then MOk []
  else
    let tmp := mk_tmp isSum pattern pth in
    let g := if isClosed then (pathLen - 1)%nat else O in
    outer_loop (S pathLen) tmp patLen pathLen g (patLen - 1)%nat delta.

(* ------------------------------------------------------------------ no int64 overflow in the run *)
Definition pt_i64 (p : pt) : bool := in_i64 (px p) && in_i64 (py p).
Definition term_i64 (e : pt * pt) : bool :=
  let (p, q) := e in in_i64 (py p + py q) && in_i64 (px p - px q).
Definition area_ub_free (l : path) : bool := forallb term_i64 (cyc_edges l).

(* ------------------------------------------------------------------ specification of C19 *)
(* cyclic edges in the code's order: (p_{n-1},p_0), (p_0,p_1), ..., (p_{n-2},p_{n-1}) *)
Definition cyc_edges_last (p : path) : list (pt * pt) :=
  match p with [] => [] | a :: _ => open_edges (last p a :: p) end.

(* path edges: the closing edge (first, as in the code) only when closed *)
Definition path_edges (closed : bool) (p : path) : list (pt * pt) :=
  if closed then cyc_edges_last p else open_edges p.

(* the parallelogram spanned by path edge e = (a,a') and pattern edge f = (b,b') *)
Definition para (isSum : bool) (e f : pt * pt) : path :=
  [mop isSum (fst e) (fst f); mop isSum (snd e) (fst f); mop isSum (snd e) (snd f); mop isSum (fst e) (snd f)].

Definition para_quads (isSum closed : bool) (pattern pth : path) : paths :=
  flat_map (fun e => map (para isSum e) (cyc_edges_last pattern)) (path_edges closed pth).

(* closed form of Area on four points (what [areaF] computes on a quad, proved in proofs/Minkowski.v) *)
Definition area4F (a b c d : pt) : float :=
  ((((0 + area_term d a) + area_term a b) + area_term b c + area_term c d) * 0.5)%float.

Definition orient4 (q : path) : path :=
  match q with
  | [a; b; c; d] => if fleb 0%float (area4F a b c d) then q else rev q
  | _ => q
  end.

Definition minkowski_ub_free (pattern pth : path) (isSum isClosed : bool) : bool :=
  forallb (fun row => forallb pt_i64 row) (mk_tmp isSum pattern pth)
  && forallb area_ub_free (para_quads isSum isClosed pattern pth).

(* ------------------------------------------------------------------ exact membership + sampled checker *)
(* q strictly inside the convex quad (either orientation): the four cross products have one strict sign.
   A degenerate quad (zero area) contains no point. *)
Definition in_para (quad : path) (q : pt) : bool :=
  match quad with
  | [p0; p1; p2; p3] =>
    let c0 := cross p0 p1 q in let c1 := cross p1 p2 q in
    let c2 := cross p2 p3 q in let c3 := cross p3 p0 q in
    ((0 <? c0) && (0 <? c1) && (0 <? c2) && (0 <? c3))
    || ((c0 <? 0) && (c1 <? 0) && (c2 <? 0) && (c3 <? 0))
  | _ => false
  end.

Definition in_some (quads : paths) (q : pt) : bool := existsb (fun qd => in_para qd q) quads.

(* all coordinates times k: k = 2 expresses half-integer sample points; a larger k (2 * 2^j) expresses the dyadic
   coordinates of a PathD result exactly *)
Definition scalek (k : Z) (ps : paths) : paths := map (map (pscale k)) ps.

(* cross-check of the membership test against the winding-number vocabulary of base/Winding.v *)
Definition wn_some (quads : paths) (q : pt) : bool := existsb (fun qd => negb (wn qd q =? 0)) quads.

(* one evaluated sample point: point, net winding of the result there, membership in the union of the parallelograms *)
Definition mfail := (pt * Z * bool)%type.

(* [quads], [out] and [pts] in the same (doubled) coordinates; tolerance tn/td in those units.
   [mink_eval]: the sample points farther than the tolerance from every parallelogram edge, with their data.
   [mink_bad]: the net winding of the result is not 1 inside some parallelogram / 0 outside all of them. *)
Definition mink_eval (tn td : Z) (quads out : paths) (pts : list pt) : list mfail :=
  let es := edges_closed quads in
  flat_map (fun q => if far_from tn td es q then [(q, wn_paths out q, in_some quads q)] else []) pts.

Definition mink_bad (r : mfail) : bool :=
  let '(q, w, ins) := r in negb (w =? (if ins then 1 else 0)).

Definition mink_fails (ev : list mfail) : list mfail := filter mink_bad ev.
Definition mink_inside (ev : list mfail) : list mfail := filter (fun r : mfail => snd r) ev.

Definition check_mink (tn td : Z) (quads out : paths) (pts : list pt) : list mfail :=
  mink_fails (mink_eval tn td quads out pts).

(* whole oracle entry: quads from the model (in original coordinates), scaled by k here; out, pts and the
   tolerance tn/td are given in k-scaled coordinates; returns the evaluated far sample points (the driver prints
   [mink_fails] of it and the counts) *)
Definition check_minkowski (pattern pth : path) (isSum isClosed : bool) (k tn td : Z) (outk : paths) (ptsk : list pt)
  : mres (list mfail) :=
  match minkowski pattern pth isSum isClosed with
  | MOk quads => MOk (mink_eval tn td (scalek k quads) outk ptsk)
  | MErr e => MErr e
  end.

(* evaluated points where "strictly inside some parallelogram" (cross products) and "some parallelogram has a
   non-zero winding number there" disagree: must be empty off the edges (run-time consistency check of the oracle) *)
Definition mink_xcheck (pattern pth : path) (isSum isClosed : bool) (k : Z) (ev : list mfail) : list mfail :=
  match minkowski pattern pth isSum isClosed with
  | MOk quads => filter (fun r : mfail => negb (Bool.eqb (snd r) (wn_some (scalek k quads) (fst (fst r))))) ev
  | MErr _ => ev
  end.

(* ------------------------------------------------------------------ sanity *)
Example areaF_sq : areaF [(0,0); (10,0); (10,10); (0,10)] = MOk 100%float. Proof. reflexivity. Qed.
Example areaF_tri : areaF [(0,0); (0,10); (10,0)] = MOk (-50)%float. Proof. reflexivity. Qed.
Example areaF_pent : areaF [(0,0); (10,0); (10,10); (5,15); (0,10)] = MOk 125%float. Proof. reflexivity. Qed.
Example areaF_two : areaF [(0,0); (10,0)] = MOk 0%float. Proof. reflexivity. Qed.
Example mink_ex :
  minkowski [(0,0); (2,0); (0,2)] [(10,10); (20,10)] true false
  = MOk [ [(10,10); (20,10); (20,12); (10,12)]; [(10,10); (20,10); (22,10); (12,10)]; [(12,10); (22,10); (20,12); (10,12)] ].
Proof. reflexivity. Qed.
Example mink_diff_closed_1 :
  minkowski [(1,2)] [(10,10)] false true = MOk [ [(9,8); (9,8); (9,8); (9,8)] ].
Proof. reflexivity. Qed.
Example mink_open_1 : minkowski [(1,2); (3,4)] [(10,10)] true false = MOk []. Proof. reflexivity. Qed.
Example in_para_ex :
  in_para [(0,0); (10,0); (12,5); (2,5)] (5,2) = true /\ in_para [(2,5); (12,5); (10,0); (0,0)] (5,2) = true
  /\ in_para [(0,0); (10,0); (12,5); (2,5)] (0,0) = false /\ in_para [(0,0); (10,0); (20,0); (10,0)] (5,0) = false.
Proof. repeat split; reflexivity. Qed.
