(* Sampled region checker used by the C01/C13/C19 oracles: the specification side is Coq-defined. *)
From Clip Require Import base.Geom base.Winding base.Region base.Dist.
Local Open Scope Z_scope.

(* keep the sample points farther than tn/td from every input edge, with their subject/clip winding numbers *)
Definition prep (S C : paths) (tn td : Z) (pts : list pt) : list (pt * Z * Z) :=
  let es := edges_closed (S ++ C) in
  flat_map (fun q => if far_from tn td es q then [(q, wn_paths S q, wn_paths C q)] else []) pts.

Definition expected (ct : clip_type) (fr : fill_rule) (rev : bool) (ws wc : Z) : Z :=
  if in_result ct fr ws wc then (if rev then -1 else 1) else 0.

(* sample points at which the solution's net winding differs from the specification *)
Definition check_prep (ct : clip_type) (fr : fill_rule) (rev : bool)
           (pr : list (pt * Z * Z)) (out : paths) : list pt :=
  flat_map (fun '(q, ws, wc) => if wn_paths out q =? expected ct fr rev ws wc then [] else [q]) pr.

Lemma check_prep_sound ct fr rev S C tn td pts out :
  check_prep ct fr rev (prep S C tn td pts) out = [] ->
  forall q, In q pts -> far_from tn td (edges_closed (S ++ C)) q = true ->
  wn_paths out q = expected ct fr rev (wn_paths S q) (wn_paths C q).
Proof.
  unfold check_prep, prep. intros H q Hq Hfar.
  induction pts as [|p pts IH]; [destruct Hq|].
  cbn [flat_map] in H. destruct Hq as [-> | Hq].
  - rewrite Hfar in H. cbn [app flat_map] in H.
    destruct (wn_paths out q =? _) eqn:E; [apply Z.eqb_eq in E; exact E|discriminate].
  - apply IH; [|exact Hq].
    destruct (far_from tn td (edges_closed (S ++ C)) p); [|exact H].
    cbn [app flat_map] in H. destruct (wn_paths out p =? _); [exact H|discriminate].
Qed.
