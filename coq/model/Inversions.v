(* C10 -- the intersection machinery of the sweep (clipper.engine.cpp):

     BuildIntersectList   (~2391-2447)  bottom-up merge sort of the SEL by curr_x over `jump`-linked runs; whenever an
                                        element of the right run is moved in front of the remaining elements of the left
                                        run, one IntersectNode is recorded for each of them (AddNewIntersectNode).
     ProcessIntersectList (~2449-2481)  std::sort by IntersectListSort, then for each position: if the node's edges are
                                        not adjacent in the AEL scan FORWARD (no end test in the code) for the first node
                                        whose edges are, swap it into place, IntersectEdges, SwapPositionsInAEL.

   The model mirrors the loops that exist.  An Active is represented by (identity, curr_x); the AEL/SEL by a list.
   Every place where the C++ would leave its data structure is an explicit error value:
     ScanOverrun   the forward scan reached intersect_nodes_.end()            (out-of-bounds read in the code)
     SwapPrecond   SwapPositionsInAEL(e1,e2) called with e1 not immediately left of e2   (AEL links corrupted)
     OutOfFuel     a fuelled loop ran out of fuel
   The theorems (proofs/Inversions.v, props/Properties_C10.v) show that none of them can occur. *)
From Coq Require Import ZArith List Bool Arith Lia.
Import ListNotations.
Local Open Scope Z_scope.

(* ------------------------------------------------------------------ inversions of a list w.r.t. a key *)
Section Inv.
  Context {A : Type} (key : A -> Z).

  (* (a, b): a occurs before b and key b < key a.  Listed once per pair of positions. *)
  Fixpoint inv_pairs (l : list A) : list (A * A) :=
    match l with
    | [] => []
    | a :: t => map (pair a) (filter (fun b => key b <? key a) t) ++ inv_pairs t
    end.

  (* inversions between an element of p and a later element of l *)
  Definition cross_pairs (p l : list A) : list (A * A) :=
    flat_map (fun a => map (pair a) (filter (fun b => key b <? key a) l)) p.

  Definition key_le (a b : A) : Prop := key a <= key b.
End Inv.

(* ------------------------------------------------------------------ BuildIntersectList *)
Definition elt := (nat * Z)%type.             (* (identity of the Active, curr_x at the top of the scanbeam) *)
Definition eid (e : elt) : nat := fst e.
Definition ex (e : elt) : Z := snd e.
Definition node := (elt * elt)%type.          (* IntersectNode (edge1, edge2) *)

(* the inner `while (left != l_end && right != r_end)` loop: L = [left, l_end), R = [right, r_end).
   right->curr_x < left->curr_x : nodes (tmp, right) for tmp = right->prev_in_sel back to left, i.e. for the remaining
   elements of L in REVERSE order; right is moved in front of left; otherwise left advances. *)
Fixpoint merge (L : list elt) : list elt -> list elt * list node :=
  fix merge_R (R : list elt) : list elt * list node :=
    match L, R with
    | [], _ => (R, [])
    | _, [] => (L, [])
    | a :: L', b :: R' =>
        if ex b <? ex a
        then let '(m, ns) := merge_R R' in (b :: m, map (fun t => (t, b)) (rev L) ++ ns)
        else let '(m, ns) := merge L' R in (a :: m, ns)
    end.

(* the inner `while (left && left->jump)` loop: merges runs pairwise, a trailing odd run is left alone *)
Fixpoint pass (runs : list (list elt)) : list (list elt) * list node :=
  match runs with
  | r1 :: r2 :: rest =>
      let '(m, ns) := merge r1 r2 in
      let '(rs, ns') := pass rest in (m :: rs, ns ++ ns')
  | _ => (runs, [])
  end.

(* the outer `while (left && left->jump)` loop: until a single run is left *)
Fixpoint passes (fuel : nat) (runs : list (list elt)) : option (list (list elt) * list node) :=
  match runs with
  | [] | [_] => Some (runs, [])
  | _ =>
      match fuel with
      | O => None
      | S f =>
          let '(rs, ns) := pass runs in
          match passes f rs with
          | Some (rs', ns') => Some (rs', ns ++ ns')
          | None => None
          end
      end
  end.

(* result: (final SEL order, intersect_nodes_ in emission order); None = out of fuel *)
Definition build_intersect_list (l : list elt) : option (list elt * list node) :=
  match passes (length l) (map (fun e => [e]) l) with
  | Some (rs, ns) => Some (concat rs, ns)
  | None => None
  end.

(* ------------------------------------------------------------------ ProcessIntersectList (identities only) *)
Definition inode := (nat * nat)%type.

(* EdgesAdjacentInAEL: edge1->next_in_ael == edge2 || edge1->prev_in_ael == edge2 *)
Fixpoint adjacent (ael : list nat) (a b : nat) : bool :=
  match ael with
  | x :: ((y :: _) as t) =>
      ((x =? a)%nat && (y =? b)%nat) || ((x =? b)%nat && (y =? a)%nat) || adjacent t a b
  | _ => false
  end.

(* SwapPositionsInAEL(e1, e2); "precondition: e1 must be immediately to the left of e2" -- None when violated *)
Fixpoint swap_adj (ael : list nat) (a b : nat) : option (list nat) :=
  match ael with
  | x :: ((y :: t') as t) =>
      if (x =? a)%nat && (y =? b)%nat then Some (y :: x :: t')
      else option_map (cons x) (swap_adj t a b)
  | _ => None
  end.

(* index (relative to node_iter) of the first node whose edges are adjacent; None = the scan left the vector *)
Fixpoint find_adj (ael : list nat) (ns : list inode) : option nat :=
  match ns with
  | [] => None
  | (a, b) :: t => if adjacent ael a b then Some O else option_map S (find_adj ael t)
  end.

Fixpoint set_nth {X} (n : nat) (l : list X) (v : X) : list X :=
  match l, n with
  | [], _ => []
  | _ :: t, O => v :: t
  | h :: t, S n' => h :: set_nth n' t v
  end.

(* std::swap of the nodes at node_iter and node_iter2 = node_iter + j *)
Definition swap_nodes (ns : list inode) (j : nat) : list inode :=
  match ns, j with
  | n0 :: t, S j' => nth j' t n0 :: set_nth j' t n0
  | _, _ => ns
  end.

Inductive perr := ScanOverrun | SwapPrecond | OutOfFuel.

Record presult := mkP {
  p_ael : list nat;             (* AEL order afterwards *)
  p_order : list inode;         (* nodes in the order they were processed (= intersect_nodes_ afterwards) *)
  p_scans : list (nat * nat)    (* per step: (index found by the scan, number of nodes remaining) *)
}.

Fixpoint process (fuel : nat) (ael : list nat) (ns : list inode) : presult + perr :=
  match ns with
  | [] => inl (mkP ael [] [])
  | _ =>
      match fuel with
      | O => inr OutOfFuel
      | S f =>
          match find_adj ael ns with
          | None => inr ScanOverrun
          | Some j =>
              match swap_nodes ns j with
              | (a, b) :: rest =>
                  match swap_adj ael a b with
                  | None => inr SwapPrecond
                  | Some ael' =>
                      match process f ael' rest with
                      | inl r => inl (mkP (p_ael r) ((a, b) :: p_order r) ((j, length ns) :: p_scans r))
                      | inr e => inr e
                      end
                  end
              | [] => inr OutOfFuel
              end
          end
      end
  end.

Definition process_intersect_list (ael : list nat) (ns : list inode) : presult + perr :=
  process (length ns) ael ns.

(* IntersectListSort: (a.pt.y == b.pt.y) ? (a.pt.x < b.pt.x) : (a.pt.y > b.pt.y); keys are (pt.x, pt.y).
   std::sort is not stable: the model below is only used for the exact tie when all keys are distinct; the safety
   theorem quantifies over EVERY permutation of the node list. *)
Definition isect_lt (a b : Z * Z) : bool :=
  if snd a =? snd b then fst a <? fst b else snd b <? snd a.

Fixpoint insert_node (n : inode * (Z * Z)) (l : list (inode * (Z * Z))) : list (inode * (Z * Z)) :=
  match l with
  | [] => [n]
  | h :: t => if isect_lt (snd h) (snd n) || negb (isect_lt (snd n) (snd h)) then h :: insert_node n t else n :: l
  end.

Definition sort_nodes (l : list (inode * (Z * Z))) : list (inode * (Z * Z)) :=
  fold_left (fun acc n => insert_node n acc) l [].

Fixpoint keys_distinct (l : list (Z * Z)) : bool :=
  match l with
  | [] => true
  | k :: t => negb (existsb (fun k' => (fst k =? fst k') && (snd k =? snd k')) t) && keys_distinct t
  end.

(* independent checker for an observed processing order: every step swaps two edges that are adjacent, left one first *)
Fixpoint check_schedule (ael : list nat) (order : list inode) : option (list nat) :=
  match order with
  | [] => Some ael
  | (a, b) :: t => match swap_adj ael a b with Some ael' => check_schedule ael' t | None => None end
  end.

Definition ids (l : list elt) : list nat := map eid l.
Definition node_ids (ns : list node) : list inode := map (fun n => (eid (fst n), eid (snd n))) ns.

(* ------------------------------------------------------------------ sanity *)
Example build_ex :
  build_intersect_list [(0%nat, 5); (1%nat, 3); (2%nat, 4); (3%nat, 1)] =
  Some ([(3%nat, 1); (1%nat, 3); (2%nat, 4); (0%nat, 5)],
        [((0%nat, 5), (1%nat, 3)); ((2%nat, 4), (3%nat, 1));
         ((0%nat, 5), (3%nat, 1)); ((1%nat, 3), (3%nat, 1)); ((0%nat, 5), (2%nat, 4))]).
Proof. reflexivity. Qed.

Example process_ex :
  match process_intersect_list [0; 1; 2; 3]%nat [(0, 3); (0, 1); (2, 3); (1, 3); (0, 2)]%nat with
  | inl r => p_ael r = [3; 1; 2; 0]%nat /\ p_scans r = [(1, 5); (1, 4); (0, 3); (0, 2); (0, 1)]%nat
  | inr _ => False
  end.
Proof. cbv. split; reflexivity. Qed.

Example process_overrun_ex :   (* a node set that is NOT the inversion set: the scan runs off the end *)
  process_intersect_list [0; 1; 2]%nat [(0, 2)]%nat = inr ScanOverrun.
Proof. reflexivity. Qed.
