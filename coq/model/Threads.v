(* C14 -- independent objects used from different threads.

   Threads are deterministic step functions.  The *isolation premise* is built into the types: the step of thread t
   is a function of t's private store and of a shared store that nobody can write -- it has no access to any other
   thread's store and there is no shared mutable store at all.  Under that premise every interleaving gives each
   thread the result it computes alone, and two conflicting accesses always belong to the same thread.

   The premise is a statement about the library: (a) it keeps no mutable object outside the objects a caller creates,
   (b) what clippers share -- the vertices and minima of a ReuseableDataContainer64 -- is not written while clipping.
   Both are discharged against tables regenerated from the current source on every run (cpp2v/tables.py):
   [immutable] over Gen_globals.table and [shared_write_ok] over Gen_fields.shared_writes, and validated by the
   ThreadSanitizer stress of harness/cx_threads.cpp and by the symbol table of the compiled translation units. *)
From Coq Require Import List Bool String NArith Arith Lia.
From Clip Require Import gen.Gen_globals gen.Gen_fields.
Import ListNotations.

Section Threads.
  Variables (P R : Type).                       (* a thread's private store; the shared read-only store *)
  Variable step : nat -> R -> P -> option P.    (* thread id, shared store, own store -> next own store; None = finished *)

  Definition pstate := nat -> P.
  Definition upd (s : pstate) (t : nat) (p : P) : pstate := fun u => if Nat.eqb u t then p else s u.

  (* one scheduling decision: thread t performs its next step (nothing happens when it has finished) *)
  Definition sched_step (r : R) (s : pstate) (t : nat) : pstate :=
    match step t r (s t) with Some p => upd s t p | None => s end.

  Definition run (r : R) (sched : list nat) (s0 : pstate) : pstate := fold_left (sched_step r) sched s0.

  (* thread t on its own, for at most n steps *)
  Fixpoint iter (t : nat) (r : R) (n : nat) (p : P) : P :=
    match n with
    | O => p
    | S n' => match step t r p with Some p' => iter t r n' p' | None => p end
    end.

  Definition finished (r : R) (s : pstate) (t : nat) : Prop := step t r (s t) = None.
  (* a schedule is complete for a set of threads when it lets each of them run to the end *)
  Definition complete (r : R) (sched : list nat) (s0 : pstate) (threads : list nat) : Prop :=
    forall t, In t threads -> finished r (run r sched s0) t.
  Definition final_private (s : pstate) (t : nat) : P := s t.

  (* the result of thread t alone: any amount of fuel that lets it finish *)
  Definition run_alone (r : R) (s0 : pstate) (t : nat) (fuel : nat) : P := iter t r fuel (s0 t).
  Definition alone_done (r : R) (s0 : pstate) (t : nat) (fuel : nat) : Prop := step t r (run_alone r s0 t fuel) = None.

  (** Accesses.  A step can read the shared store, and read or write its own thread's store -- nothing else exists. *)
  Variable loc : Type.
  Inductive access := RdShared (x : loc) | RdPriv (x : loc) | WrPriv (x : loc).
  Inductive gloc := GShared (x : loc) | GPriv (t : nat) (x : loc).
  Definition gloc_of (t : nat) (a : access) : gloc :=
    match a with RdShared x => GShared x | RdPriv x => GPriv t x | WrPriv x => GPriv t x end.
  Definition is_write (a : access) : bool := match a with WrPriv _ => true | _ => false end.

  Variable footprint : nat -> R -> P -> list access.     (* what the next step of thread t touches *)

  (* the accesses of an execution, in schedule order, tagged with the thread that performs them *)
  Fixpoint trace (r : R) (sched : list nat) (s : pstate) : list (nat * access) :=
    match sched with
    | [] => []
    | t :: rest => map (fun a => (t, a)) (footprint t r (s t)) ++ trace r rest (sched_step r s t)
    end.

  Definition conflicting (e1 e2 : nat * access) : Prop :=
    gloc_of (fst e1) (snd e1) = gloc_of (fst e2) (snd e2) /\ (is_write (snd e1) = true \/ is_write (snd e2) = true).
  Definition same_thread (e1 e2 : nat * access) : Prop := fst e1 = fst e2.
End Threads.

(* ------------------------------------------------------------------------------------------------------------ *)
(** * The premise, decided on the regenerated tables *)
Local Open Scope string_scope.

Definition str_in (a : string) (l : list string) : bool := existsb (String.eqb a) l.

(* (1) const / constexpr objects (also those with a dynamic initialiser: written once, before main or under the
       thread-safe guard of a function-local static) *)
Definition declared_const (g : gobj) : bool := g_const g || g_constexpr g.
(* (2) objects that are not declared const but that no function clang sees assigns, modifies through a non-const
       member, passes by non-const reference or takes the address of.  Today: the five `static const char*` error
       strings of clipper.core.h (the *pointer* is not const) *)
Definition never_written (g : gobj) : bool := match g_writes g with [] => true | _ => false end.
(* (3) one object per thread *)
Definition per_thread (g : gobj) : bool := g_thread_local g.
(* (4) the stated exception: the C export layer's registration slots dllCallback64/D (USINGZ builds only), written by
       their setters SetZCallback64/D and by nothing else.  Setting a process-wide callback is not one of the
       operations the property quantifies over (clipping, offsetting, rect clipping, Minkowski on own objects); the
       clipping functions of the export layer only copy the slot. *)
Definition export_callback_exception (g : gobj) : bool :=
  String.eqb (g_file g) "include/clipper2/clipper.export.h" && String.eqb (g_guard g) "USINGZ"
  && str_in (g_name g) ["dllCallback64"; "dllCallbackD"]
  && forallb (fun w => str_in (fst w) ["SetZCallback64"; "SetZCallbackD"] && String.eqb (snd w) "assign") (g_writes g).

Definition immutable (g : gobj) : bool :=
  negb (String.eqb (g_kind g) "unscanned")
  && (declared_const g || never_written g || per_thread g || export_callback_exception g).

Definition mutable_globals : list (string * string * N) :=
  map (fun g => (g_name g, g_file g, g_line g)) (filter (fun g => negb (immutable g)) Gen_globals.table).
(* how many rows rest on which rule (for the evidence) *)
Definition rule_counts : N * N * N * N :=
  let c f := N.of_nat (List.length (filter f Gen_globals.table)) in
  (c declared_const, c (fun g => negb (declared_const g) && never_written g),
   c (fun g => negb (declared_const g) && negb (never_written g) && per_thread g),
   c (fun g => negb (declared_const g) && negb (never_written g) && negb (per_thread g) && export_callback_exception g)).

(* what clippers may share: Vertex, LocalMinima, ReuseableDataContainer64.  No member of these is written by a
   function reachable from Clipper64/ClipperD::Execute or ClipperBase::ExecuteInternal, and Vertex members are written
   only while paths are added. *)
Definition vertex_writers : list string :=
  ["AddPaths_"; "AddLocMin"; "ClipperBase::AddLocMin"; "ReuseableDataContainer64::AddLocMin"].

Definition shared_write_ok (w : swrite) : bool :=
  negb (w_in_execute w)
  && (if String.eqb (w_class w) "Vertex" then str_in (w_fn w) vertex_writers else true).

Definition bad_shared_writes : list (string * string * string) :=
  map (fun w => (w_class w, w_field w, w_fn w)) (filter (fun w => negb (shared_write_ok w)) Gen_fields.shared_writes).

(* the table is about the right thing: Vertex::flags (and the other members) are in it *)
Definition vertex_members_listed : bool :=
  forallb (fun n => existsb (fun p => String.eqb (fst p) "Vertex" && String.eqb (snd p) n) Gen_fields.shared_fields)
          ["pt"; "next"; "prev"; "flags"].
