(* C05 — specification oracle and solution checker for open-path clipping.  Everything is exact:
   integer points, rational parameters along the input segments (Coq's Q, no reduction needed),
   winding numbers at rational points evaluated on integer-scaled copies of the closed paths,
   3/2- and 3-unit tolerances compared by squaring (no square roots), lengths enclosed between
   integer bounds obtained with Z.sqrt (no floating point anywhere).

   Specification (pointwise, from the property text): a point x of an open subject segment belongs to
   the result iff  open_in_result ct fr (wn_paths S x) (wn_paths C x)  (base/Region.v).  The oracle
     1. computes for every open segment o its proper crossings with all closed subject+clip edges as
        parameters t in (0,1) ([cross_par], sorted), cuts [0,1] there ([mk_pieces]),
     2. evaluates the pair of winding numbers at the midpoint of each piece ([classify]; the points at
        1/4 and 3/4 are evaluated as well and must agree — the constancy of wn inside a piece is NOT
        proved here, it is checked on every piece of every case),
     3. merges neighbouring pieces of equal class into maximal runs ([runs_of]); run ends inside a
        segment are the cut points.
   Checks of an implementation's open solution ([check_open]), g = a solution segment (p,q):
     (a) every solution vertex is within 3/2 of some open subject segment; for every g there is ONE
         subject segment s with dist(p,s) <= 3/2 and dist(q,s) <= 3/2.  The 3/2-neighbourhood of a
         segment is convex, so this is equivalent to "every point of g is within 3/2 of s", i.e. the
         literal reading of "every solution segment lies within 1.5 units of an open subject segment"
         (the convexity of the distance to a convex set is used on paper, it is not proved in this development).
     (b) footprint of g on s := the parameter interval between the nearest points of s to p and q.
         extra: g must have a subject segment s (as in (a)) and a KEPT run r of s such that the
         footprint lies in r enlarged by 3 units at each end that is a cut (no enlargement at segment
         ends).  missing: every kept run, shortened by 3 units at each cut end, must be covered by the
         union of the footprints of the solution segments that are valid for that run.
         Every point of a footprint is within 3/2 of g (same convexity argument), so a covered point
         of the subject is within 3/2 of the solution.
     (c) |length(solution) - exact kept length| <= 3 * (number of cuts); both lengths are enclosed in
         integer intervals in units of 2^-32 and a failure is reported only when the enclosures
         prove it. *)
From Clip Require Import base.Geom base.Winding base.Region base.Dist base.GenPos.
From Coq Require Import QArith.
Local Open Scope Z_scope.

Definition seg := (pt * pt)%type.

(* ---------- rational helpers ---------- *)
Definition Qltb (x y : Q) : bool := negb (Qle_bool y x).
Definition Qmaxb (x y : Q) : Q := if Qle_bool x y then y else x.
Definition Qminb (x y : Q) : Q := if Qle_bool x y then x else y.
Definition Qhalf : Q := Qmake 1 2.
Definition Qquarter : Q := Qmake 1 4.
Definition Q3quarter : Q := Qmake 3 4.

(* ---------- crossings of an open segment o = (a,b) with a closed edge e = (c,d) ---------- *)
Definition proper_cross (o e : seg) : bool :=
  let (a, b) := o in let (c, d) := e in
  (Z.sgn (cross a b c) * Z.sgn (cross a b d) <? 0) &&
  (Z.sgn (cross c d a) * Z.sgn (cross c d b) <? 0).

(* parameter of the crossing along o: the zero of the affine function t |-> cross c d (a + t (b - a)),
   f0 / (f0 - f1) with f0 = cross c d a, f1 = cross c d b, written with a positive denominator *)
Definition cross_par (o e : seg) : Q :=
  let (a, b) := o in let (c, d) := e in
  let f0 := cross c d a in let f1 := cross c d b in
  if 0 <? f0 - f1 then Qmake f0 (Z.to_pos (f0 - f1)) else Qmake (- f0) (Z.to_pos (f1 - f0)).

Fixpoint qinsert (x : Q) (l : list Q) : list Q :=
  match l with
  | [] => [x]
  | y :: t => if Qle_bool x y then x :: l else y :: qinsert x t
  end.
Definition qsort (l : list Q) : list Q := fold_right qinsert [] l.

Definition crossings (o : seg) (es : list seg) : list Q :=
  qsort (map (cross_par o) (filter (proper_cross o) es)).

(* cut [lo,1] at the (sorted) parameters ts *)
Fixpoint chain (lo : Q) (ts : list Q) : list (Q * Q) :=
  match ts with
  | [] => [(lo, 1%Q)]
  | t :: r => (lo, t) :: chain t r
  end.
Definition mk_pieces (ts : list Q) : list (Q * Q) := chain 0%Q ts.

(* (used in statements only) consecutive pieces share their end point *)
Fixpoint linked (l : list (Q * Q)) : Prop :=
  match l with
  | a :: ((b :: _) as t) => snd a = fst b /\ linked t
  | _ => True
  end.

(* ---------- winding numbers at rational points ---------- *)
(* the point a + t (b - a) with t = n/d as the integer point d*a + n*(b - a) together with the scale d *)
Definition lerp (o : seg) (t : Q) : pt * Z :=
  let (a, b) := o in
  let n := Qnum t in let d := Zpos (Qden t) in
  ((d * px a + n * (px b - px a), d * py a + n * (py b - py a)), d).

Definition scale_paths (k : Z) (ps : paths) : paths := map (map (pscale k)) ps.

(* winding number of ps around the rational point (fst m)/(snd m): wn is invariant under scaling by a
   positive integer (Winding.wn_scale), so this is the winding number at that point *)
Definition wn_paths_at (ps : paths) (m : pt * Z) : Z := wn_paths (scale_paths (snd m) ps) (fst m).

Definition piece_ws (S C : paths) (o : seg) (t : Q) : Z * Z :=
  let m := lerp o t in (wn_paths_at S m, wn_paths_at C m).

Definition pw_eqb (x y : Z * Z) : bool := (fst x =? fst y) && (snd x =? snd y).

Record piece := { pc_lo : Q; pc_hi : Q; pc_ws : Z; pc_wc : Z; pc_const : bool }.

Definition classify (S C : paths) (o : seg) (iv : Q * Q) : piece :=
  let (t0, t1) := iv in
  let w := piece_ws S C o (Qmult (Qplus t0 t1) Qhalf) in
  let w1 := piece_ws S C o (Qplus (Qmult Q3quarter t0) (Qmult Qquarter t1)) in
  let w3 := piece_ws S C o (Qplus (Qmult Qquarter t0) (Qmult Q3quarter t1)) in
  {| pc_lo := t0; pc_hi := t1; pc_ws := fst w; pc_wc := snd w; pc_const := pw_eqb w w1 && pw_eqb w w3 |}.

Record sseg := { ss_seg : seg; ss_pieces : list piece }.

Definition open_spec (S C O : paths) : list sseg :=
  let es := edges_closed (S ++ C) in
  map (fun o => {| ss_seg := o; ss_pieces := map (classify S C o) (mk_pieces (crossings o es)) |})
      (edges_open O).

Definition spec_consistent (sp : list sseg) : bool :=
  forallb (fun s => forallb pc_const (ss_pieces s)) sp.

(* ---------- maximal runs of equal class for a clip type / fill rule ---------- *)
Record run := { r_lo : Q; r_hi : Q; r_kept : bool; r_locut : bool; r_hicut : bool }.

Definition piece_kept (ct : clip_type) (fr : fill_rule) (p : piece) : bool :=
  open_in_result ct fr (pc_ws p) (pc_wc p).

Fixpoint merge_runs (ct : clip_type) (fr : fill_rule) (cur : run) (ps : list piece) : list run :=
  match ps with
  | [] => [cur]
  | p :: t =>
    let k := piece_kept ct fr p in
    if Bool.eqb k (r_kept cur)
    then merge_runs ct fr {| r_lo := r_lo cur; r_hi := pc_hi p; r_kept := r_kept cur;
                             r_locut := r_locut cur; r_hicut := false |} t
    else {| r_lo := r_lo cur; r_hi := r_hi cur; r_kept := r_kept cur; r_locut := r_locut cur; r_hicut := true |}
         :: merge_runs ct fr {| r_lo := pc_lo p; r_hi := pc_hi p; r_kept := k; r_locut := true; r_hicut := false |} t
  end.

Definition runs_of (ct : clip_type) (fr : fill_rule) (ps : list piece) : list run :=
  match ps with
  | [] => []
  | p :: t => merge_runs ct fr {| r_lo := pc_lo p; r_hi := pc_hi p; r_kept := piece_kept ct fr p;
                                  r_locut := false; r_hicut := false |} t
  end.

Definition spec_runs (ct : clip_type) (fr : fill_rule) (sp : list sseg) : list (seg * list run) :=
  map (fun s => (ss_seg s, runs_of ct fr (ss_pieces s))) sp.

Definition b2z (b : bool) : Z := if b then 1 else 0.

(* number of cuts: run boundaries in the interior of a segment *)
Definition cuts_of (rs : list run) : Z := zsum (map (fun r => b2z (r_hicut r)) rs).

(* ---------- distances, nearest points, margins ---------- *)
(* tolerances: solution vertices within tl_nn/tl_nd of a subject segment, tl_m units around a cut, tl_m units of
   length per cut.  The property fixes them to 3/2, 3 and 3 ([tol_C05]); other values are only used to CLASSIFY a
   failure on huge coordinates (is it explained by the binary64 resolution of the engine's cut points?). *)
Record tols := { tl_nn : Z; tl_nd : Z; tl_m : Z }.
Definition tol_C05 : tols := {| tl_nn := 3; tl_nd := 2; tl_m := 3 |}.

Definition near (tl : tols) (p : pt) (s : seg) : bool := seg_near (tl_nn tl) (tl_nd tl) p s.
Definition seg_len2 (s : seg) : Z := dist2_pp (fst s) (snd s).
Definition near_both (tl : tols) (g s : seg) : bool := near tl (fst g) s && near tl (snd g) s.

(* parameter of the point of s nearest to p *)
Definition foot_par (p : pt) (s : seg) : Q :=
  let (a, b) := s in
  let L := dist2_pp a b in
  let t := (px p - px a) * (px b - px a) + (py p - py a) * (py b - py a) in
  if t <=? 0 then 0%Q else if L <=? t then 1%Q else Qmake t (Z.to_pos L).

Definition footprint (g s : seg) : Q * Q :=
  let f1 := foot_par (fst g) s in let f2 := foot_par (snd g) s in (Qminb f1 f2, Qmaxb f1 f2).

(* x <= y + m / sqrt L when [cut], x <= y otherwise (parameters along a segment of squared length L, m >= 0) *)
Definition le_margin (m L : Z) (cut : bool) (x y : Q) : bool :=
  Qle_bool x y ||
  (cut && Qle_bool (Qmult (Qmult (Qminus x y) (Qminus x y)) (inject_Z L)) (inject_Z (m * m))).
Definition ge_margin (m L : Z) (cut : bool) (x y : Q) : bool := le_margin m L cut y x.

Definition in_ext (m L : Z) (r : run) (fp : Q * Q) : bool :=
  ge_margin m L (r_locut r) (fst fp) (r_lo r) && le_margin m L (r_hicut r) (snd fp) (r_hi r).

Definition valid_for (tl : tols) (g s : seg) (r : run) : bool :=
  near_both tl g s && r_kept r && in_ext (tl_m tl) (seg_len2 s) r (footprint g s).

Inductive gverdict := GOk | GExtra | GOff.

Definition seg_verdict (tl : tols) (sp : list (seg * list run)) (g : seg) : gverdict :=
  if existsb (fun sr => existsb (valid_for tl g (fst sr)) (snd sr)) sp then GOk
  else if existsb (fun sr => near_both tl g (fst sr)) sp then GExtra else GOff.

Definition vertex_near (tl : tols) (sp : list (seg * list run)) (v : pt) : bool :=
  existsb (fun sr => near tl v (fst sr)) sp.

(* ---------- coverage of a kept run by footprints ---------- *)
Definition footprints_for (tl : tols) (gs : list seg) (s : seg) (r : run) : list (Q * Q) :=
  flat_map (fun g => if valid_for tl g s r then [footprint g s] else []) gs.

Definition sweep (ivs : list (Q * Q)) (cur : Q) : Q :=
  fold_left (fun c iv => if Qle_bool (fst iv) c then Qmaxb c (snd iv) else c) ivs cur.

Fixpoint extend (fuel : nat) (ivs : list (Q * Q)) (cur : Q) : Q :=
  match fuel with
  | O => cur
  | S f => let cur' := sweep ivs cur in if Qle_bool cur' cur then cur else extend f ivs cur'
  end.

(* some chain of overlapping intervals leads from a start satisfying start_ok to an end satisfying end_ok *)
Definition covered (start_ok end_ok : Q -> bool) (ivs : list (Q * Q)) : bool :=
  existsb (fun iv => start_ok (fst iv) && end_ok (extend (length ivs) ivs (snd iv))) ivs.

(* (used in statements only) every parameter between lo and hi lies in one of the intervals *)
Definition Cov (ivs : list (Q * Q)) (lo hi : Q) : Prop :=
  forall q, (lo <= q)%Q -> (q <= hi)%Q -> exists iv, In iv ivs /\ (fst iv <= q)%Q /\ (q <= snd iv)%Q.

(* the run is not longer than the margins removed from it: nothing has to be covered *)
Definition run_trivial (m L : Z) (r : run) : bool :=
  let k := b2z (r_locut r) + b2z (r_hicut r) in
  let d := Qminus (r_hi r) (r_lo r) in
  Qle_bool (Qmult (Qmult d d) (inject_Z L)) (inject_Z (m * m * k * k)).

Definition run_covered (tl : tols) (gs : list seg) (s : seg) (r : run) : bool :=
  let L := seg_len2 s in let m := tl_m tl in
  negb (r_kept r) || run_trivial m L r ||
  covered (fun a => le_margin m L (r_locut r) a (r_lo r)) (fun b => ge_margin m L (r_hicut r) b (r_hi r))
          (footprints_for tl gs s r).

(* ---------- lengths: integer enclosures in units of 2^-32 ---------- *)
Definition FB : Z := 4294967296.
Definition sqrt_fb (n : Z) : Z := Z.sqrt (n * FB * FB).     (* floor (2^32 * sqrt n) *)

Definition sol_len (gs : list seg) : Z * Z :=
  fold_left (fun acc g => let r := sqrt_fb (seg_len2 g) in (fst acc + r, snd acc + r + 1)) gs (0, 0).

(* (hi - lo) * sqrt L for hi >= lo *)
Definition run_len (L : Z) (r : run) : Z * Z :=
  let d := Qminus (r_hi r) (r_lo r) in
  let n := Z.max 0 (Qnum d) in let dd := Zpos (Qden d) in
  let sq := sqrt_fb L in
  ((n * sq) / dd, (n * (sq + 1)) / dd + 1).

Definition kept_len (sp : list (seg * list run)) : Z * Z :=
  fold_left (fun acc sr =>
    fold_left (fun acc2 r => if r_kept r then let l := run_len (seg_len2 (fst sr)) r in (fst acc2 + fst l, snd acc2 + snd l) else acc2)
              (snd sr) acc) sp (0, 0).

Definition total_cuts (sp : list (seg * list run)) : Z := zsum (map (fun sr => cuts_of (snd sr)) sp).

(* false only when the enclosures prove |sol - kept| > m * cuts *)
Definition length_ok (m : Z) (sol kept : Z * Z) (cuts : Z) : bool :=
  negb ((m * cuts * FB <? fst sol - snd kept) || (m * cuts * FB <? fst kept - snd sol)).

(* ---------- the whole check ---------- *)
Record report := {
  rp_off_vertex : list pt;          (* (a) solution vertices farther than 3/2 from every open subject segment *)
  rp_off_seg : list seg;            (* (a) solution segments with no single subject segment near both ends *)
  rp_extra : list seg;              (* (b) solution segments lying (partly) over a dropped part *)
  rp_missing : list (seg * run);    (* (b) kept runs not covered *)
  rp_sol_len : Z * Z; rp_kept_len : Z * Z; rp_cuts : Z; rp_len_ok : bool;   (* (c) *)
  rp_kept_runs : Z }.

Definition check_open (tl : tols) (ct : clip_type) (fr : fill_rule) (spec : list sseg) (sol : paths) : report :=
  let sp := spec_runs ct fr spec in
  let gs := edges_open sol in
  let verdicts := map (fun g => (g, seg_verdict tl sp g)) gs in
  let sl := sol_len gs in let kl := kept_len sp in let cuts := total_cuts sp in
  {| rp_off_vertex := filter (fun v => negb (vertex_near tl sp v)) (concat sol);
     rp_off_seg := flat_map (fun gv => match snd gv with GOff => [fst gv] | _ => [] end) verdicts;
     rp_extra := flat_map (fun gv => match snd gv with GExtra => [fst gv] | _ => [] end) verdicts;
     rp_missing := flat_map (fun sr => flat_map (fun r => if run_covered tl gs (fst sr) r then [] else [(fst sr, r)]) (snd sr)) sp;
     rp_sol_len := sl; rp_kept_len := kl; rp_cuts := cuts; rp_len_ok := length_ok (tl_m tl) sl kl cuts;
     rp_kept_runs := zsum (map (fun sr => zsum (map (fun r => b2z (r_kept r)) (snd sr))) sp) |}.

(* ---------- general position including the open paths (hypothesis of C05) ---------- *)
Definition open_tedges_path (pi : nat) (p : path) : list tedge :=
  let es := open_edges p in
  let n := length es in
  map (fun ie => {| te_path := pi; te_idx := fst ie; te_n := S n; te_a := fst (snd ie); te_b := snd (snd ie) |})
      (combine (seq 0 n) es).

Fixpoint open_tedges_from (pi : nat) (O : paths) : list tedge :=
  match O with [] => [] | p :: t => open_tedges_path pi p ++ open_tedges_from (S pi) t end.

Definition open_nondegenerate (p : path) : bool :=
  (2 <=? Z.of_nat (length p)) && forallb (fun e => negb (pt_eqb (fst e) (snd e))) (open_edges p).

(* Cl = closed subject ++ clip paths.  Open vertices >= 3 from every closed edge, closed vertices >= 3 from
   every open segment, every open x closed proper crossing >= 3 from every other closed edge
   (GenPos.crossing_ok with the open segment tagged as an edge of an extra path). *)
Definition gp_open (Cl O : paths) : bool :=
  let ces := tag_paths Cl in
  let oes := open_tedges_from (length Cl) O in
  forallb open_nondegenerate O
  && forallb (fun v => forallb (fun e => seg_far tol3 1 v (te_a e, te_b e)) ces) (concat O)
  && forallb (fun e => forallb (fun o => seg_far tol3 1 (te_a e) (te_a o, te_b o)) oes) ces
  && forallb (fun o => forallb (fun e => crossing_ok ces o e) ces) oes.

Definition general_position_open (S C O : paths) : bool :=
  general_position (S ++ C) && gp_open (S ++ C) O.

(* The vertex rule of general position among the open segments: every open vertex is >= 3 units from every open
   segment it is not an end of by index (proper self-crossings are allowed).  False for 180-degree spikes, first = last
   loops, collinear overlaps.  Part of the strict class [general_position_C05] below. *)
Definition open_self_clear (O : paths) : bool :=
  let oes := open_tedges_from 0 O in
  forallb (fun ip =>
    forallb (fun iv =>
      forallb (fun f => (Nat.eqb (te_path f) (fst ip) && (Nat.eqb (te_idx f) (fst iv) || Nat.eqb (S (te_idx f)) (fst iv)))
                        || seg_far tol3 1 (snd iv) (te_a f, te_b f)) oes)
      (combine (seq 0 (length (snd ip))) (snd ip)))
    (combine (seq 0 (length O)) O).

(* The STRICT input class of the C05 validation is general position of the WHOLE input (inputs whose closed paths are in
   general position but whose open polylines are not are judged by [check_open_robust] further down), all edges alike, in the sense the property set defines the term (C01): every input vertex
   and every pairwise proper crossing is >= 3 units from every input edge it does not lie on by construction - no touching,
   no overlapping collinear edges, no three edges through one point.  Beyond [general_position_open] (closed paths among
   themselves, open against closed) this asks
     [open_self_clear]: the same vertex rule among the open segments (false for a polyline that folds back on itself,
                        first = last loops, collinear overlaps), and
     [gp_joint]:        every proper crossing of two non-adjacent input edges of ANY kind (closed x closed, open x closed,
                        open x open) is >= 3 units from every third input edge, open or closed.
   Proper self-crossings of the open polylines are in general position and stay in. *)
Definition gp_joint (Cl O : paths) : bool :=
  let all := tag_paths Cl ++ open_tedges_from (length Cl) O in
  forall_pairs (fun e f => adjacent e f || crossing_ok all e f) all.

Definition open_general (Cl O : paths) : bool := open_self_clear O && gp_joint Cl O.

Definition general_position_C05 (S C O : paths) : bool :=
  general_position_open S C O && open_general (S ++ C) O.

(* ---------- the broader judged class: closed paths in general position, open polylines arbitrary ---------- *)
(* Reading "closed subject and clip paths in general position, open polylines arbitrary" of the quantifier: open vertices may
   lie within 3 units of (or on) closed edges, crossings may be close together, polylines may fold back.  There the exact
   piece structure above is not robust (the engine may legitimately place, merge or invent cuts inside the tolerance), so
   such inputs are judged POINTWISE and only where no reading of the tolerances can excuse a disagreement:
   a point of the plane at least [delta_rob] = 3 units from every closed edge lies in one cell of the arrangement together
   with everything within 3 units of it, and open_in_result of its two winding numbers says whether open subjects survive
   there.  With S, C the closed paths:
     missing: a sample point x of an open subject segment (1/4, 1/2, 3/4 of every piece between proper crossings) that is
              >= 3 from every closed edge, lies where subjects survive, and has no solution segment within 2 units;
     extra  : a point y of a solution segment (both ends, 1/4, 1/2, 3/4) that is >= 3 from every closed edge and lies where
              subjects do not survive;
     off    : a solution vertex farther than 3/2 from every subject segment (the literal clause), a solution segment with
              one of its 1/4, 1/2, 3/4 points farther than 3/2 from every subject segment.
   No length clause (the number of cuts is not well defined there).  These tests are also sound in the strict class, where
   the sharper run-based tests of [check_open] are used instead. *)
Definition delta_rob : Z := 3.

(* winding numbers (closed subject, clip) at the rational point (fst m)/(snd m) when it is >= delta_rob from every closed edge *)
Definition robust_at (S C : paths) (m : pt * Z) : option (Z * Z) :=
  let k := snd m in
  if far_from (delta_rob * k) 1 (edges_closed (scale_paths k (S ++ C))) (fst m)
  then Some (wn_paths_at S m, wn_paths_at C m) else None.

(* per open segment: the sample parameters with their integer-scaled points and robust winding numbers *)
Definition sample_pars (iv : Q * Q) : list Q :=
  let (t0, t1) := iv in
  [Qplus (Qmult Q3quarter t0) (Qmult Qquarter t1); Qmult (Qplus t0 t1) Qhalf; Qplus (Qmult Qquarter t0) (Qmult Q3quarter t1)].

Record sample := { sm_t : Q; sm_pt : pt * Z; sm_w : option (Z * Z) }.

Definition open_samples (S C O : paths) : list (seg * list sample) :=
  let es := edges_closed (S ++ C) in
  map (fun o => (o, map (fun t => let m := lerp o t in {| sm_t := t; sm_pt := m; sm_w := robust_at S C m |})
                        (flat_map sample_pars (mk_pieces (crossings o es)))))
      (edges_open O).

Definition survives (ct : clip_type) (fr : fill_rule) (w : option (Z * Z)) : option bool :=
  match w with Some (ws, wc) => Some (open_in_result ct fr ws wc) | None => None end.

(* the points of a solution segment in 4-fold coordinates: ends and quarter points *)
Definition seg_pts4 (g : seg) : list pt :=
  let (p, q) := g in
  [pscale 4 p; padd (pscale 3 p) q; padd (pscale 2 p) (pscale 2 q); padd p (pscale 3 q); pscale 4 q].
Definition seg_inner4 (g : seg) : list pt :=
  let (p, q) := g in [padd (pscale 3 p) q; padd (pscale 2 p) (pscale 2 q); padd p (pscale 3 q)].
Definition scale_seg (k : Z) (s : seg) : seg := (pscale k (fst s), pscale k (snd s)).

Definition check_open_robust (ct : clip_type) (fr : fill_rule) (S C : paths) (smp : list (seg * list sample)) (sol : paths) : report :=
  let gs := edges_open sol in
  let subj := map fst smp in
  let subj4 := map (scale_seg 4) subj in
  let missing :=
    flat_map (fun ss => flat_map (fun x =>
      match survives ct fr (sm_w x) with
      | Some true =>
          let k := snd (sm_pt x) in
          if existsb (fun g => seg_near (2 * k) 1 (fst (sm_pt x)) (scale_seg k g)) gs then []
          else [(fst ss, {| r_lo := sm_t x; r_hi := sm_t x; r_kept := true; r_locut := false; r_hicut := false |})]
      | _ => []
      end) (snd ss)) smp in
  let robust_kept := zsum (map (fun ss => zsum (map (fun x => match survives ct fr (sm_w x) with Some true => 1 | _ => 0 end) (snd ss))) smp) in
  {| rp_off_vertex := filter (fun v => negb (existsb (fun s => seg_near 3 2 v s) subj)) (concat sol);
     rp_off_seg := filter (fun g => negb (forallb (fun y => existsb (fun s => seg_near 6 1 y s) subj4) (seg_inner4 g))) gs;
     rp_extra := filter (fun g => existsb (fun y => match survives ct fr (robust_at S C (y, 4)) with Some false => true | _ => false end)
                                          (seg_pts4 g)) gs;
     rp_missing := missing;
     rp_sol_len := (0, 0); rp_kept_len := (0, 0); rp_cuts := 0; rp_len_ok := true;
     rp_kept_runs := robust_kept |}.

(* the broader judged class *)
Definition judged_broad (S C O : paths) : bool := general_position (S ++ C) && forallb open_nondegenerate O.

(* ---------- comparing two closed solutions as regions (used when (d) finds different paths) ---------- *)
Definition wn_diff (tn td : Z) (A B : paths) (pts : list pt) : list pt :=
  let es := edges_closed (A ++ B) in
  filter (fun q => far_from tn td es q && negb (wn_paths A q =? wn_paths B q)) pts.

(* ---------- sanity examples ---------- *)
Definition sq10 : path := [(0,0);(10,0);(10,10);(0,10)].
Example ex_runs :
  map (fun r => (r_kept r, r_locut r, r_hicut r))
      (runs_of Intersection NonZero (ss_pieces (hd {| ss_seg := ((0,0),(0,0)); ss_pieces := [] |}
         (open_spec [] [sq10] [[(-5,5);(15,5)]]))))
  = [(false, false, true); (true, true, true); (false, true, false)].
Proof. vm_compute. reflexivity. Qed.
Example ex_gp : general_position_open [] [sq10] [[(-5,5);(15,5)]] = true.
Proof. vm_compute. reflexivity. Qed.
Example ex_self : (open_self_clear [[(0,0);(50,0);(50,40)]], open_self_clear [[(0,0);(50,0);(20,0)]],
                   open_self_clear [[(0,0);(50,0);(50,40);(0,0)]], open_self_clear [[(0,0);(50,0);(50,40);(20,-30)]])
                  = (true, false, false, true).
Proof. vm_compute. reflexivity. Qed.
Example ex_gp_C05 : (general_position_C05 [] [sq10] [[(-5,5);(15,5)]],
                     general_position_C05 [] [[(40,-10);(60,-10);(60,16);(40,16)]] [[(0,40);(100,10);(0,10);(90,10);(95,40)]],   (* folds back *)
                     general_position_open [] [[(40,-10);(60,-10);(60,16);(40,16)]] [[(0,40);(100,10);(0,10);(90,10);(95,40)]],
                     general_position_C05 [] [sq10] [[(-5,5);(15,5);(15,-5);(5,-5);(5,15)]],                                     (* proper self-crossing *)
                     general_position_C05 [] [[(0,0);(40,0);(40,40);(0,40)]] [[(-10,5);(50,35)]; [(-10,35);(50,5)]],          (* open x open crossing at (20,20) *)
                     general_position_C05 [] [[(0,0);(40,0);(40,40);(0,40)]] [[(10,30);(30,50)]; [(10,50);(30,30)]])          (* open x open crossing on the edge y = 40 *)
                    = (true, false, true, true, true, false).
Proof. vm_compute. reflexivity. Qed.
(* seed-like input: an open vertex one unit inside the clip boundary it has just crossed; the piece (cut, vertex, end) dropped *)
Example ex_robust :
  let C := [[(0,0);(300,0);(300,250);(0,250)]] in let O := [[(-104,50);(1,100);(200,180)]] in
  let smp := open_samples [] C O in
  (judged_broad [] C O, general_position_open [] C O,
   length (rp_missing (check_open_robust Intersection NonZero [] C smp [])),
   length (rp_missing (check_open_robust Intersection NonZero [] C smp [[(0,100);(1,100);(200,180)]])),
   length (rp_extra (check_open_robust Intersection NonZero [] C smp [[(-104,50);(1,100);(200,180)]])),
   length (rp_extra (check_open_robust Difference NonZero [] C smp [[(-104,50);(0,100)]])))
  = (true, false, 3%nat, 0%nat, 1%nat, 0%nat).
Proof. vm_compute. reflexivity. Qed.
Example ex_gp_bad : general_position_open [] [sq10] [[(-5,5);(12,5)]] = false.
Proof. vm_compute. reflexivity. Qed.
Example ex_check_ok :
  let r := check_open tol_C05 Intersection NonZero (open_spec [] [sq10] [[(-5,5);(15,5)]]) [[(0,5);(10,5)]] in
  (rp_off_vertex r, rp_off_seg r, rp_extra r, rp_missing r, rp_len_ok r, rp_cuts r) = ([], [], [], [], true, 2).
Proof. vm_compute. reflexivity. Qed.
Example ex_check_missing :
  let r := check_open tol_C05 Intersection NonZero (open_spec [] [sq10] [[(-5,5);(15,5)]]) [[(0,5);(5,5)]] in
  (length (rp_missing r), rp_len_ok r) = (1%nat, true).
Proof. vm_compute. reflexivity. Qed.
Example ex_check_extra :
  let r := check_open tol_C05 Intersection NonZero (open_spec [] [sq10] [[(-5,5);(15,5)]]) [[(-5,5);(10,5)]] in
  (length (rp_extra r), length (rp_missing r)) = (1%nat, 1%nat).
Proof. vm_compute. reflexivity. Qed.
