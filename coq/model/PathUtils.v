(* Executable hand models of Clipper2's path utilities (property C20):
     clipper.h       TrimCollinear(Path64,bool)  Length  Ellipse  GetNext GetPrior SimplifyPath  RDP RamerDouglasPeucker
                     TranslatePath
     clipper.core.h  IsCollinear  PerpendicDistFromLineSqrd  Sqr  NearEqual  StripNearEqual  StripDuplicates  GetBounds
   The models mirror the code that exists: index based, every read/write of path[], flags[], distSqr[], dst[] is
   bounds checked ([ErrOOB]), every while/for(;;) loop and the recursion of RDP is fuelled ([ErrFuel]).
   int64 values are unbounded Z (the differences taken by IsCollinear / PerpendicDistFromLineSqrd do not overflow
   for |coordinates| <= 2^62), doubles are Coq primitive floats.  The distance function and the comparisons used by
   SimplifyPath and RDP are Section variables ([Section Generic]) and are instantiated with the binary64 code
   below, so theorems about the loops do not depend on floating point behaviour.
   Tied to the C++ by exact comparison on generated inputs (checks/C20.py, harness/cx_pathutils.cpp). *)
From Coq Require Import ZArith List Bool Lia Floats.
From Clip Require Import base.Geom base.FloatModel.
Import ListNotations.
Local Open Scope nat_scope.

(* ------------------------------------------------------------------ result monad *)
Inductive res (A : Type) : Type := Ok (a : A) | ErrOOB | ErrFuel.
Arguments Ok {A} a.
Arguments ErrOOB {A}.
Arguments ErrFuel {A}.

Definition bind {A B} (r : res A) (f : A -> res B) : res B :=
  match r with Ok a => f a | ErrOOB => ErrOOB | ErrFuel => ErrFuel end.
Notation "x <- e ;; k" := (bind e (fun x => k)) (at level 61, e at next level, right associativity).

(* bounds-checked read and write *)
Definition rd {A} (l : list A) (i : nat) : res A :=
  match nth_error l i with Some a => Ok a | None => ErrOOB end.

Fixpoint upd {A} (l : list A) (i : nat) (v : A) : res (list A) :=
  match l, i with
  | [], _ => ErrOOB
  | _ :: t, O => Ok (v :: t)
  | x :: t, S j => t' <- upd t j v ;; Ok (x :: t')
  end.

(* ------------------------------------------------------------------ scalar leaves *)
(* IsCollinear(pt1, sharedPt, pt2): ProductsAreEqual(a,b,c,d) is exact (128-bit) for int64 operands *)
Definition is_collinear (p1 sh p2 : pt) : bool :=
  let a := (px sh - px p1)%Z in
  let b := (py p2 - py sh)%Z in
  let c := (py sh - py p1)%Z in
  let d := (px p2 - px sh)%Z in
  (a * b =? c * d)%Z.

Definition fsqr (x : float) : float := (x * x)%float.

(* static_cast<double>(int64_t): the hardware conversion for |z| < 2^62, [Z2F] otherwise.
   Equal to [FloatModel.Z2F] for every z (proofs/PathUtilsFloat.v, [Z2Ff_eq]); it only makes the
   extracted model fast enough for exhaustive enumeration. *)
Definition Z2Ff (z : Z) : float :=
  if (Z.abs z <? 4611686018427387904)%Z then
    if (0 <=? z)%Z then of_uint63 (Uint63.of_Z z) else (- of_uint63 (Uint63.of_Z (- z)))%float
  else Z2F z.

(* Sqr<int64_t>(val) = static_cast<double>(val) * static_cast<double>(val) *)
Definition sqr_i64 (z : Z) : float := fsqr (Z2Ff z).

(* PerpendicDistFromLineSqrd<int64_t>(pt, line1, line2) *)
Definition perp_d2 (p l1 l2 : pt) : float :=
  let a := Z2Ff (px p - px l1) in
  let b := Z2Ff (py p - py l1) in
  let c := Z2Ff (px l2 - px l1) in
  let d := Z2Ff (py l2 - py l1) in
  if (c =? 0)%float && (d =? 0)%float then 0%float
  else (fsqr (a * d - c * b) / (c * c + d * d))%float.

(* DistanceSqr / Distance <int64_t> *)
Definition dist_sqr (a b : pt) : float := (sqr_i64 (px a - px b) + sqr_i64 (py a - py b))%float.
Definition distance (a b : pt) : float := PrimFloat.sqrt (dist_sqr a b).

(* NearEqual<int64_t>(p1,p2,max_dist_sqrd) *)
Definition near_equal (a b : pt) (maxd : float) : bool := (dist_sqr a b <? maxd)%float.

Definition MAX_DBL : float := 0x1.fffffffffffffp+1023%float.
Definition PI_DBL : float := 0x1.921fb54442d18p+1%float.   (* 3.141592653589793238 *)

(* ------------------------------------------------------------------ TrimCollinear(const Path64&, bool) *)
(* while (srcIt != stop && IsCollinear( *stop, *srcIt, * (srcIt + 1))) ++srcIt; *)
Fixpoint trim_lead (fuel : nat) (p : path) (src stop : nat) : res nat :=
  match fuel with
  | O => ErrFuel
  | S f =>
    if src =? stop then Ok src else
    a <- rd p stop ;; b <- rd p src ;; c <- rd p (S src) ;;
    if is_collinear a b c then trim_lead f p (S src) stop else Ok src
  end.

(* while (srcIt != stop && IsCollinear( * (stop - 1), *stop, *srcIt)) --stop; *)
Fixpoint trim_tail (fuel : nat) (p : path) (src stop : nat) : res nat :=
  match fuel with
  | O => ErrFuel
  | S f =>
    if src =? stop then Ok stop else
    match stop with
    | O => ErrOOB                                   (* stop - 1 before begin() *)
    | S s1 =>
      a <- rd p s1 ;; b <- rd p stop ;; c <- rd p src ;;
      if is_collinear a b c then trim_tail f p src s1 else Ok stop
    end
  end.

(* for (; srcIt != stop; ++srcIt)
     if (!IsCollinear( *prevIt, *srcIt, * (srcIt + 1))) { prevIt = srcIt; dst.emplace_back( *prevIt); } *)
Fixpoint trim_main (fuel : nat) (p : path) (prev src stop : nat) (dst : path) : res (nat * path) :=
  match fuel with
  | O => ErrFuel
  | S f =>
    if src =? stop then Ok (prev, dst) else
    a <- rd p prev ;; b <- rd p src ;; c <- rd p (S src) ;;
    if negb (is_collinear a b c) then trim_main f p src (S src) stop (dst ++ [b])
    else trim_main f p prev (S src) stop dst
  end.

(* while (dst.size() > 2 && IsCollinear(dst[dst.size() - 1], dst[dst.size() - 2], dst[0])) dst.pop_back(); *)
Fixpoint trim_seam (fuel : nat) (dst : path) : res path :=
  match fuel with
  | O => ErrFuel
  | S f =>
    let n := length dst in
    if 2 <? n then
      a <- rd dst (n - 1) ;; b <- rd dst (n - 2) ;; c <- rd dst 0 ;;
      if is_collinear a b c then trim_seam f (removelast dst) else Ok dst
    else Ok dst
  end.

Definition trim_collinear (p : path) (is_open : bool) : res path :=
  let len := length p in
  if len <? 3 then
    if negb is_open || (len <? 2) then Ok [] else Ok p
  else
    let stop0 := len - 1 in
    ss <- (if negb is_open then
             s <- trim_lead (S len) p 0 stop0 ;;
             e <- trim_tail (S len) p s stop0 ;;
             Ok (s, e)
           else Ok (0, stop0)) ;;
    let '(src, stop) := ss in
    if negb is_open && (src =? stop) then Ok [] else
    a <- rd p src ;;
    r <- trim_main (S len) p src (S src) stop [a] ;;
    let '(prev, dst) := r in
    if is_open then z <- rd p stop ;; Ok (dst ++ [z])            (* srcIt == stop here *)
    else
      a <- rd p prev ;; b <- rd p stop ;; c <- rd dst 0 ;;
      if negb (is_collinear a b c) then Ok (dst ++ [b])
      else d <- trim_seam (S len) dst ;; if length d <? 3 then Ok [] else Ok d.

(* ------------------------------------------------------------------ GetNext / GetPrior *)
(* while (current <= high && flags[current]) ++current; *)
Fixpoint scan_up (fuel c high : nat) (flags : list bool) : res nat :=
  match fuel with
  | O => ErrFuel
  | S f =>
    if c <=? high then b <- rd flags c ;; if b then scan_up f (S c) high flags else Ok c
    else Ok c
  end.

(* while (flags[current]) ++current; *)
Fixpoint scan_up_nl (fuel c : nat) (flags : list bool) : res nat :=
  match fuel with
  | O => ErrFuel
  | S f => b <- rd flags c ;; if b then scan_up_nl f (S c) flags else Ok c
  end.

Definition get_next (current high : nat) (flags : list bool) : res nat :=
  c <- scan_up (S (S high)) (S current) high flags ;;
  if c <=? high then Ok c else scan_up_nl (S (S high)) 0 flags.

(* while (current > 0 && flags[current]) --current; *)
Fixpoint scan_down (fuel c : nat) (flags : list bool) : res nat :=
  match fuel with
  | O => ErrFuel
  | S f =>
    if 0 <? c then b <- rd flags c ;; if b then scan_down f (c - 1) flags else Ok c
    else Ok c
  end.

(* while (flags[current]) --current;   (size_t: decrementing 0 wraps, the next read is out of bounds) *)
Fixpoint scan_down_nl (fuel c : nat) (flags : list bool) : res nat :=
  match fuel with
  | O => ErrFuel
  | S f =>
    b <- rd flags c ;;
    if b then match c with O => ErrOOB | S c' => scan_down_nl f c' flags end else Ok c
  end.

Definition get_prior (current high : nat) (flags : list bool) : res nat :=
  let c0 := if current =? 0 then high else current - 1 in
  c <- scan_down (S (S high)) c0 flags ;;
  b <- rd flags c ;;
  if negb b then Ok c else scan_down_nl (S (S high)) high flags.

(* for (i = 0; i < len; ++i) if (flags[i] == want) result.emplace_back(path[i]);
   (SimplifyPath keeps !flags[i], RamerDouglasPeucker keeps flags[i]) *)
Fixpoint collect {A} (want : bool) (n i : nat) (p : list A) (flags : list bool) : res (list A) :=
  match n with
  | O => Ok []
  | S n' =>
    f <- rd flags i ;;
    if Bool.eqb f want then a <- rd p i ;; r <- collect want n' (S i) p flags ;; Ok (a :: r)
    else collect want n' (S i) p flags
  end.

(* ------------------------------------------------------------------ SimplifyPath / RDP, generic in the distance type *)
Section Generic.
  Variable P : Type.                          (* Point<T> *)
  Variable peqb : P -> P -> bool.             (* operator== on Point<T> *)
  Variable D : Type.
  Variable d2 : P -> P -> P -> D.             (* PerpendicDistFromLineSqrd *)
  Variable ltD leD : D -> D -> bool.          (* operator< and operator<= on double; a > b is ltD b a *)
  Variable dmax dzero : D.                    (* MAX_DBL, 0.0 *)

  Inductive step_res : Type :=
  | Continue (flags : list bool) (dist : list D) (curr : nat)
  | Break (flags : list bool).

  (* do { curr = GetNext(curr, high, flags); } while (curr != start && distSqr[curr] > epsSqr);
     None: curr == start afterwards (the caller breaks) *)
  Fixpoint simp_seek (fuel start curr high : nat) (flags : list bool) (dist : list D) (epsSqr : D)
    : res (option nat) :=
    match fuel with
    | O => ErrFuel
    | S f =>
      c <- get_next curr high flags ;;
      if c =? start then Ok None else
      d <- rd dist c ;;
      if ltD epsSqr d then simp_seek f start c high flags dist epsSqr else Ok (Some c)
    end.

  (* one iteration of the for(;;) loop of SimplifyPath *)
  Definition simp_step (p : list P) (high : nat) (closed : bool) (epsSqr : D)
             (flags : list bool) (dist : list D) (curr : nat) : res step_res :=
    dc <- rd dist curr ;;
    oc <- (if ltD epsSqr dc then simp_seek (S (S high)) curr curr high flags dist epsSqr
           else Ok (Some curr)) ;;
    match oc with
    | None => Ok (Break flags)
    | Some curr =>
      prior <- get_prior curr high flags ;;
      next <- get_next curr high flags ;;
      if next =? prior then Ok (Break flags) else
      dn <- rd dist next ;;
      dc <- rd dist curr ;;
      sel <- (if ltD dn dc then
                n2 <- get_next next high flags ;; Ok (prior, curr, next, n2)
              else
                p2 <- get_prior prior high flags ;; Ok (p2, prior, curr, next)) ;;
      let '(prior2, prior, curr, next) := sel in
      flags <- upd flags curr true ;;
      let curr := next in
      next <- get_next next high flags ;;
      dist <- (if closed || (negb (curr =? high) && negb (curr =? 0)) then
                 a <- rd p curr ;; b <- rd p prior ;; c <- rd p next ;; upd dist curr (d2 a b c)
               else Ok dist) ;;
      dist <- (if closed || (negb (prior =? 0) && negb (prior =? high)) then
                 a <- rd p prior ;; b <- rd p prior2 ;; c <- rd p curr ;; upd dist prior (d2 a b c)
               else Ok dist) ;;
      Ok (Continue flags dist curr)
    end.

  Fixpoint simp_loop (fuel : nat) (p : list P) (high : nat) (closed : bool) (epsSqr : D)
           (flags : list bool) (dist : list D) (curr : nat) : res (list bool) :=
    match fuel with
    | O => ErrFuel
    | S f =>
      s <- simp_step p high closed epsSqr flags dist curr ;;
      match s with
      | Break fl => Ok fl
      | Continue fl ds c => simp_loop f p high closed epsSqr fl ds c
      end
    end.

  (* for (size_t i = 1; i < high; ++i) distSqr[i] = PerpendicDistFromLineSqrd(path[i], path[i - 1], path[i + 1]); *)
  Fixpoint simp_init_mid (n i : nat) (p : list P) (dist : list D) : res (list D) :=
    match n with
    | O => Ok dist
    | S n' =>
      a <- rd p i ;; b <- rd p (i - 1) ;; c <- rd p (S i) ;;
      dist <- upd dist i (d2 a b c) ;;
      simp_init_mid n' (S i) p dist
    end.

  Definition simp_init (p : list P) (closed : bool) : res (list D) :=
    let len := length p in
    let high := len - 1 in
    let dist := repeat dzero len in
    dist <- (if closed then
               a <- rd p 0 ;; b <- rd p high ;; c <- rd p 1 ;;
               dist <- upd dist 0 (d2 a b c) ;;
               a <- rd p high ;; b <- rd p 0 ;; c <- rd p (high - 1) ;;
               upd dist high (d2 a b c)
             else
               dist <- upd dist 0 dmax ;; upd dist high dmax) ;;
    simp_init_mid (high - 1) 1 p dist.

  (* the flags at the end of SimplifyPath (len >= 3) *)
  Definition simp_flags (p : list P) (epsSqr : D) (closed : bool) : res (list bool) :=
    let len := length p in
    dist <- simp_init p closed ;;
    simp_loop (S len) p (len - 1) closed epsSqr (repeat false len) dist 0.

  Definition simplify_gen (p : list P) (epsSqr : D) (closed : bool) : res (list P) :=
    let len := length p in
    if len <? 3 then Ok p else
    flags <- simp_flags p epsSqr closed ;;
    collect false len 0 p flags.

  (* ---- RDP ---- *)
  (* while (end > begin && path[begin] == path[end]) --end; *)
  Fixpoint rdp_shrink (fuel : nat) (p : list P) (begin end_ : nat) : res nat :=
    match fuel with
    | O => ErrFuel
    | S f =>
      if begin <? end_ then
        a <- rd p begin ;; b <- rd p end_ ;;
        if peqb a b then rdp_shrink f p begin (end_ - 1) else Ok end_
      else Ok end_
    end.

  (* for (i = begin + 1; i < end; ++i) { d = PerpendicDistFromLineSqrd(path[i], path[begin], path[end]);
       if (d <= max_d) continue; max_d = d; idx = i; } *)
  Fixpoint rdp_scan (n i : nat) (p : list P) (begin end_ : nat) (idx : nat) (max_d : D) : res (nat * D) :=
    match n with
    | O => Ok (idx, max_d)
    | S n' =>
      a <- rd p i ;; b <- rd p begin ;; c <- rd p end_ ;;
      let d := d2 a b c in
      if leD d max_d then rdp_scan n' (S i) p begin end_ idx max_d
      else rdp_scan n' (S i) p begin end_ i d
    end.

  Fixpoint rdp (fuel : nat) (p : list P) (begin end_ : nat) (epsSqr : D) (flags : list bool) : res (list bool) :=
    match fuel with
    | O => ErrFuel
    | S f =>
      end_ <- rdp_shrink (S (length p)) p begin end_ ;;
      flags <- upd flags end_ true ;;                                  (* flags[end] = true; *)
      im <- rdp_scan (end_ - (begin + 1)) (begin + 1) p begin end_ 0 dzero ;;
      let '(idx, max_d) := im in
      if leD max_d epsSqr then Ok flags else
      flags <- upd flags idx true ;;
      flags <- (if begin + 1 <? idx then rdp f p begin idx epsSqr flags else Ok flags) ;;
      (* idx < end - 1 in size_t: end == 0 wraps to SIZE_MAX *)
      if (if end_ =? 0 then true else idx <? end_ - 1) then rdp f p idx end_ epsSqr flags else Ok flags
    end.

  (* the flags computed by RamerDouglasPeucker (len >= 5) *)
  Definition rdp_flags (p : list P) (epsSqr : D) : res (list bool) :=
    let len := length p in
    flags <- upd (repeat false len) 0 true ;;
    flags <- upd flags (len - 1) true ;;
    rdp (S len) p 0 (len - 1) epsSqr flags.

  Definition rdp_gen (p : list P) (epsSqr : D) : res (list P) :=
    let len := length p in
    if len <? 5 then Ok p else
    flags <- rdp_flags p epsSqr ;;
    collect true len 0 p flags.
End Generic.

Arguments Continue {D}.
Arguments Break {D}.

(* instantiation with the code's own binary64 functions; Sqr(epsilon) = epsilon * epsilon *)
(* const double epsSqr = (std::min)(Sqr(epsilon), MAX_DBL * 0.5);     std::min(a, b) = (b < a) ? b : a *)
Definition HALF_MAX_DBL : float := (MAX_DBL * 0.5)%float.
Definition simp_eps_sqr (epsilon : float) : float :=
  if (HALF_MAX_DBL <? fsqr epsilon)%float then HALF_MAX_DBL else fsqr epsilon.

Definition simplify_path (p : path) (epsilon : float) (closed : bool) : res path :=
  simplify_gen pt float perp_d2 PrimFloat.ltb MAX_DBL 0%float p (simp_eps_sqr epsilon) closed.

Definition rdp_path_flags (p : path) (epsilon : float) : res (list bool) :=
  if length p <? 5 then Ok (repeat true (length p))
  else rdp_flags pt pt_eqb float perp_d2 PrimFloat.leb 0%float p (fsqr epsilon).

Definition rdp_path (p : path) (epsilon : float) : res path :=
  rdp_gen pt pt_eqb float perp_d2 PrimFloat.leb 0%float p (fsqr epsilon).

(* ------------------------------------------------------------------ StripDuplicates / StripNearEqual *)
(* std::unique with operator== : keeps the first element of every run *)
Fixpoint unique_from (last : pt) (l : path) : path :=
  match l with
  | [] => []
  | x :: t => if pt_eqb last x then unique_from last t else x :: unique_from x t
  end.

Definition std_unique (p : path) : path :=
  match p with [] => [] | a :: t => a :: unique_from a t end.

(* while (path.size() > 1 && path.back() == path.front()) path.pop_back(); *)
Fixpoint pop_back_eq (fuel : nat) (l : path) : res path :=
  match fuel with
  | O => ErrFuel
  | S f =>
    if 1 <? length l then
      a <- rd l (length l - 1) ;; b <- rd l 0 ;;
      if pt_eqb a b then pop_back_eq f (removelast l) else Ok l
    else Ok l
  end.

Definition strip_duplicates (p : path) (closed : bool) : res path :=
  let u := std_unique p in
  if closed then pop_back_eq (S (length u)) u else Ok u.

Fixpoint strip_near_from (last : pt) (l : path) (maxd : float) : path :=
  match l with
  | [] => []
  | x :: t => if negb (near_equal x last maxd) then x :: strip_near_from x t maxd
              else strip_near_from last t maxd
  end.

(* while (result.size() > 1 && NearEqual(result.back(), first_pt, max_dist_sqrd)) result.pop_back(); *)
Fixpoint pop_back_near (fuel : nat) (first : pt) (l : path) (maxd : float) : res path :=
  match fuel with
  | O => ErrFuel
  | S f =>
    if 1 <? length l then
      a <- rd l (length l - 1) ;;
      if near_equal a first maxd then pop_back_near f first (removelast l) maxd else Ok l
    else Ok l
  end.

Definition strip_near_equal (p : path) (maxd : float) (closed : bool) : res path :=
  match p with
  | [] => Ok []
  | first :: t =>
    let r := first :: strip_near_from first t maxd in
    if negb closed then Ok r else pop_back_near (S (length r)) first r maxd
  end.

(* StripNearEqual<T> for any point type, given NearEqual(p1, p2, max_dist_sqrd) as a boolean function.  The same
   statements as above ([strip_near_equal] is its int64 instance, proofs/PathUtilsNearGen.v): the forward pass keeps a
   point iff it is not near the last KEPT point, then `while (result.size() > 1 && NearEqual(result.back(), first_pt))
   result.pop_back();` cuts the end of a closed path back for as long as it is near the first point. *)
Section StripNearGen.
  Variable P : Type.
  Variable nearb : P -> P -> bool.
  Fixpoint strip_near_from_g (last : P) (l : list P) : list P :=
    match l with
    | [] => []
    | x :: t => if negb (nearb x last) then x :: strip_near_from_g x t else strip_near_from_g last t
    end.
  Fixpoint pop_back_near_g (fuel : nat) (first : P) (l : list P) : res (list P) :=
    match fuel with
    | O => ErrFuel
    | S f =>
      if 1 <? length l then
        a <- rd l (length l - 1) ;;
        if nearb a first then pop_back_near_g f first (removelast l) else Ok l
      else Ok l
    end.
  Definition strip_near_equal_g (p : list P) (closed : bool) : res (list P) :=
    match p with
    | [] => Ok []
    | first :: t =>
      let r := first :: strip_near_from_g first t in
      if negb closed then Ok r else pop_back_near_g (S (length r)) first r
    end.
End StripNearGen.

(* Point<double>: NearEqual = Sqr(p1.x - p2.x) + Sqr(p1.y - p2.y) < max_dist_sqrd, all in binary64 *)
Definition ptd : Type := (float * float)%type.
Definition near_equal_d (a b : ptd) (maxd : float) : bool :=
  (fsqr (fst a - fst b) + fsqr (snd a - snd b) <? maxd)%float.
Definition strip_near_equal_d (p : list ptd) (maxd : float) (closed : bool) : res (list ptd) :=
  strip_near_equal_g ptd (fun a b => near_equal_d a b maxd) p closed.

(* the Paths<T> overloads apply the single-path function to every path, in order *)
Fixpoint map_res {A B} (f : A -> res B) (l : list A) : res (list B) :=
  match l with
  | [] => Ok []
  | x :: t => y <- f x ;; r <- map_res f t ;; Ok (y :: r)
  end.
Definition strip_near_equal_paths (ps : list path) (maxd : float) (closed : bool) : res (list path) :=
  map_res (fun p => strip_near_equal p maxd closed) ps.
Definition strip_near_equal_paths_d (ps : list (list ptd)) (maxd : float) (closed : bool) : res (list (list ptd)) :=
  map_res (fun p => strip_near_equal_d p maxd closed) ps.
Definition strip_duplicates_paths (ps : list path) (closed : bool) : res (list path) :=
  map_res (fun p => strip_duplicates p closed) ps.

(* ------------------------------------------------------------------ the PathD (Point<double>) instantiations *)
(* operator== on Point<double> *)
Definition ptd_eqb (a b : ptd) : bool := ((fst a =? fst b) && (snd a =? snd b))%float.

(* PerpendicDistFromLineSqrd<double>: the differences are taken in binary64 *)
Definition perp_d2_d (p l1 l2 : ptd) : float :=
  let a := (fst p - fst l1)%float in
  let b := (snd p - snd l1)%float in
  let c := (fst l2 - fst l1)%float in
  let d := (snd l2 - snd l1)%float in
  if (c =? 0)%float && (d =? 0)%float then 0%float
  else (fsqr (a * d - c * b) / (c * c + d * d))%float.

Definition simplify_path_d (p : list ptd) (epsilon : float) (closed : bool) : res (list ptd) :=
  simplify_gen ptd float perp_d2_d PrimFloat.ltb MAX_DBL 0%float p (simp_eps_sqr epsilon) closed.
Definition rdp_path_flags_d (p : list ptd) (epsilon : float) : res (list bool) :=
  if length p <? 5 then Ok (repeat true (length p))
  else rdp_flags ptd ptd_eqb float perp_d2_d PrimFloat.leb 0%float p (fsqr epsilon).
Definition rdp_path_d (p : list ptd) (epsilon : float) : res (list ptd) :=
  rdp_gen ptd ptd_eqb float perp_d2_d PrimFloat.leb 0%float p (fsqr epsilon).

(* StripDuplicates<T> for any point type: std::unique + closing pops *)
Section StripDupGen.
  Variable P : Type.
  Variable peqb : P -> P -> bool.
  Fixpoint unique_from_g (last : P) (l : list P) : list P :=
    match l with
    | [] => []
    | x :: t => if peqb last x then unique_from_g last t else x :: unique_from_g x t
    end.
  Fixpoint pop_back_eq_g (fuel : nat) (l : list P) : res (list P) :=
    match fuel with
    | O => ErrFuel
    | S f =>
      if 1 <? length l then
        a <- rd l (length l - 1) ;; b <- rd l 0 ;;
        if peqb a b then pop_back_eq_g f (removelast l) else Ok l
      else Ok l
    end.
  Definition strip_duplicates_g (p : list P) (closed : bool) : res (list P) :=
    let u := match p with [] => [] | a :: t => a :: unique_from_g a t end in
    if closed then pop_back_eq_g (S (length u)) u else Ok u.
End StripDupGen.
Definition strip_duplicates_d (p : list ptd) (closed : bool) : res (list ptd) := strip_duplicates_g ptd ptd_eqb p closed.

(* TranslatePath<double> *)
Definition translate_path_d (p : list ptd) (dx dy : float) : list ptd :=
  map (fun q => (fst q + dx, snd q + dy)%float) p.

(* TransformPath<int64_t,double> (Point64(PointD): std::round) and TransformPath<double,int64_t> *)
Definition transform_path_di (p : list ptd) : path := map (fun q => (F2I64_round (fst q), F2I64_round (snd q))) p.
Definition transform_path_id (p : path) : list ptd := map (fun q => (Z2Ff (px q), Z2Ff (py q))) p.

(* TrimCollinear(const PathD&, int precision, bool): scale = std::pow(10, precision) (given),
   ScalePath<int64_t,double> (round each product), TrimCollinear(Path64), ScalePath<double,int64_t> by 1/scale.
   The range test of ScalePath (|coordinate * scale| beyond +-4.6e18 -> error) is outside the model. *)
Definition trim_collinear_d (p : list ptd) (scale : float) (is_open : bool) : res (list ptd) :=
  let p64 := map (fun q => (F2I64_round (fst q * scale), F2I64_round (snd q * scale))%float) p in
  r <- trim_collinear p64 is_open ;;
  let inv := (1 / scale)%float in
  Ok (map (fun q => (Z2Ff (px q) * inv, Z2Ff (py q) * inv)%float) r).

(* the Paths<T> overloads of the above *)
Definition simplify_paths (ps : list path) (eps : float) (closed : bool) := map_res (fun p => simplify_path p eps closed) ps.
Definition simplify_paths_d (ps : list (list ptd)) (eps : float) (closed : bool) := map_res (fun p => simplify_path_d p eps closed) ps.
Definition rdp_paths (ps : list path) (eps : float) := map_res (fun p => rdp_path p eps) ps.
Definition rdp_paths_d (ps : list (list ptd)) (eps : float) := map_res (fun p => rdp_path_d p eps) ps.
Definition strip_duplicates_paths_d (ps : list (list ptd)) (closed : bool) := map_res (fun p => strip_duplicates_d p closed) ps.

(* ------------------------------------------------------------------ GetBounds(Path64) / TranslatePath(Path64) *)
Definition I64_MAX : Z := (2 ^ 63 - 1)%Z.
Definition I64_LOWEST : Z := (- 2 ^ 63)%Z.

Definition bounds_step (acc : Z * Z * Z * Z) (q : pt) : Z * Z * Z * Z :=
  let '(xmin, ymin, xmax, ymax) := acc in
  let xmin := if (px q <? xmin)%Z then px q else xmin in
  let xmax := if (xmax <? px q)%Z then px q else xmax in
  let ymin := if (py q <? ymin)%Z then py q else ymin in
  let ymax := if (ymax <? py q)%Z then py q else ymax in
  (xmin, ymin, xmax, ymax).

(* Rect64(left, top, right, bottom) = (xmin, ymin, xmax, ymax) *)
Definition get_bounds (p : path) : Z * Z * Z * Z :=
  fold_left bounds_step p (I64_MAX, I64_MAX, I64_LOWEST, I64_LOWEST).

Definition translate_path (p : path) (dx dy : Z) : path :=
  map (fun q => ((px q + dx)%Z, (py q + dy)%Z)) p.

(* the int64 additions of TranslatePath do not overflow *)
Definition translate_ub_free (p : path) (dx dy : Z) : bool :=
  forallb (fun q => in_i64 (px q + dx) && in_i64 (py q + dy)) p.

(* ------------------------------------------------------------------ Length<int64_t> *)
(* for (; it != stop; ++it) result += Distance( *it, * (it + 1)); *)
Fixpoint length_loop (n i : nat) (p : path) (acc : float) : res float :=
  match n with
  | O => Ok acc
  | S n' => a <- rd p i ;; b <- rd p (S i) ;; length_loop n' (S i) p (acc + distance a b)%float
  end.

Definition path_length (p : path) (closed : bool) : res float :=
  let len := length p in
  if len <? 2 then Ok 0%float else
  r <- length_loop (len - 1) 0 p 0%float ;;
  if closed then a <- rd p (len - 1) ;; b <- rd p 0 ;; Ok (r + distance a b)%float
  else Ok r.

(* ------------------------------------------------------------------ Ellipse *)
(* The rotation recurrence, generic in the arithmetic so that the same term is run on binary64
   (model) and reasoned about on the reals (proofs/PathUtilsEllipse.v):
     for (i = 1; i < steps; ++i) { emit (dx, dy); x = dx*co - dy*si; dy = dy*co + dx*si; dx = x; } *)
Section EllipseRec.
  Variable T : Type.
  Variable tadd tsub tmul : T -> T -> T.
  Fixpoint ell_rec (n : nat) (co si dx dy : T) : list (T * T) :=
    match n with
    | O => []
    | S n' => (dx, dy) :: ell_rec n' co si (tsub (tmul dx co) (tmul dy si)) (tadd (tmul dy co) (tmul dx si))
    end.
End EllipseRec.

Definition ell_units (n : nat) (co si : float) : list (float * float) :=
  ell_rec float PrimFloat.add PrimFloat.sub PrimFloat.mul n co si co si.

(* radiusY and steps after the prologue; None: radiusX <= 0 (empty result).
   static_cast<size_t>(PI * sqrt((radiusX + radiusY) / 2)) *)
Definition ellipse_params (rx ry : float) (steps : Z) : option (float * Z) :=
  if (rx <=? 0)%float then None else
  let ry := if (ry <=? 0)%float then rx else ry in
  let steps := if (steps <=? 2)%Z
               then odflt 0%Z (F2Z_trunc (PI_DBL * PrimFloat.sqrt ((rx + ry) / 2))%float)
               else steps in
  Some (ry, steps).

(* the argument handed to std::sin / std::cos: 2 * PI / steps *)
Definition ellipse_angle (steps : Z) : float := (2 * PI_DBL / Z2Ff steps)%float.

(* Ellipse<double>(center, radiusX, radiusY, steps) given si = sin(angle), co = cos(angle) *)
Definition ellipse_d (cx cy rx ry : float) (steps : Z) (si co : float) : list (float * float) :=
  match ellipse_params rx ry steps with
  | None => []
  | Some (ry, steps) =>
    (cx + rx, cy)%float ::
    map (fun u => (cx + rx * fst u, cy + ry * snd u)%float) (ell_units (Z.to_nat (steps - 1)) co si)
  end.

(* Ellipse<int64_t>: center.x converts to double, Point64(double,double) rounds with std::round *)
Definition ellipse_i (c : pt) (rx ry : float) (steps : Z) (si co : float) : path :=
  map (fun q => (F2I64_round (fst q), F2I64_round (snd q)))
      (ellipse_d (Z2Ff (px c)) (Z2Ff (py c)) rx ry steps si co).

(* Ellipse(const Rect<T>&, steps) = Ellipse(rect.MidPoint(), Width * 0.5, Height * 0.5, steps);
   Rect64::MidPoint divides the int64 sums by 2 (truncation), RectD::MidPoint in binary64 *)
Definition ellipse_rect_i (l t r b : Z) (steps : Z) (si co : float) : path :=
  ellipse_i (Z.quot (l + r) 2, Z.quot (t + b) 2) (Z2Ff (r - l) * 0.5)%float (Z2Ff (b - t) * 0.5)%float steps si co.
Definition ellipse_rect_radii_i (l t r b : Z) : float * float := ((Z2Ff (r - l) * 0.5)%float, (Z2Ff (b - t) * 0.5)%float).
Definition ellipse_rect_d (l t r b : float) (steps : Z) (si co : float) : list (float * float) :=
  ellipse_d ((l + r) / 2)%float ((t + b) / 2)%float ((r - l) * 0.5)%float ((b - t) * 0.5)%float steps si co.
Definition ellipse_rect_radii_d (l t r b : float) : float * float := (((r - l) * 0.5)%float, ((b - t) * 0.5)%float).

(* ------------------------------------------------------------------ specification predicates (executable) *)
(* used by the property theorems (proofs/PathUtils*.v) and, extracted, to judge implementation outputs *)
Fixpoint sublistb (s l : path) : bool :=
  match s, l with
  | [], _ => true
  | _ :: _, [] => false
  | x :: s', y :: l' => if pt_eqb x y then sublistb s' l' else sublistb s l'
  end.

Definition path_eqb (a b : path) : bool :=
  (length a =? length b) && forallb (fun xy => pt_eqb (fst xy) (snd xy)) (combine a b).

Definition hd_pt (p : path) : option pt := match p with [] => None | a :: _ => Some a end.
Definition last_pt (p : path) : option pt := match p with [] => None | a :: t => Some (last t a) end.

Definition opt_pt_eqb (a b : option pt) : bool :=
  match a, b with Some x, Some y => pt_eqb x y | None, None => true | _, _ => false end.

(* out keeps the two end points of inp *)
Definition keeps_ends (out inp : path) : bool :=
  opt_pt_eqb (hd_pt out) (hd_pt inp) && opt_pt_eqb (last_pt out) (last_pt inp).

(* cyclic triples (p[i-1], p[i], p[i+1]) for every i, n >= 1 *)
Fixpoint triples_lin {A} (l : list A) : list (A * A * A) :=
  match l with
  | a :: ((b :: c :: _) as t) => (a, b, c) :: triples_lin t
  | _ => []
  end.

Definition cyc_triples {A} (p : list A) : list (A * A * A) :=
  match p with
  | [] => []
  | a :: t => match t with
              | [] => [(a, a, a)]
              | b :: _ => triples_lin (last t a :: p ++ [a])
              end
  end.

Definition no_cyc_dup (p : path) : bool :=
  forallb (fun e => negb (pt_eqb (fst e) (snd e))) (cyc_edges p).

(* no vertex where the path turns back on itself (collinear with negative dot product) *)
Definition no_reversal (p : path) : bool :=
  forallb (fun t => let '(a, b, c) := t in negb ((cross a b c =? 0)%Z && (dot a b c <? 0)%Z)) (cyc_triples p).

Definition no_cyc_collinear (p : path) : bool :=
  forallb (fun t => let '(a, b, c) := t in negb (cross a b c =? 0)%Z) (cyc_triples p).

(* the same for open paths (no wrap-around) *)
Definition no_lin_dup (p : path) : bool :=
  forallb (fun e => negb (pt_eqb (fst e) (snd e))) (open_edges p).

Definition no_lin_reversal (p : path) : bool :=
  forallb (fun t => let '(a, b, c) := t in negb ((cross a b c =? 0)%Z && (dot a b c <? 0)%Z)) (triples_lin p).

Definition no_lin_collinear (p : path) : bool :=
  forallb (fun t => let '(a, b, c) := t in negb (cross a b c =? 0)%Z) (triples_lin p).

(* the corner vertices of a closed path, in order *)
Definition corners (p : path) : path :=
  map (fun t => snd (fst t)) (filter (fun t => let '(a, b, c) := t in negb (cross a b c =? 0)%Z) (cyc_triples p)).

(* what TrimCollinear(closed) is specified to return on an input without duplicates and reversals *)
Definition corners_or_empty (p : path) : path :=
  let c := corners p in if length c <? 3 then [] else c.

(* SimplifyPath fix point: every (interior) vertex of the result is farther than epsilon from the line
   through its two neighbours in the result, measured with the code's function, line end points in
   either order (the code itself uses both orders) *)
Section FixSpec.
  Variable P : Type.
  Variable D : Type.
  Variable d2 : P -> P -> P -> D.
  Variable ltD : D -> D -> bool.
  Definition far_enough (epsSqr : D) (t : P * P * P) : bool :=
    let '(a, b, c) := t in ltD epsSqr (d2 b a c) || ltD epsSqr (d2 b c a).
  Definition simplify_fixed (out : list P) (epsSqr : D) (closed : bool) : bool :=
    if closed then (length out <? 3) || forallb (far_enough epsSqr) (cyc_triples out)
    else forallb (far_enough epsSqr) (triples_lin out).
End FixSpec.

Definition simplify_fixed_f (out : path) (epsilon : float) (closed : bool) : bool :=
  simplify_fixed pt float perp_d2 PrimFloat.ltb out (fsqr epsilon) closed.

(* RDP bound: for kept-index flags, every removed vertex i has d2 p[i] p[a] p[b] <= epsSqr where a, b are the
   nearest kept indices before and after i.  Returns the list of offending indices (removed vertices with no
   kept neighbour on one side are offending as well). *)
Section BoundSpec.
  Variable P : Type.
  Variable D : Type.
  Variable d2 : P -> P -> P -> D.
  Variable leD : D -> D -> bool.
  (* walk with the last kept point so far; [pending] = removed vertices since then (index, point) *)
  Fixpoint rdp_bad_aux (i : nat) (l : list P) (fl : list bool) (lastk : option P) (pending : list (nat * P))
           (epsSqr : D) : list nat :=
    match l, fl with
    | x :: l', f :: fl' =>
      if f then
        let bad := match lastk with
                   | None => map fst pending
                   | Some a => map fst (filter (fun ip => negb (leD (d2 (snd ip) a x) epsSqr)) pending)
                   end in
        bad ++ rdp_bad_aux (S i) l' fl' (Some x) [] epsSqr
      else rdp_bad_aux (S i) l' fl' lastk (pending ++ [(i, x)]) epsSqr
    | _, _ => map fst pending
    end.
  Definition rdp_bad (p : list P) (fl : list bool) (epsSqr : D) : list nat := rdp_bad_aux 0 p fl None [] epsSqr.
End BoundSpec.

Definition simplify_fixed_d (out : list ptd) (epsilon : float) (closed : bool) : bool :=
  simplify_fixed ptd float perp_d2_d PrimFloat.ltb out (fsqr epsilon) closed.
Definition rdp_bad_d (p : list ptd) (fl : list bool) (epsilon : float) : list nat :=
  rdp_bad ptd float perp_d2_d PrimFloat.leb p fl (fsqr epsilon).

Definition rdp_bad_f (p : path) (fl : list bool) (epsilon : float) : list nat :=
  rdp_bad pt float perp_d2 PrimFloat.leb p fl (fsqr epsilon).

(* ------------------------------------------------------------------ sanity *)
Example trim_ex1 : trim_collinear [(0,0);(5,0);(10,0);(10,10);(0,10)]%Z false = Ok [(0,0);(10,0);(10,10);(0,10)]%Z.
Proof. reflexivity. Qed.
Example trim_ex2 : trim_collinear [(5,0);(10,0);(10,10);(0,10);(0,0)]%Z false = Ok [(10,0);(10,10);(0,10);(0,0)]%Z.
Proof. reflexivity. Qed.
Example trim_ex3 : trim_collinear [(0,0);(5,0);(10,0)]%Z true = Ok [(0,0);(10,0)]%Z.
Proof. reflexivity. Qed.
Example perp_ex : perp_d2 (0,5)%Z (0,0)%Z (10,0)%Z = 25%float.
Proof. reflexivity. Qed.
Example simplify_ex :
  simplify_path [(0,0);(5,1);(10,0);(10,10);(0,10)]%Z 2%float true = Ok [(0,0);(10,0);(10,10);(0,10)]%Z.
Proof. vm_compute. reflexivity. Qed.
Example rdp_ex :
  rdp_path [(0,0);(5,1);(10,0);(15,7);(20,0)]%Z 2%float = Ok [(0,0);(10,0);(15,7);(20,0)]%Z.
Proof. vm_compute. reflexivity. Qed.
(* a path that ends where it starts: the chord runs to the last vertex that differs from the first; both are kept *)
(* two trailing vertices near the first one but not near one another: both are cut from the closed path *)
Example strip_near_fan :
  strip_near_equal [(0,0);(100,0);(100,100);(0,100);(0,4);(4,0)]%Z 25%float true = Ok [(0,0);(100,0);(100,100);(0,100)]%Z
  /\ strip_near_equal [(0,0);(100,0);(100,100);(0,100);(0,4);(4,0)]%Z 25%float false
     = Ok [(0,0);(100,0);(100,100);(0,100);(0,4);(4,0)]%Z.
Proof. split; vm_compute; reflexivity. Qed.
Example rdp_ex_ring :
  rdp_path [(0,0);(10,10);(20,0);(30,10);(40,0);(0,0);(0,0)]%Z 1%float = Ok [(0,0);(10,10);(20,0);(30,10);(40,0);(0,0)]%Z.
Proof. vm_compute. reflexivity. Qed.
Example simplify_ex_short :
  simplify_path [(0,0);(5,1);(10,0)]%Z 2%float false = Ok [(0,0);(10,0)]%Z.
Proof. vm_compute. reflexivity. Qed.
Example simplify_ex_huge_eps :
  simplify_path [(0,0);(1,5);(2,-5);(3,0);(3,0)]%Z 0x1p+664%float false = Ok [(0,0);(3,0)]%Z.
Proof. vm_compute. reflexivity. Qed.
Example trim_ex4 : trim_collinear [(0,0);(0,0)]%Z true = Ok [(0,0);(0,0)]%Z.
Proof. reflexivity. Qed.
