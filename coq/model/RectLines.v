(* Complete executable hand model of RectClipLines64::Execute / ExecuteInternal / GetPath and of the
   RectClip64 members they use (Add, GetNextLocation) -- CPP/Clipper2Lib/src/clipper.rectclip.cpp.

   * results_ (a vector of circular OutPt2 lists, results_[k] = the op added last) is a list of rings,
     newest ring first, each ring newest point first.  RectClipLines64::GetPath starts at op->next,
     i.e. at the point added first, and drops single-op rings.
   * every point carries a ghost tag [src] saying where it was taken from (input vertex i / computed on
     the input segment that ends at vertex i / rectangle corner); tags never influence the computation
     (Add compares coordinates only) and are erased by [untag].
   * loops run on explicit fuel; path[i] / path[i-1] are bounds-checked ([ErrOOB]); the theorems show
     that neither error can occur.
   * the segment intersection function is a Section variable (instantiated with the binary64 model
     [get_segment_intersection] at the end), so that the structural theorems do not depend on floats. *)
From Clip Require Import base.Geom base.FloatModel model.RectLeaf.
From Coq Require Import ZArith List Bool Lia Arith.
Local Open Scope Z_scope.

Inductive src :=
| SV (i : nat)    (* copy of the input vertex path[i] *)
| SI (i : nat)    (* ip / ip2 computed by a GetIntersection call that returned true on the input segment path[i-1] .. path[i] *)
| SX (i : nat)    (* legacy mode only: ip2 left behind by a second GetIntersection call that returned false *)
| SC (k : nat).   (* rect_as_path_[k] (RectClip64 only) *)

Definition tpt := (pt * src)%type.
Definition ring := list tpt.          (* newest first *)
Definition results := list ring.      (* newest first *)

Inductive err := ErrOOB | ErrFuel.
Inductive res (A : Type) := Ok (a : A) | Err (e : err).
Arguments Ok {A} a.
Arguments Err {A} e.

(* RectClip64::Add(pt, start_new) *)
Definition add (v : tpt) (start_new : bool) (rs : results) : results :=
  match rs with
  | [] => [[v]]
  | cur :: rest =>
    if start_new then [v] :: rs
    else match cur with
         | last :: _ => if pt_eqb (fst last) (fst v) then rs else (v :: cur) :: rest
         | [] => [v] :: rest     (* a ring is never empty *)
         end
  end.

Definition default_pt : pt := (0, 0).   (* Point64() *)

Section Lines.
  Variable gsi : pt -> pt -> pt -> pt -> pt -> bool * pt.
  (* legacy = true reproduces the code before /repo commit 4911de9 ("fix: RectClipLines no longer emits an unset
     point ..."), which ignored the result of the second GetIntersection call of a pass-through and emitted ip2
     anyway.  It exists only so that the check can recognise that defect (key lines.stale-ip2) should it come
     back; the model of the current code, and everything the theorems are about, is legacy = false. *)
  Variable legacy : bool.
  Variable r : rect.
  Variable path : list pt.

  Definition highI : nat := (length path - 1)%nat.
  Definition inner_fuel : nat := S (length path).

  (* while (i <= highI && c(path[i])) ++i; *)
  Fixpoint skip_while (c : pt -> bool) (fuel i : nat) : res nat :=
    match fuel with
    | O => Err ErrFuel
    | S f =>
      if (i <=? highI)%nat then
        match nth_error path i with
        | None => Err ErrOOB
        | Some p => if c p then skip_while c f (S i) else Ok i
        end
      else Ok i
    end.

  (* the `case Location::Inside` loop of GetNextLocation *)
  Fixpoint scan_inside (fuel i : nat) (rs : results) : res (location * nat * results) :=
    match fuel with
    | O => Err ErrFuel
    | S f =>
      if (i <=? highI)%nat then
        match nth_error path i with
        | None => Err ErrOOB
        | Some p =>
          if px p <? r_left r then Ok (Left, i, rs)
          else if px p >? r_right r then Ok (Right, i, rs)
          else if py p >? r_bottom r then Ok (Bottom, i, rs)
          else if py p <? r_top r then Ok (Top, i, rs)
          else scan_inside f (S i) (add (p, SV i) false rs)
        end
      else Ok (Inside, i, rs)
    end.

  (* the part of a side case after its while loop *)
  Definition after_skip (loc : location) (i : nat) (classify : pt -> location) : res (location * nat) :=
    if (highI <? i)%nat then Ok (loc, i)
    else match nth_error path i with
         | None => Err ErrOOB
         | Some p => Ok (classify p, i)
         end.

  (* RectClip64::GetNextLocation(path, loc, i, highI) : returns (loc, i, results_) *)
  Definition get_next_location (loc : location) (i : nat) (rs : results) : res (location * nat * results) :=
    let side (c : pt -> bool) (classify : pt -> location) :=
      match skip_while c inner_fuel i with
      | Err e => Err e
      | Ok i' => match after_skip loc i' classify with Err e => Err e | Ok (l, i'') => Ok (l, i'', rs) end
      end in
    match loc with
    | Left =>
      side (fun p => px p <=? r_left r)
           (fun p => if px p >=? r_right r then Right else if py p <=? r_top r then Top
                     else if py p >=? r_bottom r then Bottom else Inside)
    | Top =>
      side (fun p => py p <=? r_top r)
           (fun p => if py p >=? r_bottom r then Bottom else if px p <=? r_left r then Left
                     else if px p >=? r_right r then Right else Inside)
    | Right =>
      side (fun p => px p >=? r_right r)
           (fun p => if px p <=? r_left r then Left else if py p <=? r_top r then Top
                     else if py p >=? r_bottom r then Bottom else Inside)
    | Bottom =>
      side (fun p => py p >=? r_bottom r)
           (fun p => if py p <=? r_top r then Top else if px p <=? r_left r then Left
                     else if px p >=? r_right r then Right else Inside)
    | Inside => scan_inside inner_fuel i rs
    end.

  Definition is_inside (l : location) : bool := match l with Inside => true | _ => false end.

  (* the main while loop of RectClipLines64::ExecuteInternal *)
  Fixpoint lines_loop (fuel i : nat) (loc : location) (rs : results) : res results :=
    match fuel with
    | O => Err ErrFuel
    | S f =>
      if (i <=? highI)%nat then
        let prev := loc in
        match get_next_location loc i rs with
        | Err e => Err e
        | Ok (loc, i, rs) =>
          if (highI <? i)%nat then Ok rs
          else
            match nth_error path i, (match i with O => None | S j => nth_error path j end) with
            | Some pi, Some prev_pt =>
              let '(ok, _, ip) := get_intersection_g gsi r pi prev_pt loc default_pt in
              if negb ok then lines_loop f (S i) loc rs
              else if is_inside loc then lines_loop f i loc (add (ip, SI i) true rs)
              else if negb (is_inside prev) then
                let '(ok2, _, ip2) := get_intersection_g gsi r prev_pt pi prev default_pt in
                if ok2 then lines_loop f i loc (add (ip, SI i) false (add (ip2, SI i) true rs))
                else if legacy then lines_loop f i loc (add (ip, SI i) false (add (ip2, SX i) true rs))
                else lines_loop f i loc rs
              else lines_loop f i loc (add (ip, SI i) false rs)
            | _, _ => Err ErrOOB
            end
        end
      else Ok rs
    end.

  (* while (i <= highI && !GetLocation(rect_, path[i], prev)) ++i;   returns (i, prev) *)
  Fixpoint skip_boundary (fuel i : nat) (prev : location) : res (nat * location) :=
    match fuel with
    | O => Err ErrFuel
    | S f =>
      if (i <=? highI)%nat then
        match nth_error path i with
        | None => Err ErrOOB
        | Some p => let '(b, l) := get_location r p in
                    if negb b then skip_boundary f (S i) l else Ok (i, l)
        end
      else Ok (i, prev)
    end.

  (* for (const auto& pt : path) Add(pt); *)
  Fixpoint add_all (i : nat) (l : list pt) (rs : results) : results :=
    match l with
    | [] => rs
    | p :: t => add_all (S i) t (add (p, SV i) false rs)
    end.

  Definition main_fuel : nat := (2 * length path + 2)%nat.

  (* RectClipLines64::ExecuteInternal : the final results_ *)
  Definition lines_internal : res results :=
    if rect_is_empty r || (length path <? 2)%nat then Ok []
    else
      match nth_error path 0 with
      | None => Err ErrOOB
      | Some p0 =>
        let '(b0, loc0) := get_location r p0 in
        let start (loc : location) :=
          let rs := if is_inside loc then add (p0, SV 0) false [] else [] in
          lines_loop main_fuel 1 loc rs in
        if negb b0 then
          match skip_boundary inner_fuel 1 Inside with
          | Err e => Err e
          | Ok (i, prev) =>
            if (highI <? i)%nat then Ok (add_all 0 path [])
            else start (if is_inside prev then Inside else loc0)
          end
        else start loc0
      end.

  (* RectClipLines64::GetPath for every results_ entry, empty ones dropped, in results_ order *)
  Definition rings_out (rs : results) : list (list tpt) :=
    filter (fun p => (2 <=? length p)%nat) (map (@rev tpt) (rev rs)).

  (* the body of the for loop of RectClipLines64::Execute for one path *)
  Definition lines_one_t : res (list (list tpt)) :=
    if negb (rect_intersects r (get_bounds path)) then Ok []
    else match lines_internal with Err e => Err e | Ok rs => Ok (rings_out rs) end.
End Lines.

Definition untag (l : list (list tpt)) : list (list pt) := map (map fst) l.

(* RectClipLines(const Rect64&, const Paths64&) incl. the wrapper's early return; tagged points *)
Fixpoint rect_clip_lines_paths_t (gsi : pt -> pt -> pt -> pt -> pt -> bool * pt) (legacy : bool) (r : rect) (ps : list (list pt))
  : res (list (list tpt)) :=
  match ps with
  | [] => Ok []
  | p :: t =>
    match lines_one_t gsi legacy r p with
    | Err e => Err e
    | Ok o => match rect_clip_lines_paths_t gsi legacy r t with Err e => Err e | Ok o' => Ok (o ++ o') end
    end
  end.

(* one polyline, any intersection function, current code *)
Definition rect_clip_lines_g (gsi : pt -> pt -> pt -> pt -> pt -> bool * pt) (r : rect) (p : list pt) : res (list (list tpt)) :=
  if rect_is_empty r then Ok [] else lines_one_t gsi false r p.

Definition rect_clip_lines_t := rect_clip_lines_g get_segment_intersection.

(* regression classifier only: the pre-fix behaviour, with the stale points tagged SX *)
Definition rect_clip_lines_legacy_t (r : rect) (p : list pt) : res (list (list tpt)) :=
  if rect_is_empty r then Ok [] else lines_one_t get_segment_intersection true r p.

Definition res_default {A} (d : A) (x : res A) : A := match x with Ok a => a | Err _ => d end.

(* the model named in the property: one polyline in, list of pieces out (errors, which the theorems exclude, map to []) *)
Definition rect_clip_lines (r : rect) (p : list pt) : list (list pt) :=
  untag (res_default [] (rect_clip_lines_t r p)).

Definition rect_clip_lines_paths (r : rect) (ps : list (list pt)) : res (list (list pt)) :=
  if rect_is_empty r then Ok []
  else match rect_clip_lines_paths_t get_segment_intersection false r ps with Err e => Err e | Ok o => Ok (untag o) end.

(* sanity *)
Example lines_ex1 :
  rect_clip_lines (mkRect 0 0 10 10) [(-5, 5); (5, 5); (15, 5)] = [[(0, 5); (5, 5); (10, 5)]].
Proof. vm_compute. reflexivity. Qed.

Example lines_ex2 :
  rect_clip_lines (mkRect 0 0 10 10) [(-5, 5); (15, 5); (15, 20); (5, 20); (5, 2)] = [[(0, 5); (10, 5)]; [(5, 10); (5, 2)]].
Proof. vm_compute. reflexivity. Qed.
