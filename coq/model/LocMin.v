(* Hand model of clipper.engine.cpp  AddPaths_  (closed paths), LocMinSorter and the stable sort of the
   local-minima list done by ClipperBase::Reset.  Definitions only (+ sanity Examples); lemmas are in
   proofs/LocMin*.v.  Tie: HM+X through harness/cx_locmin.cpp (reads vertex_lists_/minima_list_ after
   AddSubject/AddClip/Reset through private access) against the extraction of this file, exact comparison.

   The code, for one closed path:
     1. copies the points into a Vertex array skipping every point equal to the previously *kept* one, [strip];
     2. `if (!prev_v || !prev_v->prev) continue;`  fewer than two kept points: nothing is linked, [NotLinked];
     3. `if (!is_open && prev_v->pt == v0->pt) prev_v = prev_v->prev;`  drops ONE closing vertex (cnt is not
        decremented), closes the ring;
     4. `if (cnt < 2 || (cnt == 2 && !is_open)) continue;`  ring stays without flags/minima;
     5. walks back from v0->prev over vertices with v0's y to find going_up (= going_up0); a completely flat
        ring is left without flags/minima;
     6. walks forward from v0->next to v0 flagging prev_v LocalMax / adding it as a local minimum whenever the
        vertical direction flips (horizontal edges neither flip nor flag);
     7. `else if (going_up != going_up0)` flags/adds the last ring vertex.
   Y axis is positive DOWN: "going up" = y decreasing; a local minimum is a bottom vertex (largest y). *)
From Clip Require Import base.Geom.
Local Open Scope Z_scope.

(* VertexFlags of a closed-path vertex: LocalMax = 4, LocalMin = 8 (OpenStart/OpenEnd are never set here) *)
Record vflags := { f_max : bool; f_min : bool }.
Definition fl_empty : vflags := {| f_max := false; f_min := false |}.
Definition set_max (f : vflags) : vflags := {| f_max := true; f_min := f_min f |}.
Definition set_min (f : vflags) : vflags := {| f_max := f_max f; f_min := true |}.
Definition flags_code (f : vflags) : Z := (if f_max f then 4 else 0) + (if f_min f then 8 else 0).

(* step 1: `if (prev_v->pt == pt) continue;` *)
Fixpoint skip_dups (last : pt) (l : list pt) : list pt :=
  match l with
  | [] => []
  | p :: t => if pt_eqb last p then skip_dups last t else p :: skip_dups p t
  end.

Definition strip (p : path) : list pt :=
  match p with [] => [] | a :: t => a :: skip_dups a t end.

(* AddLocMin: `if (LocalMin & vert.flags) return;` else set the flag and append the vertex (here: its ring index) *)
Definition add_loc_min (f : vflags) (i : nat) : vflags * list nat :=
  if f_min f then (f, []) else (set_min f, [i]).

(* step 5: l = the ring vertices met walking back from v0->prev; None = walked round to v0 (flat ring) *)
Fixpoint back_walk (y0 : Z) (l : list pt) : option bool :=
  match l with
  | [] => None
  | p :: t => if py p =? y0 then back_walk y0 t else Some (y0 <? py p)
  end.

(* step 6: prev_v = [prev] (ring index i), curr_v ranges over [rest]; result: flags given to the successive
   prev_v's, the minima added (ring indices, in list order), going_up at loop exit *)
Fixpoint scan (up : bool) (i : nat) (prev : pt) (rest : list pt) : list vflags * list nat * bool :=
  match rest with
  | [] => ([], [], up)
  | c :: t =>
    if (py prev <? py c) && up then
      let '(fs, ms, u) := scan false (S i) c t in (set_max fl_empty :: fs, ms, u)
    else if (py c <? py prev) && negb up then
      let '(f, m) := add_loc_min fl_empty i in
      let '(fs, ms, u) := scan true (S i) c t in (f :: fs, m ++ ms, u)
    else
      let '(fs, ms, u) := scan up (S i) c t in (fl_empty :: fs, ms, u)
  end.

Inductive add_result :=
| NotLinked                                             (* step 2 *)
| Ring (r : list (pt * vflags)) (mins : list nat).      (* ring read from v0 along ->next; minima = ring indices *)

Definition drop_closing (d : list pt) : list pt :=
  match d with
  | [] => []
  | v0 :: _ => if pt_eqb (last d v0) v0 then removelast d else d
  end.

Definition add_path (p : path) : add_result :=
  let d := strip p in
  match d with
  | [] | [_] => NotLinked
  | v0 :: _ =>
    let cnt := length d in
    let r := drop_closing d in
    let bare := Ring (map (fun v => (v, fl_empty)) r) [] in
    if Nat.eqb cnt 2 then bare
    else match back_walk (py v0) (rev (tl r)) with
         | None => bare
         | Some up0 =>
           let '(fs, ms, up) := scan up0 0 v0 (tl r) in
           let ilast := length (tl r) in
           let '(fl, ml) :=
             if Bool.eqb up up0 then (fl_empty, [])
             else if up0 then add_loc_min fl_empty ilast
             else (set_max fl_empty, []) in
           Ring (combine r (fs ++ [fl])) (ms ++ ml)
         end
  end.

(* ---------- the minima list of a whole clipper and its sort ---------- *)

(* a LocalMinima entry as far as the sweep can see it: the vertex (point), polytype, and the flagged ring read
   from that vertex (stands for the Vertex* identity) *)
Record locmin := { lm_pt : pt; lm_clip : bool; lm_ring : list (pt * vflags) }.

Fixpoint rotl_n {A} (k : nat) (l : list A) : list A :=
  match k, l with
  | O, _ => l
  | S k', [] => []
  | S k', a :: t => rotl_n k' (t ++ [a])
  end.

Definition minima_of (is_clip : bool) (p : path) : list locmin :=
  match add_path p with
  | NotLinked => []
  | Ring r ms =>
    map (fun i => {| lm_pt := fst (nth i r ((0, 0), fl_empty)); lm_clip := is_clip; lm_ring := rotl_n i r |}) ms
  end.

(* AddSubject(S) then AddClip(C): AddPaths_ appends path by path *)
Definition minima_list (S C : paths) : list locmin :=
  flat_map (minima_of false) S ++ flat_map (minima_of true) C.

(* LocMinSorter()(a, b), on the vertex points *)
Definition locmin_before (a b : pt) : bool :=
  if negb (py b =? py a) then py b <? py a else px a <? px b.

(* std::stable_sort specification, executable form: insertion from the right; an element is put in front of
   the first element that is not strictly before it, so equivalent elements keep their input order *)
Section Sort.
  Context {A : Type} (before : A -> A -> bool).
  Fixpoint insert_st (x : A) (l : list A) : list A :=
    match l with
    | [] => [x]
    | y :: t => if before y x then y :: insert_st x t else x :: y :: t
    end.
  Fixpoint stable_sort (l : list A) : list A :=
    match l with [] => [] | x :: t => insert_st x (stable_sort t) end.
End Sort.

Definition sorted_minima (S C : paths) : list locmin :=
  stable_sort (fun a b => locmin_before (lm_pt a) (lm_pt b)) (minima_list S C).

(* ---------- representation changes used by C13 ---------- *)

(* every vertex p_i repeated (1 + m_i) times (m shorter than p: remaining vertices once) *)
Fixpoint repeat_each (m : list nat) (p : list pt) : list pt :=
  match p with
  | [] => []
  | a :: t => (a :: repeat a (hd O m)) ++ repeat_each (tl m) t
  end.

(* plus c copies of the first vertex appended (c = 1: an explicit closing vertex) *)
Definition insert_dups (m : list nat) (c : nat) (p : path) : path :=
  match p with
  | [] => []
  | a :: _ => repeat_each m p ++ repeat a c
  end.

(* ---------- sanity ---------- *)
Example ex_square :
  add_path [(0,0);(10,0);(10,10);(0,10)] =
  Ring [((0,0), fl_empty); ((10,0), set_max fl_empty); ((10,10), fl_empty); ((0,10), set_min fl_empty)] [3%nat].
(* flags sit at the END (in path direction) of a horizontal run *)
Proof. vm_compute. reflexivity. Qed.

Example ex_closing_dups :
  add_path (insert_dups [1%nat; 0%nat; 2%nat] 1 [(0,0);(10,0);(10,10);(0,10)]) = add_path [(0,0);(10,0);(10,10);(0,10)].
Proof. vm_compute. reflexivity. Qed.

Example ex_two_points : add_path [(0,0);(5,5);(5,5)] = Ring [((0,0), fl_empty); ((5,5), fl_empty)] [].
Proof. vm_compute. reflexivity. Qed.

(* cnt is not decremented when the closing vertex is dropped: A,B,A is processed as a 2-vertex ring *)
Example ex_aba : add_path [(0,0);(5,5);(0,0)] = Ring [((0,0), set_max fl_empty); ((5,5), set_min fl_empty)] [1%nat].
Proof. vm_compute. reflexivity. Qed.

Example ex_flat : add_path [(0,0);(5,0);(2,0)] = Ring [((0,0), fl_empty); ((5,0), fl_empty); ((2,0), fl_empty)] [].
Proof. vm_compute. reflexivity. Qed.

Example ex_sort :
  map lm_pt (sorted_minima [[(0,0);(10,0);(10,10);(0,10)]] [[(5,5);(3,20);(1,5)]; [(50,2);(60,10);(40,10)]])
  = [(3,20); (0,10); (40,10)].
Proof. vm_compute. reflexivity. Qed.
